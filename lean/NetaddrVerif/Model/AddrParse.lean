/-
Model/AddrParse.lean — `netaddr.strategy.ipv4/ipv6.str_to_int / int_to_str / valid_str` with the
flags INET_PTON / ZEROFILL, the three IPv6 dialects, and `IPAddress.__init__` for string
arguments (explicit version, the try-IPv4-then-IPv6 loop, the '/' refusal), as they are NOW
(ZEROFILL preprocessing inside the `try`).

The back end chosen at import time is a parameter: `platform` = `socket.inet_pton/inet_ntop`
(Model/Text4, Text6), `fallback` = `netaddr.fbsocket` (Model/FbSocket).  `socket.inet_aton` is
used by default-mode IPv4 parsing in both configurations (`strategy/ipv4.py:11`).
-/
import NetaddrVerif.Model.Text4
import NetaddrVerif.Model.Text6
import NetaddrVerif.Model.FbSocket
import NetaddrVerif.Model.PyRuntime
namespace NV.AddrParse
open NV NV.Text4

inductive Backend where
  | platform | fallback
deriving DecidableEq, Repr

/-- `netaddr.core` flag bits -/
def INET_PTON : Nat := 1
def ZEROFILL : Nat := 2
def NOHOST : Nat := 4

def hasFlag (flags bit : Nat) : Bool := flags &&& bit != 0

/-- `_inet_pton(AF_INET, ·)` of `strategy/ipv4.py` -/
def inetPton4 : Backend → List Char → Option Nat
  | .platform => Text4.pton4
  | .fallback => FbSocket.pton4

/-- `_inet_pton(AF_INET6, ·)` of `strategy/ipv6.py` -/
def inetPton6 : Backend → List Char → Option Nat
  | .platform => Text6.pton6
  | .fallback => FbSocket.pton6

/-- `_inet_ntop(AF_INET6, ·)` of `strategy/ipv6.py` -/
def inetNtop6 : Backend → Nat → List Char
  | .platform => Text6.ntop6
  | .fallback => FbSocket.ntop6

/-- ZEROFILL preprocessing: `'.'.join(['%d' % int(i) for i in addr.split('.')])`;
    `none` = `int()` raised ValueError -/
def zerofill (addr : List Char) : Option (List Char) :=
  ((addr.splitOn '.').mapM (fun i => (Py.pyInt 10 i).map showInt)).map (fun ts => ['.'].intercalate ts)

/-- `strategy.ipv4.str_to_int(addr, flags)`: everything inside one `try`, any exception becomes
    AddrFormatError -/
def strToInt4 (be : Backend) (addr : List Char) (flags : Nat) : R Nat :=
  let addr? := if hasFlag flags ZEROFILL then zerofill addr else some addr
  match addr? with
  | none => .error .addrFormat
  | some addr =>
    let r := if hasFlag flags INET_PTON then inetPton4 be addr else Text4.aton addr
    match r with
    | some v => .ok v
    | none => .error .addrFormat

/-- `strategy.ipv6.str_to_int(addr, flags)` (flags unused) -/
def strToInt6 (be : Backend) (addr : List Char) (_flags : Nat) : R Nat :=
  match inetPton6 be addr with
  | some v => .ok v
  | none => .error .addrFormat

def strToInt (be : Backend) (ver : Nat) (addr : List Char) (flags : Nat) : R Nat :=
  if ver = 4 then strToInt4 be addr flags else strToInt6 be addr flags

/-- `strategy.ipv4.valid_str(addr, flags)` -/
def validStr4 (be : Backend) (addr : List Char) (flags : Nat) : R Bool :=
  if addr == [] then .error .addrFormat else
  match strToInt4 be addr flags with
  | .ok _ => .ok true
  | .error _ => .ok false

/-- `strategy.ipv6.valid_str(addr)` -/
def validStr6 (be : Backend) (addr : List Char) : R Bool :=
  if addr == [] then .error .addrFormat else
  match inetPton6 be addr with
  | some _ => .ok true
  | none => .ok false

/-- the IPv6 dialect classes of `strategy/ipv6.py` -/
inductive Dialect where
  | compact | full | verbose
deriving DecidableEq, Repr

/-- `strategy.ipv6.int_to_str(int_val, dialect)` for `0 ≤ int_val ≤ max_int` -/
def intToStr6 (be : Backend) (d : Dialect) (v : Nat) : List Char :=
  match d with
  | .compact => inetNtop6 be v
  | .full => [':'].intercalate ((Text6.words v).map Text6.hex)
  | .verbose => [':'].intercalate ((Text6.words v).map Text6.hex4)

/-- `module.int_to_str(value)` with the default dialect, as `str(IPAddress)` uses it -/
def intToStr (be : Backend) (ver : Nat) (v : Nat) : List Char :=
  if ver = 4 then Text4.ntoa v else intToStr6 be .compact v

/-- `IPAddress(addr, version, flags)` for a `str` addr.
    Order as in the code: invalid explicit version → ValueError; '/' in addr → ValueError;
    implicit version: IPv4 then IPv6, every exception of a module's `str_to_int` means "next";
    explicit version: AddrFormatError re-raised. -/
def ipAddress (be : Backend) (addr : List Char) (version : Option Nat) (flags : Nat) : R Addr :=
  match version with
  | some ver =>
    if ver ≠ 4 ∧ ver ≠ 6 then .error .value
    else if addr.contains '/' then .error .value
    else match strToInt be ver addr flags with
      | .ok v => .ok ⟨ver, v⟩
      | .error _ => .error .addrFormat
  | none =>
    if addr.contains '/' then .error .value
    else match strToInt4 be addr flags with
      | .ok v => .ok ⟨4, v⟩
      | .error _ =>
        match strToInt6 be addr flags with
        | .ok v => .ok ⟨6, v⟩
        | .error _ => .error .addrFormat

/-! ### `repr(IPAddress)` (`BaseIP.__repr__`: `"%s('%s')" % (self.__class__.__name__, self)`) -/

def reprPrefix : List Char := "IPAddress('".toList
def reprSuffix : List Char := "')".toList

/-- `repr(ip)` for an `IPAddress` object: the class name and `str(ip)` in single quotes -/
def reprAddr (be : Backend) (a : Addr) : List Char :=
  reprPrefix ++ (intToStr be a.ver a.val ++ reprSuffix)

/-- the text between `IPAddress('` and `')` (no `eval`: plain prefix / suffix removal);
    `none` when the string does not have that frame -/
def unquoteRepr (s : List Char) : Option (List Char) :=
  if reprPrefix.isPrefixOf s && reprSuffix.isSuffixOf (s.drop reprPrefix.length) then
    some ((s.drop reprPrefix.length).take (s.length - reprPrefix.length - reprSuffix.length))
  else none

end NV.AddrParse
