/-
Model/Registry.lean — C19: IANA `.info` lookup and the IEEE index parsers / record readers.

(a) `withinBounds`, `query`            netaddr/ip/iana.py `_within_bounds`, `query`
(b) `pyLines`, `genLoop`, `ouiIndex`, `iabIndex`
                                        netaddr/eui/ieee.py `OUIIndexParser.parse`, `IABIndexParser.parse`
                                        (the `skip_header / marker / size += len(line)` loop; `fh.readline()` of a
                                        binary file is `pyLines`)
(c) `parseRecord`, `lookupRows`, `ouiRecords`, `iabRecord`
                                        netaddr/eui/__init__.py `OUI.__init__/_parse_data`, `IAB.__init__/_parse_data`,
                                        netaddr/eui/ieee.py `load_index`
(d) `withinBoundsObj`, `queryObjD`      `.info` is a `BaseIP` property (netaddr/ip/__init__.py:228-236): the same
                                        `iana.query` run on an `IPNetwork` / `IPRange` (block-in-block `_within_bounds`,
                                        `is_multicast()` of a block); containment is the C04 model (`Model/Contains.lean`)
(e) `euiOui`, `euiIab`, `euiInfo`       netaddr/eui/__init__.py `EUI.oui`, `EUI.is_iab`, `EUI.iab`, `EUI.info`,
                                        `OUI.__init__` (int branch), `OUI.registration`, `IAB.split_iab_mac`

Core Lean only.  Bytes are `Nat` (0..255), text after `.decode('UTF-8')` is `List Char`.
-/
import NetaddrVerif.Model.Basic
import NetaddrVerif.Model.PyRuntime
import NetaddrVerif.Model.Contains
import NetaddrVerif.Gen.Iana
namespace NV.Registry

/-! ## (a) IANA lookup -/

/-- The key object of an `IANA_INFO[...]` entry as `DictUpdater.update` builds it:
    an `IPNetwork`, an `IPRange` (multicast ranges that are not one CIDR) or an `IPAddress`. -/
inductive Key where
  | net (n : Net)
  | rng (r : Rng)
  | addr (a : Addr)
deriving DecidableEq, Repr, Inhabited

/-- One dict entry: `id` names the record (position in the dict), `key` is the dict key. -/
structure Rec where
  id : Nat
  key : Key
deriving DecidableEq, Repr, Inhabited

/-- `_within_bounds(ip, ip_range)`:
    * key has `.first` (IPNetwork / IPRange): `ip in ip_range`, i.e.
      `IPNetwork.__contains__` (version test, then `other._value >> shiftwidth == self._value >> shiftwidth`
      with `shiftwidth = width - prefixlen`) or `IPRange.__contains__`
      (`start <= value and end >= value`);
    * key has `.value` (IPAddress): `ip == ip_range`, `BaseIP.__eq__` on `key() = (version, value)`. -/
def withinBounds (ip : Addr) : Key → Bool
  | .net n =>
    if n.ver != ip.ver then false
    else
      let shiftwidth := width n.ver - n.plen
      let selfNet := n.val >>> shiftwidth
      let otherNet := ip.val >>> shiftwidth
      otherNet == selfNet
  | .rng r =>
    if r.ver != ip.ver then false
    else r.lo ≤ ip.val && r.hi ≥ ip.val
  | .addr a => ip.ver == a.ver && ip.val == a.val

/-- `IPV4_MULTICAST` (`netaddr/ip/__init__.py`), regenerated from the imported module -/
def multicastNet : Key := .net ⟨4, Gen.ipv4MulticastNet.1, Gen.ipv4MulticastNet.2⟩

/-- `IPAddress.is_multicast()` for an IPv4 address: `self in IPV4_MULTICAST`, i.e. the same
    `IPNetwork.__contains__` as above -/
def isMulticast4 (v : Nat) : Bool := withinBounds ⟨4, v⟩ multicastNet

/-- The four `IANA_INFO` dicts (entries in dict order). -/
structure Tables where
  ipv4 : List Rec
  ipv6 : List Rec
  ipv6u : List Rec
  mcast : List Rec
deriving Repr, Inhabited

/-- The four result lists of `query`, an absent key read as the empty list (a view that loses
    "absent" vs "`[]`"; the dict itself is `InfoD` / `queryD` below, which is what the driver runs;
    `C19L.queryD_eq` relates the two). -/
structure Info where
  ipv4 : List Rec
  ipv6 : List Rec
  ipv6u : List Rec
  mcast : List Rec
deriving DecidableEq, Repr, Inhabited

/-- the `for key, record in dict.items(): if _within_bounds(ip, key): append` scan -/
def scan (ip : Addr) (t : List Rec) : List Rec := t.filter (fun r => withinBounds ip r.key)

/-- `iana.query(ip_addr)` -/
def query (T : Tables) (ip : Addr) : Info :=
  if ip.ver = 4 then
    { ipv4 := scan ip T.ipv4
      mcast := if isMulticast4 ip.val then scan ip T.mcast else []
      ipv6 := [], ipv6u := [] }
  else if ip.ver = 6 then
    { ipv6 := scan ip T.ipv6
      ipv6u := scan ip T.ipv6u
      ipv4 := [], mcast := [] }
  else { ipv4 := [], ipv6 := [], ipv6u := [], mcast := [] }

/-! ### the dict itself: which keys exist

`query` builds `info = {}` and executes `info.setdefault(k, [])` only at a hit, so a registry without a hit
has NO key in the returned dict (it is not mapped to `[]`).  `IPAddress.info` wraps the dict in
`DictDotLookup`: `info[k]` is the list for a present key and `None` for an absent one
(`__getitem__` returns `None` implicitly), `info.k` is the list for a present key and raises
AttributeError for an absent one.  `InfoD` keeps the difference: `none` = key absent. -/

/-- the dict `query` returns, key by key (`none` = key absent, `some l` = key present with list `l`) -/
structure InfoD where
  ipv4 : Option (List Rec)
  ipv6 : Option (List Rec)
  ipv6u : Option (List Rec)
  mcast : Option (List Rec)
deriving DecidableEq, Repr, Inhabited

/-- `for key, record in dict.items(): if _within_bounds(ip, key): info.setdefault(k, []); info[k].append(record)`
    with `acc` = the current state of `info.get(k)` -/
def scanD (ip : Addr) : List Rec → Option (List Rec) → Option (List Rec)
  | [], acc => acc
  | r :: t, acc =>
    if withinBounds ip r.key then
      let cur := match acc with | none => [] | some l => l     -- info.setdefault(k, [])
      scanD ip t (some (cur ++ [r]))                            -- info[k].append(record)
    else scanD ip t acc

/-- `iana.query(ip_addr)`, as the dict it is -/
def queryD (T : Tables) (ip : Addr) : InfoD :=
  if ip.ver = 4 then
    { ipv4 := scanD ip T.ipv4 none
      mcast := if isMulticast4 ip.val then scanD ip T.mcast none else none
      ipv6 := none, ipv6u := none }
  else if ip.ver = 6 then
    { ipv6 := scanD ip T.ipv6 none
      ipv6u := scanD ip T.ipv6u none
      ipv4 := none, mcast := none }
  else { ipv4 := none, ipv6 := none, ipv6u := none, mcast := none }

/-- `DictDotLookup.__getitem__`: the value, `None` (here `none`) for an absent key; never raises -/
def getItem (v : Option (List Rec)) : Option (List Rec) := v

/-- attribute access `info.IPv4` on the `DictDotLookup`: AttributeError (`Err.other`) for an absent key -/
def getAttr (v : Option (List Rec)) : R (List Rec) :=
  match v with
  | none => .error .other
  | some l => .ok l

/-! ## (b) index parsers -/

abbrev Line := List Nat

/-- `fh.readline()` until EOF on a binary file: split after every `\n` (10); the last line may
    lack the terminator; no empty line is ever returned. `acc` = current line, reversed. -/
def linesAux : List Nat → List Nat → List Line
  | [], acc => if acc.isEmpty then [] else [acc.reverse]
  | b :: t, acc => if b = 10 then (b :: acc).reverse :: linesAux t [] else linesAux t (b :: acc)

def pyLines (bs : List Nat) : List Line := linesAux bs []

/-- `pat in line` on bytes -/
def hasSub (pat : List Nat) : List Nat → Bool
  | [] => pat.isEmpty
  | b :: t => pat.isPrefixOf (b :: t) || hasSub pat t

/-- `b'(hex)'` -/
def hexMarker : List Nat := [40, 104, 101, 120, 41]
/-- `b'(base 16)'` -/
def base16Marker : List Nat := [40, 98, 97, 115, 101, 32, 49, 54, 41]

def hasHex (l : Line) : Bool := hasSub hexMarker l
def hasBase16 (l : Line) : Bool := hasSub base16Marker l

/-- ASCII whitespace of `bytes.split()` / `bytes.strip()` -/
def isWsB (b : Nat) : Bool := b == 32 || b == 9 || b == 10 || b == 13 || b == 11 || b == 12

/-- `line.split()[0]` on bytes; `IndexError` when the line is blank -/
def firstTok (l : Line) : R (List Nat) :=
  match (l.dropWhile isWsB).takeWhile (fun b => !isWsB b) with
  | [] => .error .index
  | t => .ok t

def toChars (bs : List Nat) : List Char := bs.map Char.ofNat

/-- `int(b, 16)` on bytes (`ValueError` = `Err.value`) -/
def intHex (bs : List Nat) : R Int :=
  match Py.pyInt 16 (toChars bs) with
  | some v => .ok v
  | none => .error .value

/-- `x.replace(b'-', b'')` -/
def dropHyphens (bs : List Nat) : List Nat := bs.filter (· != 45)

/-- one notified row `[index, offset, size]` -/
abbrev Row (K : Type) := K × Nat × Nat

/-- The loop shared by `OUIIndexParser.parse` and `IABIndexParser.parse`.
    State: `skip` = `skip_header`, `rec` = `record` (`None` or `[index, offset]`), `size`,
    `pos` = `fh.tell()` before the next `readline()`.
    `start line` computes `record[0]` at a `(hex)` line, `cont k line` is what a non-`(hex)`
    line inside a record does to `record[0]`.
    The list ends = EOF; an empty `line` also breaks the loop (`if not line: break`).
    After the loop `record.append(size)` raises AttributeError on `None` (`Err.other`). -/
def genLoop {K : Type} (start : Line → R K) (cont : K → Line → R K) :
    List Line → Bool → Option (K × Nat) → Nat → Nat → R (List (Row K))
  | [], _, rec, size, _ =>
    match rec with
    | none => .error .other
    | some (k, off) => .ok [(k, off, size)]
  | line :: rest, skip, rec, size, pos =>
    if line.isEmpty then
      match rec with
      | none => .error .other
      | some (k, off) => .ok [(k, off, size)]
    else
      let pos' := pos + line.length                  -- fh.tell() after this readline()
      let skip := if skip && hasHex line then false else skip
      if skip then genLoop start cont rest true rec size pos'
      else if hasHex line then do
        -- record start: the previous record (if any) is complete
        let offset := pos' - line.length
        let k ← start line
        let tail ← genLoop start cont rest false (some (k, offset)) line.length pos'
        pure (match rec with
          | some (k0, off0) => (k0, off0, size) :: tail
          | none => tail)
      else
        -- within record
        match rec with
        | none => .error .other          -- unreachable: skip = false only after a (hex) line
        | some (k, off) => do
          let k' ← cont k line
          genLoop start cont rest false (some (k', off)) (size + line.length) pos'

/-- OUI: `oui = line.split()[0]; index = int(oui.replace(hyphen, empty_string), 16)` -/
def ouiStart (line : Line) : R Int := do
  let oui ← firstTok line
  intHex (dropHyphens oui)

def ouiCont (k : Int) (_ : Line) : R Int := .ok k

def ouiIndexLines (ls : List Line) : R (List (Row Int)) := genLoop ouiStart ouiCont ls true none 0 0

/-- `OUIIndexParser(fh).parse()`: the notified rows in order -/
def ouiIndex (bs : List Nat) : R (List (Row Int)) := ouiIndexLines (pyLines bs)

/-- `record[0]` of the IAB parser: the bytes of the first token of the `(hex)` line until a
    `(base 16)` line turns it into an int -/
inductive IabKey where
  | raw (b : List Nat)
  | num (n : Int)
deriving DecidableEq, Repr, Inhabited

/-- IAB `(hex)` line: `iab_prefix = line.split()[0]; index = iab_prefix` -/
def iabStart (line : Line) : R IabKey := do
  let t ← firstTok line
  pure (.raw t)

/-- IAB line inside a record: a `(base 16)` line does
    `prefix = record[0].replace(hyphen, empty); suffix = line.split()[0].split(hyphen)[0];
     record[0] = int(prefix + suffix, 16) >> 12`; on a second `(base 16)` line `record[0]` is an
    int and `.replace` raises AttributeError (`Err.other`). Other lines leave it alone. -/
def iabCont (k : IabKey) (line : Line) : R IabKey :=
  if hasBase16 line then
    match k with
    | .raw p => do
      let pre := dropHyphens p
      let tok ← firstTok line
      let suffix := tok.takeWhile (· != 45)
      let v ← intHex (pre ++ suffix)
      pure (.num (v >>> 12))
    | .num _ => .error .other
  else .ok k

def iabIndexLines (ls : List Line) : R (List (Row IabKey)) := genLoop iabStart iabCont ls true none 0 0

/-- `IABIndexParser(fh).parse()` -/
def iabIndex (bs : List Nat) : R (List (Row IabKey)) := iabIndexLines (pyLines bs)

/-! ## (c) record retrieval -/

/-- `str.isspace()` per character (Python 3: bidi class WS/B/S or category Zs) -/
def isSpace (c : Char) : Bool :=
  let n := c.toNat
  (9 ≤ n && n ≤ 13) || (28 ≤ n && n ≤ 32) || n == 0x85 || n == 0xA0 || n == 0x1680 ||
  (0x2000 ≤ n && n ≤ 0x200A) || n == 0x2028 || n == 0x2029 || n == 0x202F || n == 0x205F || n == 0x3000

/-- `line.strip()` -/
def strip (s : List Char) : List Char := ((s.dropWhile isSpace).reverse.dropWhile isSpace).reverse

/-- `data.split("\n")` -/
def splitNl : List Char → List (List Char)
  | [] => [[]]
  | c :: t =>
    match splitNl t with
    | [] => [[]]      -- unreachable
    | h :: r => if c = '\n' then [] :: h :: r else (c :: h) :: r

def hasSubC (pat : List Char) : List Char → Bool
  | [] => pat.isEmpty
  | c :: t => pat.isPrefixOf (c :: t) || hasSubC pat t

def hexMarkerC : List Char := "(hex)".toList
def base16MarkerC : List Char := "(base 16)".toList

/-- `line.split(None, 2)[2]`: skip two whitespace-separated fields, the rest (leading whitespace
    removed) is the third; `IndexError` if there are fewer than three fields -/
def thirdField (s : List Char) : R (List Char) :=
  let nonSp := fun c => !isSpace c
  let s1 := (s.dropWhile isSpace).dropWhile nonSp          -- after field 0
  let s2 := (s1.dropWhile isSpace).dropWhile nonSp         -- after field 1
  let s3 := s2.dropWhile isSpace
  if s3.isEmpty then .error .index else .ok s3

/-- the fields `_parse_data` fills: `org` (`none` = still the initial `''`, no `(hex)` line seen)
    and the `address` list -/
structure Parsed where
  org : Option (List Char)
  address : List (List Char)
deriving DecidableEq, Repr, Inhabited

/-- the `for line in data.split("\n")` loop of `OUI._parse_data` / `IAB._parse_data` -/
def parseLines : List (List Char) → Parsed → R Parsed
  | [], p => .ok p
  | line :: rest, p =>
    let line := strip line
    if line.isEmpty then parseLines rest p
    else if hasSubC hexMarkerC line then do
      let org ← thirdField line
      parseLines rest { p with org := some org }
    else if hasSubC base16MarkerC line then parseLines rest p
    else parseLines rest { p with address := p.address ++ [line] }

def parseRecord (data : List Char) : R Parsed := parseLines (splitNl data) ⟨none, []⟩

/-- `ieee.OUI_INDEX[key]` after `load_index`: the `(offset, size)` of the rows with that key, in
    file order -/
def lookupRows (index : List (Nat × Nat × Nat)) (key : Nat) : List (Nat × Nat) :=
  (index.filter (fun r => r.1 == key)).map (fun r => (r.2.1, r.2.2))

/-! ### `load_index`

`FileIndexer.update` writes every notified row with `csv.writer.writerow`: an `int` key as its
decimal text, a `bytes` key (what the IAB parser leaves in `record[0]` when a record has no
`(base 16)` line) as `str(b'…')` = `b'…'`.  `load_index` then does
`(key, offset, size) = [int(_) for _ in row]` row by row: the decimal texts read back as the same
ints, `int("b'00-50-C2'")` raises ValueError — the exception escapes `load_index` (and at import
`load_indices`, so the package would not import). -/

/-- the rows `load_index` has appended when it returns normally: `int(key)` of every row, in
    file order; ValueError (`Err.value`) at the first key that is not an integer text -/
def loadRows {K : Type} (key : K → R Int) : List (Row K) → R (List (Int × Nat × Nat))
  | [] => .ok []
  | (k, o, s) :: t => do
    let n ← key k
    let rest ← loadRows key t
    pure ((n, o, s) :: rest)

/-- the key column of a row the OUI parser notified: an `int`, written and read back in decimal -/
def ouiKeyCell (n : Int) : R Int := .ok n

/-- the key column of a row the IAB parser notified -/
def iabKeyCell : IabKey → R Int
  | .num n => .ok n
  | .raw _ => .error .value

def ouiLoad (rows : List (Row Int)) : R (List (Int × Nat × Nat)) := loadRows ouiKeyCell rows
def iabLoad (rows : List (Row IabKey)) : R (List (Int × Nat × Nat)) := loadRows iabKeyCell rows

/-- The loaded dict as `OUI(v)` / `IAB(v)` can see it: both constructors only look up identifiers
    `0 <= v`, so rows under a negative key are unreachable; the others keep their order. -/
def dictView (idx : List (Int × Nat × Nat)) : List (Nat × Nat × Nat) :=
  idx.filterMap (fun r => if 0 ≤ r.1 then some (r.1.toNat, r.2.1, r.2.2) else none)

/-- `create_index_from_registry(text, idx, OUIIndexParser); load_index(d, idx)` -/
def ouiPipeline (text : List Nat) : R (List (Int × Nat × Nat)) := do
  let rows ← ouiIndex text
  ouiLoad rows

/-- `create_index_from_registry(text, idx, IABIndexParser); load_index(d, idx)` -/
def iabPipeline (text : List Nat) : R (List (Int × Nat × Nat)) := do
  let rows ← iabIndex text
  iabLoad rows

/-- `fh.seek(offset); fh.read(size)` on the registry bytes -/
def slice (text : List Nat) (off size : Nat) : List Nat := (text.drop off).take size

/-- `OUI(v)`: NotRegisteredError unless the index has rows; one parsed record per row.
    `read off size` stands for `fh.seek(off); fh.read(size).decode('UTF-8')`
    (= `decode (slice text off size)`; the driver gets the slices from the harness). -/
def ouiRecords (read : Nat → Nat → List Char) (index : List (Nat × Nat × Nat)) (v : Nat) :
    R (List (Nat × Nat × Parsed)) :=
  match lookupRows index v with
  | [] => .error .notRegistered
  | rows => rows.mapM (fun (off, size) => do
      let p ← parseRecord (read off size)
      pure (off, size, p))

/-- `IAB(v)` (after `split_iab_mac`): only the first row is read -/
def iabRecord (read : Nat → Nat → List Char) (index : List (Nat × Nat × Nat)) (v : Nat) :
    R (Nat × Nat × Parsed) :=
  match lookupRows index v with
  | [] => .error .notRegistered
  | (off, size) :: _ => do
      let p ← parseRecord (read off size)
      pure (off, size, p)

/-! ## (d) `.info` of any `BaseIP` object (address, network, range)

`BaseIP.info` (netaddr/ip/__init__.py:228-236) is `DictDotLookup(query(self))` for `IPAddress`, `IPNetwork`
and `IPRange` alike (`IPGlob` is an `IPRange`).  `query` (netaddr/ip/iana.py:420-445) reads `ip_addr.version`,
calls `_within_bounds(ip_addr, key)` per dict entry and `ip_addr.is_multicast()`; all three exist on every
`BaseIP`.  The operand is `Contains.Obj` and the containment tests are C04's `netContains` / `rngContains`. -/

/-- `_within_bounds(ip, ip_range)` (netaddr/ip/iana.py:406-417) for any `BaseIP` operand `ip`:
    * key has `.first` (IPNetwork / IPRange): `ip in ip_range` = `IPNetwork.__contains__` / `IPRange.__contains__`
      with an address, network or range operand;
    * key has `.value` (IPAddress): `ip == ip_range` = `BaseIP.__eq__` on `key()`: an address has the 2-tuple
      `(version, value)`, a network or range the 3-tuple `(version, first, last)`; tuples of different length are
      never equal, so a block never matches a single-address key (not even a /32 or a one-address range). -/
def withinBoundsObj (ip : Contains.Obj) : Key → Bool
  | .net n => Contains.netContains n ip
  | .rng r => Contains.rngContains r ip
  | .addr a =>
    match ip with
    | .addr b => b.ver == a.ver && b.val == a.val
    | _ => false

/-- `BaseIP.is_multicast()` (netaddr/ip/__init__.py:153-158) on an IPv4 object: `self in IPV4_MULTICAST`,
    i.e. `IPNetwork.__contains__` with whatever kind of operand `self` is -/
def isMulticastObj4 (ip : Contains.Obj) : Bool := withinBoundsObj ip multicastNet

/-- the `for key, record in dict.items(): if _within_bounds(ip, key): info.setdefault(k, []); info[k].append(record)`
    scan with `acc` = the current state of `info.get(k)` (as `scanD`, any operand kind) -/
def scanObjD (ip : Contains.Obj) : List Rec → Option (List Rec) → Option (List Rec)
  | [], acc => acc
  | r :: t, acc =>
    if withinBoundsObj ip r.key then
      let cur := match acc with | none => [] | some l => l
      scanObjD ip t (some (cur ++ [r]))
    else scanObjD ip t acc

/-- `iana.query(ip)` for any `BaseIP` object, as the dict it returns (what `.info` wraps) -/
def queryObjD (T : Tables) (ip : Contains.Obj) : InfoD :=
  if ip.ver = 4 then
    { ipv4 := scanObjD ip T.ipv4 none
      mcast := if isMulticastObj4 ip then scanObjD ip T.mcast none else none
      ipv6 := none, ipv6u := none }
  else if ip.ver = 6 then
    { ipv6 := scanObjD ip T.ipv6 none
      ipv6u := scanObjD ip T.ipv6u none
      ipv4 := none, mcast := none }
  else { ipv4 := none, ipv6 := none, ipv6u := none, mcast := none }

/-! ## (e) `EUI.oui`, `EUI.iab`, `EUI.info`

An `EUI` is `(ver, val)` with `ver` = `self._module.version` (48 or 64) and `val` = `self._value`; every one
of the three properties reads `self._value` / `self.value` at the moment of the call and builds a NEW `OUI` /
`IAB` object from it (nothing is kept on the `EUI`). -/

/-- `IAB.IAB_EUI_VALUES` (netaddr/eui/__init__.py:185) -/
def iabEuiValues : List Nat := [0x0050c2, 0x40d855]

/-- the argument of `OUI(...)` in `EUI.oui` (netaddr/eui/__init__.py:483-489): `self.value >> 24` (EUI-48),
    `self.value >> 40` (EUI-64); `none` = neither branch taken, the property returns `None` -/
def euiOuiArg (ver val : Nat) : Option Nat :=
  if ver = 48 then some (val >>> 24) else if ver = 64 then some (val >>> 40) else none

/-- `EUI.is_iab()` (netaddr/eui/__init__.py:499-504): `(self._value >> 24) in IAB.IAB_EUI_VALUES` resp. `>> 40`;
    `None` (falsy) when neither branch is taken -/
def euiIsIab (ver val : Nat) : Bool :=
  if ver = 48 then iabEuiValues.contains (val >>> 24)
  else if ver = 64 then iabEuiValues.contains (val >>> 40)
  else false

/-- the argument of `IAB(...)` in `EUI.iab` (netaddr/eui/__init__.py:512-516): `self._value >> 12` resp. `>> 28` -/
def euiIabArg (ver val : Nat) : Option Nat :=
  if ver = 48 then some (val >>> 12) else if ver = 64 then some (val >>> 28) else none

/-- the `_is_int(oui)` branch of `OUI.__init__` (netaddr/eui/__init__.py:85-89): `0 <= oui <= 0xffffff` or ValueError -/
def ouiCtorInt (v : Nat) : R Nat := if v ≤ 0xffffff then .ok v else .error .value

/-- `IAB.split_iab_mac(eui_int, strict)` (netaddr/eui/__init__.py:195-219) for `eui_int >= 0` -/
def splitIabMac (v : Nat) (strict : Bool) : R (Nat × Nat) :=
  if iabEuiValues.contains (v >>> 12) then .ok (v, 0)
  else
    let userMask := 2 ^ 12 - 1
    let iabMask := (2 ^ 48 - 1) ^^^ userMask
    let iabBits := v >>> 12
    let userBits := (v ||| iabMask) - iabMask
    if iabEuiValues.contains (iabBits >>> 12) then
      if strict && userBits != 0 then .error .value else .ok (iabBits, userBits)
    else .error .value

/-- `OUI(v)` for an int `v`, reading the registry: the registrations of `v` (one per index row) -/
def ouiOfInt (read : Nat → Nat → List Char) (index : List (Nat × Nat × Nat)) (v : Nat) :
    R (List (Nat × Nat × Parsed)) := do
  let v ← ouiCtorInt v
  ouiRecords read index v

/-- `IAB(v)` (`strict=False`) for an int `v`: the registration of the first index row -/
def iabOfInt (read : Nat → Nat → List Char) (index : List (Nat × Nat × Nat)) (v : Nat) :
    R (Nat × Nat × Parsed) := do
  let (iab, _) ← splitIabMac v false
  iabRecord read index iab

/-- `EUI.oui`: `none` = the property returned `None` (no branch taken); otherwise `OUI(arg)` -/
def euiOui (read : Nat → Nat → List Char) (index : List (Nat × Nat × Nat)) (ver val : Nat) :
    R (Option (List (Nat × Nat × Parsed))) :=
  match euiOuiArg ver val with
  | none => .ok none
  | some a => do
    let rs ← ouiOfInt read index a
    pure (some rs)

/-- `EUI.iab`: `None` unless `is_iab()`; then `IAB(arg)` -/
def euiIab (read : Nat → Nat → List Char) (index : List (Nat × Nat × Nat)) (ver val : Nat) :
    R (Option (Nat × Nat × Parsed)) :=
  if euiIsIab ver val then
    match euiIabArg ver val with
    | none => .ok none
    | some a => do
      let r ← iabOfInt read index a
      pure (some r)
  else .ok none

/-- `OUI.registration(index=0)`: `self.records[0]` (IndexError on an empty list; `OUI.__init__` never leaves
    one: it raises NotRegisteredError instead) -/
def registration0 (rs : List (Nat × Nat × Parsed)) : R (Nat × Nat × Parsed) :=
  match rs with
  | [] => .error .index
  | r :: _ => .ok r

/-- the dict `EUI.info` wraps: key `'OUI'` always, key `'IAB'` iff `is_iab()` -/
structure EuiInfo where
  oui : Nat × Nat × Parsed
  iab : Option (Nat × Nat × Parsed)
deriving DecidableEq, Repr, Inhabited

/-- `EUI.info` (netaddr/eui/__init__.py:729-739):
    `data = {'OUI': self.oui.registration()}; if self.is_iab(): data['IAB'] = self.iab.registration()`.
    The OUI lookup comes first, so its NotRegisteredError wins; `None.registration()` is AttributeError
    (`Err.other`).  `readO/indexO` = oui.txt / OUI_INDEX, `readI/indexI` = iab.txt / IAB_INDEX. -/
def euiInfo (readO : Nat → Nat → List Char) (indexO : List (Nat × Nat × Nat))
    (readI : Nat → Nat → List Char) (indexI : List (Nat × Nat × Nat)) (ver val : Nat) : R EuiInfo := do
  let o ← euiOui readO indexO ver val
  let r0 ← match o with
    | none => .error .other
    | some rs => registration0 rs
  if euiIsIab ver val then
    let i ← euiIab readI indexI ver val
    match i with
    | none => .error .other
    | some r => pure ⟨r0, some r⟩
  else pure ⟨r0, none⟩

end NV.Registry
