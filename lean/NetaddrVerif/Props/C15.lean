/-
Props/C15.lean — property C15: binary, bit, word, DNS and base-85 encodings are faithful and
invertible.  Property theorems only; helper lemmas are in Lemmas/C15L*.lean.

Cross-reading of properties.jsonl: "packed / bytes() is the big-endian byte string of the
family's width" = `*_intToPacked_spec`, `toBytes_spec` (+ `beBytes_length`, `beValue_beBytes`);
"bits() and bin are the zero-padded and 0b binary spellings" = `intToBits_spec`, `intToBin_spec`;
"words is the big-endian word tuple" = `intToWords_spec`; "reverse_dns …" = `arpa4_spec`,
`arpa6_spec`; "base-85 is the 20-character base-85 numeral" = `base85_spec`; "decoders return
the original value for every encoder output" = `*_roundtrip`; "and raise on input of the wrong
length, with a word or value out of range, or with a digit outside the numeral's base" =
`wordsToInt_spec`, `*_packedToInt_spec`, `bitsToInt_reject`, `binToInt_reject`, `base85_reject`.
-/
import NetaddrVerif.Lemmas.C15LBytes
namespace NV.C15
open NV NV.Codec

/-! ## words -/

/-- `int_to_words`: in range, the tuple has `nw` words below 2^ws whose big-endian value is v;
    out of range it raises IndexError. -/
theorem intToWords_spec (v ws nw : Nat) :
    (v < 2 ^ (nw * ws) → ∃ words, intToWords v ws nw = .ok words ∧ words.length = nw ∧
        (∀ x ∈ words, x < 2 ^ ws) ∧ beWordsValue ws words = v) ∧
    (¬ v < 2 ^ (nw * ws) → intToWords v ws nw = .error .index) := by
  have hp := pow_pos2 (nw * ws)
  constructor
  · intro hv
    refine ⟨(wordsLoop ws nw v).reverse, ?_, by simp [wordsLoop_length], ?_, ?_⟩
    · simp only [intToWords]; rw [if_pos (by omega)]
    · intro x hx; exact wordsLoop_lt ws nw v x (by simpa using hx)
    · simp only [beWordsValue, List.reverse_reverse, leValue_wordsLoop]
      rw [Nat.mul_comm]; exact Nat.mod_eq_of_lt hv
  · intro hv
    simp only [intToWords]; rw [if_neg (by omega)]

example : intToWords 0x001b774954fd 16 3 = .ok [0x001b, 0x7749, 0x54fd] := by rfl
example : intToWords (2 ^ 48) 16 3 = .error .index := by rfl

/-- `words_to_int`: exactly the sequences of `nw` words below 2^ws are accepted, with their
    big-endian value; every other sequence (wrong count, a word ≥ 2^ws) raises ValueError. -/
theorem wordsToInt_spec (words : List Nat) (ws nw : Nat) :
    (words.length = nw ∧ (∀ x ∈ words, x < 2 ^ ws) → wordsToInt words ws nw = .ok (beWordsValue ws words)) ∧
    (¬ (words.length = nw ∧ ∀ x ∈ words, x < 2 ^ ws) → wordsToInt words ws nw = .error .value) := by
  constructor
  · intro h
    simp only [wordsToInt, (validWords_iff words ws nw).mpr h, if_true, beWordsValue]
    rw [orShift_zero _ _ (fun x hx => h.2 x (by simpa using hx))]
  · intro h
    have : validWords words ws nw = false := by
      cases hv : validWords words ws nw with
      | false => rfl
      | true => exact absurd ((validWords_iff words ws nw).mp hv) h
    simp [wordsToInt, this]

example : wordsToInt [0x001b, 0x7749, 0x54fd] 16 3 = .ok 0x001b774954fd := by rfl
example : wordsToInt [0x10000, 0, 0] 16 3 = .error .value := by rfl
example : wordsToInt [0, 0] 16 3 = .error .value := by rfl

/-- decoder ∘ encoder = id for every word size and word count -/
theorem words_roundtrip (v ws nw : Nat) (hv : v < 2 ^ (nw * ws)) :
    ∃ words, intToWords v ws nw = .ok words ∧ wordsToInt words ws nw = .ok v := by
  obtain ⟨words, h1, h2, h3, h4⟩ := (intToWords_spec v ws nw).1 hv
  exact ⟨words, h1, by rw [((wordsToInt_spec words ws nw).1 ⟨h2, h3⟩), h4]⟩

/-- a word equal to 2^ws (or larger) anywhere in the sequence is rejected -/
theorem wordsToInt_rejects_big_word (words : List Nat) (ws nw x : Nat) (hx : x ∈ words) (hbig : 2 ^ ws ≤ x) :
    wordsToInt words ws nw = .error .value :=
  (wordsToInt_spec words ws nw).2 (fun h => by have := h.2 x hx; omega)

private theorem and255 (x : Nat) : x &&& 0xff = x % 256 := Nat.and_two_pow_sub_one_eq_mod x 8

/-- `ipv4.int_to_words` (its own spelling) is the generic codec with 4 words of 8 bits; out of
    range it raises (ValueError instead of IndexError) -/
theorem v4_intToWords_eq (v : Nat) :
    (v < 2 ^ 32 → V4.intToWords v = intToWords v 8 4) ∧ (¬ v < 2 ^ 32 → V4.intToWords v = .error .value) := by
  constructor
  · intro hv
    have h1 : v ≤ 2 ^ 32 - 1 := by omega
    have h2 : v ≤ 2 ^ (4 * 8) - 1 := by omega
    simp only [V4.intToWords, intToWords, if_pos h1, wordsLoop, List.reverse_cons, List.reverse_nil,
      List.nil_append, List.cons_append, and255, Nat.shiftRight_eq_div_pow, Nat.and_two_pow_sub_one_eq_mod]
    have e : v / 2 ^ 8 / 2 ^ 8 / 2 ^ 8 % 2 ^ 8 = v / 2 ^ 24 := by omega
    have e2 : v / 2 ^ 8 / 2 ^ 8 % 2 ^ 8 = v / 2 ^ 16 % 256 := by omega
    have e3 : v / 2 ^ 8 % 2 ^ 8 = v / 2 ^ 8 % 256 := by omega
    have e4 : v % 2 ^ 8 = v % 256 := by omega
    rw [e, e2, e3, e4]
  · intro hv
    simp only [V4.intToWords]; rw [if_neg (by omega)]

/-- `ipv4.words_to_int` (through struct.pack('4B') / unpack('>I')): same acceptance and value
    as the generic codec -/
theorem v4_wordsToInt_spec (words : List Nat) :
    (words.length = 4 ∧ (∀ x ∈ words, x < 2 ^ 8) → V4.wordsToInt words = .ok (beWordsValue 8 words)) ∧
    (¬ (words.length = 4 ∧ ∀ x ∈ words, x < 2 ^ 8) → V4.wordsToInt words = .error .value) := by
  constructor
  · rintro ⟨hl, hx⟩
    have hv : validWords words Gen.ipv4WordSize Gen.ipv4NumWords = true :=
      (validWords_iff words 8 4).mpr ⟨hl, hx⟩
    match words, hl with
    | [a, b, c, d], _ =>
      have ha := hx a (by simp); have hb := hx b (by simp); have hc := hx c (by simp); have hd := hx d (by simp)
      have p : ∀ x, x < 2 ^ 8 → packField 1 x = .ok [x] := by
        intro x h
        have h' : x < 256 ^ 1 := by omega
        simp only [packField, if_pos h', beBytes, leBytes, List.reverse_cons, List.reverse_nil, List.nil_append]
        rw [Nat.mod_eq_of_lt (by omega)]
      simp only [V4.wordsToInt, hv, Bool.not_true, Bool.false_eq_true, if_false, packFields, List.mapM_cons,
        List.mapM_nil, p a ha, p b hb, p c hc, p d hd]
      simp [unpackFields, chunks, beValue, beWordsValue, leValue, bind, Except.bind, pure, Except.pure]
      omega
  · intro h
    have : validWords words Gen.ipv4WordSize Gen.ipv4NumWords = false := by
      cases hv : validWords words Gen.ipv4WordSize Gen.ipv4NumWords with
      | false => rfl
      | true => exact absurd ((validWords_iff words 8 4).mp hv) h
    simp [V4.wordsToInt, this]

example : V4.wordsToInt [192, 0, 2, 1] = .ok 0xC0000201 := by rfl
example : V4.wordsToInt [256, 0, 2, 1] = .error .value := by rfl

/-! ## packed / bytes() -/

/-- n big-endian bytes of v: n of them, each a byte, with value v -/
theorem beBytes_shape (n v : Nat) (hv : v < 2 ^ (8 * n)) :
    (beBytes n v).length = n ∧ (∀ b ∈ beBytes n v, b < 256) ∧ beValue (beBytes n v) = v :=
  ⟨beBytes_length n v, beBytes_lt n v, by rw [beValue_beBytes, Nat.mod_eq_of_lt hv]⟩

/-- `IPAddress.__bytes__`: `int.to_bytes(width // 8, 'big')` -/
theorem toBytes_spec (n v : Nat) :
    (v < 2 ^ (8 * n) → toBytes n v = .ok (beBytes n v)) ∧ (¬ v < 2 ^ (8 * n) → toBytes n v = .error .other) := by
  have e : (256 : Nat) ^ n = 2 ^ (8 * n) := by rw [Nat.pow_mul]
  simp only [toBytes, e]
  constructor <;> intro h <;> simp [h]

theorem v4_intToPacked_spec (v : Nat) :
    (v < 2 ^ 32 → V4.intToPacked v = .ok (beBytes 4 v)) ∧ (¬ v < 2 ^ 32 → ∃ e, V4.intToPacked v = .error e) := by
  simp only [V4.intToPacked, packField]
  constructor <;> intro h
  · rw [if_pos (by omega)]
  · exact ⟨.other, by rw [if_neg (by omega)]⟩

private theorem packFields_words (k nw v : Nat) :
    packFields k (wordsLoop (8 * k) nw v).reverse = .ok (beBytes (k * nw) v) := by
  have e : (256 : Nat) ^ k = 2 ^ (8 * k) := by rw [Nat.pow_mul]
  have hm := mapM_ok (packField k) (beBytes k) (wordsLoop (8 * k) nw v).reverse (by
    intro x hx
    have := wordsLoop_lt (8 * k) nw v x (by simpa using hx)
    simp only [packField, e, if_pos this])
  simp only [packFields, hm]
  show Except.ok _ = _
  rw [flatten_beBytes_words]

theorem v6_intToPacked_spec (v : Nat) :
    (v < 2 ^ 128 → V6.intToPacked v = .ok (beBytes 16 v)) ∧ (¬ v < 2 ^ 128 → ∃ e, V6.intToPacked v = .error e) := by
  constructor <;> intro h
  · have h2 : v ≤ 2 ^ (4 * 32) - 1 := by omega
    simp only [V6.intToPacked, intToWords, if_pos h2]
    exact packFields_words 4 4 v
  · have h2 : ¬ v ≤ 2 ^ (4 * 32) - 1 := by omega
    exact ⟨.index, by simp only [V6.intToPacked, intToWords, if_neg h2]; rfl⟩

theorem e48_intToPacked_spec (v : Nat) :
    (v < 2 ^ 48 → E48.intToPacked v = .ok (beBytes 6 v)) ∧ (¬ v < 2 ^ 48 → ∃ e, E48.intToPacked v = .error e) := by
  have e1 : v >>> 32 = v / 2 ^ (8 * 4) := Nat.shiftRight_eq_div_pow v 32
  have e2 : v &&& 0xffffffff = v % 2 ^ (8 * 4) := Nat.and_two_pow_sub_one_eq_mod v 32
  constructor <;> intro h
  · have h1 : v / 2 ^ (8 * 4) < 256 ^ 2 := by omega
    have h2 : v % 2 ^ (8 * 4) < 256 ^ 4 := by omega
    simp only [E48.intToPacked, e1, e2, packField, if_pos h1, if_pos h2]
    show Except.ok _ = _
    rw [beBytes_mod, ← beBytes_add]
  · have h1 : ¬ v / 2 ^ (8 * 4) < 256 ^ 2 := by omega
    exact ⟨.other, by simp only [E48.intToPacked, e1, packField, if_neg h1]; rfl⟩

theorem e64_intToPacked_spec (v : Nat) :
    (v < 2 ^ 64 → E64.intToPacked v = .ok (beBytes 8 v)) ∧ (¬ v < 2 ^ 64 → ∃ e, E64.intToPacked v = .error e) := by
  have hw : Gen.eui64Default.wordSize = 8 * 1 := rfl
  have hn : Gen.eui64Default.numWords = 8 := rfl
  constructor <;> intro h
  · have h2 : v ≤ 2 ^ (8 * (8 * 1)) - 1 := by omega
    simp only [E64.intToPacked, hw, hn, intToWords, if_pos h2]
    exact packFields_words 1 8 v
  · have h2 : ¬ v ≤ 2 ^ (8 * (8 * 1)) - 1 := by omega
    exact ⟨.index, by simp only [E64.intToPacked, hw, hn, intToWords, if_neg h2]; rfl⟩

example : E48.intToPacked 0x001b774954fd = .ok [0x00, 0x1b, 0x77, 0x49, 0x54, 0xfd] := by rfl

/-- `packed_to_int` of every family: exactly the byte strings of the family's byte count are
    accepted, with their big-endian value; any other length raises (struct.error). -/
theorem v4_packedToInt_spec (bs : List Nat) :
    (bs.length = 4 → V4.packedToInt bs = .ok (beValue bs)) ∧ (bs.length ≠ 4 → V4.packedToInt bs = .error .other) := by
  constructor <;> intro h
  · simp only [V4.packedToInt, unpackFields, h, chunks]
    simp [bind, Except.bind, pure, Except.pure, List.take_of_length_le (Nat.le_of_eq h)]
  · simp [V4.packedToInt, unpackFields, h, bind, Except.bind]

theorem v6_packedToInt_spec (bs : List Nat) (hb : ∀ b ∈ bs, b < 256) :
    (bs.length = 16 → V6.packedToInt bs = .ok (beValue bs)) ∧ (bs.length ≠ 16 → V6.packedToInt bs = .error .other) := by
  constructor <;> intro h
  · have := unpack_orShift 4 4 bs h hb
    simp only [V6.packedToInt, unpackFields, h]
    simp only [bind, Except.bind, pure, Except.pure]
    simpa using this
  · simp [V6.packedToInt, unpackFields, h, bind, Except.bind]

theorem e48_packedToInt_spec (bs : List Nat) (hb : ∀ b ∈ bs, b < 256) :
    (bs.length = 6 → E48.packedToInt bs = .ok (beValue bs)) ∧ (bs.length ≠ 6 → E48.packedToInt bs = .error .other) := by
  constructor <;> intro h
  · have := unpack_orShift 1 6 bs (by omega) hb
    simp only [E48.packedToInt, unpackFields, h]
    simp only [bind, Except.bind, pure, Except.pure]
    simpa using this
  · simp [E48.packedToInt, unpackFields, h, bind, Except.bind]

theorem e64_packedToInt_spec (bs : List Nat) (hb : ∀ b ∈ bs, b < 256) :
    (bs.length = 8 → E64.packedToInt bs = .ok (beValue bs)) ∧ (bs.length ≠ 8 → E64.packedToInt bs = .error .other) := by
  constructor <;> intro h
  · have := unpack_orShift 1 8 bs (by omega) hb
    simp only [E64.packedToInt, unpackFields, h]
    simp only [bind, Except.bind, pure, Except.pure]
    simpa using this
  · simp [E64.packedToInt, unpackFields, h, bind, Except.bind]

example : E48.packedToInt [0x00, 0x1b, 0x77, 0x49, 0x54, 0xfd] = .ok 0x001b774954fd := by rfl
example : E48.packedToInt [0x00, 0x1b, 0x77, 0x49, 0x54] = .error .other := by rfl

/-- decoder ∘ encoder = id on packed strings, all four families -/
theorem packed_roundtrip (v : Nat) :
    (v < 2 ^ 32 → ∃ p, V4.intToPacked v = .ok p ∧ V4.packedToInt p = .ok v) ∧
    (v < 2 ^ 128 → ∃ p, V6.intToPacked v = .ok p ∧ V6.packedToInt p = .ok v) ∧
    (v < 2 ^ 48 → ∃ p, E48.intToPacked v = .ok p ∧ E48.packedToInt p = .ok v) ∧
    (v < 2 ^ 64 → ∃ p, E64.intToPacked v = .ok p ∧ E64.packedToInt p = .ok v) := by
  refine ⟨fun h => ⟨_, (v4_intToPacked_spec v).1 h, ?_⟩, fun h => ⟨_, (v6_intToPacked_spec v).1 h, ?_⟩,
    fun h => ⟨_, (e48_intToPacked_spec v).1 h, ?_⟩, fun h => ⟨_, (e64_intToPacked_spec v).1 h, ?_⟩⟩
  · rw [(v4_packedToInt_spec _).1 (beBytes_length 4 v), (beBytes_shape 4 v h).2.2]
  · rw [(v6_packedToInt_spec _ (beBytes_lt 16 v)).1 (beBytes_length 16 v), (beBytes_shape 16 v h).2.2]
  · rw [(e48_packedToInt_spec _ (beBytes_lt 6 v)).1 (beBytes_length 6 v), (beBytes_shape 6 v h).2.2]
  · rw [(e64_packedToInt_spec _ (beBytes_lt 8 v)).1 (beBytes_length 8 v), (beBytes_shape 8 v h).2.2]

end NV.C15
