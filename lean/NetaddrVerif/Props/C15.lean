import NetaddrVerif.Model.Codec
namespace NV.C15
open NV.Codec

theorem placeholder : wordsLoop 8 0 5 = [] := rfl

end NV.C15
