/-
Props/C15.lean — property C15: binary, bit, word, DNS and base-85 encodings are faithful and
invertible.  Property theorems only; helper lemmas are in Lemmas/C15L*.lean.

Cross-reading of properties.jsonl: "packed / bytes() is the big-endian byte string of the
family's width" = `*_intToPacked_spec`, `toBytes_spec` (+ `beBytes_length`, `beValue_beBytes`);
"bits() and bin are the zero-padded and 0b binary spellings" = `intToBits_spec`, `intToBin_spec`;
"words is the big-endian word tuple" = `intToWords_spec`; "reverse_dns …" = `arpa4_spec`,
`arpa6_spec`; "base-85 is the 20-character base-85 numeral" = `base85_spec`; "decoders return
the original value for every encoder output" = `*_roundtrip`; "and raise on input of the wrong
length, with a word or value out of range, or with a digit outside the numeral's base" =
`wordsToInt_spec`, `*_packedToInt_spec`, `bitsToInt_reject`, `binToInt_reject`, `base85_reject`.

Second layer in Props/C15Deep.lean: signed arguments (`…Z` functions, what the driver runs),
`validWords_iff` / `validBits_iff` / `validBin_iff`, `bits_roundtrip_anysep` (every separator),
`base85_roundtrip_text` (the text `base85_to_ipv6` returns, through C01).
-/
import NetaddrVerif.Lemmas.C15LBytes
import NetaddrVerif.Lemmas.C15LBits
import NetaddrVerif.Lemmas.C15LB85
import NetaddrVerif.Lemmas.C15LArpa
namespace NV.C15
open NV NV.Codec NV.Py NV.PyL

/-! ## words -/

/-- `int_to_words`: in range, the tuple has `nw` words below 2^ws whose big-endian value is v;
    out of range it raises IndexError. -/
theorem intToWords_spec (v ws nw : Nat) :
    (v < 2 ^ (nw * ws) → ∃ words, intToWords v ws nw = .ok words ∧ words.length = nw ∧
        (∀ x ∈ words, x < 2 ^ ws) ∧ beWordsValue ws words = v) ∧
    (¬ v < 2 ^ (nw * ws) → intToWords v ws nw = .error .index) := by
  have hp := pow_pos2 (nw * ws)
  constructor
  · intro hv
    refine ⟨(wordsLoop ws nw v).reverse, ?_, by simp [wordsLoop_length], ?_, ?_⟩
    · simp only [intToWords]; rw [if_pos (by omega)]
    · intro x hx; exact wordsLoop_lt ws nw v x (by simpa using hx)
    · simp only [beWordsValue, List.reverse_reverse, leValue_wordsLoop]
      rw [Nat.mul_comm]; exact Nat.mod_eq_of_lt hv
  · intro hv
    simp only [intToWords]; rw [if_neg (by omega)]

example : intToWords 0x001b774954fd 16 3 = .ok [0x001b, 0x7749, 0x54fd] := by rfl
example : intToWords (2 ^ 48) 16 3 = .error .index := by rfl

/-- `words_to_int`: exactly the sequences of `nw` words below 2^ws are accepted, with their
    big-endian value; every other sequence (wrong count, a word ≥ 2^ws) raises ValueError. -/
theorem wordsToInt_spec (words : List Nat) (ws nw : Nat) :
    (words.length = nw ∧ (∀ x ∈ words, x < 2 ^ ws) → wordsToInt words ws nw = .ok (beWordsValue ws words)) ∧
    (¬ (words.length = nw ∧ ∀ x ∈ words, x < 2 ^ ws) → wordsToInt words ws nw = .error .value) := by
  constructor
  · intro h
    simp only [wordsToInt, (validWords_iff words ws nw).mpr h, if_true, beWordsValue]
    rw [orShift_zero _ _ (fun x hx => h.2 x (by simpa using hx))]
  · intro h
    have : validWords words ws nw = false := by
      cases hv : validWords words ws nw with
      | false => rfl
      | true => exact absurd ((validWords_iff words ws nw).mp hv) h
    simp [wordsToInt, this]

example : wordsToInt [0x001b, 0x7749, 0x54fd] 16 3 = .ok 0x001b774954fd := by rfl
example : wordsToInt [0x10000, 0, 0] 16 3 = .error .value := by rfl
example : wordsToInt [0, 0] 16 3 = .error .value := by rfl

/-- decoder ∘ encoder = id for every word size and word count -/
theorem words_roundtrip (v ws nw : Nat) (hv : v < 2 ^ (nw * ws)) :
    ∃ words, intToWords v ws nw = .ok words ∧ wordsToInt words ws nw = .ok v := by
  obtain ⟨words, h1, h2, h3, h4⟩ := (intToWords_spec v ws nw).1 hv
  exact ⟨words, h1, by rw [((wordsToInt_spec words ws nw).1 ⟨h2, h3⟩), h4]⟩

/-- a word equal to 2^ws (or larger) anywhere in the sequence is rejected -/
theorem wordsToInt_rejects_big_word (words : List Nat) (ws nw x : Nat) (hx : x ∈ words) (hbig : 2 ^ ws ≤ x) :
    wordsToInt words ws nw = .error .value :=
  (wordsToInt_spec words ws nw).2 (fun h => by have := h.2 x hx; omega)

private theorem and255 (x : Nat) : x &&& 0xff = x % 256 := Nat.and_two_pow_sub_one_eq_mod x 8

/-- `ipv4.int_to_words` (its own spelling) is the generic codec with 4 words of 8 bits; out of
    range it raises (ValueError instead of IndexError) -/
theorem v4_intToWords_eq (v : Nat) :
    (v < 2 ^ 32 → V4.intToWords v = intToWords v 8 4) ∧ (¬ v < 2 ^ 32 → V4.intToWords v = .error .value) := by
  constructor
  · intro hv
    have h1 : v ≤ 2 ^ 32 - 1 := by omega
    have h2 : v ≤ 2 ^ (4 * 8) - 1 := by omega
    simp only [V4.intToWords, intToWords, if_pos h1, wordsLoop, List.reverse_cons, List.reverse_nil,
      List.nil_append, List.cons_append, and255, Nat.shiftRight_eq_div_pow, Nat.and_two_pow_sub_one_eq_mod]
    have e : v / 2 ^ 8 / 2 ^ 8 / 2 ^ 8 % 2 ^ 8 = v / 2 ^ 24 := by omega
    have e2 : v / 2 ^ 8 / 2 ^ 8 % 2 ^ 8 = v / 2 ^ 16 % 256 := by omega
    have e3 : v / 2 ^ 8 % 2 ^ 8 = v / 2 ^ 8 % 256 := by omega
    have e4 : v % 2 ^ 8 = v % 256 := by omega
    rw [e, e2, e3, e4]
  · intro hv
    simp only [V4.intToWords]; rw [if_neg (by omega)]

/-- `ipv4.words_to_int` (through struct.pack('4B') / unpack('>I')): same acceptance and value
    as the generic codec -/
theorem v4_wordsToInt_spec (words : List Nat) :
    (words.length = 4 ∧ (∀ x ∈ words, x < 2 ^ 8) → V4.wordsToInt words = .ok (beWordsValue 8 words)) ∧
    (¬ (words.length = 4 ∧ ∀ x ∈ words, x < 2 ^ 8) → V4.wordsToInt words = .error .value) := by
  constructor
  · rintro ⟨hl, hx⟩
    have hv : validWords words Gen.ipv4WordSize Gen.ipv4NumWords = true :=
      (validWords_iff words 8 4).mpr ⟨hl, hx⟩
    match words, hl with
    | [a, b, c, d], _ =>
      have ha := hx a (by simp); have hb := hx b (by simp); have hc := hx c (by simp); have hd := hx d (by simp)
      have p : ∀ x, x < 2 ^ 8 → packField 1 x = .ok [x] := by
        intro x h
        have h' : x < 256 ^ 1 := by omega
        simp only [packField, if_pos h', beBytes, leBytes, List.reverse_cons, List.reverse_nil, List.nil_append]
        rw [Nat.mod_eq_of_lt (by omega)]
      simp only [V4.wordsToInt, hv, Bool.not_true, Bool.false_eq_true, if_false, packFields, List.mapM_cons,
        List.mapM_nil, p a ha, p b hb, p c hc, p d hd]
      simp [unpackFields, chunks, beValue, beWordsValue, leValue, bind, Except.bind, pure, Except.pure]
      omega
  · intro h
    have : validWords words Gen.ipv4WordSize Gen.ipv4NumWords = false := by
      cases hv : validWords words Gen.ipv4WordSize Gen.ipv4NumWords with
      | false => rfl
      | true => exact absurd ((validWords_iff words 8 4).mp hv) h
    simp [V4.wordsToInt, this]

example : V4.wordsToInt [192, 0, 2, 1] = .ok 0xC0000201 := by rfl
example : V4.wordsToInt [256, 0, 2, 1] = .error .value := by rfl

/-! ## packed / bytes() -/

/-- n big-endian bytes of v: n of them, each a byte, with value v -/
theorem beBytes_shape (n v : Nat) (hv : v < 2 ^ (8 * n)) :
    (beBytes n v).length = n ∧ (∀ b ∈ beBytes n v, b < 256) ∧ beValue (beBytes n v) = v :=
  ⟨beBytes_length n v, beBytes_lt n v, by rw [beValue_beBytes, Nat.mod_eq_of_lt hv]⟩

/-- `IPAddress.__bytes__`: `int.to_bytes(width // 8, 'big')` -/
theorem toBytes_spec (n v : Nat) :
    (v < 2 ^ (8 * n) → toBytes n v = .ok (beBytes n v)) ∧ (¬ v < 2 ^ (8 * n) → toBytes n v = .error .other) := by
  have e : (256 : Nat) ^ n = 2 ^ (8 * n) := by rw [Nat.pow_mul]
  simp only [toBytes, e]
  constructor <;> intro h <;> simp [h]

theorem v4_intToPacked_spec (v : Nat) :
    (v < 2 ^ 32 → V4.intToPacked v = .ok (beBytes 4 v)) ∧ (¬ v < 2 ^ 32 → ∃ e, V4.intToPacked v = .error e) := by
  simp only [V4.intToPacked, packField]
  constructor <;> intro h
  · rw [if_pos (by omega)]
  · exact ⟨.other, by rw [if_neg (by omega)]⟩

private theorem packFields_words (k nw v : Nat) :
    packFields k (wordsLoop (8 * k) nw v).reverse = .ok (beBytes (k * nw) v) := by
  have e : (256 : Nat) ^ k = 2 ^ (8 * k) := by rw [Nat.pow_mul]
  have hm := mapM_ok (packField k) (beBytes k) (wordsLoop (8 * k) nw v).reverse (by
    intro x hx
    have := wordsLoop_lt (8 * k) nw v x (by simpa using hx)
    simp only [packField, e, if_pos this])
  simp only [packFields, hm]
  show Except.ok _ = _
  rw [flatten_beBytes_words]

theorem v6_intToPacked_spec (v : Nat) :
    (v < 2 ^ 128 → V6.intToPacked v = .ok (beBytes 16 v)) ∧ (¬ v < 2 ^ 128 → ∃ e, V6.intToPacked v = .error e) := by
  constructor <;> intro h
  · have h2 : v ≤ 2 ^ (4 * 32) - 1 := by omega
    simp only [V6.intToPacked, intToWords, if_pos h2]
    exact packFields_words 4 4 v
  · have h2 : ¬ v ≤ 2 ^ (4 * 32) - 1 := by omega
    exact ⟨.index, by simp only [V6.intToPacked, intToWords, if_neg h2]; rfl⟩

theorem e48_intToPacked_spec (v : Nat) :
    (v < 2 ^ 48 → E48.intToPacked v = .ok (beBytes 6 v)) ∧ (¬ v < 2 ^ 48 → ∃ e, E48.intToPacked v = .error e) := by
  have e1 : v >>> 32 = v / 2 ^ (8 * 4) := Nat.shiftRight_eq_div_pow v 32
  have e2 : v &&& 0xffffffff = v % 2 ^ (8 * 4) := Nat.and_two_pow_sub_one_eq_mod v 32
  constructor <;> intro h
  · have h1 : v / 2 ^ (8 * 4) < 256 ^ 2 := by omega
    have h2 : v % 2 ^ (8 * 4) < 256 ^ 4 := by omega
    simp only [E48.intToPacked, e1, e2, packField, if_pos h1, if_pos h2]
    show Except.ok _ = _
    rw [beBytes_mod, ← beBytes_add]
  · have h1 : ¬ v / 2 ^ (8 * 4) < 256 ^ 2 := by omega
    exact ⟨.other, by simp only [E48.intToPacked, e1, packField, if_neg h1]; rfl⟩

theorem e64_intToPacked_spec (v : Nat) :
    (v < 2 ^ 64 → E64.intToPacked v = .ok (beBytes 8 v)) ∧ (¬ v < 2 ^ 64 → ∃ e, E64.intToPacked v = .error e) := by
  have hw : Gen.eui64Default.wordSize = 8 * 1 := rfl
  have hn : Gen.eui64Default.numWords = 8 := rfl
  constructor <;> intro h
  · have h2 : v ≤ 2 ^ (8 * (8 * 1)) - 1 := by omega
    simp only [E64.intToPacked, hw, hn, intToWords, if_pos h2]
    exact packFields_words 1 8 v
  · have h2 : ¬ v ≤ 2 ^ (8 * (8 * 1)) - 1 := by omega
    exact ⟨.index, by simp only [E64.intToPacked, hw, hn, intToWords, if_neg h2]; rfl⟩

example : E48.intToPacked 0x001b774954fd = .ok [0x00, 0x1b, 0x77, 0x49, 0x54, 0xfd] := by rfl

/-- `packed_to_int` of every family: exactly the byte strings of the family's byte count are
    accepted, with their big-endian value; any other length raises (struct.error). -/
theorem v4_packedToInt_spec (bs : List Nat) :
    (bs.length = 4 → V4.packedToInt bs = .ok (beValue bs)) ∧ (bs.length ≠ 4 → V4.packedToInt bs = .error .other) := by
  constructor <;> intro h
  · simp only [V4.packedToInt, unpackFields, h, chunks]
    simp [bind, Except.bind, pure, Except.pure, List.take_of_length_le (Nat.le_of_eq h)]
  · simp [V4.packedToInt, unpackFields, h, bind, Except.bind]

theorem v6_packedToInt_spec (bs : List Nat) (hb : ∀ b ∈ bs, b < 256) :
    (bs.length = 16 → V6.packedToInt bs = .ok (beValue bs)) ∧ (bs.length ≠ 16 → V6.packedToInt bs = .error .other) := by
  constructor <;> intro h
  · have := unpack_orShift 4 4 bs h hb
    simp only [V6.packedToInt, unpackFields, h]
    simp only [bind, Except.bind, pure, Except.pure]
    simpa using this
  · simp [V6.packedToInt, unpackFields, h, bind, Except.bind]

theorem e48_packedToInt_spec (bs : List Nat) (hb : ∀ b ∈ bs, b < 256) :
    (bs.length = 6 → E48.packedToInt bs = .ok (beValue bs)) ∧ (bs.length ≠ 6 → E48.packedToInt bs = .error .other) := by
  constructor <;> intro h
  · have := unpack_orShift 1 6 bs (by omega) hb
    simp only [E48.packedToInt, unpackFields, h]
    simp only [bind, Except.bind, pure, Except.pure]
    simpa using this
  · simp [E48.packedToInt, unpackFields, h, bind, Except.bind]

theorem e64_packedToInt_spec (bs : List Nat) (hb : ∀ b ∈ bs, b < 256) :
    (bs.length = 8 → E64.packedToInt bs = .ok (beValue bs)) ∧ (bs.length ≠ 8 → E64.packedToInt bs = .error .other) := by
  constructor <;> intro h
  · have := unpack_orShift 1 8 bs (by omega) hb
    simp only [E64.packedToInt, unpackFields, h]
    simp only [bind, Except.bind, pure, Except.pure]
    simpa using this
  · simp [E64.packedToInt, unpackFields, h, bind, Except.bind]

example : E48.packedToInt [0x00, 0x1b, 0x77, 0x49, 0x54, 0xfd] = .ok 0x001b774954fd := by rfl
example : E48.packedToInt [0x00, 0x1b, 0x77, 0x49, 0x54] = .error .other := by rfl

/-- decoder ∘ encoder = id on packed strings, all four families -/
theorem packed_roundtrip (v : Nat) :
    (v < 2 ^ 32 → ∃ p, V4.intToPacked v = .ok p ∧ V4.packedToInt p = .ok v) ∧
    (v < 2 ^ 128 → ∃ p, V6.intToPacked v = .ok p ∧ V6.packedToInt p = .ok v) ∧
    (v < 2 ^ 48 → ∃ p, E48.intToPacked v = .ok p ∧ E48.packedToInt p = .ok v) ∧
    (v < 2 ^ 64 → ∃ p, E64.intToPacked v = .ok p ∧ E64.packedToInt p = .ok v) := by
  refine ⟨fun h => ⟨_, (v4_intToPacked_spec v).1 h, ?_⟩, fun h => ⟨_, (v6_intToPacked_spec v).1 h, ?_⟩,
    fun h => ⟨_, (e48_intToPacked_spec v).1 h, ?_⟩, fun h => ⟨_, (e64_intToPacked_spec v).1 h, ?_⟩⟩
  · rw [(v4_packedToInt_spec _).1 (beBytes_length 4 v), (beBytes_shape 4 v h).2.2]
  · rw [(v6_packedToInt_spec _ (beBytes_lt 16 v)).1 (beBytes_length 16 v), (beBytes_shape 16 v h).2.2]
  · rw [(e48_packedToInt_spec _ (beBytes_lt 6 v)).1 (beBytes_length 6 v), (beBytes_shape 6 v h).2.2]
  · rw [(e64_packedToInt_spec _ (beBytes_lt 8 v)).1 (beBytes_length 8 v), (beBytes_shape 8 v h).2.2]

/-! ## bits() -/

/-- the n-digit zero-padded binary spelling: n characters, all 0/1, with value v -/
theorem padBits_shape (n v : Nat) (hv : v < 2 ^ n) :
    (padBits n v).length = n ∧ (∀ c ∈ padBits n v, c = '0' ∨ c = '1') ∧ digitsNat 2 (padBits n v) 0 = v := by
  refine ⟨padBits_length n v, ?_, ?_⟩
  · intro c hc
    have := padBits_01 n v c hc
    simpa [is01] using this
  · rw [digitsNat_padBits, Nat.mod_eq_of_lt hv]; simp

/-- `int_to_bits`: every word of the big-endian word tuple spelled with exactly `ws` binary
    digits (zero padded), joined by the separator; IndexError out of range -/
theorem intToBits_spec (v ws nw : Nat) (sep : List Char) :
    (v < 2 ^ (nw * ws) → ∃ words, intToWords v ws nw = .ok words ∧
        intToBits v ws nw sep = .ok (sep.intercalate (words.map (padBits ws)))) ∧
    (¬ v < 2 ^ (nw * ws) → intToBits v ws nw sep = .error .index) := by
  constructor
  · intro hv
    obtain ⟨words, h1, _, h3, _⟩ := (intToWords_spec v ws nw).1 hv
    refine ⟨words, h1, ?_⟩
    simp only [intToBits, h1]
    show Except.ok _ = _
    congr 2
    apply List.map_congr_left
    intro w hw
    exact wordBits_spec ws w (h3 w hw)
  · intro hv
    simp only [intToBits, (intToWords_spec v ws nw).2 hv]
    rfl

example : intToBits 0x0a000001 8 4 ['.'] = .ok "00001010.00000000.00000000.00000001".toList := by rfl
example : intToBits 0x001b774954fd 16 3 ['.'] = .ok "0000000000011011.0111011101001001.0101010011111101".toList := by rfl

/-- `bits_to_int`: with the separator occurrences removed, exactly the strings of `width`
    binary digits are accepted, with their base-2 value; wrong length or any other character
    (a digit ≥ 2, sign, space, underscore …) raises ValueError -/
theorem bitsToInt_spec (s : List Char) (width : Nat) (sep : List Char) :
    let t := if sep ≠ [] then replaceDel sep s else s
    (t.length = width ∧ (∀ c ∈ t, c = '0' ∨ c = '1') ∧ 1 ≤ width →
        bitsToInt s width sep = .ok (Int.ofNat (digitsNat 2 t 0))) ∧
    (¬ (t.length = width ∧ ∀ c ∈ t, c = '0' ∨ c = '1') → bitsToInt s width sep = .error .value) := by
  intro t
  constructor
  · rintro ⟨hl, h01, hw⟩
    have hne : t ≠ [] := by intro e; rw [e] at hl; simp at hl; omega
    have h01' : ∀ c ∈ t, is01 c = true := fun c hc => by simpa [is01] using h01 c hc
    have hpy := pyInt2_plain t hne (fun c hc => digitVal2_of_is01 c (h01' c hc))
    have hany : t.any (fun c => !is01 c) = false := by
      rw [List.any_eq_false]; intro c hc; simp [h01' c hc]
    have hlt := digitsNat_lt t 0
    have hvalid : validBits s width sep = true := by
      simp only [validBits]
      show (if t.length ≠ width then false else if t.any (fun c => !is01 c) = true then false else inRange2 t width) = true
      simp only [hl, ne_eq, not_true_eq_false, if_false, hany, Bool.false_eq_true, inRange2, hpy]
      simp only [decide_eq_true_eq]
      refine ⟨Int.natCast_nonneg _, ?_⟩
      rw [hl] at hlt
      have : (digitsNat 2 t 0 : Int) < (2 : Int) ^ width := by
        have : digitsNat 2 t 0 < 2 ^ width := by simpa using hlt
        exact_mod_cast this
      show (Int.ofNat (digitsNat 2 t 0)) ≤ 2 ^ width - 1
      simp only [Int.ofNat_eq_natCast]; omega
    simp only [bitsToInt, hvalid, Bool.not_true, Bool.false_eq_true, if_false]
    show (match pyInt 2 t with | some n => Except.ok n | none => Except.error Err.value) = _
    rw [hpy]
  · intro h
    have hvalid : validBits s width sep = false := by
      simp only [validBits]
      show (if t.length ≠ width then false else if t.any (fun c => !is01 c) = true then false else inRange2 t width) = false
      by_cases hl : t.length = width
      · have : ¬ ∀ c ∈ t, c = '0' ∨ c = '1' := fun hh => h ⟨hl, hh⟩
        have hany : t.any (fun c => !is01 c) = true := by
          rw [List.any_eq_true]
          apply Classical.byContradiction
          intro hn
          apply this
          intro c hc
          have : is01 c = true := by
            cases hi : is01 c with
            | true => rfl
            | false => exact absurd ⟨c, hc, by simp [hi]⟩ hn
          simpa [is01] using this
        simp [hl, hany]
      · simp [hl]
    simp [bitsToInt, hvalid]

example : bitsToInt "00001010.00000000.00000000.00000001".toList 32 ['.'] = .ok 0x0a000001 := by rfl
example : bitsToInt "00001010.00000000.00000000.00000002".toList 32 ['.'] = .error .value := by rfl
example : bitsToInt "00001010.00000000.00000000.0000001".toList 32 ['.'] = .error .value := by rfl
example : bitsToInt " 0001010.00000000.00000000.00000001".toList 32 ['.'] = .error .value := by rfl

/-- decoder ∘ encoder = id on bit strings, for every word size / word count and every
    separator that is empty or a single character other than a binary digit (all built-in
    dialects: '', '.', ':', '-') -/
theorem bits_roundtrip (v ws nw : Nat) (sep : List Char) (hv : v < 2 ^ (nw * ws)) (hw : 1 ≤ ws * nw)
    (hsep : sep = [] ∨ ∃ c, sep = [c] ∧ c ≠ '0' ∧ c ≠ '1') :
    ∃ s, intToBits v ws nw sep = .ok s ∧ bitsToInt s (ws * nw) sep = .ok (Int.ofNat v) := by
  have hp := pow_pos2 (nw * ws)
  have hwords : intToWords v ws nw = .ok (wordsLoop ws nw v).reverse := by
    simp only [intToWords]; rw [if_pos (by omega)]
  obtain ⟨words, h1, h2⟩ := (intToBits_spec v ws nw sep).1 hv
  rw [hwords] at h1
  have hw' : words = (wordsLoop ws nw v).reverse := by injection h1 with h; exact h.symm
  subst hw'
  refine ⟨_, h2, ?_⟩
  have hstrip := replaceDel_intercalate sep ((wordsLoop ws nw v).reverse.map (padBits ws)) (by
    rcases hsep with h | ⟨c, hc, c0, c1⟩
    · exact Or.inl h
    · refine Or.inr ⟨c, hc, ?_⟩
      intro l hl hcl
      simp only [List.mem_map] at hl
      obtain ⟨w, _, rfl⟩ := hl
      have := padBits_01 ws w c hcl
      simp [is01, c0, c1] at this)
  rw [flatten_padBits_words] at hstrip
  have hv' : v < 2 ^ (ws * nw) := by rw [Nat.mul_comm]; exact hv
  have hshape := padBits_shape (ws * nw) v hv'
  have hspec := (bitsToInt_spec (sep.intercalate ((wordsLoop ws nw v).reverse.map (padBits ws))) (ws * nw) sep).1
  simp only [hstrip] at hspec
  rw [hspec ⟨hshape.1, hshape.2.1, hw⟩, hshape.2.2]

/-! ## bin -/

/-- `int_to_bin`: Python's `bin(v)` (no leading zeros, '0b0' for 0); IndexError when it needs
    more than `width` digits, i.e. exactly when v ≥ 2^width -/
theorem intToBin_spec (v width : Nat) (hw : 1 ≤ width) :
    (v < 2 ^ width → intToBin v width = .ok ('0' :: 'b' :: Nat.toDigits 2 v)) ∧
    (¬ v < 2 ^ width → intToBin v width = .error .index) := by
  have h3 := (toDigits2_spec v 0).2.2 width
  simp only [intToBin, pyBin, List.drop_succ_cons, List.drop_zero]
  constructor <;> intro h
  · have : (Nat.toDigits 2 v).length ≤ width := h3.mpr ⟨h, hw⟩
    rw [if_neg (by omega)]
  · have : ¬ (Nat.toDigits 2 v).length ≤ width := fun hh => h (h3.mp hh).1
    rw [if_pos (by omega)]

example : intToBin 5 32 = .ok "0b101".toList := by rfl
example : intToBin (2 ^ 32) 32 = .error .index := by rfl

/-- `bin_to_int`: exactly '0b' followed by 1 … width binary digits is accepted, with its
    base-2 value; a missing prefix, too many digits, no digit, or any other character raises -/
theorem binToInt_spec (s : List Char) (width : Nat) :
    (∀ t, s = '0' :: 'b' :: t → t ≠ [] → t.length ≤ width → (∀ c ∈ t, c = '0' ∨ c = '1') →
        binToInt s width = .ok (Int.ofNat (digitsNat 2 t 0))) ∧
    (¬ (∃ t, s = '0' :: 'b' :: t ∧ t ≠ [] ∧ t.length ≤ width ∧ ∀ c ∈ t, c = '0' ∨ c = '1') →
        binToInt s width = .error .value) := by
  constructor
  · intro t hs hne hl h01
    subst hs
    have h01' : ∀ c ∈ t, is01 c = true := fun c hc => by simpa [is01] using h01 c hc
    have hpy := pyInt2_plain t hne (fun c hc => digitVal2_of_is01 c (h01' c hc))
    have hany : t.any (fun c => !is01 c) = false := by
      rw [List.any_eq_false]; intro c hc; simp [h01' c hc]
    have hlt := digitsNat_lt t 0
    have hvalid : validBin ('0' :: 'b' :: t) width = true := by
      simp only [validBin, List.isPrefixOf, beq_self_eq_true, Bool.and_self, Bool.not_true, Bool.false_eq_true,
        if_false, List.drop_succ_cons, List.drop_zero, hany, inRange2, hpy]
      rw [if_neg (by omega)]
      simp only [decide_eq_true_eq]
      refine ⟨Int.natCast_nonneg _, ?_⟩
      have h2 : digitsNat 2 t 0 < 2 ^ width := by
        have : 2 ^ t.length ≤ 2 ^ width := Nat.pow_le_pow_right (by decide) hl
        have : digitsNat 2 t 0 < 2 ^ t.length := by simpa using hlt
        omega
      have : (digitsNat 2 t 0 : Int) < (2 : Int) ^ width := by exact_mod_cast h2
      show (Int.ofNat (digitsNat 2 t 0)) ≤ 2 ^ width - 1
      simp only [Int.ofNat_eq_natCast]; omega
    simp only [binToInt, hvalid, Bool.not_true, Bool.false_eq_true, if_false, List.drop_succ_cons, List.drop_zero, hpy]
  · intro h
    have hvalid : validBin s width = false := by
      cases hv : validBin s width with
      | false => rfl
      | true =>
        exfalso; apply h
        simp only [validBin] at hv
        by_cases hp : (['0', 'b'].isPrefixOf s) = true
        · match s, hp with
          | [], hp => simp [List.isPrefixOf] at hp
          | [_], hp => simp [List.isPrefixOf] at hp
          | a :: b :: t, hp =>
            simp only [List.isPrefixOf, Bool.and_true, Bool.and_eq_true, beq_iff_eq] at hp
            obtain ⟨rfl, rfl⟩ := hp
            simp only [List.isPrefixOf, beq_self_eq_true, Bool.and_self, Bool.not_true, Bool.false_eq_true,
              if_false, List.drop_succ_cons, List.drop_zero] at hv
            by_cases hl : t.length > width
            · simp [hl] at hv
            · simp only [hl, if_false] at hv
              by_cases hany : t.any (fun c => !is01 c) = true
              · simp [hany] at hv
              · simp only [hany, Bool.false_eq_true, if_false] at hv
                refine ⟨t, rfl, ?_, by omega, ?_⟩
                · intro e; subst e; simp [inRange2, pyInt, stripWs] at hv
                · intro c hc
                  have : is01 c = true := by
                    cases hi : is01 c with
                    | true => rfl
                    | false =>
                      exact absurd (List.any_eq_true.mpr ⟨c, hc, by simp [hi]⟩) hany
                  simpa [is01] using this
        · simp [hp] at hv
    simp [binToInt, hvalid]

example : binToInt "0b101".toList 32 = .ok 5 := by rfl
example : binToInt "0b10b1".toList 32 = .error .value := by rfl
example : binToInt "0b1_1".toList 32 = .error .value := by rfl
example : binToInt ('0' :: 'b' :: List.replicate 33 '1') 32 = .error .value := by rfl
example : binToInt "0b".toList 32 = .error .value := by rfl

/-- decoder ∘ encoder = id on Python binary literals -/
theorem bin_roundtrip (v width : Nat) (hw : 1 ≤ width) (hv : v < 2 ^ width) :
    ∃ s, intToBin v width = .ok s ∧ binToInt s width = .ok (Int.ofNat v) := by
  refine ⟨_, (intToBin_spec v width hw).1 hv, ?_⟩
  obtain ⟨t1, t2, t3⟩ := toDigits2_spec v 0
  rw [(binToInt_spec _ width).1 (Nat.toDigits 2 v) rfl Nat.toDigits_ne_nil ((t3 width).mpr ⟨hv, hw⟩)
    (fun c hc => by simpa [is01] using t1 c hc), t2]
  simp

/-- the value 2^width is rejected by the encoders of every width -/
theorem encoders_reject_two_pow (ws nw : Nat) (sep : List Char) (hw : 1 ≤ nw * ws) :
    intToWords (2 ^ (nw * ws)) ws nw = .error .index ∧ intToBits (2 ^ (nw * ws)) ws nw sep = .error .index ∧
    intToBin (2 ^ (nw * ws)) (nw * ws) = .error .index :=
  ⟨(intToWords_spec _ ws nw).2 (Nat.lt_irrefl _), (intToBits_spec _ ws nw sep).2 (Nat.lt_irrefl _),
   (intToBin_spec _ _ hw).2 (Nat.lt_irrefl _)⟩

/-! ## RFC 1924 base 85 -/

/-- the generated alphabet is the one of RFC 1924 section 4.2 -/
theorem base85_alphabet :
    Gen.base85 = "0123456789ABCDEFGHIJKLMNOPQRSTUVWXYZabcdefghijklmnopqrstuvwxyz!#$%&()*+-;<=>?@^_`{|}~".toList := by
  decide +kernel

private theorem b85Char_mem : ∀ d, d < 85 → b85Char d ∈ Gen.base85 := by decide +kernel

/-- `ipv6_to_base85`: 20 characters of the alphabet whose positional value
    `Σ digit(cᵢ)·85^i` (least significant character last) is v -/
theorem base85_spec (v : Nat) (hv : v < 2 ^ 128) :
    (ipv6ToBase85 v).length = 20 ∧ (∀ c ∈ ipv6ToBase85 v, c ∈ Gen.base85) ∧
    b85Sum (ipv6ToBase85 v).reverse 0 0 = .ok v := by
  have hlen : (b85Loop v v).length ≤ 20 :=
    b85Loop_len v v 20 (Nat.le_refl _) (Nat.lt_trans hv two_pow_128_lt)
  have hd := b85Loop_lt v v
  have henc : ipv6ToBase85 v =
      List.replicate (20 - (b85Loop v v).length) '0' ++ (b85Loop v v).reverse.map b85Char := by
    simp [ipv6ToBase85, b85Char]
  refine ⟨?_, ?_, ?_⟩
  · rw [henc]; simp; omega
  · intro c hc
    rw [henc] at hc
    simp only [List.mem_append, List.mem_replicate, List.mem_map, List.mem_reverse] at hc
    rcases hc with ⟨_, rfl⟩ | ⟨d, hd', rfl⟩
    · exact b85Char_mem 0 (by decide)
    · exact b85Char_mem d (hd d hd')
  · rw [henc, List.reverse_append, ← List.map_reverse, List.reverse_reverse, List.reverse_replicate,
      b85Sum_digits _ hd, b85Sum_zeros, b85Loop_val v v (Nat.le_refl _)]
    simp

example : ipv6ToBase85 0x108000000000000000080800200c417a = "4)+k&C#VzJ4br>0wv%Yp".toList := by rfl

/-- decoder ∘ encoder = id for every IPv6 value -/
theorem base85_roundtrip (v : Nat) (hv : v < 2 ^ 128) : base85ToIpv6 (ipv6ToBase85 v) = .ok v := by
  obtain ⟨h1, _, h3⟩ := base85_spec v hv
  have hle : v ≤ 2 ^ 128 - 1 := by omega
  simp only [base85ToIpv6, h1, ne_eq, not_true_eq_false, if_false, h3]
  show (if v ≤ 2 ^ 128 - 1 then pure v else Except.error Err.addrFormat) = _
  rw [if_pos hle]; rfl

private theorem b85Sum_bad (l : List Char) (h : ∃ c ∈ l, Gen.base85Dict.lookup c.toNat = none) :
    ∀ i acc, b85Sum l i acc = .error .key := by
  induction l with
  | nil => obtain ⟨c, hc, _⟩ := h; simp at hc
  | cons x t ih =>
    intro i acc
    simp only [b85Sum]
    cases hx : Gen.base85Dict.lookup x.toNat with
    | none => rfl
    | some d =>
      obtain ⟨c, hc, hn⟩ := h
      simp only [List.mem_cons] at hc
      rcases hc with rfl | hc
      · rw [hx] at hn; cases hn
      · exact ih ⟨c, hc, hn⟩ _ _

/-- `base85_to_ipv6` rejects a wrong length (AddrFormatError), a character outside the alphabet
    (KeyError) and a numeral ≥ 2^128 (AddrFormatError); whatever it accepts is a 20-character
    numeral whose positional value is the result -/
theorem base85_reject (s : List Char) :
    (s.length ≠ 20 → base85ToIpv6 s = .error .addrFormat) ∧
    (s.length = 20 → (∃ c ∈ s, Gen.base85Dict.lookup c.toNat = none) → base85ToIpv6 s = .error .key) ∧
    (∀ n, s.length = 20 → b85Sum s.reverse 0 0 = .ok n → 2 ^ 128 ≤ n → base85ToIpv6 s = .error .addrFormat) ∧
    (∀ r, base85ToIpv6 s = .ok r → s.length = 20 ∧ b85Sum s.reverse 0 0 = .ok r ∧ r < 2 ^ 128) := by
  refine ⟨?_, ?_, ?_, ?_⟩
  · intro h; simp [base85ToIpv6, h]
  · intro h ⟨c, hc, hn⟩
    have := b85Sum_bad s.reverse ⟨c, by simpa using hc, hn⟩ 0 0
    simp only [base85ToIpv6, h, ne_eq, not_true_eq_false, if_false, this]
    rfl
  · intro n h hs hn
    have hle : ¬ n ≤ 2 ^ 128 - 1 := by omega
    simp only [base85ToIpv6, h, ne_eq, not_true_eq_false, if_false, hs]
    show (if n ≤ 2 ^ 128 - 1 then pure n else Except.error Err.addrFormat) = _
    rw [if_neg hle]
  · intro r h
    by_cases hl : s.length = 20
    · simp only [base85ToIpv6, hl, ne_eq, not_true_eq_false, if_false] at h
      cases hs : b85Sum s.reverse 0 0 with
      | error e => rw [hs] at h; cases h
      | ok n =>
        rw [hs] at h
        have h' : (if n ≤ 2 ^ 128 - 1 then pure n else Except.error Err.addrFormat) = Except.ok r := h
        by_cases hn : n ≤ 2 ^ 128 - 1
        · rw [if_pos hn] at h'
          have : n = r := by injection h'
          subst this
          exact ⟨hl, rfl, by omega⟩
        · rw [if_neg hn] at h'; cases h'
    · simp [base85ToIpv6, hl] at h

example : base85ToIpv6 "4)+k&C#VzJ4br>0wv%Yp".toList = .ok 0x108000000000000000080800200c417a := by rfl
example : base85ToIpv6 (List.replicate 20 '~') = .error .addrFormat := by rfl
example : base85ToIpv6 (List.replicate 19 '0') = .error .addrFormat := by rfl
example : base85ToIpv6 (List.replicate 19 '0' ++ [' ']) = .error .key := by rfl

/-! ## reverse DNS -/

/-- `ipv4.int_to_arpa`: the four octets, least significant first, in decimal, then
    `in-addr.arpa.` -/
theorem arpa4_spec (v : Nat) (hv : v < 2 ^ 32) :
    V4.intToArpa v = .ok (['.'].intercalate [Nat.toDigits 10 (v % 256), Nat.toDigits 10 (v / 2 ^ 8 % 256),
      Nat.toDigits 10 (v / 2 ^ 16 % 256), Nat.toDigits 10 (v / 2 ^ 24), "in-addr".toList, "arpa".toList, []]) := by
  have h1 : v ≤ 2 ^ 32 - 1 := by omega
  simp only [V4.intToArpa, V4.intToWords, if_pos h1, and255, Nat.shiftRight_eq_div_pow]
  rfl

example : V4.intToArpa 0xC0000201 = .ok "1.2.0.192.in-addr.arpa.".toList := by rfl
set_option maxRecDepth 8000 in
example : V6.intToArpa 1 = .ok "1.0.0.0.0.0.0.0.0.0.0.0.0.0.0.0.0.0.0.0.0.0.0.0.0.0.0.0.0.0.0.0.ip6.arpa.".toList := by rfl

private theorem digitChar_ne_colon : ∀ d, d < 16 → Nat.digitChar d ≠ ':' := by decide

/-- `ipv6.int_to_arpa`: the 32 nibbles of the address, least significant first, as lower-case
    hex digits, then `ip6.arpa.` -/
theorem arpa6_spec (v : Nat) (hv : v < 2 ^ 128) :
    V6.intToArpa v = .ok (['.'].intercalate
      ((List.range 32).map (fun i => [Nat.digitChar (v / 2 ^ (4 * i) % 2 ^ 4)]) ++
        ["ip6".toList, "arpa".toList, []])) := by
  let H := (wordsLoop 16 8 v).reverse
  have hHlt : ∀ h ∈ H, h < 16 ^ 4 := fun h hh => wordsLoop_lt 16 8 v h (by simpa [H] using hh)
  have h1 := (v6_intToPacked_spec v).1 hv
  have h2 : unpackFields 2 8 (beBytes 16 v) = .ok H := by
    have hc := chunks_beBytes 2 8 v
    simp only [Nat.reduceMul] at hc
    simp only [unpackFields, beBytes_length, Nat.reduceMul, ne_eq, not_true_eq_false, if_false, hc, H]
  have htok : ∀ h ∈ H, fmtHex 4 false h = (wordsLoop 4 4 h).reverse.map Nat.digitChar :=
    fun h hh => fmtHex_nibbles 4 (by decide) h (hHlt h hh)
  have h3 : V6.intToStrVerbose v = .ok ([':'].intercalate (H.map (fmtHex 4 false))) := by
    simp only [V6.intToStrVerbose, h1, h2]; rfl
  have h4 : replaceDel [':'] ([':'].intercalate (H.map (fmtHex 4 false))) = (H.map (fmtHex 4 false)).flatten := by
    have := replaceDel_intercalate [':'] (H.map (fmtHex 4 false)) (Or.inr ⟨':', rfl, by
      intro l hl hmem
      simp only [List.mem_map] at hl
      obtain ⟨h, hh, rfl⟩ := hl
      rw [htok h hh] at hmem
      simp only [List.mem_map, List.mem_reverse] at hmem
      obtain ⟨d, hd, he⟩ := hmem
      exact digitChar_ne_colon d (by have := wordsLoop_lt 4 4 h d hd; omega) he⟩)
    simpa using this
  have h5 : (H.map (fmtHex 4 false)).flatten = (wordsLoop 4 32 v).reverse.map Nat.digitChar := by
    have e : H.map (fmtHex 4 false) = H.map (fun h => (wordsLoop 4 4 h).reverse.map Nat.digitChar) :=
      List.map_congr_left htok
    have hr := regroup 4 4 8 v
    simp only [Nat.reduceMul] at hr
    rw [e, ← hr]
    simp only [H, List.map_flatten, List.map_map, Function.comp_def]
  simp only [V6.intToArpa, h3, bind, Except.bind, h4, h5, pure, Except.pure]
  congr 2
  rw [← List.map_reverse, List.reverse_reverse, wordsLoop_range, List.map_map, List.map_map]
  rfl

/-! ## further shape facts -/

/-- word i of `int_to_words` is digit `nw-1-i` of v in base 2^ws (big-endian word tuple) -/
theorem intToWords_get (v ws nw i : Nat) (hv : v < 2 ^ (nw * ws)) (hi : i < nw) :
    ∃ words, intToWords v ws nw = .ok words ∧ words[i]? = some (v / 2 ^ (ws * (nw - 1 - i)) % 2 ^ ws) := by
  have hp := pow_pos2 (nw * ws)
  refine ⟨(wordsLoop ws nw v).reverse, by simp only [intToWords]; rw [if_pos (by omega)], ?_⟩
  rw [List.getElem?_reverse (by simpa [wordsLoop_length] using hi), wordsLoop_length, wordsLoop_range]
  rw [List.getElem?_map, List.getElem?_range (by omega)]
  rfl

private def sepOkB (sep : List Char) : Bool :=
  match sep with
  | [] => true
  | [c] => c != '0' && c != '1'
  | _ => false

private theorem dialect_seps_ok : ∀ d ∈ Gen.macDialects ++ Gen.eui64Dialects, sepOkB d.sep = true := by decide

/-- decoder ∘ encoder = id on bit strings for the word size / separator of **every built-in
    dialect** and of the two IP families -/
theorem bits_roundtrip_builtin (v : Nat) :
    (∀ d ∈ Gen.macDialects ++ Gen.eui64Dialects, v < 2 ^ (d.numWords * d.wordSize) → 1 ≤ d.wordSize * d.numWords →
      ∃ s, intToBits v d.wordSize d.numWords d.sep = .ok s ∧
        bitsToInt s (d.wordSize * d.numWords) d.sep = .ok (Int.ofNat v)) ∧
    (v < 2 ^ 32 → ∃ s, V4.intToBits v none = .ok s ∧ V4.bitsToInt s = .ok (Int.ofNat v)) ∧
    (v < 2 ^ 128 → ∃ s, V6.intToBits v none = .ok s ∧ V6.bitsToInt s = .ok (Int.ofNat v)) := by
  refine ⟨?_, ?_, ?_⟩
  · intro d hd hv hw
    apply bits_roundtrip v d.wordSize d.numWords d.sep hv hw
    have := dialect_seps_ok d hd
    unfold sepOkB at this
    match hs : d.sep, this with
    | [], _ => exact Or.inl rfl
    | [c], h =>
      simp only [Bool.and_eq_true, bne_iff_ne, ne_eq] at h
      exact Or.inr ⟨c, rfl, h.1, h.2⟩
  · intro hv
    exact bits_roundtrip v 8 4 ['.'] hv (by decide) (Or.inr ⟨'.', rfl, by decide, by decide⟩)
  · intro hv
    exact bits_roundtrip v 16 8 [':'] hv (by decide) (Or.inr ⟨':', rfl, by decide, by decide⟩)

end NV.C15
