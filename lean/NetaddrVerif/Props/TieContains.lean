/-
Props/TieContains.lean — translation tie for `x in y` (C04): the CURRENT source text of
`IPNetwork.__contains__` and `IPRange.__contains__`, translated once per operand class
(`isinstance` tests decided by the class), equals `Contains.netContains` / `Contains.rngContains`.
-/
import NetaddrVerif.Gen.Trans
import NetaddrVerif.Lemmas.TieL
import NetaddrVerif.Model.Contains
namespace NV.Tie
open NV NV.Trans NV.Contains

theorem dec_eq_cast (x y : Nat) : decide ((x : Int) = (y : Int)) = (x == y) := by
  have e : ((x : Int) = (y : Int)) ↔ x = y := Int.ofNat_inj
  cases h : (x == y) <;> simp_all

theorem dec_eq_le_cast (x y p q : Nat) :
    decide ((x : Int) = (y : Int) ∧ (p : Int) ≤ (q : Int)) = ((x == y) && decide (p ≤ q)) := by
  have e : ((x : Int) = (y : Int)) ↔ x = y := Int.ofNat_inj
  cases h : (x == y) <;> simp_all

theorem dec_rng_net (lo hi S O : Nat) (hO : 1 ≤ O) :
    decide ((lo : Int) ≤ (S : Int) ∧ (hi : Int) ≥ (S : Int) + (O : Int) - 1) = (decide (lo ≤ S) && decide (hi ≥ S + O - 1)) := by
  have e : (S : Int) + (O : Int) - 1 = ((S + O - 1 : Nat) : Int) := by omega
  rw [e]
  simp only [Bool.decide_and, Int.ofNat_le, ge_iff_le]

theorem shr_sub (v w p : Nat) (hp : p ≤ w) : Py.shr (v : Int) ((w : Int) - (p : Int)) = ((v >>> (w - p) : Nat) : Int) := by
  rw [Py.shr_ofNat]
  have : ((w : Int) - (p : Int)).toNat = w - p := by omega
  rw [this]

theorem shl_sub (v w p : Nat) (hp : p ≤ w) : Py.shl (v : Int) ((w : Int) - (p : Int)) = ((v <<< (w - p) : Nat) : Int) := by
  rw [Py.shl_ofNat _ _ (by omega)]
  have : ((w : Int) - (p : Int)).toNat = w - p := by omega
  rw [this]

theorem net_contains_addr (self : Net) (a : Addr) (hp : self.plen ≤ width self.ver) :
    IPNetwork_contains_addr self.ver self.val self.plen a.ver a.val = netContains self (.addr a) := by
  simp only [tie_unfold, netContains, Obj.ver]
  by_cases hv : self.ver = a.ver
  · simp only [hv, ne_eq, not_true_eq_false, ↓reduceIte, bne_self_eq_false, Bool.false_eq_true]
    rw [← hv, shr_sub _ _ _ hp, shr_sub _ _ _ hp]
    exact dec_eq_cast _ _
  · have : ¬ ((self.ver : Int) = (a.ver : Int)) := by omega
    simp [hv, this]

theorem net_contains_net (self n : Net) (hp : self.plen ≤ width self.ver) :
    IPNetwork_contains_net self.ver self.val self.plen n.ver n.val n.plen = netContains self (.net n) := by
  simp only [tie_unfold, netContains, Obj.ver]
  by_cases hv : self.ver = n.ver
  · simp only [hv, ne_eq, not_true_eq_false, ↓reduceIte, bne_self_eq_false, Bool.false_eq_true]
    rw [← hv, shr_sub _ _ _ hp, shr_sub _ _ _ hp]
    exact dec_eq_le_cast _ _ _ _
  · have : ¬ ((self.ver : Int) = (n.ver : Int)) := by omega
    simp [hv, this]

theorem net_contains_rng (self : Net) (r : Rng) (hp : self.plen ≤ width self.ver) :
    IPNetwork_contains_rng self.ver self.val self.plen r.ver r.lo r.hi = netContains self (.rng r) := by
  simp only [tie_unfold, netContains, Obj.ver]
  by_cases hv : self.ver = r.ver
  · simp only [hv, ne_eq, not_true_eq_false, ↓reduceIte, bne_self_eq_false, Bool.false_eq_true]
    rw [← hv, shr_sub _ _ _ hp]
    have e1 : ((self.val >>> (width self.ver - self.plen) : Nat) : Int) + 1
        = ((self.val >>> (width self.ver - self.plen) + 1 : Nat) : Int) := by push_cast; rfl
    rw [e1, shl_sub _ _ _ hp, shl_sub _ _ _ hp]
    simp only [Bool.decide_and, Int.ofNat_le, gt_iff_lt, Int.ofNat_lt]
  · have : ¬ ((self.ver : Int) = (r.ver : Int)) := by omega
    simp [hv, this]

theorem rng_contains_addr (self : Rng) (a : Addr) :
    IPRange_contains_addr self.ver self.lo self.hi a.ver a.val = rngContains self (.addr a) := by
  simp only [tie_unfold, rngContains, Obj.ver]
  by_cases hv : self.ver = a.ver
  · simp [hv]
  · have : ¬ ((self.ver : Int) = (a.ver : Int)) := by omega
    simp [hv, this]

theorem rng_contains_rng (self r : Rng) :
    IPRange_contains_rng self.ver self.lo self.hi r.ver r.lo r.hi = rngContains self (.rng r) := by
  simp only [tie_unfold, rngContains, Obj.ver]
  by_cases hv : self.ver = r.ver
  · simp [hv]
  · have : ¬ ((self.ver : Int) = (r.ver : Int)) := by omega
    simp [hv, this]

theorem rng_contains_net (self : Rng) (n : Net) (hp : n.plen ≤ width n.ver) :
    IPRange_contains_net self.ver self.lo self.hi n.ver n.val n.plen = rngContains self (.net n) := by
  simp only [tie_unfold, rngContains, Obj.ver]
  by_cases hv : self.ver = n.ver
  · simp only [hv, ne_eq, not_true_eq_false, ↓reduceIte, bne_self_eq_false, Bool.false_eq_true]
    rw [shr_sub _ _ _ hp, shl_sub _ _ _ hp, Py.one_shl_sub _ _ hp]
    exact dec_rng_net _ _ _ _ (Py.one_shl_pos (width n.ver - n.plen))
  · have : ¬ ((self.ver : Int) = (n.ver : Int)) := by omega
    simp [hv, this]

example : IPNetwork_contains_rng 4 0x0A000005 24 4 0x0A000000 0x0A0000FF = true ∧
    IPRange_contains_net 4 0x0A000000 0x0A0000FF 4 0x0A000005 24 = true ∧
    IPRange_contains_net 4 0x0A000000 0x0A0000FE 4 0x0A000005 24 = false := by decide

end NV.Tie
