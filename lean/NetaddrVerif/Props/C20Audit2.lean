/-
Props/C20Audit2.lean — property C20, audit round 2b, findings 1 and 6.

Finding 6: `available_subnets()` (contrib/subnet_splitter.py:40-42,
`sorted(self._subnets, key=lambda x: x.prefixlen, reverse=True)`) is in descending prefix order
(`available_sorted`, a `List.Pairwise` statement) and the sort is stable (`available_stable`:
blocks of one prefix length keep the set's iteration order).

Finding 1: the EXACT outcome of `extract_subnet(prefix, count)` (contrib/subnet_splitter.py:25-38
with `IPNetwork.subnet`, ip/__init__.py:1298-1337).  `Props/C20.lean` says what holds IF a call
returned blocks / `[]` / an error; here it is proved WHICH of the three happens and WHAT is
returned:

* the block that is split (`candidate`) is the first one in `available_subnets()` order whose
  prefix length is `≤ prefix`; in terms of the free set alone (`candidate_iff`): it fits, no
  fitting free block has a longer prefix (best fit), and it is the first block of its prefix
  length in the set's iteration order;
* no candidate (`candidate_none_iff`: every free block has a longer prefix) ⇒ `[]`, state untouched;
* a candidate `cidr` with `M = 2^(prefix - cidr.prefixlen)` aligned /prefix slots and
  `c = count` (or `M` when count is None): `1 ≤ c ≤ M` ⇒ exactly the first `c` aligned /prefix
  blocks of `cidr`, `[sub cidr prefix 0, …, sub cidr prefix (c-1)]`, in this order, and the new
  free set is `residue`; otherwise (`count < 1` or `count > M`) ⇒ ValueError — the loop does NOT
  go on to a larger free block that could have met the count;
* `extract_outcome_iff`: the three cases as equivalences; `extract_length`: how many blocks.

`history_outcomes` states it along every history of a fresh `SubnetSplitter(base)`.

All theorems are about `NV.Splitter.extractSubnet` / `step` / `availableSubnets`
(Model/Splitter.lean), the definitions the driver op `splitter` runs.  Prefixes beyond the
family width are outside the property's domain (README row 13): there the theorem only says
that the call raises (`extract_beyond_width`).
-/
import NetaddrVerif.Props.C20Full
namespace NV.C20A2
open NV NV.Splitter NV.C20L

/-! ### finding 6: the order of `available_subnets()` -/

/-- **`available_subnets()` is sorted by prefix length, descending**
    (contrib/subnet_splitter.py:42) -/
theorem available_sorted (s : List Net) :
    (availableSubnets s).Pairwise (fun a b => a.plen ≥ b.plen) := by
  have h := List.pairwise_mergeSort (le := fun (a b : Net) => decide (a.plen ≥ b.plen))
    (by intro a b c h1 h2; simp only [decide_eq_true_eq] at *; omega)
    (by intro a b; simp only [Bool.or_eq_true, decide_eq_true_eq]; omega) s
  exact h.imp (by intro a b hab; simpa using hab)

/-- **the sort is stable** (Python's `sorted` is; so is `List.mergeSort`): the free blocks of one
    prefix length appear in `available_subnets()` in the set's iteration order -/
theorem available_stable (s : List Net) (p : Nat) :
    (availableSubnets s).filter (fun c => c.plen == p) = s.filter (fun c => c.plen == p) := by
  have hsub : (s.filter (fun c => c.plen == p)).Sublist (availableSubnets s) := by
    apply List.sublist_mergeSort (le := fun (a b : Net) => decide (a.plen ≥ b.plen))
      (by intro a b c h1 h2; simp only [decide_eq_true_eq] at *; omega)
      (by intro a b; simp only [Bool.or_eq_true, decide_eq_true_eq]; omega)
    · rw [List.pairwise_filter]
      apply List.Pairwise.imp_of_mem (R := fun _ _ => True) _ (List.pairwise_of_forall (fun _ _ => trivial))
      intro a b ha' hb' _ ha hb
      simp only [beq_iff_eq] at ha hb
      simp only [decide_eq_true_eq]; omega
    · exact List.filter_sublist
  have hsub2 := hsub.filter (fun c => c.plen == p)
  rw [List.filter_filter] at hsub2
  simp only [Bool.and_self] at hsub2
  have hlen : ((availableSubnets s).filter (fun c => c.plen == p)).length =
      (s.filter (fun c => c.plen == p)).length :=
    ((available_perm s).filter _).length_eq
  exact (hsub2.eq_of_length hlen.symm).symm

/-! ### the block `extract_subnet` splits -/

/-- the free block `extract_subnet(prefix, …)` stops at: the first one in `available_subnets()`
    order whose prefix length is `≤ prefix` (the first `cidr` for which `cidr.subnet(prefix, …)`
    is not the empty generator, ip/__init__.py:1315-1317) -/
def candidate (s : List Net) (pfx : Int) : Option Net :=
  (availableSubnets s).find? (fun c => decide ((c.plen : Int) ≤ pfx))

/-- no candidate iff every free block is smaller than the request -/
theorem candidate_none_iff (s : List Net) (pfx : Int) :
    candidate s pfx = none ↔ ∀ c ∈ s, pfx < (c.plen : Int) := by
  simp only [candidate, List.find?_eq_none, decide_eq_true_eq, Int.not_le]
  constructor
  · intro h c hc; exact h c ((available_perm s).mem_iff.2 hc)
  · intro h c hc; exact h c ((available_perm s).mem_iff.1 hc)

/-- **the candidate is the best fit**: a free block that is large enough, no free block that is
    large enough has a longer prefix, and among the free blocks of its prefix length it is the
    first in the set's iteration order -/
theorem candidate_best_fit (s : List Net) (pfx : Int) (cidr : Net) (h : candidate s pfx = some cidr) :
    cidr ∈ s ∧ (cidr.plen : Int) ≤ pfx ∧ (∀ y ∈ s, (y.plen : Int) ≤ pfx → y.plen ≤ cidr.plen) ∧
    s.find? (fun y => y.plen == cidr.plen) = some cidr := by
  obtain ⟨hp, as, bs, hav, has⟩ := List.find?_eq_some_iff_append.1 h
  simp only [decide_eq_true_eq] at hp
  have hsorted := available_sorted s
  rw [hav, List.pairwise_append] at hsorted
  obtain ⟨_, hcb, _⟩ := hsorted
  have hcb' := (List.pairwise_cons.1 hcb).1
  have hmem : cidr ∈ s := (available_perm s).mem_iff.1 (by rw [hav]; simp)
  refine ⟨hmem, hp, ?_, ?_⟩
  · intro y hy hyp
    have hy' : y ∈ availableSubnets s := (available_perm s).mem_iff.2 hy
    rw [hav] at hy'
    rcases List.mem_append.1 hy' with hya | hyb
    · have := has y hya
      simp only [Bool.not_eq_true', decide_eq_false_iff_not] at this
      omega
    · rcases List.mem_cons.1 hyb with rfl | hyb'
      · exact Nat.le_refl _
      · exact hcb' y hyb'
  · rw [← List.head?_filter, ← available_stable, hav, List.filter_append]
    have hnone : as.filter (fun c => c.plen == cidr.plen) = [] := by
      rw [List.filter_eq_nil_iff]
      intro a ha
      have := has a ha
      simp only [Bool.not_eq_true', decide_eq_false_iff_not] at this
      simp only [beq_iff_eq]; omega
    rw [hnone, List.filter_cons_of_pos (by simp)]
    rfl

/-- the candidate in terms of the free set alone (no reference to the sort) -/
theorem candidate_iff (s : List Net) (pfx : Int) (cidr : Net) :
    candidate s pfx = some cidr ↔
      (cidr.plen : Int) ≤ pfx ∧ (∀ y ∈ s, (y.plen : Int) ≤ pfx → y.plen ≤ cidr.plen) ∧
      s.find? (fun y => y.plen == cidr.plen) = some cidr := by
  constructor
  · intro h
    obtain ⟨_, h2, h3, h4⟩ := candidate_best_fit s pfx cidr h
    exact ⟨h2, h3, h4⟩
  · rintro ⟨h2, h3, h4⟩
    have hmem : cidr ∈ s := List.mem_of_find?_eq_some h4
    cases hc : candidate s pfx with
    | none =>
      have := (candidate_none_iff s pfx).1 hc cidr hmem
      omega
    | some x =>
      obtain ⟨hx1, hx2, hx3, hx4⟩ := candidate_best_fit s pfx x hc
      have hle1 := h3 x hx1 hx2
      have hle2 := hx3 cidr hmem h2
      have heq : x.plen = cidr.plen := by omega
      rw [heq, h4] at hx4
      exact hx4.symm ▸ rfl

/-! ### finding 1: the exact outcome of `extract_subnet` -/

/-- how many blocks the request asks for: `count`, or every /prefix slot of the candidate
    (`if count is None: count = max_subnets`, ip/__init__.py:1321-1324) -/
def wanted (cidr : Net) (pfx : Int) (count : Option Int) : Int :=
  count.getD ((2 ^ (pfx.toNat - cidr.plen) : Nat) : Int)

/-- the request can be met from `cidr`: `1 <= count <= max_subnets` (ip/__init__.py:1326) -/
def Fits (cidr : Net) (pfx : Int) (count : Option Int) : Prop :=
  1 ≤ wanted cidr pfx count ∧ wanted cidr pfx count ≤ ((2 ^ (pfx.toNat - cidr.plen) : Nat) : Int)

instance (cidr : Net) (pfx : Int) (count : Option Int) : Decidable (Fits cidr pfx count) := by
  unfold Fits; exact inferInstance

/-- the first `wanted` aligned /prefix blocks of `cidr`, in address order:
    `C11.sub cidr q i` = (family of `cidr`, `cidr.first + i * 2^(width - q)`, `/q`) -/
def firstBlocks (cidr : Net) (pfx : Int) (count : Option Int) : List Net :=
  (List.range (wanted cidr pfx count).toNat).map (C11.sub cidr pfx.toNat)

/-- the free set after `subs` were cut out of `cidr` (contrib/subnet_splitter.py:31-36):
    `cidr` removed, then what repeated `cidr_exclude` of the merged `subs` leaves of it added.
    `C20L.split_tiling` says what this is as a set of addresses. -/
def residue (s : List Net) (cidr : Net) (subs : List Net) : List Net :=
  unionSet (s.eraseP (keyEq cidr))
    ((subtractAll (width cidr.ver) ⟨cidr.val, cidr.plen⟩ (cidrMerge (toItems subs))).map
      (fun b => ⟨cidr.ver, b.val, b.plen⟩))

theorem firstBlocks_length (cidr : Net) (pfx : Int) (count : Option Int) :
    (firstBlocks cidr pfx count).length = (wanted cidr pfx count).toNat := by
  simp [firstBlocks]

theorem firstBlocks_ne_nil (cidr : Net) (pfx : Int) (count : Option Int) (h : Fits cidr pfx count) :
    firstBlocks cidr pfx count ≠ [] := by
  intro he
  have := firstBlocks_length cidr pfx count
  rw [he] at this
  have h1 := h.1
  simp only [List.length_nil] at this
  omega

/-- the loop passes over free blocks that are too small (`subnet()` yields nothing for them) -/
theorem loop_skip (s : List Net) (pfx : Int) (count : Option Int) (l : List Net) :
    ∀ (as : List Net), (∀ a ∈ as, a.WF ∧ (!decide ((a.plen : Int) ≤ pfx)) = true) →
      extractLoop s pfx count (as ++ l) = extractLoop s pfx count l := by
  intro as
  induction as with
  | nil => intro _; rfl
  | cons a as ih =>
    intro h
    obtain ⟨hwf, hlt⟩ := h a (by simp)
    simp only [Bool.not_eq_true', decide_eq_false_iff_not, Int.not_le] at hlt
    have hsub := C11.subnet_shorter a hwf pfx count hlt
    simp only [List.cons_append, extractLoop, hsub, List.isEmpty_nil, ite_true]
    exact ih (fun x hx => h x (List.mem_cons_of_mem _ hx))

/-- what `subnet()` answers for a block that is large enough, prefix within the width -/
theorem subnet_exact (cidr : Net) (hwf : cidr.WF) (pfx : Int) (count : Option Int)
    (hp : (cidr.plen : Int) ≤ pfx) (hw : pfx ≤ (width cidr.ver : Nat)) :
    (Fits cidr pfx count → Subnet.subnet cidr pfx count = .ok (firstBlocks cidr pfx count)) ∧
    (¬ Fits cidr pfx count → Subnet.subnet cidr pfx count = .error .value) := by
  have hqe : pfx = ((pfx.toNat : Nat) : Int) := by omega
  obtain ⟨s1, s2, s3⟩ := C11.subnet_spec cidr hwf pfx.toNat (by omega) (by omega)
  rw [← hqe] at s1 s2 s3
  cases count with
  | none =>
    constructor
    · intro _
      simp only [firstBlocks, wanted, Option.getD_none, Int.toNat_natCast]
      exact s1
    · intro hf
      exfalso; apply hf
      have := Nat.pos_of_ne_zero (show 2 ^ (pfx.toNat - cidr.plen) ≠ 0 by simp)
      simp only [Fits, wanted, Option.getD_none]
      omega
  | some c =>
    constructor
    · intro hf
      simp only [Fits, wanted, Option.getD_some] at hf
      simp only [firstBlocks, wanted, Option.getD_some]
      exact s2 c hf.1 hf.2
    · intro hf
      simp only [Fits, wanted, Option.getD_some] at hf
      exact s3 c hf

/-- **the exact outcome of `extract_subnet`**, three ways, for any free set of well-formed
    networks (contrib/subnet_splitter.py:25-38):
    1. no free block with prefix `≤ prefix`: `[]`, the free set is untouched;
    2. otherwise, with `cidr` the candidate and `prefix` within the width: if
       `1 ≤ count ≤ 2^(prefix - cidr.prefixlen)` (count None = all of them) the call returns exactly
       the first `count` aligned /prefix blocks of `cidr` and the free set becomes `residue`;
    3. if not, it raises ValueError (and `extract_step`/`failed_request_unchanged` say the free
       set is unchanged) — in particular the loop does not try a larger free block. -/
theorem extract_outcome (s : List Net) (hs : ∀ c ∈ s, c.WF) (pfx : Int) (count : Option Int) :
    (candidate s pfx = none → extractSubnet s pfx count = .ok ([], s)) ∧
    (∀ cidr, candidate s pfx = some cidr → pfx ≤ (width cidr.ver : Nat) →
      (Fits cidr pfx count → extractSubnet s pfx count =
          .ok (firstBlocks cidr pfx count, residue s cidr (firstBlocks cidr pfx count))) ∧
      (¬ Fits cidr pfx count → extractSubnet s pfx count = .error .value)) := by
  have hav : ∀ c ∈ availableSubnets s, c.WF := fun c hc => hs c ((available_perm s).mem_iff.1 hc)
  constructor
  · intro hnone
    simp only [candidate, List.find?_eq_none] at hnone
    have := loop_skip s pfx count [] (availableSubnets s)
      (fun a ha => ⟨hav a ha, by simpa using hnone a ha⟩)
    rw [List.append_nil] at this
    rw [extractSubnet, this]; rfl
  · intro cidr hc hw
    obtain ⟨hp, as, bs, hsplit, has⟩ := List.find?_eq_some_iff_append.1 hc
    simp only [decide_eq_true_eq] at hp
    have hcav : cidr ∈ availableSubnets s := by rw [hsplit]; simp
    have hcs : cidr ∈ s := (available_perm s).mem_iff.1 hcav
    have hskip := loop_skip s pfx count (cidr :: bs) as
      (fun a ha => ⟨hav a (by rw [hsplit]; simp [ha]), has a ha⟩)
    obtain ⟨hok, herr⟩ := subnet_exact cidr (hs cidr hcs) pfx count hp hw
    rw [extractSubnet, hsplit, hskip]
    constructor
    · intro hf
      have hne : (firstBlocks cidr pfx count).isEmpty = false := by
        have := firstBlocks_ne_nil cidr pfx count hf
        cases h : firstBlocks cidr pfx count with
        | nil => exact absurd h this
        | cons _ _ => rfl
      have hany : s.any (keyEq cidr) = true := List.any_eq_true.2 ⟨cidr, hcs, keyEq_refl cidr⟩
      simp only [extractLoop, hok hf, hne, removeSubnet, hany, ite_true, Bool.false_eq_true,
        ite_false, residue]
    · intro hf
      simp only [extractLoop, herr hf]

/-- beyond the family width (outside the property's domain, README row 13) a call that finds a
    candidate raises: `subnet()` fails on its count check (ValueError) or on building the first
    block `'%s/%d'` (AddrFormatError), ip/__init__.py:1326-1333 -/
theorem extract_beyond_width (s : List Net) (hs : ∀ c ∈ s, c.WF) (pfx : Int) (count : Option Int)
    (cidr : Net) (hc : candidate s pfx = some cidr) (hw : (width cidr.ver : Nat) < pfx) :
    ∃ e, extractSubnet s pfx count = .error e := by
  have hav : ∀ c ∈ availableSubnets s, c.WF := fun c hc => hs c ((available_perm s).mem_iff.1 hc)
  obtain ⟨hp, as, bs, hsplit, has⟩ := List.find?_eq_some_iff_append.1 hc
  have hcs : cidr ∈ s := (available_perm s).mem_iff.1 (by rw [hsplit]; simp)
  have hskip := loop_skip s pfx count (cidr :: bs) as
    (fun a ha => ⟨hav a (by rw [hsplit]; simp [ha]), has a ha⟩)
  rw [extractSubnet, hsplit, hskip]
  rcases subnet_cases cidr (hs cidr hcs) pfx count with ⟨h, _⟩ | ⟨_, h, _⟩ | ⟨_, h, _⟩ | ⟨_, e, he⟩
  · have := (hs cidr hcs).2.2; omega
  · omega
  · omega
  · exact ⟨e, by simp only [extractLoop, he]⟩

/-- **`extract_outcome_iff`**: when each of the three answers is given, for a free set of
    well-formed networks and a prefix within the width of every free block's family.
    (a) `[]` iff every free block has a longer prefix than requested (and then nothing changes);
    (b) an error iff there is a candidate and `count` is not in `1 .. 2^(prefix - its prefix)`;
        the error is ValueError;
    (c) a non-empty answer is given iff there is a candidate that meets the count, and it is
        exactly `firstBlocks` of the candidate, leaving `residue`. -/
theorem extract_outcome_iff (s : List Net) (hs : ∀ c ∈ s, c.WF) (pfx : Int) (count : Option Int)
    (hw : ∀ c ∈ s, pfx ≤ (width c.ver : Nat)) :
    ((∃ s', extractSubnet s pfx count = .ok ([], s')) ↔ ∀ c ∈ s, pfx < (c.plen : Int)) ∧
    (∀ s', extractSubnet s pfx count = .ok ([], s') → s' = s) ∧
    ((∃ e, extractSubnet s pfx count = .error e) ↔
        ∃ cidr, candidate s pfx = some cidr ∧ ¬ Fits cidr pfx count) ∧
    (∀ e, extractSubnet s pfx count = .error e → e = .value) ∧
    (∀ subs s', subs ≠ [] → (extractSubnet s pfx count = .ok (subs, s') ↔
        ∃ cidr, candidate s pfx = some cidr ∧ Fits cidr pfx count ∧
          subs = firstBlocks cidr pfx count ∧ s' = residue s cidr subs)) := by
  obtain ⟨hnone, hsome⟩ := extract_outcome s hs pfx count
  cases hc : candidate s pfx with
  | none =>
    have hr := hnone hc
    have hall := (candidate_none_iff s pfx).1 hc
    refine ⟨⟨fun _ => hall, fun _ => ⟨s, hr⟩⟩, ?_, ?_, ?_, ?_⟩
    · intro s' h; rw [hr] at h; simp only [Except.ok.injEq, Prod.mk.injEq, true_and] at h; exact h.symm
    · constructor
      · rintro ⟨e, he⟩; rw [hr] at he; cases he
      · rintro ⟨cidr, h, _⟩; cases h
    · intro e he; rw [hr] at he; cases he
    · intro subs s' hne
      constructor
      · intro h; rw [hr] at h
        simp only [Except.ok.injEq, Prod.mk.injEq] at h
        exact absurd h.1.symm hne
      · rintro ⟨cidr, h, _⟩; cases h
  | some cidr =>
    obtain ⟨hcs, hp, _, _⟩ := candidate_best_fit s pfx cidr hc
    obtain ⟨hfit, hnofit⟩ := hsome cidr hc (hw cidr hcs)
    have hnotall : ¬ ∀ c ∈ s, pfx < (c.plen : Int) := fun h => by have := h cidr hcs; omega
    by_cases hf : Fits cidr pfx count
    · have hr := hfit hf
      have hne := firstBlocks_ne_nil cidr pfx count hf
      refine ⟨⟨?_, fun h => absurd h hnotall⟩, ?_, ?_, ?_, ?_⟩
      · rintro ⟨s', h⟩; rw [hr] at h
        simp only [Except.ok.injEq, Prod.mk.injEq] at h
        exact absurd h.1 hne
      · intro s' h; rw [hr] at h
        simp only [Except.ok.injEq, Prod.mk.injEq] at h
        exact absurd h.1 hne
      · constructor
        · rintro ⟨e, he⟩; rw [hr] at he; cases he
        · rintro ⟨c', h, hnf⟩
          simp only [Option.some.injEq] at h; subst h; exact absurd hf hnf
      · intro e he; rw [hr] at he; cases he
      · intro subs s' _
        constructor
        · intro h; rw [hr] at h
          simp only [Except.ok.injEq, Prod.mk.injEq] at h
          obtain ⟨h1, h2⟩ := h
          exact ⟨cidr, rfl, hf, h1.symm, by rw [← h2, ← h1]⟩
        · rintro ⟨c', h, _, h1, h2⟩
          simp only [Option.some.injEq] at h; subst h
          rw [hr, h2, h1]
    · have hr := hnofit hf
      refine ⟨⟨?_, fun h => absurd h hnotall⟩, ?_, ?_, ?_, ?_⟩
      · rintro ⟨s', h⟩; rw [hr] at h; cases h
      · intro s' h; rw [hr] at h; cases h
      · exact ⟨fun _ => ⟨cidr, rfl, hf⟩, fun _ => ⟨_, hr⟩⟩
      · intro e he; rw [hr] at he; simp only [Except.error.injEq] at he; exact he.symm
      · intro subs s' _
        constructor
        · intro h; rw [hr] at h; cases h
        · rintro ⟨c', h, hf', _⟩
          simp only [Option.some.injEq] at h; subst h; exact absurd hf' hf

/-- **how many blocks are returned**: a non-empty answer to `extract_subnet(prefix, count=c)` has
    exactly `c` blocks; with `count=None` it has `2^(prefix - p)` blocks, `p` the prefix length of
    the candidate -/
theorem extract_length (s : List Net) (hs : ∀ c ∈ s, c.WF) (pfx : Int) (count : Option Int)
    (hw : ∀ c ∈ s, pfx ≤ (width c.ver : Nat)) (subs s' : List Net) (hne : subs ≠ [])
    (h : extractSubnet s pfx count = .ok (subs, s')) :
    (∀ c, count = some c → (subs.length : Int) = c) ∧
    (count = none → ∃ cidr, candidate s pfx = some cidr ∧ subs.length = 2 ^ (pfx.toNat - cidr.plen)) := by
  obtain ⟨cidr, hc, hf, hsubs, _⟩ := ((extract_outcome_iff s hs pfx count hw).2.2.2.2 subs s' hne).1 h
  have hl := firstBlocks_length cidr pfx count
  rw [← hsubs] at hl
  constructor
  · intro c hcount
    subst hcount
    simp only [Fits, wanted, Option.getD_some] at hf
    simp only [wanted, Option.getD_some] at hl
    omega
  · intro hcount
    subst hcount
    simp only [wanted, Option.getD_none, Int.toNat_natCast] at hl
    exact ⟨cidr, hc, hl⟩

/-! ### along a history -/

/-- the exact outcome of one call on the live object (the `hint` only names the iteration order
    of the Python set, see Model/Splitter.lean `moveToFront`) -/
def StepExact (b : Net) (s : List Net) : Op → Prop
  | .extract pfx count hint =>
    let s0 := reorder s hint
    (candidate s0 pfx = none → step s (.extract pfx count hint) = (s0, .ok [])) ∧
    (∀ cidr, candidate s0 pfx = some cidr →
      (pfx ≤ (width b.ver : Nat) → Fits cidr pfx count →
        step s (.extract pfx count hint) =
          (residue s0 cidr (firstBlocks cidr pfx count), .ok (firstBlocks cidr pfx count))) ∧
      (pfx ≤ (width b.ver : Nat) → ¬ Fits cidr pfx count →
        step s (.extract pfx count hint) = (s0, .error .value)) ∧
      ((width b.ver : Nat) < pfx → ∃ e, step s (.extract pfx count hint) = (s0, .error e)))
  | .remove _ => True

def AllExact (b : Net) : List Net → List Op → Prop
  | _, [] => True
  | s, op :: ops => StepExact b s op ∧ AllExact b (step s op).1 ops

/-- one call, from any state whose free blocks are networks of the base's family -/
theorem step_exact (b : Net) (hb : b.WF) (s : List Net) (hs : ∀ c ∈ s, NOk b.ver c) (op : Op) :
    StepExact b s op := by
  cases op with
  | remove x => trivial
  | extract pfx count hint =>
    have hs0 : ∀ c ∈ reorder s hint, NOk b.ver c :=
      fun c hc => hs c ((reorder_perm s hint).mem_iff.1 hc)
    have hwf : ∀ c ∈ reorder s hint, c.WF := fun c hc => nok_wf hb.1 (hs0 c hc)
    obtain ⟨hnone, hsome⟩ := extract_outcome (reorder s hint) hwf pfx count
    refine ⟨?_, ?_⟩
    · intro hc
      simp only [step, hnone hc]
    · intro cidr hc
      have hcs := (candidate_best_fit _ pfx cidr hc).1
      have hv : cidr.ver = b.ver := (hs0 cidr hcs).1
      refine ⟨?_, ?_, ?_⟩
      · intro hw hf
        simp only [step, (hsome cidr hc (by rw [hv]; exact hw)).1 hf]
      · intro hw hf
        simp only [step, (hsome cidr hc (by rw [hv]; exact hw)).2 hf]
      · intro hw
        obtain ⟨e, he⟩ := extract_beyond_width _ hwf pfx count cidr hc (by rw [hv]; exact hw)
        exact ⟨e, by simp only [step, he]⟩

/-- **C20, exact outcomes along every history**: on a fresh `SubnetSplitter(base)` and along every
    finite sequence of extract_subnet / remove_subnet calls, every extract_subnet call answers
    `[]` exactly when no free block is large enough, returns exactly the first `count` aligned
    blocks of the best-fitting free block when that block has room for them, and raises
    ValueError exactly when it has not. -/
theorem history_outcomes (b : Net) (hb : b.WF) (ops : List Op) :
    ∀ (s g : List Net), Tiling b s g → AllExact b s ops := by
  induction ops with
  | nil => intro _ _ _; trivial
  | cons op ops ih =>
    intro s g ht
    have hs : ∀ c ∈ s, NOk b.ver c := fun c hc => ht.ok c (List.mem_append_left g hc)
    refine ⟨step_exact b hb s hs op, ?_⟩
    cases op with
    | extract pfx count hint =>
      exact ih _ _ (C20.extract_step_partial C20.mergeExact b hb s g ht pfx count hint).1
    | remove x =>
      exact ih _ _ (C20.remove_step b s g ht x).1

/-- the property as stated: a fresh splitter -/
theorem splitter_outcomes (b : Net) (hb : b.WF) (ops : List Op) : AllExact b (init b) ops :=
  history_outcomes b hb ops _ _ (C20.init_tiling b hb)

/-! ### non-vacuity: `SubnetSplitter('10.0.0.0/24')` with one more free /26 -/

example : (⟨4, 0x0A000000, 24⟩ : Net).WF := ⟨Or.inl rfl, by decide, by decide⟩
/-- the best fit is chosen, not the first or the largest block -/
example : candidate [⟨4, 0x0A000000, 24⟩, ⟨4, 0x0B000000, 26⟩, ⟨4, 0x0C000000, 30⟩] 27 =
    some ⟨4, 0x0B000000, 26⟩ := (candidate_iff _ _ _).2 ⟨by decide, by decide, by decide⟩
example : candidate [⟨4, 0x0A000000, 24⟩] 23 = none := (candidate_none_iff _ _).2 (by decide)
example : Fits ⟨4, 0x0A000000, 24⟩ 26 (some 3) := by decide
example : ¬ Fits ⟨4, 0x0A000000, 24⟩ 26 (some 5) := by decide
example : Fits ⟨4, 0x0A000000, 24⟩ 26 none := by decide
example : firstBlocks ⟨4, 0x0A000000, 24⟩ 26 (some 3) =
    [⟨4, 0x0A000000, 26⟩, ⟨4, 0x0A000040, 26⟩, ⟨4, 0x0A000080, 26⟩] := by decide

/-- the three cases of `extract_outcome` on a concrete free set {10.0.0.0/24, 11.0.0.0/26}:
    hypotheses and case conditions are satisfiable, the conclusions are concrete answers -/
theorem demoWF : ∀ c ∈ [(⟨4, 0x0A000000, 24⟩ : Net), ⟨4, 0x0B000000, 26⟩], c.WF := by
  intro c hc
  simp only [List.mem_cons, List.not_mem_nil, or_false] at hc
  rcases hc with rfl | rfl <;> exact ⟨Or.inl rfl, by decide, by decide⟩
example : extractSubnet [⟨4, 0x0A000000, 24⟩, ⟨4, 0x0B000000, 26⟩] 23 none =
    .ok ([], [⟨4, 0x0A000000, 24⟩, ⟨4, 0x0B000000, 26⟩]) :=
  (extract_outcome _ demoWF 23 none).1 ((candidate_none_iff _ _).2 (by decide))
/-- /27 × 2 comes out of the /26 (best fit), not out of the /24 -/
example : ∃ s', extractSubnet [⟨4, 0x0A000000, 24⟩, ⟨4, 0x0B000000, 26⟩] 27 (some 2) =
    .ok ([⟨4, 0x0B000000, 27⟩, ⟨4, 0x0B000020, 27⟩], s') :=
  ⟨_, ((extract_outcome _ demoWF 27 (some 2)).2 ⟨4, 0x0B000000, 26⟩
    ((candidate_iff _ _ _).2 ⟨by decide, by decide, by decide⟩) (by decide)).1 (by decide)⟩
/-- /27 × 3 is refused although the /24 could serve it -/
example : extractSubnet [⟨4, 0x0A000000, 24⟩, ⟨4, 0x0B000000, 26⟩] 27 (some 3) = .error .value :=
  ((extract_outcome _ demoWF 27 (some 3)).2 ⟨4, 0x0B000000, 26⟩
    ((candidate_iff _ _ _).2 ⟨by decide, by decide, by decide⟩) (by decide)).2 (by decide)
example : AllExact ⟨4, 0x0A000000, 24⟩ (init ⟨4, 0x0A000000, 24⟩)
    [.extract 26 (some 1) none, .extract 27 (some 3) none, .remove ⟨4, 0x0A000080, 25⟩] :=
  splitter_outcomes _ ⟨Or.inl rfl, by decide, by decide⟩ _

end NV.C20A2
