/-
Props/C01.lean — C01: address text round-trips; strict parsing equals the standard grammar.
-/
import NetaddrVerif.Model.AddrParse
namespace NV.C01
open NV NV.AddrParse

/-- a string containing '/' is refused with ValueError whatever the (valid) version and flags -/
theorem slash_refused (be : Backend) (s : List Char) (flags : Nat) (h : s.contains '/' = true) :
    ipAddress be s none flags = .error .value ∧ ipAddress be s (some 4) flags = .error .value
      ∧ ipAddress be s (some 6) flags = .error .value := by
  refine ⟨?_, ?_, ?_⟩ <;> simp only [ipAddress, h] <;> simp

end NV.C01
