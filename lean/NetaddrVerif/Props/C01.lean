/-
Props/C01.lean — C01: address text round-trips; strict parsing equals the standard grammar;
all of it unchanged under netaddr's pure-Python fallback.

Property (properties.jsonl): every IPv4/IPv6 value prints (default form and each IPv6 dialect)
to text that parses back - with or without an explicit version, in default or strict mode - to
the same value and version; strict mode accepts exactly the standard strings; a rejected
address string raises AddrFormatError; unchanged when `netaddr.fbsocket` replaces the platform
functions.

The theorems are about `NV.AddrParse.ipAddress` / `intToStr` / `intToStr6` (Model/AddrParse.lean),
i.e. `IPAddress.__init__` for strings and `strategy.ipv4/ipv6.int_to_str`, over the modelled
platform functions (Model/Text4, Text6) and the model of `netaddr/fbsocket.py` (Model/FbSocket).
Helper lemmas live in Lemmas/C01L*.lean.
-/
import NetaddrVerif.Lemmas.C01LText6
import NetaddrVerif.Lemmas.C01LStrict
import NetaddrVerif.Lemmas.C03LInt
namespace NV.C01
open NV NV.Text4 NV.AddrParse NV.C01L

theorem not_mem_of_contains_false {s : List Char} {c : Char} (h : s.contains c = false) : c ∉ s := by
  intro hm
  have := List.contains_iff_mem.mpr hm
  rw [h] at this; cases this

/-- **IPv4 round trip.**  `str(IPAddress(v, 4))` parses back to `(4, v)` with version `None` or
    `4`, under every flag combination of INET_PTON / ZEROFILL, on both back ends. -/
theorem roundtrip4 (be : Backend) (v : Nat) (hv : v < 2 ^ 32) (ver : Option Nat)
    (hver : ver = none ∨ ver = some 4) (fl : Nat) (hfl : fl < 4) :
    ipAddress be (intToStr be 4 v) ver fl = .ok ⟨4, v⟩ := by
  have hs := slash_not_in_ntoa v hv
  have hp := strToInt4_ntoa be v hv fl hfl
  have hs' := not_mem_of_contains_false hs
  rcases hver with h | h <;> subst h <;> simp [ipAddress, intToStr, hs', hp, strToInt]

example : ipAddress .fallback (intToStr .fallback 4 0xC0000201) none ZEROFILL = .ok ⟨4, 0xC0000201⟩ :=
  roundtrip4 _ _ (by decide) _ (Or.inl rfl) _ (by decide)

/-- **IPv6 round trip.**  `IPAddress(v, 6).format(dialect)` for each of the three dialects parses
    back to `(6, v)` with version `None` or `6`, under every flags value, on both back ends. -/
theorem roundtrip6 (be : Backend) (d : Dialect) (v : Nat) (hv : v < 2 ^ 128) (ver : Option Nat)
    (hver : ver = none ∨ ver = some 6) (fl : Nat) :
    ipAddress be (intToStr6 be d v) ver fl = .ok ⟨6, v⟩ := by
  have hs := text6_noslash be d v hv
  have hp := text6_parse be d v hv
  obtain ⟨pre, r, he, hpre⟩ := text6_shape be d v hv
  have h4 := strToInt4_colon be pre r hpre fl
  rw [← he] at h4
  have hs' := not_mem_of_contains_false hs
  rcases hver with h | h <;> subst h <;> simp [ipAddress, hs', hp, h4, strToInt, strToInt6]

example : ipAddress .platform (intToStr6 .platform .compact 0xffff01020304) none 0 = .ok ⟨6, 0xffff01020304⟩ :=
  roundtrip6 _ _ _ (by decide) _ (Or.inl rfl) _

theorem pton6_no_colon (s : List Char) (h : ':' ∉ s) : Text6.pton6 s = none := by
  have e : s.splitOn ':' = [s] := by
    have := List.splitOn_intercalate (ls := [s]) ':' (by intro l hl; simp at hl; subst hl; exact h) (by simp)
    simpa [List.intercalate] using this
  unfold Text6.pton6
  simp [e]

/-- **No cross-family reading.**  A printed IPv4 text is never read as IPv6 and a printed IPv6
    text (any dialect) is never read as IPv4: with an explicit wrong version the constructor
    raises AddrFormatError, and (by `roundtrip4` / `roundtrip6`) without a version the printed
    family is the detected one. -/
theorem no_cross_family (be : Backend) (fl : Nat) :
    (∀ v, v < 2 ^ 32 → ipAddress be (intToStr be 4 v) (some 6) fl = .error .addrFormat) ∧
    (∀ d v, v < 2 ^ 128 → ipAddress be (intToStr6 be d v) (some 4) fl = .error .addrFormat) := by
  constructor
  · intro v hv
    have hs := slash_not_in_ntoa v hv
    have h6 : inetPton6 be (ntoa v) = none := by
      rw [inetPton6_eq]; exact pton6_no_colon _ (colon_not_in_ntoa v hv)
    have hs' := not_mem_of_contains_false hs
    simp [ipAddress, intToStr, hs', strToInt, strToInt6, h6]
  · intro d v hv
    have hs := text6_noslash be d v hv
    obtain ⟨pre, r, he, hpre⟩ := text6_shape be d v hv
    have h4 := strToInt4_colon be pre r hpre fl
    rw [← he] at h4
    have hs' := not_mem_of_contains_false hs
    simp [ipAddress, hs', strToInt, h4]

/-- **Fallback = platform, parsing (IPv6).**  The model of `fbsocket.inet_pton(AF_INET6, ·)`
    (written line by line from fbsocket.py: head/tail blank handling with indices, `count`,
    the indexed token loop) and the platform model accept the same strings with the same values. -/
theorem fallback_eq_platform_parse (s : List Char) : FbSocket.pton6 s = Text6.pton6 s := fb_pton6_eq s

/-- **Fallback = platform, parsing (IPv4 strict).** -/
theorem fallback_eq_platform_parse4 (s : List Char) : FbSocket.pton4 s = Text4.pton4 s := fb_pton4_eq s

/-- **Fallback = platform, printing.**  `fbsocket.inet_ntop` (`_compact_ipv6_tokens` with its
    positions list, sort and scan; integer test for the dotted-quad tail) prints exactly the
    platform model's text for every 128-bit value; `inet_ntoa` likewise for 32-bit values. -/
theorem fallback_eq_platform_print (v : Nat) (hv : v < 2 ^ 128) : FbSocket.ntop6 v = Text6.ntop6 v :=
  fb_ntop6_eq v hv

theorem fallback_eq_platform_print4 (v : Nat) (hv : v < 2 ^ 32) : FbSocket.ntoa v = Text4.ntoa v := fb_ntoa_eq v hv

example : FbSocket.ntop6 0xffff01020304 = "::ffff:1.2.3.4".toList := by decide

/-- **The back end is unobservable**: for every string, version and flags `IPAddress(...)`
    gives the same result (value or error class) under both back ends, and every value prints
    the same in every dialect. -/
theorem backend_irrelevant :
    (∀ s ver fl, ipAddress .fallback s ver fl = ipAddress .platform s ver fl) ∧
    (∀ d v, v < 2 ^ 128 → intToStr6 .fallback d v = intToStr6 .platform d v) ∧
    (∀ s fl, validStr4 .fallback s fl = validStr4 .platform s fl) ∧
    (∀ s, validStr6 .fallback s = validStr6 .platform s) := by
  have e4 : ∀ s fl, strToInt4 .fallback s fl = strToInt4 .platform s fl := by
    intro s fl; simp [strToInt4, inetPton4, fb_pton4_eq]
  have e6 : ∀ s fl, strToInt6 .fallback s fl = strToInt6 .platform s fl := by
    intro s fl; simp [strToInt6, inetPton6, fb_pton6_eq]
  refine ⟨?_, ?_, ?_, ?_⟩
  · intro s ver fl
    simp [ipAddress, strToInt, e4, e6]
  · intro d v hv
    cases d with
    | compact => exact fb_ntop6_eq v hv
    | full => rfl
    | verbose => rfl
  · intro s fl; simp [validStr4, e4]
  · intro s; simp [validStr6, inetPton6, fb_pton6_eq]

/-- a string containing '/' is refused with ValueError whatever the (valid) version and flags -/
theorem slash_refused (be : Backend) (s : List Char) (flags : Nat) (h : s.contains '/' = true) :
    ipAddress be s none flags = .error .value ∧ ipAddress be s (some 4) flags = .error .value
      ∧ ipAddress be s (some 6) flags = .error .value := by
  refine ⟨?_, ?_, ?_⟩ <;> simp only [ipAddress, h] <;> simp

/-- **Rejected ⇒ AddrFormatError.**  With a valid version argument, a string without '/' that
    does not yield an address raises AddrFormatError (never another class, never an address of
    the other kind); ValueError is raised exactly for '/' or an invalid version. -/
theorem reject_is_addrformat (be : Backend) (s : List Char) (ver : Option Nat) (fl : Nat) (e : Err)
    (hver : ver = none ∨ ver = some 4 ∨ ver = some 6) (hs : s.contains '/' = false)
    (h : ipAddress be s ver fl = .error e) : e = .addrFormat := by
  rcases hver with hv | hv | hv <;> subst hv <;> unfold ipAddress at h <;>
    simp only [hs, Bool.false_eq_true, if_false] at h
  · cases h4 : strToInt4 be s fl with
    | ok v => rw [h4] at h; cases h
    | error e4 =>
      rw [h4] at h
      cases h6 : strToInt6 be s fl with
      | ok v => rw [h6] at h; cases h
      | error e6 => rw [h6] at h; cases h; rfl
  · have hv4 : ¬ ((4 : Nat) ≠ 4 ∧ (4 : Nat) ≠ 6) := by decide
    simp only [hv4, if_false] at h
    cases h4 : strToInt be 4 s fl with
    | ok v => rw [h4] at h; cases h
    | error e4 => rw [h4] at h; cases h; rfl
  · have hv6 : ¬ ((6 : Nat) ≠ 4 ∧ (6 : Nat) ≠ 6) := by decide
    simp only [hv6, if_false] at h
    cases h6 : strToInt be 6 s fl with
    | ok v => rw [h6] at h; cases h
    | error e6 => rw [h6] at h; cases h; rfl

example : (match ipAddress .platform "1.2.3.4.5".toList none 0 with | .error .addrFormat => true | _ => false) = true := by
  decide

theorem invalid_version_refused (be : Backend) (s : List Char) (ver fl : Nat) (h : ver ≠ 4 ∧ ver ≠ 6) :
    ipAddress be s (some ver) fl = .error .value := by
  simp [ipAddress, h]

/-- **Strict IPv4 = the standard grammar.**  In INET_PTON mode (either back end) the accepted
    strings are exactly the canonical dotted quads — four decimal octets 0..255 without leading
    zeros, i.e. exactly the strings `int_to_str` prints — each with its standard value. -/
theorem strict4_iff (be : Backend) (s : List Char) (v : Nat) :
    inetPton4 be s = some v ↔ v < 2 ^ 32 ∧ s = ntoa v := by
  cases be
  · exact pton4_iff s v
  · show FbSocket.pton4 s = some v ↔ _
    rw [fb_pton4_eq]; exact pton4_iff s v

example : inetPton4 .fallback "192.0.2.01".toList = none := by decide

/-- a non-empty string of ASCII decimal digits -/
def IsDigits (t : List Char) : Prop := t ≠ [] ∧ ∀ c ∈ t, isDec c = true

theorem decCh_of_isDec (c : Char) (h : isDec c = true) : C03L.DecCh c := by
  obtain ⟨d, hd, rfl⟩ := isDec_digitChar c h
  exact C03L.decCh_digitChar d hd

/-- **ZEROFILL.**  Four dot-separated strings of decimal digits (any zero padding) whose values
    `n0..n3` are at most 255 are read, with the ZEROFILL flag (alone or with INET_PTON), as the
    address with those octets — version `None` or `4`, both back ends. -/
theorem zerofill (be : Backend) (t0 t1 t2 t3 : List Char) (n0 n1 n2 n3 : Nat)
    (h0 : IsDigits t0) (h1 : IsDigits t1) (h2 : IsDigits t2) (h3 : IsDigits t3)
    (e0 : Nat.ofDigitChars 10 t0 0 = n0) (e1 : Nat.ofDigitChars 10 t1 0 = n1)
    (e2 : Nat.ofDigitChars 10 t2 0 = n2) (e3 : Nat.ofDigitChars 10 t3 0 = n3)
    (b0 : n0 ≤ 255) (b1 : n1 ≤ 255) (b2 : n2 ≤ 255) (b3 : n3 ≤ 255)
    (ver : Option Nat) (hver : ver = none ∨ ver = some 4) (fl : Nat) (hfl : fl = 2 ∨ fl = 3) :
    ipAddress be (t0 ++ '.' :: (t1 ++ '.' :: (t2 ++ '.' :: t3))) ver fl =
      .ok ⟨4, n0 * 16777216 + n1 * 65536 + n2 * 256 + n3⟩ := by
  have dc : ∀ t, IsDigits t → ∀ c ∈ t, C03L.DecCh c := fun t ht c hc => decCh_of_isDec c (ht.2 c hc)
  have nodot : ∀ t, IsDigits t → '.' ∉ t := fun t ht h => (dc t ht _ h).2.2.2.2.2.2.2.1 rfl
  have noslash : ∀ t, IsDigits t → '/' ∉ t := fun t ht h => (dc t ht _ h).2.2.2.2.2.2.1 rfl
  have hv : n0 * 16777216 + n1 * 65536 + n2 * 256 + n3 < 2 ^ 32 := by omega
  generalize hvdef : n0 * 16777216 + n1 * 65536 + n2 * 256 + n3 = v at hv ⊢
  have hjoin : t0 ++ '.' :: (t1 ++ '.' :: (t2 ++ '.' :: t3)) = ['.'].intercalate [t0, t1, t2, t3] := by
    simp [List.intercalate]
  have hsplit : (t0 ++ '.' :: (t1 ++ '.' :: (t2 ++ '.' :: t3))).splitOn '.' = [t0, t1, t2, t3] := by
    rw [hjoin]
    apply List.splitOn_intercalate
    · intro l hl
      simp only [List.mem_cons, List.not_mem_nil, or_false] at hl
      rcases hl with e | e | e | e <;> subst e
      · exact nodot _ h0
      · exact nodot _ h1
      · exact nodot _ h2
      · exact nodot _ h3
    · simp
  have hnt : ntoa v = ['.'].intercalate [dec n0, dec n1, dec n2, dec n3] := by
    rw [ntoa_eq, ← hvdef]
    have q0 : (n0 * 16777216 + n1 * 65536 + n2 * 256 + n3) / 16777216 = n0 := by omega
    have q1 : (n0 * 16777216 + n1 * 65536 + n2 * 256 + n3) / 65536 % 256 = n1 := by omega
    have q2 : (n0 * 16777216 + n1 * 65536 + n2 * 256 + n3) / 256 % 256 = n2 := by omega
    have q3 : (n0 * 16777216 + n1 * 65536 + n2 * 256 + n3) % 256 = n3 := by omega
    rw [q0, q1, q2, q3]
  have hz : AddrParse.zerofill (t0 ++ '.' :: (t1 ++ '.' :: (t2 ++ '.' :: t3))) = some (ntoa v) := by
    unfold AddrParse.zerofill
    rw [hsplit, hnt]
    simp only [List.mapM_cons, List.mapM_nil, C03L.pyInt_digits _ (dc _ h0) h0.1, C03L.pyInt_digits _ (dc _ h1) h1.1,
      C03L.pyInt_digits _ (dc _ h2) h2.1, C03L.pyInt_digits _ (dc _ h3) h3.1, e0, e1, e2, e3,
      Option.map_some, showInt_nat, Option.bind_eq_bind, Option.bind_some, Option.pure_def]
  have hs4 : strToInt4 be (t0 ++ '.' :: (t1 ++ '.' :: (t2 ++ '.' :: t3))) fl = .ok v := by
    have hzf : hasFlag fl ZEROFILL = true := by rcases hfl with e | e <;> subst e <;> decide
    have hr : (if hasFlag fl INET_PTON = true then inetPton4 be (ntoa v) else aton (ntoa v)) = some v := by
      split
      · exact inetPton4_ntoa be _ hv
      · exact aton_ntoa _ hv
    unfold strToInt4
    simp only [hzf, if_true, hz, hr]
  have hns : '/' ∉ t0 ++ '.' :: (t1 ++ '.' :: (t2 ++ '.' :: t3)) := by
    simp only [List.mem_append, List.mem_cons, not_or]
    exact ⟨noslash _ h0, by decide, noslash _ h1, by decide, noslash _ h2, by decide, noslash _ h3⟩
  rcases hver with h | h <;> subst h <;> simp [ipAddress, hns, hs4, strToInt]

example : IsDigits "010".toList ∧ Nat.ofDigitChars 10 "010".toList 0 = 10 := ⟨⟨by decide, by decide⟩, by decide⟩

/-- PARTIAL.  Full statement aimed at (DESIGN.md C01, `strict6_iff`):
    `inetPton6 be s = some v ↔ Rfc4291 s v`, where `Rfc4291` is an independent decidable grammar
    predicate (1-4 hex digits per group, at most one "::" standing for ≥ 1 group, optional strict
    dotted quad in the last 32 bits, eight groups' worth).
    Proved here: (a) soundness direction on everything the printers emit — each of the three
    dialect texts of every 128-bit value is accepted with that value by both back ends;
    (b) the fallback reader equals the platform model on ALL strings (`fallback_eq_platform_parse`).
    Missing: the independent grammar predicate and the equivalence of the split-style model with
    it (the split-style model is itself close to a grammar; the harness oracle compares both the
    real code and the platform with an independently written RFC 4291 recogniser on every run). -/
theorem strict6_iff_partial (be : Backend) (d : Dialect) (v : Nat) (hv : v < 2 ^ 128) :
    inetPton6 be (intToStr6 be d v) = some v ∧ inetPton6 .fallback (intToStr6 be d v) = inetPton6 .platform (intToStr6 be d v) :=
  ⟨text6_parse be d v hv, fb_pton6_eq _⟩

/-- PARTIAL.  Full statement aimed at (DESIGN.md C01, `aton_shorthand`): for every BSD
    shorthand — 1 to 4 parts, each a C literal in decimal / octal (leading 0) / hex (0x), non-last
    parts ≤ 255, the last part filling the remaining bytes — `aton s = some (combine parts)`, and
    range rejection (`1.2.3.256`, `1.2.65536`, `4294967296`).
    Proved here: the four-part decimal case on every canonical dotted quad (what `int_to_str`
    prints), and that no string containing ':' after hex digits is accepted (`C01L.aton_colon`).
    Missing: the 1-3 part, octal and hex cases as theorems; they are tied to glibc by the
    platform op `aton` (≈ 1.4 k structured strings per quick run, 0 mismatches) and the oracle's
    independent `ref_aton`. -/
theorem aton_shorthand_partial (v : Nat) (hv : v < 2 ^ 32) : Text4.aton (ntoa v) = some v := aton_ntoa v hv

example : Text4.aton "0x7f.1".toList = some 0x7f000001 := by decide

end NV.C01
