/-
Props/C01.lean — C01: address text round-trips; strict parsing equals the standard grammar;
all of it unchanged under netaddr's pure-Python fallback.

Property (properties.jsonl): every IPv4/IPv6 value prints (default form and each IPv6 dialect)
to text that parses back - with or without an explicit version, in default or strict mode - to
the same value and version; strict mode accepts exactly the standard strings; a rejected
address string raises AddrFormatError; unchanged when `netaddr.fbsocket` replaces the platform
functions.

The theorems are about `NV.AddrParse.ipAddress` / `intToStr` / `intToStr6` (Model/AddrParse.lean),
i.e. `IPAddress.__init__` for strings and `strategy.ipv4/ipv6.int_to_str`, over the modelled
platform functions (Model/Text4, Text6) and the model of `netaddr/fbsocket.py` (Model/FbSocket).
Helper lemmas live in Lemmas/C01L*.lean.

Strict IPv6 = RFC 4291 is proved in full (`strict6_iff`, `strict6_api`): the independent grammar
predicate `C01G.Rfc4291` is in Lemmas/C01LGrammar.lean, the equivalence with the split-style
platform model in Lemmas/C01LGrammar2.lean / C01LGrammar3.lean (`pton6_iff_rfc4291`), and the
fallback reader equals the platform model on all strings (`fallback_eq_platform_parse`).
No `_partial` theorem is left in this file.

Props/C01b.lean continues this file with the constructor-level characterisations for all strings:
default mode = the BSD shorthand grammar (`default4_api`, `default_none_api`, `shorthand_api`),
strict IPv4 (`strict4_api`), the exact ZEROFILL rewrite relation (`zerofill_rewrite`,
`zerofill_shorthand`, `zerofill_negative`), `valid_ipv4`/`valid_ipv6` on strings with '/'
(`valid_iff_all`) and `repr` (`repr_roundtrip`).
-/
import NetaddrVerif.Lemmas.C01LText6
import NetaddrVerif.Lemmas.C01LStrict
import NetaddrVerif.Lemmas.C01LAton
import NetaddrVerif.Lemmas.C01LStrict6
import NetaddrVerif.Lemmas.C01LGrammar3
import NetaddrVerif.Lemmas.C03LInt
namespace NV.C01
open NV NV.Text4 NV.AddrParse NV.C01L

theorem not_mem_of_contains_false {s : List Char} {c : Char} (h : s.contains c = false) : c ∉ s := by
  intro hm
  have := List.contains_iff_mem.mpr hm
  rw [h] at this; cases this

/-- **IPv4 round trip.**  `str(IPAddress(v, 4))` parses back to `(4, v)` with version `None` or
    `4`, under every flag combination of INET_PTON / ZEROFILL, on both back ends. -/
theorem roundtrip4 (be : Backend) (v : Nat) (hv : v < 2 ^ 32) (ver : Option Nat)
    (hver : ver = none ∨ ver = some 4) (fl : Nat) (hfl : fl < 4) :
    ipAddress be (intToStr be 4 v) ver fl = .ok ⟨4, v⟩ := by
  have hs := slash_not_in_ntoa v hv
  have hp := strToInt4_ntoa be v hv fl hfl
  have hs' := not_mem_of_contains_false hs
  rcases hver with h | h <;> subst h <;> simp [ipAddress, intToStr, hs', hp, strToInt]

example : ipAddress .fallback (intToStr .fallback 4 0xC0000201) none ZEROFILL = .ok ⟨4, 0xC0000201⟩ :=
  roundtrip4 _ _ (by decide) _ (Or.inl rfl) _ (by decide)

/-- **IPv6 round trip.**  `IPAddress(v, 6).format(dialect)` for each of the three dialects parses
    back to `(6, v)` with version `None` or `6`, under every flags value, on both back ends. -/
theorem roundtrip6 (be : Backend) (d : Dialect) (v : Nat) (hv : v < 2 ^ 128) (ver : Option Nat)
    (hver : ver = none ∨ ver = some 6) (fl : Nat) :
    ipAddress be (intToStr6 be d v) ver fl = .ok ⟨6, v⟩ := by
  have hs := text6_noslash be d v hv
  have hp := text6_parse be d v hv
  obtain ⟨pre, r, he, hpre⟩ := text6_shape be d v hv
  have h4 := strToInt4_colon be pre r hpre fl
  rw [← he] at h4
  have hs' := not_mem_of_contains_false hs
  rcases hver with h | h <;> subst h <;> simp [ipAddress, hs', hp, h4, strToInt, strToInt6]

example : ipAddress .platform (intToStr6 .platform .compact 0xffff01020304) none 0 = .ok ⟨6, 0xffff01020304⟩ :=
  roundtrip6 _ _ _ (by decide) _ (Or.inl rfl) _

theorem pton6_no_colon (s : List Char) (h : ':' ∉ s) : Text6.pton6 s = none := by
  have e : s.splitOn ':' = [s] := by
    have := List.splitOn_intercalate (ls := [s]) ':' (by intro l hl; simp at hl; subst hl; exact h) (by simp)
    simpa [List.intercalate] using this
  unfold Text6.pton6
  simp [e]

/-- **No cross-family reading.**  A printed IPv4 text is never read as IPv6 and a printed IPv6
    text (any dialect) is never read as IPv4: with an explicit wrong version the constructor
    raises AddrFormatError, and (by `roundtrip4` / `roundtrip6`) without a version the printed
    family is the detected one. -/
theorem no_cross_family (be : Backend) (fl : Nat) :
    (∀ v, v < 2 ^ 32 → ipAddress be (intToStr be 4 v) (some 6) fl = .error .addrFormat) ∧
    (∀ d v, v < 2 ^ 128 → ipAddress be (intToStr6 be d v) (some 4) fl = .error .addrFormat) := by
  constructor
  · intro v hv
    have hs := slash_not_in_ntoa v hv
    have h6 : inetPton6 be (ntoa v) = none := by
      rw [inetPton6_eq]; exact pton6_no_colon _ (colon_not_in_ntoa v hv)
    have hs' := not_mem_of_contains_false hs
    simp [ipAddress, intToStr, hs', strToInt, strToInt6, h6]
  · intro d v hv
    have hs := text6_noslash be d v hv
    obtain ⟨pre, r, he, hpre⟩ := text6_shape be d v hv
    have h4 := strToInt4_colon be pre r hpre fl
    rw [← he] at h4
    have hs' := not_mem_of_contains_false hs
    simp [ipAddress, hs', strToInt, h4]

/-- **Fallback = platform, parsing (IPv6).**  The model of `fbsocket.inet_pton(AF_INET6, ·)`
    (written line by line from fbsocket.py: head/tail blank handling with indices, `count`,
    the indexed token loop) and the platform model accept the same strings with the same values. -/
theorem fallback_eq_platform_parse (s : List Char) : FbSocket.pton6 s = Text6.pton6 s := fb_pton6_eq s

/-- **Fallback = platform, parsing (IPv4 strict).** -/
theorem fallback_eq_platform_parse4 (s : List Char) : FbSocket.pton4 s = Text4.pton4 s := fb_pton4_eq s

/-- **Fallback = platform, printing.**  `fbsocket.inet_ntop` (`_compact_ipv6_tokens` with its
    positions list, sort and scan; integer test for the dotted-quad tail) prints exactly the
    platform model's text for every 128-bit value; `inet_ntoa` likewise for 32-bit values. -/
theorem fallback_eq_platform_print (v : Nat) (hv : v < 2 ^ 128) : FbSocket.ntop6 v = Text6.ntop6 v :=
  fb_ntop6_eq v hv

theorem fallback_eq_platform_print4 (v : Nat) (hv : v < 2 ^ 32) : FbSocket.ntoa v = Text4.ntoa v := fb_ntoa_eq v hv

example : FbSocket.ntop6 0xffff01020304 = "::ffff:1.2.3.4".toList := by decide

/-- **The back end is unobservable**: for every string, version and flags `IPAddress(...)`
    gives the same result (value or error class) under both back ends, and every value prints
    the same in every dialect. -/
theorem backend_irrelevant :
    (∀ s ver fl, ipAddress .fallback s ver fl = ipAddress .platform s ver fl) ∧
    (∀ d v, v < 2 ^ 128 → intToStr6 .fallback d v = intToStr6 .platform d v) ∧
    (∀ s fl, validStr4 .fallback s fl = validStr4 .platform s fl) ∧
    (∀ s, validStr6 .fallback s = validStr6 .platform s) := by
  have e4 : ∀ s fl, strToInt4 .fallback s fl = strToInt4 .platform s fl := by
    intro s fl; simp [strToInt4, inetPton4, fb_pton4_eq]
  have e6 : ∀ s fl, strToInt6 .fallback s fl = strToInt6 .platform s fl := by
    intro s fl; simp [strToInt6, inetPton6, fb_pton6_eq]
  refine ⟨?_, ?_, ?_, ?_⟩
  · intro s ver fl
    simp [ipAddress, strToInt, e4, e6]
  · intro d v hv
    cases d with
    | compact => exact fb_ntop6_eq v hv
    | full => rfl
    | verbose => rfl
  · intro s fl; simp [validStr4, e4]
  · intro s; simp [validStr6, inetPton6, fb_pton6_eq]

/-- a string containing '/' is refused with ValueError whatever the (valid) version and flags -/
theorem slash_refused (be : Backend) (s : List Char) (flags : Nat) (h : s.contains '/' = true) :
    ipAddress be s none flags = .error .value ∧ ipAddress be s (some 4) flags = .error .value
      ∧ ipAddress be s (some 6) flags = .error .value := by
  refine ⟨?_, ?_, ?_⟩ <;> simp only [ipAddress, h] <;> simp

/-- **Rejected ⇒ AddrFormatError.**  With a valid version argument, a string without '/' that
    does not yield an address raises AddrFormatError (never another class, never an address of
    the other kind); ValueError is raised exactly for '/' or an invalid version. -/
theorem reject_is_addrformat (be : Backend) (s : List Char) (ver : Option Nat) (fl : Nat) (e : Err)
    (hver : ver = none ∨ ver = some 4 ∨ ver = some 6) (hs : s.contains '/' = false)
    (h : ipAddress be s ver fl = .error e) : e = .addrFormat := by
  rcases hver with hv | hv | hv <;> subst hv <;> unfold ipAddress at h <;>
    simp only [hs, Bool.false_eq_true, if_false] at h
  · cases h4 : strToInt4 be s fl with
    | ok v => rw [h4] at h; cases h
    | error e4 =>
      rw [h4] at h
      cases h6 : strToInt6 be s fl with
      | ok v => rw [h6] at h; cases h
      | error e6 => rw [h6] at h; cases h; rfl
  · have hv4 : ¬ ((4 : Nat) ≠ 4 ∧ (4 : Nat) ≠ 6) := by decide
    simp only [hv4, if_false] at h
    cases h4 : strToInt be 4 s fl with
    | ok v => rw [h4] at h; cases h
    | error e4 => rw [h4] at h; cases h; rfl
  · have hv6 : ¬ ((6 : Nat) ≠ 4 ∧ (6 : Nat) ≠ 6) := by decide
    simp only [hv6, if_false] at h
    cases h6 : strToInt be 6 s fl with
    | ok v => rw [h6] at h; cases h
    | error e6 => rw [h6] at h; cases h; rfl

example : (match ipAddress .platform "1.2.3.4.5".toList none 0 with | .error .addrFormat => true | _ => false) = true := by
  decide

theorem invalid_version_refused (be : Backend) (s : List Char) (ver fl : Nat) (h : ver ≠ 4 ∧ ver ≠ 6) :
    ipAddress be s (some ver) fl = .error .value := by
  simp [ipAddress, h]

/-- **Strict IPv4 = the standard grammar.**  In INET_PTON mode (either back end) the accepted
    strings are exactly the canonical dotted quads — four decimal octets 0..255 without leading
    zeros, i.e. exactly the strings `int_to_str` prints — each with its standard value. -/
theorem strict4_iff (be : Backend) (s : List Char) (v : Nat) :
    inetPton4 be s = some v ↔ v < 2 ^ 32 ∧ s = ntoa v := by
  cases be
  · exact pton4_iff s v
  · show FbSocket.pton4 s = some v ↔ _
    rw [fb_pton4_eq]; exact pton4_iff s v

example : inetPton4 .fallback "192.0.2.01".toList = none := by decide

/-- a non-empty string of ASCII decimal digits -/
def IsDigits (t : List Char) : Prop := t ≠ [] ∧ ∀ c ∈ t, isDec c = true

theorem decCh_of_isDec (c : Char) (h : isDec c = true) : C03L.DecCh c := by
  obtain ⟨d, hd, rfl⟩ := isDec_digitChar c h
  exact C03L.decCh_digitChar d hd

/-- **ZEROFILL.**  Four dot-separated strings of decimal digits (any zero padding) whose values
    `n0..n3` are at most 255 are read, with the ZEROFILL flag (alone or with INET_PTON), as the
    address with those octets — version `None` or `4`, both back ends. -/
theorem zerofill (be : Backend) (t0 t1 t2 t3 : List Char) (n0 n1 n2 n3 : Nat)
    (h0 : IsDigits t0) (h1 : IsDigits t1) (h2 : IsDigits t2) (h3 : IsDigits t3)
    (e0 : Nat.ofDigitChars 10 t0 0 = n0) (e1 : Nat.ofDigitChars 10 t1 0 = n1)
    (e2 : Nat.ofDigitChars 10 t2 0 = n2) (e3 : Nat.ofDigitChars 10 t3 0 = n3)
    (b0 : n0 ≤ 255) (b1 : n1 ≤ 255) (b2 : n2 ≤ 255) (b3 : n3 ≤ 255)
    (ver : Option Nat) (hver : ver = none ∨ ver = some 4) (fl : Nat) (hfl : fl = 2 ∨ fl = 3) :
    ipAddress be (t0 ++ '.' :: (t1 ++ '.' :: (t2 ++ '.' :: t3))) ver fl =
      .ok ⟨4, n0 * 16777216 + n1 * 65536 + n2 * 256 + n3⟩ := by
  have dc : ∀ t, IsDigits t → ∀ c ∈ t, C03L.DecCh c := fun t ht c hc => decCh_of_isDec c (ht.2 c hc)
  have nodot : ∀ t, IsDigits t → '.' ∉ t := fun t ht h => (dc t ht _ h).2.2.2.2.2.2.2.1 rfl
  have noslash : ∀ t, IsDigits t → '/' ∉ t := fun t ht h => (dc t ht _ h).2.2.2.2.2.2.1 rfl
  have hv : n0 * 16777216 + n1 * 65536 + n2 * 256 + n3 < 2 ^ 32 := by omega
  generalize hvdef : n0 * 16777216 + n1 * 65536 + n2 * 256 + n3 = v at hv ⊢
  have hjoin : t0 ++ '.' :: (t1 ++ '.' :: (t2 ++ '.' :: t3)) = ['.'].intercalate [t0, t1, t2, t3] := by
    simp [List.intercalate]
  have hsplit : (t0 ++ '.' :: (t1 ++ '.' :: (t2 ++ '.' :: t3))).splitOn '.' = [t0, t1, t2, t3] := by
    rw [hjoin]
    apply List.splitOn_intercalate
    · intro l hl
      simp only [List.mem_cons, List.not_mem_nil, or_false] at hl
      rcases hl with e | e | e | e <;> subst e
      · exact nodot _ h0
      · exact nodot _ h1
      · exact nodot _ h2
      · exact nodot _ h3
    · simp
  have hnt : ntoa v = ['.'].intercalate [dec n0, dec n1, dec n2, dec n3] := by
    rw [ntoa_eq, ← hvdef]
    have q0 : (n0 * 16777216 + n1 * 65536 + n2 * 256 + n3) / 16777216 = n0 := by omega
    have q1 : (n0 * 16777216 + n1 * 65536 + n2 * 256 + n3) / 65536 % 256 = n1 := by omega
    have q2 : (n0 * 16777216 + n1 * 65536 + n2 * 256 + n3) / 256 % 256 = n2 := by omega
    have q3 : (n0 * 16777216 + n1 * 65536 + n2 * 256 + n3) % 256 = n3 := by omega
    rw [q0, q1, q2, q3]
  have hz : AddrParse.zerofill (t0 ++ '.' :: (t1 ++ '.' :: (t2 ++ '.' :: t3))) = some (ntoa v) := by
    unfold AddrParse.zerofill
    rw [hsplit, hnt]
    simp only [List.mapM_cons, List.mapM_nil, C03L.pyInt_digits _ (dc _ h0) h0.1, C03L.pyInt_digits _ (dc _ h1) h1.1,
      C03L.pyInt_digits _ (dc _ h2) h2.1, C03L.pyInt_digits _ (dc _ h3) h3.1, e0, e1, e2, e3,
      Option.map_some, showInt_nat, Option.bind_eq_bind, Option.bind_some, Option.pure_def]
  have hs4 : strToInt4 be (t0 ++ '.' :: (t1 ++ '.' :: (t2 ++ '.' :: t3))) fl = .ok v := by
    have hzf : hasFlag fl ZEROFILL = true := by rcases hfl with e | e <;> subst e <;> decide
    have hr : (if hasFlag fl INET_PTON = true then inetPton4 be (ntoa v) else aton (ntoa v)) = some v := by
      split
      · exact inetPton4_ntoa be _ hv
      · exact aton_ntoa _ hv
    unfold strToInt4
    simp only [hzf, if_true, hz, hr]
  have hns : '/' ∉ t0 ++ '.' :: (t1 ++ '.' :: (t2 ++ '.' :: t3)) := by
    simp only [List.mem_append, List.mem_cons, not_or]
    exact ⟨noslash _ h0, by decide, noslash _ h1, by decide, noslash _ h2, by decide, noslash _ h3⟩
  rcases hver with h | h <;> subst h <;> simp [ipAddress, hns, hs4, strToInt]

example : IsDigits "010".toList ∧ Nat.ofDigitChars 10 "010".toList 0 = 10 := ⟨⟨by decide, by decide⟩, by decide⟩

/-- `valid_ipv4` / `valid_ipv6` say exactly whether the constructor with that explicit version
    accepts the string (and raise AddrFormatError on the empty string, as documented) -/
theorem valid_iff (be : Backend) (s : List Char) (fl : Nat) (hs : s ≠ []) (hns : s.contains '/' = false) :
    (validStr4 be s fl = .ok true ↔ ∃ v, ipAddress be s (some 4) fl = .ok ⟨4, v⟩) ∧
    (validStr6 be s = .ok true ↔ ∃ v, ipAddress be s (some 6) fl = .ok ⟨6, v⟩) ∧
    validStr4 be [] fl = .error .addrFormat ∧ validStr6 be [] = .error .addrFormat := by
  have hne : (s == []) = false := beq_eq_false_iff_ne.mpr hs
  have hv4 : ¬ ((4 : Nat) ≠ 4 ∧ (4 : Nat) ≠ 6) := by decide
  have hv6 : ¬ ((6 : Nat) ≠ 4 ∧ (6 : Nat) ≠ 6) := by decide
  have h64 : ¬ ((6 : Nat) = 4) := by decide
  refine ⟨?_, ?_, rfl, rfl⟩
  · unfold validStr4 ipAddress
    simp only [hne, Bool.false_eq_true, if_false, hv4, hns, strToInt, if_true]
    cases strToInt4 be s fl with
    | ok v => simp
    | error e => simp
  · unfold validStr6 ipAddress
    simp only [hne, Bool.false_eq_true, if_false, hv6, hns, strToInt, h64, strToInt6]
    cases inetPton6 be s with
    | some v => simp
    | none => simp

/-- **Strict IPv6 = RFC 4291.**  `inet_pton(AF_INET6, ·)` of either back end (the platform model
    and the model of `netaddr/fbsocket.py`) accepts exactly the strings of the independent
    declarative grammar `C01G.Rfc4291` (Lemmas/C01LGrammar.lean: groups of 1-4 hex digits joined
    by ':', at most one "::" standing for one or more zero groups, optional strict dotted quad
    as the last 32 bits, eight groups' worth), each with the value the grammar gives it. -/
theorem strict6_iff (be : Backend) (s : List Char) (v : Nat) : inetPton6 be s = some v ↔ C01G.Rfc4291 s v := by
  rw [inetPton6_eq]; exact C01G.pton6_iff_rfc4291 s v

example : inetPton6 .fallback "2001:db8::8:800:200C:417A".toList = some 0x20010db80000000000080800200C417A := by decide

/-- the same for the model of `fbsocket.inet_pton` itself -/
theorem strict6_iff_fallback (s : List Char) (v : Nat) : FbSocket.pton6 s = some v ↔ C01G.Rfc4291 s v :=
  strict6_iff .fallback s v

/-- the grammar is unambiguous: a string denotes at most one address -/
theorem rfc4291_functional (s : List Char) (v v' : Nat) (h : C01G.Rfc4291 s v) (h' : C01G.Rfc4291 s v') : v = v' :=
  C01G.rfc4291_functional s v v' h h'

/-- Strings outside RFC 4291 (negative examples for the grammar, via the equivalence): two
    "::", ":::", seven or nine groups, eight groups plus "::", a single leading or trailing ':',
    a five-digit group, a dotted quad that is not last / has a leading zero / three parts / an
    octet above 255 / makes nine groups' worth, foreign characters, zone and prefix suffixes,
    the empty string. -/
example : ∀ s ∈ ["1::2::3", ":::", "1:2:3:4:5:6:7", "1:2:3:4:5:6:7:8:9", "1:2:3:4:5:6:7::8", "::1:2:3:4:5:6:7:8",
      ":1:2:3:4:5:6:7:8", ":1::2", "1:2:3:4:5:6:7:8:", "1::2:", "12345::", "1.2.3.4::", "::1.2.3.4:5",
      "::1.2.3.04", "::1.2.3", "::256.1.1.1", "1:2:3:4:5:6:7:1.2.3.4", "1:2:3:4:5:1.2.3.4", "::g", " ::1", "::1 ",
      "::1%eth0", "::1/64", "::0x1", "", ":", "1", "1.2.3.4", "::-1", "::1_0"],
    ¬ ∃ v, C01G.Rfc4291 (String.toList s) v := by
  intro s hs
  apply C01G.rfc4291_reject
  revert s
  decide

/-- **Strict IPv6 at the constructor.**  `IPAddress(s, 6, flags)` and `IPAddress(s, flags=flags)`
    yield the IPv6 address `v` exactly when `s` is an RFC 4291 text denoting `v` — for every flags
    value (IPv6 parsing is always strict) and both back ends. -/
theorem strict6_api (be : Backend) (s : List Char) (v : Nat) (fl : Nat) :
    (ipAddress be s (some 6) fl = .ok ⟨6, v⟩ ↔ C01G.Rfc4291 s v) ∧
    (ipAddress be s none fl = .ok ⟨6, v⟩ ↔ C01G.Rfc4291 s v) := by
  have hv6 : ¬ ((6 : Nat) ≠ 4 ∧ (6 : Nat) ≠ 6) := by decide
  have h64 : ¬ ((6 : Nat) = 4) := by decide
  have hslash : C01G.Rfc4291 s v → s.contains '/' = false := by
    intro h
    have h6 := (strict6_iff be s v).mpr h
    rw [inetPton6_eq] at h6
    apply contains_false_of_not_mem
    intro hm
    rcases pton6_charset s v h6 '/' hm with e | e | e
    · revert e; decide
    · revert e; decide
    · revert e; decide
  constructor
  · constructor
    · intro h
      unfold ipAddress at h
      simp only [hv6, if_false, strToInt, h64, strToInt6] at h
      split at h
      · cases h
      · cases h6 : inetPton6 be s with
        | none => simp [h6] at h
        | some w =>
          simp only [h6, Except.ok.injEq, Addr.mk.injEq, true_and] at h
          subst h
          exact (strict6_iff be s w).mp h6
    · intro h
      have h6 := (strict6_iff be s v).mpr h
      unfold ipAddress
      simp only [hv6, if_false, strToInt, h64, strToInt6, hslash h, Bool.false_eq_true, h6]
  · constructor
    · intro h
      unfold ipAddress at h
      simp only at h
      split at h
      · cases h
      · cases h4 : strToInt4 be s fl with
        | ok w => simp [h4] at h
        | error e4 =>
          simp only [h4, strToInt6] at h
          cases h6 : inetPton6 be s with
          | none => simp [h6] at h
          | some w =>
            simp only [h6, Except.ok.injEq, Addr.mk.injEq, true_and] at h
            subst h
            exact (strict6_iff be s w).mp h6
    · intro h
      have h6 := (strict6_iff be s v).mpr h
      obtain ⟨pre, r, he, hpre⟩ := C01G.rfc4291_shape s v h
      have h4 := strToInt4_colon be pre r hpre fl
      rw [← he] at h4
      unfold ipAddress
      simp only [hslash h, Bool.false_eq_true, if_false, h4, strToInt6, h6]

example : ipAddress .fallback "::FFFF:129.144.52.38".toList none 0 = .ok ⟨6, 0xFFFF81903426⟩ :=
  (strict6_api .fallback _ _ 0).2.mpr ((strict6_iff .fallback _ _).mp (by decide))

/-- every printed form (each dialect, each back end) is an RFC 4291 text of the value printed -/
theorem printed_is_rfc4291 (be : Backend) (d : Dialect) (v : Nat) (hv : v < 2 ^ 128) :
    C01G.Rfc4291 (intToStr6 be d v) v :=
  (strict6_iff be _ v).mp (text6_parse be d v hv)

/-- **Strict IPv6, necessary conditions** (the "only standard strings" direction, in part): a
    string accepted by `inet_pton(AF_INET6, ·)` of either back end splits at ':' into pieces each
    of which is empty, a group of 1-4 hex digits, or a canonical dotted quad; in particular it
    contains nothing but hex digits, ':' and '.', so whitespace, signs, underscores, `0x`, a
    '/' or '%' suffix, and groups of five or more digits are all refused. -/
theorem strict6_necessary (be : Backend) (s : List Char) (v : Nat) (h : inetPton6 be s = some v) :
    (∀ t ∈ s.splitOn ':', GoodPiece t) ∧ (∀ c ∈ s, isHexC c = true ∨ c = ':' ∨ c = '.') := by
  rw [inetPton6_eq] at h
  exact ⟨pton6_pieces s v h, pton6_charset s v h⟩

theorem strict6_rejects_foreign (be : Backend) (s : List Char) (c : Char) (hc : c ∈ s)
    (h1 : isHexC c = false) (h2 : c ≠ ':') (h3 : c ≠ '.') : inetPton6 be s = none := by
  cases h : inetPton6 be s with
  | none => rfl
  | some v =>
    rcases (strict6_necessary be s v h).2 c hc with e | e | e
    · rw [h1] at e; cases e
    · exact absurd e h2
    · exact absurd e h3

example : inetPton6 .fallback " 1::".toList = none ∧ inetPton6 .fallback "1:2:3:4:5:6:7:00008".toList = none := by
  decide

theorem atonLoop_end_big (f : Nat) (lit : List Char) (val : Nat) (h : IsCLit lit val) (hv : val > 4294967295)
    (parts : List Nat) : Text4.atonLoop (f + 1) lit parts = none := by
  obtain ⟨c, tl, hs, hc⟩ := lit_head lit val h []
  have hst := strtoul_lit lit val h [] (Or.inl rfl)
  rw [List.append_nil] at hs hst
  rw [hs] at hst ⊢
  simp only [Text4.atonLoop, hc, hst]
  simp [hv]

theorem no_nul_join (ls : List (List Char)) (h : ∀ l ∈ ls, l.any (fun c => c.toNat == 0) = false) :
    (['.'].intercalate ls).any (fun c => c.toNat == 0) = false := by
  apply Bool.eq_false_iff.mpr
  intro hany
  obtain ⟨c, hc, hz⟩ := List.any_eq_true.mp hany
  rcases mem_intercalate '.' ls c hc with e | ⟨l, hl, hcl⟩
  · subst e; revert hz; decide
  · have := h l hl
    have h2 : l.any (fun c => c.toNat == 0) = true := List.any_eq_true.mpr ⟨c, hcl, hz⟩
    rw [this] at h2; cases h2

/-- **BSD shorthand (default mode).**  With `l0..l3` C literals (decimal without leading zero,
    octal with leading 0, hex with 0x/0X) of values `a b c d`, the modelled `inet_aton` reads
    1, 2, 3 and 4 dot-separated parts with the conventional values — non-last parts are bytes,
    the last part fills the remaining 32 / 24 / 16 / 8 bits — and refuses a last part beyond its
    range and a non-last part beyond 255. -/
theorem aton_shorthand (l0 l1 l2 l3 : List Char) (a b c d : Nat)
    (h0 : IsCLit l0 a) (h1 : IsCLit l1 b) (h2 : IsCLit l2 c) (h3 : IsCLit l3 d) :
    (a ≤ 0xffffffff → Text4.aton l0 = some a) ∧
    (a > 0xffffffff → Text4.aton l0 = none) ∧
    (a ≤ 255 → b ≤ 0xffffff → Text4.aton (l0 ++ '.' :: l1) = some (a * 16777216 + b)) ∧
    (a ≤ 255 → b > 0xffffff → Text4.aton (l0 ++ '.' :: l1) = none) ∧
    (a ≤ 255 → b ≤ 255 → c ≤ 0xffff → Text4.aton (l0 ++ '.' :: (l1 ++ '.' :: l2)) = some (a * 16777216 + b * 65536 + c)) ∧
    (a ≤ 255 → b ≤ 255 → c > 0xffff → Text4.aton (l0 ++ '.' :: (l1 ++ '.' :: l2)) = none) ∧
    (a ≤ 255 → b ≤ 255 → c ≤ 255 → d ≤ 255 →
      Text4.aton (l0 ++ '.' :: (l1 ++ '.' :: (l2 ++ '.' :: l3))) = some (a * 16777216 + b * 65536 + c * 256 + d)) ∧
    (a ≤ 255 → b ≤ 255 → c ≤ 255 → d > 255 → Text4.aton (l0 ++ '.' :: (l1 ++ '.' :: (l2 ++ '.' :: l3))) = none) ∧
    (a > 255 → ∀ r, Text4.aton (l0 ++ '.' :: r) = none) := by
  have n0 := lit_no_nul l0 a h0
  have n1 := lit_no_nul l1 b h1
  have n2 := lit_no_nul l2 c h2
  have n3 := lit_no_nul l3 d h3
  have nul1 : l0.any (fun c => c.toNat == 0) = false := n0
  have nul2 : (l0 ++ '.' :: l1).any (fun c => c.toNat == 0) = false := by
    have := no_nul_join [l0, l1] (by intro l hl; simp at hl; rcases hl with e | e <;> subst e <;> assumption)
    simpa [List.intercalate] using this
  have nul3 : (l0 ++ '.' :: (l1 ++ '.' :: l2)).any (fun c => c.toNat == 0) = false := by
    have := no_nul_join [l0, l1, l2] (by intro l hl; simp at hl; rcases hl with e | e | e <;> subst e <;> assumption)
    simpa [List.intercalate] using this
  have nul4 : (l0 ++ '.' :: (l1 ++ '.' :: (l2 ++ '.' :: l3))).any (fun c => c.toNat == 0) = false := by
    have := no_nul_join [l0, l1, l2, l3] (by intro l hl; simp at hl; rcases hl with e | e | e | e <;> subst e <;> assumption)
    simpa [List.intercalate] using this
  refine ⟨?_, ?_, ?_, ?_, ?_, ?_, ?_, ?_, ?_⟩
  · intro ha
    unfold Text4.aton
    rw [nul1]; simp only [Bool.false_eq_true, if_false]
    rw [atonLoop_end 3 l0 a h0 ha []]
    have : ¬ (a > 4294967295) := by omega
    simp [this]
  · intro ha
    unfold Text4.aton
    rw [nul1]; simp only [Bool.false_eq_true, if_false]
    rw [atonLoop_end_big 3 l0 a h0 ha []]
  · intro ha hb
    unfold Text4.aton
    rw [nul2]; simp only [Bool.false_eq_true, if_false]
    rw [atonLoop_part 3 l0 a h0 ha l1 [] (by simp), atonLoop_end 2 l1 b h1 (by omega) _]
    have : ¬ (b > 16777215) := by omega
    simp only [List.nil_append, List.length_cons, List.length_nil, this, if_false]
    rw [or_low a b 24 (by omega)]
  · intro ha hb
    unfold Text4.aton
    rw [nul2]; simp only [Bool.false_eq_true, if_false]
    rw [atonLoop_part 3 l0 a h0 ha l1 [] (by simp)]
    by_cases hb2 : b ≤ 4294967295
    · rw [atonLoop_end 2 l1 b h1 hb2 _]
      have : b > 16777215 := hb
      simp [this]
    · rw [atonLoop_end_big 2 l1 b h1 (by omega) _]
  · intro ha hb hc
    unfold Text4.aton
    rw [nul3]; simp only [Bool.false_eq_true, if_false]
    rw [atonLoop_part 3 l0 a h0 ha _ [] (by simp), atonLoop_part 2 l1 b h1 hb l2 _ (by simp),
      atonLoop_end 1 l2 c h2 (by omega) _]
    have : ¬ (c > 65535) := by omega
    simp only [List.nil_append, List.cons_append, List.length_cons, List.length_nil, this, if_false]
    have e1 : a <<< 24 ||| b <<< 16 = (a * 256 + b) <<< 16 := by
      have : a <<< 24 = (a <<< 8) <<< 16 := by rw [← Nat.shiftLeft_add]
      rw [this, ← Nat.shiftLeft_or_distrib, ← Nat.shiftLeft_add_eq_or_of_lt (by omega : b < 2 ^ 8)]
      simp [Nat.shiftLeft_eq]
    have e2 : (a * 256 + b) * 2 ^ 16 + c = a * 16777216 + b * 65536 + c := by
      simp only [Nat.reducePow]; omega
    rw [e1, or_low _ c 16 (by omega), e2]
  · intro ha hb hc
    unfold Text4.aton
    rw [nul3]; simp only [Bool.false_eq_true, if_false]
    rw [atonLoop_part 3 l0 a h0 ha _ [] (by simp), atonLoop_part 2 l1 b h1 hb l2 _ (by simp)]
    by_cases hc2 : c ≤ 4294967295
    · rw [atonLoop_end 1 l2 c h2 hc2 _]
      have : c > 65535 := hc
      simp [this]
    · rw [atonLoop_end_big 1 l2 c h2 (by omega) _]
  · intro ha hb hc hd
    unfold Text4.aton
    rw [nul4]; simp only [Bool.false_eq_true, if_false]
    rw [atonLoop_part 3 l0 a h0 ha _ [] (by simp), atonLoop_part 2 l1 b h1 hb _ _ (by simp),
      atonLoop_part 1 l2 c h2 hc l3 _ (by simp), atonLoop_end 0 l3 d h3 (by omega) _]
    have : ¬ (d > 255) := by omega
    simp only [List.nil_append, List.cons_append, List.length_cons, List.length_nil, this, if_false]
    rw [or_bytes a b c d (by omega) (by omega) (by omega)]
  · intro ha hb hc hd
    unfold Text4.aton
    rw [nul4]; simp only [Bool.false_eq_true, if_false]
    rw [atonLoop_part 3 l0 a h0 ha _ [] (by simp), atonLoop_part 2 l1 b h1 hb _ _ (by simp),
      atonLoop_part 1 l2 c h2 hc l3 _ (by simp)]
    by_cases hd2 : d ≤ 4294967295
    · rw [atonLoop_end 0 l3 d h3 hd2 _]
      have : d > 255 := hd
      simp [this]
    · rw [atonLoop_end_big 0 l3 d h3 (by omega) _]
  · intro ha r
    unfold Text4.aton
    split
    · rfl
    · rw [atonLoop_part_big 3 l0 a h0 ha r []]

example : IsCLit "0x7f".toList 127 ∧ IsCLit "010".toList 8 ∧ IsCLit "65535".toList 65535 :=
  ⟨IsCLit.hex 'x' "7f".toList (Or.inl rfl) (by decide) (by decide),
   IsCLit.oct "10".toList (by decide),
   IsCLit.dec '6' "5535".toList (by decide) (by decide) (by decide)⟩

example : Text4.aton "0x7f.1".toList = some 0x7f000001 := by decide

end NV.C01
