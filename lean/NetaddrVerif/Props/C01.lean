/-
Props/C01.lean — C01: address text round-trips; strict parsing equals the standard grammar;
all of it unchanged under netaddr's pure-Python fallback.

Property (properties.jsonl): every IPv4/IPv6 value prints (default form and each IPv6 dialect)
to text that parses back - with or without an explicit version, in default or strict mode - to
the same value and version; strict mode accepts exactly the standard strings; a rejected
address string raises AddrFormatError; unchanged when `netaddr.fbsocket` replaces the platform
functions.

The theorems are about `NV.AddrParse.ipAddress` / `intToStr` / `intToStr6` (Model/AddrParse.lean),
i.e. `IPAddress.__init__` for strings and `strategy.ipv4/ipv6.int_to_str`, over the modelled
platform functions (Model/Text4, Text6) and the model of `netaddr/fbsocket.py` (Model/FbSocket).
Helper lemmas live in Lemmas/C01L*.lean.
-/
import NetaddrVerif.Lemmas.C01LText6
namespace NV.C01
open NV NV.Text4 NV.AddrParse NV.C01L

theorem not_mem_of_contains_false {s : List Char} {c : Char} (h : s.contains c = false) : c ∉ s := by
  intro hm
  have := List.contains_iff_mem.mpr hm
  rw [h] at this; cases this

/-- **IPv4 round trip.**  `str(IPAddress(v, 4))` parses back to `(4, v)` with version `None` or
    `4`, under every flag combination of INET_PTON / ZEROFILL, on both back ends. -/
theorem roundtrip4 (be : Backend) (v : Nat) (hv : v < 2 ^ 32) (ver : Option Nat)
    (hver : ver = none ∨ ver = some 4) (fl : Nat) (hfl : fl < 4) :
    ipAddress be (intToStr be 4 v) ver fl = .ok ⟨4, v⟩ := by
  have hs := slash_not_in_ntoa v hv
  have hp := strToInt4_ntoa be v hv fl hfl
  have hs' := not_mem_of_contains_false hs
  rcases hver with h | h <;> subst h <;> simp [ipAddress, intToStr, hs', hp, strToInt]

example : ipAddress .fallback (intToStr .fallback 4 0xC0000201) none ZEROFILL = .ok ⟨4, 0xC0000201⟩ :=
  roundtrip4 _ _ (by decide) _ (Or.inl rfl) _ (by decide)

/-- **IPv6 round trip.**  `IPAddress(v, 6).format(dialect)` for each of the three dialects parses
    back to `(6, v)` with version `None` or `6`, under every flags value, on both back ends. -/
theorem roundtrip6 (be : Backend) (d : Dialect) (v : Nat) (hv : v < 2 ^ 128) (ver : Option Nat)
    (hver : ver = none ∨ ver = some 6) (fl : Nat) :
    ipAddress be (intToStr6 be d v) ver fl = .ok ⟨6, v⟩ := by
  have hs := text6_noslash be d v hv
  have hp := text6_parse be d v hv
  obtain ⟨pre, r, he, hpre⟩ := text6_shape be d v hv
  have h4 := strToInt4_colon be pre r hpre fl
  rw [← he] at h4
  have hs' := not_mem_of_contains_false hs
  rcases hver with h | h <;> subst h <;> simp [ipAddress, hs', hp, h4, strToInt, strToInt6]

example : ipAddress .platform (intToStr6 .platform .compact 0xffff01020304) none 0 = .ok ⟨6, 0xffff01020304⟩ :=
  roundtrip6 _ _ _ (by decide) _ (Or.inl rfl) _

theorem pton6_no_colon (s : List Char) (h : ':' ∉ s) : Text6.pton6 s = none := by
  have e : s.splitOn ':' = [s] := by
    have := List.splitOn_intercalate (ls := [s]) ':' (by intro l hl; simp at hl; subst hl; exact h) (by simp)
    simpa [List.intercalate] using this
  unfold Text6.pton6
  simp [e]

/-- **No cross-family reading.**  A printed IPv4 text is never read as IPv6 and a printed IPv6
    text (any dialect) is never read as IPv4: with an explicit wrong version the constructor
    raises AddrFormatError, and (by `roundtrip4` / `roundtrip6`) without a version the printed
    family is the detected one. -/
theorem no_cross_family (be : Backend) (fl : Nat) :
    (∀ v, v < 2 ^ 32 → ipAddress be (intToStr be 4 v) (some 6) fl = .error .addrFormat) ∧
    (∀ d v, v < 2 ^ 128 → ipAddress be (intToStr6 be d v) (some 4) fl = .error .addrFormat) := by
  constructor
  · intro v hv
    have hs := slash_not_in_ntoa v hv
    have h6 : inetPton6 be (ntoa v) = none := by
      rw [inetPton6_eq]; exact pton6_no_colon _ (colon_not_in_ntoa v hv)
    have hs' := not_mem_of_contains_false hs
    simp [ipAddress, intToStr, hs', strToInt, strToInt6, h6]
  · intro d v hv
    have hs := text6_noslash be d v hv
    obtain ⟨pre, r, he, hpre⟩ := text6_shape be d v hv
    have h4 := strToInt4_colon be pre r hpre fl
    rw [← he] at h4
    have hs' := not_mem_of_contains_false hs
    simp [ipAddress, hs', strToInt, h4]

/-- **Fallback = platform, parsing (IPv6).**  The model of `fbsocket.inet_pton(AF_INET6, ·)`
    (written line by line from fbsocket.py: head/tail blank handling with indices, `count`,
    the indexed token loop) and the platform model accept the same strings with the same values. -/
theorem fallback_eq_platform_parse (s : List Char) : FbSocket.pton6 s = Text6.pton6 s := fb_pton6_eq s

/-- **Fallback = platform, parsing (IPv4 strict).** -/
theorem fallback_eq_platform_parse4 (s : List Char) : FbSocket.pton4 s = Text4.pton4 s := fb_pton4_eq s

/-- **Fallback = platform, printing.**  `fbsocket.inet_ntop` (`_compact_ipv6_tokens` with its
    positions list, sort and scan; integer test for the dotted-quad tail) prints exactly the
    platform model's text for every 128-bit value; `inet_ntoa` likewise for 32-bit values. -/
theorem fallback_eq_platform_print (v : Nat) (hv : v < 2 ^ 128) : FbSocket.ntop6 v = Text6.ntop6 v :=
  fb_ntop6_eq v hv

theorem fallback_eq_platform_print4 (v : Nat) (hv : v < 2 ^ 32) : FbSocket.ntoa v = Text4.ntoa v := fb_ntoa_eq v hv

example : FbSocket.ntop6 0xffff01020304 = "::ffff:1.2.3.4".toList := by decide

/-- **The back end is unobservable**: for every string, version and flags `IPAddress(...)`
    gives the same result (value or error class) under both back ends, and every value prints
    the same in every dialect. -/
theorem backend_irrelevant :
    (∀ s ver fl, ipAddress .fallback s ver fl = ipAddress .platform s ver fl) ∧
    (∀ d v, v < 2 ^ 128 → intToStr6 .fallback d v = intToStr6 .platform d v) ∧
    (∀ s fl, validStr4 .fallback s fl = validStr4 .platform s fl) ∧
    (∀ s, validStr6 .fallback s = validStr6 .platform s) := by
  have e4 : ∀ s fl, strToInt4 .fallback s fl = strToInt4 .platform s fl := by
    intro s fl; simp [strToInt4, inetPton4, fb_pton4_eq]
  have e6 : ∀ s fl, strToInt6 .fallback s fl = strToInt6 .platform s fl := by
    intro s fl; simp [strToInt6, inetPton6, fb_pton6_eq]
  refine ⟨?_, ?_, ?_, ?_⟩
  · intro s ver fl
    simp [ipAddress, strToInt, e4, e6]
  · intro d v hv
    cases d with
    | compact => exact fb_ntop6_eq v hv
    | full => rfl
    | verbose => rfl
  · intro s fl; simp [validStr4, e4]
  · intro s; simp [validStr6, inetPton6, fb_pton6_eq]

/-- a string containing '/' is refused with ValueError whatever the (valid) version and flags -/
theorem slash_refused (be : Backend) (s : List Char) (flags : Nat) (h : s.contains '/' = true) :
    ipAddress be s none flags = .error .value ∧ ipAddress be s (some 4) flags = .error .value
      ∧ ipAddress be s (some 6) flags = .error .value := by
  refine ⟨?_, ?_, ?_⟩ <;> simp only [ipAddress, h] <;> simp

/-- **Rejected ⇒ AddrFormatError.**  With a valid version argument, a string without '/' that
    does not yield an address raises AddrFormatError (never another class, never an address of
    the other kind); ValueError is raised exactly for '/' or an invalid version. -/
theorem reject_is_addrformat (be : Backend) (s : List Char) (ver : Option Nat) (fl : Nat) (e : Err)
    (hver : ver = none ∨ ver = some 4 ∨ ver = some 6) (hs : s.contains '/' = false)
    (h : ipAddress be s ver fl = .error e) : e = .addrFormat := by
  rcases hver with hv | hv | hv <;> subst hv <;> unfold ipAddress at h <;>
    simp only [hs, Bool.false_eq_true, if_false] at h
  · cases h4 : strToInt4 be s fl with
    | ok v => rw [h4] at h; cases h
    | error e4 =>
      rw [h4] at h
      cases h6 : strToInt6 be s fl with
      | ok v => rw [h6] at h; cases h
      | error e6 => rw [h6] at h; cases h; rfl
  · have hv4 : ¬ ((4 : Nat) ≠ 4 ∧ (4 : Nat) ≠ 6) := by decide
    simp only [hv4, if_false] at h
    cases h4 : strToInt be 4 s fl with
    | ok v => rw [h4] at h; cases h
    | error e4 => rw [h4] at h; cases h; rfl
  · have hv6 : ¬ ((6 : Nat) ≠ 4 ∧ (6 : Nat) ≠ 6) := by decide
    simp only [hv6, if_false] at h
    cases h6 : strToInt be 6 s fl with
    | ok v => rw [h6] at h; cases h
    | error e6 => rw [h6] at h; cases h; rfl

example : (match ipAddress .platform "1.2.3.4.5".toList none 0 with | .error .addrFormat => true | _ => false) = true := by
  decide

theorem invalid_version_refused (be : Backend) (s : List Char) (ver fl : Nat) (h : ver ≠ 4 ∧ ver ≠ 6) :
    ipAddress be s (some ver) fl = .error .value := by
  simp [ipAddress, h]

end NV.C01
