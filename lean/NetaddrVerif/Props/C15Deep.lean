/-
Props/C15Deep.lean — property C15, second layer (closing the audit's gaps):

* the validity predicates as standalone iff statements (`validWords_iff`, `validBits_iff`,
  `validBin_iff`) and the decoders as total functions of them (`bitsToInt_total`, `binToInt_total`);
* signed arguments: the `…Z` functions of Model/Codec (what the driver runs) reject every
  negative int / every sequence with a negative word exactly where the Python code tests
  `0 <= x`, agree with the `Nat` functions on non-negative arguments (so every theorem of
  Props/C15 is a theorem about them), and `int_to_bin`, which has no sign test, is described too;
* `bits_roundtrip_anysep`: decoder ∘ encoder = id on bit strings for EVERY separator that is
  empty or contains at least one character other than '0' / '1'; for separators made of binary
  digits only the round trip fails (`bits_roundtrip_needs_nonbinary_sep`: an error, and a wrong value);
* `base85_roundtrip_text`: `base85_to_ipv6(ipv6_to_base85(v))` as TEXT, composed with the
  printer / parser that property C01 is about.
-/
import NetaddrVerif.Props.C15
import NetaddrVerif.Props.C01
import NetaddrVerif.Lemmas.C15LSep
namespace NV.C15
open NV NV.Codec NV.Py NV.PyL

/-! ## validity predicates -/

/-- `valid_words`: exactly the sequences of `nw` words below 2^ws -/
theorem validWords_iff (words : List Nat) (ws nw : Nat) :
    validWords words ws nw = true ↔ words.length = nw ∧ ∀ x ∈ words, x < 2 ^ ws :=
  Codec.validWords_iff words ws nw

example : validWords [0x001b, 0x7749, 0x54fd] 16 3 = true := by decide
example : validWords [0x10000, 0, 0] 16 3 = false := by decide

/-- `valid_bits`: with the separator occurrences removed, exactly the strings of `width ≥ 1`
    binary digits (for `width = 0` nothing is valid: `int('', 2)` raises) -/
theorem validBits_iff (s : List Char) (width : Nat) (sep : List Char) :
    validBits s width sep = true ↔
      ((if sep ≠ [] then replaceDel sep s else s).length = width ∧
       (∀ c ∈ (if sep ≠ [] then replaceDel sep s else s), c = '0' ∨ c = '1') ∧ 1 ≤ width) := by
  generalize ht : (if sep ≠ [] then replaceDel sep s else s) = t
  have hdef : validBits s width sep =
      (if t.length ≠ width then false else if t.any (fun c => !is01 c) = true then false else inRange2 t width) := by
    rw [← ht]; rfl
  constructor
  · intro hv
    rw [hdef] at hv
    by_cases hl : t.length = width
    · simp only [hl, ne_eq, not_true_eq_false, if_false] at hv
      by_cases hany : t.any (fun c => !is01 c) = true
      · simp [hany] at hv
      · simp only [hany, Bool.false_eq_true, if_false] at hv
        refine ⟨hl, ?_, ?_⟩
        · intro c hc
          have : is01 c = true := by
            cases hi : is01 c with
            | true => rfl
            | false => exact absurd (List.any_eq_true.mpr ⟨c, hc, by simp [hi]⟩) hany
          simpa [is01] using this
        · cases width with
          | succ n => omega
          | zero =>
            have : t = [] := List.eq_nil_of_length_eq_zero hl
            subst this
            simp [inRange2, pyInt, stripWs] at hv
    · simp [hl] at hv
  · rintro ⟨hl, h01, hw⟩
    have hok := (bitsToInt_spec s width sep).1 (by rw [ht]; exact ⟨hl, h01, hw⟩)
    cases hv : validBits s width sep with
    | true => rfl
    | false => simp [bitsToInt, hv] at hok

example : validBits "00001010.00000000.00000000.00000001".toList 32 ['.'] = true := by rfl
example : validBits "00001010.00000000.00000000.00000002".toList 32 ['.'] = false := by rfl
example : validBits [] 0 [] = false := by rfl

/-- `valid_bin`: exactly '0b' followed by 1 … width binary digits -/
theorem validBin_iff (s : List Char) (width : Nat) :
    validBin s width = true ↔
      ∃ t, s = '0' :: 'b' :: t ∧ t ≠ [] ∧ t.length ≤ width ∧ ∀ c ∈ t, c = '0' ∨ c = '1' := by
  constructor
  · intro hv
    simp only [validBin] at hv
    by_cases hp : (['0', 'b'].isPrefixOf s) = true
    · match s, hp with
      | [], hp => simp [List.isPrefixOf] at hp
      | [_], hp => simp [List.isPrefixOf] at hp
      | a :: b :: t, hp =>
        simp only [List.isPrefixOf, Bool.and_true, Bool.and_eq_true, beq_iff_eq] at hp
        obtain ⟨rfl, rfl⟩ := hp
        simp only [List.isPrefixOf, beq_self_eq_true, Bool.and_self, Bool.not_true, Bool.false_eq_true,
          if_false, List.drop_succ_cons, List.drop_zero] at hv
        by_cases hl : t.length > width
        · simp [hl] at hv
        · simp only [hl, if_false] at hv
          by_cases hany : t.any (fun c => !is01 c) = true
          · simp [hany] at hv
          · simp only [hany, Bool.false_eq_true, if_false] at hv
            refine ⟨t, rfl, ?_, by omega, ?_⟩
            · intro e; subst e; simp [inRange2, pyInt, stripWs] at hv
            · intro c hc
              have : is01 c = true := by
                cases hi : is01 c with
                | true => rfl
                | false => exact absurd (List.any_eq_true.mpr ⟨c, hc, by simp [hi]⟩) hany
              simpa [is01] using this
    · simp [hp] at hv
  · rintro ⟨t, rfl, hne, hl, h01⟩
    have hok := (binToInt_spec ('0' :: 'b' :: t) width).1 t rfl hne hl h01
    cases hv : validBin ('0' :: 'b' :: t) width with
    | true => rfl
    | false => simp [binToInt, hv] at hok

example : validBin "0b101".toList 32 = true := by rfl
example : validBin "0b".toList 32 = false := by rfl
example : validBin "0b1_1".toList 32 = false := by rfl

/-- `bits_to_int` is total in terms of `valid_bits`: the base-2 value of the stripped string when
    valid, ValueError otherwise (this includes `width = 0`) -/
theorem bitsToInt_total (s : List Char) (width : Nat) (sep : List Char) :
    (validBits s width sep = true →
      bitsToInt s width sep = .ok (Int.ofNat (digitsNat 2 (if sep ≠ [] then replaceDel sep s else s) 0))) ∧
    (validBits s width sep = false → bitsToInt s width sep = .error .value) := by
  constructor
  · intro hv
    exact (bitsToInt_spec s width sep).1 ((validBits_iff s width sep).mp hv)
  · intro hv; simp [bitsToInt, hv]

/-- `bin_to_int` is total in terms of `valid_bin` -/
theorem binToInt_total (s : List Char) (width : Nat) :
    (validBin s width = true → binToInt s width = .ok (Int.ofNat (digitsNat 2 (s.drop 2) 0))) ∧
    (validBin s width = false → binToInt s width = .error .value) := by
  constructor
  · intro hv
    obtain ⟨t, rfl, hne, hl, h01⟩ := (validBin_iff s width).mp hv
    exact (binToInt_spec _ width).1 t rfl hne hl h01
  · intro hv; simp [binToInt, hv]

/-! ## signed arguments -/

private theorem toNat_lt_pow {x : Int} {k : Nat} (h0 : 0 ≤ x) (h : x < (2 : Int) ^ k) : x.toNat < 2 ^ k := by
  have e : ((x.toNat : Nat) : Int) = x := Int.toNat_of_nonneg h0
  have : ((x.toNat : Nat) : Int) < ((2 ^ k : Nat) : Int) := by rw [e]; simpa using h
  exact_mod_cast this

/-- `valid_words` on arbitrary ints: exactly the sequences of `nw` words in `0 .. 2^ws - 1` -/
theorem validWordsZ_iff (words : List Int) (ws nw : Nat) :
    validWordsZ words ws nw = true ↔ words.length = nw ∧ ∀ x ∈ words, 0 ≤ x ∧ x < (2 : Int) ^ ws := by
  simp only [validWordsZ, Bool.and_eq_true, beq_iff_eq, List.all_eq_true, decide_eq_true_eq]
  constructor
  · rintro ⟨h1, h2⟩; exact ⟨h1, fun x hx => ⟨(h2 x hx).1, by have := (h2 x hx).2; omega⟩⟩
  · rintro ⟨h1, h2⟩; exact ⟨h1, fun x hx => ⟨(h2 x hx).1, by have := (h2 x hx).2; omega⟩⟩

example : validWordsZ [192, 0, 2, 1] 8 4 = true := by decide
example : validWordsZ [192, 0, -2, 1] 8 4 = false := by decide

/-- on non-negative words the signed predicate is the unsigned one -/
theorem validWordsZ_natCast (words : List Nat) (ws nw : Nat) :
    validWordsZ (words.map Int.ofNat) ws nw = validWords words ws nw := by
  have h := validWordsZ_iff (words.map Int.ofNat) ws nw
  have h' := Codec.validWords_iff words ws nw
  have e : (words.length = nw ∧ ∀ x ∈ words, x < 2 ^ ws) ↔
      ((words.map Int.ofNat).length = nw ∧ ∀ x ∈ words.map Int.ofNat, 0 ≤ x ∧ x < (2 : Int) ^ ws) := by
    simp only [List.length_map, List.mem_map, forall_exists_index, and_imp, forall_apply_eq_imp_iff₂]
    constructor
    · rintro ⟨h1, h2⟩
      refine ⟨h1, fun a ha => ⟨Int.natCast_nonneg a, ?_⟩⟩
      have := h2 a ha
      show ((a : Nat) : Int) < (2 : Int) ^ ws
      exact_mod_cast this
    · rintro ⟨h1, h2⟩
      refine ⟨h1, fun a ha => ?_⟩
      have := (h2 a ha).2
      have : ((a : Nat) : Int) < ((2 ^ ws : Nat) : Int) := by simpa using this
      exact_mod_cast this
  cases hv : validWords words ws nw with
  | true => exact h.mpr (e.mp (h'.mp hv))
  | false =>
    cases hz : validWordsZ (words.map Int.ofNat) ws nw with
    | false => rfl
    | true => rw [h'.mpr (e.mpr (h.mp hz))] at hv; cases hv

/-- `words_to_int` on arbitrary ints: exactly the sequences of `nw` words in `0 .. 2^ws - 1` are
    accepted, with their big-endian value; a wrong count, a word ≥ 2^ws or a NEGATIVE word
    raises ValueError -/
theorem wordsToIntZ_spec (words : List Int) (ws nw : Nat) :
    (words.length = nw ∧ (∀ x ∈ words, 0 ≤ x ∧ x < (2 : Int) ^ ws) →
        wordsToIntZ words ws nw = .ok (beWordsValue ws (words.map Int.toNat))) ∧
    (¬ (words.length = nw ∧ ∀ x ∈ words, 0 ≤ x ∧ x < (2 : Int) ^ ws) →
        wordsToIntZ words ws nw = .error .value) := by
  constructor
  · intro h
    simp only [wordsToIntZ, (validWordsZ_iff words ws nw).mpr h, if_true, beWordsValue]
    rw [orShift_zero]
    intro x hx
    simp only [List.mem_reverse, List.mem_map] at hx
    obtain ⟨y, hy, rfl⟩ := hx
    exact toNat_lt_pow (h.2 y hy).1 (h.2 y hy).2
  · intro h
    have : validWordsZ words ws nw = false := by
      cases hv : validWordsZ words ws nw with
      | false => rfl
      | true => exact absurd ((validWordsZ_iff words ws nw).mp hv) h
    simp [wordsToIntZ, this]

example : wordsToIntZ [0x001b, 0x7749, 0x54fd] 16 3 = .ok 0x001b774954fd := by rfl
example : wordsToIntZ [0x001b, -1, 0x54fd] 16 3 = .error .value := by rfl

/-- a negative word anywhere in the sequence is rejected -/
theorem wordsToIntZ_rejects_negative_word (words : List Int) (ws nw : Nat) (x : Int) (hx : x ∈ words) (hneg : x < 0) :
    wordsToIntZ words ws nw = .error .value ∧ validWordsZ words ws nw = false := by
  have hn : ¬ (words.length = nw ∧ ∀ x ∈ words, 0 ≤ x ∧ x < (2 : Int) ^ ws) :=
    fun h => by have := (h.2 x hx).1; omega
  refine ⟨(wordsToIntZ_spec words ws nw).2 hn, ?_⟩
  cases hv : validWordsZ words ws nw with
  | false => rfl
  | true => exact absurd ((validWordsZ_iff words ws nw).mp hv) hn

/-- on non-negative words the signed decoder is the unsigned one (so `wordsToInt_spec`,
    `words_roundtrip` … speak about what the driver runs) -/
theorem wordsToIntZ_natCast (words : List Nat) (ws nw : Nat) :
    wordsToIntZ (words.map Int.ofNat) ws nw = wordsToInt words ws nw := by
  have e : (words.map Int.ofNat).map Int.toNat = words := by
    rw [List.map_map]; conv => rhs; rw [← List.map_id words]
    apply List.map_congr_left; intro a _; rfl
  simp only [wordsToIntZ, wordsToInt, validWordsZ_natCast, e]

/-- `ipv4.words_to_int` on arbitrary ints -/
theorem v4_wordsToIntZ_spec (words : List Int) :
    (words.length = 4 ∧ (∀ x ∈ words, 0 ≤ x ∧ x < (2 : Int) ^ 8) →
        V4.wordsToIntZ words = .ok (beWordsValue 8 (words.map Int.toNat))) ∧
    (¬ (words.length = 4 ∧ ∀ x ∈ words, 0 ≤ x ∧ x < (2 : Int) ^ 8) → V4.wordsToIntZ words = .error .value) := by
  constructor
  · intro h
    have hv : validWordsZ words Gen.ipv4WordSize Gen.ipv4NumWords = true := (validWordsZ_iff words 8 4).mpr h
    simp only [V4.wordsToIntZ, hv, Bool.not_true, Bool.false_eq_true, if_false]
    apply (v4_wordsToInt_spec _).1
    refine ⟨by simpa using h.1, ?_⟩
    intro x hx
    simp only [List.mem_map] at hx
    obtain ⟨y, hy, rfl⟩ := hx
    exact toNat_lt_pow (h.2 y hy).1 (h.2 y hy).2
  · intro h
    have : validWordsZ words Gen.ipv4WordSize Gen.ipv4NumWords = false := by
      cases hv : validWordsZ words Gen.ipv4WordSize Gen.ipv4NumWords with
      | false => rfl
      | true => exact absurd ((validWordsZ_iff words 8 4).mp hv) h
    simp [V4.wordsToIntZ, this]

example : V4.wordsToIntZ [192, 0, 2, 1] = .ok 0xC0000201 := by rfl
example : V4.wordsToIntZ [192, 0, 2, -1] = .error .value := by rfl

/-- `int_to_words` on an arbitrary int: `0 ≤ v < 2^(nw·ws)` gives the big-endian word tuple of
    value v, everything else (in particular every negative int) raises IndexError -/
theorem intToWordsZ_spec (v : Int) (ws nw : Nat) :
    (0 ≤ v ∧ v < (2 : Int) ^ (nw * ws) → ∃ words, intToWordsZ v ws nw = .ok words ∧ words.length = nw ∧
        (∀ x ∈ words, x < 2 ^ ws) ∧ ((beWordsValue ws words : Nat) : Int) = v) ∧
    (¬ (0 ≤ v ∧ v < (2 : Int) ^ (nw * ws)) → intToWordsZ v ws nw = .error .index) := by
  constructor
  · rintro ⟨h0, h1⟩
    obtain ⟨words, e1, e2, e3, e4⟩ := (intToWords_spec v.toNat ws nw).1 (toNat_lt_pow h0 h1)
    refine ⟨words, ?_, e2, e3, ?_⟩
    · simp only [intToWordsZ]; rw [if_neg (by omega)]; exact e1
    · rw [e4]; exact Int.toNat_of_nonneg h0
  · intro h
    simp only [intToWordsZ]
    by_cases hneg : v < 0
    · rw [if_pos hneg]
    · rw [if_neg hneg]
      apply (intToWords_spec v.toNat ws nw).2
      intro hlt
      apply h
      refine ⟨by omega, ?_⟩
      have e : ((v.toNat : Nat) : Int) = v := Int.toNat_of_nonneg (by omega)
      have : ((v.toNat : Nat) : Int) < ((2 ^ (nw * ws) : Nat) : Int) := by exact_mod_cast hlt
      rw [e] at this; simpa using this

example : intToWordsZ 0x001b774954fd 16 3 = .ok [0x001b, 0x7749, 0x54fd] := by rfl
example : intToWordsZ (-1) 16 3 = .error .index := by rfl

private theorem shr_natCast (n k : Nat) : ((n : Int) >>> k) = ((n >>> k : Nat) : Int) := rfl

/-- on a non-negative int every signed encoder IS the unsigned one: all theorems of Props/C15
    about `intToWords`, `intToBits`, `intToBin`, `*.intToPacked`, `*.intToArpa` are theorems
    about the functions the driver runs -/
theorem encodersZ_natCast (n : Nat) (ws nw width : Nat) (sep : List Char) :
    intToWordsZ n ws nw = intToWords n ws nw ∧ intToBitsZ n ws nw sep = intToBits n ws nw sep ∧
    intToBinZ n width = intToBin n width ∧
    V4.intToWordsZ n = V4.intToWords n ∧ V4.intToPackedZ n = V4.intToPacked n ∧ V4.intToArpaZ n = V4.intToArpa n ∧
    V6.intToPackedZ n = V6.intToPacked n ∧ V6.intToArpaZ n = V6.intToArpa n ∧
    E48.intToPackedZ n = E48.intToPacked n ∧ E64.intToPackedZ n = E64.intToPacked n := by
  have hn : ¬ ((n : Int) < 0) := by omega
  refine ⟨?_, ?_, ?_, ?_, ?_, ?_, ?_, ?_, ?_, ?_⟩
  · simp [intToWordsZ, hn]
  · simp [intToBitsZ, hn]
  · simp [intToBinZ, intToBin, pyBinZ, hn]
  · simp [V4.intToWordsZ, hn]
  · simp [V4.intToPackedZ, V4.intToPacked, packFieldZ, hn]
  · simp [V4.intToArpaZ, hn]
  · simp [V6.intToPackedZ, hn]
  · simp [V6.intToArpaZ, hn]
  · have e1 : ((n : Int) >>> 32) = ((n >>> 32 : Nat) : Int) := rfl
    have e2 : ((n : Int) % 4294967296) = ((n &&& 0xffffffff : Nat) : Int) := by
      have a : n &&& 0xffffffff = n % 4294967296 := Nat.and_two_pow_sub_one_eq_mod n 32
      rw [a]; omega
    have h1 : ¬ (((n >>> 32 : Nat) : Int) < 0) := by omega
    have h2 : ¬ (((n &&& 0xffffffff : Nat) : Int) < 0) := by omega
    simp only [E48.intToPackedZ, E48.intToPacked, e1, e2, packFieldZ, h1, h2, if_false, Int.toNat_natCast]
  · simp [E64.intToPackedZ, hn]

/-- every encoder that tests `0 <= int_val` (directly, through `int_to_words`, or through
    `struct.pack`) raises on every negative int -/
theorem encodersZ_reject_negative (v : Int) (hv : v < 0) (ws nw : Nat) (sep : List Char) :
    intToWordsZ v ws nw = .error .index ∧ intToBitsZ v ws nw sep = .error .index ∧
    V4.intToWordsZ v = .error .value ∧ V4.intToPackedZ v = .error .other ∧ V4.intToArpaZ v = .error .value ∧
    V6.intToPackedZ v = .error .index ∧ V6.intToArpaZ v = .error .value ∧
    E48.intToPackedZ v = .error .other ∧ E64.intToPackedZ v = .error .index := by
  refine ⟨?_, ?_, ?_, ?_, ?_, ?_, ?_, ?_, ?_⟩
  · simp [intToWordsZ, hv]
  · simp [intToBitsZ, hv]
  · simp [V4.intToWordsZ, hv]
  · simp [V4.intToPackedZ, packFieldZ, hv]
  · simp [V4.intToArpaZ, hv]
  · simp [V6.intToPackedZ, hv]
  · simp [V6.intToArpaZ, hv]
  · have : v >>> 32 < 0 := by
      match v, hv with
      | Int.negSucc m, _ => exact Int.negSucc_lt_zero _
    simp only [E48.intToPackedZ, packFieldZ, this, if_true]
    rfl
  · simp [E64.intToPackedZ, hv]

example : E48.intToPackedZ (-1) = .error .other := by rfl
example : V4.intToArpaZ (-1) = .error .value := by rfl

/-- `int_to_bin` has NO sign test.  A negative int v is returned as `'-0b' + digits(|v|)`
    whenever `digits + 1 ≤ width` (`bin_val[2:]` of `'-0b101'` is `'b101'`), and raises
    IndexError otherwise; the returned text is never a valid `0b` literal: `valid_bin` is
    False and `bin_to_int` raises on it for every width — the decoder does not turn it into
    another value. -/
theorem intToBinZ_negative (v : Int) (hv : v < 0) (width : Nat) :
    ((Nat.toDigits 2 (-v).toNat).length + 1 ≤ width →
        intToBinZ v width = .ok ('-' :: '0' :: 'b' :: Nat.toDigits 2 (-v).toNat)) ∧
    (width < (Nat.toDigits 2 (-v).toNat).length + 1 → intToBinZ v width = .error .index) ∧
    (∀ t w, intToBinZ v width = .ok t → validBin t w = false ∧ binToInt t w = .error .value) := by
  have hb : pyBinZ v = '-' :: '0' :: 'b' :: Nat.toDigits 2 (-v).toNat := by simp [pyBinZ, hv, pyBin]
  refine ⟨?_, ?_, ?_⟩
  · intro h
    simp only [intToBinZ, hb, List.drop_succ_cons, List.drop_zero, List.length_cons]
    rw [if_neg (by omega)]
  · intro h
    simp only [intToBinZ, hb, List.drop_succ_cons, List.drop_zero, List.length_cons]
    rw [if_pos (by omega)]
  · intro t w h
    simp only [intToBinZ, hb] at h
    split at h
    · cases h
    · injection h with h
      subst h
      have : validBin ('-' :: '0' :: 'b' :: Nat.toDigits 2 (-v).toNat) w = false := by
        simp [validBin, List.isPrefixOf]
      exact ⟨this, by simp [binToInt, this]⟩

example : intToBinZ (-5) 32 = .ok "-0b101".toList := by rfl
example : intToBinZ (-5) 3 = .error .index := by rfl
example : binToInt "-0b101".toList 32 = .error .value := by rfl

/-! ## bits: every separator -/

/-- decoder ∘ encoder = id on bit strings, for every word size / word count and EVERY separator
    that is empty or contains at least one character other than '0' / '1' (any length) -/
theorem bits_roundtrip_anysep (v ws nw : Nat) (sep : List Char) (hv : v < 2 ^ (nw * ws)) (hw : 1 ≤ ws * nw)
    (hsep : sep = [] ∨ ∃ c ∈ sep, c ≠ '0' ∧ c ≠ '1') :
    ∃ s, intToBits v ws nw sep = .ok s ∧ bitsToInt s (ws * nw) sep = .ok (Int.ofNat v) := by
  have hp := pow_pos2 (nw * ws)
  have hwords : intToWords v ws nw = .ok (wordsLoop ws nw v).reverse := by
    simp only [intToWords]; rw [if_pos (by omega)]
  obtain ⟨words, h1, h2⟩ := (intToBits_spec v ws nw sep).1 hv
  rw [hwords] at h1
  have hw' : words = (wordsLoop ws nw v).reverse := by injection h1 with h; exact h.symm
  subst hw'
  refine ⟨_, h2, ?_⟩
  have hstrip := C15L.Sep.replaceDel_intercalate_any sep ((wordsLoop ws nw v).reverse.map (padBits ws))
    (by
      intro l hl c hc
      simp only [List.mem_map] at hl
      obtain ⟨w, _, rfl⟩ := hl
      exact padBits_01 ws w c hc)
    (by
      rcases hsep with h | ⟨c, hc, c0, c1⟩
      · exact Or.inl h
      · exact Or.inr ⟨c, hc, by simp [is01, c0, c1]⟩)
  rw [flatten_padBits_words] at hstrip
  have hv' : v < 2 ^ (ws * nw) := by rw [Nat.mul_comm]; exact hv
  have hshape := padBits_shape (ws * nw) v hv'
  have hspec := (bitsToInt_spec (sep.intercalate ((wordsLoop ws nw v).reverse.map (padBits ws))) (ws * nw) sep).1
  simp only [hstrip] at hspec
  rw [hspec ⟨hshape.1, hshape.2.1, hw⟩, hshape.2.2]

example : ∃ s, intToBits 0xC0000201 8 4 "::".toList = .ok s ∧ bitsToInt s 32 "::".toList = .ok 0xC0000201 :=
  bits_roundtrip_anysep _ 8 4 _ (by decide) (by decide) (Or.inr ⟨':', by decide, by decide, by decide⟩)
example : ∃ s, intToBits 5 2 2 "0.1".toList = .ok s ∧ bitsToInt s 4 "0.1".toList = .ok 5 :=
  bits_roundtrip_anysep _ 2 2 _ (by decide) (by decide) (Or.inr ⟨'.', by decide, by decide, by decide⟩)

/-- the hypothesis on the separator is needed: with a separator made of binary digits only,
    `bits.replace(sep, '')` also eats digits of the words, and `bits_to_int` of an encoder
    output can raise ValueError or return ANOTHER value (such separators are not used by any
    built-in dialect) -/
theorem bits_roundtrip_needs_nonbinary_sep :
    (intToBits 2 1 2 "1".toList = .ok "110".toList ∧ bitsToInt "110".toList 2 "1".toList = .error .value) ∧
    (intToBits 4 2 2 "010".toList = .ok "0101000".toList ∧ bitsToInt "0101000".toList 4 "010".toList = .ok 8) :=
  ⟨⟨rfl, rfl⟩, rfl, rfl⟩

/-! ## RFC 1924: the returned text -/

open NV.AddrParse in
/-- **`base85_to_ipv6(ipv6_to_base85(v))` as text.**  For every 128-bit value and either back
    end the decoder returns `str(IPAddress(v, 6))` — the compact text printed by the function
    property C01 is about —, which is an RFC 4291 text denoting v and which `IPAddress(text)`,
    `IPAddress(text, 6)` read back as (6, v) under every flags value. -/
theorem base85_roundtrip_text (be : AddrParse.Backend) (v : Nat) (hv : v < 2 ^ 128) :
    base85ToIpv6Text be (ipv6ToBase85 v) = .ok (intToStr be 6 v) ∧
    C01G.Rfc4291 (intToStr be 6 v) v ∧
    (∀ ver fl, ver = none ∨ ver = some 6 → ipAddress be (intToStr be 6 v) ver fl = .ok ⟨6, v⟩) := by
  have e : intToStr be 6 v = intToStr6 be .compact v := rfl
  refine ⟨?_, ?_, ?_⟩
  · simp only [base85ToIpv6Text, base85_roundtrip v hv]; rfl
  · rw [e]; exact C01.printed_is_rfc4291 be .compact v hv
  · intro ver fl hver
    rw [e]; exact C01.roundtrip6 be .compact v hv ver hver fl

example : base85ToIpv6Text .platform "4)+k&C#VzJ4br>0wv%Yp".toList = .ok "1080::8:800:200c:417a".toList := by rfl

open NV.AddrParse in
/-- `base85_to_ipv6` as text, all inputs: it raises exactly when the integer stage raises (wrong
    length, foreign character, numeral ≥ 2^128 — `base85_reject`), with the same error; and
    whatever text it returns is the compact RFC 4291 text of the numeral's positional value
    r < 2^128, read back by `IPAddress` as (6, r): never the text of another value. -/
theorem base85_text_spec (be : AddrParse.Backend) (s : List Char) :
    (∀ e, base85ToIpv6 s = .error e → base85ToIpv6Text be s = .error e) ∧
    (∀ t, base85ToIpv6Text be s = .ok t → ∃ r, s.length = 20 ∧ b85Sum s.reverse 0 0 = .ok r ∧ r < 2 ^ 128 ∧
        t = intToStr be 6 r ∧ C01G.Rfc4291 t r ∧
        (∀ ver fl, ver = none ∨ ver = some 6 → ipAddress be t ver fl = .ok ⟨6, r⟩)) := by
  constructor
  · intro e h; simp only [base85ToIpv6Text, h]; rfl
  · intro t h
    cases hr : base85ToIpv6 s with
    | error e => simp only [base85ToIpv6Text, hr] at h; cases h
    | ok r =>
      simp only [base85ToIpv6Text, hr] at h
      have ht : intToStr be 6 r = t := by injection h
      obtain ⟨h1, h2, h3⟩ := (base85_reject s).2.2.2 r hr
      have e : intToStr be 6 r = intToStr6 be .compact r := rfl
      subst ht
      exact ⟨r, h1, h2, h3, rfl, by rw [e]; exact C01.printed_is_rfc4291 be .compact r h3,
        fun ver fl hver => by rw [e]; exact C01.roundtrip6 be .compact r h3 ver hver fl⟩

/-- the back end (platform `inet_ntop` or `netaddr.fbsocket`) does not change the text -/
theorem base85_text_backend (s : List Char) :
    base85ToIpv6Text .fallback s = base85ToIpv6Text .platform s := by
  cases hr : base85ToIpv6 s with
  | error e => simp only [base85ToIpv6Text, hr]; rfl
  | ok r =>
    have h3 := ((base85_reject s).2.2.2 r hr).2.2
    simp only [base85ToIpv6Text, hr]
    show Except.ok (AddrParse.intToStr .fallback 6 r) = Except.ok (AddrParse.intToStr .platform 6 r)
    have : AddrParse.intToStr .fallback 6 r = AddrParse.intToStr .platform 6 r :=
      C01.fallback_eq_platform_print r h3
    rw [this]

end NV.C15
