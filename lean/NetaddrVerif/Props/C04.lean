/-
Props/C04.lean — property C04 "Containment and CIDR matching are exactly interval inclusion".
Property theorems only; helper lemmas are in Lemmas/C04L.lean and Lemmas/C04M.lean.

Statement (properties.jsonl): for every pair of same-or-different-kind objects, `x in y`
(x an address, network, range, glob or their string forms; y a network, range or glob) is
True exactly when both have the same IP version and y.first <= x.first and x.last <= y.last,
and it never raises for valid objects.  all_matching_cidrs returns exactly the candidate
networks that contain the address, ordered from least to most specific; largest_/
smallest_matching_cidr return the least / most specific of them, or None when there is none.

String operands are converted by `IPNetwork(other)` / `IPAddress(other)` before the same
code runs (C01/C03); an `IPGlob` is an `IPRange` (subclass, inherited `__contains__`).
-/
import NetaddrVerif.Lemmas.C04M
namespace NV.C04
open NV NV.Contains

/-- **C04, containment.**  For every container `y` (network with any host bits and any
    prefix, range, glob) and every operand `x` (address, network, range, glob) — all nine
    kind combinations, both through the class's own `__contains__` and through
    `IPListMixin.__contains__` — `x in y` is `True` exactly when both have the same IP version
    and `y.first <= x.first` and `x.last <= y.last`.  The model functions are total `Bool`
    functions without an error branch: the modelled code paths contain no `raise`, which is
    the "never raises for valid objects" part. -/
theorem contains_iff (y : Cont) (x : Obj) (hy : y.WF) (hx : x.WF) :
    (contains y x = true ↔ (x.ver = y.ver ∧ y.first ≤ x.first ∧ x.last ≤ y.last)) ∧
    (mixinContains y x = true ↔ (x.ver = y.ver ∧ y.first ≤ x.first ∧ x.last ≤ y.last)) := by
  refine ⟨?_, mixinContains_iff y x⟩
  cases y with
  | net n => exact netContains_iff n x hy hx
  | rng r => exact rngContains_iff r x hx

/-- non-vacuity: the F1 witness (network ending exactly at the range end) and its neighbours -/
example : contains (.rng ⟨4, 167772160, 167772415⟩) (.net ⟨4, 167772165, 24⟩) = true := by decide
example : contains (.rng ⟨4, 167772160, 167772414⟩) (.net ⟨4, 167772165, 24⟩) = false := by decide
example : contains (.net ⟨4, 167772165, 24⟩) (.rng ⟨4, 167772160, 167772415⟩) = true := by decide
example : contains (.net ⟨4, 167772165, 24⟩) (.rng ⟨4, 167772160, 167772416⟩) = false := by decide
example : contains (.net ⟨4, 167772165, 24⟩) (.net ⟨4, 167772165, 23⟩) = false := by decide
example : contains (.net ⟨6, 1, 128⟩) (.addr ⟨4, 1⟩) = false := by decide
example : (Cont.net ⟨4, 167772165, 24⟩).WF ∧ (Obj.rng ⟨4, 167772160, 167772415⟩).WF := by
  refine ⟨⟨Or.inl rfl, by decide, by decide⟩, ⟨Or.inl rfl, by decide, by decide⟩⟩


/-- the three per-class comparisons, each interval inclusion on its own -/
theorem netContains_iff (y : Net) (x : Obj) (hy : y.WF) (hx : x.WF) :
    netContains y x = true ↔ (x.ver = y.ver ∧ y.first ≤ x.first ∧ x.last ≤ y.last) :=
  Contains.netContains_iff y x hy hx
theorem rngContains_iff (y : Rng) (x : Obj) (hx : x.WF) :
    rngContains y x = true ↔ (x.ver = y.ver ∧ y.lo ≤ x.first ∧ x.last ≤ y.hi) :=
  Contains.rngContains_iff y x hx
theorem mixinContains_iff (y : Cont) (x : Obj) :
    mixinContains y x = true ↔ (x.ver = y.ver ∧ y.first ≤ x.first ∧ x.last ≤ y.last) :=
  Contains.mixinContains_iff y x

/-- `sorted()` by `sort_key` really sorts: the tuple order is a total preorder and the output
    is a pairwise-ordered permutation of the input (what the early exit relies on) -/
theorem sorted_spec (l : List Net) :
    (sortNets l).Perm l ∧ (sortNets l).Pairwise (fun a b => tupleLe a.sortKey b.sortKey = true) :=
  ⟨sortNets_perm l, sortNets_pairwise l⟩

/-- **The early `break` is sound**: the scan of `all_matching_cidrs` over the sorted
    candidates, with its early exit, returns exactly the sorted candidates that contain the
    address — for every finite candidate list in any order (nested, overlapping, disjoint,
    duplicated, mixed-version, with host bits). -/
theorem all_matching_eq_filter (ip : Addr) (cidrs : List Net) (hip : ip.WF) (hc : ∀ c ∈ cidrs, c.WF) :
    allMatching ip cidrs = (sortNets cidrs).filter (fun c => netContains c (.addr ip)) := by
  unfold allMatching
  rw [allLoop_eq ip hip (sortNets cidrs) [] (fun c h => hc c ((sortNets_perm cidrs).mem_iff.1 h))
    (sortNets_pairwise cidrs) (by intro m hm; simp at hm)]
  rfl

/-- **C04, matching.**  `all_matching_cidrs(ip, cidrs)`
    * contains a network exactly when it is a candidate of the address's version whose
      `[first, last]` contains the address,
    * with the multiplicity it has among the candidates (a permutation of the matching
      candidates),
    * ordered from least to most specific (prefix lengths non-decreasing; and in `sort_key`
      order). -/
theorem all_matching_spec (ip : Addr) (cidrs : List Net) (hip : ip.WF) (hc : ∀ c ∈ cidrs, c.WF) :
    (∀ c, c ∈ allMatching ip cidrs ↔ (c ∈ cidrs ∧ ip.ver = c.ver ∧ c.first ≤ ip.val ∧ ip.val ≤ c.last)) ∧
    (allMatching ip cidrs).Perm (cidrs.filter (fun c => netContains c (.addr ip))) ∧
    (allMatching ip cidrs).Pairwise (fun a b => a.plen ≤ b.plen) ∧
    (allMatching ip cidrs).Pairwise (fun a b => tupleLe a.sortKey b.sortKey = true) := by
  rw [all_matching_eq_filter ip cidrs hip hc]
  have hmem : ∀ c, c ∈ sortNets cidrs ↔ c ∈ cidrs := fun c => (sortNets_perm cidrs).mem_iff
  refine ⟨?_, (sortNets_perm cidrs).filter _, ?_, (sortNets_pairwise cidrs).filter _⟩
  · intro c
    rw [List.mem_filter, hmem]
    constructor
    · rintro ⟨h1, h2⟩; exact ⟨h1, (hit_iff ip c (hc c h1) hip).1 h2⟩
    · rintro ⟨h1, h2⟩; exact ⟨h1, (hit_iff ip c (hc c h1) hip).2 h2⟩
  · refine List.Pairwise.imp_of_mem ?_ ((sortNets_pairwise cidrs).filter _)
    intro a b ha hb hab
    rw [List.mem_filter, hmem] at ha hb
    exact plen_le_of_hits ip a b (hc a ha.1) (hc b hb.1) hip ha.2 hb.2 hab

/-- `largest_matching_cidr` is the first, `smallest_matching_cidr` the last element of
    `all_matching_cidrs` (hence the least / most specific matching candidate), and both are
    `None` exactly when no candidate contains the address. -/
theorem smallest_largest_spec (ip : Addr) (cidrs : List Net) (hip : ip.WF) (hc : ∀ c ∈ cidrs, c.WF) :
    largestMatching ip cidrs = (allMatching ip cidrs).head? ∧
    smallestMatching ip cidrs = (allMatching ip cidrs).getLast? ∧
    (largestMatching ip cidrs = none ↔ allMatching ip cidrs = []) ∧
    (smallestMatching ip cidrs = none ↔ allMatching ip cidrs = []) ∧
    (∀ m, largestMatching ip cidrs = some m → m ∈ allMatching ip cidrs ∧ ∀ c ∈ allMatching ip cidrs, m.plen ≤ c.plen) ∧
    (∀ m, smallestMatching ip cidrs = some m → m ∈ allMatching ip cidrs ∧ ∀ c ∈ allMatching ip cidrs, c.plen ≤ m.plen) := by
  have hl : largestMatching ip cidrs = (allMatching ip cidrs).head? := by
    rw [all_matching_eq_filter ip cidrs hip hc]; exact largeLoop_eq ip _
  have hs : smallestMatching ip cidrs = (allMatching ip cidrs).getLast? := by
    have := smallLoop_eq ip (sortNets cidrs) []
    simpa [smallestMatching, allMatching] using this
  have hp := (all_matching_spec ip cidrs hip hc).2.2.1
  refine ⟨hl, hs, ?_, ?_, ?_, ?_⟩
  · rw [hl]; exact List.head?_eq_none_iff
  · rw [hs]; exact List.getLast?_eq_none_iff
  · intro m hm
    rw [hl] at hm
    generalize allMatching ip cidrs = L at hm hp
    cases L with
    | nil => simp at hm
    | cons x xs =>
      simp only [List.head?_cons, Option.some.injEq] at hm
      subst hm
      rw [List.pairwise_cons] at hp
      refine ⟨List.mem_cons_self .., ?_⟩
      intro c hcm
      rcases List.mem_cons.1 hcm with rfl | h
      · exact Nat.le_refl _
      · exact hp.1 c h
  · intro m hm
    rw [hs] at hm
    generalize allMatching ip cidrs = L at hm hp
    obtain ⟨ys, rfl⟩ : ∃ ys, L = ys ++ [m] := by
      rcases List.eq_nil_or_concat L with rfl | ⟨ys, y, rfl⟩
      · simp at hm
      · rw [List.concat_eq_append, List.getLast?_concat] at hm
        cases hm; exact ⟨ys, by simp⟩
    rw [List.pairwise_append] at hp
    refine ⟨by simp, ?_⟩
    intro c hcm
    rcases List.mem_append.1 hcm with h | h
    · exact hp.2.2 c h m (by simp)
    · simp at h; subst h; exact Nat.le_refl _

/-- **The order of the candidates does not matter**: permuting (shuffling) the candidate list
    changes none of the three results (`sort_key` ties are equal objects, so `sorted()` of two
    permutations is the same list). -/
theorem order_invariant (ip : Addr) (cidrs cidrs' : List Net) (h : cidrs.Perm cidrs') :
    allMatching ip cidrs = allMatching ip cidrs' ∧
    smallestMatching ip cidrs = smallestMatching ip cidrs' ∧
    largestMatching ip cidrs = largestMatching ip cidrs' := by
  unfold allMatching smallestMatching largestMatching
  rw [sortNets_perm_eq cidrs cidrs' h]
  exact ⟨rfl, rfl, rfl⟩

/-- non-vacuity: the scan loops on a `sort_key`-ordered candidate list (nested chain, a
    non-matching sibling between and after the matches, another family last): the early exit
    fires at `10.0.1.0/24` and skips the IPv6 candidate (`sorted()` itself is well-founded
    recursion and does not unfold under `decide`; `sorted_spec` covers it) -/
example : allLoop ⟨4, 167772161⟩ [⟨4, 167772165, 8⟩, ⟨4, 167772160, 24⟩, ⟨4, 167772160, 32⟩, ⟨4, 167772161, 32⟩,
    ⟨4, 167772416, 24⟩, ⟨6, 1, 0⟩] [] = [⟨4, 167772165, 8⟩, ⟨4, 167772160, 24⟩, ⟨4, 167772161, 32⟩] := by decide
example : smallLoop ⟨4, 167772161⟩ [⟨4, 167772165, 8⟩, ⟨4, 167772160, 24⟩, ⟨4, 167772416, 24⟩] none =
    some ⟨4, 167772160, 24⟩ := by decide
example : largeLoop ⟨4, 167772161⟩ [⟨4, 167772165, 8⟩, ⟨4, 167772160, 24⟩, ⟨4, 167772416, 24⟩] =
    some ⟨4, 167772165, 8⟩ := by decide
example : largeLoop ⟨4, 5⟩ [⟨4, 167772416, 24⟩] = none := by decide
example : (⟨4, 167772161⟩ : Addr).WF ∧ ∀ c ∈ [(⟨4, 167772165, 8⟩ : Net), ⟨4, 167772160, 24⟩, ⟨6, 1, 0⟩], c.WF := by
  refine ⟨⟨Or.inl rfl, by decide⟩, ?_⟩
  intro c hc
  simp only [List.mem_cons, List.mem_nil_iff, or_false] at hc
  rcases hc with rfl | rfl | rfl
  · exact ⟨Or.inl rfl, by decide, by decide⟩
  · exact ⟨Or.inl rfl, by decide, by decide⟩
  · exact ⟨Or.inr rfl, by decide, by decide⟩

end NV.C04
