/-
Props/C04.lean — property C04 "Containment and CIDR matching are exactly interval inclusion".
Property theorems only; helper lemmas are in Lemmas/C04L.lean and Lemmas/C04M.lean.
-/
import NetaddrVerif.Lemmas.C04L
namespace NV.C04
open NV NV.Contains

/-- `IPNetwork.__contains__` (shift-compare; IPRange special case) is interval inclusion for
    every kind of operand. -/
theorem netContains_iff (y : Net) (x : Obj) (hy : y.WF) (hx : x.WF) :
    netContains y x = true ↔ (x.ver = y.ver ∧ y.first ≤ x.first ∧ x.last ≤ y.last) := by
  obtain ⟨_, hyv, hyp⟩ := hy
  unfold netContains
  by_cases hver : y.ver = x.ver
  · have hne : (y.ver != x.ver) = false := by simp [hver]
    rw [hne]
    simp only [Bool.false_eq_true, if_false]
    cases x with
    | addr a =>
      simp only [Obj.ver, Obj.first, Obj.last] at hver ⊢
      rw [beq_iff_eq, shr_eq_iff _ _ _ _ hyv]
      unfold Net.first Net.last; simp [hver]
    | rng r =>
      simp only [Obj.ver, Obj.first, Obj.last] at hver ⊢
      rw [Bool.and_eq_true, decide_eq_true_iff, decide_eq_true_iff, shr_shl, Nat.shiftRight_eq_div_pow,
        Nat.shiftLeft_eq]
      unfold Net.first Net.last
      rw [netFirst_eq _ _ _ hyv, netLast_eq]
      have hB := pw (width y.ver - y.plen)
      rw [Nat.add_mul, Nat.one_mul]
      simp only [hver, true_and]
      rw [← hver]
      omega
    | net n =>
      simp only [Obj.ver, Obj.first, Obj.last] at hver ⊢
      obtain ⟨_, hnv, hnp⟩ := hx
      rw [← hver] at hnv hnp
      rw [Bool.and_eq_true, beq_iff_eq, decide_eq_true_iff,
        net_in_net_iff _ _ _ _ _ hyv hnv hyp hnp]
      unfold Net.first Net.last
      simp [hver]
  · have hne : (y.ver != x.ver) = true := by simp [hver]
    rw [hne]; simp only [if_true]
    constructor
    · intro h; cases h
    · rintro ⟨h, _⟩; exact absurd h.symm hver

/-- `IPRange.__contains__` (and `IPGlob`, which inherits it) is interval inclusion for every
    kind of operand. -/
theorem rngContains_iff (y : Rng) (x : Obj) (hx : x.WF) :
    rngContains y x = true ↔ (x.ver = y.ver ∧ y.lo ≤ x.first ∧ x.last ≤ y.hi) := by
  unfold rngContains
  by_cases hver : y.ver = x.ver
  · have hne : (y.ver != x.ver) = false := by simp [hver]
    rw [hne]
    simp only [Bool.false_eq_true, if_false]
    cases x with
    | addr a =>
      simp only [Obj.ver, Obj.first, Obj.last] at hver ⊢
      rw [Bool.and_eq_true, decide_eq_true_iff, decide_eq_true_iff]
      simp [hver]
    | rng r =>
      simp only [Obj.ver, Obj.first, Obj.last] at hver ⊢
      rw [Bool.and_eq_true, decide_eq_true_iff, decide_eq_true_iff]
      simp [hver]
    | net n =>
      simp only [Obj.ver, Obj.first, Obj.last] at hver ⊢
      obtain ⟨_, hnv, hnp⟩ := hx
      rw [Bool.and_eq_true, decide_eq_true_iff, decide_eq_true_iff, shr_shl, Nat.shiftLeft_eq, Nat.one_mul]
      unfold Net.first Net.last
      rw [netFirst_eq _ _ _ hnv, netLast_eq]
      have hB := pw (width n.ver - n.plen)
      simp only [hver, true_and]
      omega
  · have hne : (y.ver != x.ver) = true := by simp [hver]
    rw [hne]; simp only [if_true]
    constructor
    · intro h; cases h
    · rintro ⟨h, _⟩; exact absurd h.symm hver

/-- `IPListMixin.__contains__` is interval inclusion for every kind of operand. -/
theorem mixinContains_iff (y : Cont) (x : Obj) :
    mixinContains y x = true ↔ (x.ver = y.ver ∧ y.first ≤ x.first ∧ x.last ≤ y.last) := by
  unfold mixinContains
  by_cases hver : y.ver = x.ver
  · have hne : (y.ver != x.ver) = false := by simp [hver]
    rw [hne]
    simp only [Bool.false_eq_true, if_false]
    cases x <;> simp [Obj.first, Obj.last, hver] <;> intro _ <;> exact decide_eq_true_iff
  · have hne : (y.ver != x.ver) = true := by simp [hver]
    rw [hne]; simp only [if_true]
    constructor
    · intro h; cases h
    · rintro ⟨h, _⟩; exact absurd h.symm hver

/-- **C04, containment.**  For every container `y` (network with any host bits and any
    prefix, range, glob) and every operand `x` (address, network, range, glob) — all nine
    kind combinations, both through the class's own `__contains__` and through
    `IPListMixin.__contains__` — `x in y` is `True` exactly when both have the same IP version
    and `y.first <= x.first` and `x.last <= y.last`.  The model functions are total `Bool`
    functions without an error branch: the modelled code paths contain no `raise`, which is
    the "never raises for valid objects" part. -/
theorem contains_iff (y : Cont) (x : Obj) (hy : y.WF) (hx : x.WF) :
    (contains y x = true ↔ (x.ver = y.ver ∧ y.first ≤ x.first ∧ x.last ≤ y.last)) ∧
    (mixinContains y x = true ↔ (x.ver = y.ver ∧ y.first ≤ x.first ∧ x.last ≤ y.last)) := by
  refine ⟨?_, mixinContains_iff y x⟩
  cases y with
  | net n => exact netContains_iff n x hy hx
  | rng r => exact rngContains_iff r x hx

/-- non-vacuity: the F1 witness (network ending exactly at the range end) and its neighbours -/
example : contains (.rng ⟨4, 167772160, 167772415⟩) (.net ⟨4, 167772165, 24⟩) = true := by decide
example : contains (.rng ⟨4, 167772160, 167772414⟩) (.net ⟨4, 167772165, 24⟩) = false := by decide
example : contains (.net ⟨4, 167772165, 24⟩) (.rng ⟨4, 167772160, 167772415⟩) = true := by decide
example : contains (.net ⟨4, 167772165, 24⟩) (.rng ⟨4, 167772160, 167772416⟩) = false := by decide
example : contains (.net ⟨4, 167772165, 24⟩) (.net ⟨4, 167772165, 23⟩) = false := by decide
example : contains (.net ⟨6, 1, 128⟩) (.addr ⟨4, 1⟩) = false := by decide
example : (Cont.net ⟨4, 167772165, 24⟩).WF ∧ (Obj.rng ⟨4, 167772160, 167772415⟩).WF := by
  refine ⟨⟨Or.inl rfl, by decide, by decide⟩, ⟨Or.inl rfl, by decide, by decide⟩⟩

end NV.C04
