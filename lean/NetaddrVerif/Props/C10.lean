import NetaddrVerif.Model.ListLike
namespace NV.C10
open NV NV.ListLike

theorem size_def (x : Ranged) : size x = (x.last : Int) - x.first + 1 := rfl

end NV.C10
