/-
Props/C10.lean — property C10 "Ranged objects behave exactly like the list of their addresses".
Property theorems only; the spec vocabulary (`listOf`, `pyIndex`, `pySlice`, `Ranged.WF`) and the
helper lemmas are in Lemmas/C10L.lean.

Statement (properties.jsonl): for every IPNetwork, IPRange and IPGlob, iteration yields every
address from first to last once, ascending; size (and len() when it fits in a machine word,
else IndexError) is last-first+1; x[i] returns what list(x)[i] would for every integer i,
raising IndexError exactly when the list would; for IPv4 x[a:b:c] yields exactly
list(x)[a:b:c] for every slice (IPv6 slicing raises TypeError).  iter_iprange(start, end, step)
yields start, start+step, ... while within the closed interval, for positive and negative steps.

The theorems are about `NV.ListLike.*`, the definitions the driver executes.  A ranged object
is `Ranged` (version, first, last); `ranged_of_network` / `ranged_of_range` show that every
well-formed IPNetwork (any host bits) and IPRange/IPGlob is a well-formed `Ranged`.
-/
import NetaddrVerif.Lemmas.C10L
namespace NV.C10
open NV NV.ListLike

/-- every well-formed network — any value, any prefix — is a well-formed ranged object whose
    list runs over its CIDR block -/
theorem ranged_of_network (n : Net) (h : n.WF) :
    (ofNet n).WF ∧ (ofNet n).first = n.val / 2 ^ (width n.ver - n.plen) * 2 ^ (width n.ver - n.plen) ∧
    (ofNet n).last = (ofNet n).first + (2 ^ (width n.ver - n.plen) - 1) := by
  refine ⟨ofNet_wf n h, netFirst_eq _ _ _ h.2.1, ?_⟩
  show netLast _ _ _ = netFirst _ _ _ + _
  rw [netLast_eq, netFirst_eq _ _ _ h.2.1]

/-- every IPRange / IPGlob `lo..hi` is a well-formed ranged object -/
theorem ranged_of_range (r : Rng) (hver : r.ver = 4 ∨ r.ver = 6) (hle : r.lo ≤ r.hi) (hmax : r.hi ≤ maxInt r.ver) :
    (ofRng r).WF ∧ (ofRng r).first = r.lo ∧ (ofRng r).last = r.hi := ⟨ofRng_wf r hver hle hmax, rfl, rfl⟩

example : (ofNet ⟨4, 0x0a000005, 29⟩).WF := ofNet_wf _ ⟨Or.inl rfl, by decide, by decide⟩
example : listOf (ofNet ⟨4, 0x0a000005, 30⟩) = [⟨4, 0x0a000004⟩, ⟨4, 0x0a000005⟩, ⟨4, 0x0a000006⟩, ⟨4, 0x0a000007⟩] := by decide

/-! ### iter_iprange -/

/-- `iter_iprange(start, end, step)` with `step > 0` yields exactly `start + step·i` for `i < n`,
    where `n` is the number of such values that are `≤ end` (all the first `n` are, the next one is
    not — so `n` is unique, and `n = 0` when `start > end`); every yielded value lies in
    `start..end`, hence inside the address space. -/
theorem iter_iprange_pos (a b : Addr) (step : Int) (ha : a.WF) (hb : b.WF) (hv : a.ver = b.ver) (hs : 0 < step) :
    ∃ n : Nat, iterIprange a b step =
        .ok ((List.range n).map (fun (i : Nat) => (⟨a.ver, ((a.val : Int) + step * i).toNat⟩ : Addr))) ∧
      (∀ i : Nat, i < n → (a.val : Int) + step * i ≤ b.val) ∧ (b.val : Int) < a.val + step * n := by
  have hbmax : (b.val : Int) ≤ (maxInt a.ver : Int) := by
    have := hb.2; rw [← hv] at this; unfold maxInt; omega
  obtain ⟨n, hn, hr, hall, hnext⟩ := iprLoop_pos a.ver b.val step ha.1 hs hbmax (iprFuel a b) (a.val - step) (by omega)
  have e : ∀ i : Int, (a.val : Int) - step + step + step * i = a.val + step * i := by intro i; omega
  simp only [e] at hr hall hnext
  refine ⟨n, ?_, hall, ?_⟩
  · unfold iterIprange iterIprangeF
    simp only [hv, ne_eq, not_true_eq_false, if_false, Int.ne_of_gt hs]
    have : decide (step < 0) = false := by simp; omega
    rw [this, ← hv]; exact hr
  · by_cases hlt : n < iprFuel a b
    · exact hnext hlt
    · -- the fuel `|end - start| + 1` cannot run out: `n` distinct values fit into `start..end`
      simp only [iprFuel] at hlt hn
      cases n with
      | zero => omega
      | succ m =>
        have h1 := hall m (by omega)
        have h2 : (m : Int) * 1 ≤ (m : Int) * step := Int.mul_le_mul_of_nonneg_left (by omega) (by omega)
        rw [Int.mul_comm (m : Int) step] at h2
        have e2 : step * ((m + 1 : Nat) : Int) = step * (m : Int) + step := by
          rw [Int.natCast_add, Int.mul_add]; simp
        rw [e2]
        omega

/-- `iter_iprange(start, end, step)` with `step < 0` yields exactly `start + step·i` for `i < n`,
    all `≥ end`, the next one being `< end` (`n = 0` when `start < end`); no yielded value is
    below `end ≥ 0`: the generator never steps below address 0. -/
theorem iter_iprange_neg (a b : Addr) (step : Int) (ha : a.WF) (_hb : b.WF) (hv : a.ver = b.ver) (hs : step < 0) :
    ∃ n : Nat, iterIprange a b step =
        .ok ((List.range n).map (fun (i : Nat) => (⟨a.ver, ((a.val : Int) + step * i).toNat⟩ : Addr))) ∧
      (∀ i : Nat, i < n → (b.val : Int) ≤ a.val + step * i) ∧ (a.val : Int) + step * n < b.val := by
  have hamax : (a.val : Int) ≤ (maxInt a.ver : Int) := by
    have := ha.2; unfold maxInt; omega
  obtain ⟨n, hn, hr, hall, hnext⟩ := iprLoop_neg a.ver b.val step ha.1 hs (by omega) (iprFuel a b) (a.val - step) (by omega)
  have e : ∀ i : Int, (a.val : Int) - step + step + step * i = a.val + step * i := by intro i; omega
  simp only [e] at hr hall hnext
  refine ⟨n, ?_, hall, ?_⟩
  · unfold iterIprange iterIprangeF
    simp only [hv, ne_eq, not_true_eq_false, if_false, Int.ne_of_lt hs]
    have : decide (step < 0) = true := by simp; omega
    rw [this, ← hv]; exact hr
  · by_cases hlt : n < iprFuel a b
    · exact hnext hlt
    · simp only [iprFuel] at hlt hn
      cases n with
      | zero => omega
      | succ m =>
        have h1 := hall m (by omega)
        have h2 : (m : Int) * 1 ≤ (m : Int) * (-step) := Int.mul_le_mul_of_nonneg_left (by omega) (by omega)
        rw [Int.mul_neg, Int.mul_comm (m : Int) step] at h2
        have e2 : step * ((m + 1 : Nat) : Int) = step * (m : Int) + step := by
          rw [Int.natCast_add, Int.mul_add]; simp
        rw [e2]
        omega

/-- closed form of the number of yielded addresses for a positive step:
    `(end - start) // step + 1` when `start ≤ end`, none otherwise -/
theorem iter_iprange_count_pos (a b : Addr) (step : Int) (ha : a.WF) (hb : b.WF) (hv : a.ver = b.ver) (hs : 0 < step) :
    ∃ l, iterIprange a b step = .ok l ∧
      l.length = if a.val ≤ b.val then (((b.val : Int) - a.val) / step).toNat + 1 else 0 := by
  obtain ⟨n, hr, hall, hnext⟩ := iter_iprange_pos a b step ha hb hv hs
  refine ⟨_, hr, ?_⟩
  rw [List.length_map, List.length_range]
  by_cases hle : a.val ≤ b.val
  · simp only [hle, if_true]
    cases n with
    | zero => simp at hnext; omega
    | succ m =>
      have h1 := hall m (by omega)
      have e2 : step * ((m + 1 : Nat) : Int) = step * (m : Int) + step := by
        rw [Int.natCast_add, Int.mul_add]; simp
      rw [e2] at hnext
      have hq1 : (m : Int) ≤ ((b.val : Int) - a.val) / step := by
        rw [Int.le_ediv_iff_mul_le hs, Int.mul_comm]; omega
      have hq2 : ((b.val : Int) - a.val) / step < (m : Int) + 1 := by
        rw [Int.ediv_lt_iff_lt_mul hs, Int.add_mul, Int.mul_comm]; omega
      omega
  · simp only [hle, if_false]
    cases n with
    | zero => rfl
    | succ m => have := hall 0 (by omega); simp at this; omega

/-- the generator never leaves the closed interval between `start` and `end` (in particular it
    never constructs an address below 0 or above `max_int`), and keeps the version -/
theorem iter_iprange_in_bounds (a b : Addr) (step : Int) (ha : a.WF) (hb : b.WF) (hv : a.ver = b.ver)
    (hs : step ≠ 0) :
    ∃ l, iterIprange a b step = .ok l ∧ ∀ y ∈ l, y.ver = a.ver ∧
      ((a.val ≤ y.val ∧ y.val ≤ b.val) ∨ (b.val ≤ y.val ∧ y.val ≤ a.val)) := by
  by_cases hp : 0 < step
  · obtain ⟨n, hr, hall, _⟩ := iter_iprange_pos a b step ha hb hv hp
    refine ⟨_, hr, ?_⟩
    intro y hy
    simp only [List.mem_map, List.mem_range] at hy
    obtain ⟨i, hi, rfl⟩ := hy
    have h1 := hall i hi
    have hnn : 0 ≤ step * (i : Int) := Int.mul_nonneg (by omega) (by omega)
    refine ⟨rfl, Or.inl ⟨?_, ?_⟩⟩ <;> simp only <;> omega
  · have hn : step < 0 := by omega
    obtain ⟨n, hr, hall, _⟩ := iter_iprange_neg a b step ha hb hv hn
    refine ⟨_, hr, ?_⟩
    intro y hy
    simp only [List.mem_map, List.mem_range] at hy
    obtain ⟨i, hi, rfl⟩ := hy
    have h1 := hall i hi
    have hnn : 0 ≤ (-step) * (i : Int) := Int.mul_nonneg (by omega) (by omega)
    rw [Int.neg_mul] at hnn
    refine ⟨rfl, Or.inr ⟨?_, ?_⟩⟩ <;> simp only <;> omega

/-- exactly these calls are rejected: different versions (TypeError), else a zero step (ValueError) -/
theorem iter_iprange_errors (a b : Addr) (step : Int) :
    (a.ver ≠ b.ver → iterIprange a b step = .error .type_) ∧
    (a.ver = b.ver → step = 0 → iterIprange a b step = .error .value) := by
  constructor
  · intro h; unfold iterIprange iterIprangeF; simp [h]
  · intro h h0; unfold iterIprange iterIprangeF; simp [h, h0]

example : iterIprange ⟨4, 10⟩ ⟨4, 0⟩ (-3) = .ok [⟨4, 10⟩, ⟨4, 7⟩, ⟨4, 4⟩, ⟨4, 1⟩] := by decide
example : iterIprange ⟨4, 4294967293⟩ ⟨4, 4294967295⟩ 2 = .ok [⟨4, 4294967293⟩, ⟨4, 4294967295⟩] := by decide

/-! ### iteration, size, len -/

/-- `iter(x)` observed for any number `fuel` of items yields the first `fuel` addresses of
    `first, first+1, …, last` (for all fuel) -/
theorem iter_prefix (x : Ranged) (h : x.WF) (fuel : Nat) : iterF fuel x = .ok ((listOf x).take fuel) := by
  have hmax : (x.last : Int) ≤ (maxInt x.ver : Int) := by have := h.max; omega
  have hle := h.le
  unfold iterF
  rw [mkAddr_ok x.ver x.first h.ver (by omega) (by omega), mkAddr_ok x.ver x.last h.ver (by omega) hmax]
  simp only [bind, Except.bind]
  unfold iterIprangeF
  simp only [ne_eq, not_true_eq_false, if_false, Int.toNat_natCast]
  have hd : decide ((1 : Int) < 0) = false := by decide
  obtain ⟨n, hn, hr, hall, hnext⟩ := iprLoop_pos x.ver x.last 1 h.ver (by decide) hmax fuel ((x.first : Int) - 1) (by omega)
  simp only [show ((1 : Int) = 0) = False from by simp, if_false, hd]
  rw [hr]
  congr 1
  unfold listOf
  rw [← List.map_take, List.take_range]
  have hnv : n = min fuel (x.last - x.first + 1) := by
    by_cases hlt : n < fuel
    · have := hnext hlt
      cases n with
      | zero => omega
      | succ m => have := hall m (by omega); omega
    · have hnf : n = fuel := by omega
      cases n with
      | zero => omega
      | succ m => have := hall m (by omega); omega
  rw [← hnv]
  apply List.map_congr_left
  intro i _
  congr 1
  omega

/-- iteration yields every address from first to last once, ascending -/
theorem iter_spec (x : Ranged) (h : x.WF) : iter x = .ok (listOf x) := by
  have hmax : (x.last : Int) ≤ (maxInt x.ver : Int) := by have := h.max; omega
  have hle := h.le
  have := iter_prefix x h (iprFuel ⟨x.ver, x.first⟩ ⟨x.ver, x.last⟩)
  unfold iterF at this
  unfold iter iterIprange
  rw [mkAddr_ok x.ver x.first h.ver (by omega) (by omega), mkAddr_ok x.ver x.last h.ver (by omega) hmax] at this ⊢
  simp only [bind, Except.bind, Int.toNat_natCast] at this ⊢
  rw [this, List.take_of_length_le]
  rw [length_listOf]; unfold iprFuel; simp only; omega

/-- the list is strictly ascending by one and runs from `first` to `last` -/
theorem listOf_shape (x : Ranged) :
    (listOf x).length = x.last - x.first + 1 ∧
    ∀ k, k < x.last - x.first + 1 → (listOf x)[k]? = some ⟨x.ver, x.first + k⟩ :=
  ⟨length_listOf x, getElem?_listOf x⟩

/-- `size` is `last - first + 1` = the length of the list; `len()` returns it when it is at most
    `sys.maxsize` and raises IndexError exactly otherwise -/
theorem size_len (x : Ranged) (h : x.WF) (maxsize : Nat) :
    size x = ((x.last - x.first + 1 : Nat) : Int) ∧ size x = ((listOf x).length : Int) ∧
    ((listOf x).length ≤ maxsize → len maxsize x = .ok ((listOf x).length : Int)) ∧
    (maxsize < (listOf x).length → len maxsize x = .error .index) := by
  have hs := size_eq x h
  have hl := length_listOf x
  refine ⟨by rw [hs, hl], hs, ?_, ?_⟩
  · intro hle; unfold len; simp only [hs]
    have : ¬ ((listOf x).length : Int) > (maxsize : Int) := by omega
    simp [this]
  · intro hlt; unfold len; simp only [hs]
    have : ((listOf x).length : Int) > (maxsize : Int) := by omega
    simp [this]

example : len (2 ^ 63 - 1) ⟨6, 0, 2 ^ 63 - 1⟩ = .error .index := by decide
example : len (2 ^ 63 - 1) ⟨6, 0, 2 ^ 63 - 2⟩ = .ok (2 ^ 63 - 1) := by decide

/-! ### integer indexing -/

/-- `x[i]` is `list(x)[i]` for every integer `i`, with Python's index semantics, including the
    IndexError set (`pyIndex` raises exactly for `i < -len` or `i ≥ len`) -/
theorem index_spec (x : Ranged) (h : x.WF) (i : Int) : getItemInt x i = pyIndex (listOf x) i := by
  have hmax : (x.last : Int) ≤ (maxInt x.ver : Int) := by have := h.max; omega
  have hle := h.le
  have hs := size_eq x h
  have hl := length_listOf x
  unfold getItemInt pyIndex
  rw [hs]
  by_cases hneg : -((listOf x).length : Int) ≤ i ∧ i < 0
  · have hnn : ¬ (0 ≤ i ∧ i < ((listOf x).length : Int)) := by omega
    simp only [hneg, and_self, if_true, hnn, if_false]
    rw [mkAddr_ok x.ver _ h.ver (by omega) (by omega)]
    have hk : (((listOf x).length : Int) + i).toNat < x.last - x.first + 1 := by omega
    rw [getElem?_listOf x _ hk]
    congr 2; omega
  · simp only [hneg, if_false]
    by_cases hpos : 0 ≤ i ∧ i < ((listOf x).length : Int)
    · have hpos' : 0 ≤ i ∧ i ≤ ((listOf x).length : Int) - 1 := by omega
      simp only [hpos, hpos', and_self, if_true]
      rw [mkAddr_ok x.ver _ h.ver (by omega) (by omega)]
      have hk : i.toNat < x.last - x.first + 1 := by omega
      rw [getElem?_listOf x _ hk]
      congr 2; omega
    · have hpos' : ¬ (0 ≤ i ∧ i ≤ ((listOf x).length : Int) - 1) := by omega
      simp only [hpos, hpos', if_false]

/-- the IndexError set, explicitly -/
theorem index_error_iff (x : Ranged) (h : x.WF) (i : Int) :
    getItemInt x i = .error .index ↔ (i < -((listOf x).length : Int) ∨ ((listOf x).length : Int) ≤ i) := by
  have hmax : (x.last : Int) ≤ (maxInt x.ver : Int) := by have := h.max; omega
  have hle := h.le
  have hs := size_eq x h
  have hl := length_listOf x
  unfold getItemInt
  rw [hs]
  by_cases hneg : -((listOf x).length : Int) ≤ i ∧ i < 0
  · simp only [hneg, and_self, if_true]
    rw [mkAddr_ok x.ver _ h.ver (by omega) (by omega)]
    constructor
    · intro hh; cases hh
    · intro hh; omega
  · simp only [hneg, if_false]
    by_cases hpos : 0 ≤ i ∧ i ≤ ((listOf x).length : Int) - 1
    · simp only [hpos, and_self, if_true]
      rw [mkAddr_ok x.ver _ h.ver (by omega) (by omega)]
      constructor
      · intro hh; cases hh
      · intro hh; omega
    · simp only [hpos, if_false, true_iff]; omega

example : getItemInt (ofNet ⟨4, 0, 29⟩) (-8) = .ok ⟨4, 0⟩ := by decide
example : getItemInt (ofNet ⟨4, 0, 29⟩) (-9) = .error .index := by decide
example : getItemInt (ofNet ⟨6, 0, 0⟩) (-1) = .ok ⟨6, 2 ^ 128 - 1⟩ := by decide

/-! ### slicing -/

/-- IPv4: `x[a:b:c]` yields exactly `list(x)[a:b:c]` for every slice — `None`, negative,
    over-long components and every non-zero step; a zero step raises ValueError on both sides -/
theorem slice_spec (x : Ranged) (h : x.WF) (h4 : x.ver = 4) (a b c : Option Int) :
    getItemSlice x a b c = pySlice (listOf x) a b c := by
  have hmax : (x.last : Int) ≤ (maxInt x.ver : Int) := by have := h.max; omega
  have hle := h.le
  have hs := size_eq x h
  have hl := length_listOf x
  unfold getItemSlice pySlice
  have h6 : ¬ x.ver = 6 := by omega
  simp only [h6, if_false]
  have hn : (size x).toNat = (listOf x).length := by rw [hs]; simp
  rw [hn]
  cases hsi : Py.sliceIndices a b c (listOf x).length with
  | none => rfl
  | some t =>
    obtain ⟨s, e, st⟩ := t
    have hin := sliceIdx_in_range a b c _ s e st hsi
    simp only
    unfold iterSlice
    rw [mapM_ok (fun offset => mkAddr x.ver ((x.first : Int) + offset))
        (fun offset => (⟨x.ver, ((x.first : Int) + offset).toNat⟩ : Addr))]
    · congr 1
      symm
      apply filterMap_all_some
      intro v hv
      obtain ⟨h0, h1⟩ := hin v hv
      simp only [h0, if_true]
      have hk : v.toNat < x.last - x.first + 1 := by omega
      rw [getElem?_listOf x _ hk]
      congr 2; omega
    · intro v hv
      obtain ⟨h0, h1⟩ := hin v hv
      exact mkAddr_ok x.ver _ h.ver (by omega) (by omega)

/-- no position is lost in `pySlice`: the positions taken are valid positions of the list, so the
    result has exactly one element per position of `range(*slice.indices(len))` -/
theorem slice_length (x : Ranged) (h : x.WF) (h4 : x.ver = 4) (a b c : Option Int) (s e st : Int)
    (hsi : Py.sliceIndices a b c (listOf x).length = some (s, e, st)) :
    ∃ l, getItemSlice x a b c = .ok l ∧ l.length = (Py.pyRange s e st).length ∧
      ∀ k (hk : k < (Py.pyRange s e st).length), l[k]? = (listOf x)[((Py.pyRange s e st)[k]).toNat]? ∧
        0 ≤ (Py.pyRange s e st)[k] ∧ (Py.pyRange s e st)[k] < (listOf x).length := by
  have hin := sliceIdx_in_range a b c _ s e st hsi
  rw [slice_spec x h h4]
  unfold pySlice
  rw [hsi]
  have hl := length_listOf x
  have hfm : (Py.pyRange s e st).filterMap (fun i => if 0 ≤ i then (listOf x)[i.toNat]? else none) =
      (Py.pyRange s e st).map (fun i => (⟨x.ver, x.first + i.toNat⟩ : Addr)) := by
    apply filterMap_all_some
    intro v hv
    obtain ⟨h0, h1⟩ := hin v hv
    simp only [h0, if_true]
    exact getElem?_listOf x _ (by omega)
  refine ⟨_, rfl, ?_, ?_⟩
  · rw [hfm, List.length_map]
  · intro k hk
    have hmem := hin _ (List.getElem_mem hk)
    refine ⟨?_, hmem.1, hmem.2⟩
    rw [hfm, List.getElem?_map, List.getElem?_eq_getElem hk]
    simp only [Option.map_some]
    rw [getElem?_listOf x _ (by omega)]

/-! #### sanity of the spec-level slice -/

/-- the spec-level slice means what Python means: `l[a:b]` for `0 ≤ a ≤ b ≤ len(l)` is
    `l` without its first `a` elements, cut to `b - a` elements -/
theorem pySlice_start_stop {α : Type} (l : List α) (a b : Nat) (hab : a ≤ b) (hb : b ≤ l.length) :
    pySlice l (some a) (some b) none = .ok ((l.drop a).take (b - a)) := by
  unfold pySlice Py.sliceIndices
  have h1 : ¬ ((a : Int) < 0) := by omega
  have h2 : ¬ ((b : Int) < 0) := by omega
  have h3 : ¬ ((a : Int) > (l.length : Int)) := by omega
  have h4 : ¬ ((b : Int) > (l.length : Int)) := by omega
  simp only [Option.getD_none, show ¬ ((1 : Int) = 0) by decide, if_false, show ¬ ((1 : Int) < 0) by decide, h1, h2, h3, h4]
  congr 1
  unfold Py.pyRange
  simp only [show (1 : Int) > 0 by decide, if_true]
  by_cases hge : (a : Int) ≥ (b : Int)
  · have : b - a = 0 := by omega
    simp [hge, this]
  · simp only [hge, if_false]
    have : ((b : Int) - a + 1 - 1) / 1 = ((b - a : Nat) : Int) := by rw [Int.ediv_one]; omega
    rw [this, Int.toNat_natCast]
    exact fm_drop_take l a (b - a)

/-- … and `l[::-1]` is the reversed list -/
theorem pySlice_reverse {α : Type} (l : List α) : pySlice l none none (some (-1)) = .ok l.reverse := by
  unfold pySlice Py.sliceIndices
  simp only [Option.getD_some, show ¬ ((-1 : Int) = 0) by decide, if_false, show ((-1 : Int) < 0) by decide, if_true]
  congr 1
  unfold Py.pyRange
  simp only [show ¬ ((-1 : Int) > 0) by decide, if_false, show ((-1 : Int) < 0) by decide, if_true]
  by_cases hle : (l.length : Int) - 1 ≤ -1
  · have : l.length = 0 := by omega
    have hl : l = [] := List.eq_nil_of_length_eq_zero this
    simp [hl]
  · simp only [hle, if_false]
    have : ((l.length : Int) - 1 - -1 + - -1 - 1) / - -1 = (l.length : Int) := by
      rw [show (- -1 : Int) = 1 by decide, Int.ediv_one]; omega
    rw [this, Int.toNat_natCast]
    exact fm_reverse l

/-- hence `x[a:b]` (IPv4, `0 ≤ a ≤ b ≤ size`) is the contiguous run of addresses
    `first+a … first+b-1`, and `x[::-1]` is the list of addresses descending -/
theorem slice_start_stop_reverse (x : Ranged) (h : x.WF) (h4 : x.ver = 4) (a b : Nat) (hab : a ≤ b)
    (hb : b ≤ (listOf x).length) :
    getItemSlice x (some a) (some b) none = .ok (((listOf x).drop a).take (b - a)) ∧
    getItemSlice x none none (some (-1)) = .ok (listOf x).reverse := by
  rw [slice_spec x h h4, slice_spec x h h4]
  exact ⟨pySlice_start_stop _ a b hab hb, pySlice_reverse _⟩

/-- a zero step is rejected with ValueError, as `list(x)[a:b:0]` is -/
theorem slice_zero_step (x : Ranged) (h4 : x.ver ≠ 6) (a b : Option Int) :
    getItemSlice x a b (some 0) = .error .value := by
  unfold getItemSlice Py.sliceIndices; simp [h4]

/-- IPv6 slicing raises TypeError, whatever the slice -/
theorem slice_v6 (x : Ranged) (h6 : x.ver = 6) (a b c : Option Int) : getItemSlice x a b c = .error .type_ := by
  unfold getItemSlice; simp [h6]

example : getItemSlice (ofNet ⟨4, 0x0a000000, 29⟩) none none (some 3) =
    .ok [⟨4, 0x0a000000⟩, ⟨4, 0x0a000003⟩, ⟨4, 0x0a000006⟩] := by decide
example : getItemSlice (ofNet ⟨4, 0x0a000000, 29⟩) (some 0) (some 0) none = .ok [] := by decide
example : getItemSlice (ofNet ⟨4, 0, 29⟩) none none (some (-3)) = .ok [⟨4, 7⟩, ⟨4, 4⟩, ⟨4, 1⟩] := by decide
example : pySlice [10, 11, 12, 13, 14] (some (-100)) (some 100) (some 2) = .ok [10, 12, 14] := by decide

end NV.C10
