/-
Props/C03b.lean — C03, second part: which network strings are accepted, and with what result.

`net_accepts_iff` characterises `IPNetwork(<str>, implicit_prefix, version, flags)` completely:
it builds the network `n` exactly when (after `cidr_abbrev_to_verbose` under implicit_prefix and
the split at the first '/') there is no second '/', the address part is accepted for the family
`n.ver` (strict `IPAddress(·, INET_PTON)`, or for IPv4 the partial expansion), the prefix part is
absent / a numeral / a netmask text / a hostmask text denoting `n.plen ≤ width`, and `n.val` is
the address value (host bits cleared under NOHOST); in every other case the constructor raises
AddrFormatError (`net_result`), ValueError only for a version other than None/4/6.

The remaining theorems are the property's spellings / round trip / bare / partial / classful /
rejection statements at the full quantifier: both flag values, both implicit_prefix values,
explicit and absent version, every octet spelling `int()` reads.
-/
import NetaddrVerif.Lemmas.C03LAcc
import NetaddrVerif.Lemmas.C03LAbbrev
namespace NV.C03
open NV NV.Text4 NV.AddrParse NV.NetParse NV.C01L NV.C03L NV.C03L.Acc NV.C03L.Abbrev

/-! ### the split at the first '/' -/

theorem splitSlash_of_contains (s : List Char) (h : s.contains '/' = true) :
    ∃ T, splitSlash s = ((splitSlash s).1, some T) ∧ s = (splitSlash s).1 ++ '/' :: T := by
  have hm : '/' ∈ s := List.contains_iff_mem.mp h
  unfold splitSlash
  simp only [h, if_true]
  refine ⟨(s.dropWhile (· != '/')).drop 1, rfl, ?_⟩
  have hd : ∃ r, s.dropWhile (· != '/') = '/' :: r := by
    clear h
    induction s with
    | nil => simp at hm
    | cons c t ih =>
      by_cases hc : c = '/'
      · subst hc; exact ⟨t, by simp⟩
      · have : (c != '/') = true := by simpa using hc
        rw [List.dropWhile_cons, if_pos this]
        rcases List.mem_cons.mp hm with e | e
        · exact absurd e.symm hc
        · exact ih e
  obtain ⟨r, hr⟩ := hd
  have := List.takeWhile_append_dropWhile (p := (· != '/')) (l := s)
  rw [hr] at this ⊢
  simpa using this.symm

/-- the text `parse_ip_network` splits: `cidr_abbrev_to_verbose(s)` under implicit_prefix, else `s` -/
def pre (i : Bool) (s : List Char) : List Char := if i then cidrAbbrevToVerbose s else s

/-- **`t` spells address value `a` with prefix `q` in family `ver`**: split at the first '/';
    no second '/'; the address part accepted with value `a`; the prefix part denotes `q ≤ width`. -/
def Spells (be : Backend) (ver : Nat) (t : List Char) (a q : Nat) : Prop :=
  secondSlash (splitSlash t).2 = false ∧ AddrPart be ver (splitSlash t).1 a ∧
    PrefixPart be ver (splitSlash t).2 (q : Int) ∧ q ≤ width ver

/-- the stored value: host bits cleared under NOHOST -/
def stored (ver fl a q : Nat) : Nat := if hasFlag fl NOHOST then a &&& netNetmask (width ver) q else a

theorem stored_eq (ver fl a q : Nat) (ha : a < 2 ^ width ver) (hq : q ≤ width ver) :
    stored ver fl a q = if hasFlag fl NOHOST then a / 2 ^ (width ver - q) * 2 ^ (width ver - q) else a := by
  unfold stored
  split
  · show a &&& ((2 ^ width ver - 1) ^^^ hostmaskInt (width ver) q) = _
    rw [hostmaskInt_eq]
    exact and_netmask (width ver) (width ver - q) a ha (by omega)
  · rfl

/-- `parse_ip_network` on a string, completely -/
theorem parse_accepts_iff (be : Backend) (ver : Nat) (hver : VerOK ver) (s : List Char) (i : Bool) (fl v p : Nat) :
    parseIpNetwork be ver (.str s) i fl = .ok (v, p) ↔
      ∃ a, Spells be ver (pre i s) a p ∧ v = stored ver fl a p := by
  have hfst := splitSlash_fst (pre i s)
  unfold Spells stored
  unfold parseIpNetwork
  simp only
  change (if secondSlash (splitSlash (pre i s)).2 = true then .error .addrFormat
    else parseStrCore be ver (splitSlash (pre i s)).1 (splitSlash (pre i s)).2 fl) = .ok (v, p) ↔ _
  by_cases hss : secondSlash (splitSlash (pre i s)).2 = true
  · rw [if_pos hss]
    constructor
    · intro h; cases h
    · rintro ⟨a, ⟨h, _⟩, _⟩; rw [hss] at h; cases h
  · have hss' : secondSlash (splitSlash (pre i s)).2 = false := by
      cases hh : secondSlash (splitSlash (pre i s)).2 with
      | true => exact absurd hh hss
      | false => rfl
    rw [if_neg hss, parseStrCore_iff be ver hver _ _ fl hfst]
    constructor
    · rintro ⟨a, q, hap, hpp, hq, rfl, rfl⟩
      exact ⟨a, ⟨hss', hap, hpp, hq⟩, rfl⟩
    · rintro ⟨a, ⟨_, hap, hpp, hq⟩, rfl⟩
      exact ⟨a, p, hap, hpp, hq, rfl, rfl⟩

/-- `IPNetwork.__init__` around one `parse_ip_network` call -/
def liftNet (ver : Nat) (r : R (Nat × Nat)) : R Net :=
  match r with
  | .ok (v, p) => .ok ⟨ver, v, p⟩
  | .error e => .error e

/-- explicit version 4 or 6: one `parse_ip_network` call -/
theorem ipNetwork_str_some (be : Backend) (s : List Char) (i : Bool) (ver : Nat) (hver : VerOK ver) (fl : Nat) :
    ipNetwork be (.str s) i (some ver) fl = liftNet ver (parseIpNetwork be ver (.str s) i fl) := by
  have hver' : ver = 4 ∨ ver = 6 := hver
  unfold ipNetwork liftNet
  simp only [if_pos hver']
  cases parseIpNetwork be ver (.str s) i fl <;> rfl

/-- no version: IPv4, and on AddrFormatError IPv6 -/
theorem ipNetwork_str_none (be : Backend) (s : List Char) (i : Bool) (fl : Nat) :
    ipNetwork be (.str s) i none fl =
      match parseIpNetwork be 4 (.str s) i fl with
      | .ok r => .ok ⟨4, r.1, r.2⟩
      | .error .addrFormat => liftNet 6 (parseIpNetwork be 6 (.str s) i fl)
      | .error e => .error e := by
  unfold ipNetwork liftNet
  simp only
  cases h4 : parseIpNetwork be 4 (.str s) i fl with
  | ok r => rfl
  | error e =>
    cases e <;> simp only <;> cases parseIpNetwork be 6 (.str s) i fl <;> rfl

theorem ipNetwork_tuple_some (be : Backend) (x y : Int) (i : Bool) (ver : Nat) (hver : VerOK ver) (fl : Nat) :
    ipNetwork be (.tuple x y) i (some ver) fl = liftNet ver (parseIpNetwork be ver (.tuple x y) i fl) := by
  have hver' : ver = 4 ∨ ver = 6 := hver
  unfold ipNetwork liftNet
  simp only [if_pos hver']
  cases parseIpNetwork be ver (.tuple x y) i fl <;> rfl

theorem ipNetwork_tuple_none (be : Backend) (x y : Int) (i : Bool) (fl : Nat) :
    ipNetwork be (.tuple x y) i none fl =
      match parseIpNetwork be 4 (.tuple x y) i fl with
      | .ok r => .ok ⟨4, r.1, r.2⟩
      | .error .addrFormat => liftNet 6 (parseIpNetwork be 6 (.tuple x y) i fl)
      | .error e => .error e := by
  unfold ipNetwork liftNet
  simp only
  cases h4 : parseIpNetwork be 4 (.tuple x y) i fl with
  | ok r => rfl
  | error e =>
    cases e <;> simp only <;> cases parseIpNetwork be 6 (.tuple x y) i fl <;> rfl

/-- **ValueError only for a bad version argument** (strings and tuples alike) -/
theorem bad_version_value (be : Backend) (arg : NetArg) (i : Bool) (ver fl : Nat) (h : ver ≠ 4 ∧ ver ≠ 6)
    (harg : (∃ s, arg = .str s) ∨ (∃ x y, arg = .tuple x y)) :
    ipNetwork be arg i (some ver) fl = .error .value := by
  have : ¬ (ver = 4 ∨ ver = 6) := by omega
  rcases harg with ⟨s, rfl⟩ | ⟨x, y, rfl⟩ <;> unfold ipNetwork <;> simp only [if_neg this]

/-- no text is accepted in both families -/
theorem spells_exclusive (be : Backend) (t : List Char) (a a' q q' : Nat) (h4 : Spells be 4 t a q) (h6 : Spells be 6 t a' q') :
    False := by
  have hfst := splitSlash_fst t
  have s4 := (addrPart4_iff be _ hfst a).mp h4.2.1
  have s6 := (addrPart6_iff be _ a').mp h6.2.1
  have hc := colon_of_strict6 be _ _ s6
  unfold addr4Spec at s4
  rw [List.contains_iff_mem.mpr hc] at s4
  simp at s4

/-- **Which network strings are accepted, and what they build.**  For a version argument
    None/4/6, any flags, implicit_prefix or not: `IPNetwork(s, …)` builds `n` exactly when the
    version argument is absent or `n.ver`, and the text (after `cidr_abbrev_to_verbose` under
    implicit_prefix) spells an address value `a` with prefix `n.plen` in family `n.ver`, and
    `n.val` is `a` (host bits cleared under NOHOST). -/
theorem net_accepts_iff (be : Backend) (s : List Char) (i : Bool) (pver : Option Nat) (fl : Nat) (n : Net)
    (hpver : pver = none ∨ pver = some 4 ∨ pver = some 6) :
    ipNetwork be (.str s) i pver fl = .ok n ↔
      (pver = none ∨ pver = some n.ver) ∧ VerOK n.ver ∧
        ∃ a, Spells be n.ver (pre i s) a n.plen ∧ n.val = stored n.ver fl a n.plen := by
  obtain ⟨nv, na, np⟩ := n
  simp only
  have one : ∀ ver, VerOK ver → (liftNet ver (parseIpNetwork be ver (.str s) i fl) = .ok ⟨nv, na, np⟩ ↔
      nv = ver ∧ ∃ a, Spells be ver (pre i s) a np ∧ na = stored ver fl a np) := by
    intro ver hver
    unfold liftNet
    cases hp : parseIpNetwork be ver (.str s) i fl with
    | error e =>
      simp only
      constructor
      · intro h; cases h
      · rintro ⟨_, a, hsp, hv⟩
        have := (parse_accepts_iff be ver hver s i fl na np).mpr ⟨a, hsp, hv⟩
        rw [hp] at this; cases this
    | ok r =>
      obtain ⟨v, p⟩ := r
      simp only [Except.ok.injEq, Net.mk.injEq]
      constructor
      · rintro ⟨r1, r2, r3⟩
        subst r1 r2 r3
        exact ⟨rfl, (parse_accepts_iff be ver hver s i fl v p).mp hp⟩
      · rintro ⟨r1, a, hsp, hv⟩
        have := (parse_accepts_iff be ver hver s i fl na np).mpr ⟨a, hsp, hv⟩
        rw [hp] at this
        simp only [Except.ok.injEq, Prod.mk.injEq] at this
        exact ⟨r1.symm, this.1, this.2⟩
  rcases hpver with r | r | r <;> subst r
  · -- detection: IPv4 first, then IPv6
    rw [ipNetwork_str_none]
    cases h4 : parseIpNetwork be 4 (.str s) i fl with
    | ok r4 =>
      have o4 := one 4 (Or.inl rfl)
      rw [h4] at o4
      obtain ⟨v4, p4⟩ := r4
      refine Iff.trans o4 ?_
      constructor
      · rintro ⟨r1, a, hsp, hv⟩; subst r1; exact ⟨Or.inl rfl, Or.inl rfl, a, hsp, hv⟩
      · rintro ⟨_, hv, a, hsp, hva⟩
        rcases hv with e | e <;> subst e
        · exact ⟨rfl, a, hsp, hva⟩
        · exfalso
          obtain ⟨a4, hsp4, _⟩ := (parse_accepts_iff be 4 (Or.inl rfl) s i fl v4 p4).mp h4
          exact spells_exclusive be _ _ _ _ _ hsp4 hsp
    | error e4 =>
      have := parse_err be 4 (Or.inl rfl) s i fl e4 h4
      subst this
      refine Iff.trans (one 6 (Or.inr rfl)) ?_
      constructor
      · rintro ⟨r1, a, hsp, hv⟩; subst r1; exact ⟨Or.inl rfl, Or.inr rfl, a, hsp, hv⟩
      · rintro ⟨_, hv, a, hsp, hva⟩
        rcases hv with e | e <;> subst e
        · exfalso
          have := (parse_accepts_iff be 4 (Or.inl rfl) s i fl na np).mpr ⟨a, hsp, hva⟩
          rw [h4] at this; cases this
        · exact ⟨rfl, a, hsp, hva⟩
  · rw [ipNetwork_str_some be s i 4 (Or.inl rfl), one 4 (Or.inl rfl)]
    constructor
    · rintro ⟨r1, a, hsp, hv⟩; subst r1; exact ⟨Or.inr rfl, Or.inl rfl, a, hsp, hv⟩
    · rintro ⟨hv, _, a, hsp, hva⟩
      rcases hv with e | e
      · cases e
      · simp only [Option.some.injEq] at e; subst e; exact ⟨rfl, a, hsp, hva⟩
  · rw [ipNetwork_str_some be s i 6 (Or.inr rfl), one 6 (Or.inr rfl)]
    constructor
    · rintro ⟨r1, a, hsp, hv⟩; subst r1; exact ⟨Or.inr rfl, Or.inr rfl, a, hsp, hv⟩
    · rintro ⟨hv, _, a, hsp, hva⟩
      rcases hv with e | e
      · cases e
      · simp only [Option.some.injEq] at e; subst e; exact ⟨rfl, a, hsp, hva⟩


/-- **Otherwise AddrFormatError.**  With a version argument None/4/6 the constructor raises
    AddrFormatError exactly when no network is spelled - it never raises another class and never
    builds a network the text does not spell. -/
theorem net_rejects_iff (be : Backend) (s : List Char) (i : Bool) (pver : Option Nat) (fl : Nat)
    (hpver : pver = none ∨ pver = some 4 ∨ pver = some 6) :
    ipNetwork be (.str s) i pver fl = .error .addrFormat ↔
      ∀ n : Net, ¬ ((pver = none ∨ pver = some n.ver) ∧ VerOK n.ver ∧
        ∃ a, Spells be n.ver (pre i s) a n.plen ∧ n.val = stored n.ver fl a n.plen) := by
  cases hr : ipNetwork be (.str s) i pver fl with
  | ok n =>
    constructor
    · intro h; cases h
    · intro h; exact absurd ((net_accepts_iff be s i pver fl n hpver).mp hr) (h n)
  | error e =>
    have := error_is_addrformat be s i pver fl e hpver hr
    subst this
    constructor
    · intro _ n hn
      have := (net_accepts_iff be s i pver fl n hpver).mpr hn
      rw [hr] at this; cases this
    · intro _; rfl

/-- the result of `IPNetwork(<str>)` is a spelled network or AddrFormatError -/
theorem net_result (be : Backend) (s : List Char) (i : Bool) (pver : Option Nat) (fl : Nat)
    (hpver : pver = none ∨ pver = some 4 ∨ pver = some 6) :
    (∃ n, ipNetwork be (.str s) i pver fl = .ok n ∧ VerOK n.ver ∧
        ∃ a, Spells be n.ver (pre i s) a n.plen ∧ n.val = stored n.ver fl a n.plen) ∨
      ipNetwork be (.str s) i pver fl = .error .addrFormat := by
  cases hr : ipNetwork be (.str s) i pver fl with
  | ok n => exact Or.inl ⟨n, rfl, ((net_accepts_iff be s i pver fl n hpver).mp hr).2⟩
  | error e => rw [error_is_addrformat be s i pver fl e hpver hr]; exact Or.inr rfl

/-- a spelled network, concretely: the partial address `10.1` with prefix numeral `16` -/
example : Spells .platform 4 "10.1/16".toList 0x0A010000 16 := by
  refine ⟨by decide, ?_, Or.inl (by decide), by decide⟩
  exact (addrPart4_iff .platform _ (by decide) _).mpr (by decide)


/-! ### an explicit prefix part wins over implicit_prefix=True -/

theorem parse_implicit (be : Backend) (ver : Nat) (s : List Char) (fl : Nat) :
    parseIpNetwork be ver (.str s) true fl = parseIpNetwork be ver (.str (cidrAbbrevToVerbose s)) false fl := by
  unfold parseIpNetwork; simp

theorem parse_split (be : Backend) (ver : Nat) (val1 T : List Char) (fl : Nat) (h1 : val1.contains '/' = false)
    (hT : T.contains '/' = false) :
    parseIpNetwork be ver (.str (val1 ++ '/' :: T)) false fl = parseStrCore be ver val1 (some T) fl := by
  unfold parseIpNetwork
  simp only [Bool.false_eq_true, if_false, splitSlash_app _ T h1, secondSlash, hT]

theorem parse_nosplit (be : Backend) (ver : Nat) (val1 : List Char) (fl : Nat) (h1 : val1.contains '/' = false) :
    parseIpNetwork be ver (.str val1) false fl = parseStrCore be ver val1 none fl := by
  unfold parseIpNetwork
  simp only [Bool.false_eq_true, if_false, splitSlash_none _ h1, secondSlash]

theorem explicit_wins_parse (be : Backend) (ver : Nat) (hver : VerOK ver) (s : List Char) (hs : s.contains '/' = true)
    (fl : Nat) : parseIpNetwork be ver (.str s) true fl = parseIpNetwork be ver (.str s) false fl := by
  rw [parse_implicit]
  rcases abbrev_slash s hs with h | ⟨T, hsp, ⟨q, hq⟩, hcol, hlen, hab⟩
  · rw [h]
  · obtain ⟨T', hsp', hseq⟩ := splitSlash_of_contains s hs
    have hfst := splitSlash_fst s
    generalize (splitSlash s).1 = val1 at *
    rw [hsp] at hsp'
    simp only [Prod.mk.injEq, Option.some.injEq, true_and] at hsp'
    subst hsp'
    have hT : T.contains '/' = false := contains_false_of_not_mem (pyInt_some_clean T q hq).2.2
    have hc1 : ':' ∉ val1 := fun hm => hcol (by rw [hseq]; exact List.mem_append_left _ hm)
    have hP : (['.'].intercalate (val1.splitOn '.' ++ List.replicate (4 - (val1.splitOn '.').length) ['0'])).contains '/' = false := by
      apply contains_false_of_not_mem
      intro hm
      rcases mem_padded val1 _ '/' hm with e | e | e
      · exact C01.not_mem_of_contains_false hfst e
      · exact absurd e (by decide)
      · exact absurd e (by decide)
    rw [hab, parse_split be ver _ T fl hP hT]
    conv => rhs; rw [hseq, parse_split be ver _ T fl hfst hT]
    rw [parseStrCore_eq, parseStrCore_eq, addrOf_pad be ver hver val1 hfst hc1 hlen]

/-- **An explicit prefix wins.**  Whatever text carries a '/' - address or partial address, with a
    numeral, netmask or hostmask after it, well-formed or not - `implicit_prefix=True` changes
    nothing: same network or same AddrFormatError, for every version argument and flags. -/
theorem explicit_prefix_wins (be : Backend) (s : List Char) (hs : s.contains '/' = true) (pver : Option Nat) (fl : Nat) :
    ipNetwork be (.str s) true pver fl = ipNetwork be (.str s) false pver fl := by
  cases pver with
  | none =>
    rw [ipNetwork_str_none, ipNetwork_str_none, explicit_wins_parse be 4 (Or.inl rfl) s hs,
      explicit_wins_parse be 6 (Or.inr rfl) s hs]
  | some ver =>
    by_cases hver : ver = 4 ∨ ver = 6
    · rw [ipNetwork_str_some be s true ver hver, ipNetwork_str_some be s false ver hver, explicit_wins_parse be ver hver s hs]
    · rw [bad_version_value be _ true ver fl (by omega) (Or.inl ⟨s, rfl⟩),
        bad_version_value be _ false ver fl (by omega) (Or.inl ⟨s, rfl⟩)]

example : ("010.1/255.255.0.0".toList).contains '/' = true := by decide

/-- a text with ':' (every IPv6 spelling) is left alone by `cidr_abbrev_to_verbose` -/
theorem implicit_ignored_colon (be : Backend) (s : List Char) (hs : ':' ∈ s) (pver : Option Nat) (fl : Nat) :
    ipNetwork be (.str s) true pver fl = ipNetwork be (.str s) false pver fl := by
  have hab : cidrAbbrevToVerbose s = s := by
    unfold cidrAbbrevToVerbose
    rw [List.contains_iff_mem.mpr hs]; rfl
  have hp : ∀ ver, parseIpNetwork be ver (.str s) true fl = parseIpNetwork be ver (.str s) false fl := by
    intro ver; rw [parse_implicit, hab]
  cases pver with
  | none => rw [ipNetwork_str_none, ipNetwork_str_none, hp 4, hp 6]
  | some ver =>
    by_cases hver : ver = 4 ∨ ver = 6
    · rw [ipNetwork_str_some be s true ver hver, ipNetwork_str_some be s false ver hver, hp ver]
    · rw [bad_version_value be _ true ver fl (by omega) (Or.inl ⟨s, rfl⟩),
        bad_version_value be _ false ver fl (by omega) (Or.inl ⟨s, rfl⟩)]


/-! ### all spellings, both flag values, both implicit_prefix values -/

/-- address text + '/' + a prefix text resolving to `q`: any flags, implicit_prefix or not -/
theorem net_with_prefix_all (be : Backend) (ver : Nat) (hver : VerOK ver) (v : Nat) (hv : v < 2 ^ width ver)
    (T : List Char) (q : Nat) (hT : T.contains '/' = false)
    (hres : resolvePrefix be ver (some T) = .ok (q : Int)) (hq : q ≤ width ver) (fl : Nat)
    (pver : Option Nat) (hpver : pver = none ∨ pver = some ver) (i : Bool) :
    ipNetwork be (.str (intToStr be ver v ++ '/' :: T)) i pver fl = .ok ⟨ver, stored ver fl v q, q⟩ := by
  cases i with
  | false => exact net_with_prefix be ver hver v hv T q hT hres hq fl pver hpver
  | true =>
    rw [explicit_prefix_wins be _ (by simp) pver fl]
    exact net_with_prefix be ver hver v hv T q hT hres hq fl pver hpver

theorem resolve_netmask_text (be : Backend) (ver : Nat) (hver : VerOK ver) (p : Nat) (hp : p ≤ width ver) :
    resolvePrefix be ver (some (intToStr be ver (netNetmask (width ver) p))) = .ok (p : Int) := by
  obtain ⟨hnm, _, _, _, _, _, _, _, _⟩ := mask_facts ver hver p hp
  exact (resolvePrefix_iff be ver hver _ _).mpr
    (Or.inr ⟨_, p, addr_rt be ver hver _ hnm, hp, rfl, Or.inl rfl⟩)

theorem hostmask_zero (w : Nat) : netHostmask w 0 = netNetmask w w := by
  unfold netHostmask netNetmask hostmaskInt
  simp [Nat.one_shiftLeft]

theorem hostmask_full (w : Nat) : netHostmask w w = netNetmask w 0 := by
  unfold netHostmask netNetmask hostmaskInt
  simp [Nat.one_shiftLeft]

/-- the hostmask text of `p` resolves to `p`, except that the all-ones / all-zeros texts are
    netmasks first -/
theorem resolve_hostmask_text (be : Backend) (ver : Nat) (hver : VerOK ver) (p : Nat) (hp : p ≤ width ver) :
    resolvePrefix be ver (some (intToStr be ver (netHostmask (width ver) p))) =
      .ok (((if p = 0 ∨ p = width ver then width ver - p else p : Nat)) : Int) := by
  obtain ⟨_, hhm, _, _, _, _, _, _, _⟩ := mask_facts ver hver p hp
  by_cases hpe : p = 0 ∨ p = width ver
  · rw [if_pos hpe]
    rcases hpe with e | e
    · subst e
      rw [hostmask_zero]
      simpa using resolve_netmask_text be ver hver (width ver) (Nat.le_refl _)
    · have : netHostmask (width ver) p = netNetmask (width ver) 0 := by rw [e]; exact hostmask_full _
      rw [this, e]
      simpa using resolve_netmask_text be ver hver 0 (Nat.zero_le _)
  · rw [if_neg hpe]
    exact (resolvePrefix_iff be ver hver _ _).mpr
      (Or.inr ⟨_, p, addr_rt be ver hver _ hhm, hp, rfl, Or.inr ⟨rfl, by omega, by omega⟩⟩)

/-- `(value, prefixlen)` fits the family -/
def Fits (ver : Nat) (x y : Int) : Prop := (0 ≤ x ∧ x ≤ (maxInt ver : Int)) ∧ (0 ≤ y ∧ y ≤ (width ver : Int))

instance (ver : Nat) (x y : Int) : Decidable (Fits ver x y) := by unfold Fits; infer_instance

/-- the tuple form of `parse_ip_network`, completely -/
theorem parse_tuple (be : Backend) (ver : Nat) (hver : VerOK ver) (x y : Int) (i : Bool) (fl : Nat) :
    parseIpNetwork be ver (.tuple x y) i fl =
      if Fits ver x y then .ok (stored ver fl x.toNat y.toNat, y.toNat) else .error .addrFormat := by
  unfold parseIpNetwork
  simp only
  by_cases h1 : 0 ≤ x ∧ x ≤ (maxInt ver : Int)
  · by_cases h2 : 0 ≤ y ∧ y ≤ (width ver : Int)
    · have hy : y.toNat ≤ width ver := by omega
      have hf : Fits ver x y := ⟨h1, h2⟩
      rw [if_neg (fun hn => hn h1), if_neg (fun hn => hn h2), if_pos hf, applyNohost_ok ver hver fl _ _ hy]
      rfl
    · have hf : ¬ Fits ver x y := fun h => h2 h.2
      rw [if_neg (fun hn => hn h1), if_pos h2, if_neg hf]
  · have hf : ¬ Fits ver x y := fun h => h1 h.1
    rw [if_pos h1, if_neg hf]

/-- **Tuples, completely** (any integers, any flags, implicit_prefix ignored): with an explicit
    version the tuple must fit that family; without one it is IPv4 when value and prefix fit
    IPv4, else IPv6 when they fit IPv6; the stored value has its host bits cleared under NOHOST;
    everything else - negative or too large value or prefix - is AddrFormatError. -/
theorem tuple_all (be : Backend) (x y : Int) (i : Bool) (fl : Nat) :
    (∀ ver, VerOK ver → ipNetwork be (.tuple x y) i (some ver) fl =
      if Fits ver x y then .ok ⟨ver, stored ver fl x.toNat y.toNat, y.toNat⟩ else .error .addrFormat) ∧
    ipNetwork be (.tuple x y) i none fl =
      (if Fits 4 x y then .ok ⟨4, stored 4 fl x.toNat y.toNat, y.toNat⟩
       else if Fits 6 x y then .ok ⟨6, stored 6 fl x.toNat y.toNat, y.toNat⟩
       else .error .addrFormat) := by
  constructor
  · intro ver hver
    rw [ipNetwork_tuple_some be x y i ver hver fl, parse_tuple be ver hver]
    unfold liftNet
    by_cases hf : Fits ver x y
    · rw [if_pos hf, if_pos hf]
    · rw [if_neg hf, if_neg hf]
  · rw [ipNetwork_tuple_none, parse_tuple be 4 (Or.inl rfl), parse_tuple be 6 (Or.inr rfl)]
    unfold liftNet
    by_cases h4 : Fits 4 x y
    · rw [if_pos h4, if_pos h4]
    · rw [if_neg h4, if_neg h4]
      by_cases h6 : Fits 6 x y
      · rw [if_pos h6, if_pos h6]
      · rw [if_neg h6, if_neg h6]

example : Fits 6 (2 ^ 32) 3 ∧ ¬ Fits 4 (2 ^ 32) 3 ∧ ¬ Fits 6 (-1) 3 ∧ ¬ Fits 6 5 129 := by decide

/-- a tuple that fits no family (negative or oversized value or prefix) is AddrFormatError
    also without a version argument -/
theorem tuple_rejects_implicit (be : Backend) (x y : Int) (i : Bool) (fl : Nat)
    (h : ¬ ((0 ≤ x ∧ x < 2 ^ 128) ∧ (0 ≤ y ∧ y ≤ 128))) :
    ipNetwork be (.tuple x y) i none fl = .error .addrFormat := by
  have m4 : (maxInt 4 : Int) = 4294967295 := by decide
  have m6 : (maxInt 6 : Int) = 340282366920938463463374607431768211455 := by decide
  have w4 : (width 4 : Int) = 32 := rfl
  have w6 : (width 6 : Int) = 128 := rfl
  rw [(tuple_all be x y i fl).2]
  have h4 : ¬ Fits 4 x y := by unfold Fits; rw [m4, w4]; omega
  have h6 : ¬ Fits 6 x y := by unfold Fits; rw [m6, w6]; omega
  rw [if_neg h4, if_neg h6]

/-- **All spellings agree, at the full quantifier.**  Every family, value, prefix; flags 0 or
    NOHOST (any flags word); implicit_prefix False or True; explicit or detected version:
    'a/p', 'a/<netmask of p>', 'a/<hostmask of p>' and the tuple build `⟨ver, stored v, p⟩`
    where `stored` is `v` itself, or `v` with exactly the host bits cleared under NOHOST - the
    same in every spelling (hostmask spelling at p ∈ {0, width}: netmask precedence).  Copy
    construction returns the source unchanged: the code does not look at `flags` there. -/
theorem spellings_agree_all (be : Backend) (ver : Nat) (hver : VerOK ver) (v : Nat) (hv : v < 2 ^ width ver)
    (p : Nat) (hp : p ≤ width ver) (pver : Option Nat) (hpver : pver = none ∨ pver = some ver) (fl : Nat) (i : Bool) :
    let a := intToStr be ver v
    let w := width ver
    let p' := if p = 0 ∨ p = w then w - p else p
    ipNetwork be (.str (a ++ '/' :: dec p)) i pver fl = .ok ⟨ver, stored ver fl v p, p⟩ ∧
    ipNetwork be (.str (a ++ '/' :: intToStr be ver (netNetmask w p))) i pver fl = .ok ⟨ver, stored ver fl v p, p⟩ ∧
    ipNetwork be (.str (a ++ '/' :: intToStr be ver (netHostmask w p))) i pver fl = .ok ⟨ver, stored ver fl v p', p'⟩ ∧
    ipNetwork be (.tuple v p) i (some ver) fl = .ok ⟨ver, stored ver fl v p, p⟩ ∧
    ipNetwork be (.copyNet ⟨ver, v, p⟩) i pver fl = .ok ⟨ver, v, p⟩ := by
  intro a w p'
  obtain ⟨hnm, hhm, _, _, _, _, _, _, _⟩ := mask_facts ver hver p hp
  refine ⟨?_, ?_, ?_, ?_, rfl⟩
  · exact net_with_prefix_all be ver hver v hv (dec p) p (slash_not_in_dec p) (resolve_dec be ver p) hp fl pver hpver i
  · exact net_with_prefix_all be ver hver v hv _ p (addr_noslash be ver hver _ hnm) (resolve_netmask_text be ver hver p hp)
      hp fl pver hpver i
  · have hp' : p' ≤ width ver := by
      show (if p = 0 ∨ p = width ver then width ver - p else p) ≤ width ver
      split <;> omega
    exact net_with_prefix_all be ver hver v hv _ p' (addr_noslash be ver hver _ hhm) (resolve_hostmask_text be ver hver p hp)
      hp' fl pver hpver i
  · have hfit : Fits ver (v : Int) (p : Int) := by
      have : v ≤ maxInt ver := by unfold maxInt; omega
      unfold Fits; omega
    rw [(tuple_all be v p i fl).1 ver hver, if_pos hfit]
    simp

example : stored 4 NOHOST 0xC0A80105 24 = 0xC0A80100 ∧ stored 4 0 0xC0A80105 24 = 0xC0A80105 := by decide

/-- **NOHOST clears exactly the host bits, in every spelling**: the stored value of each string /
    tuple spelling under NOHOST is `v / 2^(w-p) * 2^(w-p)` -/
theorem nohost_every_spelling (ver : Nat) (v : Nat) (hv : v < 2 ^ width ver)
    (p : Nat) (hp : p ≤ width ver) : stored ver NOHOST v p = v / 2 ^ (width ver - p) * 2 ^ (width ver - p) ∧
      stored ver 0 v p = v := by
  rw [stored_eq ver NOHOST v p hv hp, stored_eq ver 0 v p hv hp]
  exact ⟨by rw [if_pos (by decide)], by rw [if_neg (by decide)]⟩

/-- **str() round trip, every flags / implicit_prefix**: `IPNetwork(str(n), …)` is `n` again -
    with `n`'s host bits cleared exactly when NOHOST is given -/
theorem str_roundtrip_all (be : Backend) (n : Net) (hn : n.WF) (pver : Option Nat) (hpver : pver = none ∨ pver = some n.ver)
    (fl : Nat) (i : Bool) :
    ipNetwork be (.str (netStr be n)) i pver fl = .ok ⟨n.ver, stored n.ver fl n.val n.plen, n.plen⟩ := by
  obtain ⟨hver, hv, hp⟩ := hn
  have := (spellings_agree_all be n.ver hver n.val hv n.plen hp pver hpver fl i).1
  unfold netStr
  rw [List.append_assoc]
  exact this

/-- copy construction ignores flags and implicit_prefix -/
theorem copies_ignore_flags (be : Backend) (n : Net) (a : Addr) (i : Bool) (pver : Option Nat) (fl : Nat) :
    ipNetwork be (.copyNet n) i pver fl = .ok n ∧
    ipNetwork be (.copyAddr a) i pver fl = .ok ⟨a.ver, a.val, width a.ver⟩ := ⟨rfl, rfl⟩

end NV.C03
