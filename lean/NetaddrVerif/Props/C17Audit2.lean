/-
Props/C17Audit2.lean — property C17 (nmap part), additions closing audit round 2b finding 2.

`iter_nmap_range` (nmap.py:99-113) is a generator: nothing of its body — not even the parse of
the first target spec — runs before the first `next()`, and `itertools.islice(gen, 0)` never
calls `next()`.  So `list(islice(iter_nmap_range('bad'), 0)) == []`.  `Nmap.iterNmapRange F fuel`
is the generator advanced at least once (`fuel ≥ 1`); the theorems of Props/C17.lean and
Props/C17Nmap.lean that assert an exception (or equate the result with the parse phase) now
carry `0 < fuel`.  Here: the function for every `fuel`, `Nmap.isliceNmapRange` (driver op
`nmap_take`, which the harness also sends with `fuel = 0`), and its relation to
`iterNmapRange`, to the parse phase and to the whole-call model `isliceNmapRanges`.
-/
import NetaddrVerif.Props.C17Nmap
namespace NV.C17A2
open NV NV.Nmap NV.C17 NV.C17L.Plan

/-- **Nothing asked, nothing run**: with `fuel = 0` the answer is `[]` and no exception, whatever
    the spec(s) — malformed ones included, for one spec and for any argument list -/
theorem nmap_take_zero (F : Foreign) (spec : List Char) (specs : List (List Char)) :
    isliceNmapRange F 0 spec = .ok [] ∧ isliceNmapRanges F 0 specs = ([], none) := by
  refine ⟨rfl, ?_⟩
  cases specs with
  | nil => rfl
  | cons s r => simp [isliceNmapRanges]

/-- from the first item on it is `iterNmapRange`, about which C17 / C17Nmap speak -/
theorem nmap_take_pos (F : Foreign) (fuel : Nat) (hf : 0 < fuel) (spec : List Char) :
    isliceNmapRange F fuel spec = iterNmapRange F fuel spec := by
  unfold isliceNmapRange; rw [if_neg (by omega)]

/-- **Errors at the first `next()`, not before** (the statement of `C17.nmap_errors_in_parse` for
    every `fuel`): no items asked — `[]`; otherwise an error exactly when the parse phase fails,
    with that error, else the first `fuel` items of the plan -/
theorem nmap_take_errors (F : Foreign) (fuel : Nat) (spec : List Char) :
    isliceNmapRange F fuel spec =
      if fuel = 0 then .ok [] else (parsePlan F spec).map (Plan.items fuel) := by
  unfold isliceNmapRange
  split
  · rfl
  · exact parseTargetSpec_eq_plan F fuel spec

/-- the one-spec function is the whole-call model `isliceNmapRanges` on a one-element argument
    list, for every `fuel` (so the driver ops `nmap_take` and `nmap_islice` agree) -/
theorem nmap_take_eq_islice (F : Foreign) (fuel : Nat) (s : List Char) :
    isliceNmapRanges F fuel [s] =
      match isliceNmapRange F fuel s with
      | .ok l => (l, none)
      | .error e => ([], some e) := by
  rw [nmap_take_errors]
  by_cases h0 : fuel = 0
  · subst h0; simp [isliceNmapRanges]
  · rw [if_neg h0]
    cases hp : parsePlan F s with
    | error e => simp [isliceNmapRanges, h0, hp, Except.map]
    | ok p => simp [isliceNmapRanges, h0, hp, Except.map]

/-- a malformed spec: an exception from one item on, none at zero -/
example : isliceNmapRange (realForeign .platform) 0 "1.2.3".toList = .ok [] ∧
    isliceNmapRange (realForeign .platform) 1 "1.2.3".toList = .error .addrFormat ∧
    isliceNmapRange (realForeign .platform) 0 "10.0.0.0/33".toList = .ok [] ∧
    isliceNmapRange (realForeign .platform) 2 "10.0.0.0/33".toList = .error .addrFormat ∧
    isliceNmapRange (realForeign .platform) 2 "10.0.0.0/31".toList = .ok [⟨4, 167772160⟩, ⟨4, 167772161⟩] ∧
    isliceNmapRanges (realForeign .platform) 0 ["x/y".toList, "::".toList] = ([], none) := by
  decide +kernel

end NV.C17A2
