/-
Props/C14Deep.lean — property C14, second layer (closes three audit gaps of Props/C14.lean; the
theorems there are kept unchanged).

1. Shifts for EVERY right operand.  `Props/C14.lean` states `a << n`, `a >> n` for `n : Nat`.
   Here the count is any `Int` (negative: Python's `ValueError: negative shift count`, raised by
   `int.__lshift__` before the constructor is reached) or an IPAddress (`TypeError`: `int` does not
   accept it and `IPAddress` has no reflected shift), and the reflected spellings `n << a`,
   `n >> a` are covered (always `TypeError`).  `operators_exact_all` restates `operators_exact`
   over that full family.
2. `a += n` / `a -= n` as the statements the Python writes (Model/Address.lean,
   `Address.Inplace`): compute, test `0 <=`, test `<= max_int`, assign, return / raise — with an
   event log in which an early assignment would show.  The run is proved equal to the
   functional model (`stepInplace`/`iadd`/`isub`) and the receiver is proved to be written only
   after both tests passed, exactly once, with the exact value; never on a failing path.
3. `hex(a)` is exactly `"0x"` + the lowercase hexadecimal digits of the value without leading
   zeros (`"0x0"` for zero) — as an equation with an independently written digit function,
   plus the characterisation that makes that function unambiguous (alphabet, no leading zero,
   length, value, uniqueness).
-/
import NetaddrVerif.Props.C14
import NetaddrVerif.Lemmas.C14LShift
import NetaddrVerif.Lemmas.C14LInplace
import NetaddrVerif.Lemmas.C14LHex
namespace NV.C14
open NV NV.Address

/-! ### 1. shifts with any operand -/

/-- `a << x` for every operand: an address as the count is TypeError, a negative count is
    ValueError, otherwise `a · 2^n` exact or AddrFormatError — never wrapped -/
theorem lshift_exact (a : Addr) (x : Operand) (h : a.WF) :
    lshift a x =
      match x with
      | .addr _ => .error .type_
      | .int n =>
        if n < 0 then .error .value
        else checked a.ver (((a.val * 2 ^ n.toNat : Nat)) : Int) .addrFormat := by
  rw [C14L.Shift.lshift_spec a x h]
  cases x <;> rfl

/-- `a >> x` for every operand: TypeError / ValueError as for `<<`, otherwise `⌊a / 2^n⌋`,
    which always fits -/
theorem rshift_exact (a : Addr) (x : Operand) (h : a.WF) :
    rshift a x =
      match x with
      | .addr _ => .error .type_
      | .int n =>
        if n < 0 then .error .value else .ok ⟨a.ver, a.val / 2 ^ n.toNat⟩ := by
  cases x with
  | addr b => rfl
  | int n =>
    by_cases hn : n < 0
    · simp only [if_pos hn, rshift, pyShr]; rfl
    · simp only [if_neg hn]; exact C14L.Shift.rshift_ok a n h (by omega)

/-- the `n ≥ 0` operators of `Props/C14.lean` are the int case of these (so `shl_exact`,
    `shr_exact`, `operators_exact` speak about what the driver now runs) -/
theorem shift_nat (a : Addr) (n : Nat) :
    lshift a (.int (n : Int)) = shl a n ∧ rshift a (.int (n : Int)) = shr a n :=
  ⟨C14L.Shift.lshift_nat a n, C14L.Shift.rshift_nat a n⟩

/-- a left shift by `width` or more: zero stays zero, everything else is AddrFormatError -/
theorem lshift_wide (a : Addr) (n : Int) (h : a.WF) (hn : (width a.ver : Int) ≤ n) :
    lshift a (.int n) = if a.val = 0 then .ok ⟨a.ver, 0⟩ else .error .addrFormat :=
  C14L.Shift.lshift_wide a n h hn

/-- `n << a`, `n >> a` (the address on the right of an int): always TypeError -/
theorem reflected_shift (a : Addr) (n : Int) :
    rlshift a n = .error .type_ ∧ rrshift a n = .error .type_ := ⟨rfl, rfl⟩

example : lshift ⟨4, 5⟩ (.int (-1)) = .error .value ∧ rshift ⟨6, 5⟩ (.int (-1)) = .error .value ∧
    lshift ⟨4, 5⟩ (.addr ⟨4, 2⟩) = .error .type_ ∧ rshift ⟨4, 5⟩ (.addr ⟨6, 0⟩) = .error .type_ ∧
    lshift ⟨4, 0⟩ (.int (-1)) = .error .value ∧
    lshift ⟨4, 5⟩ (.int 1) = .ok ⟨4, 10⟩ ∧ lshift ⟨4, 5⟩ (.int 30) = .error .addrFormat ∧
    rshift ⟨4, 5⟩ (.int 1) = .ok ⟨4, 2⟩ ∧ lshift ⟨6, 0⟩ (.int 1000) = .ok ⟨6, 0⟩ := by decide

/-- the full operator family: the eleven forms of `Op` (counts `≥ 0`), the two shifts with an
    arbitrary right operand, and the two reflected shifts -/
inductive OpZ where
  | base (op : Op)
  | lshift (x : Operand) | rshift (x : Operand)
  | rlshift (n : Int) | rrshift (n : Int)

def OpZ.run (a : Addr) : OpZ → R Addr
  | .base op => op.run a
  | .lshift x => Address.lshift a x | .rshift x => Address.rshift a x
  | .rlshift n => Address.rlshift a n | .rrshift n => Address.rrshift a n

/-- the mathematical result, or the reason there is none: a negative shift count (ValueError),
    an address where a shift count / an int to be shifted is needed (TypeError) -/
def OpZ.denote (a : Addr) : OpZ → Except Err Int
  | .base op => .ok (op.exact a)
  | .lshift (.int n) => if n < 0 then .error .value else .ok ((a.val * 2 ^ n.toNat : Nat) : Int)
  | .rshift (.int n) => if n < 0 then .error .value else .ok ((a.val / 2 ^ n.toNat : Nat) : Int)
  | .lshift (.addr _) | .rshift (.addr _) | .rlshift _ | .rrshift _ => .error .type_

/-- the range error of each form -/
def OpZ.err : OpZ → Err
  | .base op => op.err
  | _ => .addrFormat

/-- **C14, operators, all integer shift counts and all operand kinds.**  Every form on every
    well-formed address: the operand-kind / sign error where there is no mathematical result,
    otherwise exactly `checked` of the mathematical result. -/
theorem operators_exact_all (a : Addr) (op : OpZ) (h : a.WF) :
    op.run a =
      match op.denote a with
      | .error e => .error e
      | .ok x => checked a.ver x op.err := by
  cases op with
  | base op => exact operators_exact a op h
  | lshift x =>
    show Address.lshift a x = _
    rw [lshift_exact a x h]
    cases x with
    | addr b => rfl
    | int n => simp only [OpZ.denote, OpZ.err]; split <;> rfl
  | rshift x =>
    show Address.rshift a x = _
    rw [C14L.Shift.rshift_spec a x h]
    cases x with
    | addr b => rfl
    | int n =>
      simp only [OpZ.denote, OpZ.err, C14L.Shift.shiftSpec, Bool.false_eq_true, if_false]
      split <;> rfl
  | rlshift n => rfl
  | rrshift n => rfl

/-- closure over the full family: a result is well formed, of the same version and exactly the
    mathematical result; a failure is either the operand error (no mathematical result) or the
    named range error, raised exactly when the result is outside `0 .. 2^width-1` -/
theorem operators_closed_all (a : Addr) (op : OpZ) (h : a.WF) :
    (∀ r, op.run a = .ok r → r.WF ∧ r.ver = a.ver ∧ op.denote a = .ok (r.val : Int)) ∧
    (∀ e, op.run a = .error e →
      op.denote a = .error e ∨
      ∃ x, op.denote a = .ok x ∧ e = op.err ∧ (x < 0 ∨ ((2 ^ width a.ver : Nat) : Int) ≤ x)) := by
  rw [operators_exact_all a op h]
  cases hd : op.denote a with
  | error e0 =>
    constructor
    · intro r hr; cases hr
    · intro e he; injection he with he; left; rw [he]
  | ok x =>
    constructor
    · intro r hr
      obtain ⟨h1, h2, h3⟩ := checked_ok _ _ _ _ hr
      exact ⟨⟨by rw [h1]; exact h.1, by rw [h1]; exact h3⟩, h1, by rw [h2]⟩
    · intro e he
      obtain ⟨h1, h2⟩ := checked_err _ _ _ _ he
      exact Or.inr ⟨x, rfl, h1, h2⟩

/-- when exactly the two operand errors occur -/
theorem operand_errors (a : Addr) (op : OpZ) :
    (op.denote a = .error .value ↔
      ∃ n : Int, n < 0 ∧ (op = .lshift (.int n) ∨ op = .rshift (.int n))) ∧
    (op.denote a = .error .type_ ↔
      (∃ b, op = .lshift (.addr b) ∨ op = .rshift (.addr b)) ∨ (∃ n, op = .rlshift n ∨ op = .rrshift n)) := by
  cases op with
  | base op => simp [OpZ.denote]
  | lshift x =>
    cases x with
    | int n =>
      by_cases hn : n < 0
      · simp [OpZ.denote, hn]
      · simp [OpZ.denote, hn]
    | addr b => simp [OpZ.denote]
  | rshift x =>
    cases x with
    | int n =>
      by_cases hn : n < 0
      · simp [OpZ.denote, hn]
      · simp [OpZ.denote, hn]
    | addr b => simp [OpZ.denote]
  | rlshift n => simp [OpZ.denote]
  | rrshift n => simp [OpZ.denote]

example : (OpZ.lshift (.int (-3))).run ⟨4, 1⟩ = .error .value ∧
    (OpZ.lshift (.int (-3))).denote ⟨4, 1⟩ = .error .value ∧
    (OpZ.rshift (.addr ⟨4, 1⟩)).run ⟨6, 9⟩ = .error .type_ ∧
    (OpZ.rlshift 1).run ⟨4, 3⟩ = .error .type_ ∧
    (OpZ.lshift (.int 31)).run ⟨4, 1⟩ = .ok ⟨4, 2147483648⟩ ∧
    (OpZ.lshift (.int 31)).denote ⟨4, 1⟩ = .ok 2147483648 ∧
    (OpZ.lshift (.int 32)).run ⟨4, 1⟩ = .error .addrFormat ∧
    (OpZ.base (.add 1)).run ⟨4, 4294967295⟩ = .error .index := by decide

/-! ### 2. `a += n`, `a -= n` statement by statement -/

open Address.Inplace in
/-- the statement-level run of `__iadd__` ends with the receiver and the exception of the
    functional model `stepInplace a (iadd a n)` -/
theorem iadd_program (a : Addr) (n : Int) :
    (iaddRun a n).result = stepInplace a (iadd a n) :=
  C14L.Inplace.result_body false a n

open Address.Inplace in
/-- likewise `__isub__` -/
theorem isub_program (a : Addr) (n : Int) :
    (isubRun a n).result = stepInplace a (isub a n) :=
  C14L.Inplace.result_body true a n

open Address.Inplace in
/-- the complete event log of `a += n`: one of three runs, decided by the exact sum `x = a + n`.
    In range: read, both tests pass, one write of `x`, return.  `x > max_int`: read, first test
    passes, second fails, raise — no write.  `x < 0`: read, first test fails (the second is not
    even evaluated), raise — no write. -/
theorem iadd_trace (a : Addr) (n : Int) :
    (iaddRun a n).log =
      if 0 ≤ (a.val : Int) + n then
        if (a.val : Int) + n ≤ (maxInt a.ver : Int) then
          [.readValue a.val, .cmpLo true, .readModule, .cmpHi true, .writeValue ((a.val : Int) + n), .ret]
        else [.readValue a.val, .cmpLo true, .readModule, .cmpHi false, .raise .index]
      else [.readValue a.val, .cmpLo false, .raise .index] := by
  show (run (body false n) a).log = _
  rw [C14L.Inplace.run_body]
  show (C14L.Inplace.specRun false a n).log = _
  unfold C14L.Inplace.specRun
  show (if 0 ≤ (a.val : Int) + n then (if (a.val : Int) + n ≤ (maxInt a.ver : Int) then _ else _) else _ : St).log = _
  split
  · split <;> rfl
  · rfl

open Address.Inplace in
/-- the complete event log of `a -= n` -/
theorem isub_trace (a : Addr) (n : Int) :
    (isubRun a n).log =
      if 0 ≤ (a.val : Int) - n then
        if (a.val : Int) - n ≤ (maxInt a.ver : Int) then
          [.readValue a.val, .cmpLo true, .readModule, .cmpHi true, .writeValue ((a.val : Int) - n), .ret]
        else [.readValue a.val, .cmpLo true, .readModule, .cmpHi false, .raise .index]
      else [.readValue a.val, .cmpLo false, .raise .index] := by
  show (run (body true n) a).log = _
  rw [C14L.Inplace.run_body]
  show (C14L.Inplace.specRun true a n).log = _
  unfold C14L.Inplace.specRun
  show (if 0 ≤ (a.val : Int) - n then (if (a.val : Int) - n ≤ (maxInt a.ver : Int) then _ else _) else _ : St).log = _
  split
  · split <;> rfl
  · rfl

open Address.Inplace C14L.Inplace in
/-- **the receiver is written only after both range tests passed.**  For both in-place
    operators, every receiver, every `n`: the log is `Guarded` (each `writeValue` is preceded by
    a passed `0 <=` test and a passed `<= max_int` test); there is exactly one write, of the
    exact new value, when that value is in range and none otherwise; and a raised exception
    (always IndexError) leaves the receiver equal to the object the statement started with. -/
theorem inplace_write_after_checks (minus : Bool) (a : Addr) (n : Int) :
    let st := run (body minus n) a
    Guarded st.log ∧
    writes st.log = (if 0 ≤ newValue minus a n ∧ newValue minus a n ≤ (maxInt a.ver : Int)
                     then [newValue minus a n] else []) ∧
    (∀ e, st.out = some (some e) → writes st.log = [] ∧ st.self = a ∧ e = .index) :=
  ⟨guarded_body minus a n, writes_body minus a n, fun e he => raise_untouched minus a n e he⟩

open Address.Inplace in
/-- non-vacuity: a success, a failure above, a failure below — with their logs; and the same
    three through the functional model -/
example :
    (iaddRun ⟨4, 5⟩ 3).log = [.readValue 5, .cmpLo true, .readModule, .cmpHi true, .writeValue 8, .ret] ∧
    (iaddRun ⟨4, 5⟩ 3).result = (⟨4, 8⟩, none) ∧
    (iaddRun ⟨4, 4294967295⟩ 1).log = [.readValue 4294967295, .cmpLo true, .readModule, .cmpHi false, .raise .index] ∧
    (iaddRun ⟨4, 4294967295⟩ 1).result = (⟨4, 4294967295⟩, some .index) ∧
    (isubRun ⟨6, 0⟩ 1).log = [.readValue 0, .cmpLo false, .raise .index] ∧
    (isubRun ⟨6, 0⟩ 1).result = (⟨6, 0⟩, some .index) ∧
    stepInplace ⟨6, 0⟩ (isub ⟨6, 0⟩ 1) = (⟨6, 0⟩, some .index) := by decide

/-! ### 3. `hex(a)`, the exact string -/

open C14L.Hex in
/-- **`hex(a)` is `"0x"` followed by `hexDigits value`**: lowercase digits, most significant
    first, no leading zeros, `"0"` for zero (Model/Address.lean, written without `Nat.toDigits`) -/
theorem hex_exact (a : Addr) : hex a = '0' :: 'x' :: hexDigits a.val := by
  unfold hex; rw [hexDigits_eq_toDigits]

/-- `hex` of the zero address of either version is `"0x0"` -/
theorem hex_zero (ver : Nat) : hex ⟨ver, 0⟩ = ['0', 'x', '0'] := by
  rw [hex_exact]
  show '0' :: 'x' :: hexDigits 0 = _
  rw [C14L.Hex.hexDigits_zero]

open C14L.Hex in
/-- the shape of the digit string: only `0-9a-f`; for a non-zero value the first digit is not
    `'0'` and the number of digits `L` satisfies `16^(L-1) ≤ value < 16^L`; it reads back as the
    value -/
theorem hex_shape (a : Addr) :
    (∀ c ∈ (hex a).drop 2, c ∈ lowerHexChars) ∧
    (a.val ≠ 0 → ((hex a).drop 2).head? ≠ some '0' ∧
      16 ^ (((hex a).drop 2).length - 1) ≤ a.val ∧ a.val < 16 ^ ((hex a).drop 2).length) ∧
    ofHex ((hex a).drop 2) = some a.val := by
  rw [hex_exact]
  simp only [List.drop_succ_cons, List.drop_zero]
  exact ⟨hexDigits_chars a.val, fun hn => ⟨hexDigits_head a.val hn, hexDigits_length a.val hn⟩,
    ofHex_hexDigits a.val⟩

open C14L.Hex in
/-- **uniqueness**: any lowercase hexadecimal numeral without leading zeros (`Canonical`) that
    reads back as the value is the digit string of `hex(a)` — so the shape above pins the
    string down completely -/
theorem hex_unique (a : Addr) (s : List Char) (hc : Canonical s) (hv : ofHex s = some a.val) :
    hex a = '0' :: 'x' :: s := by
  rw [hex_exact, hexDigits_unique s a.val hc hv]

open C14L.Hex in
example : hex ⟨4, 0⟩ = "0x0".toList ∧ hex ⟨4, 4294967295⟩ = "0xffffffff".toList ∧
    hex ⟨6, 0x1000⟩ = "0x1000".toList ∧ hex ⟨6, 0xabcdef0123456789⟩ = "0xabcdef0123456789".toList := by
  decide

open C14L.Hex in
example : hexDigits 0xbeef = ['b', 'e', 'e', 'f'] ∧ hexDigits 0 = ['0'] ∧ hexDigits 16 = ['1', '0'] := by
  simp only [hexDigits_eq_toDigits]; decide

open C14L.Hex in
/-- the hypotheses of `hex_unique` are satisfiable by a non-trivial numeral -/
example : Canonical "c0a80001".toList ∧ ofHex "c0a80001".toList = some 3232235521 :=
  ⟨⟨by decide, Or.inr ⟨by decide, by decide⟩⟩, by decide⟩

end NV.C14
