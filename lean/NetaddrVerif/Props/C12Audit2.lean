/-
Props/C12Audit2.lean — C12, audit round 2.

Finding 4: `roundtrip_observations_all` (Props/C12Pickle.lean) asserts `hash (eqFields y) = hash (eqFields x)`
with `hash` a TOTAL function for all eight kinds of object, but `hash()` raises TypeError for three of them:
`IPSet.__hash__` raises (netaddr/ip/sets.py:224-231) and `OUI` / `IAB` define `__eq__` without `__hash__`
(netaddr/eui/__init__.py:103, 272), so the hash conjunct says nothing about the code there.  Here `hash()`
is `Cmp.hashOfP : (PyVal → Int) → PObj → R Int` (Model/ComparePickle.lean), the hash conjunct is stated for
the hashable kinds only, and the TypeError is stated for the others — before and after the copy.

Finding 9: `PWF (.rng r)` does not ask for `r.lo ≤ r.hi`.  The round trip does not need it (neither
`IPRange.__setstate__`, netaddr/ip/__init__.py:1427-1435, nor `setstateRngV` re-check the bounds), but
`Rng.sortKey` computes `size = last - first + 1` in `Nat` (truncated), which is Python's `size` only when
`lo ≤ hi`: `PBuilt` adds the hypothesis every constructor guarantees, `rng_size_exact` says what it buys,
`roundtrip_all_built` that copies stay inside it.
-/
import NetaddrVerif.Props.C12Pickle
namespace NV.C12A2
open NV NV.Cmp NV.C12

/-! ## finding 4: `hash()` of every kind -/

/-- the kinds with a `__hash__`: IPAddress, IPNetwork, IPRange, IPGlob (`BaseIP.__hash__`) and EUI -/
def Hashable : PObj → Prop
  | .addr _ | .net _ | .rng _ | .glob _ | .eui _ => True
  | .set _ | .oui _ | .iab _ => False

instance : DecidablePred Hashable := fun x => by cases x <;> unfold Hashable <;> infer_instance

/-- **which objects hash**: `hash(x)` raises exactly for IPSet, OUI and IAB, the error is TypeError and
    nothing else; for the others it is the tuple hash of the very fields `==` compares (`C12.eqFields`),
    which is why equal objects hash equal -/
theorem hash_defined_iff (h : PyVal → Int) (x : PObj) :
    (Hashable x ↔ hashOfP h x = .ok (h (eqFields x))) ∧
    (¬ Hashable x ↔ hashOfP h x = .error .type_) ∧
    (∀ e, hashOfP h x = .error e → e = .type_) := by
  cases x <;> simp [Hashable, hashOfP, hashFieldsP, eqFields, Except.map]

/-- `hash()` of the three comparable IP kinds is `Cmp.hashOf` (the `cmp` op of the driver, `C12.hash_agrees`) -/
theorem hashOfP_obj (h : List Int → Int) (a : Addr) (n : Net) (r : Rng) :
    hashOfP (fun v => match v with | .tuple xs => h (xs.filterMap (fun | .int i => some i | _ => none)) | _ => 0)
      (.addr a) = .ok (hashOf h (.addr a)) ∧
    hashOfP (fun v => match v with | .tuple xs => h (xs.filterMap (fun | .int i => some i | _ => none)) | _ => 0)
      (.net n) = .ok (hashOf h (.net n)) ∧
    hashOfP (fun v => match v with | .tuple xs => h (xs.filterMap (fun | .int i => some i | _ => none)) | _ => 0)
      (.rng r) = .ok (hashOf h (.rng r)) := by
  simp [hashOfP, hashFieldsP, hashOf, Obj.key, Addr.key, Net.key, Rng.key, Except.map]

/-- **C12, copies of hashable objects** (the clause as written, on the kinds where it can hold): copy,
    deepcopy and pickle under every protocol of an IPAddress / IPNetwork / IPRange / IPGlob / EUI give an
    object with the same `str()`, that compares equal, not unequal, and `hash()` of both is DEFINED and the
    same number — whatever functions of the respective fields `str` / `==` are and whatever the tuple hash is. -/
theorem roundtrip_observations_hashable (how : How) (x : PObj) (hx : PWF x) (hh : Hashable x)
    (str : PyVal → String) (eqv : PyVal → PyVal → Bool) (h : PyVal → Int)
    (hrefl : ∀ v, eqv v v = true) :
    ∃ y, roundtripV how x = .ok y ∧ Hashable y ∧ str (strFields y) = str (strFields x) ∧
      eqv (eqFields y) (eqFields x) = true ∧ (!eqv (eqFields y) (eqFields x)) = false ∧
      ∃ v, hashOfP h x = .ok v ∧ hashOfP h y = .ok v :=
  ⟨x, roundtrip_all how x hx, hh, rfl, hrefl _, by simp [hrefl], h (eqFields x),
    ((hash_defined_iff h x).1.mp hh), ((hash_defined_iff h x).1.mp hh)⟩

/-- **C12, copies of unhashable objects**: for an IPSet, OUI or IAB the copy has the same `str()` and
    compares equal, and `hash()` raises TypeError on the original AND on the copy (the property's "hashes
    equal" cannot be asked of them; the harness prints `!type` for both). -/
theorem roundtrip_observations_unhashable (how : How) (x : PObj) (hx : PWF x) (hh : ¬ Hashable x)
    (str : PyVal → String) (eqv : PyVal → PyVal → Bool) (h : PyVal → Int)
    (hrefl : ∀ v, eqv v v = true) :
    ∃ y, roundtripV how x = .ok y ∧ ¬ Hashable y ∧ str (strFields y) = str (strFields x) ∧
      eqv (eqFields y) (eqFields x) = true ∧ (!eqv (eqFields y) (eqFields x)) = false ∧
      hashOfP h x = .error .type_ ∧ hashOfP h y = .error .type_ :=
  ⟨x, roundtrip_all how x hx, hh, rfl, hrefl _, by simp [hrefl],
    ((hash_defined_iff h x).2.1.mp hh), ((hash_defined_iff h x).2.1.mp hh)⟩

/-- every kind is one or the other, so the two theorems together cover `PObj` -/
theorem hashable_or_not (x : PObj) : Hashable x ∨ ¬ Hashable x := Decidable.em _

example : Hashable (.glob ⟨167772160, 167837695, "10.0.*.*".toList⟩) ∧ ¬ Hashable (.set [⟨4, 0, 8⟩]) ∧
    ¬ Hashable (.oui ⟨0x0050c2, .list []⟩) ∧ ¬ Hashable (.iab ⟨0x0050c2abc, .dict []⟩) := by
  simp [Hashable]
example : hashOfP (fun _ => 7) (.set [⟨4, 0, 8⟩]) = .error .type_ ∧
    hashOfP (fun _ => 7) (.eui ⟨48, 5, 0⟩) = .ok 7 := by decide
example : hashFieldsP (.rng ⟨4, 1, 2⟩) = .ok (.tuple [.int 4, .int 1, .int 2]) := rfl

/-! ## finding 9: `lo ≤ hi` for ranges -/

/-- an object a constructor can have built: `PWF`, and for an IPRange additionally `start <= end`
    (`IPRange.__init__` raises AddrFormatError otherwise, netaddr/ip/__init__.py; an IPGlob gets it from
    its text, C17) -/
def PBuilt : PObj → Prop
  | .rng r => PWF (.rng r) ∧ r.lo ≤ r.hi
  | x => PWF x

theorem PBuilt.pwf {x : PObj} (h : PBuilt x) : PWF x := by
  cases x <;> first | exact h.1 | exact h

/-- copies of constructible objects are constructible (and identical): the round trip neither needs nor
    loses `start <= end` -/
theorem roundtrip_all_built (how : How) (x : PObj) (hx : PBuilt x) :
    ∃ y, roundtripV how x = .ok y ∧ y = x ∧ PBuilt y :=
  ⟨x, roundtrip_all how x hx.pwf, rfl, hx⟩

/-- what the hypothesis buys: the `size` inside `Rng.sortKey` (`Nat`, truncated subtraction) is Python's
    `int(self.last - self.first + 1)` exactly when `start <= end` … -/
theorem rng_size_exact (r : Rng) (h : r.lo ≤ r.hi) :
    ((r.hi - r.lo + 1 : Nat) : Int) = (r.hi : Int) - (r.lo : Int) + 1 := by omega

/-- … and only then: for `start > end` (which only a hand-made pickle state can produce) the model's size
    is 1 where Python's is ≤ 0, so `range_order` / `order_total_preorder` say nothing about such objects -/
theorem rng_size_truncated (r : Rng) (h : r.hi < r.lo) :
    ((r.hi - r.lo + 1 : Nat) : Int) = 1 ∧ (r.hi : Int) - (r.lo : Int) + 1 ≤ 0 := by omega

/-- with the hypothesis the third component of `sort_key()` is `width - bit_length(last - first + 1)` over
    the integers, as the code computes it (netaddr/ip/__init__.py:1478-1483) -/
theorem rng_sortKey_built (r : Rng) (h : r.lo ≤ r.hi) :
    r.sortKey = [(r.ver : Int), (r.lo : Int),
      (width r.ver : Int) - (numBits (((r.hi : Int) - (r.lo : Int) + 1).toNat) : Int)] := by
  have : ((r.hi : Int) - (r.lo : Int) + 1).toNat = r.hi - r.lo + 1 := by omega
  simp [Rng.sortKey, this]

example : PBuilt (.rng ⟨4, 1, 2⟩) := ⟨⟨Or.inl rfl, by decide, by decide⟩, by decide⟩
example : PWF (.rng ⟨4, 2, 1⟩) ∧ ¬ PBuilt (.rng ⟨4, 2, 1⟩) :=
  ⟨⟨Or.inl rfl, by decide, by decide⟩, fun h => absurd h.2 (by decide)⟩

end NV.C12A2
