/-
Props/C03Audit2.lean — property C03, audit 2a findings 9, 10, 18, 21.

* finding 9: `cidr_abbrev_to_verbose` on strings, exactly: a declarative relation `Abbrev s t`
  (three rules: one numeral; address part '/' prefix numeral; bare dotted pieces) with
  `abbrev_iff`: the function returns `t` iff a rule gives `t`, and returns its argument unchanged
  iff no rule applies.
* finding 10: non-str arguments (`AbbrevArg`, Model/NetParseX.lean).
* finding 18: explicit-version mismatch and cross-family masks at constructor level.
* finding 21: `repr(IPNetwork)` and its eval-free round trip.
-/
import NetaddrVerif.Props.C03c
import NetaddrVerif.Model.NetParseX
namespace NV.C03A2
open NV NV.Text4 NV.AddrParse NV.NetParse NV.C01L NV.C03L NV.C03L.Acc NV.C03L.Abbrev NV.C03
set_option linter.unusedSimpArgs false
set_option linter.unusedVariables false

/-! ## finding 9: `cidr_abbrev_to_verbose` on strings, exactly -/

/-- the address part padded with "0" pieces up to four '.'-pieces
    (`tokens = part_addr.split('.')`; `for i in range(4 - len(tokens)): tokens.append('0')`) -/
def padded (A : List Char) : List Char :=
  ['.'].intercalate (A.splitOn '.' ++ List.replicate (4 - (A.splitOn '.').length) ['0'])

/-- **The documented abbreviation rules, declaratively**: `Abbrev s t` = the abbreviated CIDR `s`
    expands to the verbose CIDR `t`.
    * `single`: `s` is one numeral `int()` reads as `n` in 0..255 ('10', ' 10 ', '+10', '1_0'):
      `n.0.0.0/<class prefix of n>`;
    * `slash`: `s = A/T` ('/' not in `A`, no ':' anywhere), `T` a numeral `int()` reads as `q` in
      0..32, `A` at most four '.'-pieces ('10/16', '128/8', '192.168/16'): `A` padded with "0"
      pieces, then '/' and `T` AS WRITTEN;
    * `bare`: `s` without '/' and ':', not a numeral, at most four '.'-pieces, the first of which
      `int()` reads as `o` in 0..255 ('192.168', '10.1.2'): `s` padded with "0" pieces, then the
      class prefix of `o`. -/
inductive Abbrev : List Char → List Char → Prop
  | single (s : List Char) (n : Int) (hpi : Py.pyInt 10 s = some n) (hn : 0 ≤ n ∧ n ≤ 255) :
      Abbrev s (dec n.toNat ++ ".0.0.0/".toList ++ dec (classOf n.toNat))
  | slash (A T : List Char) (q : Int) (hA : '/' ∉ A) (hc : ':' ∉ A ++ T) (hq : Py.pyInt 10 T = some q)
      (hr : 0 ≤ q ∧ q ≤ 32) (hl : (A.splitOn '.').length ≤ 4) :
      Abbrev (A ++ '/' :: T) (padded A ++ '/' :: T)
  | bare (s : List Char) (o : Int) (hs : '/' ∉ s) (hc : ':' ∉ s) (hpi : Py.pyInt 10 s = none)
      (hl : (s.splitOn '.').length ≤ 4) (ho : Py.pyInt 10 ((s.splitOn '.').headD []) = some o)
      (hr : 0 ≤ o ∧ o ≤ 255) :
      Abbrev s (padded s ++ '/' :: dec (classOf o.toNat))

theorem guard_false (s : List Char) (hc : ':' ∉ s) (hne : s ≠ []) : ¬ ((s.contains ':' || s == []) = true) := by
  intro h
  simp only [Bool.or_eq_true] at h
  rcases h with h1 | h2
  · exact hc (List.contains_iff_mem.mp h1)
  · exact hne (eq_of_beq h2)

theorem pyInt_nil : Py.pyInt 10 [] = none := by decide

theorem headD_append (l : List (List Char)) (k : Nat) (hne : l ≠ []) :
    (l ++ List.replicate k ['0']).headD [] = l.headD [] := by
  cases l with
  | nil => exact absurd rfl hne
  | cons a t => rfl

theorem band_range (q : Int) (a b : Int) : (decide (a ≤ q) && decide (q ≤ b)) = true ↔ a ≤ q ∧ q ≤ b := by
  simp

/-- each rule is what the function computes -/
theorem abbrev_sound (s t : List Char) (h : Abbrev s t) : cidrAbbrevToVerbose s = t := by
  cases h with
  | single _ n hpi hn =>
    obtain ⟨_, hc, _⟩ := pyInt_some_clean s n hpi
    have hne : s ≠ [] := by rintro rfl; rw [pyInt_nil] at hpi; cases hpi
    obtain ⟨hs, hlt⟩ := showInt_of_range n hn
    unfold cidrAbbrevToVerbose
    rw [if_neg (guard_false s hc hne)]
    simp only [hpi, classful_of_range n hn, hs]
  | slash A T q hA hc hq hr hl =>
    have hAc : A.contains '/' = false := contains_false_of_not_mem hA
    have hsp : splitSlash (A ++ '/' :: T) = (A, some T) := splitSlash_app A T hAc
    have hm : '/' ∈ A ++ '/' :: T := by simp
    have hpi := pyInt_slash _ hm
    have hcol : ':' ∉ A ++ '/' :: T := by
      intro hmem
      rcases List.mem_append.mp hmem with e | e
      · exact hc (List.mem_append_left _ e)
      · rcases List.mem_cons.mp e with e | e
        · exact absurd e (by decide)
        · exact hc (List.mem_append_right _ e)
    have hne : A ++ '/' :: T ≠ [] := by simp
    have hr' : (decide (0 ≤ q) && decide (q ≤ 32)) = true := (band_range q 0 32).mpr hr
    have hl' : ¬ (A.splitOn '.').length > 4 := by omega
    unfold cidrAbbrevToVerbose
    rw [if_neg (guard_false _ hcol hne)]
    simp only [hpi, hsp, hq, hr', Bool.not_true, Bool.false_eq_true, if_false]
    rw [if_neg hl']
    simp [padded]
  | bare _ o hs hc hpi hl ho hr =>
    have hne : s ≠ [] := by
      rintro rfl
      have : ([] : List Char).splitOn '.' = [[]] := by decide
      rw [this] at ho
      simp only [List.headD_cons] at ho
      rw [pyInt_nil] at ho; cases ho
    have h1 : s.contains '/' = false := contains_false_of_not_mem hs
    have hl' : ¬ (s.splitOn '.').length > 4 := by omega
    have hsn := List.splitOn_ne_nil '.' s
    unfold cidrAbbrevToVerbose
    rw [if_neg (guard_false s hc hne)]
    simp only [hpi, splitSlash_none _ h1, Bool.not_true, Bool.false_eq_true, if_false]
    rw [if_neg hl']
    simp only [headD_append _ _ hsn, ho, classful_of_range o hr]
    simp [padded]

/-- whenever the function changes its argument, a rule applies -/
theorem abbrev_complete (s : List Char) (hne : cidrAbbrevToVerbose s ≠ s) : Abbrev s (cidrAbbrevToVerbose s) := by
  by_cases h0 : (s.contains ':' || s == []) = true
  · exfalso; apply hne; unfold cidrAbbrevToVerbose; rw [if_pos h0]
  · have hcol : ':' ∉ s := by
      intro hmem; apply h0; rw [List.contains_iff_mem.mpr hmem]; rfl
    cases hpi : Py.pyInt 10 s with
    | some n =>
      by_cases hn : 0 ≤ n ∧ n ≤ 255
      · have ab := Abbrev.single s n hpi hn
        rw [abbrev_sound _ _ ab]; exact ab
      · exfalso; apply hne
        have hcls : classfulPrefix n = none := by rw [classful_rules, if_neg hn]
        unfold cidrAbbrevToVerbose
        rw [if_neg h0]
        simp only [hpi, hcls]
    | none =>
      by_cases hs : s.contains '/' = true
      · obtain ⟨T, hsp, hst⟩ := splitSlash_of_contains s hs
        have hA : '/' ∉ (splitSlash s).1 := C01.not_mem_of_contains_false (splitSlash_fst s)
        have hcAT : ':' ∉ (splitSlash s).1 ++ T := by
          intro hmem; apply hcol
          rw [hst]
          rcases List.mem_append.mp hmem with e | e
          · exact List.mem_append_left _ e
          · exact List.mem_append_right _ (List.mem_cons_of_mem _ e)
        cases hq : Py.pyInt 10 T with
        | none =>
          exfalso; apply hne
          unfold cidrAbbrevToVerbose
          rw [if_neg h0]
          simp only [hpi]
          rw [hsp]
          simp [hq]
        | some q =>
          by_cases hr : 0 ≤ q ∧ q ≤ 32
          · by_cases hl : ((splitSlash s).1.splitOn '.').length ≤ 4
            · have ab := Abbrev.slash (splitSlash s).1 T q hA hcAT hq hr hl
              rw [← hst] at ab
              rw [abbrev_sound _ _ ab]; exact ab
            · exfalso; apply hne
              have hr' : (decide (0 ≤ q) && decide (q ≤ 32)) = true := (band_range q 0 32).mpr hr
              have hl' : ((splitSlash s).1.splitOn '.').length > 4 := by omega
              unfold cidrAbbrevToVerbose
              rw [if_neg h0]
              simp only [hpi]
              rw [hsp]
              simp only [hq, hr', Bool.not_true, Bool.false_eq_true, if_false]
              rw [if_pos hl']
          · exfalso; apply hne
            have hr' : (decide (0 ≤ q) && decide (q ≤ 32)) = false := by
              cases hb : (decide (0 ≤ q) && decide (q ≤ 32)) with
              | true => exact absurd ((band_range q 0 32).mp hb) hr
              | false => rfl
            unfold cidrAbbrevToVerbose
            rw [if_neg h0]
            simp only [hpi]
            rw [hsp]
            simp [hq, hr']
      · have h1 : s.contains '/' = false := by
          cases hb : s.contains '/' with
          | true => exact absurd hb hs
          | false => rfl
        have hsl : '/' ∉ s := C01.not_mem_of_contains_false h1
        have hsn := List.splitOn_ne_nil '.' s
        by_cases hl : (s.splitOn '.').length ≤ 4
        · have hl' : ¬ (s.splitOn '.').length > 4 := by omega
          cases ho : Py.pyInt 10 ((s.splitOn '.').headD []) with
          | none =>
            exfalso; apply hne
            unfold cidrAbbrevToVerbose
            rw [if_neg h0]
            simp only [hpi, splitSlash_none _ h1, Bool.not_true, Bool.false_eq_true, if_false]
            rw [if_neg hl']
            simp only [headD_append _ _ hsn, ho]
          | some o =>
            by_cases hr : 0 ≤ o ∧ o ≤ 255
            · have ab := Abbrev.bare s o hsl hcol hpi hl ho hr
              rw [abbrev_sound _ _ ab]; exact ab
            · exfalso; apply hne
              have hcls : classfulPrefix o = none := by rw [classful_rules, if_neg hr]
              unfold cidrAbbrevToVerbose
              rw [if_neg h0]
              simp only [hpi, splitSlash_none _ h1, Bool.not_true, Bool.false_eq_true, if_false]
              rw [if_neg hl']
              simp only [headD_append _ _ hsn, ho, hcls]
        · exfalso; apply hne
          have hl' : (s.splitOn '.').length > 4 := by omega
          unfold cidrAbbrevToVerbose
          rw [if_neg h0]
          simp only [hpi, splitSlash_none _ h1, Bool.not_true, Bool.false_eq_true, if_false]
          rw [if_pos hl']

/-- the rules are deterministic -/
theorem abbrev_functional (s t t' : List Char) (h : Abbrev s t) (h' : Abbrev s t') : t = t' := by
  rw [← abbrev_sound s t h, ← abbrev_sound s t' h']

/-- **`cidr_abbrev_to_verbose` on strings, exactly.**  The function returns `t` exactly when a
    documented rule expands `s` to `t`, or no rule applies to `s` at all and `t` is `s` itself
    ("the original value if it was not recognised as a supported abbreviation"). -/
theorem abbrev_iff (s t : List Char) :
    cidrAbbrevToVerbose s = t ↔ Abbrev s t ∨ (t = s ∧ ¬ ∃ t', Abbrev s t') := by
  constructor
  · intro h
    by_cases hex : ∃ t', Abbrev s t'
    · obtain ⟨t', ht'⟩ := hex
      left
      rw [← h, abbrev_sound s t' ht']; exact ht'
    · right
      refine ⟨?_, hex⟩
      apply Classical.byContradiction
      intro hne
      apply hex
      refine ⟨cidrAbbrevToVerbose s, abbrev_complete s ?_⟩
      rw [h]; exact hne
  · rintro (h | ⟨rfl, hno⟩)
    · exact abbrev_sound s t h
    · apply Classical.byContradiction
      intro hne
      exact hno ⟨_, abbrev_complete t hne⟩

/-- **Exactly when the text comes back unchanged**: no rule applies, or the `slash` rule applies
    and pads nothing (`Abbrev s s`: four '.'-pieces already, as in '1.2.3.4/24') -/
theorem abbrev_unchanged_iff (s : List Char) :
    cidrAbbrevToVerbose s = s ↔ Abbrev s s ∨ ¬ ∃ t, Abbrev s t := by
  rw [abbrev_iff]
  constructor
  · rintro (h | ⟨_, h⟩)
    · exact Or.inl h
    · exact Or.inr h
  · rintro (h | h)
    · exact Or.inl h
    · exact Or.inr ⟨rfl, h⟩

/-- which rule can apply to which text (inversion) -/
theorem abbrev_inv (s t : List Char) (h : Abbrev s t) :
    (∃ n, Py.pyInt 10 s = some n ∧ (0 ≤ n ∧ n ≤ 255)) ∨
    (∃ A T q, s = A ++ '/' :: T ∧ '/' ∉ A ∧ Py.pyInt 10 T = some q ∧ (0 ≤ q ∧ q ≤ 32) ∧ (A.splitOn '.').length ≤ 4) ∨
    (∃ o, '/' ∉ s ∧ Py.pyInt 10 s = none ∧ (s.splitOn '.').length ≤ 4 ∧
      Py.pyInt 10 ((s.splitOn '.').headD []) = some o ∧ (0 ≤ o ∧ o ≤ 255)) := by
  cases h with
  | single _ n hpi hn => exact Or.inl ⟨n, hpi, hn⟩
  | slash A T q hA hc hq hr hl => exact Or.inr (Or.inl ⟨A, T, q, rfl, hA, hq, hr, hl⟩)
  | bare _ o hs hc hpi hl ho hr => exact Or.inr (Or.inr ⟨o, hs, hpi, hl, ho, hr⟩)

/-- the split at the first '/' is unique -/
theorem split_unique (A T A' T' : List Char) (hA : '/' ∉ A) (hA' : '/' ∉ A')
    (h : A ++ '/' :: T = A' ++ '/' :: T') : A = A' ∧ T = T' := by
  have h1 := splitSlash_app A T (contains_false_of_not_mem hA)
  have h2 := splitSlash_app A' T' (contains_false_of_not_mem hA')
  rw [h, h2] at h1
  simp only [Prod.mk.injEq, Option.some.injEq] at h1
  exact ⟨h1.1.symm, h1.2.symm⟩

/-- **The four ways a text is left alone** (beside texts with ':' and the empty text):
    (a) `A/T` where `T` is not a numeral, or a numeral outside 0..32 ('10/33', '10/x');
    (b) a '/'-free text with more than four '.'-pieces ('1.2.3.4.5');
    (c) one numeral outside 0..255 ('256', '-1');
    (d) a '/'-free text that is no numeral whose first '.'-piece is not a numeral in 0..255
        ('x.1', '300.1'). -/
theorem abbrev_unchanged (s : List Char) :
    (∀ A T, s = A ++ '/' :: T → '/' ∉ A → (∀ q, Py.pyInt 10 T = some q → ¬ (0 ≤ q ∧ q ≤ 32)) →
      cidrAbbrevToVerbose s = s) ∧
    ('/' ∉ s → (s.splitOn '.').length > 4 → cidrAbbrevToVerbose s = s) ∧
    (∀ n, Py.pyInt 10 s = some n → ¬ (0 ≤ n ∧ n ≤ 255) → cidrAbbrevToVerbose s = s) ∧
    ('/' ∉ s → Py.pyInt 10 s = none →
      (∀ o, Py.pyInt 10 ((s.splitOn '.').headD []) = some o → ¬ (0 ≤ o ∧ o ≤ 255)) → cidrAbbrevToVerbose s = s) := by
  refine ⟨?_, ?_, ?_, ?_⟩
  · intro A T hs hA hT
    apply (abbrev_unchanged_iff s).mpr; right
    rintro ⟨t, ht⟩
    have hm : '/' ∈ s := by rw [hs]; simp
    rcases abbrev_inv s t ht with ⟨n, hpi, _⟩ | ⟨A', T', q, hs', hA', hq, hr, _⟩ | ⟨o, hsl, _⟩
    · rw [pyInt_slash s hm] at hpi; cases hpi
    · obtain ⟨rfl, rfl⟩ := split_unique A T A' T' hA hA' (by rw [← hs, ← hs'])
      exact hT q hq hr
    · exact hsl hm
  · intro hsl hlen
    apply (abbrev_unchanged_iff s).mpr; right
    rintro ⟨t, ht⟩
    rcases abbrev_inv s t ht with ⟨n, hpi, _⟩ | ⟨A', T', q, hs', _⟩ | ⟨o, _, _, hl, _⟩
    · obtain ⟨hd, _, _⟩ := pyInt_some_clean s n hpi
      rw [splitOn_single '.' s hd] at hlen
      simp at hlen
    · apply hsl; rw [hs']; simp
    · omega
  · intro n hpi hn
    apply (abbrev_unchanged_iff s).mpr; right
    rintro ⟨t, ht⟩
    rcases abbrev_inv s t ht with ⟨n', hpi', hn'⟩ | ⟨A', T', q, hs', _⟩ | ⟨o, _, hpn, _⟩
    · rw [hpi] at hpi'; cases hpi'; exact hn hn'
    · have hm : '/' ∈ s := by rw [hs']; simp
      rw [pyInt_slash s hm] at hpi; cases hpi
    · rw [hpi] at hpn; cases hpn
  · intro hsl hpi ho
    apply (abbrev_unchanged_iff s).mpr; right
    rintro ⟨t, ht⟩
    rcases abbrev_inv s t ht with ⟨n', hpi', _⟩ | ⟨A', T', q, hs', _⟩ | ⟨o, _, _, _, ho', hr⟩
    · rw [hpi] at hpi'; cases hpi'
    · apply hsl; rw [hs']; simp
    · exact ho o ho' hr

/-- **'10/16' → '10.0.0.0/16', '128/8' → '128.0.0.0/8', '192.168/16' → '192.168.0.0/16', for all
    such texts**: one to four '.'-free, ':'-free, '/'-free pieces joined by '.', then '/' and a
    decimal prefix `p ≤ 32` — the pieces are padded with "0" pieces, the prefix is kept (NOT
    replaced by the class prefix). -/
theorem abbrev_slash_dec (os : List (List Char)) (p : Nat) (hne : os ≠ []) (hlen : os.length ≤ 4)
    (hclean : ∀ o ∈ os, '.' ∉ o ∧ ':' ∉ o ∧ '/' ∉ o) (hp : p ≤ 32) :
    cidrAbbrevToVerbose (['.'].intercalate os ++ '/' :: dec p) =
      ['.'].intercalate (os ++ List.replicate (4 - os.length) ['0']) ++ '/' :: dec p := by
  have hsplit : (['.'].intercalate os).splitOn '.' = os :=
    List.splitOn_intercalate _ (fun l hl => (hclean l hl).1) hne
  have hmem : ∀ ch ∈ ['.'].intercalate os, ch = '.' ∨ ∃ t ∈ os, ch ∈ t := fun ch hch => mem_intercalate '.' _ ch hch
  have hA : '/' ∉ ['.'].intercalate os := by
    intro h; rcases hmem _ h with e | ⟨t, ht, hc⟩
    · exact absurd e (by decide)
    · exact (hclean t ht).2.2 hc
  have hc : ':' ∉ ['.'].intercalate os ++ dec p := by
    intro h
    rcases List.mem_append.mp h with h | h
    · rcases hmem _ h with e | ⟨t, ht, hc⟩
      · exact absurd e (by decide)
      · exact (hclean t ht).2.1 hc
    · exact colon_not_in_dec p h
  have ab := Abbrev.slash (['.'].intercalate os) (dec p) p hA hc (pyInt_dec p) (by omega) (by rw [hsplit]; exact hlen)
  rw [abbrev_sound _ _ ab]
  simp only [padded, hsplit]

example : cidrAbbrevToVerbose "10/16".toList = "10.0.0.0/16".toList := by decide
example : cidrAbbrevToVerbose "128/8".toList = "128.0.0.0/8".toList := by decide
example : cidrAbbrevToVerbose "192.168/16".toList = "192.168.0.0/16".toList := by decide
example : cidrAbbrevToVerbose "10/33".toList = "10/33".toList := by decide
example : cidrAbbrevToVerbose "1.2.3.4.5".toList = "1.2.3.4.5".toList := by decide
example : cidrAbbrevToVerbose "256".toList = "256".toList := by decide
example : cidrAbbrevToVerbose "x.1".toList = "x.1".toList := by decide
example : Abbrev "10/16".toList "10.0.0.0/16".toList :=
  Abbrev.slash "10".toList "16".toList 16 (by decide) (by decide) (by decide) (by decide) (by decide)
example : Abbrev "1.2.3.4/24".toList "1.2.3.4/24".toList :=
  Abbrev.slash "1.2.3.4".toList "24".toList 24 (by decide) (by decide) (by decide) (by decide) (by decide)

/-! ## finding 10: non-str arguments of `cidr_abbrev_to_verbose` -/

theorem small_lt_limit : 1000 ≤ 10 ^ intMaxStrDigits := by
  have h : 10 ^ 3 ≤ 10 ^ intMaxStrDigits := Nat.pow_le_pow_right (by decide) (by decide)
  have : (10 : Nat) ^ 3 = 1000 := rfl
  omega

/-- **An int argument** (`type(x) is int`): `i` in 0..255 gives the text `i.0.0.0/<class prefix>`
    (10 → '10.0.0.0/8', 128 → '128.0.0.0/16', 224 → '224.0.0.0/4'); every other int below the
    interpreter's int-to-str digit limit comes back as the argument itself (256, -1); beyond that
    limit (|i| ≥ 10^4300) the int cannot be formatted (ValueError inside the `try`) and a
    TypeError leaves the function from the ValueError handler. -/
theorem abbrev_int (i : Int) :
    (0 ≤ i ∧ i ≤ 255 →
      cidrAbbrevToVerboseX (.int i) = .ok (.text (dec i.toNat ++ ".0.0.0/".toList ++ dec (classOf i.toNat)))) ∧
    (¬ (0 ≤ i ∧ i ≤ 255) → i.natAbs < 10 ^ intMaxStrDigits → cidrAbbrevToVerboseX (.int i) = .ok .same) ∧
    (10 ^ intMaxStrDigits ≤ i.natAbs → cidrAbbrevToVerboseX (.int i) = .error .type_) := by
  refine ⟨?_, ?_, ?_⟩
  · intro h
    obtain ⟨hs, _⟩ := showInt_of_range i h
    simp only [cidrAbbrevToVerboseX, abbrevOfInt, classful_of_range i h, hs]
  · intro h hlt
    have hcls : classfulPrefix i = none := by rw [classful_rules, if_neg h]
    have : ¬ (i.natAbs ≥ 10 ^ intMaxStrDigits) := by omega
    simp only [cidrAbbrevToVerboseX, abbrevOfInt, hcls, if_neg this]
  · intro hge
    have h256 := small_lt_limit
    have h : ¬ (0 ≤ i ∧ i ≤ 255) := by omega
    have hcls : classfulPrefix i = none := by rw [classful_rules, if_neg h]
    have : i.natAbs ≥ 10 ^ intMaxStrDigits := hge
    simp only [cidrAbbrevToVerboseX, abbrevOfInt, hcls, if_pos this]

/-- an int in 0..255 and its decimal text abbreviate alike -/
theorem abbrev_int_eq_str (a : Nat) (ha : a < 256) :
    cidrAbbrevToVerboseX (.int a) = cidrAbbrevToVerboseX (.str (dec a)) := by
  have h : (0 : Int) ≤ (a : Int) ∧ (a : Int) ≤ 255 := by omega
  rw [(abbrev_int a).1 h]
  have := (abbrev_single .platform a ha).1
  simp only [cidrAbbrevToVerboseX, this, Int.toNat_natCast]

/-- **bool, float, None**: `True` / `False` behave as the ints 1 / 0 ('1.0.0.0/8', '0.0.0.0/8'); a
    finite float behaves as its truncation `int(x)` (1.5 → '1.0.0.0/8', -0.5 → '0.0.0.0/8', 256.0
    and -1.0 come back unchanged); `None` (and every object `int()` refuses with TypeError) comes
    back unchanged.  (The float and None clauses are how the model reads `int(abbrev_cidr)`; what
    they add is the tie to the real function through the driver op `abbrev_x`.) -/
theorem abbrev_nonstr :
    cidrAbbrevToVerboseX (.bool true) = .ok (.text "1.0.0.0/8".toList) ∧
    cidrAbbrevToVerboseX (.bool false) = .ok (.text "0.0.0.0/8".toList) ∧
    (∀ t, cidrAbbrevToVerboseX (.float t) = cidrAbbrevToVerboseX (.int t)) ∧
    cidrAbbrevToVerboseX .none = .ok .same := by
  refine ⟨by decide, by decide, fun _ => rfl, rfl⟩

example : cidrAbbrevToVerboseX (.int 10) = .ok (.text "10.0.0.0/8".toList) := by decide
example : cidrAbbrevToVerboseX (.int 256) = .ok .same ∧ cidrAbbrevToVerboseX (.int (-1)) = .ok .same := by
  have h := small_lt_limit
  have e1 : (256 : Int).natAbs = 256 := rfl
  have e2 : (-1 : Int).natAbs = 1 := rfl
  exact ⟨(abbrev_int 256).2.1 (by omega) (by omega), (abbrev_int (-1)).2.1 (by omega) (by omega)⟩

/-! ## finding 18: one family per text, at constructor level -/

/-- **No text builds a network in both families**: a string accepted under `version=4` is refused
    with AddrFormatError under `version=6` and vice versa (`IPNetwork('1.2.3.4/24', version=6)`,
    `IPNetwork('::1/64', version=4)`), for every implicit_prefix and flags. -/
theorem version_mismatch_rejects (be : Backend) (s : List Char) (i : Bool) (fl : Nat) :
    ((∃ n, ipNetwork be (.str s) i (some 4) fl = .ok n) → ipNetwork be (.str s) i (some 6) fl = .error .addrFormat) ∧
    ((∃ n, ipNetwork be (.str s) i (some 6) fl = .ok n) → ipNetwork be (.str s) i (some 4) fl = .error .addrFormat) := by
  constructor
  · rintro ⟨n, hn⟩
    obtain ⟨hv, _, a, hsp, _⟩ := (net_accepts_iff be s i (some 4) fl n (Or.inr (Or.inl rfl))).mp hn
    have hver : n.ver = 4 := by
      rcases hv with e | e
      · cases e
      · injection e with e; exact e.symm
    rw [hver] at hsp
    rcases net_result be s i (some 6) fl (Or.inr (Or.inr rfl)) with ⟨n6, h6, _, _⟩ | h
    · obtain ⟨hv6, _, a6, hsp6, _⟩ := (net_accepts_iff be s i (some 6) fl n6 (Or.inr (Or.inr rfl))).mp h6
      have hver6 : n6.ver = 6 := by
        rcases hv6 with e | e
        · cases e
        · injection e with e; exact e.symm
      rw [hver6] at hsp6
      exact (spells_exclusive be _ _ _ _ _ hsp hsp6).elim
    · exact h
  · rintro ⟨n, hn⟩
    obtain ⟨hv, _, a, hsp, _⟩ := (net_accepts_iff be s i (some 6) fl n (Or.inr (Or.inr rfl))).mp hn
    have hver : n.ver = 6 := by
      rcases hv with e | e
      · cases e
      · injection e with e; exact e.symm
    rw [hver] at hsp
    rcases net_result be s i (some 4) fl (Or.inr (Or.inl rfl)) with ⟨n4, h4, _, _⟩ | h
    · obtain ⟨hv4, _, a4, hsp4, _⟩ := (net_accepts_iff be s i (some 4) fl n4 (Or.inr (Or.inl rfl))).mp h4
      have hver4 : n4.ver = 4 := by
        rcases hv4 with e | e
        · cases e
        · injection e with e; exact e.symm
      rw [hver4] at hsp4
      exact (spells_exclusive be _ _ _ _ _ hsp4 hsp).elim
    · exact h

/-- … in particular for every printed network: `IPNetwork(str(n), version=<the other family>)` is
    AddrFormatError -/
theorem version_mismatch_printed (be : Backend) (n : Net) (hn : n.WF) (i : Bool) (fl : Nat) :
    ipNetwork be (.str (netStr be n)) i (some (10 - n.ver)) fl = .error .addrFormat := by
  have hrt := str_roundtrip_all be n hn (some n.ver) (Or.inr rfl) fl i
  rcases hn.1 with e | e
  · rw [e] at hrt ⊢
    exact (version_mismatch_rejects be _ i fl).1 ⟨_, hrt⟩
  · rw [e] at hrt ⊢
    exact (version_mismatch_rejects be _ i fl).2 ⟨_, hrt⟩

theorem pre_colon (i : Bool) (s : List Char) (hs : ':' ∈ s) : pre i s = s := by
  unfold pre
  cases i with
  | false => rfl
  | true =>
    simp only [if_true]
    unfold cidrAbbrevToVerbose
    rw [List.contains_iff_mem.mpr hs]; rfl

/-- **Address part and mask part must be of one family.**  `A/M` ('/' not in `A`): an address part
    with ':' followed by a ':'-free mask text that is no numeral (`'::1/255.255.255.0'`,
    `'::1/0.0.0.255'`, `'::1/0.0.0.0'`), or a ':'-free address part followed by a mask text with
    ':' (`'1.2.3.4/ffff::'`, `'1.2.3.4/::ff'`, `'1.2.3.4/::ffff:ff00'`), is AddrFormatError — whatever
    integer the mask text would denote in its own family (contiguous or not), for version
    None / 4 / 6, every implicit_prefix and flags. -/
theorem cross_family_mask_rejects (be : Backend) (A M : List Char) (hA : '/' ∉ A) (i : Bool) (pver : Option Nat)
    (hpver : pver = none ∨ pver = some 4 ∨ pver = some 6) (fl : Nat) :
    (':' ∈ A → ':' ∉ M → Py.pyInt 10 M = none → ipNetwork be (.str (A ++ '/' :: M)) i pver fl = .error .addrFormat) ∧
    (':' ∉ A → ':' ∈ M → ipNetwork be (.str (A ++ '/' :: M)) i pver fl = .error .addrFormat) := by
  have hAc : A.contains '/' = false := contains_false_of_not_mem hA
  have hsp : splitSlash (A ++ '/' :: M) = (A, some M) := splitSlash_app A M hAc
  constructor
  · intro hcA hcM hpi
    apply (net_rejects_iff be _ i pver fl hpver).mpr
    rintro n ⟨_, hver, a, ⟨hss, hap, hpp, _⟩, _⟩
    rw [pre_colon i _ (List.mem_append_left _ hcA), hsp] at hss hap hpp
    simp only at hss hap hpp
    rcases hver with e | e
    · rw [e] at hap
      have := (addrPart4_iff be A hAc a).mp hap
      unfold addr4Spec at this
      rw [List.contains_iff_mem.mpr hcA] at this
      simp at this
    · rw [e] at hpp
      rcases hpp with h | ⟨m, p, hip, _⟩
      · rw [hpi] at h; cases h
      · exact hcM (colon_of_strict6 be M _ hip)
  · intro hcA hcM
    apply (net_rejects_iff be _ i pver fl hpver).mpr
    rintro n ⟨_, hver, a, ⟨hss, hap, hpp, _⟩, _⟩
    rw [pre_colon i _ (List.mem_append_right _ (List.mem_cons_of_mem _ hcM)), hsp] at hss hap hpp
    simp only at hss hap hpp
    rcases hver with e | e
    · rw [e] at hpp
      rcases hpp with h | ⟨m, p, hip, _⟩
      · rw [pyInt_colon M hcM] at h; cases h
      · have hMs : M.contains '/' = false := hss
        obtain ⟨_, hlt, hx⟩ := (ipAddress4_ok_iff be M hMs _).mp hip
        rw [hx] at hcM
        exact colon_not_in_ntoa _ hlt hcM
    · rw [e] at hap
      have := (addrPart6_iff be A a).mp hap
      exact hcA (colon_of_strict6 be A _ this)

example : ipNetwork .platform (.str "::1/255.255.255.0".toList) false none 0 = .error .addrFormat ∧
    ipNetwork .platform (.str "::1/0.0.0.255".toList) false (some 6) 0 = .error .addrFormat ∧
    ipNetwork .platform (.str "1.2.3.4/ffff::".toList) false none 0 = .error .addrFormat ∧
    ipNetwork .platform (.str "1.2.3.4/::ffff:ff00".toList) true (some 4) 0 = .error .addrFormat ∧
    ipNetwork .platform (.str "1.2.3.4/24".toList) false (some 6) 0 = .error .addrFormat ∧
    ipNetwork .platform (.str "::1/64".toList) false (some 4) 0 = .error .addrFormat := by decide +kernel

/-! ## finding 21: `repr(IPNetwork)` -/

theorem unquoteNet_frame (m : List Char) : unquoteNetRepr (netReprPrefix ++ (m ++ netReprSuffix)) = some m := by
  unfold unquoteNetRepr
  have h1 : netReprPrefix.isPrefixOf (netReprPrefix ++ (m ++ netReprSuffix)) = true := by simp
  have h2 : (netReprPrefix ++ (m ++ netReprSuffix)).drop netReprPrefix.length = m ++ netReprSuffix := List.drop_left
  have h3 : netReprSuffix.isSuffixOf (m ++ netReprSuffix) = true := by simp
  have h4 : (netReprPrefix ++ (m ++ netReprSuffix)).length - netReprPrefix.length - netReprSuffix.length = m.length := by
    simp only [List.length_append]; omega
  rw [h1, h2, h3, h4]
  simp

/-- **`repr(IPNetwork)` and its `eval`-free round trip.**  `repr(n)` is `IPNetwork('` + `str(n)` +
    `')`; removing that frame gives back `str(n)`, and constructing from it — version None or the
    network's own, implicit_prefix or not — gives back `n` (host bits included; with NOHOST the
    host bits are cleared, as for `str(n)` itself). -/
theorem netRepr_roundtrip (be : Backend) (n : Net) (hn : n.WF) (pver : Option Nat)
    (hpver : pver = none ∨ pver = some n.ver) (i : Bool) (fl : Nat) :
    netRepr be n = "IPNetwork('".toList ++ (intToStr be n.ver n.val ++ ['/'] ++ dec n.plen ++ "')".toList) ∧
    unquoteNetRepr (netRepr be n) = some (netStr be n) ∧
    ∀ q, unquoteNetRepr (netRepr be n) = some q →
      ipNetwork be (.str q) i pver fl = .ok ⟨n.ver, stored n.ver fl n.val n.plen, n.plen⟩ ∧
      (hasFlag fl NOHOST = false → ipNetwork be (.str q) i pver fl = .ok n) := by
  have hu : unquoteNetRepr (netRepr be n) = some (netStr be n) := unquoteNet_frame _
  refine ⟨rfl, hu, ?_⟩
  intro q hq
  rw [hu] at hq
  injection hq with hq
  subst hq
  have hrt := str_roundtrip_all be n hn pver hpver fl i
  refine ⟨hrt, ?_⟩
  intro hf
  rw [hrt]
  simp [stored, hf]

example : netRepr .platform ⟨4, 0x01020304, 24⟩ = "IPNetwork('1.2.3.4/24')".toList := by decide
example : netRepr .platform ⟨6, 0xffff01020304, 100⟩ = "IPNetwork('::ffff:1.2.3.4/100')".toList := by decide

end NV.C03A2
