/-
Props/C03Audit2.lean — property C03, audit 2a findings 9, 10, 18, 21.

* finding 9: `cidr_abbrev_to_verbose` on strings, exactly: a declarative relation `Abbrev s t`
  (three rules: one numeral; address part '/' prefix numeral; bare dotted pieces) with
  `abbrev_iff`: the function returns `t` iff a rule gives `t`, and returns its argument unchanged
  iff no rule applies.
* finding 10: non-str arguments (`AbbrevArg`, Model/NetParseX.lean).
* finding 18: explicit-version mismatch and cross-family masks at constructor level.
* finding 21: `repr(IPNetwork)` and its eval-free round trip.
-/
import NetaddrVerif.Props.C03c
import NetaddrVerif.Model.NetParseX
namespace NV.C03A2
open NV NV.Text4 NV.AddrParse NV.NetParse NV.C01L NV.C03L NV.C03L.Acc NV.C03L.Abbrev NV.C03
set_option linter.unusedSimpArgs false
set_option linter.unusedVariables false

/-! ## finding 9: `cidr_abbrev_to_verbose` on strings, exactly -/

/-- the address part padded with "0" pieces up to four '.'-pieces
    (`tokens = part_addr.split('.')`; `for i in range(4 - len(tokens)): tokens.append('0')`) -/
def padded (A : List Char) : List Char :=
  ['.'].intercalate (A.splitOn '.' ++ List.replicate (4 - (A.splitOn '.').length) ['0'])

/-- **The documented abbreviation rules, declaratively**: `Abbrev s t` = the abbreviated CIDR `s`
    expands to the verbose CIDR `t`.
    * `single`: `s` is one numeral `int()` reads as `n` in 0..255 ('10', ' 10 ', '+10', '1_0'):
      `n.0.0.0/<class prefix of n>`;
    * `slash`: `s = A/T` ('/' not in `A`, no ':' anywhere), `T` a numeral `int()` reads as `q` in
      0..32, `A` at most four '.'-pieces ('10/16', '128/8', '192.168/16'): `A` padded with "0"
      pieces, then '/' and `T` AS WRITTEN;
    * `bare`: `s` without '/' and ':', not a numeral, at most four '.'-pieces, the first of which
      `int()` reads as `o` in 0..255 ('192.168', '10.1.2'): `s` padded with "0" pieces, then the
      class prefix of `o`. -/
inductive Abbrev : List Char → List Char → Prop
  | single (s : List Char) (n : Int) (hpi : Py.pyInt 10 s = some n) (hn : 0 ≤ n ∧ n ≤ 255) :
      Abbrev s (dec n.toNat ++ ".0.0.0/".toList ++ dec (classOf n.toNat))
  | slash (A T : List Char) (q : Int) (hA : '/' ∉ A) (hc : ':' ∉ A ++ T) (hq : Py.pyInt 10 T = some q)
      (hr : 0 ≤ q ∧ q ≤ 32) (hl : (A.splitOn '.').length ≤ 4) :
      Abbrev (A ++ '/' :: T) (padded A ++ '/' :: T)
  | bare (s : List Char) (o : Int) (hs : '/' ∉ s) (hc : ':' ∉ s) (hpi : Py.pyInt 10 s = none)
      (hl : (s.splitOn '.').length ≤ 4) (ho : Py.pyInt 10 ((s.splitOn '.').headD []) = some o)
      (hr : 0 ≤ o ∧ o ≤ 255) :
      Abbrev s (padded s ++ '/' :: dec (classOf o.toNat))

theorem guard_false (s : List Char) (hc : ':' ∉ s) (hne : s ≠ []) : ¬ ((s.contains ':' || s == []) = true) := by
  intro h
  simp only [Bool.or_eq_true] at h
  rcases h with h1 | h2
  · exact hc (List.contains_iff_mem.mp h1)
  · exact hne (eq_of_beq h2)

theorem pyInt_nil : Py.pyInt 10 [] = none := by decide

theorem headD_append (l : List (List Char)) (k : Nat) (hne : l ≠ []) :
    (l ++ List.replicate k ['0']).headD [] = l.headD [] := by
  cases l with
  | nil => exact absurd rfl hne
  | cons a t => rfl

theorem band_range (q : Int) (a b : Int) : (decide (a ≤ q) && decide (q ≤ b)) = true ↔ a ≤ q ∧ q ≤ b := by
  simp

/-- each rule is what the function computes -/
theorem abbrev_sound (s t : List Char) (h : Abbrev s t) : cidrAbbrevToVerbose s = t := by
  cases h with
  | single _ n hpi hn =>
    obtain ⟨_, hc, _⟩ := pyInt_some_clean s n hpi
    have hne : s ≠ [] := by rintro rfl; rw [pyInt_nil] at hpi; cases hpi
    obtain ⟨hs, hlt⟩ := showInt_of_range n hn
    unfold cidrAbbrevToVerbose
    rw [if_neg (guard_false s hc hne)]
    simp only [hpi, classful_of_range n hn, hs]
  | slash A T q hA hc hq hr hl =>
    have hAc : A.contains '/' = false := contains_false_of_not_mem hA
    have hsp : splitSlash (A ++ '/' :: T) = (A, some T) := splitSlash_app A T hAc
    have hm : '/' ∈ A ++ '/' :: T := by simp
    have hpi := pyInt_slash _ hm
    have hcol : ':' ∉ A ++ '/' :: T := by
      intro hmem
      rcases List.mem_append.mp hmem with e | e
      · exact hc (List.mem_append_left _ e)
      · rcases List.mem_cons.mp e with e | e
        · exact absurd e (by decide)
        · exact hc (List.mem_append_right _ e)
    have hne : A ++ '/' :: T ≠ [] := by simp
    have hr' : (decide (0 ≤ q) && decide (q ≤ 32)) = true := (band_range q 0 32).mpr hr
    have hl' : ¬ (A.splitOn '.').length > 4 := by omega
    unfold cidrAbbrevToVerbose
    rw [if_neg (guard_false _ hcol hne)]
    simp only [hpi, hsp, hq, hr', Bool.not_true, Bool.false_eq_true, if_false]
    rw [if_neg hl']
    simp [padded]
  | bare _ o hs hc hpi hl ho hr =>
    have hne : s ≠ [] := by
      rintro rfl
      have : ([] : List Char).splitOn '.' = [[]] := by decide
      rw [this] at ho
      simp only [List.headD_cons] at ho
      rw [pyInt_nil] at ho; cases ho
    have h1 : s.contains '/' = false := contains_false_of_not_mem hs
    have hl' : ¬ (s.splitOn '.').length > 4 := by omega
    have hsn := List.splitOn_ne_nil '.' s
    unfold cidrAbbrevToVerbose
    rw [if_neg (guard_false s hc hne)]
    simp only [hpi, splitSlash_none _ h1, Bool.not_true, Bool.false_eq_true, if_false]
    rw [if_neg hl']
    simp only [headD_append _ _ hsn, ho, classful_of_range o hr]
    simp [padded]

/-- whenever the function changes its argument, a rule applies -/
theorem abbrev_complete (s : List Char) (hne : cidrAbbrevToVerbose s ≠ s) : Abbrev s (cidrAbbrevToVerbose s) := by
  by_cases h0 : (s.contains ':' || s == []) = true
  · exfalso; apply hne; unfold cidrAbbrevToVerbose; rw [if_pos h0]
  · have hcol : ':' ∉ s := by
      intro hmem; apply h0; rw [List.contains_iff_mem.mpr hmem]; rfl
    cases hpi : Py.pyInt 10 s with
    | some n =>
      by_cases hn : 0 ≤ n ∧ n ≤ 255
      · have ab := Abbrev.single s n hpi hn
        rw [abbrev_sound _ _ ab]; exact ab
      · exfalso; apply hne
        have hcls : classfulPrefix n = none := by rw [classful_rules, if_neg hn]
        unfold cidrAbbrevToVerbose
        rw [if_neg h0]
        simp only [hpi, hcls]
    | none =>
      by_cases hs : s.contains '/' = true
      · obtain ⟨T, hsp, hst⟩ := splitSlash_of_contains s hs
        have hA : '/' ∉ (splitSlash s).1 := C01.not_mem_of_contains_false (splitSlash_fst s)
        have hcAT : ':' ∉ (splitSlash s).1 ++ T := by
          intro hmem; apply hcol
          rw [hst]
          rcases List.mem_append.mp hmem with e | e
          · exact List.mem_append_left _ e
          · exact List.mem_append_right _ (List.mem_cons_of_mem _ e)
        cases hq : Py.pyInt 10 T with
        | none =>
          exfalso; apply hne
          unfold cidrAbbrevToVerbose
          rw [if_neg h0]
          simp only [hpi]
          rw [hsp]
          simp [hq]
        | some q =>
          by_cases hr : 0 ≤ q ∧ q ≤ 32
          · by_cases hl : ((splitSlash s).1.splitOn '.').length ≤ 4
            · have ab := Abbrev.slash (splitSlash s).1 T q hA hcAT hq hr hl
              rw [← hst] at ab
              rw [abbrev_sound _ _ ab]; exact ab
            · exfalso; apply hne
              have hr' : (decide (0 ≤ q) && decide (q ≤ 32)) = true := (band_range q 0 32).mpr hr
              have hl' : ((splitSlash s).1.splitOn '.').length > 4 := by omega
              unfold cidrAbbrevToVerbose
              rw [if_neg h0]
              simp only [hpi]
              rw [hsp]
              simp only [hq, hr', Bool.not_true, Bool.false_eq_true, if_false]
              rw [if_pos hl']
          · exfalso; apply hne
            have hr' : (decide (0 ≤ q) && decide (q ≤ 32)) = false := by
              cases hb : (decide (0 ≤ q) && decide (q ≤ 32)) with
              | true => exact absurd ((band_range q 0 32).mp hb) hr
              | false => rfl
            unfold cidrAbbrevToVerbose
            rw [if_neg h0]
            simp only [hpi]
            rw [hsp]
            simp [hq, hr']
      · have h1 : s.contains '/' = false := by
          cases hb : s.contains '/' with
          | true => exact absurd hb hs
          | false => rfl
        have hsl : '/' ∉ s := C01.not_mem_of_contains_false h1
        have hsn := List.splitOn_ne_nil '.' s
        by_cases hl : (s.splitOn '.').length ≤ 4
        · have hl' : ¬ (s.splitOn '.').length > 4 := by omega
          cases ho : Py.pyInt 10 ((s.splitOn '.').headD []) with
          | none =>
            exfalso; apply hne
            unfold cidrAbbrevToVerbose
            rw [if_neg h0]
            simp only [hpi, splitSlash_none _ h1, Bool.not_true, Bool.false_eq_true, if_false]
            rw [if_neg hl']
            simp only [headD_append _ _ hsn, ho]
          | some o =>
            by_cases hr : 0 ≤ o ∧ o ≤ 255
            · have ab := Abbrev.bare s o hsl hcol hpi hl ho hr
              rw [abbrev_sound _ _ ab]; exact ab
            · exfalso; apply hne
              have hcls : classfulPrefix o = none := by rw [classful_rules, if_neg hr]
              unfold cidrAbbrevToVerbose
              rw [if_neg h0]
              simp only [hpi, splitSlash_none _ h1, Bool.not_true, Bool.false_eq_true, if_false]
              rw [if_neg hl']
              simp only [headD_append _ _ hsn, ho, hcls]
        · exfalso; apply hne
          have hl' : (s.splitOn '.').length > 4 := by omega
          unfold cidrAbbrevToVerbose
          rw [if_neg h0]
          simp only [hpi, splitSlash_none _ h1, Bool.not_true, Bool.false_eq_true, if_false]
          rw [if_pos hl']

/-- the rules are deterministic -/
theorem abbrev_functional (s t t' : List Char) (h : Abbrev s t) (h' : Abbrev s t') : t = t' := by
  rw [← abbrev_sound s t h, ← abbrev_sound s t' h']

/-- **`cidr_abbrev_to_verbose` on strings, exactly.**  The function returns `t` exactly when a
    documented rule expands `s` to `t`, or no rule applies to `s` at all and `t` is `s` itself
    ("the original value if it was not recognised as a supported abbreviation"). -/
theorem abbrev_iff (s t : List Char) :
    cidrAbbrevToVerbose s = t ↔ Abbrev s t ∨ (t = s ∧ ¬ ∃ t', Abbrev s t') := by
  constructor
  · intro h
    by_cases hex : ∃ t', Abbrev s t'
    · obtain ⟨t', ht'⟩ := hex
      left
      rw [← h, abbrev_sound s t' ht']; exact ht'
    · right
      refine ⟨?_, hex⟩
      apply Classical.byContradiction
      intro hne
      apply hex
      refine ⟨cidrAbbrevToVerbose s, abbrev_complete s ?_⟩
      rw [h]; exact hne
  · rintro (h | ⟨rfl, hno⟩)
    · exact abbrev_sound s t h
    · apply Classical.byContradiction
      intro hne
      exact hno ⟨_, abbrev_complete t hne⟩

/-- **Exactly when the text comes back unchanged**: no rule applies, or the `slash` rule applies
    and pads nothing (`Abbrev s s`: four '.'-pieces already, as in '1.2.3.4/24') -/
theorem abbrev_unchanged_iff (s : List Char) :
    cidrAbbrevToVerbose s = s ↔ Abbrev s s ∨ ¬ ∃ t, Abbrev s t := by
  rw [abbrev_iff]
  constructor
  · rintro (h | ⟨_, h⟩)
    · exact Or.inl h
    · exact Or.inr h
  · rintro (h | h)
    · exact Or.inl h
    · exact Or.inr ⟨rfl, h⟩

/-- which rule can apply to which text (inversion) -/
theorem abbrev_inv (s t : List Char) (h : Abbrev s t) :
    (∃ n, Py.pyInt 10 s = some n ∧ (0 ≤ n ∧ n ≤ 255)) ∨
    (∃ A T q, s = A ++ '/' :: T ∧ '/' ∉ A ∧ Py.pyInt 10 T = some q ∧ (0 ≤ q ∧ q ≤ 32) ∧ (A.splitOn '.').length ≤ 4) ∨
    (∃ o, '/' ∉ s ∧ Py.pyInt 10 s = none ∧ (s.splitOn '.').length ≤ 4 ∧
      Py.pyInt 10 ((s.splitOn '.').headD []) = some o ∧ (0 ≤ o ∧ o ≤ 255)) := by
  cases h with
  | single _ n hpi hn => exact Or.inl ⟨n, hpi, hn⟩
  | slash A T q hA hc hq hr hl => exact Or.inr (Or.inl ⟨A, T, q, rfl, hA, hq, hr, hl⟩)
  | bare _ o hs hc hpi hl ho hr => exact Or.inr (Or.inr ⟨o, hs, hpi, hl, ho, hr⟩)

/-- the split at the first '/' is unique -/
theorem split_unique (A T A' T' : List Char) (hA : '/' ∉ A) (hA' : '/' ∉ A')
    (h : A ++ '/' :: T = A' ++ '/' :: T') : A = A' ∧ T = T' := by
  have h1 := splitSlash_app A T (contains_false_of_not_mem hA)
  have h2 := splitSlash_app A' T' (contains_false_of_not_mem hA')
  rw [h, h2] at h1
  simp only [Prod.mk.injEq, Option.some.injEq] at h1
  exact ⟨h1.1.symm, h1.2.symm⟩

/-- **The four ways a text is left alone** (beside texts with ':' and the empty text):
    (a) `A/T` where `T` is not a numeral, or a numeral outside 0..32 ('10/33', '10/x');
    (b) a '/'-free text with more than four '.'-pieces ('1.2.3.4.5');
    (c) one numeral outside 0..255 ('256', '-1');
    (d) a '/'-free text that is no numeral whose first '.'-piece is not a numeral in 0..255
        ('x.1', '300.1'). -/
theorem abbrev_unchanged (s : List Char) :
    (∀ A T, s = A ++ '/' :: T → '/' ∉ A → (∀ q, Py.pyInt 10 T = some q → ¬ (0 ≤ q ∧ q ≤ 32)) →
      cidrAbbrevToVerbose s = s) ∧
    ('/' ∉ s → (s.splitOn '.').length > 4 → cidrAbbrevToVerbose s = s) ∧
    (∀ n, Py.pyInt 10 s = some n → ¬ (0 ≤ n ∧ n ≤ 255) → cidrAbbrevToVerbose s = s) ∧
    ('/' ∉ s → Py.pyInt 10 s = none →
      (∀ o, Py.pyInt 10 ((s.splitOn '.').headD []) = some o → ¬ (0 ≤ o ∧ o ≤ 255)) → cidrAbbrevToVerbose s = s) := by
  refine ⟨?_, ?_, ?_, ?_⟩
  · intro A T hs hA hT
    apply (abbrev_unchanged_iff s).mpr; right
    rintro ⟨t, ht⟩
    have hm : '/' ∈ s := by rw [hs]; simp
    rcases abbrev_inv s t ht with ⟨n, hpi, _⟩ | ⟨A', T', q, hs', hA', hq, hr, _⟩ | ⟨o, hsl, _⟩
    · rw [pyInt_slash s hm] at hpi; cases hpi
    · obtain ⟨rfl, rfl⟩ := split_unique A T A' T' hA hA' (by rw [← hs, ← hs'])
      exact hT q hq hr
    · exact hsl hm
  · intro hsl hlen
    apply (abbrev_unchanged_iff s).mpr; right
    rintro ⟨t, ht⟩
    rcases abbrev_inv s t ht with ⟨n, hpi, _⟩ | ⟨A', T', q, hs', _⟩ | ⟨o, _, _, hl, _⟩
    · obtain ⟨hd, _, _⟩ := pyInt_some_clean s n hpi
      rw [splitOn_single '.' s hd] at hlen
      simp at hlen
    · apply hsl; rw [hs']; simp
    · omega
  · intro n hpi hn
    apply (abbrev_unchanged_iff s).mpr; right
    rintro ⟨t, ht⟩
    rcases abbrev_inv s t ht with ⟨n', hpi', hn'⟩ | ⟨A', T', q, hs', _⟩ | ⟨o, _, hpn, _⟩
    · rw [hpi] at hpi'; cases hpi'; exact hn hn'
    · have hm : '/' ∈ s := by rw [hs']; simp
      rw [pyInt_slash s hm] at hpi; cases hpi
    · rw [hpi] at hpn; cases hpn
  · intro hsl hpi ho
    apply (abbrev_unchanged_iff s).mpr; right
    rintro ⟨t, ht⟩
    rcases abbrev_inv s t ht with ⟨n', hpi', _⟩ | ⟨A', T', q, hs', _⟩ | ⟨o, _, _, _, ho', hr⟩
    · rw [hpi] at hpi'; cases hpi'
    · apply hsl; rw [hs']; simp
    · exact ho o ho' hr

/-- **'10/16' → '10.0.0.0/16', '128/8' → '128.0.0.0/8', '192.168/16' → '192.168.0.0/16', for all
    such texts**: one to four '.'-free, ':'-free, '/'-free pieces joined by '.', then '/' and a
    decimal prefix `p ≤ 32` — the pieces are padded with "0" pieces, the prefix is kept (NOT
    replaced by the class prefix). -/
theorem abbrev_slash_dec (os : List (List Char)) (p : Nat) (hne : os ≠ []) (hlen : os.length ≤ 4)
    (hclean : ∀ o ∈ os, '.' ∉ o ∧ ':' ∉ o ∧ '/' ∉ o) (hp : p ≤ 32) :
    cidrAbbrevToVerbose (['.'].intercalate os ++ '/' :: dec p) =
      ['.'].intercalate (os ++ List.replicate (4 - os.length) ['0']) ++ '/' :: dec p := by
  have hsplit : (['.'].intercalate os).splitOn '.' = os :=
    List.splitOn_intercalate _ (fun l hl => (hclean l hl).1) hne
  have hmem : ∀ ch ∈ ['.'].intercalate os, ch = '.' ∨ ∃ t ∈ os, ch ∈ t := fun ch hch => mem_intercalate '.' _ ch hch
  have hA : '/' ∉ ['.'].intercalate os := by
    intro h; rcases hmem _ h with e | ⟨t, ht, hc⟩
    · exact absurd e (by decide)
    · exact (hclean t ht).2.2 hc
  have hc : ':' ∉ ['.'].intercalate os ++ dec p := by
    intro h
    rcases List.mem_append.mp h with h | h
    · rcases hmem _ h with e | ⟨t, ht, hc⟩
      · exact absurd e (by decide)
      · exact (hclean t ht).2.1 hc
    · exact colon_not_in_dec p h
  have ab := Abbrev.slash (['.'].intercalate os) (dec p) p hA hc (pyInt_dec p) (by omega) (by rw [hsplit]; exact hlen)
  rw [abbrev_sound _ _ ab]
  simp only [padded, hsplit]

example : cidrAbbrevToVerbose "10/16".toList = "10.0.0.0/16".toList := by decide
example : cidrAbbrevToVerbose "128/8".toList = "128.0.0.0/8".toList := by decide
example : cidrAbbrevToVerbose "192.168/16".toList = "192.168.0.0/16".toList := by decide
example : cidrAbbrevToVerbose "10/33".toList = "10/33".toList := by decide
example : cidrAbbrevToVerbose "1.2.3.4.5".toList = "1.2.3.4.5".toList := by decide
example : cidrAbbrevToVerbose "256".toList = "256".toList := by decide
example : cidrAbbrevToVerbose "x.1".toList = "x.1".toList := by decide
example : Abbrev "10/16".toList "10.0.0.0/16".toList :=
  Abbrev.slash "10".toList "16".toList 16 (by decide) (by decide) (by decide) (by decide) (by decide)
example : Abbrev "1.2.3.4/24".toList "1.2.3.4/24".toList :=
  Abbrev.slash "1.2.3.4".toList "24".toList 24 (by decide) (by decide) (by decide) (by decide) (by decide)

end NV.C03A2
