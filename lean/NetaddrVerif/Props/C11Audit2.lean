/-
Props/C11Audit2.lean — property C11, additions closing audit round 2b findings 3 and 2.

Finding 3.  The clause "next(k)/previous(k) and N+=k / N-=k … raising IndexError instead of
leaving the address space" (with the object unchanged after a refused `+=` / `-=`, and the
receiver of next()/previous() never modified) was carried by `C11.step_failure` and
`C11.next_previous`, which are true by the shape of `Subnet.stepIadd` / by the model being a
function of `n`.  Here the four method bodies are run statement by statement
(Model/SubnetTrace.lean: compute, the two range tests in the code's order, ONE store, return; for
next()/previous() the constructor of the private copy first, then the same body on the copy), and
the theorems are about the event log of that run:

* `iadd_trace`, `isub_trace`, `next_trace`, `previous_trace` — the complete log, one of three runs;
* `inplace_store_after_tests` — a refused step raises IndexError with NO store and the receiver
  as it was; an accepted step performs exactly one store, of the exact new value, and that store
  is the last statement before `return self`;
* `copy_never_stores_receiver` — next()/previous() never store into the receiver, on any path;
* `stepRun_eq_step`, `copyRun_eq_next_previous` — the runs end in the results of the functional
  models `Subnet.stepIadd / stepIsub / next / previous`, so `C11.iadd_spec`, `isub_spec`,
  `next_previous` (closed forms in F, S, k) speak about these runs too;
* `tests_exclusive`, `inRange_iff` — the two tests cannot both fire (their order, which differs
  between `+=` and `-=`, decides nothing), and "both passed" is the property's
  `0 ≤ F ± k·S` and `F ± k·S + S ≤ 2^width`.

The driver ops `iaddT / isubT / nextT / prevT` print the observable part of these logs (stores,
per object) and the harness compares it with the stores really made on an instrumented
`IPNetwork` subclass.

Finding 2.  `Subnet.subnetTake n q count 0` now is `.ok []` whatever the arguments (the Python
generator runs nothing before the first `next()`): `subnetTake_zero`, `subnetTake_pos`.
-/
import NetaddrVerif.Props.C11
import NetaddrVerif.Lemmas.C11LTrace
namespace NV.C11A2
open NV NV.Subnet NV.Subnet.Trace NV.C11LT

/-! ### the complete logs -/

/-- **the complete event log of `n += k`**, decided by the exact `x = F + k·S`
    (`newValue false n k`).  Block above `max_int`: compute, first test fires, raise — no store.
    Below zero: compute, first test passes, second fires, raise — no store.  Otherwise: compute,
    both tests pass, one store of `x`, return. -/
theorem iadd_trace (n : Net) (k : Int) :
    (iaddRun n k).log =
      if Above n (newValue false n k) then
        [.computed .recv (newValue false n k), .testAbove .recv true, .raise .index]
      else if newValue false n k < 0 then
        [.computed .recv (newValue false n k), .testAbove .recv false, .testBelow .recv true, .raise .index]
      else
        [.computed .recv (newValue false n k), .testAbove .recv false, .testBelow .recv false,
         .store .recv (newValue false n k), .ret .recv] := by
  show (runStmts (body .recv false k) { recv := n }).log = _
  rw [runStmts_body .recv false k _ n rfl rfl]
  simp only [specBody, Bool.false_eq_true, if_false]
  split
  · rfl
  · split <;> rfl

/-- **the complete event log of `n -= k`**: the `< 0` test comes first here (ip/__init__.py:1139-1142) -/
theorem isub_trace (n : Net) (k : Int) :
    (isubRun n k).log =
      if newValue true n k < 0 then
        [.computed .recv (newValue true n k), .testBelow .recv true, .raise .index]
      else if Above n (newValue true n k) then
        [.computed .recv (newValue true n k), .testBelow .recv false, .testAbove .recv true, .raise .index]
      else
        [.computed .recv (newValue true n k), .testBelow .recv false, .testAbove .recv false,
         .store .recv (newValue true n k), .ret .recv] := by
  show (runStmts (body .recv true k) { recv := n }).log = _
  rw [runStmts_body .recv true k _ n rfl rfl]
  simp only [specBody, if_true]
  split
  · rfl
  · split <;> rfl

/-- the state after the first statement of next() / previous() -/
theorem run_copyProg (minus : Bool) (n : Net) (k : Int) :
    run (copyProg minus k) n =
      specBody .copy minus k { recv := n, copy := some (netCopy n), log := [.copied (netCopy n)] } (netCopy n) := by
  show runStmts (.mkCopy :: body .copy minus k) { recv := n } = _
  rw [runStmts_cons _ _ _ rfl]
  exact runStmts_body .copy minus k _ (netCopy n) rfl rfl

/-- **the complete event log of `n.next(k)`**: the private copy `c = (F, p)` is constructed, then
    the `+=` body runs with `self = c`; every test and the store name the copy -/
theorem next_trace (n : Net) (k : Int) :
    (nextRun n k).log =
      .copied (netCopy n) ::
      (if Above (netCopy n) (newValue false (netCopy n) k) then
        [.computed .copy (newValue false (netCopy n) k), .testAbove .copy true, .raise .index]
      else if newValue false (netCopy n) k < 0 then
        [.computed .copy (newValue false (netCopy n) k), .testAbove .copy false, .testBelow .copy true, .raise .index]
      else
        [.computed .copy (newValue false (netCopy n) k), .testAbove .copy false, .testBelow .copy false,
         .store .copy (newValue false (netCopy n) k), .ret .copy]) := by
  show (run (copyProg false k) n).log = _
  rw [run_copyProg]
  simp only [specBody, Bool.false_eq_true, if_false]
  split
  · rfl
  · split <;> rfl

/-- **the complete event log of `n.previous(k)`** -/
theorem previous_trace (n : Net) (k : Int) :
    (prevRun n k).log =
      .copied (netCopy n) ::
      (if newValue true (netCopy n) k < 0 then
        [.computed .copy (newValue true (netCopy n) k), .testBelow .copy true, .raise .index]
      else if Above (netCopy n) (newValue true (netCopy n) k) then
        [.computed .copy (newValue true (netCopy n) k), .testBelow .copy false, .testAbove .copy true, .raise .index]
      else
        [.computed .copy (newValue true (netCopy n) k), .testBelow .copy false, .testAbove .copy false,
         .store .copy (newValue true (netCopy n) k), .ret .copy]) := by
  show (run (copyProg true k) n).log = _
  rw [run_copyProg]
  simp only [specBody, if_true]
  split
  · rfl
  · split <;> rfl

/-! ### what the logs say -/

/-- "the step is accepted": neither test fires -/
def InRange (n : Net) (nv : Int) : Prop := ¬ Above n nv ∧ 0 ≤ nv

instance (n : Net) (nv : Int) : Decidable (InRange n nv) := by unfold InRange; infer_instance

/-- **`n += k` / `n -= k`: no store on a refused step, exactly one — the last statement before
    `return self` — on an accepted one.**  For both operators, every receiver (well-formed or
    not) and every `k`, with `x = newValue minus n k`:
    * the run always ends (`return` or `raise`), and never touches a second object;
    * if a test fires, the outcome is IndexError, the log contains NO store, the receiver is the
      object the statement started with;
    * if both pass, the log is `pre ++ [store x, return self]` with no store in `pre`, the
      receiver now holds `x` (version and prefix as before), and the receiver is what is returned. -/
theorem inplace_store_after_tests (minus : Bool) (n : Net) (k : Int) :
    let st := run (stepProg minus k) n
    let x := newValue minus n k
    st.copy = none ∧
    (¬ InRange n x → st.out = some (.error .index) ∧ stores st.log = [] ∧ st.recv = n) ∧
    (InRange n x → st.out = some (.ok .recv) ∧ st.recv = { n with val := x.toNat } ∧
      stores st.log = [(.recv, x)] ∧
      ∃ pre, st.log = pre ++ [.store .recv x, .ret .recv] ∧ stores pre = []) := by
  intro st x
  have hst : st = specBody .recv minus k { recv := n } n := runStmts_body .recv minus k _ n rfl rfl
  have hx : x = newValue minus n k := rfl
  rw [hst]
  unfold InRange
  cases minus
  · simp only [specBody, Bool.false_eq_true, if_false, ← hx]
    by_cases hA : Above n x
    · rw [if_pos hA]
      exact ⟨rfl, fun _ => ⟨rfl, rfl, rfl⟩, fun h => absurd hA h.1⟩
    · rw [if_neg hA]
      by_cases hB : x < 0
      · rw [if_pos hB]
        exact ⟨rfl, fun _ => ⟨rfl, rfl, rfl⟩, fun h => absurd h.2 (by omega)⟩
      · rw [if_neg hB]
        exact ⟨rfl, fun h => absurd ⟨hA, by omega⟩ h,
          fun _ => ⟨rfl, rfl, rfl, [.computed .recv x, .testAbove .recv false, .testBelow .recv false], rfl, rfl⟩⟩
  · simp only [specBody, if_true, ← hx]
    by_cases hB : x < 0
    · rw [if_pos hB]
      exact ⟨rfl, fun _ => ⟨rfl, rfl, rfl⟩, fun h => absurd h.2 (by omega)⟩
    · rw [if_neg hB]
      by_cases hA : Above n x
      · rw [if_pos hA]
        exact ⟨rfl, fun _ => ⟨rfl, rfl, rfl⟩, fun h => absurd hA h.1⟩
      · rw [if_neg hA]
        exact ⟨rfl, fun h => absurd ⟨hA, by omega⟩ h,
          fun _ => ⟨rfl, rfl, rfl, [.computed .recv x, .testBelow .recv false, .testAbove .recv false], rfl, rfl⟩⟩

/-- **next() / previous() never store into the receiver.**  For every receiver (host bits or
    not), every `k`, on the accepted and on both refused paths, with `c = (F, p)` the private copy
    and `x = newValue minus c k`:
    * the receiver is afterwards the object it was, and no `store` event of the log names it;
    * the only store (apart from the copy's own constructor) is the single `c._value = x` of an
      accepted step — none when the step is refused (IndexError);
    * an accepted call returns the copy, which holds `x`. -/
theorem copy_never_stores_receiver (minus : Bool) (n : Net) (k : Int) :
    let st := run (copyProg minus k) n
    let c := netCopy n
    let x := newValue minus c k
    st.recv = n ∧ (∀ s ∈ stores st.log, s.1 = .copy) ∧
    (¬ InRange c x → st.out = some (.error .index) ∧ stores st.log = [] ∧ st.copy = some c) ∧
    (InRange c x → st.out = some (.ok .copy) ∧ st.copy = some { c with val := x.toNat } ∧
      stores st.log = [(.copy, x)] ∧
      ∃ pre, st.log = pre ++ [.store .copy x, .ret .copy] ∧ stores pre = []) := by
  intro st c x
  have hst : st = _ := run_copyProg minus n k
  have hx : x = newValue minus (netCopy n) k := rfl
  have hc : c = netCopy n := rfl
  rw [hst]
  unfold InRange
  cases minus
  · simp only [specBody, Bool.false_eq_true, if_false, ← hc]
    by_cases hA : Above c x
    · rw [if_pos hA]
      exact ⟨rfl, by simp [stores], fun _ => ⟨rfl, rfl, rfl⟩, fun h => absurd hA h.1⟩
    · rw [if_neg hA]
      by_cases hB : x < 0
      · rw [if_pos hB]
        exact ⟨rfl, by simp [stores], fun _ => ⟨rfl, rfl, rfl⟩, fun h => absurd h.2 (by omega)⟩
      · rw [if_neg hB]
        exact ⟨rfl, by simp [stores], fun h => absurd ⟨hA, by omega⟩ h,
          fun _ => ⟨rfl, rfl, rfl,
            [.copied c, .computed .copy x, .testAbove .copy false, .testBelow .copy false], rfl, rfl⟩⟩
  · simp only [specBody, if_true, ← hc]
    by_cases hB : x < 0
    · rw [if_pos hB]
      exact ⟨rfl, by simp [stores], fun _ => ⟨rfl, rfl, rfl⟩, fun h => absurd h.2 (by omega)⟩
    · rw [if_neg hB]
      by_cases hA : Above c x
      · rw [if_pos hA]
        exact ⟨rfl, by simp [stores], fun _ => ⟨rfl, rfl, rfl⟩, fun h => absurd hA h.1⟩
      · rw [if_neg hA]
        exact ⟨rfl, by simp [stores], fun h => absurd ⟨hA, by omega⟩ h,
          fun _ => ⟨rfl, rfl, rfl,
            [.copied c, .computed .copy x, .testBelow .copy false, .testAbove .copy false], rfl, rfl⟩⟩

/-! ### the runs end where the functional models end -/

theorem iadd_eq (n : Net) (k : Int) :
    iadd n k = if Above n (newValue false n k) then .error .index
               else if newValue false n k < 0 then .error .index
               else .ok { n with val := (newValue false n k).toNat } := rfl

theorem isub_eq (n : Net) (k : Int) :
    isub n k = if newValue true n k < 0 then .error .index
               else if Above n (newValue true n k) then .error .index
               else .ok { n with val := (newValue true n k).toNat } := rfl

/-- the statement-level runs of `n += k` / `n -= k` end with the receiver and the exception of
    `Subnet.stepIadd` / `Subnet.stepIsub` (the functions behind the driver ops `iadd` / `isub`
    and behind `C11.iadd_spec`, `isub_spec`, `step_failure`) -/
theorem stepRun_eq_step (n : Net) (k : Int) :
    (iaddRun n k).stepResult = stepIadd n k ∧ (isubRun n k).stepResult = stepIsub n k := by
  constructor
  · show (runStmts (body .recv false k) { recv := n }).stepResult = _
    rw [runStmts_body .recv false k _ n rfl rfl]
    simp only [specBody, Bool.false_eq_true, if_false, stepIadd, iadd_eq]
    by_cases hA : Above n (newValue false n k)
    · rw [if_pos hA, if_pos hA]; rfl
    · rw [if_neg hA, if_neg hA]
      by_cases hB : newValue false n k < 0
      · rw [if_pos hB, if_pos hB]; rfl
      · rw [if_neg hB, if_neg hB]; rfl
  · show (runStmts (body .recv true k) { recv := n }).stepResult = _
    rw [runStmts_body .recv true k _ n rfl rfl]
    simp only [specBody, if_true, stepIsub, isub_eq]
    by_cases hB : newValue true n k < 0
    · rw [if_pos hB, if_pos hB]; rfl
    · rw [if_neg hB, if_neg hB]
      by_cases hA : Above n (newValue true n k)
      · rw [if_pos hA, if_pos hA]; rfl
      · rw [if_neg hA, if_neg hA]; rfl

/-- the statement-level runs of `n.next(k)` / `n.previous(k)` return what `Subnet.next` /
    `Subnet.previous` return (the functions behind the driver ops `next` / `prev` and behind
    `C11.next_previous`), and leave the receiver as it was -/
theorem copyRun_eq_next_previous (n : Net) (k : Int) :
    (nextRun n k).result = (next n k, n) ∧ (prevRun n k).result = (previous n k, n) := by
  constructor
  · show (run (copyProg false k) n).result = _
    rw [run_copyProg]
    simp only [specBody, Bool.false_eq_true, if_false, next, iadd_eq]
    by_cases hA : Above (netCopy n) (newValue false (netCopy n) k)
    · rw [if_pos hA, if_pos hA]; rfl
    · rw [if_neg hA, if_neg hA]
      by_cases hB : newValue false (netCopy n) k < 0
      · rw [if_pos hB, if_pos hB]; rfl
      · rw [if_neg hB, if_neg hB]; rfl
  · show (run (copyProg true k) n).result = _
    rw [run_copyProg]
    simp only [specBody, if_true, previous, isub_eq]
    by_cases hB : newValue true (netCopy n) k < 0
    · rw [if_pos hB, if_pos hB]; rfl
    · rw [if_neg hB, if_neg hB]
      by_cases hA : Above (netCopy n) (newValue true (netCopy n) k)
      · rw [if_pos hA, if_pos hA]; rfl
      · rw [if_neg hA, if_neg hA]; rfl

/-! ### the tests in the property's terms -/

/-- the two tests cannot both fire on a well-formed network (the block size is at most
    `max_int + 1`), so their order — `> max_int` first in `__iadd__`, `< 0` first in `__isub__` —
    decides neither the outcome nor the exception class -/
theorem tests_exclusive (n : Net) (hn : n.WF) (x : Int) : ¬ (Above n x ∧ x < 0) := by
  obtain ⟨_, hv, hp⟩ := hn
  have hsz := netSize_eq (width n.ver) n.val n.plen hv
  have hle : 2 ^ (width n.ver - n.plen) ≤ 2 ^ width n.ver := Nat.pow_le_pow_right (by omega) (by omega)
  have hW := pw (width n.ver)
  unfold Above maxInt
  rw [hsz]
  omega

/-- "both tests pass" is the acceptance condition of `C11.iadd_spec` / `isub_spec`: with `S` the
    block size and `F` the network address, `0 ≤ F ± k·S` and `F ± k·S + S ≤ 2^width`; and
    `newValue` is that `F ± k·S` -/
theorem inRange_iff (minus : Bool) (n : Net) (hn : n.WF) (k : Int) :
    let S : Int := ((2 ^ (width n.ver - n.plen) : Nat) : Int)
    let F : Int := (n.first : Nat)
    newValue minus n k = (if minus then F - S * k else F + S * k) ∧
    (InRange n (newValue minus n k) ↔
      0 ≤ newValue minus n k ∧ newValue minus n k + S ≤ ((2 ^ width n.ver : Nat) : Int)) := by
  intro S F
  obtain ⟨_, hv, hp⟩ := hn
  have hsz := netSize_eq (width n.ver) n.val n.plen hv
  have hW := pw (width n.ver)
  have hSp := pw (width n.ver - n.plen)
  have hF : F = ((netNetwork (width n.ver) n.val n.plen : Nat) : Int) := rfl
  have hnv : newValue minus n k = (if minus then F - S * k else F + S * k) := by
    unfold newValue; rw [hsz, ← hF]
  refine ⟨hnv, ?_⟩
  generalize newValue minus n k = x
  unfold InRange Above maxInt
  rw [hsz]
  omega

/-! ### non-vacuity: an accepted step, a step refused above, a step refused below — logs,
results, and the hypotheses of the theorems above -/

example :
    (iaddRun ⟨4, 0xC0000205, 28⟩ 1).log =
      [.computed .recv 0xC0000210, .testAbove .recv false, .testBelow .recv false,
       .store .recv 0xC0000210, .ret .recv] ∧
    (iaddRun ⟨4, 0xC0000205, 28⟩ 1).stepResult = (⟨4, 0xC0000210, 28⟩, none) ∧
    (iaddRun ⟨4, 0xFFFFFFF5, 28⟩ 1).log =
      [.computed .recv 0x100000000, .testAbove .recv true, .raise .index] ∧
    (iaddRun ⟨4, 0xFFFFFFF5, 28⟩ 1).stepResult = (⟨4, 0xFFFFFFF5, 28⟩, some .index) ∧
    (isubRun ⟨6, 5, 126⟩ 2).log = [.computed .recv (-4), .testBelow .recv true, .raise .index] ∧
    (isubRun ⟨6, 5, 126⟩ (-1)).log =
      [.computed .recv 8, .testBelow .recv false, .testAbove .recv false, .store .recv 8, .ret .recv] := by
  decide +kernel

example :
    (nextRun ⟨4, 0xC0000205, 28⟩ 2).log =
      [.copied ⟨4, 0xC0000200, 28⟩, .computed .copy 0xC0000220, .testAbove .copy false,
       .testBelow .copy false, .store .copy 0xC0000220, .ret .copy] ∧
    (nextRun ⟨4, 0xC0000205, 28⟩ 2).result = (.ok ⟨4, 0xC0000220, 28⟩, ⟨4, 0xC0000205, 28⟩) ∧
    (prevRun ⟨4, 5, 28⟩ 1).log =
      [.copied ⟨4, 0, 28⟩, .computed .copy (-16), .testBelow .copy true, .raise .index] ∧
    (prevRun ⟨4, 5, 28⟩ 1).result = (.error .index, ⟨4, 5, 28⟩) ∧
    (nextRun ⟨4, 0xC0000205, 28⟩ 2).log.filterMap Ev.observable =
      ["c:wv:3221225984,c:wp:28,c:wm", "c:wv:3221226016"] := by
  decide +kernel

/-- both sides of `InRange` occur -/
example : InRange ⟨4, 0xC0000205, 28⟩ (newValue false ⟨4, 0xC0000205, 28⟩ 1) ∧
    ¬ InRange ⟨4, 0xFFFFFFF5, 28⟩ (newValue false ⟨4, 0xFFFFFFF5, 28⟩ 1) ∧
    ¬ InRange ⟨6, 5, 126⟩ (newValue true ⟨6, 5, 126⟩ 2) := by decide +kernel

/-- a body that stored BEFORE testing is a different statement list with a different log: the
    store shows in front of the tests and the receiver has moved although IndexError is raised —
    this is what `inplace_store_after_tests` excludes for the code's order -/
example :
    let st := run [.compute .recv false 1, .store .recv, .ifAboveRaise .recv, .ifBelowRaise .recv, .ret .recv]
      ⟨4, 0xFFFFFFF5, 28⟩
    stores st.log = [(.recv, 0x100000000)] ∧ st.out = some (.error .index) ∧ st.recv ≠ ⟨4, 0xFFFFFFF5, 28⟩ := by
  decide +kernel

/-! ### finding 2: the generator at `limit = 0` -/

/-- **`list(islice(n.subnet(q, count), 0))` is `[]` whatever the arguments** — a generator body
    does not run before the first `next()`, so neither the prefix check, nor the count check, nor
    the loop is reached (ip/__init__.py:1295-1334; e.g.
    `list(islice(IPNetwork('10.0.0.0/24').subnet(25, 99), 0)) == []`).  No well-formedness
    hypothesis. -/
theorem subnetTake_zero (n : Net) (q : Int) (count : Option Int) : subnetTake n q count 0 = .ok [] := by
  unfold subnetTake; rw [if_pos rfl]

/-- with at least one item asked for, the checks run first (at the first `next()`), then the
    loop for `min count limit` turns -/
theorem subnetTake_pos (n : Net) (q : Int) (count : Option Int) (limit : Nat) (h : 0 < limit) :
    subnetTake n q count limit =
      match subnetCount n q count with
      | .error e => .error e
      | .ok none => .ok []
      | .ok (some c) => subnetLoop n q.toNat (min c limit) 0 [] := by
  unfold subnetTake; rw [if_neg (by omega)]
  cases subnetCount n q count with
  | error e => rfl
  | ok o => cases o <;> rfl

/-- the count that `C11.subnetTake_spec` rejects with `ValueError` for every positive limit goes
    unnoticed at limit 0 -/
example : subnetTake ⟨4, 0x0A000000, 24⟩ 25 (some 99) 0 = .ok [] ∧
    subnetTake ⟨4, 0x0A000000, 24⟩ 25 (some 99) 1 = .error .value ∧
    subnetTake ⟨4, 0x0A000000, 24⟩ 25 (some 2) 1 = .ok [⟨4, 0x0A000000, 25⟩] := by decide +kernel

end NV.C11A2
