/-
Props/C17Nmap.lean — property C17, nmap half, second layer: the statements of Props/C17.lean
(which hold for every pair of foreign parsers) instantiated with the parsers the Python really
calls, `Nmap.realForeign be` = (`IPNetwork(spec)` of C03, `IPAddress(spec)` of C01); the
parse-phase / enumeration-phase structure; several specs in one call; the independent grammar.

   "... valid_nmap_range(spec) is True exactly when iter_nmap_range(spec) succeeds, and iteration
    yields, ascending and without duplicates, exactly the addresses whose every octet belongs to
    that octet's comma/hyphen list (or the addresses of the IPv4 CIDR / the single IPv6 address
    given)."

The driver ops `nmap`, `nmap_plan`, `nmap_multi`, `nmap_islice` run `validNmapRange`,
`iterNmapRange`, `parsePlan` + `Plan.items`, `iterNmapRanges`, `isliceNmapRanges` with
`realForeign .platform`; every theorem below is about those definitions (for both back ends).
-/
import NetaddrVerif.Props.C17
import NetaddrVerif.Props.C03
import NetaddrVerif.Props.C01
import NetaddrVerif.Lemmas.C17LPlan
import NetaddrVerif.Lemmas.C17LNmapGrammar
import NetaddrVerif.Lemmas.C17LCidrGrammar
namespace NV.C17
open NV NV.Nmap NV.Text4 NV.AddrParse NV.NetParse NV.C17L.Plan NV.C17L.Grammar NV.C17L.PyLit NV.C17L.Cidr

/-! ## errors arise only before the first item

`_parse_nmap_target_spec` (nmap.py:69-89) is a generator function.  Its `raise` statements and the
calls that can raise are: nmap.py:71 `target_spec.split('/', 1)` (cannot raise on a str with '/'),
:72 `int(prefix)` (ValueError), :73 the range guard (AddrFormatError), :75 `IPNetwork(target_spec)`
(AddrFormatError), :76-77 the version guard (AddrFormatError) — all before the `for ip in net:
yield ip` of :78-79; :82 `IPAddress(target_spec)` (AddrFormatError), evaluated before its value is
yielded; :84 `_generate_nmap_octet_ranges(target_spec)` (ValueError / AddrFormatError: blank
spec, not four tokens, a bad element) — before the four loops of :85-89.  After the first
`yield` the function only walks an existing IPv4 network (`IPNetwork.__iter__` builds addresses
from integers inside the block) or formats octets the guards of `_nmap_octet_target_values` keep
in 0..255.  In the model this is the split `parsePlan` (returns `R Plan`, contains every error)
/ `Plan.items` (a total function on plans).
-/

/-- **Errors only before the first item.**  Iterating one spec is "parse, then enumerate": the
    result is an error exactly when the parse phase `parsePlan` fails, with that error, whatever
    positive number of items is asked for — the parse phase runs at the first `next()`, before
    anything has been yielded; when the parse succeeds the items are the first `fuel` of the
    plan's whole (non-empty) enumeration `Plan.all`.
    `0 < fuel` was added after audit 2b finding 2: the earlier statement claimed the error "also
    for `fuel = 0`", which is FALSE of the code (a generator does not run before the first
    `next()`: `list(islice(iter_nmap_range('bad'), 0)) == []`); for `fuel = 0` see
    `C17A2.nmap_take_zero`. -/
theorem nmap_errors_in_parse (F : Foreign) (fuel : Nat) (_hf : 0 < fuel) (spec : List Char) :
    iterNmapRange F fuel spec = (parsePlan F spec).map (Plan.items fuel) ∧
    (∀ p, parsePlan F spec = .ok p → p.items fuel = p.all.take fuel ∧ p.all ≠ []) :=
  ⟨parseTargetSpec_eq_plan F fuel spec, fun p hp => ⟨items_eq_take p fuel, plan_all_ne_nil F spec p hp⟩⟩

/-- `valid_nmap_range(spec)` is `True` exactly when the parse phase succeeds; it is `False` when
    the parse phase raises a class it catches and lets any other exception through -/
theorem nmap_valid_iff_parse (F : Foreign) (spec : List Char) :
    validNmapRange F spec =
      match parsePlan F spec with
      | .ok _ => .ok true
      | .error e => if caught e then .ok false else .error e := by
  rw [nmap_valid_iff_iter_ok F 1 (by omega) spec, (nmap_errors_in_parse F 1 (by omega) spec).1]
  cases parsePlan F spec <;> rfl

theorem nmap_valid_true_iff (F : Foreign) (spec : List Char) :
    validNmapRange F spec = .ok true ↔ ∃ p, parsePlan F spec = .ok p := by
  rw [nmap_valid_iff_parse]
  cases parsePlan F spec with
  | ok p => simp
  | error e => by_cases hc : caught e <;> simp [hc]

example : parsePlan noForeign "10.0.0-1.4,2-3,3".toList = .ok (.octets [10] [0] [0, 1] [2, 3, 4]) := by decide +kernel

/-! ## the CIDR form with the real `IPNetwork` -/

theorem split1_app (c : Char) (a t : List Char) (ha : c ∉ a) : split1 c (a ++ c :: t) = (a, t) := by
  obtain ⟨e1, e2⟩ := takeWhile_ne_app c a t ha
  unfold split1; rw [e1, e2]

theorem not_mem_of_contains_false {s : List Char} {c : Char} (h : s.contains c = false) : c ∉ s := by
  intro hm
  rw [List.contains_iff_mem.2 hm] at h; cases h

/-- **CIDR form, canonical spelling.**  For the text of an IPv4 address `v`, '/', and the decimal
    text of `p` with `1 ≤ p ≤ 32`, iteration yields, ascending, exactly the `2^(32-p)` addresses
    of the block of `v`: `first = v` with the low `32-p` bits cleared, up to `first + 2^(32-p) - 1`
    (first `fuel` of them). -/
theorem nmap_cidr_real (be : Backend) (fuel : Nat) (v p : Nat) (hv : v < 2 ^ 32) (hp1 : 1 ≤ p) (hp : p ≤ 32) :
    iterNmapRange (realForeign be) fuel (ntoa v ++ '/' :: dec p) =
      .ok ((((List.range (2 ^ (32 - p))).map (v / 2 ^ (32 - p) * 2 ^ (32 - p) + ·)).take fuel).map (fun a => ⟨4, a⟩)) := by
  have hns : '/' ∉ ntoa v := not_mem_of_contains_false (C03L.addr_noslash be 4 (Or.inl rfl) v hv)
  have hmem : '/' ∈ ntoa v ++ '/' :: dec p := by simp
  rw [nmap_cidr_model (realForeign be) fuel _ hmem, split1_app '/' _ _ hns]
  simp only [C03L.pyInt_dec]
  have hg : ¬ ¬ ((0 : Int) < (p : Int) ∧ (p : Int) < 33) := by omega
  simp only [hg, if_false]
  have hnet := C03.net_with_prefix be 4 (Or.inl rfl) v hv (dec p) p (C03L.slash_not_in_dec p)
    (C03L.resolve_dec be 4 p) hp 0 none (Or.inl rfl)
  have hfl : hasFlag 0 NOHOST = false := by decide
  rw [hfl] at hnet
  have hnet' : (realForeign be).ipNetwork (ntoa v ++ '/' :: dec p) = .ok ⟨4, v, p⟩ := hnet
  simp only [hnet', ne_eq, not_true_eq_false, if_false]
  have hfirst : (⟨4, v, p⟩ : Net).first = v / 2 ^ (32 - p) * 2 ^ (32 - p) := NV.netFirst_eq 32 v p hv
  have hlast : (⟨4, v, p⟩ : Net).last = v / 2 ^ (32 - p) * 2 ^ (32 - p) + (2 ^ (32 - p) - 1) := NV.netLast_eq 32 v p
  have hB := NV.two_pow_pos (32 - p)
  rw [hfirst, hlast]
  have : v / 2 ^ (32 - p) * 2 ^ (32 - p) + (2 ^ (32 - p) - 1) + 1 - v / 2 ^ (32 - p) * 2 ^ (32 - p) = 2 ^ (32 - p) := by
    omega
  rw [this]

example : iterNmapRange (realForeign .platform) 4096 "192.0.2.9/30".toList =
    .ok [⟨4, 3221225992⟩, ⟨4, 3221225993⟩, ⟨4, 3221225994⟩, ⟨4, 3221225995⟩] :=
  nmap_cidr_real .platform 4096 3221225993 30 (by decide) (by decide) (by decide)

/-- **CIDR form, every accepted spelling.**  `addr '/' prefix` where `addr` is in the grammar
    `CidrAddr` with value `v` (one to four dot-separated `int()` literals 0..255, missing octets
    zero: "10/8", "010.0.0.1/8", " 1.2.3.4/8") and `prefix` is an `int()` literal of `p`,
    `1 ≤ p ≤ 32` ("/ 8", "/+8", "/0_8"): iteration yields, ascending, exactly the `2^(32-p)`
    addresses of the block of `v`. -/
theorem nmap_cidr_grammar (be : Backend) (fuel : Nat) (a t : List Char) (v p : Nat) (ha : CidrAddr a v)
    (ht : IntLit t (p : Int)) (hp1 : 1 ≤ p) (hp : p ≤ 32) :
    iterNmapRange (realForeign be) fuel (a ++ '/' :: t) =
      .ok ((((List.range (2 ^ (32 - p))).map (v / 2 ^ (32 - p) * 2 ^ (32 - p) + ·)).take fuel).map (fun a => ⟨4, a⟩)) := by
  have hns : '/' ∉ a := cidrAddr_noslash ha
  have hv : v < 2 ^ 32 := cidrAddr_lt ha
  have hmem : '/' ∈ a ++ '/' :: t := by simp
  rw [nmap_cidr_model (realForeign be) fuel _ hmem, split1_app '/' _ _ hns]
  simp only [(pyInt_iff t _).2 ht]
  have hg : ¬ ¬ ((0 : Int) < (p : Int) ∧ (p : Int) < 33) := by omega
  simp only [hg, if_false]
  have hnet : (realForeign be).ipNetwork (a ++ '/' :: t) = .ok ⟨4, v, p⟩ :=
    ((cidr_net_iff be a t p hns ht hp ⟨4, v, p⟩).2 ⟨v, ha, rfl⟩).1
  simp only [hnet, ne_eq, not_true_eq_false, if_false]
  have hfirst : (⟨4, v, p⟩ : Net).first = v / 2 ^ (32 - p) * 2 ^ (32 - p) := NV.netFirst_eq 32 v p hv
  have hlast : (⟨4, v, p⟩ : Net).last = v / 2 ^ (32 - p) * 2 ^ (32 - p) + (2 ^ (32 - p) - 1) := NV.netLast_eq 32 v p
  have hB := NV.two_pow_pos (32 - p)
  rw [hfirst, hlast]
  have : v / 2 ^ (32 - p) * 2 ^ (32 - p) + (2 ^ (32 - p) - 1) + 1 - v / 2 ^ (32 - p) * 2 ^ (32 - p) = 2 ^ (32 - p) := by
    omega
  rw [this]

example : CidrAddr "010. 0".toList 167772160 := by
  have h0 : NV.C17L.Cidr.Oct "010".toList 10 := ⟨(pyInt_iff _ _).1 (by decide), by decide⟩
  have h1 : NV.C17L.Cidr.Oct " 0".toList 0 := ⟨(pyInt_iff _ _).1 (by decide), by decide⟩
  exact CidrAddr.two h0 h1

/-- **CIDR form, exception classes.**  For any spec containing '/': ValueError exactly when the
    text after the first '/' is not an `int()` literal (grammar `IntLit`: "x/y", a netmask
    "1.2.3.4/255.255.255.0", a second slash "1.2.3.4/8/9", an empty prefix "1.2.3.4/");
    every other failure is AddrFormatError.  (`0 < fuel`, here and in the three theorems that
    follow, added after audit 2b finding 2: at `fuel = 0` the generator has not started and nothing
    is raised, so the statements without it were FALSE of the code.) -/
theorem nmap_cidr_error_classes (be : Backend) (fuel : Nat) (_hf : 0 < fuel) (spec : List Char) (h1 : '/' ∈ spec) :
    (iterNmapRange (realForeign be) fuel spec = .error .value ↔ ¬ ∃ z, IntLit (split1 '/' spec).2 z) ∧
    (∀ e, iterNmapRange (realForeign be) fuel spec = .error e → e = .value ∨ e = .addrFormat) := by
  rw [nmap_cidr_model (realForeign be) fuel spec h1]
  cases hp : Py.pyInt 10 (split1 '/' spec).2 with
  | none =>
    refine ⟨⟨fun _ => ?_, fun _ => rfl⟩, fun e h => ?_⟩
    · rintro ⟨z, hz⟩
      rw [(pyInt_iff _ z).2 hz] at hp; cases hp
    · left; cases h; rfl
  | some p =>
    have hlit : ∃ z, IntLit (split1 '/' spec).2 z := ⟨p, (pyInt_iff _ p).1 hp⟩
    simp only
    by_cases hg : (0 < p ∧ p < 33)
    · have hg' : ¬ ¬ (0 < p ∧ p < 33) := fun h => h hg
      simp only [hg', if_false]
      cases hn : (realForeign be).ipNetwork spec with
      | error e' =>
        have : e' = .addrFormat := C03.error_is_addrformat be spec false none 0 e' (Or.inl rfl) hn
        subst this
        refine ⟨⟨fun h => (by cases h), fun h => absurd hlit h⟩, fun e h => ?_⟩
        right; cases h; rfl
      | ok net =>
        simp only
        by_cases hv : net.ver ≠ 4
        · rw [if_pos hv]
          refine ⟨⟨fun h => (by cases h), fun h => absurd hlit h⟩, fun e h => ?_⟩
          right; cases h; rfl
        · rw [if_neg hv]
          exact ⟨⟨fun h => (by cases h), fun h => absurd hlit h⟩, fun e h => by cases h⟩
    · simp only [hg, not_false_eq_true, if_true]
      refine ⟨⟨fun h => (by cases h), fun h => absurd hlit h⟩, fun e h => ?_⟩
      right; cases h; rfl

/-- **Prefix outside 1..32**: whatever stands before the first '/', a prefix text that is an
    `int()` literal of a value outside 1..32 ("/0", "/33", "/128", a negative number, "/ 0_0") raises
    AddrFormatError — before `IPNetwork` is even called. -/
theorem nmap_cidr_prefix_range (F : Foreign) (fuel : Nat) (_hf : 0 < fuel) (a t : List Char) (z : Int) (ha : '/' ∉ a)
    (ht : IntLit t z) (hz : ¬ (1 ≤ z ∧ z ≤ 32)) :
    iterNmapRange F fuel (a ++ '/' :: t) = .error .addrFormat ∧ validNmapRange F (a ++ '/' :: t) = .ok false := by
  have hmem : '/' ∈ a ++ '/' :: t := by simp
  have hit : ∀ fuel, iterNmapRange F fuel (a ++ '/' :: t) = .error .addrFormat := by
    intro fuel
    rw [nmap_cidr_model F fuel _ hmem, split1_app '/' _ _ ha]
    simp only [(pyInt_iff t z).2 ht]
    have hg : ¬ (0 < z ∧ z < 33) := by omega
    simp only [hg, not_false_eq_true, if_true]
  refine ⟨hit fuel, ?_⟩
  rw [nmap_valid_iff_iter_ok F 1 (by omega), hit 1]
  simp [caught]

example : iterNmapRange (realForeign .platform) 5 "10.0.0.0/0".toList = .error .addrFormat :=
  (nmap_cidr_prefix_range _ 5 (by decide) "10.0.0.0".toList "0".toList 0 (by decide) ((pyInt_iff _ _).1 (by decide)) (by decide)).1
example : iterNmapRange (realForeign .platform) 5 "10.0.0.0/33".toList = .error .addrFormat :=
  (nmap_cidr_prefix_range _ 5 (by decide) "10.0.0.0".toList "33".toList 33 (by decide) ((pyInt_iff _ _).1 (by decide)) (by decide)).1
example : iterNmapRange (realForeign .platform) 5 "::1/128".toList = .error .addrFormat :=
  (nmap_cidr_prefix_range _ 5 (by decide) "::1".toList "128".toList 128 (by decide) ((pyInt_iff _ _).1 (by decide)) (by decide)).1

/-- **Second slash**: a '/' in the text after the first '/' makes it a non-literal: ValueError -/
theorem nmap_cidr_second_slash (be : Backend) (fuel : Nat) (hf : 0 < fuel) (a t : List Char) (ha : '/' ∉ a) (ht : '/' ∈ t) :
    iterNmapRange (realForeign be) fuel (a ++ '/' :: t) = .error .value := by
  have hmem : '/' ∈ a ++ '/' :: t := by simp
  rw [(nmap_cidr_error_classes be fuel hf _ hmem).1, split1_app '/' _ _ ha]
  rintro ⟨z, hz⟩
  rcases intLit_charset t z hz '/' ht with h | h | h | h | ⟨d, h⟩
  · exact ws_not_special h (Or.inr (Or.inr (Or.inl rfl)))
  · cases h
  · cases h
  · cases h
  · exact digit_not_special h (Or.inr (Or.inr (Or.inl rfl)))

/-- **IPv6 CIDRs are refused**: the text of an IPv6 address, '/', a prefix in 1..32 — the guard
    passes, `IPNetwork` builds an IPv6 network, the version guard raises AddrFormatError
    ("CIDR only support for IPv4!"); with a prefix above 32 `nmap_cidr_prefix_range` applies. -/
theorem nmap_cidr_v6_rejected (be : Backend) (fuel : Nat) (_hf : 0 < fuel) (v p : Nat) (hv : v < 2 ^ 128) (hp1 : 1 ≤ p) (hp : p ≤ 32) :
    iterNmapRange (realForeign be) fuel (intToStr be 6 v ++ '/' :: dec p) = .error .addrFormat := by
  have hns : '/' ∉ intToStr be 6 v := not_mem_of_contains_false (C03L.addr_noslash be 6 (Or.inr rfl) v hv)
  have hmem : '/' ∈ intToStr be 6 v ++ '/' :: dec p := by simp
  rw [nmap_cidr_model (realForeign be) fuel _ hmem, split1_app '/' _ _ hns]
  simp only [C03L.pyInt_dec]
  have hg : ¬ ¬ ((0 : Int) < (p : Int) ∧ (p : Int) < 33) := by omega
  simp only [hg, if_false]
  have hw : p ≤ width 6 := by show p ≤ 128; omega
  have hnet := C03.net_with_prefix be 6 (Or.inr rfl) v hv (dec p) p (C03L.slash_not_in_dec p)
    (C03L.resolve_dec be 6 p) hw 0 none (Or.inl rfl)
  have hfl : hasFlag 0 NOHOST = false := by decide
  rw [hfl] at hnet
  have hnet' : (realForeign be).ipNetwork (intToStr be 6 v ++ '/' :: dec p) = .ok ⟨6, v, p⟩ := hnet
  simp only [hnet']
  rfl

example : iterNmapRange (realForeign .platform) 5 "x/y".toList = .error .value := by decide +kernel
example : iterNmapRange (realForeign .platform) 5 "1.2.3.4/255.255.255.0".toList = .error .value := by decide +kernel
example : iterNmapRange (realForeign .platform) 5 "fe80::/10".toList = .error .addrFormat := by decide +kernel
example : iterNmapRange (realForeign .platform) 2 "10/8".toList = .ok [⟨4, 167772160⟩, ⟨4, 167772161⟩] := by decide +kernel

/-! ## the ':' form with the real `IPAddress` -/

theorem strToInt4_flags0 (be : Backend) (s : List Char) :
    strToInt4 be s 0 = match Text4.aton s with | some v => .ok v | none => .error .addrFormat := by
  have h1 : hasFlag 0 ZEROFILL = false := by decide
  have h2 : hasFlag 0 INET_PTON = false := by decide
  simp only [strToInt4, h1, h2, Bool.false_eq_true, if_false]
  cases Text4.aton s <;> rfl

/-- **The ':' form, exactly.**  For a spec with ':' and without '/', `IPAddress(spec)` tries the
    default IPv4 reader first (`inet_aton`, which ignores everything after a blank — the only way
    it can accept a text containing ':', e.g. "1.2.3.4 :"), then the strict IPv6 reader: the
    single item is the `inet_aton` value if there is one, else the IPv6 address `v` when the spec
    is an RFC 4291 text of `v`; otherwise AddrFormatError. -/
theorem nmap_colon_real (be : Backend) (fuel : Nat) (hf : 0 < fuel) (spec : List Char) (h1 : '/' ∉ spec) (h2 : ':' ∈ spec) :
    iterNmapRange (realForeign be) fuel spec =
      match Text4.aton spec with
      | some v => .ok [⟨4, v⟩]
      | none => match inetPton6 be spec with
        | some v => .ok [⟨6, v⟩]
        | none => .error .addrFormat := by
  rw [nmap_addr (realForeign be) fuel hf spec h1 h2]
  have c1 : spec.contains '/' = false := by
    rw [Bool.eq_false_iff]; intro h; exact h1 (List.contains_iff_mem.1 h)
  show (ipAddress be spec none 0).map _ = _
  simp only [ipAddress, c1, Bool.false_eq_true, if_false, strToInt4_flags0, strToInt6]
  cases Text4.aton spec with
  | some v => rfl
  | none =>
    simp only
    cases inetPton6 be spec <;> rfl

/-- **The single IPv6 address given.**  If the spec is an RFC 4291 text of `v` (the independent
    grammar of C01), iteration yields exactly the IPv6 address `v`, and `valid_nmap_range` is True. -/
theorem nmap_v6_real (be : Backend) (fuel : Nat) (hf : 0 < fuel) (spec : List Char) (v : Nat)
    (h : C01G.Rfc4291 spec v) :
    iterNmapRange (realForeign be) fuel spec = .ok [⟨6, v⟩] ∧ validNmapRange (realForeign be) spec = .ok true := by
  have hapi : ipAddress be spec none 0 = .ok ⟨6, v⟩ := (C01.strict6_api be spec v 0).2.2 h
  have h1 : '/' ∉ spec := by
    intro hm
    have := (C01.slash_refused be spec 0 (List.contains_iff_mem.2 hm)).1
    rw [this] at hapi; cases hapi
  have h2 : ':' ∈ spec := by
    obtain ⟨pre, r, e, _⟩ := C01G.rfc4291_shape spec v h
    rw [e]; simp
  have hit : ∀ fuel, 0 < fuel → iterNmapRange (realForeign be) fuel spec = .ok [⟨6, v⟩] := by
    intro fuel hf
    rw [nmap_addr (realForeign be) fuel hf spec h1 h2]
    show (ipAddress be spec none 0).map _ = _
    rw [hapi]; rfl
  refine ⟨hit fuel hf, ?_⟩
  rw [nmap_valid_iff_iter_ok _ 1 (by omega), hit 1 (by omega)]

example : iterNmapRange (realForeign .platform) 7 "fe80::1".toList = .ok [⟨6, 0xfe800000000000000000000000000001⟩] :=
  (nmap_v6_real .platform 7 (by decide) _ _ ((C01.strict6_iff .platform _ _).mp (by decide))).1
/-- the `inet_aton` tail: a spec with ':' that yields an IPv4 address -/
example : iterNmapRange (realForeign .platform) 7 "1.2.3.4 :".toList = .ok [⟨4, 16909060⟩] := by decide +kernel
example : iterNmapRange (realForeign .platform) 7 "1.2.3.4:".toList = .error .addrFormat := by decide +kernel

/-! ## several specs in one call -/

/-- whether a spec iterates is what `valid_nmap_range` says about it (nmap.py's
    `iter_nmap_range` does not call `valid_nmap_range`; it runs the same generator on each
    argument, so the spec at which a call fails is the first one `valid_nmap_range` rejects).
    `0 < fuel` added after audit 2b finding 2 (with `fuel = 0` nothing runs, so every spec
    "iterates": the left-to-right direction was FALSE of the code there). -/
theorem nmap_multi_valid (F : Foreign) (fuel : Nat) (hf : 0 < fuel) (s : List Char) :
    (∃ l, iterNmapRange F fuel s = .ok l) ↔ validNmapRange F s = .ok true := by
  rw [nmap_valid_true_iff, (nmap_errors_in_parse F fuel hf s).1]
  cases parsePlan F s with
  | ok p => simp [Except.map]
  | error e => simp [Except.map]

/-- the direction of `nmap_multi_valid` that holds for every `fuel`, 0 included (a spec that
    `valid_nmap_range` accepts iterates without an exception however many items are asked for) -/
theorem nmap_iter_ok_of_valid (F : Foreign) (fuel : Nat) (s : List Char) (h : validNmapRange F s = .ok true) :
    ∃ l, iterNmapRange F fuel s = .ok l := by
  obtain ⟨p, hp⟩ := (nmap_valid_true_iff F s).1 h
  refine ⟨p.items fuel, ?_⟩
  show parseTargetSpec F fuel s = _
  rw [parseTargetSpec_eq_plan, hp]; rfl

/-- **All specs fine**: `iter_nmap_range(*specs)` is the concatenation, in argument order, of
    the single-spec iterations, and raises nothing. -/
theorem nmap_multi_all_ok (F : Foreign) (fuel : Nat) (specs : List (List Char))
    (h : ∀ s ∈ specs, validNmapRange F s = .ok true) :
    iterNmapRanges F fuel specs = (specs.flatMap (itemsOf F fuel), none) :=
  ranges_all_ok F fuel specs (fun s hs => nmap_iter_ok_of_valid F fuel s (h s hs))

/-- **First failing spec**: the items of all earlier specs, in order, have been yielded when the
    first spec that `valid_nmap_range` rejects raises its own exception — at the point where its
    items would start; later specs are never looked at. -/
theorem nmap_multi_first_fail (F : Foreign) (fuel : Nat) (hf : 0 < fuel) (pre post : List (List Char)) (s : List Char)
    (hpre : ∀ x ∈ pre, validNmapRange F x = .ok true) (hs : validNmapRange F s ≠ .ok true) :
    ∃ e, iterNmapRange F fuel s = .error e ∧
      iterNmapRanges F fuel (pre ++ s :: post) = (pre.flatMap (itemsOf F fuel), some e) := by
  cases hit : iterNmapRange F fuel s with
  | ok l => exact absurd ((nmap_multi_valid F fuel hf s).1 ⟨l, hit⟩) hs
  | error e =>
    exact ⟨e, rfl, ranges_first_fail F fuel pre post s e (fun x hx => nmap_iter_ok_of_valid F fuel x (hpre x hx)) hit⟩

/-- the two situations are exhaustive -/
theorem nmap_multi_cases (F : Foreign) (specs : List (List Char)) :
    (∀ s ∈ specs, validNmapRange F s = .ok true) ∨
    ∃ pre s post, specs = pre ++ s :: post ∧ (∀ x ∈ pre, validNmapRange F x = .ok true) ∧ validNmapRange F s ≠ .ok true :=
  ok_or_first_fail (fun s => validNmapRange F s = .ok true) specs

example : iterNmapRanges (realForeign .platform) 4096 ["10.0.0.0/31".toList, "::1".toList, "1.2.3".toList, "9.9.9.9".toList] =
    ([⟨4, 167772160⟩, ⟨4, 167772161⟩, ⟨6, 1⟩], some .addrFormat) := by decide +kernel

/-- **One budget for the whole call** (`itertools.islice(iter_nmap_range(*specs), fuel)`): what
    the consumer sees is the unbounded run `fullTrace` — all items of the specs before the first
    one that fails to parse, then that spec's exception — cut after `fuel` items; an exception
    lying behind `fuel` or more items is never raised. -/
theorem nmap_islice (F : Foreign) (fuel : Nat) (specs : List (List Char)) :
    isliceNmapRanges F fuel specs = truncTrace fuel (fullTrace F specs) :=
  islice_eq F specs fuel

/-- the unbounded run: concatenation in argument order / stop at the first rejected spec -/
theorem nmap_trace (F : Foreign) :
    (∀ specs, (∀ s ∈ specs, validNmapRange F s = .ok true) → fullTrace F specs = (specs.flatMap (allOf F), none)) ∧
    (∀ pre s post, (∀ x ∈ pre, validNmapRange F x = .ok true) → validNmapRange F s ≠ .ok true →
      ∃ e, parsePlan F s = .error e ∧ fullTrace F (pre ++ s :: post) = (pre.flatMap (allOf F), some e)) := by
  constructor
  · intro specs h
    exact trace_all_ok F specs (fun s hs => (nmap_valid_true_iff F s).1 (h s hs))
  · intro pre s post hpre hs
    cases hp : parsePlan F s with
    | ok p => exact absurd ((nmap_valid_true_iff F s).2 ⟨p, hp⟩) hs
    | error e =>
      exact ⟨e, rfl, trace_first_fail F pre post s e (fun x hx => (nmap_valid_true_iff F x).1 (hpre x hx)) hp⟩

example : isliceNmapRanges (realForeign .platform) 2 ["10.0.0.0/31".toList, "1.2.3".toList] =
    ([⟨4, 167772160⟩, ⟨4, 167772161⟩], none) := by decide +kernel
example : isliceNmapRanges (realForeign .platform) 3 ["10.0.0.0/31".toList, "1.2.3".toList] =
    ([⟨4, 167772160⟩, ⟨4, 167772161⟩], some .addrFormat) := by decide +kernel

/-! ## the independent grammar -/

/-- the model's well-formedness of the octet-list form (stated through `int()` and the model's
    own split) is the grammar `OctetsSpec` -/
theorem octetsWF_iff_grammar (spec : List Char) : NmapOctetsWF spec ↔ OctetsSpec spec := by
  constructor
  · rintro ⟨_, t0, t1, t2, t3, hsp, w0, w1, w2, w3⟩
    refine ⟨t0, t1, t2, t3, ?_, (octetWF_iff t0).1 w0, (octetWF_iff t1).1 w1, (octetWF_iff t2).1 w2, (octetWF_iff t3).1 w3⟩
    rw [← hsp]; exact (List.intercalate_splitOn '.').symm
  · rintro ⟨t0, t1, t2, t3, rfl, h0, h1, h2, h3⟩
    refine ⟨?_, t0, t1, t2, t3, split_of_octetsSpec h0 h1 h2 h3, (octetWF_iff t0).2 h0, (octetWF_iff t1).2 h1,
      (octetWF_iff t2).2 h2, (octetWF_iff t3).2 h3⟩
    rw [intercalate4]; intro e
    have := congrArg List.length e
    simp at this

/-- **Octet-list form = the grammar.**  For a spec without '/' and ':' (any foreign parsers:
    they are not consulted) `valid_nmap_range` is True exactly on the strings of `OctetsSpec`. -/
theorem nmap_octets_valid_iff (F : Foreign) (spec : List Char) (h1 : '/' ∉ spec) (h2 : ':' ∉ spec) :
    validNmapRange F spec = .ok true ↔ OctetsSpec spec := by
  rw [← octetsWF_iff_grammar]
  constructor
  · intro h
    apply Classical.byContradiction
    intro hn
    rw [(nmap_rejects F 1 (by omega) spec h1 h2 hn).2] at h
    cases h
  · intro h
    obtain ⟨full, hit, _⟩ := nmap_yields F 1 spec h1 h2 h
    rw [nmap_valid_iff_iter_ok F 1 (by omega), hit]

theorem octetList_of_den {tok : List Char} {v : Nat} (h : OctetListDen tok v) : OctetList tok := by
  obtain ⟨els, e, h', el, hel, _⟩ := h
  refine ⟨els, ?_, e, h'⟩
  intro e'; subst e'; cases hel

/-- **Octet-list form, denotation in grammar terms.**  For a spec of the grammar, iteration
    yields the first `fuel` items of a non-empty, strictly ascending (hence duplicate-free) list
    whose members are exactly the IPv4 addresses each of whose octets is denoted by an element
    of that octet's list. -/
theorem nmap_yields_grammar (F : Foreign) (fuel : Nat) (spec : List Char) (h : OctetsSpec spec) :
    ∃ full : List Nat, iterNmapRange F fuel spec = .ok ((full.take fuel).map (fun v => ⟨4, v⟩)) ∧
      full ≠ [] ∧ full.Pairwise (· < ·) ∧ ∀ a, a ∈ full ↔ OctetsSpecDen spec a := by
  obtain ⟨h1, h2⟩ := octetsSpec_chars h
  have hwf := (octetsWF_iff_grammar spec).2 h
  obtain ⟨full, hit, hne, hs, hm⟩ := nmap_yields F fuel spec h1 h2 hwf
  refine ⟨full, hit, hne, hs, fun a => ?_⟩
  rw [hm a]
  obtain ⟨_, t0, t1, t2, t3, hsp, w0, w1, w2, w3⟩ := hwf
  have hspec : spec = ['.'].intercalate [t0, t1, t2, t3] := by rw [← hsp]; exact (List.intercalate_splitOn '.').symm
  constructor
  · rintro ⟨u0, u1, u2, u3, hsp', ha, m0, m1, m2, m3⟩
    rw [hsp] at hsp'
    simp only [List.cons.injEq, and_true] at hsp'
    obtain ⟨rfl, rfl, rfl, rfl⟩ := hsp'
    exact ⟨t0, t1, t2, t3, hspec, ha, (octetDen_iff t0 w0 _).1 m0, (octetDen_iff t1 w1 _).1 m1,
      (octetDen_iff t2 w2 _).1 m2, (octetDen_iff t3 w3 _).1 m3⟩
  · rintro ⟨u0, u1, u2, u3, hsp', ha, m0, m1, m2, m3⟩
    have l0 : OctetList u0 := octetList_of_den m0
    have l1 : OctetList u1 := octetList_of_den m1
    have l2 : OctetList u2 := octetList_of_den m2
    have l3 : OctetList u3 := octetList_of_den m3
    have hsplit := split_of_octetsSpec l0 l1 l2 l3
    rw [← hsp', hsp] at hsplit
    simp only [List.cons.injEq, and_true] at hsplit
    obtain ⟨rfl, rfl, rfl, rfl⟩ := hsplit
    exact ⟨t0, t1, t2, t3, hsp, ha, (octetDen_iff t0 w0 _).2 m0, (octetDen_iff t1 w1 _).2 m1,
      (octetDen_iff t2 w2 _).2 m2, (octetDen_iff t3 w3 _).2 m3⟩

/-- the strings `valid_nmap_range` accepts (no reference to any model function except C's
    `inet_aton` in the last, degenerate alternative) -/
inductive NmapGrammar : List Char → Prop
  /-- four comma/hyphen octet lists -/
  | octets {spec : List Char} : OctetsSpec spec → NmapGrammar spec
  /-- `cidraddr '/' prefix`: one to four `int()`-literal octets, the prefix an `int()` literal
      of a value in 1..32 -/
  | cidr {a t : List Char} {v p : Nat} : CidrAddr a v → IntLit t (p : Int) → 1 ≤ p → p ≤ 32 → NmapGrammar (a ++ '/' :: t)
  /-- an RFC 4291 IPv6 address text -/
  | addr6 {spec : List Char} {v : Nat} : C01G.Rfc4291 spec v → NmapGrammar spec
  /-- a text with ':' that `inet_aton` reads as an IPv4 address (the ':' sits behind a blank) -/
  | atonTail {spec : List Char} {v : Nat} : '/' ∉ spec → ':' ∈ spec → Text4.aton spec = some v → NmapGrammar spec

/-- **`valid_nmap_range` = the grammar**, for every string and both back ends -/
theorem nmap_valid_iff_grammar (be : Backend) (spec : List Char) :
    validNmapRange (realForeign be) spec = .ok true ↔ NmapGrammar spec := by
  constructor
  · intro h
    by_cases h1 : '/' ∈ spec
    · obtain ⟨p, hp⟩ := (nmap_valid_true_iff _ spec).1 h
      have c1 : spec.contains '/' = true := List.contains_iff_mem.2 h1
      obtain ⟨hel, hl⟩ := split_first '/' spec h1
      unfold parsePlan at hp
      simp only [c1, if_true, split1] at hp
      generalize spec.takeWhile (· != '/') = a at hp hel hl
      generalize (spec.dropWhile (· != '/')).drop 1 = t at hp hel
      cases hz : Py.pyInt 10 t with
      | none => simp [hz] at hp
      | some z =>
        simp only [hz] at hp
        split at hp
        · cases hp
        · rename_i hg
          cases hn : (realForeign be).ipNetwork spec with
          | error e => simp [hn] at hp
          | ok net =>
            simp only [hn] at hp
            split at hp
            · cases hp
            · rename_i hv
              have hz0 : 0 ≤ z := by omega
              obtain ⟨n, rfl⟩ := Int.eq_ofNat_of_zero_le hz0
              have hlit := (pyInt_iff t _).1 hz
              rw [hel] at hn ⊢
              obtain ⟨v, hc, _⟩ := (cidr_net_iff be a t n hl hlit (by omega) net).1 ⟨hn, by omega⟩
              exact .cidr hc hlit (by omega) (by omega)
    · by_cases h2 : ':' ∈ spec
      · have hit := nmap_colon_real be 1 (by omega) spec h1 h2
        rw [nmap_valid_iff_iter_ok _ 1 (by omega), hit] at h
        cases ha : Text4.aton spec with
        | some v => exact .atonTail h1 h2 ha
        | none =>
          cases h6 : inetPton6 be spec with
          | some v => exact .addr6 ((C01.strict6_iff be spec v).1 h6)
          | none => simp [ha, h6, caught] at h
      · exact .octets ((nmap_octets_valid_iff _ spec h1 h2).1 h)
  · intro h
    cases h with
    | octets h =>
      obtain ⟨h1, h2⟩ := octetsSpec_chars h
      exact (nmap_octets_valid_iff _ spec h1 h2).2 h
    | @cidr a t v p ha ht hp1 hp =>
      rw [nmap_valid_iff_iter_ok _ 1 (by omega), nmap_cidr_grammar be 1 a t v p ha ht hp1 hp]
    | addr6 h => exact (nmap_v6_real be 1 (by omega) spec _ h).2
    | atonTail h1 h2 ha =>
      rw [nmap_valid_iff_iter_ok _ 1 (by omega), nmap_colon_real be 1 (by omega) spec h1 h2, ha]

/-! grammar examples: int() leniencies are productions, '*' and empty elements are not -/
example : OctetsSpec "10.0.0-1.1,3-5,-2".toList := (octetsWF_iff_grammar _).1
  ⟨by decide, "10".toList, "0".toList, "0-1".toList, "1,3-5,-2".toList, by decide +kernel,
    by decide +kernel, by decide +kernel, by decide +kernel, by decide +kernel⟩
example : Element "0--0".toList 0 0 := (elemBounds_iff _ _ _).1 (by decide +kernel)
example : Element " +0_7 ".toList 7 7 := (elemBounds_iff _ _ _).1 (by decide +kernel)
example : Element "250-".toList 250 255 := (elemBounds_iff _ _ _).1 (by decide +kernel)
example : ¬ ∃ lo hi, Element "*".toList lo hi := by
  rintro ⟨lo, hi, h⟩
  have := (elemBounds_iff _ _ _).2 h
  have hn : elemBounds "*".toList = none := by decide +kernel
  rw [hn] at this; cases this
example : ¬ OctetList "1,,2".toList := by
  intro h
  have := (octetWF_iff _).2 h
  revert this; decide +kernel

end NV.C17
