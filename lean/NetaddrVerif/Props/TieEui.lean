/-
Props/TieEui.lean — translation tie, EUI group (C08): `EUI.is_iab`, `EUI.eui64`,
`IAB.split_iab_mac` translated from the CURRENT source text and proved equal to the model.
-/
import NetaddrVerif.Gen.Trans
import NetaddrVerif.Lemmas.TieL
import NetaddrVerif.Model.Eui
namespace NV.Tie
open NV NV.Trans NV.Eui NV.Gen

theorem inNat_cast (n : Nat) (l : List Nat) : Py.inNat (n : Int) l ↔ l.contains n = true := by
  simp [Py.inNat]

theorem shr_lit (v : Nat) (k : Nat) : Py.shr (v : Int) ((k : Nat) : Int) = ((v >>> k : Nat) : Int) := by
  rw [Py.shr_ofNat]; simp

theorem dec_inNat (n : Nat) (l : List Nat) : decide (Py.inNat (n : Int) l) = l.contains n := by
  simp [Py.inNat]

/-- `EUI.is_iab()` for the two versions an EUI object can have -/
theorem eui_is_iab (ver v : Nat) (hv : ver = 48 ∨ ver = 64) : EUI_is_iab ver (v : Int) = isIabOf ver v := by
  simp only [tie_unfold, isIabOf, isIab]
  have e24 : Py.shr (v : Int) 24 = ((v >>> 24 : Nat) : Int) := shr_lit v 24
  have e40 : Py.shr (v : Int) 40 = ((v >>> 40 : Nat) : Int) := shr_lit v 40
  rw [e24, e40, dec_inNat, dec_inNat]
  rcases hv with h | h <;> simp [h]

/-- `EUI.eui64()`: the constructor is called with exactly the model's value and `version=64` -/
theorem eui_eui64 (ver v : Nat) : EUI_eui64 ver (v : Int) = (((eui64Value ver v : Nat) : Int), 64) := by
  simp only [tie_unfold, eui64Value]
  have e24 : Py.shr (v : Int) 24 = ((v >>> 24 : Nat) : Int) := shr_lit v 24
  have e40 : Py.shl (((v >>> 24 : Nat) : Int)) 40 = (((v >>> 24) <<< 40 : Nat) : Int) := by
    rw [Py.shl_ofNat _ _ (by decide)]; rfl
  have m1 : (16777215 : Int) = ((16777215 : Nat) : Int) := rfl
  have m2 : (1099478073344 : Int) = ((1099478073344 : Nat) : Int) := rfl
  by_cases h : ver = 48
  · have : ((ver : Int) = 48) := by omega
    simp only [h, this, ↓reduceIte, e24, e40, m1, m2, Py.iand_ofNat, Py.ior_ofNat]
    rfl
  · have : ¬ ((ver : Int) = 48) := by omega
    simp only [h, this, ↓reduceIte]

theorem pow_lit : Py.pow 2 12 - 1 = ((2 ^ 12 - 1 : Nat) : Int) ∧ Py.pow 2 48 - 1 = ((2 ^ 48 - 1 : Nat) : Int) := by
  constructor <;> decide

/-- `IAB.split_iab_mac(eui_int, strict)` on a non-negative integer -/
theorem iab_split (e : Nat) (strict : Bool) :
    IAB_split_iab_mac (e : Int) strict =
      match splitIabMac e strict with
      | .ok (a, b) => .ok ((a : Int), (b : Int))
      | .error err => .error err := by
  simp only [tie_unfold, splitIabMac]
  have e12 : Py.shr (e : Int) 12 = ((e >>> 12 : Nat) : Int) := shr_lit e 12
  have e12' : Py.shr (((e >>> 12 : Nat) : Int)) 12 = (((e >>> 12) >>> 12 : Nat) : Int) := shr_lit _ 12
  rw [pow_lit.1, pow_lit.2, e12, e12']
  simp only [Py.ixor_ofNat, Py.ior_ofNat]
  have hle : ((2 ^ 48 - 1) ^^^ (2 ^ 12 - 1)) ≤ e ||| ((2 ^ 48 - 1) ^^^ (2 ^ 12 - 1)) := Nat.right_le_or
  have eu : ((e ||| ((2 ^ 48 - 1) ^^^ (2 ^ 12 - 1)) : Nat) : Int) - ((((2 ^ 48 - 1) ^^^ (2 ^ 12 - 1)) : Nat) : Int)
      = (((e ||| ((2 ^ 48 - 1) ^^^ (2 ^ 12 - 1))) - ((2 ^ 48 - 1) ^^^ (2 ^ 12 - 1)) : Nat) : Int) := by omega
  simp only [eu]
  by_cases h1 : iabEuiValues.contains (e >>> 12) = true
  · have y1 : Py.inNat ((e >>> 12 : Nat) : Int) iabEuiValues := (inNat_cast _ _).2 h1
    rw [if_pos y1, if_pos h1]
    rfl
  · have n1 : ¬ Py.inNat ((e >>> 12 : Nat) : Int) iabEuiValues := fun h => h1 ((inNat_cast _ _).1 h)
    rw [if_neg n1, if_neg h1]
    by_cases h2 : iabEuiValues.contains ((e >>> 12) >>> 12) = true
    · have y2 : Py.inNat (((e >>> 12) >>> 12 : Nat) : Int) iabEuiValues := (inNat_cast _ _).2 h2
      rw [if_pos y2, if_pos h2]
      cases strict
      · simp
      · simp only [true_and, Bool.true_and, bne_iff_ne, ne_eq, Int.natCast_eq_zero]
        split <;> rename_i h <;> simp [h]
    · have n2 : ¬ Py.inNat (((e >>> 12) >>> 12 : Nat) : Int) iabEuiValues := fun h => h2 ((inNat_cast _ _).1 h)
      rw [if_neg n2, if_neg h2]

/-- `EUI.modified_eui64()`: the value handed on is the model's EUI-64 value with bit 57 flipped -/
theorem eui_modified_eui64 (ver v : Nat) :
    EUI_modified_eui64 ver (v : Int) = (((eui64Value ver v ^^^ 0x0200000000000000 : Nat) : Int), 64) := by
  unfold EUI_modified_eui64
  rw [eui_eui64]
  have m : (144115188075855872 : Int) = ((144115188075855872 : Nat) : Int) := rfl
  simp only [m, Py.ixor_ofNat]

/-- `EUI.ipv6(prefix)`: `IPAddress(prefix + modified EUI-64, version=6)` -/
theorem eui_ipv6 (ver v pfx : Nat) :
    EUI_ipv6 ver (v : Int) (pfx : Int) = (((pfx + (eui64Value ver v ^^^ 0x0200000000000000) : Nat) : Int), 6) := by
  unfold EUI_ipv6
  rw [eui_modified_eui64]
  simp only []
  congr 1

/-- `EUI.ipv6_link_local()` -/
theorem eui_ipv6_link_local (ver v : Nat) :
    EUI_ipv6_link_local ver (v : Int) =
      (((0xfe800000000000000000000000000000 + (eui64Value ver v ^^^ 0x0200000000000000) : Nat) : Int), 6) := by
  unfold EUI_ipv6_link_local
  exact eui_ipv6 ver v 0xfe800000000000000000000000000000

example : EUI_is_iab 48 0x0050C2000123 = true ∧ EUI_is_iab 64 0x0050C2000123 = false ∧
    EUI_eui64 48 0x001B774954FD = (0x001B77FFFE4954FD, 64) ∧
    EUI_ipv6_link_local 48 0x001B774954FD = (0xfe80000000000000021B77FFFE4954FD, 6) := by decide

end NV.Tie
