/-
Props/C19Exact.lean — C19, second part: statements in the exact words of the property.

  * `queryD_exact`, `info_access`       — the dict `.info` wraps: which keys exist (a registry without a hit has
                                          NO key: `info['IPv6']` is `None`, `info.IPv6` raises AttributeError), and
                                          what a present key maps to (never `[]`);
  * `loadIndex_ok_iff`, `iabLoad_raw`, `iabPipeline_ok_iff`, `ouiPipeline_ok_iff`
                                        — `load_index` is `int(key)` row by row: ValueError exactly when the IAB
                                          parser left a bytes key, i.e. some record has no `(base 16)` line;
  * `lookup_exact_oui`, `lookup_exact_iab`, `lookup_through_index_iab_loaded`
                                        — parser → index file → `load_index` → `OUI(v)` / `IAB(v)` with seek+read on
                                          the same text, for EVERY text: the registrations returned are the parses of
                                          exactly the records of the text that carry `v`, all of them, in file order
                                          (IAB: the first of them), NotRegisteredError iff there is none;
  * `shipped_rows_delimit_iab/_oui`     — IF an index file's rows are what the (model) parser yields on a text
                                          THEN every row's byte range is exactly that identifier's record in the
                                          text, rows and records correspond one to one in order, and an
                                          identifier is registered iff it has a row iff a record carries it.
-/
import NetaddrVerif.Props.C19
import NetaddrVerif.Lemmas.C19LLoad
namespace NV.C19
open NV NV.Registry NV.C19L

/-! ## the dict `.info` wraps -/

/-- what one entry of the dict must be: absent iff no record of the registry `table` qualifies
    (`P`); otherwise present, non-empty, in table order, with exactly the qualifying records -/
def EntryExact (e : Option (List Rec)) (table : List Rec) (P : Rec → Prop) : Prop :=
  (e = none ↔ ∀ r ∈ table, ¬ P r) ∧
  (∀ l, e = some l → l ≠ [] ∧ l.Sublist table ∧ ∀ r, r ∈ l ↔ r ∈ table ∧ P r)

theorem entryExact_of (l table : List Rec) (P : Rec → Prop) (hs : l.Sublist table)
    (h : ∀ r, r ∈ l ↔ r ∈ table ∧ P r) : EntryExact (toEntry l) table P := by
  constructor
  · rw [toEntry_none_iff]
    constructor
    · intro hl r hr hp
      have := (h r).mpr ⟨hr, hp⟩
      rw [hl] at this; cases this
    · intro hn
      cases l with
      | nil => rfl
      | cons x xs =>
        have := (h x).mp (by simp)
        exact absurd this.2 (hn x this.1)
  · intro m hm
    obtain ⟨rfl, hne⟩ := (toEntry_some_iff l m).mp hm
    exact ⟨hne, hs, h⟩

/-- **query_exact, for the dict as it is**: per registry key of `IPAddress(a).info` — the key is
    absent iff no record of that registry contains the address (for `Multicast`: or the address is
    not IPv4 multicast; keys of the other family are always absent); a present key maps to a
    NON-EMPTY list, in registry order, of exactly the records whose block or range contains the
    address.  An empty list is never stored. -/
theorem queryD_exact (T : Tables) (a : Addr) :
    EntryExact (queryD T a).ipv4 T.ipv4 (fun r => a.ver = 4 ∧ covers r.key a) ∧
    EntryExact (queryD T a).mcast T.mcast (fun r => a.ver = 4 ∧ isMulticast4 a.val = true ∧ covers r.key a) ∧
    EntryExact (queryD T a).ipv6 T.ipv6 (fun r => a.ver = 6 ∧ covers r.key a) ∧
    EntryExact (queryD T a).ipv6u T.ipv6u (fun r => a.ver = 6 ∧ covers r.key a) := by
  rw [queryD_eq]
  have hq := query_exact T a
  have hs := query_sublist T a
  refine ⟨entryExact_of _ _ _ hs.1 ?_, entryExact_of _ _ _ hs.2.2.2 ?_, entryExact_of _ _ _ hs.2.1 ?_,
    entryExact_of _ _ _ hs.2.2.1 ?_⟩
  · intro r; rw [(hq r).1]; exact ⟨fun h => ⟨h.2.1, h.1, h.2.2⟩, fun h => ⟨h.2.1, h.1, h.2.2⟩⟩
  · intro r; rw [(hq r).2.1]
    exact ⟨fun h => ⟨h.2.2.1, h.1, h.2.1, h.2.2.2⟩, fun h => ⟨h.2.1, h.2.2.1, h.1, h.2.2.2⟩⟩
  · intro r; rw [(hq r).2.2.1]; exact ⟨fun h => ⟨h.2.1, h.1, h.2.2⟩, fun h => ⟨h.2.1, h.1, h.2.2⟩⟩
  · intro r; rw [(hq r).2.2.2]; exact ⟨fun h => ⟨h.2.1, h.1, h.2.2⟩, fun h => ⟨h.2.1, h.1, h.2.2⟩⟩

/-- the list view used by `query_exact` is the dict with absent keys read as `[]` -/
theorem queryD_query (T : Tables) (a : Addr) :
    ((queryD T a).ipv4.getD [] = (query T a).ipv4 ∧ (queryD T a).ipv6.getD [] = (query T a).ipv6) ∧
    ((queryD T a).ipv6u.getD [] = (query T a).ipv6u ∧ (queryD T a).mcast.getD [] = (query T a).mcast) := by
  rw [queryD_eq]
  have : ∀ l : List Rec, (toEntry l).getD [] = l := by
    intro l; cases l <;> simp [toEntry]
  simp [this]

/-- `info[k]` never raises and is `None` exactly for an absent key; `info.k` raises AttributeError
    exactly for an absent key -/
theorem info_access (e : Option (List Rec)) :
    (getItem e = none ↔ e = none) ∧ (getAttr e = .error .other ↔ e = none) ∧
    (∀ l, getAttr e = .ok l ↔ e = some l) ∧ (∀ err, getAttr e = .error err → err = .other) := by
  cases e <;> simp [getItem, getAttr]

/-! ## `load_index` -/

/-- **loading succeeds iff every key cell is an integer** (generic), and then the loaded rows are
    the notified rows with `int(key)`, in order -/
theorem loadIndex_ok_iff {K : Type} (key : K → R Int) (rows : List (Row K)) :
    ((∃ idx, loadRows key rows = .ok idx) ↔ ∀ r ∈ rows, ∃ n, key r.1 = .ok n) ∧
    (∀ idx, loadRows key rows = .ok idx →
      All2 (fun (row : Row K) (i : Int × Nat × Nat) => key row.1 = .ok i.1 ∧ i.2 = row.2) rows idx) ∧
    (∀ e, loadRows key rows = .error e → ∃ r ∈ rows, key r.1 = .error e) :=
  ⟨loadRows_ok_iff key rows, loadRows_ok key rows, loadRows_err key rows⟩

/-- an index the OUI parser wrote always loads -/
theorem ouiLoad_total (rows : List (Row Int)) : ∃ idx, ouiLoad rows = .ok idx :=
  (loadRows_ok_iff ouiKeyCell rows).mpr (fun r _ => ⟨r.1, rfl⟩)

/-- an index the IAB parser wrote loads iff no row kept a bytes key; otherwise `load_index` raises
    ValueError (nothing else) -/
theorem iabLoad_raw (rows : List (Row IabKey)) :
    ((∃ idx, iabLoad rows = .ok idx) ↔ ∀ r ∈ rows, ∃ n, r.1 = .num n) ∧
    (∀ e, iabLoad rows = .error e → e = .value ∧ ∃ r ∈ rows, ∃ b, r.1 = .raw b) := by
  constructor
  · unfold iabLoad
    rw [loadRows_ok_iff]
    constructor
    · intro h r hr
      obtain ⟨n, hn⟩ := h r hr
      cases hk : r.1 with
      | raw b => rw [hk] at hn; cases hn
      | num m => exact ⟨m, rfl⟩
    · intro h r hr
      obtain ⟨n, hn⟩ := h r hr
      exact ⟨n, by rw [hn]; rfl⟩
  · intro e he
    obtain ⟨r, hr, hk⟩ := loadRows_err iabKeyCell rows e he
    cases hk1 : r.1 with
    | raw b =>
      rw [hk1] at hk
      simp only [iabKeyCell] at hk
      injection hk with hk
      exact ⟨hk.symm, r, hr, b, hk1⟩
    | num m => rw [hk1] at hk; cases hk

/-! ## rows of the (loaded) index ↔ records of the text, for every text -/

section generic
variable {K : Type} (start : Line → R K) (cont : K → Line → R K) (key : K → R Int)

/-- the integer under which `load_index` files a record: the parser's key, then `int()` of its csv cell -/
def recKeyInt (r : List Line) : R Int :=
  match recKey start cont r with
  | .ok k => key k
  | .error e => .error e

/-- the records of a text, as the only possible reading of its lines (`Registry.decompose`) -/
def recordsOf (bs : List Nat) : List (List Line) := (decompose (pyLines bs)).2

/-- on ANY text: if the parser returns rows, there is at least one record, and rows and records
    correspond one to one in order — each row carries its record's key and its byte range is the record -/
theorem rows_delimit (bs : List Nat) (rows : List (Row K))
    (h : genLoop start cont (pyLines bs) true none 0 0 = .ok rows) :
    recordsOf bs ≠ [] ∧
    All2 (fun (row : Row K) r => recKey start cont r = .ok row.1 ∧ slice bs row.2.1 row.2.2 = r.flatten)
      rows (recordsOf bs) := by
  rw [genIndex_any_file] at h
  unfold recordsOf
  split at h
  · cases h
  · rename_i hne
    refine ⟨hne, ?_⟩
    obtain ⟨hk, hl⟩ := (specRows_ok_iff start cont _ _ rows).mp h
    have hs := (index_any_file_slices bs).1
    rw [← hl] at hs
    exact all2_and (f := fun row => row.2) hk hs

/-- … and after `load_index`: loaded rows and records correspond one to one in order -/
theorem loaded_delimit (bs : List Nat) (rows : List (Row K)) (idx : List (Int × Nat × Nat))
    (h : genLoop start cont (pyLines bs) true none 0 0 = .ok rows) (hl : loadRows key rows = .ok idx) :
    recordsOf bs ≠ [] ∧
    All2 (fun (i : Int × Nat × Nat) r => recKeyInt start cont key r = .ok i.1 ∧ slice bs i.2.1 i.2.2 = r.flatten)
      idx (recordsOf bs) := by
  obtain ⟨hne, hr⟩ := rows_delimit start cont bs rows h
  refine ⟨hne, ?_⟩
  have := all2_trans (loadRows_ok key rows idx hl) hr
  apply all2_imp this
  rintro i r ⟨row, ⟨hk, hi⟩, hrk, hsl⟩
  refine ⟨?_, ?_⟩
  · simp only [recKeyInt, hrk, hk]
  · rw [hi]; exact hsl

/-- the record carries the identifier `v` (as the loaded index sees it) -/
def carries (v : Nat) (r : List Line) : Bool :=
  match recKeyInt start cont key r with
  | .ok k => k == (v : Int)
  | .error _ => false

/-- the records of the text that carry `v`, in file order -/
def carrying (bs : List Nat) (v : Nat) : List (List Line) := (recordsOf bs).filter (carries start cont key v)

/-- The core: an index (`Int` keys, as loaded) that delimits the records of `bs` one to one, looked
    up for `v` as `OUI(v)` / `IAB(v)` do: the rows found are, in order, the byte ranges of exactly
    the records carrying `v`. -/
theorem lookupRows_delimit (bs : List Nat) (idx : List (Int × Nat × Nat))
    (hd : All2 (fun (i : Int × Nat × Nat) r => recKeyInt start cont key r = .ok i.1 ∧ slice bs i.2.1 i.2.2 = r.flatten)
      idx (recordsOf bs)) (v : Nat) :
    All2 (fun (os : Nat × Nat) r => slice bs os.1 os.2 = r.flatten)
      (lookupRows (dictView idx) v) (carrying start cont key bs v) := by
  rw [lookupRows_dictView]
  apply all2_map_left
  unfold carrying
  have := all2_filter (fun (i : Int × Nat × Nat) => i.1 == (v : Int)) (carries start cont key v) hd
    (by rintro i r ⟨hk, _⟩; simp only [carries, hk])
  exact all2_imp this (fun i r h => h.2)

/-- **OUI(v) through a delimiting index, exactly**: NotRegisteredError iff no record of the text
    carries `v`; otherwise one registration per carrying record, all of them, in file order, each the
    parse of exactly that record's bytes (IndexError iff one of them does not parse); the
    offset/size reported with each registration cut exactly that record out of the text. -/
theorem ouiRecords_exact (bs : List Nat) (idx : List (Int × Nat × Nat))
    (hd : All2 (fun (i : Int × Nat × Nat) r => recKeyInt start cont key r = .ok i.1 ∧ slice bs i.2.1 i.2.2 = r.flatten)
      idx (recordsOf bs)) (decode : List Nat → List Char) (v : Nat) :
    (ouiRecords (fun o s => decode (slice bs o s)) (dictView idx) v).map (List.map (fun x => x.2.2)) =
      (if carrying start cont key bs v = [] then .error .notRegistered
       else (carrying start cont key bs v).mapM (fun r => parseRecord (decode r.flatten))) ∧
    (∀ out, ouiRecords (fun o s => decode (slice bs o s)) (dictView idx) v = .ok out →
      All2 (fun (x : Nat × Nat × Parsed) r => slice bs x.1 x.2.1 = r.flatten ∧
        parseRecord (decode r.flatten) = .ok x.2.2) out (carrying start cont key bs v)) := by
  have hrel := lookupRows_delimit start cont key bs idx hd v
  have hsync : All2 (fun (os : Nat × Nat) r =>
      ((fun (p : Nat × Nat) => do
          let q ← parseRecord (decode (slice bs p.1 p.2))
          pure (p.1, p.2, q)) os : R (Nat × Nat × Parsed)).map (fun x => x.2.2) =
        parseRecord (decode r.flatten))
      (lookupRows (dictView idx) v) (carrying start cont key bs v) := by
    apply all2_imp hrel
    intro os r h
    simp only [h]
    cases parseRecord (decode r.flatten) <;> rfl
  constructor
  · unfold ouiRecords
    cases hl : lookupRows (dictView idx) v with
    | nil =>
      rw [hl] at hrel
      rw [all2_nil_left hrel]; rfl
    | cons x xs =>
      rw [hl] at hrel hsync
      have hne : carrying start cont key bs v ≠ [] := by
        intro hc; rw [hc] at hrel; cases hrel
      simp only [hne, ↓reduceIte]
      exact mapM_sync _ _ _ hsync
  · intro out hout
    have hall := (lookup_spec _ _ v).1 out hout
    apply all2_imp (all2_trans hall hrel)
    rintro x r ⟨row, ⟨e1, e2, e3⟩, hr⟩
    rw [e1, e2]
    exact ⟨hr, by rw [← hr]; exact e3⟩

/-- **IAB(v) through a delimiting index, exactly**: NotRegisteredError iff no record carries `v`;
    otherwise the registration is the parse of the FIRST record of the text carrying `v`, with that
    record's byte range. -/
theorem iabRecord_exact (bs : List Nat) (idx : List (Int × Nat × Nat))
    (hd : All2 (fun (i : Int × Nat × Nat) r => recKeyInt start cont key r = .ok i.1 ∧ slice bs i.2.1 i.2.2 = r.flatten)
      idx (recordsOf bs)) (decode : List Nat → List Char) (v : Nat) :
    (iabRecord (fun o s => decode (slice bs o s)) (dictView idx) v).map (fun x => x.2.2) =
      (match carrying start cont key bs v with
       | [] => .error .notRegistered
       | r :: _ => parseRecord (decode r.flatten)) ∧
    (∀ x, iabRecord (fun o s => decode (slice bs o s)) (dictView idx) v = .ok x →
      ∃ r rest, carrying start cont key bs v = r :: rest ∧ slice bs x.1 x.2.1 = r.flatten) := by
  have hrel := lookupRows_delimit start cont key bs idx hd v
  unfold iabRecord
  cases hl : lookupRows (dictView idx) v with
  | nil =>
    rw [hl] at hrel
    rw [all2_nil_left hrel]
    exact ⟨rfl, fun x hx => by cases hx⟩
  | cons x xs =>
    rw [hl] at hrel
    obtain ⟨off, size⟩ := x
    generalize carrying start cont key bs v = cs at hrel ⊢
    cases hrel with
    | @cons _ r _ rest hr _ =>
      simp only at hr ⊢
      rw [hr]
      constructor
      · cases parseRecord (decode r.flatten) <;> rfl
      · intro y hy
        cases hp : parseRecord (decode r.flatten) with
        | error e => rw [hp] at hy; simp [bind, Except.bind] at hy
        | ok p =>
          rw [hp] at hy
          simp only [bind, Except.bind, pure, Except.pure] at hy
          injection hy with hy; subst hy
          exact ⟨r, rest, rfl, hr⟩

/-- registered iff a row iff a record: for an index that delimits the records of the text -/
theorem registered_iff_record (bs : List Nat) (idx : List (Int × Nat × Nat))
    (hd : All2 (fun (i : Int × Nat × Nat) r => recKeyInt start cont key r = .ok i.1 ∧ slice bs i.2.1 i.2.2 = r.flatten)
      idx (recordsOf bs)) (read : Nat → Nat → List Char) (v : Nat) :
    ((ouiRecords read (dictView idx) v = .error .notRegistered ↔ ∀ i ∈ idx, i.1 ≠ (v : Int)) ∧
     (iabRecord read (dictView idx) v = .error .notRegistered ↔ ∀ i ∈ idx, i.1 ≠ (v : Int))) ∧
    ((∀ i ∈ idx, i.1 ≠ (v : Int)) ↔ ∀ r ∈ recordsOf bs, recKeyInt start cont key r ≠ .ok (v : Int)) := by
  have hreg := registered_iff read (dictView idx) v
  have hrows : (∀ r ∈ dictView idx, r.1 ≠ v) ↔ ∀ i ∈ idx, i.1 ≠ (v : Int) := by
    rw [← lookupRows_nil_iff, lookupRows_dictView]
    simp [List.filter_eq_nil_iff]
  rw [hrows] at hreg
  refine ⟨hreg, ?_⟩
  constructor
  · intro h r hr hk
    obtain ⟨i, hi, hik, _⟩ := hd.right r hr
    rw [hk] at hik; injection hik with hik
    exact h i hi hik.symm
  · intro h i hi hv
    obtain ⟨r, hr, hik, _⟩ := hd.left i hi
    rw [hv] at hik
    exact h r hr hik

end generic

/-! ## the two pipelines, in the words of the property -/

/-- the identifier of an OUI record as the loaded index files it -/
abbrev ouiKeyOf := recKeyInt ouiStart ouiCont ouiKeyCell
/-- the identifier of an IAB record as the loaded index files it (ValueError when the record has no `(base 16)` line) -/
abbrev iabKeyOf := recKeyInt iabStart iabCont iabKeyCell

/-- **index then load then lookup (OUI), exact, for every text**: parser → csv → `load_index` →
    `OUI(v)` with seek+read on the same text. -/
theorem lookup_exact_oui (bs : List Nat) (idx : List (Int × Nat × Nat)) (h : ouiPipeline bs = .ok idx)
    (decode : List Nat → List Char) (v : Nat) :
    (ouiRecords (fun o s => decode (slice bs o s)) (dictView idx) v).map (List.map (fun x => x.2.2)) =
      (if carrying ouiStart ouiCont ouiKeyCell bs v = [] then .error .notRegistered
       else (carrying ouiStart ouiCont ouiKeyCell bs v).mapM (fun r => parseRecord (decode r.flatten))) ∧
    (∀ out, ouiRecords (fun o s => decode (slice bs o s)) (dictView idx) v = .ok out →
      All2 (fun (x : Nat × Nat × Parsed) r => slice bs x.1 x.2.1 = r.flatten ∧
        parseRecord (decode r.flatten) = .ok x.2.2) out (carrying ouiStart ouiCont ouiKeyCell bs v)) := by
  unfold ouiPipeline at h
  cases hr : ouiIndex bs with
  | error e => rw [hr] at h; simp [bind, Except.bind] at h
  | ok rows =>
    rw [hr] at h
    simp only [bind, Except.bind] at h
    exact ouiRecords_exact _ _ _ bs idx (loaded_delimit _ _ _ bs rows idx hr h).2 decode v

/-- **index then load then lookup (IAB), exact, for every text on which loading succeeded** -/
theorem lookup_exact_iab (bs : List Nat) (idx : List (Int × Nat × Nat)) (h : iabPipeline bs = .ok idx)
    (decode : List Nat → List Char) (v : Nat) :
    (iabRecord (fun o s => decode (slice bs o s)) (dictView idx) v).map (fun x => x.2.2) =
      (match carrying iabStart iabCont iabKeyCell bs v with
       | [] => .error .notRegistered
       | r :: _ => parseRecord (decode r.flatten)) ∧
    (∀ x, iabRecord (fun o s => decode (slice bs o s)) (dictView idx) v = .ok x →
      ∃ r rest, carrying iabStart iabCont iabKeyCell bs v = r :: rest ∧ slice bs x.1 x.2.1 = r.flatten) := by
  unfold iabPipeline at h
  cases hr : iabIndex bs with
  | error e => rw [hr] at h; simp [bind, Except.bind] at h
  | ok rows =>
    rw [hr] at h
    simp only [bind, Except.bind] at h
    exact iabRecord_exact _ _ _ bs idx (loaded_delimit _ _ _ bs rows idx hr h).2 decode v

/-- **when loading an IAB index succeeds**: on every text the IAB parser accepts, `load_index`
    returns normally iff every record has a `(base 16)` line after its `(hex)` line; otherwise it
    raises ValueError. -/
theorem iabLoad_ok_iff_base16 (bs : List Nat) (rows : List (Row IabKey)) (h : iabIndex bs = .ok rows) :
    ((∃ idx, iabLoad rows = .ok idx) ↔ ∀ r ∈ recordsOf bs, ∃ l ∈ r.tail, hasBase16 l = true) ∧
    (∀ e, iabLoad rows = .error e → e = .value) := by
  refine ⟨?_, fun e he => ((iabLoad_raw rows).2 e he).1⟩
  rw [(iabLoad_raw rows).1]
  obtain ⟨_, hrel⟩ := rows_delimit iabStart iabCont bs rows h
  have hshape : ∀ r ∈ recordsOf bs, ∃ hd t, r = hd :: t := by
    intro r hr
    obtain ⟨hd, t, rfl, _⟩ := decompose_records _ r hr
    exact ⟨hd, t, rfl⟩
  constructor
  · intro hnum r hr
    obtain ⟨row, hrow, hk, _⟩ := hrel.right r hr
    obtain ⟨hd, t, rfl⟩ := hshape r hr
    exact (iab_recKey_kind hd t row.1 hk).mp (hnum row hrow)
  · intro hb row hrow
    obtain ⟨r, hr, hk, _⟩ := hrel.left row hrow
    obtain ⟨hd, t, rfl⟩ := hshape r hr
    exact (iab_recKey_kind hd t row.1 hk).mpr (hb _ hr)

/-- the whole IAB pipeline on every text: it yields a loaded index iff the text has a record,
    every record's identifier parses, and every record has its `(base 16)` line -/
theorem iabPipeline_ok_iff (bs : List Nat) :
    (∃ idx, iabPipeline bs = .ok idx) ↔
      (recordsOf bs ≠ [] ∧ (∀ r ∈ recordsOf bs, ∃ k, recKey iabStart iabCont r = .ok k) ∧
        ∀ r ∈ recordsOf bs, ∃ l ∈ r.tail, hasBase16 l = true) := by
  unfold iabPipeline
  constructor
  · rintro ⟨idx, h⟩
    cases hr : iabIndex bs with
    | error e => rw [hr] at h; simp [bind, Except.bind] at h
    | ok rows =>
      rw [hr] at h
      simp only [bind, Except.bind] at h
      obtain ⟨hne, hrel⟩ := rows_delimit iabStart iabCont bs rows hr
      refine ⟨hne, ?_, ((iabLoad_ok_iff_base16 bs rows hr).1).mp ⟨idx, h⟩⟩
      intro r hrr
      obtain ⟨row, _, hk, _⟩ := hrel.right r hrr
      exact ⟨row.1, hk⟩
  · rintro ⟨hne, hk, hb⟩
    have hidx := (index_any_file bs).2
    unfold recordsOf at hne hk hb
    simp only [hne, ↓reduceIte] at hidx
    obtain ⟨rows, hrows⟩ := specRows_total iabStart iabCont _ hk (lenSum (decompose (pyLines bs)).1)
    rw [hrows] at hidx
    obtain ⟨idx, hl⟩ := ((iabLoad_ok_iff_base16 bs rows hidx).1).mpr hb
    exact ⟨idx, by rw [hidx]; exact hl⟩

/-- the whole OUI pipeline on every text: it yields a loaded index iff the text has a record and
    every record's identifier parses -/
theorem ouiPipeline_ok_iff (bs : List Nat) :
    (∃ idx, ouiPipeline bs = .ok idx) ↔
      (recordsOf bs ≠ [] ∧ ∀ r ∈ recordsOf bs, ∃ k, recKey ouiStart ouiCont r = .ok k) := by
  unfold ouiPipeline
  constructor
  · rintro ⟨idx, h⟩
    cases hr : ouiIndex bs with
    | error e => rw [hr] at h; simp [bind, Except.bind] at h
    | ok rows =>
      obtain ⟨hne, hrel⟩ := rows_delimit ouiStart ouiCont bs rows hr
      refine ⟨hne, ?_⟩
      intro r hrr
      obtain ⟨row, _, hk, _⟩ := hrel.right r hrr
      exact ⟨row.1, hk⟩
  · rintro ⟨hne, hk⟩
    have hidx := (index_any_file bs).1
    unfold recordsOf at hne hk
    simp only [hne, ↓reduceIte] at hidx
    obtain ⟨rows, hrows⟩ := specRows_total ouiStart ouiCont _ hk (lenSum (decompose (pyLines bs)).1)
    rw [hrows] at hidx
    obtain ⟨idx, hl⟩ := ouiLoad_total rows
    exact ⟨idx, by rw [hidx]; exact hl⟩

/-- **lookup_through_index_iab, restated under "loading succeeded"** (the faithful `load_index`
    instead of `iabLoaded`, which skipped bytes keys): for a well-formed text whose index loads,
    `IAB(v)` returns the parse of a record of the text that carries `v` — the first such record. -/
theorem lookup_through_index_iab_loaded (hd : List Line) (recs : List (List Line)) (_w : WellFormed hd recs)
    (rows : List (Row IabKey)) (h : iabIndex (hd ++ recs.flatten).flatten = .ok rows)
    (idx : List (Int × Nat × Nat)) (hload : iabLoad rows = .ok idx)
    (decode : List Nat → List Char) (v : Nat) (x : Nat × Nat × Parsed)
    (hl : iabRecord (fun o s => decode (slice (hd ++ recs.flatten).flatten o s)) (dictView idx) v = .ok x) :
    ∃ r rest, carrying iabStart iabCont iabKeyCell (hd ++ recs.flatten).flatten v = r :: rest ∧
      r ∈ recordsOf (hd ++ recs.flatten).flatten ∧
      recKey iabStart iabCont r = .ok (.num (v : Int)) ∧
      slice (hd ++ recs.flatten).flatten x.1 x.2.1 = r.flatten ∧
      parseRecord (decode r.flatten) = .ok x.2.2 := by
  have hrel := (loaded_delimit iabStart iabCont iabKeyCell _ rows idx h hload).2
  obtain ⟨h1, h2⟩ := iabRecord_exact iabStart iabCont iabKeyCell _ idx hrel decode v
  obtain ⟨r, rest, hc, hs⟩ := h2 x hl
  rw [hl, hc] at h1
  have hmem : r ∈ carrying iabStart iabCont iabKeyCell (hd ++ recs.flatten).flatten v := by rw [hc]; simp
  simp only [carrying, List.mem_filter] at hmem
  refine ⟨r, rest, hc, hmem.1, ?_, hs, h1.symm⟩
  have hcar := hmem.2
  simp only [carries, recKeyInt] at hcar
  cases hk : recKey iabStart iabCont r with
  | error e => rw [hk] at hcar; simp at hcar
  | ok k =>
    rw [hk] at hcar
    cases k with
    | raw b => simp [iabKeyCell] at hcar
    | num n =>
      simp only [iabKeyCell, beq_iff_eq] at hcar
      rw [hcar]

/-! ## from "the shipped index equals the parser's rows" to the property's clause -/

/-- **shipped_rows_delimit (IAB)**: for EVERY text — IF the rows `(identifier, offset, size)` of an
    index file are exactly what the parser yields on the text (this is what the harness observes
    for the shipped iab.idx / iab.txt, case `file`: `iab_index(text)` printed = the idx rows) THEN
    rows and records of the text correspond one to one in order, every row's byte range is exactly
    that identifier's record, an identifier is registered (`IAB(v)`, `OUI(v)`-style lookup) iff it
    has a row iff some record of the text carries it, and `IAB(v)` returns the parse of the first
    record carrying `v`. -/
theorem shipped_rows_delimit_iab (text : List Nat) (shipped : List (Nat × Nat × Nat))
    (hrows : iabIndex text = .ok (shipped.map (fun r => (IabKey.num (r.1 : Int), r.2.1, r.2.2)))) :
    All2 (fun (row : Nat × Nat × Nat) r => recKey iabStart iabCont r = .ok (.num (row.1 : Int)) ∧
        slice text row.2.1 row.2.2 = r.flatten) shipped (recordsOf text) ∧
    (∀ (read : Nat → Nat → List Char) (v : Nat),
      (iabRecord read shipped v = .error .notRegistered ↔ ∀ row ∈ shipped, row.1 ≠ v) ∧
      ((∀ row ∈ shipped, row.1 ≠ v) ↔ ∀ r ∈ recordsOf text, recKey iabStart iabCont r ≠ .ok (.num (v : Int)))) ∧
    (∀ (decode : List Nat → List Char) (v : Nat),
      (iabRecord (fun o s => decode (slice text o s)) shipped v).map (fun x => x.2.2) =
        (match carrying iabStart iabCont iabKeyCell text v with
         | [] => .error .notRegistered
         | r :: _ => parseRecord (decode r.flatten))) := by
  obtain ⟨_, hrel⟩ := rows_delimit iabStart iabCont text _ hrows
  have hrel1 : All2 (fun (row : Nat × Nat × Nat) r => recKey iabStart iabCont r = .ok (.num (row.1 : Int)) ∧
      slice text row.2.1 row.2.2 = r.flatten) shipped (recordsOf text) := by
    exact all2_of_map_left _ hrel
  have hload : iabLoad (shipped.map (fun r => (IabKey.num (r.1 : Int), r.2.1, r.2.2))) =
      .ok (shipped.map (fun r => ((r.1 : Int), r.2.1, r.2.2))) := by
    clear hrows hrel hrel1
    induction shipped with
    | nil => rfl
    | cons a t ih =>
      simp only [iabLoad] at ih
      simp [iabLoad, loadRows, iabKeyCell, ih, bind, Except.bind, pure, Except.pure]
  have hd := (loaded_delimit iabStart iabCont iabKeyCell text _ _ hrows hload).2
  refine ⟨hrel1, ?_, ?_⟩
  · intro read v
    refine ⟨(registered_iff read shipped v).2, ?_⟩
    constructor
    · intro h r hr hk
      obtain ⟨row, hrow, hk2, _⟩ := hrel1.right r hr
      rw [hk] at hk2
      injection hk2 with hk2; injection hk2 with hk2
      exact h row hrow (by omega)
    · intro h row hrow hv
      obtain ⟨r, hr, hk, _⟩ := hrel1.left row hrow
      rw [hv] at hk
      exact h r hr hk
  · intro decode v
    have := (iabRecord_exact iabStart iabCont iabKeyCell text _ hd decode v).1
    rw [dictView_ofNat] at this
    exact this

/-- **shipped_rows_delimit (OUI)**: the same for an OUI index and `OUI(v)` (all records carrying
    `v`, in file order).  (The sandbox's oui.txt is empty, so the harness cannot establish the
    hypothesis for the shipped oui.idx; it does for generated registries.) -/
theorem shipped_rows_delimit_oui (text : List Nat) (shipped : List (Nat × Nat × Nat))
    (hrows : ouiIndex text = .ok (shipped.map (fun r => ((r.1 : Int), r.2.1, r.2.2)))) :
    All2 (fun (row : Nat × Nat × Nat) r => recKey ouiStart ouiCont r = .ok (row.1 : Int) ∧
        slice text row.2.1 row.2.2 = r.flatten) shipped (recordsOf text) ∧
    (∀ (read : Nat → Nat → List Char) (v : Nat),
      (ouiRecords read shipped v = .error .notRegistered ↔ ∀ row ∈ shipped, row.1 ≠ v) ∧
      ((∀ row ∈ shipped, row.1 ≠ v) ↔ ∀ r ∈ recordsOf text, recKey ouiStart ouiCont r ≠ .ok (v : Int))) ∧
    (∀ (decode : List Nat → List Char) (v : Nat),
      (ouiRecords (fun o s => decode (slice text o s)) shipped v).map (List.map (fun x => x.2.2)) =
        (if carrying ouiStart ouiCont ouiKeyCell text v = [] then .error .notRegistered
         else (carrying ouiStart ouiCont ouiKeyCell text v).mapM (fun r => parseRecord (decode r.flatten)))) := by
  obtain ⟨_, hrel⟩ := rows_delimit ouiStart ouiCont text _ hrows
  have hrel1 : All2 (fun (row : Nat × Nat × Nat) r => recKey ouiStart ouiCont r = .ok (row.1 : Int) ∧
      slice text row.2.1 row.2.2 = r.flatten) shipped (recordsOf text) := by
    exact all2_of_map_left _ hrel
  have hload : ouiLoad (shipped.map (fun r => ((r.1 : Int), r.2.1, r.2.2))) =
      .ok (shipped.map (fun r => ((r.1 : Int), r.2.1, r.2.2))) := by
    clear hrows hrel hrel1
    induction shipped with
    | nil => rfl
    | cons a t ih =>
      simp only [ouiLoad] at ih
      simp [ouiLoad, loadRows, ouiKeyCell, ih, bind, Except.bind, pure, Except.pure]
  have hd := (loaded_delimit ouiStart ouiCont ouiKeyCell text _ _ hrows hload).2
  refine ⟨hrel1, ?_, ?_⟩
  · intro read v
    refine ⟨(registered_iff read shipped v).1, ?_⟩
    constructor
    · intro h r hr hk
      obtain ⟨row, hrow, hk2, _⟩ := hrel1.right r hr
      rw [hk] at hk2
      injection hk2 with hk2
      exact h row hrow (by omega)
    · intro h row hrow hv
      obtain ⟨r, hr, hk, _⟩ := hrel1.left row hrow
      rw [hv] at hk
      exact h r hr hk
  · intro decode v
    have := (ouiRecords_exact ouiStart ouiCont ouiKeyCell text _ hd decode v).1
    rw [dictView_ofNat] at this
    exact this

/-! ## non-vacuity -/

/-- a multicast address: two keys present, the IPv6 keys absent (not `[]`) -/
example : queryD ⟨[⟨0, .net ⟨4, 0xE0000000, 8⟩⟩], [⟨0, .net ⟨6, 0, 8⟩⟩], [], [⟨0, .rng ⟨4, 0xE0000100, 0xE00001FF⟩⟩, ⟨1, .addr ⟨4, 0xE0000101⟩⟩]⟩
    ⟨4, 0xE0000101⟩ = ⟨some [⟨0, .net ⟨4, 0xE0000000, 8⟩⟩], none, none,
      some [⟨0, .rng ⟨4, 0xE0000100, 0xE00001FF⟩⟩, ⟨1, .addr ⟨4, 0xE0000101⟩⟩]⟩ := by decide +kernel
/-- an IPv4 address no record contains: the dict is empty -/
example : queryD ⟨[⟨0, .net ⟨4, 0xE0000000, 8⟩⟩], [], [], []⟩ ⟨4, 5⟩ = ⟨none, none, none, none⟩ := by decide +kernel
example : getAttr (queryD ⟨[⟨0, .net ⟨4, 0xE0000000, 8⟩⟩], [], [], []⟩ ⟨4, 5⟩).ipv4 = .error .other := by decide +kernel

/-- a two-record IAB text whose second record has no `(base 16)` line: the parser accepts it, the
    key of the second row stays bytes, and `load_index` raises ValueError -/
def exNoBase16 : List Nat :=
  (bytes "00-50-C2   (hex)\t\tACME\nABC000-ABCFFF     (base 16)\t\tACME\n\t\tX\n" ++ bytes "00-50-C3   (hex)\t\tNOBASE\n\t\tY\n")
example : iabIndex exNoBase16 = .ok [(.num 0x0050C2ABC, 0, 61), (.raw (bytes "00-50-C3"), 61, 29)] := by decide +kernel
example : iabPipeline exNoBase16 = .error .value := by decide +kernel
/-- hypotheses of `lookup_exact_iab` / `_oui` hold on the running example of Props/C19 -/
example : iabPipeline (exRecs.drop 1).flatten.flatten = .ok [(0x0050C2ABC, 0, 72)] := by decide +kernel
example : ouiPipeline (exHd ++ exRecs.flatten).flatten = .ok [(0xCAFE, 21, 83), (0x50C2, 104, 72)] := by decide +kernel
example : carrying ouiStart ouiCont ouiKeyCell (exHd ++ exRecs.flatten).flatten 0x50C2 = [exRecs[1]] := by decide +kernel
/-- hypothesis of `shipped_rows_delimit_iab` on a concrete index -/
example : iabIndex (exRecs.drop 1).flatten.flatten =
    .ok ([(0x0050C2ABC, 0, 72)].map (fun (r : Nat × Nat × Nat) => (IabKey.num (r.1 : Int), r.2.1, r.2.2))) := by decide +kernel

end NV.C19
