/-
Props/TieMore.lean — translation tie, second group: family predicates, comparison keys, integer
views, range bounds and the two setters (`value`, `prefixlen`) — each translated from the CURRENT
source text (Gen/Trans.lean) and proved equal to the hand-written model function.
-/
import NetaddrVerif.Gen.Trans
import NetaddrVerif.Lemmas.TieL
import NetaddrVerif.Model.Convert
import NetaddrVerif.Model.Compare
import NetaddrVerif.Model.Address
import NetaddrVerif.Model.ListLike
import NetaddrVerif.Props.Tie
namespace NV.Tie
open NV NV.Trans

theorem dec_ver_and (ver x c : Nat) :
    decide (((ver : Int) = 6) ∧ ((x : Int) = (c : Int))) = (ver == 6 && x == c) := by
  have e1 : ((ver : Int) = 6) ↔ ver = 6 := by omega
  have e2 : ((x : Int) = (c : Int)) ↔ x = c := Int.ofNat_inj
  cases h1 : (ver == 6) <;> cases h2 : (x == c) <;> simp_all

theorem is_ipv4_mapped (ver v : Nat) : BaseIP_is_ipv4_mapped ver (v : Int) = Convert.isIpv4Mapped ver v := by
  simp only [tie_unfold, Convert.isIpv4Mapped]
  have : Py.shr (v : Int) 32 = ((v >>> 32 : Nat) : Int) := Py.shr_ofNat v 32
  rw [this]
  exact dec_ver_and ver (v >>> 32) 65535

theorem is_ipv4_compat (ver v : Nat) : BaseIP_is_ipv4_compat ver (v : Int) = Convert.isIpv4Compat ver v := by
  simp only [tie_unfold, Convert.isIpv4Compat]
  have : Py.shr (v : Int) 32 = ((v >>> 32 : Nat) : Int) := Py.shr_ofNat v 32
  rw [this]
  exact dec_ver_and ver (v >>> 32) 0

/-- `IPAddress.key()` -/
theorem addr_key (a : Addr) : (let t := IPAddress_key a.ver a.val; [t.1, t.2]) = a.key := by
  simp only [tie_unfold, Addr.key]

/-- `IPAddress.sort_key()` -/
theorem addr_sort_key (a : Addr) : (let t := IPAddress_sort_key a.ver a.val; [t.1, t.2.1, t.2.2]) = a.sortKey := by
  simp only [tie_unfold, Addr.sortKey]

theorem addr_int (a : Addr) : IPAddress_int a.ver a.val = (Address.toInt a : Nat) := by
  simp only [tie_unfold, Address.toInt]

theorem addr_index (a : Addr) : IPAddress_index a.ver a.val = (Address.index a : Nat) := by
  simp only [tie_unfold, Address.index]

theorem rng_first (r : Rng) : IPRange_first r.ver r.lo r.hi = (r.lo : Int) := by
  simp only [tie_unfold]

theorem rng_last (r : Rng) : IPRange_last r.ver r.lo r.hi = (r.hi : Int) := by
  simp only [tie_unfold]

/-- `IPRange.key()` -/
theorem rng_key (r : Rng) : (let t := IPRange_key r.ver r.lo r.hi; [t.1, t.2.1, t.2.2]) = r.key := by
  simp only [tie_unfold, Rng.key]

/-- `IPNetwork.key()` (`p ≤ width`: the prefix guard) -/
theorem net_key (n : Net) (hp : n.plen ≤ width n.ver) :
    (let t := IPNetwork_key n.ver n.val n.plen; [t.1, t.2.1, t.2.2]) = n.key := by
  simp only [tie_unfold, Py.hostmask_cast _ _ hp, Py.ixor_ofNat, Py.iand_ofNat, Py.ior_ofNat]
  rfl

/-- `ip.value = i` on an address (int argument): stores exactly when in range, else AddrFormatError -/
theorem addr_set_value (a : Addr) (i : Int) :
    IPAddress_set_value a.ver a.val i =
      if 0 ≤ i ∧ i ≤ ((maxInt a.ver : Nat) : Int) then .ok i else .error .addrFormat := by
  simp only [tie_unfold]
  by_cases h : 0 ≤ i ∧ i ≤ ((maxInt a.ver : Nat) : Int) <;> simp [h]

/-- `net.value = i` (int argument) is `setValue` of the model -/
theorem net_set_value (n : Net) (i : Int) :
    IPNetwork_set_value n.ver n.val n.plen i = (setValue n (.int i)).map (fun r => ((r.val : Int), (r.plen : Int))) := by
  simp only [tie_unfold, setValue]
  by_cases h : 0 ≤ i ∧ i ≤ ((maxInt n.ver : Nat) : Int)
  · have e : ((i.toNat : Nat) : Int) = i := Int.toNat_of_nonneg h.1
    simp [h, Except.map, e]
  · simp [h, Except.map]

/-- `net.prefixlen = i` (int argument) is `setPrefixlen` of the model -/
theorem net_set_prefixlen (n : Net) (i : Int) :
    IPNetwork_set_prefixlen n.ver n.val n.plen i = (setPrefixlen n (.int i)).map (fun r => ((r.val : Int), (r.plen : Int))) := by
  simp only [tie_unfold, setPrefixlen]
  by_cases h : 0 ≤ i ∧ i ≤ ((width n.ver : Nat) : Int)
  · have e : ((i.toNat : Nat) : Int) = i := Int.toNat_of_nonneg h.1
    simp [h, Except.map, e]
  · simp [h, Except.map]

/-! ### `len()` of the ranged objects (`sys.maxsize` is a parameter, as in `ListLike.len`) -/

theorem rng_size (r : Rng) : IPRange_size r.ver r.lo r.hi = ListLike.size (ListLike.ofRng r) := by
  simp only [tie_unfold, ListLike.size, ListLike.ofRng]

theorem rng_len (r : Rng) (maxsize : Nat) :
    IPRange_len r.ver r.lo r.hi (maxsize : Int) = ListLike.len maxsize (ListLike.ofRng r) := by
  have h := rng_size r
  simp only [IPRange_len, h, ListLike.len]

theorem net_len (n : Net) (maxsize : Nat) (hp : n.plen ≤ width n.ver) :
    IPNetwork_len n.ver n.val n.plen (maxsize : Int) = ListLike.len maxsize (ListLike.ofNet n) := by
  have h1 := net_first n.ver n.val n.plen hp
  have h2 := net_last n.ver n.val n.plen hp
  simp only [IPNetwork_len, IPNetwork_size, h1, h2, ListLike.len, ListLike.size, ListLike.ofNet, Net.first, Net.last]
  rfl

example : BaseIP_is_ipv4_mapped 6 0xffff01020304 = true ∧ BaseIP_is_ipv4_compat 6 0xffff01020304 = false ∧
    IPNetwork_set_prefixlen 4 5 24 33 = .error .addrFormat ∧ IPNetwork_set_prefixlen 4 5 24 32 = .ok (5, 32) := by decide

end NV.Tie
