/-
Props/C05.lean — property C05: CIDR summarisation is exact and minimal.

  "For any collection of addresses, networks (with or without host bits) and ranges of either
   family, cidr_merge returns the unique minimal list of CIDR blocks whose union is exactly the
   union of the inputs: blocks are pairwise disjoint, no two can be combined, IPv4 precedes IPv6
   and blocks ascend by address; the result does not depend on input order or duplication and
   merging it again changes nothing.  For any start <= end of one family, iprange_to_cidrs /
   IPRange.cidrs() / glob_to_cidrs return that same minimal list for the single interval
   [start.first, end.last]."

Vocabulary (Lemmas/Canon.lean, Lemmas/C05L*.lean):
* `Blk` = (base, k) is the address set `[base, base + 2^k)`; `den l a` = some block of `l` contains `a`.
* `Canon l` = every block aligned, strictly ascending, pairwise disjoint, no sibling pair
  (no two blocks that could be combined into one CIDR).
* `toBlk w ⟨val, plen⟩ = ⟨val, w - plen⟩`; `famBlks u l` = the blocks of the family-`u` networks of `l`.
* `RangeOK w l lo hi` = `l` is canonical as blocks, `den` is exactly `[lo, hi]`, every element has no
  host bits and a prefix ≤ w.  `NetCanon l` = ascending by (version, address) — IPv4 before
  IPv6 —, prefixes inside the width, canonical per family.
* `ItemWF` = what netaddr's constructors can produce (value < 2^width, prefix ≤ width; lo ≤ hi < 2^width);
  `iden xs u a` = address `a` of family `u` belongs to some input.
All theorems are for every width / version number (32 and 128 are instances), every input list.
-/
import NetaddrVerif.Model.Summarise
import NetaddrVerif.Lemmas.C05LNet
import NetaddrVerif.Lemmas.C05LUniq
namespace NV.C05
open NV NV.C05L NV.Summ Blk

/-! ### (a) iprange_to_cidrs / IPRange.cidrs() / glob_to_cidrs -/

/-- `iprange_to_cidrs(start, end)` for two networks or addresses of one family (host bits allowed)
    with `start.first ≤ end.last`: the result is canonical (aligned, ascending, disjoint, nothing
    combinable), denotes exactly `[start.first, end.last]`, and has no host bits. -/
theorem iprange_to_cidrs_spec (w : Nat) (s e : Pfx) (hs : s.val < 2 ^ w) (he : e.val < 2 ^ w)
    (hsp : s.plen ≤ w) (hep : e.plen ≤ w) (hle : s.first w ≤ e.last w) :
    RangeOK w (iprangeToCidrs w s e) (s.first w) (e.last w) :=
  range_net w s e hs he hsp hep hle

example : (⟨1, 46⟩ : Pfx).val < 2 ^ 128 ∧ (⟨2, 43⟩ : Pfx).val < 2 ^ 128 ∧
    (⟨1, 46⟩ : Pfx).first 128 ≤ (⟨2, 43⟩ : Pfx).last 128 := by decide +kernel

/-- address arguments: every `lo ≤ hi < 2^w` -/
theorem iprange_to_cidrs_addr (w lo hi : Nat) (hle : lo ≤ hi) (hhi : hi < 2 ^ w) :
    RangeOK w (iprangeToCidrs w ⟨lo, w⟩ ⟨hi, w⟩) lo hi :=
  range_addr w lo hi hle hhi

example : (4294967293 : Nat) ≤ 4294967295 ∧ 4294967295 < 2 ^ 32 := by decide

/-- *the unique* such list: any list with the same three properties is the one returned -/
theorem iprange_to_cidrs_unique (w : Nat) (s e : Pfx) (hs : s.val < 2 ^ w) (he : e.val < 2 ^ w)
    (hsp : s.plen ≤ w) (hep : e.plen ≤ w) (hle : s.first w ≤ e.last w)
    (l' : List Pfx) (h' : RangeOK w l' (s.first w) (e.last w)) : l' = iprangeToCidrs w s e := by
  have h := range_net w s e hs he hsp hep hle
  apply toBlk_inj w _ _ (fun b hb => (h'.wf b hb).2) (fun b hb => (h.wf b hb).2)
  apply canon_unique _ _ h'.canon h.canon
  intro a
  rw [den_map_toBlk, den_map_toBlk, h'.den a, h.den a]

/-- *minimal*: no list of aligned blocks with the same union is shorter -/
theorem iprange_to_cidrs_minimal (w : Nat) (s e : Pfx) (hs : s.val < 2 ^ w) (he : e.val < 2 ^ w)
    (hsp : s.plen ≤ w) (hep : e.plen ≤ w) (hle : s.first w ≤ e.last w)
    (l' : List Blk) (hal : ∀ c ∈ l', c.aligned) (hden : ∀ a, den l' a ↔ s.first w ≤ a ∧ a ≤ e.last w) :
    (iprangeToCidrs w s e).length ≤ l'.length := by
  have h := range_net w s e hs he hsp hep hle
  have := canon_minimal _ l' h.canon hal (fun a => by rw [hden a, den_map_toBlk, h.den a])
  simpa using this

/-- `IPRange(lo, hi).cidrs()` -/
theorem range_cidrs_spec (r : Rng) (hle : r.lo ≤ r.hi) (hhi : r.hi < 2 ^ width r.ver) :
    ∃ L, rangeCidrs r = L.map (fun b => (⟨r.ver, b.val, b.plen⟩ : Net)) ∧
      RangeOK (width r.ver) L r.lo r.hi :=
  ⟨_, rfl, range_addr _ _ _ hle hhi⟩

example : (⟨4, 4294967293, 4294967295⟩ : Rng).lo ≤ (⟨4, 4294967293, 4294967295⟩ : Rng).hi ∧
    (⟨4, 4294967293, 4294967295⟩ : Rng).hi < 2 ^ width 4 := by decide

/-- the two ends of a valid glob (four octet pairs `l ≤ h ≤ 255`) are ordered and inside IPv4 -/
theorem glob_ends (os : List (Nat × Nat)) (hlen : os.length = 4) (hoct : ∀ o ∈ os, o.1 ≤ o.2 ∧ o.2 ≤ 255) :
    octetsToInt (os.map (·.1)) ≤ octetsToInt (os.map (·.2)) ∧ octetsToInt (os.map (·.2)) < 2 ^ 32 := by
  match os, hlen with
  | [a, b, c, d], _ =>
    have ha := hoct a (by simp); have hb := hoct b (by simp)
    have hc := hoct c (by simp); have hd := hoct d (by simp)
    simp only [octetsToInt, List.map_cons, List.map_nil, List.foldl_cons, List.foldl_nil]
    omega

/-- `glob_to_cidrs(glob)` for every valid glob, on its decoded octet pairs -/
theorem glob_to_cidrs_spec (os : List (Nat × Nat)) (hlen : os.length = 4)
    (hoct : ∀ o ∈ os, o.1 ≤ o.2 ∧ o.2 ≤ 255) :
    ∃ L, globToCidrs os = L.map (fun b => (⟨4, b.val, b.plen⟩ : Net)) ∧
      RangeOK 32 L (octetsToInt (os.map (·.1))) (octetsToInt (os.map (·.2))) := by
  obtain ⟨h1, h2⟩ := glob_ends os hlen hoct
  exact range_cidrs_spec ⟨4, _, _⟩ h1 h2

example : ([(10, 10), (0, 0), (1, 3), (0, 255)] : List (Nat × Nat)).length = 4 ∧
    ∀ o ∈ ([(10, 10), (0, 0), (1, 3), (0, 255)] : List (Nat × Nat)), o.1 ≤ o.2 ∧ o.2 ≤ 255 := by decide

/-! ### (b) cidr_merge -/

/-- exactness, per family: the union of the result is the union of the inputs -/
theorem merge_den (xs : List MItem) (hwf : ∀ it ∈ xs, ItemWF it) (u a : Nat) :
    den (famBlks u (cidrMerge xs)) a ↔ iden xs u a := by
  obtain ⟨R, hR, hn, hg, hd⟩ := merge_main xs hwf
  rw [hR, (flat_canon u R hn hg).2 a, hd u a]

/-- every returned network is a proper CIDR: no host bits, prefix and block inside the width -/
theorem merge_wf (xs : List MItem) (hwf : ∀ it ∈ xs, ItemWF it) (n : Net) (hn : n ∈ cidrMerge xs) :
    n.plen ≤ width n.ver ∧ n.val % 2 ^ (width n.ver - n.plen) = 0 ∧
      n.val + 2 ^ (width n.ver - n.plen) ≤ 2 ^ width n.ver := by
  obtain ⟨R, hR, hnorm, hg, _⟩ := merge_main xs hwf
  rw [hR] at hn
  obtain ⟨r, hr, h1, _, h3, h4, h5⟩ := (flat_order R hnorm hg).2 n hn
  refine ⟨h4, h5, ?_⟩
  have hlt : n.val < 2 ^ width n.ver := by have := (hg r hr).2; rw [← h1] at this; omega
  have := block_lt (width n.ver) n.val n.plen hlt h4
  rwa [Nat.div_mul_cancel (Nat.dvd_of_mod_eq_zero h5)] at this

/-- the result is in the form the property describes: IPv4 before IPv6 and ascending by
    address; per family aligned, pairwise disjoint, no two blocks combinable -/
theorem merge_canon (xs : List MItem) (hwf : ∀ it ∈ xs, ItemWF it) : NetCanon (cidrMerge xs) := by
  obtain ⟨R, hR, hn, hg, _⟩ := merge_main xs hwf
  refine ⟨?_, fun n hn' => (merge_wf xs hwf n hn').1, fun u => ?_⟩
  · rw [hR]; exact (flat_order R hn hg).1
  · rw [hR]; exact (flat_canon u R hn hg).1

example : ∀ it ∈ [MItem.net 4 ⟨3232235777, 24⟩, MItem.rng 6 5 (2 ^ 128 - 1), MItem.net 4 ⟨3232236032, 32⟩],
    ItemWF it := by
  intro it hit
  simp only [List.mem_cons, List.not_mem_nil, or_false] at hit
  rcases hit with rfl | rfl | rfl <;> simp only [ItemWF] <;> decide +kernel

/-- *the unique* list: whatever list has the described form and the same union is the result -/
theorem merge_unique (xs : List MItem) (hwf : ∀ it ∈ xs, ItemWF it) (l' : List Net) (hl' : NetCanon l')
    (hden : ∀ u a, den (famBlks u l') a ↔ iden xs u a) : l' = cidrMerge xs :=
  net_ext _ _ hl' (merge_canon xs hwf) (fun u a => by rw [hden u a, merge_den xs hwf u a])

/-- the result depends only on the union of the inputs … -/
theorem merge_union_indep (xs ys : List MItem) (hx : ∀ it ∈ xs, ItemWF it) (hy : ∀ it ∈ ys, ItemWF it)
    (h : ∀ u a, iden xs u a ↔ iden ys u a) : cidrMerge xs = cidrMerge ys :=
  merge_unique ys hy _ (merge_canon xs hx) (fun u a => by rw [merge_den xs hx u a, h u a])

/-- … hence not on input order … -/
theorem merge_perm (xs ys : List MItem) (hx : ∀ it ∈ xs, ItemWF it) (hp : xs.Perm ys) :
    cidrMerge xs = cidrMerge ys :=
  merge_union_indep xs ys hx (fun it h => hx it (hp.mem_iff.2 h))
    (fun u a => by simp only [iden]; exact ⟨fun ⟨it, h, m⟩ => ⟨it, hp.mem_iff.1 h, m⟩, fun ⟨it, h, m⟩ => ⟨it, hp.mem_iff.2 h, m⟩⟩)

/-- … nor on duplication (any two lists with the same set of items) -/
theorem merge_dup (xs ys : List MItem) (hx : ∀ it ∈ xs, ItemWF it) (hs : ∀ it, it ∈ xs ↔ it ∈ ys) :
    cidrMerge xs = cidrMerge ys :=
  merge_union_indep xs ys hx (fun it h => hx it ((hs it).2 h))
    (fun u a => by simp only [iden]; exact ⟨fun ⟨it, h, m⟩ => ⟨it, (hs it).1 h, m⟩, fun ⟨it, h, m⟩ => ⟨it, (hs it).2 h, m⟩⟩)

/-- merging the result again changes nothing -/
theorem merge_idem (xs : List MItem) (hwf : ∀ it ∈ xs, ItemWF it) :
    cidrMerge ((cidrMerge xs).map (fun n => MItem.net n.ver ⟨n.val, n.plen⟩)) = cidrMerge xs := by
  symm
  refine merge_unique _ ?_ _ (merge_canon xs hwf) ?_
  · intro it hit
    obtain ⟨n, hn, rfl⟩ := List.mem_map.1 hit
    obtain ⟨h1, h2, h3⟩ := merge_wf xs hwf n hn
    have := pp (width n.ver - n.plen)
    exact ⟨by show n.val < _; omega, h1⟩
  · intro u a
    simp only [den, iden, List.mem_map]
    constructor
    · rintro ⟨b, hb, hm⟩
      obtain ⟨n, hn, hv, rfl⟩ := (mem_famBlks _ _ _).1 hb
      obtain ⟨h1, h2, h3⟩ := merge_wf xs hwf n hn
      have hp := pp (width n.ver - n.plen)
      refine ⟨_, ⟨n, hn, rfl⟩, hv, ?_⟩
      simp only [MItem.toRange]
      rw [pfx_first_eq _ _ (by show n.val < _; omega), pfx_last_eq]
      have e : fl (width n.ver - n.plen) n.val = n.val := Nat.div_mul_cancel (Nat.dvd_of_mod_eq_zero h2)
      simp only [e]
      subst hv
      unfold Blk.mem at hm; simp only at hm; omega
    · rintro ⟨_, ⟨n, hn, rfl⟩, hv, hm⟩
      obtain ⟨h1, h2, h3⟩ := merge_wf xs hwf n hn
      have hp := pp (width n.ver - n.plen)
      simp only [MItem.toRange] at hv hm
      rw [pfx_first_eq _ _ (by show n.val < _; omega), pfx_last_eq] at hm
      have e : fl (width n.ver - n.plen) n.val = n.val := Nat.div_mul_cancel (Nat.dvd_of_mod_eq_zero h2)
      simp only [e] at hm
      subst hv
      exact ⟨_, (mem_famBlks _ _ _).2 ⟨n, hn, rfl, rfl⟩, by unfold Blk.mem; simp only; omega⟩

/-- *minimal*, per family: no list of aligned blocks with the same union is shorter -/
theorem merge_minimal (xs : List MItem) (hwf : ∀ it ∈ xs, ItemWF it) (u : Nat)
    (l' : List Blk) (hal : ∀ c ∈ l', c.aligned) (hden : ∀ a, den l' a ↔ iden xs u a) :
    (famBlks u (cidrMerge xs)).length ≤ l'.length :=
  canon_minimal _ l' ((merge_canon xs hwf).canon u) hal (fun a => by rw [hden a, merge_den xs hwf u a])

/-- *minimal*, whole mixed IPv4/IPv6 list: no list of host-bit-free networks with the same
    per-family union is shorter -/
theorem merge_minimal_total (xs : List MItem) (hwf : ∀ it ∈ xs, ItemWF it)
    (hver : ∀ it ∈ xs, it.toRange.ver = 4 ∨ it.toRange.ver = 6)
    (l' : List Net) (hal : ∀ n ∈ l', n.val % 2 ^ (width n.ver - n.plen) = 0)
    (hden : ∀ u a, den (famBlks u l') a ↔ iden xs u a) :
    (cidrMerge xs).length ≤ l'.length := by
  have hv : ∀ n ∈ cidrMerge xs, n.ver = 4 ∨ n.ver = 6 := by
    intro n hn
    have : den (famBlks n.ver (cidrMerge xs)) n.val :=
      ⟨⟨n.val, width n.ver - n.plen⟩, (mem_famBlks _ _ _).2 ⟨n, hn, rfl, rfl⟩, mem_base _⟩
    obtain ⟨it, hit, hvv, _⟩ := (merge_den xs hwf n.ver n.val).1 this
    rw [← hvv]; exact hver it hit
  have hal' : ∀ u, ∀ c ∈ famBlks u l', c.aligned := by
    intro u c hc
    obtain ⟨n, hn, hvn, rfl⟩ := (mem_famBlks _ _ _).1 hc
    have := hal n hn; rw [hvn] at this; exact this
  have h4 := merge_minimal xs hwf 4 _ (hal' 4) (hden 4)
  have h6 := merge_minimal xs hwf 6 _ (hal' 6) (hden 6)
  have := fam_len_eq _ hv
  have := fam_len_le l'
  omega

example : ∀ it ∈ [MItem.net 4 ⟨3232235777, 24⟩, MItem.rng 6 5 (2 ^ 128 - 1)],
    it.toRange.ver = 4 ∨ it.toRange.ver = 6 := by
  intro it hit
  simp only [List.mem_cons, List.not_mem_nil, or_false] at hit
  rcases hit with rfl | rfl <;> simp [MItem.toRange]

/-- a single range is summarised exactly as `IPRange.cidrs()` / `iprange_to_cidrs` do it -/
theorem merge_single_range (ver lo hi : Nat) :
    cidrMerge [MItem.rng ver lo hi] = rangeCidrs ⟨ver, lo, hi⟩ := by
  simp [cidrMerge, MItem.toRange, mergeSweep, MRange.emit, rangeCidrs]

/-- "that same minimal list": whenever the union of the inputs is the single interval
    `[lo, hi]` of family `ver`, `cidr_merge` returns exactly what `IPRange(lo, hi).cidrs()` /
    `iprange_to_cidrs(lo, hi)` return -/
theorem merge_interval (xs : List MItem) (hwf : ∀ it ∈ xs, ItemWF it) (ver lo hi : Nat)
    (hle : lo ≤ hi) (hhi : hi < 2 ^ width ver)
    (h : ∀ u a, iden xs u a ↔ ver = u ∧ lo ≤ a ∧ a ≤ hi) :
    cidrMerge xs = rangeCidrs ⟨ver, lo, hi⟩ := by
  rw [← merge_single_range]
  apply merge_union_indep xs _ hwf
  · intro it hit
    simp only [List.mem_cons, List.not_mem_nil, or_false] at hit
    subst hit; exact ⟨hle, hhi⟩
  · intro u a
    rw [h u a]
    simp [iden, MItem.toRange, rmem]

/-- `iter_unique_ips(*args)`: strictly ascending by (version, address) — hence without
    duplicates — and exactly the addresses of the inputs -/
theorem iter_unique_ips_spec (xs : List MItem) (hwf : ∀ it ∈ xs, ItemWF it) :
    (iterUniqueIps xs).Pairwise AddrLt ∧ ∀ x : Addr, x ∈ iterUniqueIps xs ↔ iden xs x.ver x.val := by
  have h := flat_addrs (cidrMerge xs) (merge_canon xs hwf)
    (fun n hn => ⟨(merge_wf xs hwf n hn).2.1, (merge_wf xs hwf n hn).2.2⟩)
  exact ⟨h.1, fun x => by rw [← merge_den xs hwf]; exact h.2 x⟩

end NV.C05
