/-
Props/TieSpan.lean — translation tie for `spanning_cidr` (C13; `iprange_to_cidrs` starts from it):
the CURRENT source text — the iterator protocol (`iter`, two `next` calls inside `try / except
StopIteration`), the `for` loop over `chain([network_b], (IPNetwork(ip) for ip in it))` with the
running `min` / `max` and the mixed-family `TypeError`, and the widening `while` loop with
`highest & -(1 << (width - prefixlen))` — translated by `harness/pytrans.py` equals
`spanningCidr` of `Model/Cidr.lean` on every list of networks of one family.
-/
import NetaddrVerif.Gen.Trans
import NetaddrVerif.Lemmas.TieL
import NetaddrVerif.Model.Cidr
import NetaddrVerif.Props.Tie
namespace NV.Tie
open NV NV.Trans

/-- `a & ~(2^k - 1)` clears the low `k` bits -/
theorem clear_low (a k : Nat) : a ^^^ (a &&& (2 ^ k - 1)) = (a >>> k) <<< k := by
  apply Nat.eq_of_testBit_eq
  intro i
  rw [Nat.testBit_xor, Nat.testBit_and, Nat.testBit_two_pow_sub_one, Nat.testBit_shiftLeft, Nat.testBit_shiftRight]
  by_cases h : i < k
  · have : ¬ (i ≥ k) := by omega
    simp [h, this]
  · have h2 : i ≥ k := by omega
    have : k + (i - k) = i := by omega
    simp [h, h2, this]

theorem neg_shl_one (k : Nat) : (-(Py.shl (1 : Int) (k : Int))) = Int.negSucc (2 ^ k - 1) := by
  unfold Py.shl
  rw [Int.toNat_natCast, Int.shiftLeft_eq]
  have : 1 ≤ 2 ^ k := Nat.pos_of_ne_zero (by simp)
  rw [Int.negSucc_eq]
  push_cast [this]
  omega

/-- Python's `x & -(1 << k)` on a non-negative `x` -/
theorem iand_neg_pow (a k : Nat) :
    Py.iand (a : Int) (-(Py.shl (1 : Int) (k : Int))) = (((a >>> k) <<< k : Nat) : Int) := by
  rw [neg_shl_one]
  show Int.ofNat (a ^^^ (a &&& (2 ^ k - 1))) = _
  rw [clear_low]
  rfl

/-- the same with the power spelled `2 ** k` -/
theorem iand_neg_pow' (a k : Nat) :
    Py.iand (a : Int) (-(Py.pow (2 : Int) (k : Int))) = (((a >>> k) <<< k : Nat) : Int) := by
  have : Py.pow (2 : Int) (k : Int) = Py.shl (1 : Int) (k : Int) := by
    unfold Py.pow Py.shl
    rw [Int.toNat_natCast, Int.shiftLeft_eq]; simp
  rw [this, iand_neg_pow]

/-- a network of the model as the object `(version, value, prefixlen)` the translation iterates over -/
def liftN (ver : Nat) (b : Pfx) : Nat × Int × Int := (ver, (b.val : Int), (b.plen : Int))

/-- the widening loop: with fuel ≥ prefixlen the translated loop computes `spanLoop` -/
theorem span_loop (ver : Nat) (ia it : List (Nat × Int × Int)) (lo hi : Nat) :
    ∀ (p fuel ipnum : Nat), p ≤ width ver → p ≤ fuel →
      spanning_cidr_loop2 fuel ia (p : Int) (ipnum : Int) it (ver : Int) ((width ver : Nat) : Int) (lo : Int) (hi : Int)
        = .ok (((spanLoop (width ver) lo hi p ipnum).val : Int), ((spanLoop (width ver) lo hi p ipnum).plen : Int), (ver : Int)) := by
  intro p
  induction p with
  | zero =>
    intro fuel ipnum _ _
    cases fuel with
    | zero => simp [spanning_cidr_loop2, spanLoop]
    | succ f =>
      rw [spanning_cidr_loop2]
      simp [spanLoop]
  | succ p ih =>
    intro fuel ipnum hw hf
    cases fuel with
    | zero => omega
    | succ f =>
      rw [spanning_cidr_loop2, spanLoop]
      by_cases h : ipnum > lo
      · have h' : (((p + 1 : Nat) : Int) > 0) ∧ ((ipnum : Int) > (lo : Int)) := by omega
        simp only [h, h', and_self, ↓reduceIte]
        have e1 : (((p + 1 : Nat) : Int) - 1) = (p : Int) := by omega
        have e2 : ((width ver : Nat) : Int) - (p : Int) = ((width ver - p : Nat) : Int) := by omega
        rw [e1, e2]
        first | rw [iand_neg_pow] | rw [iand_neg_pow']
        exact ih f _ (by omega) (by omega)
      · have h' : ¬ ((((p + 1 : Nat) : Int) > 0) ∧ ((ipnum : Int) > (lo : Int))) := by omega
        simp only [h, h', ↓reduceIte]

/-- the `for` loop: running minimum of the first and maximum of the last addresses -/
theorem span_for (ver : Nat) (ia it : List (Nat × Int × Int)) : ∀ (l : List Pfx) (lo hi : Nat),
    (∀ b ∈ l, b.plen ≤ width ver) →
      spanning_cidr_loop1 (l.map (liftN ver)) ia (lo : Int) (hi : Int) it (ver : Int) ((width ver : Nat) : Int)
        = spanning_cidr_loop2 (((width ver : Nat) : Int).toNat + 1) ia ((width ver : Nat) : Int)
            ((l.foldl (fun m n => max m (n.last (width ver))) hi : Nat) : Int) it (ver : Int) ((width ver : Nat) : Int)
            ((l.foldl (fun m n => min m (n.first (width ver))) lo : Nat) : Int)
            ((l.foldl (fun m n => max m (n.last (width ver))) hi : Nat) : Int) := by
  intro l
  induction l with
  | nil => intro lo hi _; simp [spanning_cidr_loop1]
  | cons b t ih =>
    intro lo hi hb
    simp only [List.map_cons, liftN, List.foldl_cons]
    rw [spanning_cidr_loop1]
    have hp : b.plen ≤ width ver := hb b (by simp)
    simp only [ne_eq, not_true_eq_false, ↓reduceIte]
    rw [net_first ver b.val b.plen hp, net_last ver b.val b.plen hp]
    have e1 : min (lo : Int) ((netFirst (width ver) b.val b.plen : Nat) : Int) = ((min lo (b.first (width ver)) : Nat) : Int) := by
      unfold Pfx.first; omega
    have e2 : max (hi : Int) ((netLast (width ver) b.val b.plen : Nat) : Int) = ((max hi (b.last (width ver)) : Nat) : Int) := by
      unfold Pfx.last; omega
    rw [e1, e2]
    exact ih _ _ (fun x hx => hb x (by simp [hx]))

/-- `spanning_cidr(ip_addrs)` on a list of networks of one family: the translated source text IS
    `spanningCidr` (fewer than two inputs: ValueError) -/
theorem spanning_cidr_eq (ver : Nat) (nets : List Pfx) (hp : ∀ b ∈ nets, b.plen ≤ width ver) :
    spanning_cidr (nets.map (liftN ver)) =
      match spanningCidr (width ver) nets with
      | .ok b => .ok ((b.val : Int), (b.plen : Int), (ver : Int))
      | .error e => .error e := by
  unfold spanning_cidr spanningCidr
  match nets, hp with
  | [], _ => rfl
  | [_], _ => rfl
  | a :: b :: rest, hp =>
    have ha : a.plen ≤ width ver := hp a (by simp)
    simp only [List.map_cons, liftN]
    rw [net_first ver a.val a.plen ha, net_last ver a.val a.plen ha]
    have hl := span_for ver ((ver, (a.val : Int), (a.plen : Int)) :: (ver, (b.val : Int), (b.plen : Int)) :: rest.map (liftN ver))
      (rest.map (liftN ver)) (b :: rest) (netFirst (width ver) a.val a.plen) (netLast (width ver) a.val a.plen)
      (fun x hx => hp x (by simp at hx ⊢; rcases hx with h | h <;> simp [h]))
    simp only [List.map_cons, liftN] at hl
    show spanning_cidr_loop1 ([(ver, (b.val : Int), (b.plen : Int))] ++ rest.map (liftN ver)) _ _ _ _ _ _ = _
    simp only [List.singleton_append]
    rw [hl, Int.toNat_natCast]
    rw [span_loop ver _ _ _ _ (width ver) (width ver + 1) _ (Nat.le_refl _) (by omega)]
    rfl

example : spanning_cidr [(4, 0x0A000000, 8), (4, 0x0A010000, 16)] = .ok (0x0A000000, 8, 4) ∧
    spanning_cidr [(4, 0xC0000200, 24), (4, 0xC0000300, 24)] = .ok (0xC0000200, 23, 4) ∧
    spanning_cidr [(4, 5, 32)] = .error .value ∧
    spanning_cidr [(4, 5, 32), (6, 5, 128)] = .error .type_ := by decide

end NV.Tie
