/-
Props/C08Audit2.lean — property C08, third part: closes the findings of audit round 2a
(audit/round2a-report.md, numbers 2, 4, 6, 8, 11, 13, 14, 17, 20, 23).  The model functions are in
Model/Eui2.lean (run by the driver ops eui_valid, eui_cmpw, eui_ctor, eui_setvalue,
eui_setdialect, eui_getany, eui_setany, eui_dobj) and Model/Eui.lean; helper lemmas for the
separator-less dialects are in Lemmas/C08LBare.lean.

Reading guide:
* finding 2  — `builtin_width`, `setItem_width`, `setItem_builtin`, `off_family_48_under_64`,
               `off_family_64_under_48`, `setItem_word0_lower`, `off_family_setitem_escapes`
* finding 6  — `validStr48_iff`, `validStr64_iff`, `valid_non_str`, `valid_iff_ctor`
* finding 11 — `cmp_eq` … `cmp_ge`, `cmpWith_eui`, `cmpWith_str`, `cmpWith_int`, `cmpWith_other`
* finding 8  — `copy_ctor`, `ctorValue_str`, `ctorValue_int`, `ctor_float`, `ctor_none_bytes`,
               `ctor_dialect`, `ctor_error_order`, `ctorValue_error_class`
* finding 13 — `value_setter`, `setter_no_fallback`, `dialect_setter`
* finding 14 — `roundtrip_bare48`, `roundtrip_bare64`, `roundtrip_fit48_ext`, `roundtrip_fit64_ext`
* finding 17 — `getItem_kinds`, `setItemAny_precedence`
* finding 4  — `ctorValue_int_huge`, `setValueLive_int_huge`, `setItemAny_huge` (with `ctorValue_int`,
               `value_setter`, `setItemAny_precedence` for the agreement below the limit)
* finding 20 — `words_are`, `bits_are` (over `C15.intToWords_spec` / `C15.intToBits_spec`)
* finding 23 — `derived_objects_default_dialect`
-/
import NetaddrVerif.Props.C08Ext
import NetaddrVerif.Model.Eui2
import NetaddrVerif.Lemmas.C08LBare
namespace NV.C08A2
open NV NV.Eui NV.Codec NV.Gen NV.PyL NV.C08L.Ctor NV.C08

/-! ## finding 2: dialects and the width of the identifier -/

/-- **every built-in dialect fills the width of its family**: the six `mac_*` classes have
    `num_words * word_size = 48`, the five `eui64_*` classes `= 64` (over the tables regenerated
    from the source on every run, Gen/Dialects.lean) -/
theorem builtin_width :
    (macDialects.length = 6 ∧ ∀ d ∈ macDialects, d.numWords * d.wordSize = 48) ∧
    (eui64Dialects.length = 5 ∧ ∀ d ∈ eui64Dialects, d.numWords * d.wordSize = 64) := by
  decide

/-- **word assignment keeps the value inside the version's width** under a dialect whose words
    fill that width (`num_words * word_size = version`): `e[i] = x` succeeds for every index and
    word value of the dialect, the result is below `2^version`, word `i` reads `x`, every other
    word is unchanged.  (`C08.setItem_spec` bounds the result by the DIALECT's width only.) -/
theorem setItem_width (ver v : Nat) (d : Dialect) (hw : d.numWords * d.wordSize = ver) (hv : v < 2 ^ ver)
    (i x : Nat) (hi : i < d.numWords) (hx : x < 2 ^ d.wordSize) :
    ∃ r, setItem v d i x = .ok r ∧ r < 2 ^ ver ∧ getIdx r d i = .ok x ∧
      ∀ j : Nat, j < d.numWords → j ≠ i → getIdx r d j = getIdx v d j := by
  subst hw
  exact setItem_spec v d hv i x hi hx

/-- … in particular under every built-in dialect of the object's own family -/
theorem setItem_builtin (v : Nat) (d : Dialect) (i x : Nat) (hi : i < d.numWords) (hx : x < 2 ^ d.wordSize) :
    (d ∈ macDialects → v < 2 ^ 48 → ∃ r, setItem v d i x = .ok r ∧ r < 2 ^ 48) ∧
    (d ∈ eui64Dialects → v < 2 ^ 64 → ∃ r, setItem v d i x = .ok r ∧ r < 2 ^ 64) := by
  constructor
  · intro hd hv
    obtain ⟨r, a, b, _⟩ := setItem_width 48 v d (builtin_width.1.2 d hd) hv i x hi hx
    exact ⟨r, a, b⟩
  · intro hd hv
    obtain ⟨r, a, b, _⟩ := setItem_width 64 v d (builtin_width.2.2 d hd) hv i x hi hx
    exact ⟨r, a, b⟩

example : (⟨"mac_cisco", 16, 3, ['.'], 4, false⟩ : Dialect).numWords * 16 = 48 := by decide
example : setItem 0x001b774954fd ⟨"mac_cisco", 16, 3, ['.'], 4, false⟩ 2 0xffff = .ok 0x001b7749ffff := by rfl

private def fitsSome (fmts : List MacFmt) (padOf : Nat → Option Nat) (width : Nat) (d : Dialect) : Bool :=
  fmts.any (fun f => match padOf f.groups with
    | some p => fits d f p width
    | none => false)

private theorem builtin48_fit : ∀ d ∈ macDialects, fitsSome macFormats pad48 48 d = true := by decide
private theorem builtin64_fit : ∀ d ∈ eui64Dialects, fitsSome eui64Formats pad64 64 d = true := by decide

private theorem fitsSome_elim {fmts padOf width d} (h : fitsSome fmts padOf width d = true) :
    ∃ f ∈ fmts, ∃ p, fits d f p width = true := by
  unfold fitsSome at h
  rw [List.any_eq_true] at h
  obtain ⟨f, hf, hm⟩ := h
  cases hp : padOf f.groups with
  | none => rw [hp] at hm; cases hm
  | some p => rw [hp] at hm; exact ⟨f, hf, p, hm⟩

/-- **what the code does for a dialect of the OTHER family** (`_validate_dialect` accepts any
    class with `word_size` and `word_fmt`, eui/__init__.py:464-474; such a dialect is outside the
    property's domain, this states the model's — and, by correspondence, the code's — behaviour):
    an EUI-48 carrying a built-in EUI-64 dialect prints 8 octets / 4 hextets / 16 digits; that text
    parses back as an **EUI-64** of the same numeric value and is **rejected** with `version=48` -/
theorem off_family_48_under_64 (d : Dialect) (hd : d ∈ eui64Dialects) (v : Nat) (hv : v < 2 ^ 48) :
    ∃ s, Eui.str d v = .ok s ∧ ofAnyF (.str s) none = .ok (64, v) ∧
      ofAnyF (.str s) (some 64) = .ok (64, v) ∧ ofAnyF (.str s) (some 48) = .error .addrFormat := by
  have hv64 : v < 2 ^ 64 := Nat.lt_trans hv (by decide)
  obtain ⟨s, hs, a, b⟩ := roundtrip64_F d hd v hv64
  obtain ⟨f, hf, p, hfit⟩ := fitsSome_elim (builtin64_fit d hd)
  obtain ⟨h1, h2, h3, h4, h5, _⟩ := print_spelling d f p 64 hfit v hv64
  obtain ⟨_, _, _, _, hno, _, _⟩ := spellings64 f hf _ _ h2 h3 h4 h5
  have es : s = [sepChar d].intercalate ((wordsLoop d.wordSize d.numWords v).reverse.map (fmtHex d.pad d.upper)) := by
    have : Eui.str d v = intToStr d v := rfl
    rw [this, h1] at hs
    injection hs with hs; exact hs.symm
  refine ⟨s, hs, a, b, ?_⟩
  rw [es]
  exact (ofAnyF_str_explicit _).2.1 hno

example : Eui.str eui64Default 0x001b774954fd = .ok "00-00-00-1B-77-49-54-FD".toList := by rfl
example : ofAnyF (.str "00-00-00-1B-77-49-54-FD".toList) none = .ok (64, 0x001b774954fd) := by rfl
example : ofAnyF (.str "00-00-00-1B-77-49-54-FD".toList) (some 48) = .error .addrFormat := by rfl

/-- the other direction: an EUI-64 carrying a built-in EUI-48 dialect cannot be printed at all
    when its value needs more than 48 bits (IndexError of `int_to_words`); below 2^48 it prints
    as an EUI-48 text, which parses back as **version 48** and is rejected with `version=64` -/
theorem off_family_64_under_48 (d : Dialect) (hd : d ∈ macDialects) (v : Nat) :
    (v < 2 ^ 48 → ∃ s, Eui.str d v = .ok s ∧ ofAnyF (.str s) none = .ok (48, v) ∧
      ofAnyF (.str s) (some 64) = .error .addrFormat) ∧
    (2 ^ 48 ≤ v → Eui.str d v = .error .index) := by
  constructor
  · intro hv
    obtain ⟨s, hs, a, _⟩ := roundtrip48_F d hd v hv
    obtain ⟨f, hf, p, hfit⟩ := fitsSome_elim (builtin48_fit d hd)
    obtain ⟨h1, h2, h3, h4, h5, _⟩ := print_spelling d f p 48 hfit v hv
    have es : s = [sepChar d].intercalate ((wordsLoop d.wordSize d.numWords v).reverse.map (fmtHex d.pad d.upper)) := by
      have : Eui.str d v = intToStr d v := rfl
      rw [this, h1] at hs
      injection hs with hs; exact hs.symm
    refine ⟨s, hs, a, ?_⟩
    rw [es, ctor_faithful]
    exact (spellings_other_version _ _ h2).2 f hf h3 h4 h5
  · intro hv
    have hw := builtin_width.1.2 d hd
    show intToStr d v = .error .index
    simp only [intToStr, intToWords, hw]
    rw [if_neg (by omega)]
    rfl

example : Eui.str macDefault (2 ^ 48) = .error .index := by rfl

/-- word 0 is the most significant one: after `e[0] = x` the value is at least
    `x * 2^(word_size * (num_words-1))`, for every dialect -/
theorem setItem_word0_lower (v : Nat) (d : Dialect) (hv : v < 2 ^ (d.numWords * d.wordSize)) (x : Nat)
    (hn : 0 < d.numWords) (hx : x < 2 ^ d.wordSize) :
    ∃ r, setItem v d 0 x = .ok r ∧ x * 2 ^ (d.wordSize * (d.numWords - 1)) ≤ r ∧ r < 2 ^ (d.numWords * d.wordSize) := by
  obtain ⟨r, hr, hlt, hg, _⟩ := setItem_spec v d hv 0 x hn hx
  refine ⟨r, hr, ?_, hlt⟩
  have := (getIdx_spec r d hlt ((0 : Nat) : Int)).1 0 rfl hn
  rw [this] at hg
  have e : r / 2 ^ (d.wordSize * (d.numWords - 1 - 0)) % 2 ^ d.wordSize = x := by
    injection hg
  rw [Nat.sub_zero] at e
  have h1 : x ≤ r / 2 ^ (d.wordSize * (d.numWords - 1)) := by
    rw [← e]; exact Nat.mod_le _ _
  calc x * 2 ^ (d.wordSize * (d.numWords - 1))
      ≤ r / 2 ^ (d.wordSize * (d.numWords - 1)) * 2 ^ (d.wordSize * (d.numWords - 1)) := Nat.mul_le_mul_right _ h1
    _ ≤ r := Nat.div_mul_le_self _ _

/-- **`e[0] = 0xff` on an EUI-48 that carries the default EUI-64 dialect** leaves a value of at
    least 2^56 in an object whose version is still 48 (the code does the same: `__setitem__` only
    consults the dialect, eui/__init__.py:551-563) — which is why dialects whose words do not fill
    the version's width are outside the property's domain -/
theorem off_family_setitem_escapes (v : Nat) (hv : v < 2 ^ 48) (x : Nat) (h1 : 1 ≤ x) (hx : x < 256) :
    ∃ r, setItem v eui64Default 0 x = .ok r ∧ 2 ^ 48 ≤ r := by
  obtain ⟨r, hr, hlo, _⟩ := setItem_word0_lower v eui64Default
    (Nat.lt_trans hv (by decide)) x (by decide) (by simpa [eui64Default] using hx)
  refine ⟨r, hr, ?_⟩
  have : x * 2 ^ (eui64Default.wordSize * (eui64Default.numWords - 1)) = x * 2 ^ 56 := by
    simp [eui64Default]
  rw [this] at hlo
  omega

example : setItem 0x001b774954fd eui64Default 0 0xff = .ok 0xff00001b774954fd := by rfl
example : (2 : Nat) ^ 48 ≤ 0xff00001b774954fd := by decide

/-! ## finding 6: valid_mac / valid_eui64 -/

private theorem any_isSome {α β} (l : List α) (f : α → Option β) :
    l.any (fun x => (f x).isSome) = (l.findSome? f).isSome := by
  induction l with
  | nil => rfl
  | cons a t ih =>
    rw [List.any_cons, List.findSome?_cons]
    cases h : f a <;> simp [ih]

/-- **`valid_mac(s)` is True exactly when `eui48.str_to_int(s)` returns a value** (the two
    functions are transcribed separately: `validStr48` from strategy/eui48.py:138-152 — a loop
    over the patterns with `findall` —, `strToInt48` from :155-197) -/
theorem validStr48_iff (s : List Char) : validStr48 s = true ↔ ∃ v, strToInt48 s = .ok v := by
  have e : validStr48 s = (firstMatch macFormats s).isSome := any_isSome _ _
  rw [e]
  constructor
  · intro h
    rcases strToInt48_total s with h48 | ⟨v, h48, _⟩
    · rw [strToInt48_eq] at h48
      cases hm : firstMatch macFormats s with
      | none => rw [hm] at h; cases h
      | some r =>
        obtain ⟨f, hf, hc⟩ := firstMatch_captured _ _ _ hm
        obtain ⟨p, v, hp, hj, _⟩ := joinWords_captured pad48 48 (by decide) f (rowOk48 f hf) r hc
        rw [hm] at h48
        simp only [hp, hj] at h48
        cases h48
    · exact ⟨v, h48⟩
  · rintro ⟨v, hv⟩
    rw [strToInt48_eq] at hv
    cases hm : firstMatch macFormats s with
    | none => rw [hm] at hv; cases hv
    | some r => rfl

/-- **`valid_eui64(s)` is True exactly when `eui64.str_to_int(s)` returns a value** (`validStr64`
    from strategy/eui64.py:120-139 — the first match, tested for truth —, `strToInt64` from
    :142-176) -/
theorem validStr64_iff (s : List Char) : validStr64 s = true ↔ ∃ v, strToInt64 s = .ok v := by
  constructor
  · intro h
    rcases strToInt64_total s with h64 | ⟨v, h64, _⟩
    · rw [strToInt64_eq] at h64
      unfold validStr64 at h
      cases hm : firstMatch eui64Formats s with
      | none => rw [hm] at h; cases h
      | some r =>
        obtain ⟨f, hf, hc⟩ := firstMatch_captured _ _ _ hm
        obtain ⟨p, v, hp, hj, _⟩ := joinWords_captured pad64 64 (by decide) f (rowOk64 f hf) r hc
        rw [hm] at h64
        simp only [hp, hj] at h64
        cases h64
    · exact ⟨v, h64⟩
  · rintro ⟨v, hv⟩
    rw [strToInt64_eq] at hv
    unfold validStr64
    cases hm : firstMatch eui64Formats s with
    | none => rw [hm] at hv; cases hv
    | some r =>
      obtain ⟨f, hf, hlen, htok⟩ := firstMatch_captured _ _ _ hm
      obtain ⟨hlo, p, _, _, _, hwid⟩ := rowOk_elim (rowOk64 f hf)
      have hg : 1 ≤ f.groups := by
        apply Classical.byContradiction; intro hn
        have : f.groups = 0 := by omega
        rw [this] at hwid; simp at hwid
      show truthyMatch r = true
      match r, hlen, htok with
      | [], hlen, _ => simp at hlen; omega
      | [w], _, htok =>
        have := (htok w (by simp)).1
        cases w with
        | nil => simp at this; omega
        | cons c t => rfl
      | _ :: _ :: _, _, _ => rfl

/-- a non-str argument (an int, None, a bytes object …): both functions answer False -/
theorem valid_non_str : validMac .other = false ∧ validEui64 .other = false := ⟨rfl, rfl⟩

/-- … and therefore: `valid_mac(s)` / `valid_eui64(s)` hold exactly for the strings the constructor
    accepts with `version=48` / `version=64`, the value being inside the width -/
theorem valid_iff_ctor (s : List Char) :
    (validMac (.str s) = true ↔ ∃ v, v < 2 ^ 48 ∧ ofAnyF (.str s) (some 48) = .ok (48, v)) ∧
    (validEui64 (.str s) = true ↔ ∃ v, v < 2 ^ 64 ∧ ofAnyF (.str s) (some 64) = .ok (64, v)) := by
  constructor
  · show validStr48 s = true ↔ _
    rw [validStr48_iff]
    constructor
    · rintro ⟨v, hv⟩
      rcases strToInt48_total s with h | ⟨w, h, hw⟩
      · rw [h] at hv; cases hv
      · exact ⟨w, hw, (ofAnyF_str_explicit s).1 w h⟩
    · rintro ⟨v, _, hv⟩
      rcases strToInt48_total s with h | ⟨w, h, _⟩
      · rw [(ofAnyF_str_explicit s).2.1 h] at hv; cases hv
      · exact ⟨w, h⟩
  · show validStr64 s = true ↔ _
    rw [validStr64_iff]
    constructor
    · rintro ⟨v, hv⟩
      rcases strToInt64_total s with h | ⟨w, h, hw⟩
      · rw [h] at hv; cases hv
      · exact ⟨w, hw, (ofAnyF_str_explicit s).2.2.1 w h⟩
    · rintro ⟨v, _, hv⟩
      rcases strToInt64_total s with h | ⟨w, h, _⟩
      · rw [(ofAnyF_str_explicit s).2.2.2 h] at hv; cases hv
      · exact ⟨w, h⟩

example : validMac (.str "00-1B-77-49-54-FD".toList) = true := by rfl
example : validMac (.str "00-1B-77-49-54-FD\n".toList) = true := by rfl
example : validMac (.str "00-1B-77-49-54-FD-00-01".toList) = false := by rfl
example : validEui64 (.str "00-1B-77-49-54-FD-00-01".toList) = true := by rfl
example : validEui64 (.str "1234".toList) = false := by rfl

/-! ## finding 11: the six comparison operators -/

private theorem cmp_cases (ver1 v1 ver2 v2 : Nat) :
    (tupleCmp (key ver1 v1) (key ver2 v2) = .eq ∧ ver1 = ver2 ∧ v1 = v2) ∨
    (tupleCmp (key ver1 v1) (key ver2 v2) = .lt ∧ (ver1 < ver2 ∨ (ver1 = ver2 ∧ v1 < v2))) ∨
    (tupleCmp (key ver1 v1) (key ver2 v2) = .gt ∧ (ver2 < ver1 ∨ (ver1 = ver2 ∧ v2 < v1))) := by
  obtain ⟨_, he, hl, hg⟩ := eq_hash_by_value ver1 v1 ver2 v2
  cases hc : tupleCmp (key ver1 v1) (key ver2 v2) with
  | eq => exact Or.inl ⟨rfl, he.mp hc⟩
  | lt => exact Or.inr (Or.inl ⟨rfl, hl.mp hc⟩)
  | gt => exact Or.inr (Or.inr ⟨rfl, hg.mp hc⟩)

/-- `a == b` between EUIs: same version and same value (dialects play no part: `cmpOp` has no
    argument for them; the harness varies them) -/
theorem cmp_eq (ver1 v1 ver2 v2 : Nat) : cmpOp .eq ver1 v1 ver2 v2 = true ↔ (ver1 = ver2 ∧ v1 = v2) := by
  rcases cmp_cases ver1 v1 ver2 v2 with ⟨h, p⟩ | ⟨h, p⟩ | ⟨h, p⟩ <;> simp [cmpOp, h] <;> omega

/-- `a != b`: the negation of `==` -/
theorem cmp_ne (ver1 v1 ver2 v2 : Nat) : cmpOp .ne ver1 v1 ver2 v2 = true ↔ ¬ (ver1 = ver2 ∧ v1 = v2) := by
  rcases cmp_cases ver1 v1 ver2 v2 with ⟨h, p⟩ | ⟨h, p⟩ | ⟨h, p⟩ <;> simp [cmpOp, h] <;> omega

/-- `a < b`: lower version, or same version and lower value -/
theorem cmp_lt (ver1 v1 ver2 v2 : Nat) :
    cmpOp .lt ver1 v1 ver2 v2 = true ↔ (ver1 < ver2 ∨ (ver1 = ver2 ∧ v1 < v2)) := by
  rcases cmp_cases ver1 v1 ver2 v2 with ⟨h, p⟩ | ⟨h, p⟩ | ⟨h, p⟩ <;> simp [cmpOp, h] <;> omega

/-- `a <= b` -/
theorem cmp_le (ver1 v1 ver2 v2 : Nat) :
    cmpOp .le ver1 v1 ver2 v2 = true ↔ (ver1 < ver2 ∨ (ver1 = ver2 ∧ v1 ≤ v2)) := by
  rcases cmp_cases ver1 v1 ver2 v2 with ⟨h, p⟩ | ⟨h, p⟩ | ⟨h, p⟩ <;> simp [cmpOp, h] <;> omega

/-- `a > b` -/
theorem cmp_gt (ver1 v1 ver2 v2 : Nat) :
    cmpOp .gt ver1 v1 ver2 v2 = true ↔ (ver2 < ver1 ∨ (ver1 = ver2 ∧ v2 < v1)) := by
  rcases cmp_cases ver1 v1 ver2 v2 with ⟨h, p⟩ | ⟨h, p⟩ | ⟨h, p⟩ <;> simp [cmpOp, h] <;> omega

/-- `a >= b` -/
theorem cmp_ge (ver1 v1 ver2 v2 : Nat) :
    cmpOp .ge ver1 v1 ver2 v2 = true ↔ (ver2 < ver1 ∨ (ver1 = ver2 ∧ v2 ≤ v1)) := by
  rcases cmp_cases ver1 v1 ver2 v2 with ⟨h, p⟩ | ⟨h, p⟩ | ⟨h, p⟩ <;> simp [cmpOp, h] <;> omega

example : cmpOp .lt 48 5 64 4 = true := by rfl
example : cmpOp .eq 48 5 64 5 = false := by rfl

/-! ## finding 8: the constructor, every argument kind -/

private theorem nb {n : Int} (h : n.natAbs < 10 ^ strDigitLimit) : fmtFails n = false := by
  unfold fmtFails; exact decide_eq_false (by omega)

private theorem nh {n : Int} (h : 10 ^ strDigitLimit ≤ n.natAbs) : fmtFails n = true := by
  unfold fmtFails; exact decide_eq_true h

/-- a value in range is far below the digit limit -/
private theorem small_of_le (n : Int) (h0 : 0 ≤ n) (h : n ≤ 18446744073709551615) :
    n.natAbs < 10 ^ strDigitLimit := by
  have : (10 : Nat) ^ 20 ≤ 10 ^ strDigitLimit := Nat.pow_le_pow_right (by decide) (by decide)
  omega

/-- **strings**: the version / value part of the whole constructor is `ofAnyF` -/
theorem ctorValue_str (s : List Char) (version : Option Int) :
    ctorValue (.addr (.str s)) version = ofAnyF (.str s) version := by
  unfold ctorValue ofAnyF
  cases version with
  | none => rfl
  | some k =>
    simp only []
    by_cases h48 : k = 48
    · subst h48; rfl
    · by_cases h64 : k = 64
      · subst h64; rfl
      · rw [if_neg h48, if_neg h64, if_neg (by omega)]

private theorem m48 : ((Eui.maxInt 48 : Nat) : Int) = 281474976710655 := by decide
private theorem m64 : ((Eui.maxInt 64 : Nat) : Int) = 18446744073709551615 := by decide

private theorem sve_int (ver : Nat) (n : Int) (h : n.natAbs < 10 ^ strDigitLimit) :
    setValueExplicit ver (.addr (.int n)) = setExplicitF ver (.int n) := by
  simp only [setValueExplicit, setExplicitF, raiseFmt, nb h]
  rfl

/-- **integers below the interpreter's int-to-str digit limit** (|n| < 10^4300; a bool is the
    integer 0 / 1): the version / value part of the whole constructor is `ofAnyF`, so that
    `C08.ofAnyF_int` and `C08.ofAnyF_error_class` describe it -/
theorem ctorValue_int (n : Int) (h : n.natAbs < 10 ^ strDigitLimit) (version : Option Int) :
    ctorValue (.addr (.int n)) version = ofAnyF (.int n) version := by
  unfold ctorValue ofAnyF
  cases version with
  | none =>
    simp only []
    by_cases h1 : 0 ≤ n ∧ n ≤ 0xffffffffffff
    · rw [if_pos h1, if_pos h1, sve_int 48 n h]
    · rw [if_neg h1, if_neg h1]
      by_cases h2 : 0xffffffffffff < n ∧ n ≤ 0xffffffffffffffff
      · rw [if_pos h2, if_pos h2, sve_int 64 n h]
      · rw [if_neg h2, if_neg h2]
        simp only [setValueImplicit, raiseFmt, nb h]
        rfl
  | some k =>
    simp only []
    by_cases h48 : k = 48
    · subst h48; rw [if_pos rfl, if_pos (Or.inl rfl)]; exact sve_int 48 n h
    · by_cases h64 : k = 64
      · subst h64; rw [if_neg (by decide), if_pos rfl, if_pos (Or.inr rfl)]; exact sve_int 64 n h
      · rw [if_neg h48, if_neg h64, if_neg (by omega)]

/-- **finding 4 — integers of more than 4300 digits**: whatever the version argument, the
    constructor raises **ValueError** — from the version test (a version other than 48 / 64), or
    because every other rejection formats the integer into its message (`'%r' % (addr,)`,
    strategy/eui48.py:178, eui/__init__.py:456) and the interpreter refuses that.  `C08.ofAnyF_int`
    and `C08.ofAnyF_error_class` (TypeError / AddrFormatError) are statements about `ofAnyF`, which
    has no such limit: they describe the constructor below 10^4300 only (`ctorValue_int`). -/
theorem ctorValue_int_huge (n : Int) (h : 10 ^ strDigitLimit ≤ n.natAbs) (version : Option Int) (dia : DialectArg) :
    ctorValue (.addr (.int n)) version = .error .value ∧ ctor (.addr (.int n)) version dia = .error .value := by
  have hbig : ¬ (0 ≤ n ∧ n ≤ 18446744073709551615) := by
    intro ⟨a, b⟩
    have := small_of_le n a b
    omega
  have key : ctorValue (.addr (.int n)) version = .error .value := by
    unfold ctorValue
    cases version with
    | none =>
      simp only []
      rw [if_neg (by omega), if_neg (by omega)]
      simp only [setValueImplicit, raiseFmt, nh h]
      rfl
    | some k =>
      simp only []
      by_cases h48 : k = 48
      · rw [if_pos h48]
        simp only [setValueExplicit, m48]
        rw [if_neg (by omega)]
        simp only [raiseFmt, nh h]; rfl
      · by_cases h64 : k = 64
        · rw [if_neg h48, if_pos h64]
          simp only [setValueExplicit, m64]
          rw [if_neg (by omega)]
          simp only [raiseFmt, nh h]; rfl
        · rw [if_neg h48, if_neg h64]
  refine ⟨key, ?_⟩
  show attachDialect dia (ctorValue (.addr (.int n)) version) = _
  rw [key]; rfl

set_option exponentiation.threshold 6000 in
example : ctorValue (.addr (.int ((10 ^ 5000 : Nat) : Int))) none = .error .value :=
  (ctorValue_int_huge _ (by rw [Int.natAbs_natCast]; exact Nat.pow_le_pow_right (by decide) (by decide)) none .none).1

/-- **copy construction** `EUI(e, version, dialect)` from an EUI object `e`: with no version, or
    the version of `e`, the result has the version, the value AND the dialect of `e` — the
    `dialect` argument is not even looked at (an object that is no dialect class passes); any other
    version is a **ValueError** -/
theorem copy_ctor (ver v : Nat) (d : Dialect) (dia : DialectArg) :
    ctor (.eui ver v d) none dia = .ok (ver, v, d) ∧
    ctor (.eui ver v d) (some ver) dia = .ok (ver, v, d) ∧
    (∀ k : Int, k ≠ ver → ctor (.eui ver v d) (some k) dia = .error .value) := by
  refine ⟨rfl, ?_, ?_⟩
  · simp [ctor]
  · intro k hk; simp [ctor, hk]

example : ctor (.eui 48 0x001b774954fd ⟨"mac_cisco", 16, 3, ['.'], 4, false⟩) (some 64) .none = .error .value := by rfl
example : ctor (.eui 48 0x001b774954fd ⟨"mac_cisco", 16, 3, ['.'], 4, false⟩) none .junk
    = .ok (48, 0x001b774954fd, ⟨"mac_cisco", 16, 3, ['.'], 4, false⟩) := by rfl

/-- **a finite float** `x` (`t = int(x)`, truncated towards zero): with an explicit version it is
    the integer `t` (accepted in `0 .. 2^version - 1`, AddrFormatError outside); with no version it is
    a **TypeError** (`_is_int` is False, so no default version is chosen and `eui48.str_to_int`
    refuses a non-str) -/
theorem ctor_float (t : Int) :
    ctorValue (.float t) none = .error .type_ ∧
    (∀ ver : Nat, ver = 48 ∨ ver = 64 →
      (0 ≤ t → t < 2 ^ ver → ctorValue (.float t) (some ver) = .ok (ver, t.toNat)) ∧
      (t < 0 ∨ 2 ^ ver ≤ t → ctorValue (.float t) (some ver) = .error .addrFormat)) ∧
    (∀ k : Int, k ≠ 48 → k ≠ 64 → ctorValue (.float t) (some k) = .error .value) := by
  refine ⟨rfl, ?_, ?_⟩
  · intro ver hver
    rcases hver with rfl | rfl
    · have e : ctorValue (.float t) (some ((48 : Nat) : Int)) =
          if 0 ≤ t ∧ t ≤ ((Eui.maxInt 48 : Nat) : Int) then .ok (48, t.toNat) else .error .addrFormat := rfl
      rw [e, m48]
      exact ⟨fun a b => by rw [if_pos (by omega)], fun a => by rw [if_neg (by omega)]⟩
    · have e : ctorValue (.float t) (some ((64 : Nat) : Int)) =
          if 0 ≤ t ∧ t ≤ ((Eui.maxInt 64 : Nat) : Int) then .ok (64, t.toNat) else .error .addrFormat := rfl
      rw [e, m64]
      exact ⟨fun a b => by rw [if_pos (by omega)], fun a => by rw [if_neg (by omega)]⟩
  · intro k h1 h2
    simp only [ctorValue, if_neg h1, if_neg h2]

example : ctorValue (.float 3) (some 48) = .ok (48, 3) := by rfl

/-- **None and bytes**: None is a **TypeError** with or without a version (`int(None)` /
    `eui48.str_to_int(None)`); a bytes object passes `_is_str` and then fails inside `re`: a
    **TypeError** with no version or `version=48` (eui48.str_to_int lets it escape), an
    **AddrFormatError** with `version=64` (eui64.str_to_int wraps it) -/
theorem ctor_none_bytes :
    ctorValue .pyNone none = .error .type_ ∧ ctorValue .pyNone (some 48) = .error .type_ ∧
    ctorValue .pyNone (some 64) = .error .type_ ∧
    ctorValue .bytes none = .error .type_ ∧ ctorValue .bytes (some 48) = .error .type_ ∧
    ctorValue .bytes (some 64) = .error .addrFormat ∧
    (∀ (a : CtorArg) (k : Int), k ≠ 48 → k ≠ 64 → (∀ w v d, a ≠ .eui w v d) → ctorValue a (some k) = .error .value) := by
  refine ⟨rfl, rfl, rfl, rfl, rfl, rfl, ?_⟩
  intro a k h1 h2 _
  simp only [ctorValue, if_neg h1, if_neg h2]

/-- **the dialect argument** of a constructor call that is not a copy: None gives the default
    dialect of the version found (mac_eui48 / eui64_base), a dialect class is taken as it is —
    of whichever family —, anything else is a **TypeError** -/
theorem ctor_dialect (a : CtorArg) (ha : ∀ w v d, a ≠ .eui w v d) (version : Option Int) (ver v : Nat)
    (h : ctorValue a version = .ok (ver, v)) :
    ctor a version .none = .ok (ver, v, defaultDialect ver) ∧
    (∀ d, ctor a version (.cls d) = .ok (ver, v, d)) ∧
    ctor a version .junk = .error .type_ := by
  have e : ∀ dia, ctor a version dia = attachDialect dia (ctorValue a version) := by
    intro dia
    cases a with
    | eui w x d => exact absurd rfl (ha w x d)
    | _ => rfl
  refine ⟨by rw [e, h]; rfl, fun d => by rw [e, h]; rfl, by rw [e, h]; rfl⟩

/-- **order of the exceptions**: an exception of the version / value part comes before the
    dialect is looked at (`EUI('zz', dialect=5)` is an AddrFormatError, `EUI(5, version=3,
    dialect=5)` a ValueError) -/
theorem ctor_error_order (a : CtorArg) (ha : ∀ w v d, a ≠ .eui w v d) (version : Option Int) (e : Err)
    (h : ctorValue a version = .error e) (dia : DialectArg) : ctor a version dia = .error e := by
  cases a with
  | eui w x d => exact absurd rfl (ha w x d)
  | _ => show attachDialect dia _ = _; rw [h]; rfl

example : ctor (.addr (.str "zz".toList)) none .junk = .error .addrFormat := by rfl
example : ctor (.addr (.int 5)) (some 3) .junk = .error .value := by rfl
example : ctor (.addr (.int 5)) none .junk = .error .type_ := by rfl
example : ctor (.addr (.int 5)) none (.cls eui64Default) = .ok (48, 5, eui64Default) := by rfl

/-- **the exception class of every rejected constructor call that is not a copy** (integers below
    the digit limit; `C08.ofAnyF_error_class` extended to every argument kind): **ValueError**
    exactly for a version other than 48 / 64; **TypeError** for a versionless argument that is no
    str (an integer outside 0 … 2^64-1, a float, None, bytes), for None with any version and for
    bytes with `version=48`; **AddrFormatError** otherwise (a str that is no EUI of the requested /
    of any version, an int or float outside the explicit version's range, bytes with `version=64`) -/
theorem ctorValue_error_class (a : CtorArg) (ha : ∀ w v d, a ≠ .eui w v d)
    (hb : ∀ n, a = .addr (.int n) → n.natAbs < 10 ^ strDigitLimit) (ver : Option Int) (e : Err)
    (h : ctorValue a ver = .error e) :
    (e = .value ∧ ∃ k, ver = some k ∧ k ≠ 48 ∧ k ≠ 64) ∨
    (e = .type_ ∧ ((ver = none ∧ ∀ s, a ≠ .addr (.str s)) ∨ a = .pyNone ∨ (a = .bytes ∧ ver = some 48))) ∨
    (e = .addrFormat ∧ (ver = some 48 ∨ ver = some 64 ∨ (ver = none ∧ ∃ s, a = .addr (.str s)))) := by
  -- the version test comes first, whatever the argument
  have hver : ∀ k : Int, ver = some k → k ≠ 48 → k ≠ 64 → e = .value := by
    intro k hk h1 h2
    subst hk
    simp only [ctorValue, if_neg h1, if_neg h2] at h
    injection h with h; exact h.symm
  cases a with
  | eui w v d => exact absurd rfl (ha w v d)
  | addr x =>
    cases x with
    | str s =>
      rw [ctorValue_str] at h
      rcases ofAnyF_error_class _ _ _ h with ⟨a1, a2⟩ | ⟨_, _, n, hn, _⟩ | ⟨a1, a2⟩
      · exact Or.inl ⟨a1, a2⟩
      · cases hn
      · refine Or.inr (Or.inr ⟨a1, ?_⟩)
        rcases a2 with a2 | a2 | ⟨a2, t, ht⟩
        · exact Or.inl a2
        · exact Or.inr (Or.inl a2)
        · exact Or.inr (Or.inr ⟨a2, s, rfl⟩)
    | int n =>
      rw [ctorValue_int n (hb n rfl)] at h
      rcases ofAnyF_error_class _ _ _ h with ⟨a1, a2⟩ | ⟨a1, a2, _⟩ | ⟨a1, a2⟩
      · exact Or.inl ⟨a1, a2⟩
      · exact Or.inr (Or.inl ⟨a1, Or.inl ⟨a2, fun s hs => by cases hs⟩⟩)
      · refine Or.inr (Or.inr ⟨a1, ?_⟩)
        rcases a2 with a2 | a2 | ⟨_, t, ht⟩
        · exact Or.inl a2
        · exact Or.inr (Or.inl a2)
        · cases ht
  | float t =>
    cases ver with
    | none =>
      have : e = .type_ := by injection (show Except.error Err.type_ = Except.error e from h) with h'; exact h'.symm
      exact Or.inr (Or.inl ⟨this, Or.inl ⟨rfl, fun s hs => by cases hs⟩⟩)
    | some k =>
      by_cases h48 : k = 48
      · subst h48
        have e1 : ctorValue (.float t) (some 48) =
            if 0 ≤ t ∧ t ≤ ((Eui.maxInt 48 : Nat) : Int) then .ok (48, t.toNat) else .error .addrFormat := rfl
        rw [e1] at h
        split at h
        · cases h
        · injection h with h; exact Or.inr (Or.inr ⟨h.symm, Or.inl rfl⟩)
      · by_cases h64 : k = 64
        · subst h64
          have e1 : ctorValue (.float t) (some 64) =
              if 0 ≤ t ∧ t ≤ ((Eui.maxInt 64 : Nat) : Int) then .ok (64, t.toNat) else .error .addrFormat := rfl
          rw [e1] at h
          split at h
          · cases h
          · injection h with h; exact Or.inr (Or.inr ⟨h.symm, Or.inr (Or.inl rfl)⟩)
        · exact Or.inl ⟨hver k rfl h48 h64, k, rfl, h48, h64⟩
  | pyNone =>
    cases ver with
    | none =>
      have : e = .type_ := by injection (show Except.error Err.type_ = Except.error e from h) with h'; exact h'.symm
      exact Or.inr (Or.inl ⟨this, Or.inr (Or.inl rfl)⟩)
    | some k =>
      by_cases h48 : k = 48
      · subst h48
        have : e = .type_ := by injection (show Except.error Err.type_ = Except.error e from h) with h'; exact h'.symm
        exact Or.inr (Or.inl ⟨this, Or.inr (Or.inl rfl)⟩)
      · by_cases h64 : k = 64
        · subst h64
          have : e = .type_ := by injection (show Except.error Err.type_ = Except.error e from h) with h'; exact h'.symm
          exact Or.inr (Or.inl ⟨this, Or.inr (Or.inl rfl)⟩)
        · exact Or.inl ⟨hver k rfl h48 h64, k, rfl, h48, h64⟩
  | bytes =>
    cases ver with
    | none =>
      have : e = .type_ := by injection (show Except.error Err.type_ = Except.error e from h) with h'; exact h'.symm
      exact Or.inr (Or.inl ⟨this, Or.inl ⟨rfl, fun s hs => by cases hs⟩⟩)
    | some k =>
      by_cases h48 : k = 48
      · subst h48
        have : e = .type_ := by injection (show Except.error Err.type_ = Except.error e from h) with h'; exact h'.symm
        exact Or.inr (Or.inl ⟨this, Or.inr (Or.inr ⟨rfl, rfl⟩)⟩)
      · by_cases h64 : k = 64
        · subst h64
          have : e = .addrFormat := by
            injection (show Except.error Err.addrFormat = Except.error e from h) with h'; exact h'.symm
          exact Or.inr (Or.inr ⟨this, Or.inr (Or.inl rfl)⟩)
        · exact Or.inl ⟨hver k rfl h48 h64, k, rfl, h48, h64⟩

example : ctorValue .bytes (some 64) = .error .addrFormat := by rfl
example : ctorValue (.float 3) none = .error .type_ := by rfl

/-! ## finding 11, continued: operands that are not EUI objects -/

/-- an EUI operand: the comparison of the keys -/
theorem cmpWith_eui (op : CmpOp) (ver v w x : Nat) : cmpWith op ver v (.eui w x) = .ok (cmpOp op ver v w x) := rfl

/-- **a str operand** goes through the constructor with no version (`self.__class__(other)`): if
    that gives `(w, x)` the result is the comparison with `EUI(other)` — whatever `self`'s version
    and dialect —, and if it raises, `NotImplemented` is returned: `==` False, `!=` True, an
    ordering operator a **TypeError** -/
theorem cmpWith_str (op : CmpOp) (ver v : Nat) (s : List Char) :
    (∀ w x, ofAnyF (.str s) none = .ok (w, x) →
      cmpWith op ver v (.arg (.addr (.str s))) = .ok (cmpOp op ver v w x)) ∧
    (∀ e, ofAnyF (.str s) none = .error e → cmpWith op ver v (.arg (.addr (.str s))) = notImplemented op) := by
  have e : ctor (.addr (.str s)) none .none = attachDialect .none (ofAnyF (.str s) none) := by
    show attachDialect .none (ctorValue _ _) = _
    rw [ctorValue_str]
  constructor
  · intro w x h
    simp only [cmpWith, e, h, attachDialect, validateDialect]
  · intro er h
    simp only [cmpWith, e, h, attachDialect]

/-- **an int operand** (a bool included): below 2^48 it is compared as the EUI-48 of that value,
    from 2^48 to 2^64-1 as the EUI-64 — so `EUI(5, version=64) == 5` is False —, and a negative
    or larger integer gives `NotImplemented` (also beyond the digit limit, where the constructor's
    ValueError is swallowed by `except Exception`) -/
theorem cmpWith_int (op : CmpOp) (ver v : Nat) (n : Int) :
    (0 ≤ n → n < 2 ^ 48 → cmpWith op ver v (.arg (.addr (.int n))) = .ok (cmpOp op ver v 48 n.toNat)) ∧
    (2 ^ 48 ≤ n → n < 2 ^ 64 → cmpWith op ver v (.arg (.addr (.int n))) = .ok (cmpOp op ver v 64 n.toNat)) ∧
    (n < 0 ∨ 2 ^ 64 ≤ n → cmpWith op ver v (.arg (.addr (.int n))) = notImplemented op) := by
  have e : ctor (.addr (.int n)) none .none = attachDialect .none (ctorValue (.addr (.int n)) none) := rfl
  refine ⟨?_, ?_, ?_⟩
  · intro h0 h1
    rw [cmpWith, e, ctorValue_int n (small_of_le n h0 (by omega)), (ofAnyF_int n).1 h0 h1]
    rfl
  · intro h0 h1
    rw [cmpWith, e, ctorValue_int n (small_of_le n (by omega) (by omega)), (ofAnyF_int n).2.1 h0 h1]
    rfl
  · intro h
    by_cases hb : n.natAbs < 10 ^ strDigitLimit
    · rw [cmpWith, e, ctorValue_int n hb, (ofAnyF_int n).2.2.1 h]
      rfl
    · rw [cmpWith, e, (ctorValue_int_huge n (by omega) none .none).1]
      rfl

/-- **a float, None or bytes operand**: the constructor raises, so `==` is False, `!=` True and an
    ordering operator a TypeError -/
theorem cmpWith_other (op : CmpOp) (ver v : Nat) (t : Int) :
    cmpWith op ver v (.arg (.float t)) = notImplemented op ∧
    cmpWith op ver v (.arg .pyNone) = notImplemented op ∧
    cmpWith op ver v (.arg .bytes) = notImplemented op := ⟨rfl, rfl, rfl⟩

example : cmpWith .eq 48 0x001b774954fd (.arg (.addr (.str "001b.7749.54fd".toList))) = .ok true := by rfl
example : cmpWith .eq 64 5 (.arg (.addr (.int 5))) = .ok false := by rfl
example : cmpWith .eq 48 5 (.arg (.addr (.int 5))) = .ok true := by rfl
example : cmpWith .lt 48 0x001b774954fd (.arg (.addr (.str "junk".toList))) = .error .type_ := by rfl
example : cmpWith .eq 48 0x001b774954fd (.arg (.addr (.str "junk".toList))) = .ok false := by rfl
example : cmpWith .ne 48 0x001b774954fd (.arg .pyNone) = .ok true := by rfl

/-! ## finding 13: the setters of a live object -/

/-- **`e.value = x` is the explicit-version branch** of `_set_value` (the function `setExplicitF`
    of Model/Eui.lean) at the object's own version, for a str and for an int below the digit limit:
    no version detection and no integer fallback -/
theorem value_setter (ver : Nat) (a : AddrArg) (h : ∀ n, a = .int n → n.natAbs < 10 ^ strDigitLimit) :
    setValueLive ver (.addr a) = setExplicitF ver a := by
  cases a with
  | str s => rfl
  | int n => exact sve_int ver n (h n rfl)

/-- **`e.value = '1234'` is an AddrFormatError although `EUI('1234')` is accepted**: a string of
    decimal digits that is no bare EUI (not 11, 12 or 16 characters) and denotes a number below 2^64
    is accepted by the constructor with no version (the integer fallback, `C08.decimal_string`) and
    refused by the value setter of an EUI-48 and of an EUI-64 -/
theorem setter_no_fallback (s : List Char) (h : DecStr s) (hl : s.length ≠ 11 ∧ s.length ≠ 12 ∧ s.length ≠ 16)
    (hv : digitsNat 10 s 0 < 2 ^ 64) :
    (∃ w, ofAnyF (.str s) none = .ok (w, digitsNat 10 s 0)) ∧
    setValueLive 48 (.addr (.str s)) = .error .addrFormat ∧
    setValueLive 64 (.addr (.str s)) = .error .addrFormat := by
  obtain ⟨a, b, _, c48, c64⟩ := decimal_string s h hl
  have f48 : ofAnyF (.str s) (some 48) = setExplicitF 48 (.str s) := by
    unfold ofAnyF; simp only []; rw [if_pos (by decide)]; rfl
  have f64 : ofAnyF (.str s) (some 64) = setExplicitF 64 (.str s) := by
    unfold ofAnyF; simp only []; rw [if_pos (by decide)]; rfl
  refine ⟨?_, ?_, ?_⟩
  · by_cases h48 : digitsNat 10 s 0 < 2 ^ 48
    · exact ⟨48, a h48⟩
    · exact ⟨64, b (by omega) hv⟩
  · show setExplicitF 48 (.str s) = _; rw [← f48]; exact c48
  · show setExplicitF 64 (.str s) = _; rw [← f64]; exact c64

example : setValueLive 48 (.addr (.str "1234".toList)) = .error .addrFormat := by rfl
example : ofAnyF (.str "1234".toList) none = .ok (48, 1234) := by rfl
example : setValueLive 48 (.addr (.int 1234)) = .ok (48, 1234) := by rfl

/-- finding 4 for the value setter: an int beyond the digit limit is a **ValueError** (the
    AddrFormatError message formats it) -/
theorem setValueLive_int_huge (ver : Nat) (hver : ver = 48 ∨ ver = 64) (n : Int) (h : 10 ^ strDigitLimit ≤ n.natAbs) :
    setValueLive ver (.addr (.int n)) = .error .value := by
  have hbig : ¬ (0 ≤ n ∧ n ≤ 18446744073709551615) := by
    intro ⟨a, b⟩
    have := small_of_le n a b
    omega
  rcases hver with rfl | rfl
  · simp only [setValueLive, setValueExplicit, m48]
    rw [if_neg (by omega)]
    simp only [raiseFmt, nh h]; rfl
  · simp only [setValueLive, setValueExplicit, m64]
    rw [if_neg (by omega)]
    simp only [raiseFmt, nh h]; rfl

/-- **`e.dialect = x`**: None resets to the default dialect of the object's version, a dialect
    class (of either family) is taken as it is, anything else is a **TypeError** -/
theorem dialect_setter (ver : Nat) :
    setDialectLive ver .none = .ok (defaultDialect ver) ∧
    (∀ d, setDialectLive ver (.cls d) = .ok d) ∧
    setDialectLive ver .junk = .error .type_ ∧
    defaultDialect 48 = macDefault ∧ defaultDialect 64 = eui64Default := ⟨rfl, fun _ => rfl, rfl, rfl, rfl⟩

/-! ## finding 14: separator-less dialects with several words -/

private theorem one_tok_value (s : List Char) :
    beWordsValue 48 ([s].map tokVal) = tokVal s ∧ beWordsValue 64 ([s].map tokVal) = tokVal s := by
  simp [beWordsValue, leValue]

/-- **round trip for a separator-less user subclass** (`class nosep(mac_eui48): word_sep = ''`,
    and any dialect with an empty separator whose words are printed with exactly `word_size / 4`
    digits and fill 48 bits): the printed text is the twelve-digit bare spelling and parses back,
    with implicit and with explicit version, to (48, value).  `C08.roundtrip_fit48` does not
    cover these: its `fits` allows an empty separator for one-word dialects only. -/
theorem roundtrip_bare48 (d : Dialect) (f : MacFmt) (hf : f ∈ macFormats) (hfit : fitsBare d f 48 = true)
    (v : Nat) (hv : v < 2 ^ 48) :
    ∃ s, intToStr d v = .ok s ∧ strToInt48 s = .ok v ∧ ofAny (.str s) none = .ok (48, v) ∧
      ofAny (.str s) (some 48) = .ok (48, v) := by
  obtain ⟨h1, h2, _, h4, h5, h6, h7, h8⟩ := print_bare d f 48 hfit v hv
  obtain ⟨hsp, he⟩ := tok_spelling _ h2
  obtain ⟨p, hp, _, a, b, c⟩ := spellings48 f hf ':' [_] hsp (Or.inr ⟨h5, rfl⟩) (by rw [h6]; rfl)
    (by intro t ht; simp only [List.mem_singleton] at ht; subst ht; exact ⟨h7, h8⟩)
  have hp12 : p = 12 := by rw [h6] at hp; simpa [pad48] using hp.symm
  subst hp12
  rw [he, (one_tok_value _).1, h4] at a b c
  exact ⟨_, h1, a, b, c⟩

/-- the EUI-64 counterpart (sixteen digits) -/
theorem roundtrip_bare64 (d : Dialect) (f : MacFmt) (hf : f ∈ eui64Formats) (hfit : fitsBare d f 64 = true)
    (v : Nat) (hv : v < 2 ^ 64) :
    ∃ s, intToStr d v = .ok s ∧ strToInt64 s = .ok v ∧ ofAny (.str s) none = .ok (64, v) ∧
      ofAny (.str s) (some 64) = .ok (64, v) := by
  obtain ⟨h1, h2, _, h4, h5, h6, h7, h8⟩ := print_bare d f 64 hfit v hv
  obtain ⟨hsp, he⟩ := tok_spelling _ h2
  obtain ⟨p, hp, _, a, _, b, c⟩ := spellings64 f hf ':' [_] hsp (Or.inr ⟨h5, rfl⟩) (by rw [h6]; rfl)
    (by intro t ht; simp only [List.mem_singleton] at ht; subst ht; exact ⟨h7, h8⟩)
  have hp16 : p = 16 := by rw [h6] at hp; simpa [pad64] using hp.symm
  subst hp16
  rw [he, (one_tok_value _).2, h4] at a b c
  exact ⟨_, h1, a, b, c⟩

/-- **round trip, general form, extended**: a dialect that fits a row of `RE_MAC_FORMATS` in the
    sense of `fits` (separator and word shape of the row) OR of `fitsBare` (no separator, fully
    padded words) round-trips -/
theorem roundtrip_fit48_ext (d : Dialect) (f : MacFmt) (p : Nat) (hf : f ∈ macFormats)
    (hfit : fits d f p 48 = true ∨ fitsBare d f 48 = true) (v : Nat) (hv : v < 2 ^ 48) :
    ∃ s, intToStr d v = .ok s ∧ strToInt48 s = .ok v ∧ ofAny (.str s) none = .ok (48, v) ∧
      ofAny (.str s) (some 48) = .ok (48, v) := by
  rcases hfit with h | h
  · exact roundtrip_fit48 d f p hf h v hv
  · exact roundtrip_bare48 d f hf h v hv

theorem roundtrip_fit64_ext (d : Dialect) (f : MacFmt) (p : Nat) (hf : f ∈ eui64Formats)
    (hfit : fits d f p 64 = true ∨ fitsBare d f 64 = true) (v : Nat) (hv : v < 2 ^ 64) :
    ∃ s, intToStr d v = .ok s ∧ strToInt64 s = .ok v ∧ ofAny (.str s) none = .ok (64, v) ∧
      ofAny (.str s) (some 64) = .ok (64, v) := by
  rcases hfit with h | h
  · exact roundtrip_fit64 d f p hf h v hv
  · exact roundtrip_bare64 d f hf h v hv

/-- `class nosep(mac_eui48): word_sep = ''` and its hextet / 24-bit / EUI-64 relatives -/
example : fitsBare ⟨"nosep", 8, 6, [], 2, true⟩ ⟨[], 1, 12, 12⟩ 48 = true := by decide
example : fitsBare ⟨"nosep16", 16, 3, [], 4, false⟩ ⟨[], 1, 12, 12⟩ 48 = true := by decide
example : fitsBare ⟨"nosep64", 8, 8, [], 2, false⟩ ⟨[], 1, 16, 16⟩ 64 = true := by decide
example : (⟨[], 1, 12, 12⟩ : MacFmt) ∈ macFormats := by decide
example : intToStr ⟨"nosep", 8, 6, [], 2, true⟩ 0x001b774954fd = .ok "001B774954FD".toList := by rfl
example : fits ⟨"nosep", 8, 6, [], 2, true⟩ ⟨[], 1, 12, 12⟩ 12 48 = false := by decide

/-! ## finding 17: index and value kinds of `__getitem__` / `__setitem__` -/

/-- `e[idx]`: an int index is `getIdx` (`C08.getIdx_spec`), a slice `getSlice`
    (`C08.getSlice_spec`), any other object a **TypeError** -/
theorem getItem_kinds (v : Nat) (d : Dialect) :
    (∀ i, getItem v d (.int i) = (getIdx v d i).map .word) ∧
    (∀ a b c, getItem v d (.slice a b c) = (getSlice v d a b c).map .words) ∧
    getItem v d .other = .error .type_ := ⟨fun _ => rfl, fun _ _ _ => rfl, rfl⟩

/-- **`e[idx] = value`, the order of the tests** (all integers below the digit limit):
    a slice index is a **NotImplementedError** whatever the value; an index that is no int a
    **TypeError** whatever the value; an int index outside `0 .. num_words-1` an **IndexError**
    even when the value is no int (`e[99] = 'x'`); then a value that is no int is a **TypeError**;
    an int value outside `0 .. 2^word_size-1` an **IndexError**; otherwise the assignment is
    `setItem` (`C08.setItem_spec`, `setItem_width`) -/
theorem setItemAny_precedence (v : Nat) (d : Dialect) :
    (∀ a b c val, setItemAny v d (.slice a b c) val = .error .notImpl) ∧
    (∀ val, setItemAny v d .other val = .error .type_) ∧
    (∀ (i : Int) val, i.natAbs < 10 ^ strDigitLimit → (i < 0 ∨ (d.numWords : Int) ≤ i) →
      setItemAny v d (.int i) val = .error .index) ∧
    (∀ i : Int, 0 ≤ i → i < d.numWords → setItemAny v d (.int i) .other = .error .type_) ∧
    (∀ i x : Int, 0 ≤ i → i < d.numWords → x.natAbs < 10 ^ strDigitLimit → (x < 0 ∨ (2 : Int) ^ d.wordSize ≤ x) →
      setItemAny v d (.int i) (.int x) = .error .index) ∧
    (∀ i x : Int, 0 ≤ i → i < d.numWords → 0 ≤ x → x < (2 : Int) ^ d.wordSize →
      setItemAny v d (.int i) (.int x) = setItem v d i x) := by
  refine ⟨fun _ _ _ _ => rfl, fun _ => rfl, ?_, ?_, ?_, ?_⟩
  · intro i val hb hi
    simp only [setItemAny]
    rw [if_pos (by omega)]
    simp only [raiseFmt, nb hb]; rfl
  · intro i h0 h1
    simp only [setItemAny]
    rw [if_neg (by omega)]
  · intro i x h0 h1 hb hx
    simp only [setItemAny]
    rw [if_neg (by omega), if_pos (by omega)]
    simp only [raiseFmt, nb hb]; rfl
  · intro i x h0 h1 h2 h3
    simp only [setItemAny]
    rw [if_neg (by omega), if_neg (by omega)]

/-- finding 4 for `__setitem__`: an int index, or (for an index in range) an int value, beyond the
    digit limit is a **ValueError** — the IndexError messages format them with `%d`
    (eui/__init__.py:552, 558).  `C08.setItem_reject` (IndexError) is a statement about `setItem`,
    which has no such limit; it describes the code below 10^4300 (`setItemAny_precedence`). -/
theorem setItemAny_huge (v : Nat) (d : Dialect) :
    (∀ (i : Int) val, 10 ^ strDigitLimit ≤ i.natAbs → d.numWords < 10 ^ strDigitLimit →
      setItemAny v d (.int i) val = .error .value) ∧
    (∀ i x : Int, 0 ≤ i → i < d.numWords → 10 ^ strDigitLimit ≤ x.natAbs → d.wordSize ≤ 12900 →
      setItemAny v d (.int i) (.int x) = .error .value) := by
  constructor
  · intro i val hb hn
    simp only [setItemAny]
    rw [if_pos (by omega)]
    simp only [raiseFmt, nh hb]; rfl
  · intro i x h0 h1 hb hws
    have hp : (2 : Nat) ^ d.wordSize ≤ 10 ^ strDigitLimit := by
      have h2 : (2 : Nat) ^ d.wordSize ≤ 2 ^ (3 * strDigitLimit) :=
        Nat.pow_le_pow_right (by decide) (by show d.wordSize ≤ 3 * 4300; omega)
      have h3 : (2 : Nat) ^ (3 * strDigitLimit) ≤ 10 ^ strDigitLimit := by
        rw [Nat.pow_mul]; exact Nat.pow_le_pow_left (by decide) _
      exact Nat.le_trans h2 h3
    have hx : x < 0 ∨ (2 : Int) ^ d.wordSize ≤ x := by
      by_cases hneg : x < 0
      · exact Or.inl hneg
      · right
        have : ((2 : Nat) ^ d.wordSize : Nat) ≤ x.natAbs := Nat.le_trans hp hb
        have e : ((x.natAbs : Nat) : Int) = x := Int.natAbs_of_nonneg (by omega)
        rw [← e]
        exact_mod_cast this
    simp only [setItemAny]
    rw [if_neg (by omega), if_pos (by omega)]
    simp only [raiseFmt, nh hb]; rfl

set_option exponentiation.threshold 5000 in
example : setItemAny 0x001b774954fd macDefault (.int 99) .other = .error .index := by rfl
example : setItemAny 0x001b774954fd macDefault .other (.int 9999) = .error .type_ := by rfl
example : setItemAny 0x001b774954fd macDefault (.slice none none none) .other = .error .notImpl := by rfl
set_option exponentiation.threshold 5000 in
example : setItemAny 0x001b774954fd macDefault (.int 0) (.int 0xff) = .ok 0xff1b774954fd := by rfl

/-! ## finding 20: what words and bit strings are -/

/-- **`words`** of an EUI are the octets of the value, most significant first: 6 (EUI-48) / 8
    (EUI-64) numbers below 256 whose big-endian value is the identifier (`C15.intToWords_spec`
    instantiated; `C08.accessors_dialect_free` only says which codec is called) -/
theorem words_are (v : Nat) :
    (v < 2 ^ 48 → ∃ ws, Eui.words 48 v = .ok ws ∧ ws.length = 6 ∧ (∀ x ∈ ws, x < 256) ∧ beWordsValue 8 ws = v) ∧
    (v < 2 ^ 64 → ∃ ws, Eui.words 64 v = .ok ws ∧ ws.length = 8 ∧ (∀ x ∈ ws, x < 256) ∧ beWordsValue 8 ws = v) :=
  ⟨fun h => (C15.intToWords_spec v 8 6).1 h, fun h => (C15.intToWords_spec v 8 8).1 h⟩

/-- **`bits(sep)`** is every one of those octets spelled with exactly 8 binary digits, joined by
    the separator; `bits()` uses '-' (`C15.intToBits_spec` instantiated) -/
theorem bits_are (v : Nat) (sep : List Char) :
    (v < 2 ^ 48 → ∃ ws, Eui.words 48 v = .ok ws ∧
      Eui.bits 48 v (some sep) = .ok (sep.intercalate (ws.map (padBits 8))) ∧
      Eui.bits 48 v none = .ok (['-'].intercalate (ws.map (padBits 8)))) ∧
    (v < 2 ^ 64 → ∃ ws, Eui.words 64 v = .ok ws ∧
      Eui.bits 64 v (some sep) = .ok (sep.intercalate (ws.map (padBits 8))) ∧
      Eui.bits 64 v none = .ok (['-'].intercalate (ws.map (padBits 8)))) := by
  constructor
  · intro h
    obtain ⟨ws, a, b⟩ := (C15.intToBits_spec v 8 6 sep).1 h
    obtain ⟨ws', a', b'⟩ := (C15.intToBits_spec v 8 6 ['-']).1 h
    have : ws' = ws := by rw [a] at a'; injection a' with a'; exact a'.symm
    subst this
    exact ⟨ws', a, b, b'⟩
  · intro h
    obtain ⟨ws, a, b⟩ := (C15.intToBits_spec v 8 8 sep).1 h
    obtain ⟨ws', a', b'⟩ := (C15.intToBits_spec v 8 8 ['-']).1 h
    have : ws' = ws := by rw [a] at a'; injection a' with a'; exact a'.symm
    subst this
    exact ⟨ws', a, b, b'⟩

example : Eui.words 48 0x001b774954fd = .ok [0x00, 0x1b, 0x77, 0x49, 0x54, 0xfd] := by rfl

/-! ## finding 23: the dialect of eui64() / modified_eui64() -/

/-- **`eui64()` and `modified_eui64()` return objects in the default EUI-64 dialect**
    (eui64_base) whatever the receiver's dialect is (the model functions have no argument for it;
    the harness varies it): version and value are those of `C08.eui64_spec` /
    `C08.modified_flips_bit57` -/
theorem derived_objects_default_dialect (ver v : Nat) (hver : ver = 48 ∨ ver = 64) (hv : v < 2 ^ ver) :
    ∃ e, eui64 ver v = .ok (64, e) ∧ eui64Obj ver v = .ok (64, e, eui64Default) ∧
      modifiedEui64Obj ver v = .ok (64, e ^^^ 2 ^ 57, eui64Default) ∧
      modifiedEui64 ver v = .ok (64, e ^^^ 2 ^ 57) := by
  have he : ∃ e, eui64 ver v = .ok (64, e) ∧ e < 2 ^ 64 ∧ eui64Value ver v = e := by
    rcases hver with rfl | rfl
    · have h1 := (eui64_spec v).1 hv
      refine ⟨_, h1, by omega, ?_⟩
      have : eui64 48 v = ofAny (.int (eui64Value 48 v)) (some 64) := rfl
      rw [this, ← ctor_faithful] at h1
      by_cases hlt : ((eui64Value 48 v : Nat) : Int) < 2 ^ 64
      · have := (ofAnyF_int (eui64Value 48 v)).2.2.2.2.2.1 (Int.natCast_nonneg _) hlt
        rw [this, Int.toNat_natCast] at h1
        injection h1 with h1; injection h1 with _ h1
      · have := (ofAnyF_int (eui64Value 48 v)).2.2.2.2.2.2 (Or.inr (by omega))
        rw [this] at h1; cases h1
    · have h1 := (eui64_spec v).2 hv
      exact ⟨v, h1, hv, by simp [eui64Value]⟩
  obtain ⟨e, h1, hlt, hval⟩ := he
  have hobj : eui64Obj ver v = .ok (64, e, eui64Default) := by
    unfold eui64Obj
    rw [hval]
    show attachDialect .none (ctorValue (.addr (.int (e : Int))) (some 64)) = _
    rw [ctorValue_int _ (small_of_le _ (Int.natCast_nonneg _) (by omega)),
      (ofAnyF_int (e : Int)).2.2.2.2.2.1 (Int.natCast_nonneg _) (by exact_mod_cast hlt), Int.toNat_natCast]
    rfl
  refine ⟨e, h1, hobj, ?_, (modified_flips_bit57 ver v e h1).1⟩
  simp only [modifiedEui64Obj, hobj]
  rfl

example : eui64Obj 48 0x001b774954fd = .ok (64, 0x001b77fffe4954fd, eui64Default) := by rfl
example : modifiedEui64Obj 48 0x001b774954fd = .ok (64, 0x021b77fffe4954fd, eui64Default) := by rfl

end NV.C08A2
