/-
Props/C13.lean — property C13 "spanning_cidr returns the smallest single block covering all
inputs".  Property theorems only; helper lemmas are in Lemmas/C13L.lean.

Statement (properties.jsonl): for every sequence of two or more addresses/networks of one
family, spanning_cidr returns a host-bit-free network that contains every input (from the
lowest first address to the highest last address) and no longer-prefix block does; the result
is independent of input order and repetition.  Fewer than two inputs raise ValueError and
mixed families raise TypeError.

The theorems are about `spanningCidr` / `spanLoop` of Model/Cidr.lean (the definitions the
driver op `spanning` executes) and the argument-handling wrapper `Span.spanningCidrNets` of
Model/SpanErr.lean (driver op `span_nets`).
-/
import NetaddrVerif.Lemmas.C13L
namespace NV.C13
open NV NV.Span

/-- a valid `IPNetwork` of a family of width `w`: `(_value, _prefixlen)` -/
def PfxWF (w : Nat) (n : Pfx) : Prop := n.val < 2 ^ w ∧ n.plen ≤ w

/-- **C13, main theorem** (one family of any width `w`; IPv4: 32, IPv6: 128).
    For every sequence of two or more networks (addresses are `/w` networks; any host bits,
    any order, duplicates allowed) `spanning_cidr` returns a block `r` that
    * is a valid, host-bit-free network (`r.val` is a multiple of its block size, so
      `r.first = r.val`),
    * contains every input: `r.first <= n.first` and `n.last <= r.last` for all inputs `n`,
    * is the smallest such: every block `(v, q)` that contains every input has `q <= r.plen`
      (no longer-prefix block covers them). -/
theorem spanning_spec (w : Nat) (a b : Pfx) (rest : List Pfx) (hwf : ∀ n ∈ a :: b :: rest, PfxWF w n) :
    ∃ r, spanningCidr w (a :: b :: rest) = .ok r ∧
      r.plen ≤ w ∧ r.val < 2 ^ w ∧ r.val % 2 ^ (w - r.plen) = 0 ∧ r.first w = r.val ∧
      (∀ n ∈ a :: b :: rest, r.first w ≤ n.first w ∧ n.last w ≤ r.last w) ∧
      (∀ q v, q ≤ w → v < 2 ^ w →
        (∀ n ∈ a :: b :: rest, netFirst w v q ≤ n.first w ∧ n.last w ≤ netLast w v q) → q ≤ r.plen) := by
  refine ⟨_, spanningCidr_eq w a b rest, ?_⟩
  obtain ⟨hlo1, nlo, hnlo, elo⟩ := lowest_spec w a (b :: rest)
  obtain ⟨hhi1, nhi, hnhi, ehi⟩ := highest_spec w a (b :: rest)
  generalize lowest w a (b :: rest) = lo at *
  generalize highest w a (b :: rest) = hi at *
  have hhi : hi < 2 ^ w := by
    obtain ⟨hv, hp⟩ := hwf nhi hnhi
    rw [ehi]; unfold Pfx.last; rw [netLast_eq]
    have := block_lt w nhi.val nhi.plen hv hp
    have := pw (w - nhi.plen); omega
  have hlh : lo ≤ hi := by
    have h1 := hlo1 a (List.mem_cons_self ..)
    have h2 := hhi1 a (List.mem_cons_self ..)
    have := NV.Contains.first_le_last w a.val a.plen (hwf a (List.mem_cons_self ..)).1
    unfold Pfx.first at h1; unfold Pfx.last at h2; omega
  obtain ⟨s1, s2, s3, s4⟩ := spanningOf_spec w lo hi hhi
  generalize spanningOf w lo hi = r at *
  have hB := pw (w - r.plen)
  have hvlt : r.val < 2 ^ w := by rw [s2]; have := trunc_le hi (w - r.plen); omega
  have hfirst : r.first w = r.val := by
    unfold Pfx.first; rw [netFirst_eq w _ _ hvlt]
    rw [s2]; unfold trunc; rw [Nat.mul_div_cancel _ hB]
  have hlast : r.last w = r.val + (2 ^ (w - r.plen) - 1) := by
    unfold Pfx.last; rw [NV.Contains.last_eq w _ _ hvlt]
    unfold Pfx.first at hfirst; rw [hfirst]
  refine ⟨s1, hvlt, ?_, hfirst, ?_, ?_⟩
  · rw [s2]; unfold trunc; exact Nat.mul_mod_left _ _
  · intro n hn
    have h1 := hlo1 n hn
    have h2 := hhi1 n hn
    have h3 := lt_trunc_add hi (w - r.plen)
    rw [hfirst, hlast]
    rw [← s2] at h3
    omega
  · intro q v hq hv hcov
    by_cases hqr : q ≤ r.plen
    · exact hqr
    · exfalso
      have h1 := s4 (w - q) (by omega)
      have h2 := cover_trunc w v q lo hi hv (by rw [elo]; exact (hcov nlo hnlo).1)
        (by rw [ehi]; exact (hcov nhi hnhi).2) hlh
      omega

/-- **Order and repetition do not matter**: two sequences (length >= 2) with the same members
    — any permutation, any duplication — give the same result. -/
theorem perm_dup_invariant (w : Nat) (l l' : List Pfx) (h2 : 2 ≤ l.length) (h2' : 2 ≤ l'.length)
    (hmem : ∀ x, x ∈ l ↔ x ∈ l') : spanningCidr w l = spanningCidr w l' := by
  match l, l', h2, h2' with
  | a :: b :: rest, a' :: b' :: rest', _, _ =>
    rw [spanningCidr_eq, spanningCidr_eq, lowest_congr w a a' _ _ hmem, highest_congr w a a' _ _ hmem]

theorem perm_invariant (w : Nat) (l l' : List Pfx) (hp : l.Perm l') : spanningCidr w l = spanningCidr w l' := by
  by_cases h2 : 2 ≤ l.length
  · exact perm_dup_invariant w l l' h2 (by rw [← hp.length_eq]; exact h2) (fun x => hp.mem_iff)
  · have h2' : ¬ 2 ≤ l'.length := by rw [← hp.length_eq]; exact h2
    match l, l', h2, h2' with
    | [], [], _, _ => rfl
    | [], [_], _, _ => rfl
    | [_], [], _, _ => rfl
    | [_], [_], _, _ => rfl
    | _ :: _ :: _, _, h, _ => simp at h
    | _, _ :: _ :: _, _, h => simp at h

/-- **Errors of the core**: exactly the sequences with fewer than two elements are rejected,
    with ValueError. -/
theorem short_iff (w : Nat) (l : List Pfx) : spanningCidr w l = .error .value ↔ l.length < 2 := by
  match l with
  | [] => simp [spanningCidr]
  | [_] => simp [spanningCidr]
  | a :: b :: rest => rw [spanningCidr_eq]; simp

/-- **C13, errors, on the argument-handling wrapper** (`spanning_cidr(ip_addrs)` on the
    `IPNetwork(ip)` conversions of its elements):
    * fewer than two inputs ⇔ ValueError,
    * at least two inputs, not all of the first one's family ⇔ TypeError,
    * otherwise the result is the spanning block of the common family (so `spanning_spec`
      and `perm_dup_invariant` apply with `w = width ver`). -/
theorem errors (nets : List Net) :
    (spanningCidrNets nets = .error .value ↔ nets.length < 2) ∧
    (spanningCidrNets nets = .error .type_ ↔ (2 ≤ nets.length ∧ ∃ n ∈ nets, ∃ m ∈ nets, n.ver ≠ m.ver)) ∧
    (∀ a b rest, nets = a :: b :: rest → (∀ n ∈ nets, n.ver = a.ver) →
      ∃ r, spanningCidr (width a.ver) (nets.map (fun n => (⟨n.val, n.plen⟩ : Pfx))) = .ok r ∧
        spanningCidrNets nets = .ok ⟨a.ver, r.val, r.plen⟩) := by
  match nets with
  | [] => simp [spanningCidrNets]
  | [x] => simp [spanningCidrNets]
  | a :: b :: rest =>
    have hok : ∃ r, spanningCidr (width a.ver) ((a :: b :: rest).map (fun n => (⟨n.val, n.plen⟩ : Pfx))) = .ok r :=
      ⟨_, spanningCidr_eq _ _ _ _⟩
    obtain ⟨r, hr⟩ := hok
    by_cases hall : (b :: rest).all (fun n => n.ver == a.ver) = true
    · have hres : spanningCidrNets (a :: b :: rest) = .ok ⟨a.ver, r.val, r.plen⟩ := by
        simp only [spanningCidrNets]; rw [if_pos hall, hr]
      have hsame : ∀ n ∈ a :: b :: rest, n.ver = a.ver := by
        intro n hn
        rcases List.mem_cons.1 hn with rfl | hn
        · rfl
        · have := List.all_eq_true.1 hall n hn; simpa using this
      refine ⟨?_, ?_, ?_⟩
      · rw [hres]; simp
      · rw [hres]
        constructor
        · intro h; cases h
        · rintro ⟨_, n, hn, m, hm, hne⟩
          exact absurd ((hsame n hn).trans (hsame m hm).symm) hne
      · intro a' b' rest' heq _
        cases heq
        exact ⟨r, hr, hres⟩
    · have hres : spanningCidrNets (a :: b :: rest) = .error .type_ := by
        simp only [spanningCidrNets]; rw [if_neg hall]
      refine ⟨?_, ?_, ?_⟩
      · rw [hres]; simp
      · rw [hres]
        refine ⟨fun _ => ⟨by simp, ?_⟩, fun _ => rfl⟩
        have : ∃ n ∈ b :: rest, ¬ (n.ver == a.ver) = true := by
          apply Classical.byContradiction
          intro hcon
          apply hall
          rw [List.all_eq_true]
          intro n hn
          apply Classical.byContradiction
          intro hne
          exact hcon ⟨n, hn, hne⟩
        obtain ⟨n, hn, hne⟩ := this
        exact ⟨n, List.mem_cons_of_mem _ hn, a, List.mem_cons_self .., by simpa using hne⟩
      · intro a' b' rest' heq hsame
        cases heq
        exfalso; apply hall
        rw [List.all_eq_true]
        intro n hn
        simpa using hsame n (List.mem_cons_of_mem _ hn)

/-- **C13 on the function the driver op `span_nets` runs**: for two or more valid networks of
    one family the wrapper returns a valid, host-bit-free network of that family that contains
    every input, and every block containing all inputs has a prefix length `<=` the result's. -/
theorem spanning_nets_spec (a b : Net) (rest : List Net) (hwf : ∀ n ∈ a :: b :: rest, n.WF)
    (hver : ∀ n ∈ a :: b :: rest, n.ver = a.ver) :
    ∃ r, spanningCidrNets (a :: b :: rest) = .ok r ∧ r.WF ∧ r.ver = a.ver ∧ r.first = r.val ∧
      (∀ n ∈ a :: b :: rest, r.first ≤ n.first ∧ n.last ≤ r.last) ∧
      (∀ c : Net, c.WF → c.ver = a.ver → (∀ n ∈ a :: b :: rest, c.first ≤ n.first ∧ n.last ≤ c.last) →
        c.plen ≤ r.plen) := by
  obtain ⟨p, hp, hres⟩ := (errors (a :: b :: rest)).2.2 a b rest rfl hver
  have hwf' : ∀ n ∈ (⟨a.val, a.plen⟩ : Pfx) :: ⟨b.val, b.plen⟩ :: rest.map (fun n => (⟨n.val, n.plen⟩ : Pfx)),
      PfxWF (width a.ver) n := by
    intro n hn
    have : n ∈ (a :: b :: rest).map (fun n => (⟨n.val, n.plen⟩ : Pfx)) := by simpa using hn
    obtain ⟨m, hm, rfl⟩ := List.mem_map.1 this
    obtain ⟨_, h1, h2⟩ := hwf m hm
    rw [hver m hm] at h1 h2
    exact ⟨h1, h2⟩
  obtain ⟨r, hr, s1, s2, s3, s4, s5, s6⟩ := spanning_spec (width a.ver) ⟨a.val, a.plen⟩ ⟨b.val, b.plen⟩
    (rest.map (fun n => (⟨n.val, n.plen⟩ : Pfx))) hwf'
  have hpr : p = r := by
    have e : (a :: b :: rest).map (fun n => (⟨n.val, n.plen⟩ : Pfx)) =
        ⟨a.val, a.plen⟩ :: ⟨b.val, b.plen⟩ :: rest.map (fun n => (⟨n.val, n.plen⟩ : Pfx)) := by simp
    rw [e, hr] at hp; cases hp; rfl
  subst hpr
  have hmem : ∀ n ∈ a :: b :: rest, (⟨n.val, n.plen⟩ : Pfx) ∈
      (⟨a.val, a.plen⟩ : Pfx) :: ⟨b.val, b.plen⟩ :: rest.map (fun n => (⟨n.val, n.plen⟩ : Pfx)) := by
    intro n hn
    have : (⟨n.val, n.plen⟩ : Pfx) ∈ (a :: b :: rest).map (fun n => (⟨n.val, n.plen⟩ : Pfx)) :=
      List.mem_map.2 ⟨n, hn, rfl⟩
    simpa using this
  refine ⟨⟨a.ver, p.val, p.plen⟩, hres, ⟨(hwf a (List.mem_cons_self ..)).1, s2, s1⟩, rfl, s4, ?_, ?_⟩
  · intro n hn
    have := s5 _ (hmem n hn)
    unfold Net.first Net.last
    rw [hver n hn]
    exact this
  · intro c hc hcv hcov
    obtain ⟨_, c1, c2⟩ := hc
    rw [hcv] at c1 c2
    apply s6 c.plen c.val c2 c1
    intro n hn
    obtain ⟨m, hm, rfl⟩ : ∃ m ∈ a :: b :: rest, n = (⟨m.val, m.plen⟩ : Pfx) := by
      have : n ∈ (a :: b :: rest).map (fun n => (⟨n.val, n.plen⟩ : Pfx)) := by simpa using hn
      obtain ⟨m, hm, e⟩ := List.mem_map.1 this
      exact ⟨m, hm, e.symm⟩
    have := hcov m hm
    unfold Net.first Net.last at this
    rw [hcv, hver m hm] at this
    exact this

/-- order / repetition invariance on the wrapper, errors included: two sequences of length
    >= 2 with the same members give the same result or the same error -/
theorem nets_perm_dup_invariant (l l' : List Net) (h2 : 2 ≤ l.length) (h2' : 2 ≤ l'.length)
    (hmem : ∀ x, x ∈ l ↔ x ∈ l') : spanningCidrNets l = spanningCidrNets l' := by
  match l, l', h2, h2' with
  | a :: b :: rest, a' :: b' :: rest', _, _ =>
    by_cases hsame : ∀ n ∈ a :: b :: rest, n.ver = a.ver
    · have ha' : a'.ver = a.ver := hsame a' ((hmem a').2 (List.mem_cons_self ..))
      have hsame' : ∀ n ∈ a' :: b' :: rest', n.ver = a'.ver := fun n hn => (hsame n ((hmem n).2 hn)).trans ha'.symm
      obtain ⟨r, hr, e⟩ := (errors (a :: b :: rest)).2.2 a b rest rfl hsame
      obtain ⟨r', hr', e'⟩ := (errors (a' :: b' :: rest')).2.2 a' b' rest' rfl hsame'
      rw [e, e']
      rw [ha'] at hr' ⊢
      have := perm_dup_invariant (width a.ver) ((a :: b :: rest).map (fun n => (⟨n.val, n.plen⟩ : Pfx)))
        ((a' :: b' :: rest').map (fun n => (⟨n.val, n.plen⟩ : Pfx))) (by simp) (by simp)
        (by
          intro x
          simp only [List.mem_map]
          constructor
          · rintro ⟨n, hn, rfl⟩; exact ⟨n, (hmem n).1 hn, rfl⟩
          · rintro ⟨n, hn, rfl⟩; exact ⟨n, (hmem n).2 hn, rfl⟩)
      rw [hr, hr'] at this
      cases this; rfl
    · have hex : ∃ n ∈ a :: b :: rest, n.ver ≠ a.ver := by
        apply Classical.byContradiction
        intro hcon
        apply hsame
        intro n hn
        apply Classical.byContradiction
        intro hne
        exact hcon ⟨n, hn, hne⟩
      obtain ⟨n, hn, hne⟩ := hex
      have e1 := ((errors (a :: b :: rest)).2.1).2 ⟨by simp, n, hn, a, List.mem_cons_self .., hne⟩
      have e2 := ((errors (a' :: b' :: rest')).2.1).2
        ⟨by simp, n, (hmem n).1 hn, a, (hmem a).1 (List.mem_cons_self ..), hne⟩
      rw [e1, e2]

/-- non-vacuity: the F2 witnesses (fixed by e6cfd06) and the boundary shapes -/
example : spanningCidr 32 [⟨167772160, 8⟩, ⟨167837696, 16⟩] = .ok ⟨167772160, 8⟩ := by decide
example : spanningCidr 32 [⟨167772165, 24⟩, ⟨167772160, 24⟩] = .ok ⟨167772160, 24⟩ := by decide
example : spanningCidr 32 [⟨167772415, 32⟩, ⟨167772416, 32⟩] = .ok ⟨167772160, 23⟩ := by decide
example : spanningCidr 32 [⟨0, 32⟩, ⟨4294967295, 32⟩] = .ok ⟨0, 0⟩ := by decide
example : spanningCidr 128 [⟨1, 46⟩, ⟨2, 43⟩] = .ok ⟨0, 43⟩ := by decide
example : ∀ n ∈ [(⟨167772160, 8⟩ : Pfx), ⟨167837696, 16⟩], PfxWF 32 n := by
  intro n hn
  simp only [List.mem_cons, List.mem_nil_iff, or_false] at hn
  rcases hn with rfl | rfl <;> exact ⟨by decide, by decide⟩
example : spanningCidrNets [⟨4, 1, 8⟩] = .error .value := by decide
example : spanningCidrNets [⟨4, 1, 8⟩, ⟨6, 1, 8⟩] = .error .type_ := by decide
example : spanningCidrNets [⟨4, 167772160, 8⟩, ⟨4, 167837696, 16⟩] = .ok ⟨4, 167772160, 8⟩ := by decide

end NV.C13
