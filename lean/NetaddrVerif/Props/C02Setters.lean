/-
Props/C02Setters.lean — property C02, second part: what the three setters assign (exact
characterisations), the closed forms of all derived attributes in one statement, and the
statement-order theorem behind "raises … leaving the object unchanged".

Model: Model/Network.lean (`applySet`, `stepSet`, …) and Model/NetworkSet.lean (`netIp`, the
statement-by-statement setter bodies `setterTrace`).
-/
import NetaddrVerif.Props.C02
import NetaddrVerif.Model.NetworkSet
namespace NV.C02
open NV NV.Network NV.SetTrace
set_option linter.unusedSimpArgs false

/-! ### all derived attributes as functions of (version, value, prefixlen) -/

/-- Every derived attribute of a network in closed form, `H = 2^(width - prefixlen)` being the
    block size and `first = value - value mod H`: ip is the stored value (same version),
    hostmask `H-1`, netmask `2^w - H`, network = first, last = first + H - 1, size = H, broadcast
    = last except None for IPv4 /31 and /32, cidr = (first, same prefix, same version). -/
theorem attrs_closed_forms (n : Net) (h : n.WF) :
    let w := width n.ver
    let H := 2 ^ (w - n.plen)
    let first := n.val / H * H
    netIp n = ⟨n.ver, n.val⟩ ∧
    netHostmask w n.plen = H - 1 ∧
    netNetmask w n.plen = 2 ^ w - H ∧
    netNetwork w n.val n.plen = first ∧
    netFirst w n.val n.plen = first ∧
    netLast w n.val n.plen = first + (H - 1) ∧
    netSize w n.val n.plen = H ∧
    netBroadcast n.ver w n.val n.plen = (if n.ver = 4 ∧ 31 ≤ n.plen then none else some (first + (H - 1))) ∧
    netCidr n = ⟨n.ver, first, n.plen⟩ ∧
    first = n.val - n.val % H ∧ first ≤ n.val ∧ n.val ≤ first + (H - 1) ∧ first + H ≤ 2 ^ w := by
  intro w H first
  obtain ⟨hver, hv, hp⟩ := h
  obtain ⟨i1, i2, i3, i4, i5, i6, i7, i8, i9, _⟩ := identities w n.val n.plen hv hp
  have hH : 0 < H := pw (w - n.plen)
  have hle : H ≤ 2 ^ w := pow_sub_le w n.plen
  have hdm := Nat.div_add_mod' n.val H
  have hf : netFirst w n.val n.plen = first := by rw [i4, i3]
  have hl : netLast w n.val n.plen = first + (H - 1) := by rw [i5, hf, i1]
  refine ⟨rfl, i1, ?_, i3, hf, hl, i6, ?_, ?_, ?_, ?_, ?_, ?_⟩
  · rw [i2, i1]; omega
  · rw [broadcast_spec, hl]
    have hc : (n.ver = 4 ∧ w - n.plen ≤ 1) ↔ (n.ver = 4 ∧ 31 ≤ n.plen) := by
      constructor
      · rintro ⟨h4, hh⟩
        have : w = 32 := by show width n.ver = 32; rw [h4]; rfl
        exact ⟨h4, by omega⟩
      · rintro ⟨h4, hh⟩
        have : w = 32 := by show width n.ver = 32; rw [h4]; rfl
        exact ⟨h4, by omega⟩
    simp only [hc]
  · show (⟨n.ver, netNetwork w n.val n.plen, n.plen⟩ : Net) = _
    rw [i3]
  · show n.val / H * H = _; omega
  · rw [← hf]; exact i7
  · rw [← hl]; exact i8
  · have := block_lt w n.val n.plen hv hp; exact this

example : (⟨4, 3232235777, 24⟩ : Net).WF := by simp [Net.WF, width]
example : netIp ⟨6, 7, 64⟩ = ⟨6, 7⟩ := rfl

/-! ### what a successful assignment assigns (exact characterisations) -/

/-- `n.value = x` succeeds exactly for an int `0 ≤ x ≤ max_int`, and then the stored value IS
    `x` and nothing else changes -/
theorem setValue_iff (n n' : Net) (x : SetArg) :
    applySet n (.value x) = .ok n' ↔
      ∃ v : Nat, x = .int v ∧ v ≤ maxInt n.ver ∧ n' = { n with val := v } := by
  cases x with
  | int i =>
    simp only [applySet, setValue]
    constructor
    · intro h
      split at h
      · rename_i hr
        injection h with h
        refine ⟨i.toNat, ?_, by omega, h.symm⟩
        rw [Int.toNat_of_nonneg hr.1]
      · simp at h
    · rintro ⟨v, hx, hv, rfl⟩
      injection hx with hx; subst hx
      have : (0 : Int) ≤ (v : Int) ∧ (v : Int) ≤ (maxInt n.ver : Int) := by omega
      simp [this]
  | addr a => simp [applySet, setValue]
  | junk => simp [applySet, setValue]

/-- `n.prefixlen = x` succeeds exactly for an int `0 ≤ x ≤ width`, and then the stored prefix
    length IS `x` and nothing else changes -/
theorem setPrefixlen_iff (n n' : Net) (x : SetArg) :
    applySet n (.prefixlen x) = .ok n' ↔
      ∃ p : Nat, x = .int p ∧ p ≤ width n.ver ∧ n' = { n with plen := p } := by
  cases x with
  | int i =>
    simp only [applySet, setPrefixlen]
    constructor
    · intro h
      split at h
      · rename_i hr
        injection h with h
        refine ⟨i.toNat, ?_, by omega, h.symm⟩
        rw [Int.toNat_of_nonneg hr.1]
      · simp at h
    · rintro ⟨v, hx, hv, rfl⟩
      injection hx with hx; subst hx
      have : (0 : Int) ≤ (v : Int) ∧ (v : Int) ≤ (width n.ver : Int) := by omega
      simp [this]
  | addr a => simp [applySet, setPrefixlen]
  | junk => simp [applySet, setPrefixlen]

/-- the assigned field takes the assigned value (the part `setter_ok` leaves unsaid) -/
theorem setter_assigns (n n' : Net) (i : Int) :
    (applySet n (.value (.int i)) = .ok n' → (n'.val : Int) = i ∧ n'.plen = n.plen ∧ n'.ver = n.ver) ∧
    (applySet n (.prefixlen (.int i)) = .ok n' → (n'.plen : Int) = i ∧ n'.val = n.val ∧ n'.ver = n.ver) := by
  constructor
  · intro h
    obtain ⟨v, hx, _, rfl⟩ := (setValue_iff n n' _).1 h
    injection hx with hx
    exact ⟨hx.symm, rfl, rfl⟩
  · intro h
    obtain ⟨v, hx, _, rfl⟩ := (setPrefixlen_iff n n' _).1 h
    injection hx with hx
    exact ⟨hx.symm, rfl, rfl⟩

example : applySet ⟨4, 5, 24⟩ (.value (.int 77)) = .ok ⟨4, 77, 24⟩ := by decide
example : applySet ⟨4, 5, 24⟩ (.prefixlen (.int 0)) = .ok ⟨4, 5, 0⟩ := by decide

/-! ### the netmask setter -/

/-- arguments the harness can build: an `IPAddress` object is always a well-formed address -/
def ArgWF : SetArg → Prop
  | .addr a => a.WF
  | _ => True

/-- `IPAddress(x)` of a setter argument is a well-formed address -/
theorem addrOfSetArg_wf (x : SetArg) (a : Addr) (hx : ArgWF x) (h : addrOfSetArg x = .ok a) : a.WF := by
  cases x with
  | int i =>
    simp only [addrOfSetArg] at h
    split at h
    · rename_i hr
      injection h with h; subst h
      have : maxInt 4 = 2 ^ 32 - 1 := by decide
      refine ⟨Or.inl rfl, ?_⟩
      show i.toNat < 2 ^ width 4
      have hw : width 4 = 32 := by decide
      rw [hw]; omega
    · split at h
      · rename_i hr
        injection h with h; subst h
        have : maxInt 6 = 2 ^ 128 - 1 := by decide
        refine ⟨Or.inr rfl, ?_⟩
        show i.toNat < 2 ^ width 6
        have hw : width 6 = 128 := by decide
        rw [hw]; omega
      · simp at h
  | addr b => simp only [addrOfSetArg] at h; injection h with h; subst h; exact hx
  | junk => simp [addrOfSetArg] at h

/-- exactly which arguments `IPAddress(x)` refuses: non-int non-address objects and ints
    outside `0 .. 2^128-1`; always with AddrFormatError -/
theorem addrOfSetArg_error_iff (x : SetArg) :
    (∃ e, addrOfSetArg x = .error e) ↔
      (x = .junk ∨ ∃ i : Int, x = .int i ∧ (i < 0 ∨ (maxInt 6 : Int) < i)) := by
  have h4 : maxInt 4 = 2 ^ 32 - 1 := by decide
  have h6 : maxInt 6 = 2 ^ 128 - 1 := by decide
  cases x with
  | int i =>
    simp only [addrOfSetArg, reduceCtorEq, SetArg.int.injEq, false_or, exists_eq_left']
    constructor
    · rintro ⟨e, h⟩
      split at h
      · simp at h
      · split at h
        · simp at h
        · omega
    · intro h
      have c1 : ¬ (0 ≤ i ∧ i ≤ (maxInt 4 : Int)) := by omega
      have c2 : ¬ ((maxInt 4 : Int) < i ∧ i ≤ (maxInt 6 : Int)) := by omega
      exact ⟨.addrFormat, by simp [c1, c2]⟩
  | addr a => simp [addrOfSetArg]
  | junk => simp [addrOfSetArg]

/-- the mask `a` of prefix `p` in the family of `n` sets the prefix length to `p` -/
theorem setNetmask_of_mask (n : Net) (x : SetArg) (a : Addr) (p : Nat) (hx : addrOfSetArg x = .ok a)
    (hv : a.ver = n.ver) (hp : p ≤ width n.ver) (hm : a.val = netNetmask (width n.ver) p) :
    applySet n (.netmask x) = .ok { n with plen := p } := by
  have hw := pw (width n.ver)
  have hH := pw (width n.ver - p)
  have hlt : netNetmask (width n.ver) p < 2 ^ width n.ver := by
    show netmaskInt _ p < _; rw [netmaskInt_eq]; omega
  have hnm : isNetmask (width n.ver) (netNetmask (width n.ver) p) = true :=
    (isNetmask_iff _ _ hlt).2 ⟨p, hp, rfl⟩
  have hb := netmaskBits_netmask (width n.ver) p hp
  have hpi : (0 : Int) ≤ (p : Int) ∧ (p : Int) ≤ (width n.ver : Int) := by omega
  simp only [applySet, setNetmask, hx, bind, Except.bind, hv, hm, hnm, hb, setPrefixlen, hpi]
  simp

/-- The netmask setter, completely: `n.netmask = x` succeeds exactly when `IPAddress(x)` exists,
    is of `n`'s family and is the netmask of some prefix `p ≤ width` — and then the object is `n`
    with prefix length `p` (value and version untouched).  A hostmask that is not also a netmask
    is NOT accepted (the setter only asks `is_netmask()`). -/
theorem setNetmask_iff (n n' : Net) (x : SetArg) (hx : ArgWF x) :
    applySet n (.netmask x) = .ok n' ↔
      ∃ a p, addrOfSetArg x = .ok a ∧ a.ver = n.ver ∧ p ≤ width n.ver ∧
        a.val = netNetmask (width n.ver) p ∧ n' = { n with plen := p } := by
  constructor
  · intro h
    have h0 := h
    simp only [applySet, setNetmask, bind, Except.bind] at h
    split at h
    · simp at h
    · rename_i a ha
      split at h
      · simp at h
      · rename_i hv
        have hv : a.ver = n.ver := Classical.byContradiction hv
        split at h
        · simp at h
        · rename_i hnm
          have hnm : isNetmask (width a.ver) a.val = true := by
            cases hh : isNetmask (width a.ver) a.val <;> simp_all
          have hawf := addrOfSetArg_wf x a hx ha
          obtain ⟨p, hp, hm⟩ := (isNetmask_iff _ _ hawf.2).1 hnm
          rw [hv] at hp hm
          have := setNetmask_of_mask n x a p ha hv hp hm
          rw [this] at h0
          injection h0 with h0
          exact ⟨a, p, ha, hv, hp, hm, h0.symm⟩
  · rintro ⟨a, p, ha, hv, hp, hm, rfl⟩
    exact setNetmask_of_mask n x a p ha hv hp hm

/-- every other argument is rejected — AddrFormatError when `IPAddress(x)` itself fails,
    ValueError otherwise (other family, or not a netmask) — and the object stays as it was -/
theorem setNetmask_rejects (n : Net) (x : SetArg) (hx : ArgWF x)
    (h : ¬ ∃ a p, addrOfSetArg x = .ok a ∧ a.ver = n.ver ∧ p ≤ width n.ver ∧
        a.val = netNetmask (width n.ver) p) :
    ∃ e, applySet n (.netmask x) = .error e ∧ stepSet n (.netmask x) = (n, some e) ∧
      ((∃ e', addrOfSetArg x = .error e') → e = .addrFormat) ∧
      ((∃ a, addrOfSetArg x = .ok a) → e = .value) := by
  cases hr : applySet n (.netmask x) with
  | ok n' =>
    obtain ⟨a, p, h1, h2, h3, h4, _⟩ := (setNetmask_iff n n' x hx).1 hr
    exact absurd ⟨a, p, h1, h2, h3, h4⟩ h
  | error e =>
    refine ⟨e, rfl, by simp [stepSet, hr], ?_, ?_⟩
    · rintro ⟨e', he'⟩
      have := addrOfSetArg_err x e' he'
      subst this
      simp only [applySet, setNetmask, he', bind, Except.bind] at hr
      injection hr with hr; exact hr.symm
    · rintro ⟨a, ha⟩
      simp only [applySet, setNetmask, ha, bind, Except.bind] at hr
      by_cases hv : a.ver = n.ver
      · cases hnm : isNetmask (width n.ver) a.val with
        | false => simp [hv, hnm] at hr; exact hr.symm
        | true =>
          -- then the argument IS the netmask of some prefix: excluded by `h`
          exfalso
          have hawf := addrOfSetArg_wf x a hx ha
          rw [← hv] at hnm
          obtain ⟨p, hp, hm⟩ := (isNetmask_iff _ _ hawf.2).1 hnm
          rw [hv] at hp hm
          exact h ⟨a, p, ha, hv, hp, hm⟩
      · simp [hv] at hr; exact hr.symm

/-- for every prefix `p` in `0..width`: assigning the netmask of `p` (as an address object of
    the network's family) sets the prefix length to `p` -/
theorem setNetmask_of_prefix (n : Net) (p : Nat) (hp : p ≤ width n.ver) :
    applySet n (.netmask (.addr ⟨n.ver, netNetmask (width n.ver) p⟩)) = .ok { n with plen := p } :=
  setNetmask_of_mask n _ ⟨n.ver, netNetmask (width n.ver) p⟩ p rfl rfl hp rfl

/-- the same with the mask given as a plain int: `IPAddress(int)` picks IPv4 for `0 .. 2^32-1`,
    so every IPv4 prefix works, every IPv6 prefix `p ≥ 1` works — and the all-zero IPv6 mask
    (p = 0) given as the int 0 is an IPv4 address and is rejected with ValueError -/
theorem setNetmask_of_prefix_int (n : Net) (p : Nat) (hp : p ≤ width n.ver) :
    (n.ver = 4 → applySet n (.netmask (.int (netNetmask 32 p))) = .ok { n with plen := p }) ∧
    (n.ver = 6 → 1 ≤ p → applySet n (.netmask (.int (netNetmask 128 p))) = .ok { n with plen := p }) ∧
    (n.ver = 6 → applySet n (.netmask (.int (netNetmask 128 0))) = .error .value) := by
  have h4 : maxInt 4 = 2 ^ 32 - 1 := by decide
  have h6 : maxInt 6 = 2 ^ 128 - 1 := by decide
  have w4 : width 4 = 32 := by decide
  have w6 : width 6 = 128 := by decide
  refine ⟨?_, ?_, ?_⟩
  · intro hv
    rw [hv, w4] at hp
    have hm : netNetmask 32 p = 2 ^ 32 - 2 ^ (32 - p) := netmaskInt_eq 32 p
    have := pw (32 - p)
    apply setNetmask_of_mask n _ ⟨4, netNetmask 32 p⟩ p _ hv.symm (by rw [hv, w4]; exact hp) (by rw [hv, w4])
    have c : (0 : Int) ≤ ((netNetmask 32 p : Nat) : Int) ∧ ((netNetmask 32 p : Nat) : Int) ≤ (maxInt 4 : Int) := by omega
    simp [addrOfSetArg, c]
  · intro hv hp1
    rw [hv, w6] at hp
    have hm : netNetmask 128 p = 2 ^ 128 - 2 ^ (128 - p) := netmaskInt_eq 128 p
    have hle : 2 ^ (128 - p) ≤ 2 ^ 127 := Nat.pow_le_pow_right (by decide) (by omega)
    have := pw (128 - p)
    apply setNetmask_of_mask n _ ⟨6, netNetmask 128 p⟩ p _ hv.symm (by rw [hv, w6]; exact hp) (by rw [hv, w6])
    have c1 : ¬ ((0 : Int) ≤ ((netNetmask 128 p : Nat) : Int) ∧ ((netNetmask 128 p : Nat) : Int) ≤ (maxInt 4 : Int)) := by omega
    have c2 : (maxInt 4 : Int) < ((netNetmask 128 p : Nat) : Int) ∧ ((netNetmask 128 p : Nat) : Int) ≤ (maxInt 6 : Int) := by omega
    simp only [addrOfSetArg]
    rw [if_neg c1, if_pos c2]
    simp
  · intro hv
    have e : netNetmask 128 0 = 0 := by decide
    rw [e]
    simp [applySet, setNetmask, addrOfSetArg, bind, Except.bind, hv]

example : applySet ⟨4, 5, 24⟩ (.netmask (.int 255)) = .error .value := by decide +kernel       -- a hostmask
example : applySet ⟨4, 5, 24⟩ (.netmask (.int 0)) = .ok ⟨4, 5, 0⟩ := by decide +kernel
example : applySet ⟨6, 5, 24⟩ (.netmask (.int 0)) = .error .value := by decide +kernel
example : applySet ⟨6, 5, 24⟩ (.netmask (.addr ⟨6, 0⟩)) = .ok ⟨6, 5, 0⟩ := by decide +kernel
example : applySet ⟨4, 5, 24⟩ (.netmask .junk) = .error .addrFormat := by decide +kernel
example : ArgWF (.addr ⟨4, 4294901760⟩) := by simp [ArgWF, Addr.WF, width]

/-! ### "or raises … leaving the object unchanged": order of statements -/

/-- The statement-by-statement setter bodies (which keep every store through a raise) agree
    with the functional model: a rejected assignment ends with the SAME error, the object as it
    was and an EMPTY store log — every check of the three setters comes before its one store;
    an accepted assignment made exactly one store, the last statement. -/
theorem setterTrace_eq (n : Net) (op : SetOp) :
    setterTrace n op =
      match applySet n op with
      | .error e => (.error e, ⟨n, []⟩)
      | .ok n' => (.ok (), ⟨n', [match op with
          | .value _ => .storeValue n'.val
          | _ => .storePrefixlen n'.plen]⟩) := by
  have hp : ∀ (m : Net) (x : SetArg), setPrefixlenT x ⟨m, []⟩ =
      match setPrefixlen m x with
      | .error e => (.error e, ⟨m, []⟩)
      | .ok n' => (.ok (), ⟨n', [.storePrefixlen n'.plen]⟩) := by
    intro m x
    cases x with
    | int i =>
      by_cases c : 0 ≤ i ∧ i ≤ (width m.ver : Int)
      · simp [setPrefixlenT, setPrefixlen, expectInt, bind, M.bind, pure, M.pure, self, raise, storePrefixlen, c]
      · simp [setPrefixlenT, setPrefixlen, expectInt, bind, M.bind, pure, M.pure, self, raise, storePrefixlen, c]
    | addr a => simp [setPrefixlenT, setPrefixlen, expectInt, bind, M.bind, raise]
    | junk => simp [setPrefixlenT, setPrefixlen, expectInt, bind, M.bind, raise]
  cases op with
  | value x =>
    cases x with
    | int i =>
      by_cases c : 0 ≤ i ∧ i ≤ (maxInt n.ver : Int)
      · simp [setterTrace, setterBody, applySet, setValueT, setValue, expectInt, bind, M.bind, pure, M.pure, self, raise, storeValue, c]
      · simp [setterTrace, setterBody, applySet, setValueT, setValue, expectInt, bind, M.bind, pure, M.pure, self, raise, storeValue, c]
    | addr a => simp [setterTrace, setterBody, applySet, setValueT, setValue, expectInt, bind, M.bind, raise]
    | junk => simp [setterTrace, setterBody, applySet, setValueT, setValue, expectInt, bind, M.bind, raise]
  | prefixlen x => exact hp n x
  | netmask x =>
    simp only [setterTrace, setterBody, applySet, setNetmaskT, setNetmask]
    cases ha : addrOfSetArg x with
    | error e => simp [bind, M.bind, call, ha, Except.bind]
    | ok a =>
      by_cases hv : a.ver = n.ver
      · cases hnm : isNetmask (width n.ver) a.val with
        | false => simp [bind, M.bind, call, ha, Except.bind, self, hv, hnm, raise, pure, M.pure]
        | true =>
          cases hb : netmaskBits (width n.ver) a.val with
          | error e => simp [bind, M.bind, call, ha, Except.bind, self, hv, hnm, raise, pure, M.pure, hb]
          | ok bits =>
            have := hp n (.int bits)
            simp [bind, M.bind, call, ha, Except.bind, self, hv, hnm, raise, pure, M.pure, hb, this]
      · simp [bind, M.bind, call, ha, Except.bind, self, hv, raise, pure, M.pure]

/-- no assignment precedes a raise: whenever a setter body raises, it has made no store at all
    and the object is the one it started from -/
theorem no_store_before_raise (n : Net) (op : SetOp) (e : Err) (s : St)
    (h : setterTrace n op = (.error e, s)) : s.log = [] ∧ s.obj = n ∧ applySet n op = .error e := by
  rw [setterTrace_eq] at h
  cases hr : applySet n op with
  | ok n' => rw [hr] at h; simp at h
  | error e' =>
    rw [hr] at h
    simp only [Prod.mk.injEq, Except.error.injEq] at h
    obtain ⟨h1, h2⟩ := h
    subst h1 h2
    exact ⟨rfl, rfl, rfl⟩

/-- the live-object step computed from the statement-level bodies (what the driver runs for
    `net_sets_trace`) is the `stepSet` of all the other C02 theorems -/
theorem stepTrace_eq_stepSet (n : Net) (op : SetOp) : stepTrace n op = stepSet n op := by
  unfold stepTrace stepSet
  rw [setterTrace_eq]
  cases applySet n op <;> rfl

/-- the order of statements matters: a body that stored first and checked afterwards would be
    told apart by `setterTrace`-style execution (the store survives the raise) -/
example : (do storePrefixlen 99; (raise .addrFormat : M Unit)) ⟨⟨4, 5, 24⟩, []⟩ =
    (.error .addrFormat, ⟨⟨4, 5, 99⟩, [.storePrefixlen 99]⟩) := rfl
example : setterTrace ⟨4, 5, 24⟩ (.prefixlen (.int 99)) = (.error .addrFormat, ⟨⟨4, 5, 24⟩, []⟩) := by decide
example : setterTrace ⟨4, 5, 24⟩ (.netmask (.int 4294901760)) = (.ok (), ⟨⟨4, 5, 16⟩, [.storePrefixlen 16]⟩) := by
  decide +kernel

end NV.C02
