/-
Props/C02Audit2.lean — property C02, audit 2a finding 3: the `netmask` setter for string and
IPNetwork arguments (Model/NetworkMask.lean: `MaskArg`, `addrOfMaskArg`, `applySetX`,
`setterTraceX`).

`n.netmask = x` calls `IPAddress(x)` in default mode (version=None, flags=0;
netaddr/ip/__init__.py:1049-1060).  For a `str` that call IS the C01 model function
`ipAddress be s none 0`, so everything C01 proves about it (BSD shorthand texts, RFC 4291
texts, '/' → ValueError, the rest AddrFormatError) carries over to the setter; an `IPNetwork`
argument goes through the `BaseIP` copy branch.
-/
import NetaddrVerif.Props.C02Setters
import NetaddrVerif.Props.C01b
import NetaddrVerif.Lemmas.C03LErr
import NetaddrVerif.Model.NetworkMask
namespace NV.C02A2
open NV NV.Network NV.SetTrace NV.AddrParse NV.NetMask NV.C02 NV.C01L.AtonG
set_option linter.unusedSimpArgs false

/-! ### the new definitions extend the old ones (nothing about `SetArg` changes) -/

/-- on the three argument forms of Model/Network.lean the extended setter is the old one -/
theorem applySetX_ofSetOp (be : Backend) (n : Net) (op : SetOp) :
    applySetX be n (.ofSetOp op) = applySet n op := by
  cases op <;> rfl

/-- … and so is its statement-by-statement body -/
theorem setterTraceX_ofSetOp (be : Backend) (n : Net) (op : SetOp) :
    setterTraceX be n (.ofSetOp op) = setterTrace n op := by
  cases op <;> rfl

theorem stepSetX_ofSetOp (be : Backend) (n : Net) (op : SetOp) :
    stepSetX be n (.ofSetOp op) = stepSet n op := by
  unfold stepSetX stepSet
  rw [applySetX_ofSetOp]
  cases applySet n op <;> rfl

/-! ### `IPAddress(x)` of a setter argument is a well-formed address -/

/-- whatever `inet_aton` reads is a 32-bit value -/
theorem aton_lt (s : List Char) (v : Nat) (h : Text4.aton s = some v) : v < 2 ^ 32 := by
  obtain ⟨_, body, tail, _, hb, _⟩ := (aton_iff s v).mp h
  cases hb <;> omega

/-- `IPAddress(s)` (version None, flags 0) of a string is a well-formed address -/
theorem ipAddress_default_wf (be : Backend) (s : List Char) (a : Addr) (h : ipAddress be s none 0 = .ok a) :
    a.WF := by
  rw [C01b.default_none_eq be s 0 (by unfold C01b.DefaultMode; decide)] at h
  split at h
  · cases h
  · cases h4 : Text4.aton s with
    | some v =>
      rw [h4] at h
      cases h
      exact ⟨Or.inl rfl, aton_lt s v h4⟩
    | none =>
      rw [h4] at h
      cases h6 : inetPton6 be s with
      | some v =>
        rw [h6] at h
        cases h
        rw [C01L.inetPton6_eq] at h6
        exact ⟨Or.inr rfl, C03L.pton6_lt s v h6⟩
      | none => rw [h6] at h; cases h

/-- arguments the harness can build: address and network objects are well-formed -/
def MaskArgWF : MaskArg → Prop
  | .plain x => ArgWF x
  | .str _ => True
  | .net m => m.WF

theorem addrOfMaskArg_wf (be : Backend) (x : MaskArg) (a : Addr) (hx : MaskArgWF x)
    (h : addrOfMaskArg be x = .ok a) : a.WF := by
  cases x with
  | plain y => exact addrOfSetArg_wf y a hx h
  | str s => exact ipAddress_default_wf be s a h
  | net m =>
    simp only [addrOfMaskArg] at h
    cases h
    exact ⟨hx.1, hx.2.1⟩

/-- the error class of a refused `IPAddress(x)`: ValueError only for a string with '/',
    AddrFormatError otherwise -/
theorem addrOfMaskArg_err (be : Backend) (x : MaskArg) (e : Err) (h : addrOfMaskArg be x = .error e) :
    (e = .value ∧ ∃ s, x = .str s ∧ '/' ∈ s) ∨ e = .addrFormat := by
  cases x with
  | plain y => exact Or.inr (addrOfSetArg_err y e h)
  | str s =>
    rcases ((C01b.default_none_api be s 0 (by unfold C01b.DefaultMode; decide)).2 e).mp h with ⟨he, hs⟩ | ⟨he, _⟩
    · exact Or.inl ⟨he, s, rfl, hs⟩
    · exact Or.inr he
  | net m => simp [addrOfMaskArg] at h

/-! ### the setter body after `IPAddress(value)` -/

theorem setNetmaskOf_of_mask (n : Net) (r : R Addr) (a : Addr) (p : Nat) (hx : r = .ok a)
    (hv : a.ver = n.ver) (hp : p ≤ width n.ver) (hm : a.val = netNetmask (width n.ver) p) :
    setNetmaskOf n r = .ok { n with plen := p } := by
  have h := setNetmask_of_mask n (.addr a) a p rfl hv hp hm
  subst hx
  exact h

/-- the body, completely: it succeeds exactly when `IPAddress(value)` returned an address of the
    network's family that is the netmask of some prefix `p ≤ width`, and then the object is `n`
    with prefix length `p` -/
theorem setNetmaskOf_iff (n n' : Net) (r : R Addr) (hwf : ∀ a, r = .ok a → a.WF) :
    setNetmaskOf n r = .ok n' ↔
      ∃ a p, r = .ok a ∧ a.ver = n.ver ∧ p ≤ width n.ver ∧
        a.val = netNetmask (width n.ver) p ∧ n' = { n with plen := p } := by
  cases r with
  | error e =>
    constructor
    · intro h; simp [setNetmaskOf, bind, Except.bind] at h
    · rintro ⟨a, p, h, _⟩; cases h
  | ok a =>
    have h := setNetmask_iff n n' (.addr a) (hwf a rfl)
    simp only [applySet, setNetmask, addrOfSetArg] at h
    constructor
    · intro h'
      obtain ⟨a', p, e, r1, r2, r3, r4⟩ := h.mp h'
      cases e
      exact ⟨a, p, rfl, r1, r2, r3, r4⟩
    · rintro ⟨a', p, e, r1, r2, r3, r4⟩
      cases e
      exact h.mpr ⟨a, p, rfl, r1, r2, r3, r4⟩

/-- an address that is not a netmask of the network's family: ValueError -/
theorem setNetmaskOf_reject (n : Net) (a : Addr) (ha : a.WF)
    (h : ¬ (a.ver = n.ver ∧ ∃ p, p ≤ width n.ver ∧ a.val = netNetmask (width n.ver) p)) :
    setNetmaskOf n (.ok a) = .error .value := by
  obtain ⟨e, he, _, _, hval⟩ := setNetmask_rejects n (.addr a) ha (by
    rintro ⟨a', p, e, r1, r2, r3⟩
    simp only [addrOfSetArg] at e
    cases e
    exact h ⟨r1, p, r2, r3⟩)
  have := hval ⟨a, rfl⟩
  subst this
  exact he

/-! ### the netmask setter, every argument form -/

/-- **The netmask setter, completely, for every argument form** (int, IPAddress, IPNetwork, str,
    junk): `n.netmask = x` succeeds exactly when `IPAddress(x)` exists, is of `n`'s family and is
    the netmask of some prefix `p ≤ width` — and then the object is `n` with prefix length `p`. -/
theorem setNetmaskX_iff (be : Backend) (n n' : Net) (x : MaskArg) (hx : MaskArgWF x) :
    applySetX be n (.netmask x) = .ok n' ↔
      ∃ a p, addrOfMaskArg be x = .ok a ∧ a.ver = n.ver ∧ p ≤ width n.ver ∧
        a.val = netNetmask (width n.ver) p ∧ n' = { n with plen := p } :=
  setNetmaskOf_iff n n' _ (fun a h => addrOfMaskArg_wf be x a hx h)

/-- every other argument is rejected and the object stays as it was: with the error of
    `IPAddress(x)` when that call fails (ValueError for a string with '/', AddrFormatError
    otherwise), with ValueError when the address is of the other family or not a netmask -/
theorem setNetmaskX_rejects (be : Backend) (n : Net) (x : MaskArg) (hx : MaskArgWF x)
    (h : ¬ ∃ a p, addrOfMaskArg be x = .ok a ∧ a.ver = n.ver ∧ p ≤ width n.ver ∧
        a.val = netNetmask (width n.ver) p) :
    ∃ e, applySetX be n (.netmask x) = .error e ∧ stepSetX be n (.netmask x) = (n, some e) ∧
      (∀ e', addrOfMaskArg be x = .error e' → e = e') ∧
      ((∃ a, addrOfMaskArg be x = .ok a) → e = .value) ∧
      (e = .value ∨ e = .addrFormat) := by
  cases hr : addrOfMaskArg be x with
  | error e' =>
    have h1 : applySetX be n (.netmask x) = .error e' := by
      simp [applySetX, setNetmaskX, setNetmaskOf, hr, bind, Except.bind]
    refine ⟨e', h1, by simp [stepSetX, h1], ?_, ?_, ?_⟩
    · intro e'' he; cases he; rfl
    · rintro ⟨a, ha⟩; cases ha
    · rcases addrOfMaskArg_err be x e' hr with ⟨he, _⟩ | he
      · exact Or.inl he
      · exact Or.inr he
  | ok a =>
    have hawf := addrOfMaskArg_wf be x a hx hr
    have h1 : applySetX be n (.netmask x) = .error .value := by
      show setNetmaskOf n (addrOfMaskArg be x) = _
      rw [hr]
      apply setNetmaskOf_reject n a hawf
      rintro ⟨hv, p, hp, hm⟩
      exact h ⟨a, p, hr, hv, hp, hm⟩
    refine ⟨.value, h1, by simp [stepSetX, h1], ?_, fun _ => rfl, Or.inl rfl⟩
    intro e' he; cases he

/-! ### string arguments -/

/-- **`n.netmask = s` for a string `s`, case by case** (the reading of `s` is C01's: `AtonText` =
    the BSD `inet_aton` texts — 1-4 dot-separated C literals in decimal / octal / hex, the last
    one filling the remaining bytes —, `Rfc4291` = the RFC 4291 IPv6 texts):
    1. a text with '/' anywhere: ValueError;
    2. a text without '/' that is neither an `inet_aton` text nor an RFC 4291 text:
       AddrFormatError;
    3. a text that reads as the value `v` in the network's own family (IPv4: `AtonText s v`,
       IPv6: `Rfc4291 s v`) where `v` is the netmask of the prefix `p ≤ width`: the prefix length
       becomes `p`, nothing else changes;
    4. a readable text of the other family, or of the own family whose value is not a netmask
       (hostmasks that are not netmasks included): ValueError.
    In the three rejecting cases the object is unchanged (`stepSetX`). -/
theorem setNetmask_str (be : Backend) (n : Net) (s : List Char) :
    ('/' ∈ s → applySetX be n (.netmask (.str s)) = .error .value) ∧
    ('/' ∉ s → (¬ ∃ v, AtonText s v) → (¬ ∃ v, C01G.Rfc4291 s v) →
      applySetX be n (.netmask (.str s)) = .error .addrFormat) ∧
    (∀ f v, '/' ∉ s → ((f = 4 ∧ AtonText s v) ∨ (f = 6 ∧ C01G.Rfc4291 s v)) →
      (∀ p, f = n.ver → p ≤ width n.ver → v = netNetmask (width n.ver) p →
        applySetX be n (.netmask (.str s)) = .ok { n with plen := p }) ∧
      (¬ (f = n.ver ∧ ∃ p, p ≤ width n.ver ∧ v = netNetmask (width n.ver) p) →
        applySetX be n (.netmask (.str s)) = .error .value)) ∧
    (∀ e, applySetX be n (.netmask (.str s)) = .error e → stepSetX be n (.netmask (.str s)) = (n, some e)) := by
  have hd : C01b.DefaultMode 0 := by unfold C01b.DefaultMode; decide
  have api := C01b.default_none_api be s 0 hd
  refine ⟨?_, ?_, ?_, ?_⟩
  · intro hs
    have : ipAddress be s none 0 = .error .value := (api.2 .value).mpr (Or.inl ⟨rfl, hs⟩)
    simp [applySetX, setNetmaskX, setNetmaskOf, addrOfMaskArg, this, bind, Except.bind]
  · intro hs h4 h6
    have : ipAddress be s none 0 = .error .addrFormat := (api.2 .addrFormat).mpr (Or.inr ⟨rfl, hs, h4, h6⟩)
    simp [applySetX, setNetmaskX, setNetmaskOf, addrOfMaskArg, this, bind, Except.bind]
  · intro f v hs hread
    have hok : ipAddress be s none 0 = .ok ⟨f, v⟩ := (api.1 ⟨f, v⟩).mpr ⟨hs, hread⟩
    have hwf := ipAddress_default_wf be s _ hok
    constructor
    · intro p hf hp hv
      show setNetmaskOf n (ipAddress be s none 0) = _
      exact setNetmaskOf_of_mask n _ ⟨f, v⟩ p hok hf hp hv
    · intro hno
      show setNetmaskOf n (ipAddress be s none 0) = _
      rw [hok]
      exact setNetmaskOf_reject n ⟨f, v⟩ hwf hno
  · intro e he
    simp [stepSetX, he]

/-- **Every prefix, printed**: for every prefix `p` in `0..width`, the netmask of `p` printed the
    way `str(IPAddress)` prints it (dotted quad; compact IPv6) and assigned as a string sets the
    prefix length to `p` -/
theorem setNetmask_str_printed (be : Backend) (n : Net) (hn : n.ver = 4 ∨ n.ver = 6) (p : Nat)
    (hp : p ≤ width n.ver) :
    applySetX be n (.netmask (.str (intToStr be n.ver (netNetmask (width n.ver) p)))) = .ok { n with plen := p } := by
  have hlt : netNetmask (width n.ver) p < 2 ^ width n.ver := by
    have hw := pw (width n.ver)
    have hH := pw (width n.ver - p)
    show netmaskInt _ p < _; rw [netmaskInt_eq]; omega
  show setNetmaskOf n (ipAddress be _ none 0) = _
  apply setNetmaskOf_of_mask n _ ⟨n.ver, netNetmask (width n.ver) p⟩ p _ rfl hp rfl
  rcases hn with e | e
  · rw [e] at hlt ⊢
    have := C01.roundtrip4 be _ hlt none (Or.inl rfl) 0 (by decide)
    simpa [intToStr] using this
  · rw [e] at hlt ⊢
    have := C01.roundtrip6 be .compact _ hlt none (Or.inl rfl) 0
    simpa [intToStr] using this

/-- **BSD shorthand masks**: any `inet_aton` spelling (`AtonG.Body`: '0xffff0000', '0377.0377.0.0',
    '255.255.0', '4294901760', …) of the IPv4 netmask of `p`, assigned to an IPv4 network, sets
    the prefix length to `p`; the same spelling assigned to an IPv6 network is a ValueError, and
    a shorthand whose value is not a netmask ('255.255' = 255.0.0.255) is a ValueError. -/
theorem setNetmask_str_shorthand (be : Backend) (n : Net) (body : List Char) (v : Nat) (hb : Body body v) :
    (∀ p, n.ver = 4 → p ≤ 32 → v = netNetmask 32 p →
      applySetX be n (.netmask (.str body)) = .ok { n with plen := p }) ∧
    (n.ver ≠ 4 → applySetX be n (.netmask (.str body)) = .error .value) ∧
    ((¬ ∃ p, p ≤ 32 ∧ v = netNetmask 32 p) → applySetX be n (.netmask (.str body)) = .error .value) := by
  have hs : '/' ∉ body := C01b.body_not_mem body v hb _ (by decide) (by decide) (by decide) (by decide)
  have ht := C01b.atonText_of_body body v hb
  obtain ⟨_, _, h3, _⟩ := setNetmask_str be n body
  obtain ⟨hacc, hrej⟩ := h3 4 v hs (Or.inl ⟨rfl, ht⟩)
  have w4 : width 4 = 32 := by decide
  refine ⟨?_, ?_, ?_⟩
  · intro p hv hp hm
    apply hacc p hv.symm
    · rw [hv, w4]; exact hp
    · rw [hv, w4]; exact hm
  · intro hv
    apply hrej
    rintro ⟨e, _⟩
    exact hv e.symm
  · intro hno
    apply hrej
    rintro ⟨e, p, hp, hm⟩
    rw [← e, w4] at hp hm
    exact hno ⟨p, hp, hm⟩

/-- the hypotheses are satisfiable: '0xffff0000' is a one-part hex literal of the /16 netmask -/
example : Body "0xffff0000".toList 0xffff0000 :=
  Body.one _ _ (C01L.IsCLit.hex 'x' "ffff0000".toList (Or.inl rfl) (by decide) (by decide)) (by decide)
example : netNetmask 32 16 = 0xffff0000 := by decide

/-- results of the setters can be compared by `decide` in the examples below -/
local instance decEqRNet : DecidableEq (R Net) := fun a b =>
  match a, b with
  | .ok x, .ok y => if h : x = y then isTrue (by rw [h]) else isFalse (by intro e; injection e with e; exact h e)
  | .error x, .error y => if h : x = y then isTrue (by rw [h]) else isFalse (by intro e; injection e with e; exact h e)
  | .ok _, .error _ => isFalse (by intro e; cases e)
  | .error _, .ok _ => isFalse (by intro e; cases e)

example : applySetX .platform ⟨4, 0x0A000000, 8⟩ (.netmask (.str "255.255.0.0".toList)) = .ok ⟨4, 0x0A000000, 16⟩ := by
  decide +kernel
example : applySetX .platform ⟨4, 0x0A000000, 8⟩ (.netmask (.str "0xffff0000".toList)) = .ok ⟨4, 0x0A000000, 16⟩ := by
  decide +kernel
example : applySetX .platform ⟨4, 0x0A000000, 8⟩ (.netmask (.str "255.255".toList)) = .error .value := by
  decide +kernel
example : applySetX .platform ⟨4, 0x0A000000, 8⟩ (.netmask (.str "a/b".toList)) = .error .value := by decide +kernel
example : applySetX .platform ⟨4, 0x0A000000, 8⟩ (.netmask (.str "bad".toList)) = .error .addrFormat := by
  decide +kernel
example : applySetX .fallback ⟨6, 1, 128⟩ (.netmask (.str "ffff::".toList)) = .ok ⟨6, 1, 16⟩ := by decide +kernel
example : applySetX .platform ⟨4, 0x0A000000, 8⟩ (.netmask (.str "ffff::".toList)) = .error .value := by
  decide +kernel

/-! ### IPNetwork arguments -/

/-- **`n.netmask = m` for an `IPNetwork` object `m`** (the `BaseIP` copy branch of
    `IPAddress(m)`): only `m`'s family and stored value count, its prefix length is ignored —
    accepted exactly when `m` is of `n`'s family and `m.value` is the netmask of some `p`,
    ValueError otherwise (never AddrFormatError). -/
theorem setNetmask_net (be : Backend) (n m : Net) (hm : m.WF) :
    (∀ p, m.ver = n.ver → p ≤ width n.ver → m.val = netNetmask (width n.ver) p →
      applySetX be n (.netmask (.net m)) = .ok { n with plen := p }) ∧
    (¬ (m.ver = n.ver ∧ ∃ p, p ≤ width n.ver ∧ m.val = netNetmask (width n.ver) p) →
      applySetX be n (.netmask (.net m)) = .error .value) ∧
    (∀ q, applySetX be n (.netmask (.net { m with plen := q })) = applySetX be n (.netmask (.net m))) := by
  refine ⟨?_, ?_, fun _ => rfl⟩
  · intro p hv hp hval
    exact setNetmaskOf_of_mask n _ ⟨m.ver, m.val⟩ p rfl hv hp hval
  · intro hno
    exact setNetmaskOf_reject n ⟨m.ver, m.val⟩ ⟨hm.1, hm.2.1⟩ hno

example : applySetX .platform ⟨4, 0x0A000000, 8⟩ (.netmask (.net ⟨4, 0xffff0000, 3⟩)) = .ok ⟨4, 0x0A000000, 16⟩ := by
  decide +kernel
example : applySetX .platform ⟨4, 0x0A000000, 8⟩ (.netmask (.net ⟨6, 0xffff0000, 3⟩)) = .error .value := by
  decide +kernel

/-! ### order of statements -/

/-- The statement-by-statement bodies of the extended setters agree with the functional model: a
    rejected assignment — string and network arguments included — ends with the same error, the
    object as it was and an EMPTY store log; an accepted one made exactly one store. -/
theorem setterTraceX_eq (be : Backend) (n : Net) (op : SetOpX) :
    setterTraceX be n op =
      match applySetX be n op with
      | .error e => (.error e, ⟨n, []⟩)
      | .ok n' => (.ok (), ⟨n', [match op with
          | .value _ => .storeValue n'.val
          | _ => .storePrefixlen n'.plen]⟩) := by
  cases op with
  | value x => exact setterTrace_eq n (.value x)
  | prefixlen x => exact setterTrace_eq n (.prefixlen x)
  | netmask x =>
    cases hr : addrOfMaskArg be x with
    | error e =>
      simp [setterTraceX, setterBodyX, applySetX, setNetmaskX, setNetmaskOf, setNetmaskOfT, hr, bind, M.bind, call,
        Except.bind]
    | ok a =>
      have h := setterTrace_eq n (.netmask (.addr a))
      simp only [setterTrace, setterBody, setNetmaskT, applySet, setNetmask, addrOfSetArg] at h
      simp only [setterTraceX, setterBodyX, setNetmaskOfT, applySetX, setNetmaskX, setNetmaskOf, hr]
      exact h

/-- no assignment precedes a raise, whatever the argument form -/
theorem no_store_before_raiseX (be : Backend) (n : Net) (op : SetOpX) (e : Err) (s : St)
    (h : setterTraceX be n op = (.error e, s)) : s.log = [] ∧ s.obj = n ∧ applySetX be n op = .error e := by
  rw [setterTraceX_eq] at h
  cases hr : applySetX be n op with
  | ok n' => rw [hr] at h; simp at h
  | error e' =>
    rw [hr] at h
    simp only [Prod.mk.injEq, Except.error.injEq] at h
    obtain ⟨h1, h2⟩ := h
    subst h1 h2
    exact ⟨rfl, rfl, rfl⟩

example : setterTraceX .platform ⟨4, 5, 24⟩ (.netmask (.str "255.255".toList)) = (.error .value, ⟨⟨4, 5, 24⟩, []⟩) := by
  decide +kernel
example : setterTraceX .platform ⟨4, 5, 24⟩ (.netmask (.str "0xffff0000".toList)) =
    (.ok (), ⟨⟨4, 5, 16⟩, [.storePrefixlen 16]⟩) := by
  decide +kernel

end NV.C02A2
