import NetaddrVerif.Model.Cidr
namespace NV.C09
open NV

/-- `cidr_exclude(T, E)` is `before + after` of `cidr_partition(T, E)` -/
theorem exclude_eq (w : Nat) (t e : Pfx) :
    cidrExclude w t e = (cidrPartition w t e).1 ++ (cidrPartition w t e).2.2 := rfl

end NV.C09
