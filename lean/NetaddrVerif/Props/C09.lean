/-
Props/C09.lean — property C09 "cidr_exclude / cidr_partition split a block exactly around the
excluded part".  Property theorems only; helper lemmas are in Lemmas/C09L, Partition,
PartStruct, Canon, Minimal.

Statement (properties.jsonl): for every target network T and exclude network E of the same
family, cidr_partition returns (before, middle, after) where before and after are minimal,
disjoint, ascending CIDR lists covering exactly the addresses of T below and above E, middle is
[E] when E lies strictly inside T, [T] when E covers T, and [] when they are disjoint (T then
appears whole on the side away from E); together the three lists tile T and nothing outside
T\E ever appears in before+after.  cidr_exclude(T, E) equals before + after.

Everything is proved for every width `w` (IPv4: 32, IPv6: 128) and all networks `t`, `e` of that
width (`PWF`: value < 2^w, prefix ≤ w), host bits or not.  "Minimal CIDR list" is `Canon`
(aligned, strictly ascending, pairwise disjoint, no two members that could be merged) together
with `canon_unique` / `canon_minimal`: it is *the* shortest list of aligned blocks with that
address set.
-/
import NetaddrVerif.Lemmas.C09L
namespace NV.C09
open NV Blk NV.C09L

/-- two networks that share an address nest: the longer prefix lies inside the shorter -/
theorem nested_of_overlap (w : Nat) (t e : Pfx) (ht : PWF w t) (he : PWF w e)
    (h1 : ¬ e.last w < t.first w) (h2 : ¬ t.last w < e.first w) (hle : t.plen ≤ e.plen) :
    t.first w ≤ e.first w ∧ e.last w ≤ t.last w := by
  have hT := pfx_last_first w t ht
  have hE := pfx_last_first w e he
  have hpe := pp (w - e.plen)
  have hpt := pp (w - t.plen)
  have hsub := sub_of_share ⟨e.first w, w - e.plen⟩ ⟨t.first w, w - t.plen⟩
    (pfx_first_aligned w e he) (pfx_first_aligned w t ht) (by simp only; omega)
    (max (t.first w) (e.first w))
    (by simp only [Blk.mem]; omega) (by simp only [Blk.mem]; omega)
  have ha := hsub (e.first w) (by simp only [Blk.mem]; omega)
  have hb := hsub (e.last w) (by simp only [Blk.mem]; omega)
  simp only [Blk.mem] at ha hb
  omega

/-- the result of the halving loop in the nested case, all facts at once -/
theorem loop_facts (w : Nat) (t e : Pfx) (ht : PWF w t) (he : PWF w e)
    (h1 : ¬ e.last w < t.first w) (h2 : ¬ t.last w < e.first w) (hlt : t.plen < e.plen) :
    let lr := partLoop w (e.first w) e.plen (t.plen + 1) (t.first w)
      (t.first w + 2 ^ (w - (t.plen + 1))) [] []
    (∀ a, lden w lr.1 a ↔ t.first w ≤ a ∧ a < e.first w) ∧
    (∀ a, lden w lr.2.reverse a ↔ e.last w < a ∧ a ≤ t.last w) ∧
    Canon (blks w lr.1) ∧ Canon (blks w lr.2.reverse) ∧
    (∀ b ∈ lr.1, t.plen < b.plen ∧ b.plen ≤ w) ∧ (∀ b ∈ lr.2.reverse, t.plen < b.plen ∧ b.plen ≤ w) := by
  intro lr
  have hT := pfx_last_first w t ht
  have hE := pfx_last_first w e he
  have hnest := nested_of_overlap w t e ht he h1 h2 (Nat.le_of_lt hlt)
  have hepw := he.plen_le
  have hhalf := pow_half w t.plen (by omega)
  have hal : t.first w % (2 * 2 ^ (w - (t.plen + 1))) = 0 := by
    rw [← hhalf]; exact pfx_first_aligned w t ht
  have hspec := partLoop_spec w (e.first w) e.plen (t.first w) (t.first w + 2 ^ (w - t.plen)) hepw
    (pfx_first_aligned w e he) (e.plen + 1 - (t.plen + 1)) (t.plen + 1) (t.first w) [] []
    rfl (by omega) (by omega) (by omega) hal hnest.1 (by rw [← hhalf]; omega) (Nat.le_refl _)
    (by rw [← hhalf]; exact Nat.le_refl _)
    (by intro a; constructor
        · intro h; exact absurd h (lden_nil w a)
        · intro h; omega)
    (by intro a; constructor
        · intro h; exact absurd h (lden_nil w a)
        · intro h; rw [← hhalf] at h; omega)
  have hstruct := partLoop_struct w (e.first w) e.plen hepw (e.plen + 1 - (t.plen + 1)) (t.plen + 1)
    (t.first w) [] [] rfl (by omega) (by omega) (by omega) hal
    ⟨by simp, List.Pairwise.nil⟩ ⟨by simp, List.Pairwise.nil⟩ (by simp) (by simp)
  have hplen := partLoop_plen w (e.first w) e.plen hepw (t.plen + 1) (e.plen + 1 - (t.plen + 1))
    (t.plen + 1) (t.first w) (t.first w + 2 ^ (w - (t.plen + 1))) [] [] rfl (Nat.le_refl _)
    (by simp) (by simp)
  refine ⟨hspec.1, ?_, ?_, ?_, ?_, ?_⟩
  · intro a; rw [lden_reverse, hspec.2 a]; omega
  · exact chain_of_leftOK w _ hstruct.1 (fun b hb => (hplen.1 b hb).2)
  · exact chain_of_rightOK w _ hstruct.2 (fun b hb => (hplen.2 b hb).2)
  · intro b hb; have := hplen.1 b hb; omega
  · intro b hb; have := hplen.2 b (List.mem_reverse.1 hb); omega

/-- `t.cidr` as a one-element canonical list -/
theorem canon_single (w : Nat) (t : Pfx) (ht : PWF w t) : Canon (blks w [t.cidr w]) := by
  apply canon_of_chain
  · intro b hb
    simp only [blks, List.map_cons, List.map_nil, List.mem_singleton] at hb
    subst hb
    exact pfx_first_aligned w t ht
  · simp [blks]

theorem den_single_cidr (w : Nat) (t : Pfx) (ht : PWF w t) (a : Nat) :
    den (blks w [t.cidr w]) a ↔ t.mem w a := by
  rw [den_blks, lden_single, pfx_mem_iff w t ht]
  simp only [bmem, Blk.mem, Pfx.cidr]
  exact Iff.rfl

/-- **C09, main theorem.**  `before` and `after` cover exactly the addresses of T below and
    above E, both are canonical (minimal, ascending, disjoint) lists of networks of the family
    that are no shorter than T's prefix, and `middle` is `[]` / `[T]` / `[E]` by the three cases. -/
theorem partition_spec (w : Nat) (t e : Pfx) (ht : PWF w t) (he : PWF w e) :
    (∀ a, den (blks w (cidrPartition w t e).1) a ↔ t.mem w a ∧ a < e.first w) ∧
    (∀ a, den (blks w (cidrPartition w t e).2.2) a ↔ t.mem w a ∧ e.last w < a) ∧
    Canon (blks w (cidrPartition w t e).1) ∧ Canon (blks w (cidrPartition w t e).2.2) ∧
    (∀ b ∈ (cidrPartition w t e).1 ++ (cidrPartition w t e).2.2,
        PWF w b ∧ t.plen ≤ b.plen ∧ b.val % 2 ^ (w - b.plen) = 0) ∧
    (cidrPartition w t e).2.1 =
      (if e.last w < t.first w ∨ t.last w < e.first w then []
       else if t.plen ≥ e.plen then [t] else [e]) := by
  have hT := pfx_last_first w t ht
  have hE := pfx_last_first w e he
  have hpe := pp (w - e.plen)
  have hpt := pp (w - t.plen)
  have hfl : (t.cidr w).val < 2 ^ w := by
    have := pfx_last_lt w t ht; rw [pfx_cidr_val]; omega
  have hcw : PWF w (t.cidr w) ∧ t.plen ≤ (t.cidr w).plen ∧ (t.cidr w).val % 2 ^ (w - (t.cidr w).plen) = 0 :=
    ⟨⟨hfl, ht.plen_le⟩, Nat.le_refl _, pfx_first_aligned w t ht⟩
  unfold cidrPartition
  by_cases h1 : e.last w < t.first w
  · simp only [h1, ite_true, true_or]
    refine ⟨?_, ?_, canon_nil, canon_single w t ht, ?_, trivial⟩
    · intro a; simp only [blks, List.map_nil, den, List.not_mem_nil, false_and, exists_false, false_iff, Pfx.mem]
      omega
    · intro a; rw [den_single_cidr w t ht]; simp only [Pfx.mem]; omega
    · intro b hb; simp only [List.nil_append, List.mem_singleton] at hb; subst hb; exact hcw
  · simp only [h1, ite_false, false_or]
    by_cases h2 : t.last w < e.first w
    · simp only [h2, ite_true]
      refine ⟨?_, ?_, canon_single w t ht, canon_nil, ?_, trivial⟩
      · intro a; rw [den_single_cidr w t ht]; simp only [Pfx.mem]; omega
      · intro a; simp only [blks, List.map_nil, den, List.not_mem_nil, false_and, exists_false, false_iff, Pfx.mem]
        omega
      · intro b hb; simp only [List.append_nil, List.mem_singleton] at hb; subst hb; exact hcw
    · simp only [h2, ite_false]
      by_cases h3 : t.plen ≥ e.plen
      · simp only [h3, ite_true]
        -- E covers T: nothing of T lies below or above E
        have hn := nested_of_overlap w e t he ht h2 h1 h3
        refine ⟨?_, ?_, canon_nil, canon_nil, by simp, trivial⟩
        · intro a; simp only [blks, List.map_nil, den, List.not_mem_nil, false_and, exists_false, false_iff, Pfx.mem]
          omega
        · intro a; simp only [blks, List.map_nil, den, List.not_mem_nil, false_and, exists_false, false_iff, Pfx.mem]
          omega
      · simp only [h3, ite_false]
        have hlt : t.plen < e.plen := by omega
        have hf := loop_facts w t e ht he h1 h2 hlt
        simp only at hf
        obtain ⟨hb, ha, hcb, hca, hpb, hpa⟩ := hf
        have hn := nested_of_overlap w t e ht he h1 h2 (Nat.le_of_lt hlt)
        have hlast := pfx_last_lt w t ht
        -- every emitted block lies inside T, hence below 2^w, and is aligned
        have hwf : ∀ (l : List Pfx), Canon (blks w l) → (∀ a, lden w l a → a ≤ t.last w) →
            (∀ b ∈ l, t.plen < b.plen ∧ b.plen ≤ w) →
            ∀ b ∈ l, PWF w b ∧ t.plen ≤ b.plen ∧ b.val % 2 ^ (w - b.plen) = 0 := by
          intro l hc hd hp b hbl
          have hbm : lden w l b.val := ⟨b, hbl, by simp only [bmem]; have := pp (w - b.plen); omega⟩
          have := hd _ hbm
          refine ⟨⟨by omega, (hp b hbl).2⟩, Nat.le_of_lt (hp b hbl).1, ?_⟩
          exact hc.al (blk w b) (List.mem_map.2 ⟨b, hbl, rfl⟩)
        refine ⟨?_, ?_, hcb, hca, ?_, by first | rfl | trivial⟩
        · intro a; rw [den_blks, hb a]; simp only [Pfx.mem]; omega
        · intro a; rw [den_blks, ha a]; simp only [Pfx.mem]; omega
        · intro b hbm
          rcases List.mem_append.1 hbm with h | h
          · exact hwf _ hcb (fun a h' => by have := (hb a).1 h'; omega) hpb b h
          · exact hwf _ hca (fun a h' => ((ha a).1 h').2) hpa b h

example : cidrPartition 32 ⟨0xC0000200, 24⟩ ⟨0xC0000240, 28⟩ =
    ([⟨0xC0000200, 26⟩], [⟨0xC0000240, 28⟩], [⟨0xC0000250, 28⟩, ⟨0xC0000260, 27⟩, ⟨0xC0000280, 25⟩]) := by
  decide +kernel

/-- **which case is which**: `middle = []` exactly when T and E share no address; otherwise the
    shorter prefix contains the other network, so `[T]` means E covers T and `[E]` means E lies
    strictly inside T. -/
theorem middle_cases (w : Nat) (t e : Pfx) (ht : PWF w t) (he : PWF w e) :
    ((cidrPartition w t e).2.1 = [] ↔ ∀ a, ¬ (t.mem w a ∧ e.mem w a)) ∧
    ((cidrPartition w t e).2.1 = [t] → ∀ a, t.mem w a → e.mem w a) ∧
    ((∃ a, t.mem w a ∧ e.mem w a) → (∀ a, t.mem w a → e.mem w a) → (cidrPartition w t e).2.1 = [t]) ∧
    ((∃ a, t.mem w a ∧ e.mem w a) → ¬ (∀ a, t.mem w a → e.mem w a) →
        (cidrPartition w t e).2.1 = [e] ∧ (∀ a, e.mem w a → t.mem w a)) := by
  have hT := pfx_last_first w t ht
  have hE := pfx_last_first w e he
  have hpe := pp (w - e.plen)
  have hpt := pp (w - t.plen)
  have hmid := (partition_spec w t e ht he).2.2.2.2.2
  have hdisj : (e.last w < t.first w ∨ t.last w < e.first w) ↔ ∀ a, ¬ (t.mem w a ∧ e.mem w a) := by
    constructor
    · intro h a; simp only [Pfx.mem]; omega
    · intro h
      have := h (max (t.first w) (e.first w))
      simp only [Pfx.mem] at this; omega
  have hcov : ¬ (e.last w < t.first w ∨ t.last w < e.first w) → t.plen ≥ e.plen → ∀ a, t.mem w a → e.mem w a := by
    intro hd hp a ha
    have := nested_of_overlap w e t he ht (by omega) (by omega) hp
    simp only [Pfx.mem] at ha ⊢; omega
  have hins : ¬ (e.last w < t.first w ∨ t.last w < e.first w) → ¬ t.plen ≥ e.plen →
      (∀ a, e.mem w a → t.mem w a) ∧ ¬ (∀ a, t.mem w a → e.mem w a) := by
    intro hd hp
    have hn := nested_of_overlap w t e ht he (by omega) (by omega) (by omega)
    refine ⟨fun a ha => by simp only [Pfx.mem] at ha ⊢; omega, ?_⟩
    intro hall
    -- sizes: 2^(w-ep) < 2^(w-tp)
    have hlt : 2 ^ (w - e.plen) < 2 ^ (w - t.plen) :=
      Nat.pow_lt_pow_right (by decide) (by have := he.plen_le; omega)
    have h1 := hall (t.first w) (by simp only [Pfx.mem]; omega)
    have h2 := hall (t.last w) (by simp only [Pfx.mem]; omega)
    simp only [Pfx.mem] at h1 h2; omega
  refine ⟨?_, ?_, ?_, ?_⟩
  · rw [hmid, ← hdisj]
    constructor
    · intro h
      by_cases hd : e.last w < t.first w ∨ t.last w < e.first w
      · exact hd
      · rw [if_neg hd] at h; split at h <;> simp at h
    · intro h; rw [if_pos h]
  · intro h; rw [hmid] at h
    by_cases hd : e.last w < t.first w ∨ t.last w < e.first w
    · rw [if_pos hd] at h; simp at h
    · rw [if_neg hd] at h
      by_cases hp : t.plen ≥ e.plen
      · exact hcov hd hp
      · rw [if_neg hp] at h
        have he' : e = t := by simpa using h
        subst he'; exact fun a ha => ha
  · intro hex hall
    have hd : ¬ (e.last w < t.first w ∨ t.last w < e.first w) := by
      intro h; obtain ⟨a, ha⟩ := hex; exact (hdisj.1 h) a ha
    rw [hmid, if_neg hd]
    by_cases hp : t.plen ≥ e.plen
    · rw [if_pos hp]
    · exact absurd hall (hins hd hp).2
  · intro hex hnall
    have hd : ¬ (e.last w < t.first w ∨ t.last w < e.first w) := by
      intro h; obtain ⟨a, ha⟩ := hex; exact (hdisj.1 h) a ha
    have hp : ¬ t.plen ≥ e.plen := fun hp => hnall (hcov hd hp)
    rw [hmid, if_neg hd, if_neg hp]
    exact ⟨rfl, (hins hd hp).1⟩

/-- **the three lists tile T**: every address of T is in exactly one of before / middle / after,
    and nothing else is in any of them -/
theorem partition_tiles (w : Nat) (t e : Pfx) (ht : PWF w t) (he : PWF w e) (a : Nat) :
    let B := den (blks w (cidrPartition w t e).1) a
    let M := ∃ m ∈ (cidrPartition w t e).2.1, m.mem w a
    let A := den (blks w (cidrPartition w t e).2.2) a
    (t.mem w a ↔ B ∨ M ∨ A) ∧ ¬ (B ∧ M) ∧ ¬ (B ∧ A) ∧ ¬ (M ∧ A) := by
  intro B M A
  have hT := pfx_last_first w t ht
  have hE := pfx_last_first w e he
  have hpe := pp (w - e.plen)
  have hpt := pp (w - t.plen)
  obtain ⟨hb, ha, _, _, _, hmid⟩ := partition_spec w t e ht he
  have hB : B ↔ t.mem w a ∧ a < e.first w := hb a
  have hA : A ↔ t.mem w a ∧ e.last w < a := ha a
  by_cases hd : e.last w < t.first w ∨ t.last w < e.first w
  · have hM : ¬ M := by
      simp only [M, hmid, if_pos hd, List.not_mem_nil, false_and, exists_false, not_false_eq_true]
    have hM' : M ↔ False := iff_false_intro hM
    rw [hB, hA, hM']; simp only [Pfx.mem, false_or, and_false, false_and, not_false_eq_true, true_and, and_true]
    refine ⟨?_, ?_⟩ <;> omega
  · by_cases hp : t.plen ≥ e.plen
    · have hn := nested_of_overlap w e t he ht (by omega) (by omega) hp
      have hM : M ↔ t.mem w a := by
        simp only [M, hmid, if_neg hd, if_pos hp, List.mem_singleton, exists_eq_left]
      rw [hB, hA, hM]; simp only [Pfx.mem]
      refine ⟨?_, ?_, ?_, ?_⟩ <;> omega
    · have hn := nested_of_overlap w t e ht he (by omega) (by omega) (by omega)
      have hM : M ↔ e.mem w a := by
        simp only [M, hmid, if_neg hd, if_neg hp, List.mem_singleton, exists_eq_left]
      rw [hB, hA, hM]; simp only [Pfx.mem]
      refine ⟨?_, ?_, ?_, ?_⟩ <;> omega

/-- **disjoint networks**: T appears whole (host bits cleared) on the side away from E -/
theorem disjoint_whole (w : Nat) (t e : Pfx) :
    (e.last w < t.first w → cidrPartition w t e = ([], [], [t.cidr w])) ∧
    (¬ e.last w < t.first w → t.last w < e.first w → cidrPartition w t e = ([t.cidr w], [], [])) := by
  constructor
  · intro h; simp [cidrPartition, h]
  · intro h1 h2; simp [cidrPartition, h1, h2]

/-- `cidr_exclude(T, E)` is `before + after` of `cidr_partition(T, E)` -/
theorem exclude_eq (w : Nat) (t e : Pfx) :
    cidrExclude w t e = (cidrPartition w t e).1 ++ (cidrPartition w t e).2.2 := rfl

/-- **cidr_exclude**: the result denotes exactly T \ E and is a canonical list -/
theorem exclude_spec (w : Nat) (t e : Pfx) (ht : PWF w t) (he : PWF w e) :
    (∀ a, den (blks w (cidrExclude w t e)) a ↔ t.mem w a ∧ ¬ e.mem w a) ∧
    Canon (blks w (cidrExclude w t e)) ∧
    (∀ b ∈ cidrExclude w t e, PWF w b ∧ t.plen ≤ b.plen ∧ b.val % 2 ^ (w - b.plen) = 0) := by
  have hT := pfx_last_first w t ht
  have hE := pfx_last_first w e he
  have hpe := pp (w - e.plen)
  obtain ⟨hb, ha, hcb, hca, hwf, _⟩ := partition_spec w t e ht he
  rw [exclude_eq]
  have hden : ∀ a, den (blks w ((cidrPartition w t e).1 ++ (cidrPartition w t e).2.2)) a ↔
      den (blks w (cidrPartition w t e).1) a ∨ den (blks w (cidrPartition w t e).2.2) a := by
    intro a; simp only [blks, List.map_append, den, List.mem_append, or_and_right, exists_or]
  refine ⟨?_, ?_, hwf⟩
  · intro a; rw [hden, hb a, ha a]; simp only [Pfx.mem]; omega
  · simp only [blks, List.map_append]
    apply canon_append _ _ hcb hca
    intro b hbm c hcm
    -- b ends at or below E.first, c starts above E.last
    have h1 := (hb (b.base + 2 ^ b.k - 1)).1 ⟨b, hbm, by simp only [Blk.mem]; have := pow_pos' b.k; omega⟩
    have h2 := (ha c.base).1 ⟨c, hcm, mem_base c⟩
    have := pow_pos' b.k
    omega

/-- **uniqueness and minimality**: any canonical list with the address set T \ E *is* the result,
    and no list of aligned blocks with that address set is shorter -/
theorem exclude_unique_minimal (w : Nat) (t e : Pfx) (ht : PWF w t) (he : PWF w e) (l : List Blk)
    (hden : ∀ a, den l a ↔ t.mem w a ∧ ¬ e.mem w a) :
    (Canon l → l = blks w (cidrExclude w t e)) ∧
    ((∀ b ∈ l, b.aligned) → (cidrExclude w t e).length ≤ l.length) := by
  obtain ⟨hd, hc, _⟩ := exclude_spec w t e ht he
  constructor
  · intro hl
    exact canon_unique l _ hl hc (fun a => by rw [hden a, hd a])
  · intro hal
    have := canon_minimal _ l hc hal (fun a => by rw [hden a, hd a])
    simpa [blks] using this

/-- the same for each side of the partition -/
theorem partition_unique_minimal (w : Nat) (t e : Pfx) (ht : PWF w t) (he : PWF w e) (l : List Blk) :
    ((∀ a, den l a ↔ t.mem w a ∧ a < e.first w) →
      (Canon l → l = blks w (cidrPartition w t e).1) ∧
      ((∀ b ∈ l, b.aligned) → (cidrPartition w t e).1.length ≤ l.length)) ∧
    ((∀ a, den l a ↔ t.mem w a ∧ e.last w < a) →
      (Canon l → l = blks w (cidrPartition w t e).2.2) ∧
      ((∀ b ∈ l, b.aligned) → (cidrPartition w t e).2.2.length ≤ l.length)) := by
  obtain ⟨hb, ha, hcb, hca, _, _⟩ := partition_spec w t e ht he
  constructor
  · intro hden
    constructor
    · intro hl; exact canon_unique l _ hl hcb (fun a => by rw [hden a, hb a])
    · intro hal
      have := canon_minimal _ l hcb hal (fun a => by rw [hden a, hb a])
      simpa [blks] using this
  · intro hden
    constructor
    · intro hl; exact canon_unique l _ hl hca (fun a => by rw [hden a, ha a])
    · intro hal
      have := canon_minimal _ l hca hal (fun a => by rw [hden a, ha a])
      simpa [blks] using this

/-- non-vacuity: a host-sized exclude at the last address of the IPv4 space, target with host bits -/
example : cidrExclude 32 ⟨0xFFFFFF07, 24⟩ ⟨0xFFFFFFFF, 32⟩ =
    [⟨0xFFFFFF00, 25⟩, ⟨0xFFFFFF80, 26⟩, ⟨0xFFFFFFC0, 27⟩, ⟨0xFFFFFFE0, 28⟩, ⟨0xFFFFFFF0, 29⟩,
     ⟨0xFFFFFFF8, 30⟩, ⟨0xFFFFFFFC, 31⟩, ⟨0xFFFFFFFE, 32⟩] := by decide +kernel

example : PWF 32 ⟨0xFFFFFF07, 24⟩ ∧ PWF 32 ⟨0xFFFFFFFF, 32⟩ := by
  refine ⟨⟨by decide, by decide⟩, ⟨by decide, by decide⟩⟩

end NV.C09
