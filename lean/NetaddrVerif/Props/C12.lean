import NetaddrVerif.Model.ComparePickle
namespace NV.C12
open NV NV.Cmp

theorem hash_agrees (h : List Int → Int) (x y : Obj) (e : eq x y = true) : hashOf h x = hashOf h y := by
  simp only [eq, beq_iff_eq] at e
  simp [hashOf, e]

end NV.C12
