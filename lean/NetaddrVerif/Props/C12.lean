/-
Props/C12.lean — property C12 "Equality, hashing, ordering and pickling of IP objects are
coherent".  Property theorems only; spec vocabulary (`Obj.first/last/isBlock/isAN`) and the order
theory of tuple comparison are in Lemmas/C12L.lean.

Statement (properties.jsonl): two IPAddress objects are equal iff they have the same version and
value; two block objects (IPNetwork, IPRange, IPGlob, in any combination) are equal iff they
have the same version, first and last address; an address never equals a block; equal objects
have equal hashes.  sorted() over addresses and networks is a consistent total preorder that
puts IPv4 before IPv6, lower first address first, and an enclosing network before the networks
it encloses, independent of input order; ranges order by version then start.  pickle, copy and
deepcopy of any IP object, IPSet or EUI give an object with the same str(), that compares equal
and hashes equal.

The theorems are about `NV.Cmp.*` (Model/ComparePickle.lean, with `key`/`sortKey`/`tupleCmp`
from the shared Model/Compare.lean): the definitions the driver executes.  IPGlob is an IPRange
for the model.  The pickling part is at value level: what is proved is that the state written by
`__getstate__` rebuilds, through `__setstate__` and the modelled reduce rule, the identical
value-level object under copy, deepcopy and every pickle protocol; that `str()`, `==` and
`hash()` of the rebuilt object agree then follows because they are functions of that value
(`roundtrip_observations`).  CPython's pickle/copy machinery itself is modelled runtime.
-/
import NetaddrVerif.Lemmas.C12L
namespace NV.C12
open NV NV.Cmp

/-! ### equality and hashing -/

/-- two addresses are equal iff same version and same value -/
theorem eq_iff_addr (a b : Addr) : eq (.addr a) (.addr b) = true ↔ (a.ver = b.ver ∧ a.val = b.val) := by
  simp only [eq, Obj.key, Addr.key, beq_iff_eq, List.cons.injEq, and_true]
  constructor
  · rintro ⟨h1, h2⟩; constructor <;> omega
  · rintro ⟨h1, h2⟩; rw [h1, h2]; exact ⟨rfl, rfl⟩

/-- two block objects — IPNetwork, IPRange, IPGlob in any combination — are equal iff same
    version, same first and same last address -/
theorem eq_iff_block (x y : Obj) (hx : x.isBlock = true) (hy : y.isBlock = true) :
    eq x y = true ↔ (x.ver = y.ver ∧ x.first = y.first ∧ x.last = y.last) := by
  have key : ∀ z : Obj, z.isBlock = true → z.key = [(z.ver : Int), (z.first : Int), (z.last : Int)] := by
    intro z hz; cases z with
    | addr a => simp [Obj.isBlock] at hz
    | net n => rfl
    | rng r => rfl
  simp only [eq, beq_iff_eq, key x hx, key y hy, List.cons.injEq, and_true]
  constructor
  · rintro ⟨h1, h2, h3⟩; refine ⟨by omega, by omega, by omega⟩
  · rintro ⟨h1, h2, h3⟩; rw [h1, h2, h3]; exact ⟨rfl, rfl, rfl⟩

/-- an address never equals a block, in either operand order; `!=` answers True -/
theorem addr_ne_block (a : Addr) (y : Obj) (hy : y.isBlock = true) :
    eq (.addr a) y = false ∧ eq y (.addr a) = false ∧ ne (.addr a) y = true ∧ ne y (.addr a) = true := by
  cases y with
  | addr b => simp [Obj.isBlock] at hy
  | net n => simp [eq, ne, Obj.key, Addr.key, Net.key]
  | rng r => simp [eq, ne, Obj.key, Addr.key, Rng.key]

/-- `!=` is the negation of `==`; `==` is reflexive, symmetric and transitive -/
theorem eq_equivalence (x y z : Obj) :
    ne x y = !eq x y ∧ eq x x = true ∧ eq x y = eq y x ∧ (eq x y = true → eq y z = true → eq x z = true) := by
  refine ⟨by simp [ne, eq, bne], by simp [eq], ?_, ?_⟩
  · simp only [eq]; exact Bool.eq_iff_iff.2 ⟨fun h => by simp_all, fun h => by simp_all⟩
  · simp only [eq, beq_iff_eq]; intro h1 h2; rw [h1, h2]

/-- equal objects have equal hashes, whatever function of the key tuple `hash` is — also across
    types (IPRange vs IPNetwork vs IPGlob) -/
theorem hash_agrees (h : List Int → Int) (x y : Obj) (e : eq x y = true) : hashOf h x = hashOf h y := by
  simp only [eq, beq_iff_eq] at e
  simp [hashOf, e]

example : eq (.net ⟨4, 0x01020305, 24⟩) (.rng ⟨4, 0x01020300, 0x010203ff⟩) = true := by decide
example : eq (.addr ⟨4, 0x01020304⟩) (.net ⟨4, 0x01020304, 32⟩) = false := by decide
example : eq (.addr ⟨4, 5⟩) (.addr ⟨6, 5⟩) = false := by decide

/-! ### ordering -/

/-- the six operators are one consistent total preorder: `<=` is reflexive, transitive and total;
    `<` is its strict part; `>`/`>=` are the converses — on ALL objects (addresses, networks,
    ranges, globs of both families, mixed) -/
theorem order_total_preorder (x y z : Obj) :
    le x x = true ∧
    (le x y = true → le y z = true → le x z = true) ∧
    (le x y = true ∨ le y x = true) ∧
    lt x y = (le x y && !le y x) ∧ lt x y = !le y x ∧
    gt x y = lt y x ∧ ge x y = le y x := by
  have hgl := tupleCmp_gt_iff_lt x.sortKey y.sortKey
  have hlg := tupleCmp_lt_iff_gt x.sortKey y.sortKey
  have hyx : tupleCmp y.sortKey x.sortKey =
      (match tupleCmp x.sortKey y.sortKey with | .lt => .gt | .eq => .eq | .gt => .lt) := by
    cases h : tupleCmp x.sortKey y.sortKey with
    | lt => exact hlg.1 h
    | eq => have := (tupleCmp_eq_iff _ _).1 h; rw [this]; exact tupleCmp_refl _
    | gt => exact hgl.1 h
  refine ⟨?_, ?_, ?_, ?_, ?_, ?_, ?_⟩
  · simp [le, tupleCmp_refl]
  · simp only [le, bne_iff_ne]; exact tle_trans _ _ _
  · simp only [le, bne_iff_ne]; exact tle_total _ _
  · simp only [lt, le, hyx]; cases tupleCmp x.sortKey y.sortKey <;> rfl
  · simp only [lt, le, hyx]; cases tupleCmp x.sortKey y.sortKey <;> rfl
  · simp only [gt, lt, hyx]; cases tupleCmp x.sortKey y.sortKey <;> rfl
  · simp only [ge, le, hyx]; cases tupleCmp x.sortKey y.sortKey <;> rfl

/-- on addresses and networks the preorder is antisymmetric up to identical objects: objects
    that tie are the same object (same version, value and prefix length) -/
theorem order_antisymm_AN (x y : Obj) (hx : x.isAN = true) (hy : y.isAN = true)
    (h1 : le x y = true) (h2 : le y x = true) : x = y := by
  simp only [le, bne_iff_ne] at h1 h2
  exact sortKey_inj_AN x y hx hy (tle_antisymm _ _ h1 h2)

/-- IPv4 sorts before IPv6 (a lower version sorts first), for all kinds of objects -/
theorem v4_before_v6 (x y : Obj) (h : x.ver < y.ver) : lt x y = true := by
  obtain ⟨t, ht⟩ := sortKey_head x
  obtain ⟨u, hu⟩ := sortKey_head y
  simp only [lt, ht, hu, beq_iff_eq]
  exact tupleCmp_head_lt _ _ _ _ (by omega)

/-- within a family the lower first address sorts first — for addresses, networks (first address
    of the block, whatever the host bits), ranges and globs alike -/
theorem lower_first_first (x y : Obj) (hv : x.ver = y.ver) (h : x.first < y.first) : lt x y = true := by
  obtain ⟨t, ht⟩ := sortKey_head x
  obtain ⟨u, hu⟩ := sortKey_head y
  simp only [lt, ht, hu, hv, beq_iff_eq, tupleCmp_head_eq]
  exact tupleCmp_head_lt _ _ _ _ (by omega)

/-- ranges (and globs) order by version, then start -/
theorem range_order (r s : Rng) :
    (r.ver < s.ver → lt (.rng r) (.rng s) = true) ∧
    (r.ver = s.ver → r.lo < s.lo → lt (.rng r) (.rng s) = true) :=
  ⟨fun h => v4_before_v6 (.rng r) (.rng s) h, fun hv h => lower_first_first (.rng r) (.rng s) hv h⟩

/-- an enclosing network sorts before every different network it encloses: `n ⊇ m` as address
    sets (interval inclusion), not the same block ⟹ `n < m` -/
theorem encloser_first (n m : Net) (hn : n.WF) (hm : m.WF) (hv : n.ver = m.ver)
    (h1 : n.first ≤ m.first) (h2 : m.last ≤ n.last) (hne : ¬ (n.first = m.first ∧ n.last = m.last)) :
    lt (.net n) (.net m) = true := by
  by_cases hf : n.first < m.first
  · exact lower_first_first (.net n) (.net m) hv hf
  · have hfe : n.first = m.first := by omega
    -- same first address: the bigger block has the shorter prefix
    have hl : m.last < n.last := by omega
    have hnl := netLast_eq (width n.ver) n.val n.plen
    have hml := netLast_eq (width m.ver) m.val m.plen
    have hnf := netFirst_eq (width n.ver) n.val n.plen hn.2.1
    have hmf := netFirst_eq (width m.ver) m.val m.plen hm.2.1
    have hnL : n.last = n.first + (2 ^ (width n.ver - n.plen) - 1) := by
      show netLast _ _ _ = netFirst _ _ _ + _; rw [hnl, hnf]
    have hmL : m.last = m.first + (2 ^ (width m.ver - m.plen) - 1) := by
      show netLast _ _ _ = netFirst _ _ _ + _; rw [hml, hmf]
    have hp1 := NV.two_pow_pos (width n.ver - n.plen)
    have hp2 := NV.two_pow_pos (width m.ver - m.plen)
    have hpow : 2 ^ (width m.ver - m.plen) < 2 ^ (width n.ver - n.plen) := by omega
    have hexp : width m.ver - m.plen < width n.ver - n.plen := (Nat.pow_lt_pow_iff_right (by decide)).1 hpow
    have hplen : n.plen < m.plen := by have := hn.2.2; have := hm.2.2; rw [hv] at *; omega
    simp only [lt, Obj.sortKey, Net.sortKey, hv, hfe, tupleCmp_head_eq, beq_iff_eq]
    exact tupleCmp_head_lt _ _ _ _ (by omega)

/-- a network with at least two addresses sorts before every address it contains -/
theorem encloser_before_address (n : Net) (a : Addr) (hv : n.ver = a.ver)
    (h1 : n.first ≤ a.val) (hp : n.plen < width n.ver) : lt (.net n) (.addr a) = true := by
  by_cases hf : n.first < a.val
  · exact lower_first_first (.net n) (.addr a) hv hf
  · have hfe : n.first = a.val := by omega
    simp only [lt, Obj.sortKey, Net.sortKey, Addr.sortKey, hv, hfe, tupleCmp_head_eq, beq_iff_eq]
    exact tupleCmp_head_lt _ _ _ _ (by rw [← hv]; omega)

example : lt (.net ⟨4, 0x01020000, 16⟩) (.net ⟨4, 0x01020305, 24⟩) = true := by decide
/-- the hypotheses of `encloser_first` on a concrete pair with the same first address -/
example : lt (.net ⟨4, 0x01020007, 16⟩) (.net ⟨4, 0x01020005, 24⟩) = true :=
  encloser_first _ _ ⟨Or.inl rfl, by decide, by decide⟩ ⟨Or.inl rfl, by decide, by decide⟩ rfl
    (by decide) (by decide) (by decide)
example : lt (.net ⟨4, 0x01020300, 24⟩) (.addr ⟨4, 0x01020300⟩) = true := by decide
example : lt (.addr ⟨4, 0xffffffff⟩) (.net ⟨6, 0, 0⟩) = true := by decide

/-- `sorted()` returns a permutation of its input that is ascending in `<=` -/
theorem sorted_sorted (l : List Obj) :
    (sortObjs l).Perm l ∧ (sortObjs l).Pairwise (fun a b => le a b = true) := by
  refine ⟨List.mergeSort_perm _ _, ?_⟩
  have hle : ∀ a b : Obj, (!lt b a) = le a b := by
    intro a b; have := (order_total_preorder b a a).2.2.2.2.1; rw [this]; simp
  have : sortObjs l = l.mergeSort (fun a b => le a b) := by
    unfold sortObjs; congr 1; funext a b; exact hle a b
  rw [this]
  apply List.pairwise_mergeSort
  · intro a b c; exact (order_total_preorder a b c).2.1
  · intro a b; have := (order_total_preorder a b a).2.2.1; simpa using this

/-- `sorted()` over addresses and networks does not depend on the input order: any two
    permutations of the same list sort to the same list -/
theorem sorted_perm_invariant (l₁ l₂ : List Obj) (hAN : ∀ x ∈ l₁, x.isAN = true) (hp : l₁.Perm l₂) :
    sortObjs l₁ = sortObjs l₂ := by
  obtain ⟨p1, s1⟩ := sorted_sorted l₁
  obtain ⟨p2, s2⟩ := sorted_sorted l₂
  apply List.Perm.eq_of_pairwise (le := fun a b => le a b = true) _ s1 s2 (p1.trans (hp.trans p2.symm))
  intro a b ha hb hab hba
  have ha' : a ∈ l₁ := p1.subset ha
  have hb' : b ∈ l₁ := hp.symm.subset (p2.subset hb)
  exact order_antisymm_AN a b (hAN a ha') (hAN b hb') hab hba

example : sortObjs [.net ⟨4, 5, 24⟩, .addr ⟨4, 0⟩, .net ⟨4, 0, 8⟩, .addr ⟨6, 0⟩] =
    [.net ⟨4, 0, 8⟩, .net ⟨4, 5, 24⟩, .addr ⟨4, 0⟩, .addr ⟨6, 0⟩] := by
  rw [sorted_perm_invariant _ [.net ⟨4, 0, 8⟩, .net ⟨4, 5, 24⟩, .addr ⟨4, 0⟩, .addr ⟨6, 0⟩] (by decide) (by decide)]
  exact List.mergeSort_of_pairwise (by decide)

/-- why the statement is about addresses and networks: two different ranges can tie in the sort
    order (`sort_key` only keeps the bit length of the size), and then `sorted()` — a stable
    sort — keeps their input order -/
theorem sorted_ranges_can_tie :
    le (.rng ⟨4, 0, 4⟩) (.rng ⟨4, 0, 5⟩) = true ∧ le (.rng ⟨4, 0, 5⟩) (.rng ⟨4, 0, 4⟩) = true ∧
    sortObjs [.rng ⟨4, 0, 4⟩, .rng ⟨4, 0, 5⟩] ≠ sortObjs [.rng ⟨4, 0, 5⟩, .rng ⟨4, 0, 4⟩] := by
  refine ⟨by decide, by decide, ?_⟩
  have h1 : sortObjs [.rng ⟨4, 0, 4⟩, .rng ⟨4, 0, 5⟩] = [.rng ⟨4, 0, 4⟩, .rng ⟨4, 0, 5⟩] :=
    List.mergeSort_of_pairwise (by decide)
  have h2 : sortObjs [.rng ⟨4, 0, 5⟩, .rng ⟨4, 0, 4⟩] = [.rng ⟨4, 0, 5⟩, .rng ⟨4, 0, 4⟩] :=
    List.mergeSort_of_pairwise (by decide)
  rw [h1, h2]; decide

/-! ### pickle / copy / deepcopy -/

/-- IPAddress: under copy, deepcopy and every pickle protocol the rebuilt object is the same
    (version, value) -/
theorem state_roundtrip_addr (how : How) (a : Addr) (h : a.WF) : roundtripAddr how a = .ok a := by
  have hp : passesState how true = true := by cases how <;> simp [passesState]
  obtain ⟨hv, _⟩ := h
  cases a with
  | mk ver val =>
    simp only at hv
    rcases hv with rfl | rfl <;> simp [roundtripAddr, reconstruct, hp, getstateAddr, setstateAddr]

/-- IPNetwork: same (version, value incl. host bits, prefix length) -/
theorem state_roundtrip_net (how : How) (n : Net) (h : n.WF) : roundtripNet how n = .ok n := by
  have hp : passesState how true = true := by cases how <;> simp [passesState]
  obtain ⟨hv, _, hpl⟩ := h
  cases n with
  | mk ver val plen =>
    simp only at hv hpl
    rcases hv with rfl | rfl
    · simp only [roundtripNet, reconstruct, hp, getstateNet, setstateNet, if_true]
      have : (plen : Int) ≤ (width 4 : Int) := by omega
      simp [this]
    · simp only [roundtripNet, reconstruct, hp, getstateNet, setstateNet, if_true]
      have : (plen : Int) ≤ (width 6 : Int) := by omega
      simp [this]

/-- IPRange / IPGlob: same (version, start, end) -/
theorem state_roundtrip_rng (how : How) (r : Rng) (hv : r.ver = 4 ∨ r.ver = 6)
    (hlo : r.lo ≤ maxInt r.ver) (hhi : r.hi ≤ maxInt r.ver) : roundtripRng how r = .ok r := by
  have hp : passesState how true = true := by cases how <;> simp [passesState]
  cases r with
  | mk ver lo hi =>
    simp only at hv hlo hhi
    rcases hv with rfl | rfl
    · have h1 : (lo : Int) ≤ (maxInt 4 : Int) := by omega
      have h2 : (hi : Int) ≤ (maxInt 4 : Int) := by omega
      simp [roundtripRng, reconstruct, hp, getstateRng, setstateRng, Cmp.mkAddr, h1, h2, bind, Except.bind, pure, Except.pure]
    · have h1 : (lo : Int) ≤ (maxInt 6 : Int) := by omega
      have h2 : (hi : Int) ≤ (maxInt 6 : Int) := by omega
      simp [roundtripRng, reconstruct, hp, getstateRng, setstateRng, Cmp.mkAddr, h1, h2, bind, Except.bind, pure, Except.pure]

/-- EUI: same (version, value, dialect class) -/
theorem state_roundtrip_eui (how : How) (e : Eui) (hv : e.ver = 48 ∨ e.ver = 64) : roundtripEui how e = .ok e := by
  have hp : passesState how true = true := by cases how <;> simp [passesState]
  cases e with
  | mk ver val d =>
    simp only at hv
    rcases hv with rfl | rfl <;> simp [roundtripEui, reconstruct, hp, getstateEui, setstateEui]

/-- the rebuilt network of each state triple -/
theorem mkNetTuple_getstate (n : Net) (h : n.WF) : mkNetTuple (getstateNet n) = .ok n := by
  obtain ⟨hv, hval, hpl⟩ := h
  cases n with
  | mk ver val plen =>
    simp only at hv hpl hval
    have hm : (val : Int) ≤ (maxInt ver : Int) := by unfold maxInt; omega
    have hw : (plen : Int) ≤ (width ver : Int) := by omega
    rcases hv with rfl | rfl <;> simp [getstateNet, mkNetTuple, hm, hw]

theorem fromKeys_distinct : ∀ l : List Net, l.Pairwise (fun a b => a.key ≠ b.key) → fromKeys l = l
  | [], _ => rfl
  | n :: t, h => by
    rw [List.pairwise_cons] at h
    unfold fromKeys
    rw [fromKeys_distinct t h.2]
    congr 1
    apply List.filter_eq_self.2
    intro m hm
    have := h.1 m hm
    simp only [bne_iff_ne, ne_eq]
    exact fun e => this e.symm

/-- IPSet: the member networks (the keys of `_cidrs`, pairwise different blocks) are rebuilt one
    for one, in the same order — for the EMPTY set too, under every protocol (the empty state
    tuple is falsy; `__reduce__` makes the constructor run) -/
theorem state_roundtrip_set (how : How) (s : List Net) (hwf : ∀ n ∈ s, n.WF)
    (hd : s.Pairwise (fun a b => a.key ≠ b.key)) : roundtripSet how s = .ok s := by
  unfold roundtripSet setstateSet getstateSet
  have : (s.map getstateNet).mapM mkNetTuple = .ok s := by
    clear hd
    induction s with
    | nil => rfl
    | cons n t ih =>
      rw [List.map_cons, List.mapM_cons, mkNetTuple_getstate n (hwf n (by simp)),
        ih (fun m hm => hwf m (by simp [hm]))]
      rfl
  rw [this]
  simp only [bind, Except.bind, pure, Except.pure]
  rw [fromKeys_distinct s hd]

/-- the default reduce rule would lose a falsy state under protocols 0 and 1 (this is the defect
    fixed by `IPSet.__reduce__`); a truthy state is always passed -/
theorem falsy_state_rule (p : Nat) :
    (passesState (.pickle p) false = true ↔ 2 ≤ p) ∧ passesState (.pickle p) true = true ∧
    passesState .copy false = true ∧ passesState .deepcopy false = true := by
  refine ⟨?_, ?_, rfl, rfl⟩
  · simp only [passesState]; by_cases h : p < 2 <;> simp [h] <;> omega
  · simp only [passesState]; by_cases h : p < 2 <;> simp [h]

/-- whatever `str`, and whatever `hash` of the key, are as functions of the value-level object:
    the rebuilt object has the same `str()`, compares equal (and not unequal) and hashes equal -/
theorem roundtrip_observations (how : How) (x : Obj) (str : Obj → String) (h : List Int → Int)
    (hx : match x with
      | .addr a => a.WF
      | .net n => n.WF
      | .rng r => (r.ver = 4 ∨ r.ver = 6) ∧ r.lo ≤ maxInt r.ver ∧ r.hi ≤ maxInt r.ver) :
    ∃ y, (match x with
      | .addr a => (roundtripAddr how a).map Obj.addr
      | .net n => (roundtripNet how n).map Obj.net
      | .rng r => (roundtripRng how r).map Obj.rng) = .ok y ∧
      str y = str x ∧ eq y x = true ∧ ne y x = false ∧ hashOf h y = hashOf h x := by
  refine ⟨x, ?_, rfl, by simp [eq], by simp [ne], rfl⟩
  cases x with
  | addr a => simp only; rw [state_roundtrip_addr how a hx]; rfl
  | net n => simp only; rw [state_roundtrip_net how n hx]; rfl
  | rng r => simp only; rw [state_roundtrip_rng how r hx.1 hx.2.1 hx.2.2]; rfl

example : roundtripSet (.pickle 0) [] = .ok [] := by decide
example : roundtripNet (.pickle 1) ⟨6, 5, 128⟩ = .ok ⟨6, 5, 128⟩ := by decide
example : roundtripRng .deepcopy ⟨4, 1, 2⟩ = .ok ⟨4, 1, 2⟩ := by decide
/-- the guards of `__setstate__` are real: a prefix length beyond the width is rejected -/
example : setstateNet (1, 33, 4) = .error .value := by decide

end NV.C12
