/-
Props/C20Full.lean — closes the one gap of Props/C20.lean: the hypothesis `MergeExact` is
discharged from property C05's theorems about `cidrMerge` (`NV.C05.merge_wf`, `NV.C05.merge_den`),
which gives the C20 history theorem without any hypothesis.

This file imports Props/C05.lean (another contributor's module).  It is not part of the
C20 obligations of the branch it was written on; add it there once both are merged.
-/
import NetaddrVerif.Props.C20
import NetaddrVerif.Props.C05
namespace NV.C20
open NV NV.Splitter NV.C20L NV.C05L Blk

/-- a proper CIDR's address set is its aligned block -/
theorem nmem_block (m : Net) (h1 : m.plen ≤ width m.ver) (h2 : m.val % 2 ^ (width m.ver - m.plen) = 0)
    (h3 : m.val + 2 ^ (width m.ver - m.plen) ≤ 2 ^ width m.ver) (a : Nat) :
    nmem m a ↔ (Blk.mk m.val (width m.ver - m.plen)).mem a := by
  have hp := pw (width m.ver - m.plen)
  have hv : m.val < 2 ^ width m.ver := by omega
  have hf : m.first = m.val := by
    show netFirst (width m.ver) m.val m.plen = m.val
    rw [netFirst_eq _ _ _ hv]; exact Nat.div_mul_cancel (Nat.dvd_of_mod_eq_zero h2)
  have hl : m.last = m.val + (2 ^ (width m.ver - m.plen) - 1) := by
    show netLast (width m.ver) m.val m.plen = _
    rw [netLast_eq, Nat.div_mul_cancel (Nat.dvd_of_mod_eq_zero h2)]
  simp only [nmem, Blk.mem, hf, hl]; omega

theorem items_wf (ver : Nat) (subs : List Net) (hs : ∀ n ∈ subs, NOk ver n) :
    ∀ it ∈ toItems subs, ItemWF it := by
  intro it hit
  obtain ⟨n, hn, rfl⟩ := List.mem_map.1 hit
  obtain ⟨h1, h2, h3⟩ := hs n hn
  simp only [ItemWF]; rw [h1]; exact ⟨h2, h3⟩

/-- the union of the inputs in C05's vocabulary -/
theorem iden_items (ver : Nat) (subs : List Net) (hs : ∀ n ∈ subs, NOk ver n) (u a : Nat) :
    iden (toItems subs) u a ↔ u = ver ∧ Cov subs a := by
  simp only [iden, toItems, List.mem_map, Cov]
  constructor
  · rintro ⟨it, ⟨n, hn, rfl⟩, hr⟩
    simp only [MItem.toRange, rmem] at hr
    exact ⟨by rw [← hr.1]; exact (hs n hn).1, n, hn, hr.2⟩
  · rintro ⟨rfl, n, hn, hm⟩
    refine ⟨_, ⟨n, hn, rfl⟩, ?_⟩
    simp only [MItem.toRange, rmem]
    exact ⟨(hs n hn).1, hm⟩

/-- **`cidr_merge` is exact** in the form C20 needs — from Props/C05 -/
theorem mergeExact : MergeExact := by
  intro ver subs hs
  have hwf := items_wf ver subs hs
  have hver : ∀ m ∈ cidrMerge (toItems subs), m.ver = ver := by
    intro m hm
    obtain ⟨h1, h2, h3⟩ := C05.merge_wf _ hwf m hm
    have hb : (Blk.mk m.val (width m.ver - m.plen)) ∈ famBlks m.ver (cidrMerge (toItems subs)) :=
      (mem_famBlks _ _ _).2 ⟨m, hm, rfl, rfl⟩
    have := (C05.merge_den _ hwf m.ver m.val).1 ⟨_, hb, mem_base _⟩
    exact ((iden_items ver subs hs _ _).1 this).1
  constructor
  · intro m hm
    obtain ⟨h1, h2, h3⟩ := C05.merge_wf _ hwf m hm
    have hv := hver m hm
    have hp := pw (width m.ver - m.plen)
    refine ⟨hv, ?_, ?_⟩
    · rw [← hv]; omega
    · rw [← hv]; exact h1
  · intro a
    constructor
    · rintro ⟨m, hm, hma⟩
      obtain ⟨h1, h2, h3⟩ := C05.merge_wf _ hwf m hm
      have hb : (Blk.mk m.val (width m.ver - m.plen)) ∈ famBlks m.ver (cidrMerge (toItems subs)) :=
        (mem_famBlks _ _ _).2 ⟨m, hm, rfl, rfl⟩
      have := (C05.merge_den _ hwf m.ver a).1 ⟨_, hb, (nmem_block m h1 h2 h3 a).1 hma⟩
      exact ((iden_items ver subs hs _ _).1 this).2
    · intro hc
      have := (C05.merge_den _ hwf ver a).2 ((iden_items ver subs hs ver a).2 ⟨rfl, hc⟩)
      obtain ⟨blk, hb, hba⟩ := this
      obtain ⟨m, hm, hmv, rfl⟩ := (mem_famBlks _ _ _).1 hb
      obtain ⟨h1, h2, h3⟩ := C05.merge_wf _ hwf m hm
      refine ⟨m, hm, ?_⟩
      rw [nmem_block m h1 h2 h3 a, hmv]; exact hba

/-- **C20, the history theorem, without hypotheses**: from any state satisfying the invariant,
    along every finite history, the invariant holds at every point and every call satisfies
    `StepFacts` -/
theorem history_invariant (b : Net) (hb : b.WF) (ops : List Op) :
    ∀ (s g : List Net), Tiling b s g → AllGood b s g ops :=
  history_invariant_partial mergeExact b hb ops

/-- a fresh `SubnetSplitter(base)` and any history -/
theorem splitter (b : Net) (hb : b.WF) (ops : List Op) : AllGood b (init b) [] ops :=
  splitter_partial mergeExact b hb ops

end NV.C20
