/-
Props/C03c.lean — C03, third part: partial and classful IPv4 forms at the full quantifier
(1-4 octets, every octet spelling `int()` reads - zero-padded, signed, spaced, underscored -,
with and without a prefix part, implicit_prefix False and True, version None and 4, both flag
values), what a bare IPv4 text is exactly, and the rejections for arbitrary address parts.
-/
import NetaddrVerif.Props.C03b
namespace NV.C03
open NV NV.Text4 NV.AddrParse NV.NetParse NV.C01L NV.C03L NV.C03L.Acc NV.C03L.Abbrev

/-- `os` are one to four octet texts which `int()` reads as `ns`, every value in 0..255 -/
def Octets (os : List (List Char)) (ns : List Int) : Prop :=
  os.mapM (Py.pyInt 10) = some ns ∧ os ≠ [] ∧ os.length ≤ 4 ∧ InRange ns

theorem mapM_all {α β} (f : α → Option β) (l : List α) (r : List β) (h : l.mapM f = some r) :
    ∀ x ∈ l, ∃ y, f x = some y := by
  induction l generalizing r with
  | nil => intro x hx; simp at hx
  | cons a t ih =>
    rw [List.mapM_cons] at h
    cases ha : f a with
    | none => simp [ha] at h
    | some b =>
      cases ht : t.mapM f with
      | none => simp [ha, ht] at h
      | some r' =>
        intro x hx
        rcases List.mem_cons.mp hx with e | e
        · subst e; exact ⟨b, ha⟩
        · exact ih r' ht x e

theorem stored_full (ver fl a : Nat) (ha : a < 2 ^ width ver) : stored ver fl a (width ver) = a := by
  rw [stored_eq ver fl a _ ha (Nat.le_refl _)]
  split <;> simp

theorem classOf_le (o : Nat) : classOf o ≤ 32 := by
  unfold classOf; split <;> (try split) <;> (try split) <;> (try split) <;> omega

theorem ipNetwork_implicit (be : Backend) (s : List Char) (pver : Option Nat) (fl : Nat) :
    ipNetwork be (.str s) true pver fl = ipNetwork be (.str (cidrAbbrevToVerbose s)) false pver fl := by
  cases pver with
  | none => rw [ipNetwork_str_none, ipNetwork_str_none, parse_implicit, parse_implicit]
  | some ver =>
    by_cases hver : ver = 4 ∨ ver = 6
    · rw [ipNetwork_str_some be s true ver hver, ipNetwork_str_some be _ false ver hver, parse_implicit]
    · rw [bad_version_value be _ true ver fl (by omega) (Or.inl ⟨s, rfl⟩),
        bad_version_value be _ false ver fl (by omega) (Or.inl ⟨_, rfl⟩)]

/-- what the text of octet spellings looks like to the parser -/
theorem octets_text (os : List (List Char)) (ns : List Int) (h : Octets os ns) :
    (['.'].intercalate os).contains '/' = false ∧ (['.'].intercalate os).splitOn '.' = os ∧
      addr4Spec (['.'].intercalate os) = some (quadVal ns) ∧ quadVal ns < 2 ^ 32 ∧ ':' ∉ ['.'].intercalate os := by
  obtain ⟨hm, hne, hlen, hr⟩ := h
  have hclean : ∀ o ∈ os, '.' ∉ o ∧ ':' ∉ o ∧ '/' ∉ o := by
    intro o ho
    obtain ⟨n, hn⟩ := mapM_all _ _ _ hm o ho
    exact pyInt_some_clean o n hn
  have hsp : (['.'].intercalate os).splitOn '.' = os :=
    List.splitOn_intercalate _ (fun l hl => (hclean l hl).1) hne
  have hl := mapM_length _ _ _ hm
  have hnne : ns ≠ [] := by
    intro e; subst e
    cases os with
    | nil => exact hne rfl
    | cons _ _ => simp at hl
  refine ⟨?_, hsp, ?_, (join_in_range ns hnne (by omega) hr).2, ?_⟩
  · apply contains_false_of_not_mem
    intro hmem
    rcases mem_intercalate '.' _ '/' hmem with e | ⟨t, ht, hc⟩
    · exact absurd e (by decide)
    · exact (hclean t ht).2.2 hc
  · rw [addr4Spec_alt, hsp, hm]
    simp only
    rw [if_pos ⟨by omega, hr⟩]
  · intro hmem
    rcases mem_intercalate '.' _ ':' hmem with e | ⟨t, ht, hc⟩
    · exact absurd e (by decide)
    · exact (hclean t ht).2.1 hc

/-- a text whose IPv4 address part is `a`, followed by a prefix text resolving to `q` -/
theorem partial_net (be : Backend) (txt : List Char) (a : Nat) (h1 : txt.contains '/' = false)
    (hspec : addr4Spec txt = some a) (T : List Char) (q : Nat) (hT : T.contains '/' = false)
    (hres : resolvePrefix be 4 (some T) = .ok (q : Int)) (hq : q ≤ 32)
    (pver : Option Nat) (hpver : pver = none ∨ pver = some 4) (fl : Nat) (i : Bool) :
    ipNetwork be (.str (txt ++ '/' :: T)) i pver fl = .ok ⟨4, stored 4 fl a q, q⟩ := by
  have h4 : VerOK 4 := Or.inl rfl
  have hf : ipNetwork be (.str (txt ++ '/' :: T)) false pver fl = .ok ⟨4, stored 4 fl a q, q⟩ := by
    apply net_of_parse be 4 h4 _ _ _ _ _ pver hpver (fun h => absurd h (by decide))
    rw [parse_split be 4 txt T fl h1 hT]
    exact (parseStrCore_iff be 4 h4 txt (some T) fl h1 _ _).mpr
      ⟨a, q, (addrPart4_iff be txt h1 a).mpr hspec, (resolvePrefix_iff be 4 h4 _ _).mp hres, hq, rfl, rfl⟩
  cases i with
  | false => exact hf
  | true => rw [explicit_prefix_wins be _ (by simp) pver fl]; exact hf

/-- a bare text whose IPv4 address part is `a`, implicit_prefix=False: full width -/
theorem partial_bare_net (be : Backend) (txt : List Char) (a : Nat) (h1 : txt.contains '/' = false)
    (hspec : addr4Spec txt = some a) (ha : a < 2 ^ 32)
    (pver : Option Nat) (hpver : pver = none ∨ pver = some 4) (fl : Nat) :
    ipNetwork be (.str txt) false pver fl = .ok ⟨4, a, 32⟩ := by
  have h4 : VerOK 4 := Or.inl rfl
  apply net_of_parse be 4 h4 _ _ _ _ _ pver hpver (fun h => absurd h (by decide))
  rw [parse_nosplit be 4 txt fl h1]
  exact (parseStrCore_iff be 4 h4 txt none fl h1 _ _).mpr
    ⟨a, 32, (addrPart4_iff be txt h1 a).mpr hspec, rfl, Nat.le_refl _, rfl, (stored_full 4 fl a ha).symm⟩


/-! ### `cidr_abbrev_to_verbose` on bare octet texts -/

theorem classful_of_range (n : Int) (h : 0 ≤ n ∧ n ≤ 255) : classfulPrefix n = some (classOf n.toNat) := by
  rw [classful_rules, if_pos h]

/-- one octet text `o` read by `int()` as `n` in 0..255: `n.0.0.0/<class prefix of n>` -/
theorem abbrev_one (o : List Char) (n : Int) (hpi : Py.pyInt 10 o = some n) (hn : 0 ≤ n ∧ n ≤ 255) :
    cidrAbbrevToVerbose o = ntoa (n.toNat * 16777216) ++ '/' :: dec (classOf n.toNat) := by
  obtain ⟨_, hc, _⟩ := pyInt_some_clean o n hpi
  have hcol : o.contains ':' = false := contains_false_of_not_mem hc
  have hne : (o == []) = false := by
    cases o with
    | nil =>
      have : Py.pyInt 10 [] = none := by decide
      rw [this] at hpi; cases hpi
    | cons _ _ => rfl
  obtain ⟨hs, hlt⟩ := showInt_of_range n hn
  have htext : dec n.toNat ++ ".0.0.0/".toList ++ dec (classOf n.toNat) =
      ntoa (n.toNat * 16777216) ++ '/' :: dec (classOf n.toNat) := by
    have := ntoa_octs n.toNat 0 0 0 hlt (by decide) (by decide) (by decide)
    simp only [Nat.zero_mul, Nat.add_zero] at this
    rw [this]
    simp [List.intercalate, dec]
  unfold cidrAbbrevToVerbose
  simp only [hcol, hne, Bool.or_self, Bool.false_eq_true, if_false, hpi, classful_of_range n hn, hs]
  exact htext

/-- two to four '.'-separated pieces, the first read by `int()` as `n` in 0..255: pad with "0"
    pieces, append the class prefix of `n` -/
theorem abbrev_many (os : List (List Char)) (o0 : List Char) (rest : List (List Char)) (hos : os = o0 :: rest)
    (hclean : ∀ o ∈ os, '.' ∉ o ∧ ':' ∉ o ∧ '/' ∉ o) (hlen : 2 ≤ os.length ∧ os.length ≤ 4)
    (n : Int) (hpi : Py.pyInt 10 o0 = some n) (hn : 0 ≤ n ∧ n ≤ 255) :
    cidrAbbrevToVerbose (['.'].intercalate os) =
      ['.'].intercalate (os ++ List.replicate (4 - os.length) ['0']) ++ '/' :: dec (classOf n.toNat) := by
  have hne : os ≠ [] := by rw [hos]; simp
  have hsplit : (['.'].intercalate os).splitOn '.' = os :=
    List.splitOn_intercalate _ (fun l hl => (hclean l hl).1) hne
  generalize htxt : ['.'].intercalate os = txt at *
  have hmem : ∀ ch ∈ txt, ch = '.' ∨ ∃ t ∈ os, ch ∈ t := by
    intro ch hch
    rw [← htxt] at hch
    exact mem_intercalate '.' _ ch hch
  have hcol : txt.contains ':' = false := by
    apply contains_false_of_not_mem
    intro h; rcases hmem _ h with e | ⟨t, ht, hc⟩
    · exact absurd e (by decide)
    · exact (hclean t ht).2.1 hc
  have hsl : txt.contains '/' = false := by
    apply contains_false_of_not_mem
    intro h; rcases hmem _ h with e | ⟨t, ht, hc⟩
    · exact absurd e (by decide)
    · exact (hclean t ht).2.2 hc
  have hdot : '.' ∈ txt := by
    rw [← htxt, hos]
    cases rest with
    | nil => simp [hos] at hlen
    | cons b r => rw [intercalate_cons_cons]; simp
  have hnil : (txt == []) = false := by
    cases txt with
    | nil => simp at hdot
    | cons _ _ => rfl
  have hlen4 : ¬ (os.length > 4) := by omega
  have hhead : (os ++ List.replicate (4 - os.length) ['0']).headD [] = o0 := by rw [hos]; simp
  unfold cidrAbbrevToVerbose
  simp only [hcol, hnil, Bool.or_self, Bool.false_eq_true, if_false, pyInt_dot _ hdot, splitSlash_none _ hsl,
    Bool.not_true, hsplit, hlen4, hhead, hpi, classful_of_range n hn]
  simp

/-- **Partial and classful IPv4 forms, at the full quantifier.**  Let `os` be one to four octet
    texts that `int()` reads (any spelling: "010", "+1", " 2", "1_0", …) as `ns`, all in
    0..255, `txt` = the texts joined by '.', `a` = the value with the missing octets zero.
    Version None or 4, any flags (`stored` clears the host bits under NOHOST):
    * `txt/T` for any prefix text `T` resolving to `q ≤ 32` (numeral, netmask, hostmask) builds
      `⟨4, a, q⟩`, with implicit_prefix False or True;
    * bare `txt`, implicit_prefix=False: `⟨4, a, 32⟩`;
    * bare `txt`, implicit_prefix=True: `⟨4, a, class prefix of the first octet⟩`. -/
theorem partial_forms (be : Backend) (os : List (List Char)) (ns : List Int) (h : Octets os ns)
    (pver : Option Nat) (hpver : pver = none ∨ pver = some 4) (fl : Nat) :
    let txt := ['.'].intercalate os
    let a := quadVal ns
    let c := classOf (ns.headD 0).toNat
    (∀ (T : List Char) (q : Nat) (i : Bool), T.contains '/' = false → resolvePrefix be 4 (some T) = .ok (q : Int) → q ≤ 32 →
      ipNetwork be (.str (txt ++ '/' :: T)) i pver fl = .ok ⟨4, stored 4 fl a q, q⟩) ∧
    ipNetwork be (.str txt) false pver fl = .ok ⟨4, a, 32⟩ ∧
    ipNetwork be (.str txt) true pver fl = .ok ⟨4, stored 4 fl a c, c⟩ := by
  intro txt a c
  obtain ⟨hns, hsp, hspec, ha, hcolon⟩ := octets_text os ns h
  obtain ⟨hm, hne, hlen, hr⟩ := h
  have hl := mapM_length _ _ _ hm
  refine ⟨?_, ?_, ?_⟩
  · intro T q i hT hres hq
    exact partial_net be txt a hns hspec T q hT hres hq pver hpver fl i
  · exact partial_bare_net be txt a hns hspec ha pver hpver fl
  · rw [ipNetwork_implicit]
    have hclean : ∀ o ∈ os, '.' ∉ o ∧ ':' ∉ o ∧ '/' ∉ o := by
      intro o ho
      obtain ⟨n, hn⟩ := mapM_all _ _ _ hm o ho
      exact pyInt_some_clean o n hn
    cases os with
    | nil => exact absurd rfl hne
    | cons o0 rest0 =>
      obtain ⟨n0, hp0⟩ := mapM_all _ _ _ hm o0 (by simp)
      have hhead : ns.headD 0 = n0 := by
        rw [List.mapM_cons, hp0] at hm
        cases hrest : rest0.mapM (Py.pyInt 10) with
        | none => simp [hrest] at hm
        | some r => simp [hrest] at hm; rw [← hm]; rfl
      have hn0 : 0 ≤ n0 ∧ n0 ≤ 255 := by
        apply hr
        rw [← hhead]
        cases ns with
        | nil => simp at hl
        | cons x _ => simp
      have hcc : c = classOf n0.toNat := by show classOf (ns.headD 0).toNat = _; rw [hhead]
      cases rest0 with
      | nil =>
        have hns1 : ns = [n0] := by
          rw [List.mapM_cons, hp0] at hm
          simp at hm; exact hm.symm
        have hv : n0.toNat * 16777216 < 2 ^ width 4 := by
          have : width 4 = 32 := rfl
          rw [this]; omega
        have htxt : txt = o0 := by show ['.'].intercalate [o0] = o0; simp [List.intercalate]
        have hq : a = n0.toNat * 16777216 := by
          show quadVal ns = _
          rw [hns1]; simp [quadVal]
        rw [htxt, abbrev_one o0 n0 hp0 hn0, hq, hcc]
        exact net_with_prefix_all be 4 (Or.inl rfl) _ hv _ _ (C03L.slash_not_in_dec _) (resolve_dec be 4 _)
          (classOf_le _) fl pver hpver false
      | cons o1 rest =>
        have hab := abbrev_many (o0 :: o1 :: rest) o0 (o1 :: rest) rfl hclean ⟨by simp, hlen⟩ n0 hp0 hn0
        show ipNetwork be (.str (cidrAbbrevToVerbose (['.'].intercalate (o0 :: o1 :: rest)))) false pver fl = _
        rw [hab, hcc]
        have hlen' : (txt.splitOn '.').length ≤ 4 := by rw [hsp]; exact hlen
        have hpad := addr4Spec_pad txt hlen'
        rw [hsp, hspec] at hpad
        have hP : (['.'].intercalate ((o0 :: o1 :: rest) ++ List.replicate (4 - (o0 :: o1 :: rest).length) ['0'])).contains '/' = false := by
          apply contains_false_of_not_mem
          intro hmem
          have := mem_padded txt (4 - (o0 :: o1 :: rest).length) '/'
          rw [hsp] at this
          rcases this hmem with e | e | e
          · exact C01.not_mem_of_contains_false hns e
          · exact absurd e (by decide)
          · exact absurd e (by decide)
        exact partial_net be _ a hP hpad _ _ (C03L.slash_not_in_dec _) (resolve_dec be 4 _) (classOf_le _) pver hpver fl false

/-- octet spellings `int()` reads: zero-padded, signed, spaced -/
example : Octets ["010".toList, "+1".toList, " 2".toList] [10, 1, 2] := by
  refine ⟨by decide, by decide, by decide, by decide⟩

example : ipNetwork .platform (.str "010.+1. 2/24".toList) false none 0 = .ok ⟨4, 0x0A010200, 24⟩ := by decide
example : ipNetwork .platform (.str "010.1".toList) true none 0 = .ok ⟨4, 0x0A010000, 8⟩ := by decide

/-- **A bare IPv4 text, exactly.**  With version 4 and implicit_prefix=False a text without '/'
    is accepted exactly when its '.'-pieces are at most four, each read by `int()`, each in
    0..255 (`addr4Spec`); the network is that address with prefix 32. -/
theorem bare4_accepts_iff (be : Backend) (txt : List Char) (h1 : txt.contains '/' = false) (fl : Nat) (n : Net) :
    ipNetwork be (.str txt) false (some 4) fl = .ok n ↔ ∃ a, addr4Spec txt = some a ∧ n = ⟨4, a, 32⟩ := by
  have h4 : VerOK 4 := Or.inl rfl
  rw [ipNetwork_str_some be txt false 4 h4, parse_nosplit be 4 txt fl h1]
  unfold liftNet
  constructor
  · intro h
    cases hp : parseStrCore be 4 txt none fl with
    | error e => rw [hp] at h; cases h
    | ok r =>
      obtain ⟨v, p⟩ := r
      rw [hp] at h
      simp only [Except.ok.injEq] at h
      obtain ⟨a, q, hap, hpp, _, rfl, rfl⟩ := (parseStrCore_iff be 4 h4 txt none fl h1 v p).mp hp
      have hspec := (addrPart4_iff be txt h1 a).mp hap
      have hq : p = 32 := by
        have : (p : Int) = (width 4 : Int) := hpp
        have hw : width 4 = 32 := rfl
        omega
      subst hq
      have ha : a < 2 ^ width 4 := by
        rw [addr4Spec_alt] at hspec
        cases hm : (txt.splitOn '.').mapM (Py.pyInt 10) with
        | none => simp [hm] at hspec
        | some ns =>
          simp only [hm] at hspec
          split at hspec
          · rename_i hc
            simp only [Option.some.injEq] at hspec
            have hnne : ns ≠ [] := by
              have hl := mapM_length _ _ _ hm
              have := List.splitOn_ne_nil '.' txt
              intro e0; subst e0
              cases hh : txt.splitOn '.' with
              | nil => exact this hh
              | cons _ _ => rw [hh] at hl; simp at hl
            rw [← hspec]; exact (join_in_range ns hnne hc.1 hc.2).2
          · cases hspec
      refine ⟨a, hspec, ?_⟩
      rw [← h]
      have := stored_full 4 fl a ha
      unfold stored at this
      show Net.mk 4 (if hasFlag fl NOHOST = true then a &&& netNetmask (width 4) (width 4) else a) 32 = _
      rw [this]
  · rintro ⟨a, hspec, rfl⟩
    have ha : a < 2 ^ 32 := by
      rw [addr4Spec_alt] at hspec
      cases hm : (txt.splitOn '.').mapM (Py.pyInt 10) with
      | none => simp [hm] at hspec
      | some ns =>
        simp only [hm] at hspec
        split at hspec
        · rename_i hc
          simp only [Option.some.injEq] at hspec
          have hnne : ns ≠ [] := by
            have hl := mapM_length _ _ _ hm
            have := List.splitOn_ne_nil '.' txt
            intro e0; subst e0
            cases hh : txt.splitOn '.' with
            | nil => exact this hh
            | cons _ _ => rw [hh] at hl; simp at hl
          rw [← hspec]; exact (join_in_range ns hnne hc.1 hc.2).2
        · cases hspec
    have := (parseStrCore_iff be 4 h4 txt none fl h1 a 32).mpr
      ⟨a, 32, (addrPart4_iff be txt h1 a).mpr hspec, rfl, Nat.le_refl _, rfl, (stored_full 4 fl a ha).symm⟩
    rw [this]

end NV.C03
