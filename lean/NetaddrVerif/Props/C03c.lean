/-
Props/C03c.lean — C03, third part: partial and classful IPv4 forms at the full quantifier
(1-4 octets, every octet spelling `int()` reads - zero-padded, signed, spaced, underscored -,
with and without a prefix part, implicit_prefix False and True, version None and 4, both flag
values), what a bare IPv4 text is exactly, and the rejections for arbitrary address parts.
-/
import NetaddrVerif.Props.C03b
namespace NV.C03
open NV NV.Text4 NV.AddrParse NV.NetParse NV.C01L NV.C03L NV.C03L.Acc NV.C03L.Abbrev

/-- `os` are one to four octet texts which `int()` reads as `ns`, every value in 0..255 -/
def Octets (os : List (List Char)) (ns : List Int) : Prop :=
  os.mapM (Py.pyInt 10) = some ns ∧ os ≠ [] ∧ os.length ≤ 4 ∧ InRange ns

theorem mapM_all {α β} (f : α → Option β) (l : List α) (r : List β) (h : l.mapM f = some r) :
    ∀ x ∈ l, ∃ y, f x = some y := by
  induction l generalizing r with
  | nil => intro x hx; simp at hx
  | cons a t ih =>
    rw [List.mapM_cons] at h
    cases ha : f a with
    | none => simp [ha] at h
    | some b =>
      cases ht : t.mapM f with
      | none => simp [ha, ht] at h
      | some r' =>
        intro x hx
        rcases List.mem_cons.mp hx with e | e
        · subst e; exact ⟨b, ha⟩
        · exact ih r' ht x e

theorem stored_full (ver fl a : Nat) (ha : a < 2 ^ width ver) : stored ver fl a (width ver) = a := by
  rw [stored_eq ver fl a _ ha (Nat.le_refl _)]
  split <;> simp

theorem classOf_le (o : Nat) : classOf o ≤ 32 := by
  unfold classOf; split <;> (try split) <;> (try split) <;> (try split) <;> omega

theorem ipNetwork_implicit (be : Backend) (s : List Char) (pver : Option Nat) (fl : Nat) :
    ipNetwork be (.str s) true pver fl = ipNetwork be (.str (cidrAbbrevToVerbose s)) false pver fl := by
  cases pver with
  | none => rw [ipNetwork_str_none, ipNetwork_str_none, parse_implicit, parse_implicit]
  | some ver =>
    by_cases hver : ver = 4 ∨ ver = 6
    · rw [ipNetwork_str_some be s true ver hver, ipNetwork_str_some be _ false ver hver, parse_implicit]
    · rw [bad_version_value be _ true ver fl (by omega) (Or.inl ⟨s, rfl⟩),
        bad_version_value be _ false ver fl (by omega) (Or.inl ⟨_, rfl⟩)]

/-- what the text of octet spellings looks like to the parser -/
theorem octets_text (os : List (List Char)) (ns : List Int) (h : Octets os ns) :
    (['.'].intercalate os).contains '/' = false ∧ (['.'].intercalate os).splitOn '.' = os ∧
      addr4Spec (['.'].intercalate os) = some (quadVal ns) ∧ quadVal ns < 2 ^ 32 ∧ ':' ∉ ['.'].intercalate os := by
  obtain ⟨hm, hne, hlen, hr⟩ := h
  have hclean : ∀ o ∈ os, '.' ∉ o ∧ ':' ∉ o ∧ '/' ∉ o := by
    intro o ho
    obtain ⟨n, hn⟩ := mapM_all _ _ _ hm o ho
    exact pyInt_some_clean o n hn
  have hsp : (['.'].intercalate os).splitOn '.' = os :=
    List.splitOn_intercalate _ (fun l hl => (hclean l hl).1) hne
  have hl := mapM_length _ _ _ hm
  have hnne : ns ≠ [] := by
    intro e; subst e
    cases os with
    | nil => exact hne rfl
    | cons _ _ => simp at hl
  refine ⟨?_, hsp, ?_, (join_in_range ns hnne (by omega) hr).2, ?_⟩
  · apply contains_false_of_not_mem
    intro hmem
    rcases mem_intercalate '.' _ '/' hmem with e | ⟨t, ht, hc⟩
    · exact absurd e (by decide)
    · exact (hclean t ht).2.2 hc
  · rw [addr4Spec_alt, hsp, hm]
    simp only
    rw [if_pos ⟨by omega, hr⟩]
  · intro hmem
    rcases mem_intercalate '.' _ ':' hmem with e | ⟨t, ht, hc⟩
    · exact absurd e (by decide)
    · exact (hclean t ht).2.1 hc

/-- a text whose IPv4 address part is `a`, followed by a prefix text resolving to `q` -/
theorem partial_net (be : Backend) (txt : List Char) (a : Nat) (h1 : txt.contains '/' = false)
    (hspec : addr4Spec txt = some a) (T : List Char) (q : Nat) (hT : T.contains '/' = false)
    (hres : resolvePrefix be 4 (some T) = .ok (q : Int)) (hq : q ≤ 32)
    (pver : Option Nat) (hpver : pver = none ∨ pver = some 4) (fl : Nat) (i : Bool) :
    ipNetwork be (.str (txt ++ '/' :: T)) i pver fl = .ok ⟨4, stored 4 fl a q, q⟩ := by
  have h4 : VerOK 4 := Or.inl rfl
  have hf : ipNetwork be (.str (txt ++ '/' :: T)) false pver fl = .ok ⟨4, stored 4 fl a q, q⟩ := by
    apply net_of_parse be 4 h4 _ _ _ _ _ pver hpver (fun h => absurd h (by decide))
    rw [parse_split be 4 txt T fl h1 hT]
    exact (parseStrCore_iff be 4 h4 txt (some T) fl h1 _ _).mpr
      ⟨a, q, (addrPart4_iff be txt h1 a).mpr hspec, (resolvePrefix_iff be 4 h4 _ _).mp hres, hq, rfl, rfl⟩
  cases i with
  | false => exact hf
  | true => rw [explicit_prefix_wins be _ (by simp) pver fl]; exact hf

/-- a bare text whose IPv4 address part is `a`, implicit_prefix=False: full width -/
theorem partial_bare_net (be : Backend) (txt : List Char) (a : Nat) (h1 : txt.contains '/' = false)
    (hspec : addr4Spec txt = some a) (ha : a < 2 ^ 32)
    (pver : Option Nat) (hpver : pver = none ∨ pver = some 4) (fl : Nat) :
    ipNetwork be (.str txt) false pver fl = .ok ⟨4, a, 32⟩ := by
  have h4 : VerOK 4 := Or.inl rfl
  apply net_of_parse be 4 h4 _ _ _ _ _ pver hpver (fun h => absurd h (by decide))
  rw [parse_nosplit be 4 txt fl h1]
  exact (parseStrCore_iff be 4 h4 txt none fl h1 _ _).mpr
    ⟨a, 32, (addrPart4_iff be txt h1 a).mpr hspec, rfl, Nat.le_refl _, rfl, (stored_full 4 fl a ha).symm⟩


/-! ### `cidr_abbrev_to_verbose` on bare octet texts -/

theorem classful_of_range (n : Int) (h : 0 ≤ n ∧ n ≤ 255) : classfulPrefix n = some (classOf n.toNat) := by
  rw [classful_rules, if_pos h]

/-- one octet text `o` read by `int()` as `n` in 0..255: `n.0.0.0/<class prefix of n>` -/
theorem abbrev_one (o : List Char) (n : Int) (hpi : Py.pyInt 10 o = some n) (hn : 0 ≤ n ∧ n ≤ 255) :
    cidrAbbrevToVerbose o = ntoa (n.toNat * 16777216) ++ '/' :: dec (classOf n.toNat) := by
  obtain ⟨_, hc, _⟩ := pyInt_some_clean o n hpi
  have hcol : o.contains ':' = false := contains_false_of_not_mem hc
  have hne : (o == []) = false := by
    cases o with
    | nil =>
      have : Py.pyInt 10 [] = none := by decide
      rw [this] at hpi; cases hpi
    | cons _ _ => rfl
  obtain ⟨hs, hlt⟩ := showInt_of_range n hn
  have htext : dec n.toNat ++ ".0.0.0/".toList ++ dec (classOf n.toNat) =
      ntoa (n.toNat * 16777216) ++ '/' :: dec (classOf n.toNat) := by
    have := ntoa_octs n.toNat 0 0 0 hlt (by decide) (by decide) (by decide)
    simp only [Nat.zero_mul, Nat.add_zero] at this
    rw [this]
    simp [List.intercalate, dec]
  unfold cidrAbbrevToVerbose
  simp only [hcol, hne, Bool.or_self, Bool.false_eq_true, if_false, hpi, classful_of_range n hn, hs]
  exact htext

/-- two to four '.'-separated pieces, the first read by `int()` as `n` in 0..255: pad with "0"
    pieces, append the class prefix of `n` -/
theorem abbrev_many (os : List (List Char)) (o0 : List Char) (rest : List (List Char)) (hos : os = o0 :: rest)
    (hclean : ∀ o ∈ os, '.' ∉ o ∧ ':' ∉ o ∧ '/' ∉ o) (hlen : 2 ≤ os.length ∧ os.length ≤ 4)
    (n : Int) (hpi : Py.pyInt 10 o0 = some n) (hn : 0 ≤ n ∧ n ≤ 255) :
    cidrAbbrevToVerbose (['.'].intercalate os) =
      ['.'].intercalate (os ++ List.replicate (4 - os.length) ['0']) ++ '/' :: dec (classOf n.toNat) := by
  have hne : os ≠ [] := by rw [hos]; simp
  have hsplit : (['.'].intercalate os).splitOn '.' = os :=
    List.splitOn_intercalate _ (fun l hl => (hclean l hl).1) hne
  generalize htxt : ['.'].intercalate os = txt at *
  have hmem : ∀ ch ∈ txt, ch = '.' ∨ ∃ t ∈ os, ch ∈ t := by
    intro ch hch
    rw [← htxt] at hch
    exact mem_intercalate '.' _ ch hch
  have hcol : txt.contains ':' = false := by
    apply contains_false_of_not_mem
    intro h; rcases hmem _ h with e | ⟨t, ht, hc⟩
    · exact absurd e (by decide)
    · exact (hclean t ht).2.1 hc
  have hsl : txt.contains '/' = false := by
    apply contains_false_of_not_mem
    intro h; rcases hmem _ h with e | ⟨t, ht, hc⟩
    · exact absurd e (by decide)
    · exact (hclean t ht).2.2 hc
  have hdot : '.' ∈ txt := by
    rw [← htxt, hos]
    cases rest with
    | nil => simp [hos] at hlen
    | cons b r => rw [intercalate_cons_cons]; simp
  have hnil : (txt == []) = false := by
    cases txt with
    | nil => simp at hdot
    | cons _ _ => rfl
  have hlen4 : ¬ (os.length > 4) := by omega
  have hhead : (os ++ List.replicate (4 - os.length) ['0']).headD [] = o0 := by rw [hos]; simp
  unfold cidrAbbrevToVerbose
  simp only [hcol, hnil, Bool.or_self, Bool.false_eq_true, if_false, pyInt_dot _ hdot, splitSlash_none _ hsl,
    Bool.not_true, hsplit, hlen4, hhead, hpi, classful_of_range n hn]
  simp

/-- **Partial and classful IPv4 forms, at the full quantifier.**  Let `os` be one to four octet
    texts that `int()` reads (any spelling: "010", "+1", " 2", "1_0", …) as `ns`, all in
    0..255, `txt` = the texts joined by '.', `a` = the value with the missing octets zero.
    Version None or 4, any flags (`stored` clears the host bits under NOHOST):
    * `txt/T` for any prefix text `T` resolving to `q ≤ 32` (numeral, netmask, hostmask) builds
      `⟨4, a, q⟩`, with implicit_prefix False or True;
    * bare `txt`, implicit_prefix=False: `⟨4, a, 32⟩`;
    * bare `txt`, implicit_prefix=True: `⟨4, a, class prefix of the first octet⟩`. -/
theorem partial_forms (be : Backend) (os : List (List Char)) (ns : List Int) (h : Octets os ns)
    (pver : Option Nat) (hpver : pver = none ∨ pver = some 4) (fl : Nat) :
    let txt := ['.'].intercalate os
    let a := quadVal ns
    let c := classOf (ns.headD 0).toNat
    (∀ (T : List Char) (q : Nat) (i : Bool), T.contains '/' = false → resolvePrefix be 4 (some T) = .ok (q : Int) → q ≤ 32 →
      ipNetwork be (.str (txt ++ '/' :: T)) i pver fl = .ok ⟨4, stored 4 fl a q, q⟩) ∧
    ipNetwork be (.str txt) false pver fl = .ok ⟨4, a, 32⟩ ∧
    ipNetwork be (.str txt) true pver fl = .ok ⟨4, stored 4 fl a c, c⟩ := by
  intro txt a c
  obtain ⟨hns, hsp, hspec, ha, hcolon⟩ := octets_text os ns h
  obtain ⟨hm, hne, hlen, hr⟩ := h
  have hl := mapM_length _ _ _ hm
  refine ⟨?_, ?_, ?_⟩
  · intro T q i hT hres hq
    exact partial_net be txt a hns hspec T q hT hres hq pver hpver fl i
  · exact partial_bare_net be txt a hns hspec ha pver hpver fl
  · rw [ipNetwork_implicit]
    have hclean : ∀ o ∈ os, '.' ∉ o ∧ ':' ∉ o ∧ '/' ∉ o := by
      intro o ho
      obtain ⟨n, hn⟩ := mapM_all _ _ _ hm o ho
      exact pyInt_some_clean o n hn
    cases os with
    | nil => exact absurd rfl hne
    | cons o0 rest0 =>
      obtain ⟨n0, hp0⟩ := mapM_all _ _ _ hm o0 (by simp)
      have hhead : ns.headD 0 = n0 := by
        rw [List.mapM_cons, hp0] at hm
        cases hrest : rest0.mapM (Py.pyInt 10) with
        | none => simp [hrest] at hm
        | some r => simp [hrest] at hm; rw [← hm]; rfl
      have hn0 : 0 ≤ n0 ∧ n0 ≤ 255 := by
        apply hr
        rw [← hhead]
        cases ns with
        | nil => simp at hl
        | cons x _ => simp
      have hcc : c = classOf n0.toNat := by show classOf (ns.headD 0).toNat = _; rw [hhead]
      cases rest0 with
      | nil =>
        have hns1 : ns = [n0] := by
          rw [List.mapM_cons, hp0] at hm
          simp at hm; exact hm.symm
        have hv : n0.toNat * 16777216 < 2 ^ width 4 := by
          have : width 4 = 32 := rfl
          rw [this]; omega
        have htxt : txt = o0 := by show ['.'].intercalate [o0] = o0; simp [List.intercalate]
        have hq : a = n0.toNat * 16777216 := by
          show quadVal ns = _
          rw [hns1]; simp [quadVal]
        rw [htxt, abbrev_one o0 n0 hp0 hn0, hq, hcc]
        exact net_with_prefix_all be 4 (Or.inl rfl) _ hv _ _ (C03L.slash_not_in_dec _) (resolve_dec be 4 _)
          (classOf_le _) fl pver hpver false
      | cons o1 rest =>
        have hab := abbrev_many (o0 :: o1 :: rest) o0 (o1 :: rest) rfl hclean ⟨by simp, hlen⟩ n0 hp0 hn0
        show ipNetwork be (.str (cidrAbbrevToVerbose (['.'].intercalate (o0 :: o1 :: rest)))) false pver fl = _
        rw [hab, hcc]
        have hlen' : (txt.splitOn '.').length ≤ 4 := by rw [hsp]; exact hlen
        have hpad := addr4Spec_pad txt hlen'
        rw [hsp, hspec] at hpad
        have hP : (['.'].intercalate ((o0 :: o1 :: rest) ++ List.replicate (4 - (o0 :: o1 :: rest).length) ['0'])).contains '/' = false := by
          apply contains_false_of_not_mem
          intro hmem
          have := mem_padded txt (4 - (o0 :: o1 :: rest).length) '/'
          rw [hsp] at this
          rcases this hmem with e | e | e
          · exact C01.not_mem_of_contains_false hns e
          · exact absurd e (by decide)
          · exact absurd e (by decide)
        exact partial_net be _ a hP hpad _ _ (C03L.slash_not_in_dec _) (resolve_dec be 4 _) (classOf_le _) pver hpver fl false

/-- octet spellings `int()` reads: zero-padded, signed, spaced -/
example : Octets ["010".toList, "+1".toList, " 2".toList] [10, 1, 2] := by
  refine ⟨by decide, by decide, by decide, by decide⟩

example : ipNetwork .platform (.str "010.+1. 2/24".toList) false none 0 = .ok ⟨4, 0x0A010200, 24⟩ := by decide
example : ipNetwork .platform (.str "010.1".toList) true none 0 = .ok ⟨4, 0x0A010000, 8⟩ := by decide

/-- **A bare IPv4 text, exactly.**  With version 4 and implicit_prefix=False a text without '/'
    is accepted exactly when its '.'-pieces are at most four, each read by `int()`, each in
    0..255 (`addr4Spec`); the network is that address with prefix 32. -/
theorem bare4_accepts_iff (be : Backend) (txt : List Char) (h1 : txt.contains '/' = false) (fl : Nat) (n : Net) :
    ipNetwork be (.str txt) false (some 4) fl = .ok n ↔ ∃ a, addr4Spec txt = some a ∧ n = ⟨4, a, 32⟩ := by
  have h4 : VerOK 4 := Or.inl rfl
  rw [ipNetwork_str_some be txt false 4 h4, parse_nosplit be 4 txt fl h1]
  unfold liftNet
  constructor
  · intro h
    cases hp : parseStrCore be 4 txt none fl with
    | error e => rw [hp] at h; cases h
    | ok r =>
      obtain ⟨v, p⟩ := r
      rw [hp] at h
      simp only [Except.ok.injEq] at h
      obtain ⟨a, q, hap, hpp, _, rfl, rfl⟩ := (parseStrCore_iff be 4 h4 txt none fl h1 v p).mp hp
      have hspec := (addrPart4_iff be txt h1 a).mp hap
      have hq : p = 32 := by
        have : (p : Int) = (width 4 : Int) := hpp
        have hw : width 4 = 32 := rfl
        omega
      subst hq
      have ha : a < 2 ^ width 4 := by
        rw [addr4Spec_alt] at hspec
        cases hm : (txt.splitOn '.').mapM (Py.pyInt 10) with
        | none => simp [hm] at hspec
        | some ns =>
          simp only [hm] at hspec
          split at hspec
          · rename_i hc
            simp only [Option.some.injEq] at hspec
            have hnne : ns ≠ [] := by
              have hl := mapM_length _ _ _ hm
              have := List.splitOn_ne_nil '.' txt
              intro e0; subst e0
              cases hh : txt.splitOn '.' with
              | nil => exact this hh
              | cons _ _ => rw [hh] at hl; simp at hl
            rw [← hspec]; exact (join_in_range ns hnne hc.1 hc.2).2
          · cases hspec
      refine ⟨a, hspec, ?_⟩
      rw [← h]
      have := stored_full 4 fl a ha
      unfold stored at this
      show Net.mk 4 (if hasFlag fl NOHOST = true then a &&& netNetmask (width 4) (width 4) else a) 32 = _
      rw [this]
  · rintro ⟨a, hspec, rfl⟩
    have ha : a < 2 ^ 32 := by
      rw [addr4Spec_alt] at hspec
      cases hm : (txt.splitOn '.').mapM (Py.pyInt 10) with
      | none => simp [hm] at hspec
      | some ns =>
        simp only [hm] at hspec
        split at hspec
        · rename_i hc
          simp only [Option.some.injEq] at hspec
          have hnne : ns ≠ [] := by
            have hl := mapM_length _ _ _ hm
            have := List.splitOn_ne_nil '.' txt
            intro e0; subst e0
            cases hh : txt.splitOn '.' with
            | nil => exact this hh
            | cons _ _ => rw [hh] at hl; simp at hl
          rw [← hspec]; exact (join_in_range ns hnne hc.1 hc.2).2
        · cases hspec
    have := (parseStrCore_iff be 4 h4 txt none fl h1 a 32).mpr
      ⟨a, 32, (addrPart4_iff be txt h1 a).mpr hspec, rfl, Nat.le_refl _, rfl, (stored_full 4 fl a ha).symm⟩
    rw [this]


/-! ### canonical decimal octets; a bare full address under both implicit_prefix values -/

theorem octets_dec (ds : List Nat) (hne : ds ≠ []) (hlen : ds.length ≤ 4) (hd : ∀ d ∈ ds, d < 256) :
    Octets (ds.map dec) (ds.map (fun d : Nat => (d : Int))) := by
  refine ⟨?_, by simpa using hne, by simpa using hlen, ?_⟩
  · clear hne hlen hd
    induction ds with
    | nil => rfl
    | cons d t ih => rw [List.map_cons, List.mapM_cons, pyInt_dec, ih]; rfl
  · intro n hn
    obtain ⟨d, hdm, rfl⟩ := List.mem_map.mp hn
    have := hd d hdm
    omega

/-- **Classful abbreviations, canonical octets, version None or 4, any flags**: `a`, `a.b`,
    `a.b.c` (and `a.b.c.d`) under implicit_prefix=True get the class prefix of `a`; the same
    texts with an explicit '/p' keep `p` whatever implicit_prefix says. -/
theorem classful_canonical (be : Backend) (ds : List Nat) (hne : ds ≠ []) (hlen : ds.length ≤ 4) (hd : ∀ d ∈ ds, d < 256)
    (pver : Option Nat) (hpver : pver = none ∨ pver = some 4) (fl : Nat) :
    let txt := ['.'].intercalate (ds.map dec)
    let a := quadVal (ds.map (fun d : Nat => (d : Int)))
    let c := classOf (ds.headD 0)
    ipNetwork be (.str txt) true pver fl = .ok ⟨4, stored 4 fl a c, c⟩ ∧
    ipNetwork be (.str txt) false pver fl = .ok ⟨4, a, 32⟩ ∧
    ∀ p i, p ≤ 32 → ipNetwork be (.str (txt ++ '/' :: dec p)) i pver fl = .ok ⟨4, stored 4 fl a p, p⟩ := by
  intro txt a c
  obtain ⟨h1, h2, h3⟩ := partial_forms be _ _ (octets_dec ds hne hlen hd) pver hpver fl
  have hc : c = classOf ((ds.map (fun d : Nat => (d : Int))).headD 0).toNat := by
    cases ds with
    | nil => exact absurd rfl hne
    | cons d _ => simp [c]
  refine ⟨?_, h2, ?_⟩
  · rw [hc]; exact h3
  · intro p i hp
    exact h1 (dec p) p i (C03L.slash_not_in_dec p) (resolve_dec be 4 p) hp

example : quadVal ([192, 168].map (fun d : Nat => (d : Int))) = 0xC0A80000 ∧ classOf ([192, 168].headD 0) = 24 := by decide

/-- **A bare address, every flags and implicit_prefix value.**  implicit_prefix=False: the full
    width (host bits there are none to clear).  implicit_prefix=True: an IPv6 text still gets 128;
    an IPv4 dotted quad gets the class prefix of its first octet, the value kept (host bits
    cleared under NOHOST).  An IPAddress copy gets the full width. -/
theorem bare_all (be : Backend) (ver : Nat) (hver : VerOK ver) (v : Nat) (hv : v < 2 ^ width ver)
    (pver : Option Nat) (hpver : pver = none ∨ pver = some ver) (fl : Nat) :
    ipNetwork be (.str (intToStr be ver v)) false pver fl = .ok ⟨ver, v, width ver⟩ ∧
    (ver = 6 → ipNetwork be (.str (intToStr be ver v)) true pver fl = .ok ⟨6, v, 128⟩) ∧
    (ver = 4 → ipNetwork be (.str (intToStr be ver v)) true pver fl =
      .ok ⟨4, stored 4 fl v (classOf (v / 16777216)), classOf (v / 16777216)⟩) ∧
    ∀ i, ipNetwork be (.copyAddr ⟨ver, v⟩) i pver fl = .ok ⟨ver, v, width ver⟩ := by
  have hfalse : ipNetwork be (.str (intToStr be ver v)) false pver fl = .ok ⟨ver, v, width ver⟩ := by
    apply net_of_parse be ver hver _ _ _ _ _ pver hpver
    · intro h6; subst h6
      have := parse4_v6text be v hv none (by intro t ht; cases ht) fl
      simpa using this
    · rw [parse_bare be ver hver v hv, applyNohost_ok ver hver fl v _ (Nat.le_refl _)]
      have := stored_full ver fl v hv
      unfold stored at this
      rw [this]
  refine ⟨hfalse, ?_, ?_, fun _ => rfl⟩
  · intro h6; subst h6
    rw [implicit_ignored_colon be _ (List.contains_iff_mem.mp (addr6_colon be v hv)) pver fl]
    exact hfalse
  · intro h4; subst h4
    have hw : width 4 = 32 := rfl
    rw [hw] at hv
    obtain ⟨h0, h1, h2, h3⟩ := octs_lt v hv
    have := (classful_canonical be [v / 16777216, v / 65536 % 256, v / 256 % 256, v % 256] (by simp) (by simp)
      (by intro d hd; simp at hd; rcases hd with e | e | e | e <;> subst e <;> assumption) pver hpver fl).1
    have htxt : ['.'].intercalate ([v / 16777216, v / 65536 % 256, v / 256 % 256, v % 256].map dec) = intToStr be 4 v := by
      show _ = ntoa v
      rw [ntoa_eq]; rfl
    have hq : quadVal ([v / 16777216, v / 65536 % 256, v / 256 % 256, v % 256].map (fun d : Nat => (d : Int))) = v := by
      simp only [quadVal, List.map_cons, List.map_nil, List.getD_cons_zero, List.getD_cons_succ, Int.toNat_natCast]
      exact octs_sum v
    rw [htxt, hq] at this
    exact this

example : classOf (0x0A010203 / 16777216) = 8 ∧ stored 4 NOHOST 0x0A010203 8 = 0x0A000000 := by decide


/-! ### rejections, for an arbitrary address part -/

/-- whatever the string branch does not accept is AddrFormatError -/
theorem core_not_ok (be : Backend) (ver : Nat) (hver : VerOK ver) (val1 : List Char) (val2 : Option (List Char)) (fl : Nat)
    (h1 : val1.contains '/' = false) (hno : ∀ t, val2 = some t → t.contains '/' = false)
    (h : ∀ v p, parseStrCore be ver val1 val2 fl ≠ .ok (v, p)) :
    parseStrCore be ver val1 val2 fl = .error .addrFormat := by
  cases hp : parseStrCore be ver val1 val2 fl with
  | ok r => obtain ⟨v, p⟩ := r; exact absurd hp (h v p)
  | error e => rw [core_err be ver hver val1 val2 fl e h1 hno hp]

/-- a numeral prefix outside `0..width` -/
theorem parse_reject_numeral (be : Backend) (ver : Nat) (hver : VerOK ver) (val1 T : List Char) (q : Int)
    (h1 : val1.contains '/' = false) (hq : Py.pyInt 10 T = some q) (hr : ¬ (0 ≤ q ∧ q ≤ (width ver : Int))) (fl : Nat) :
    parseIpNetwork be ver (.str (val1 ++ '/' :: T)) false fl = .error .addrFormat := by
  have hT : T.contains '/' = false := contains_false_of_not_mem (pyInt_some_clean T q hq).2.2
  rw [parse_split be ver val1 T fl h1 hT]
  apply core_not_ok be ver hver val1 (some T) fl h1 (by intro t ht; cases ht; exact hT)
  intro v p hp
  obtain ⟨a, q', _, hpp, hq', _, _⟩ := (parseStrCore_iff be ver hver val1 (some T) fl h1 v p).mp hp
  rcases hpp with e | ⟨m, p', hip, _, _, _⟩
  · rw [hq] at e
    simp only [Option.some.injEq] at e
    omega
  · rw [strict_pyInt_none be ver hver T _ hip] at hq; cases hq

/-- a text without ':' is no IPv6 network, whatever follows the '/' -/
theorem parse6_reject_nocolon (be : Backend) (val1 : List Char) (val2 : Option (List Char)) (h1 : val1.contains '/' = false)
    (hc : ':' ∉ val1) (fl : Nat) : parseStrCore be 6 val1 val2 fl = .error .addrFormat := by
  have h64 : ¬ ((6 : Nat) = 4) := by decide
  rw [parseStrCore_eq]
  unfold addrOf
  rw [strict6_nocolon be val1 h1 hc]
  simp only [h64, if_false]

/-- lifting: both `parse_ip_network` calls fail, or the one for the explicit version does -/
theorem net_reject_of_parse (be : Backend) (s : List Char) (i : Bool) (fl : Nat) (pver : Option Nat)
    (h : ∀ ver, (pver = none ∧ VerOK ver) ∨ pver = some ver → VerOK ver → parseIpNetwork be ver (.str s) i fl = .error .addrFormat)
    (hpver : pver = none ∨ pver = some 4 ∨ pver = some 6) :
    ipNetwork be (.str s) i pver fl = .error .addrFormat := by
  rcases hpver with e | e | e <;> subst e
  · rw [ipNetwork_str_none, h 4 (Or.inl ⟨rfl, Or.inl rfl⟩) (Or.inl rfl)]
    simp only
    rw [h 6 (Or.inl ⟨rfl, Or.inr rfl⟩) (Or.inr rfl)]
    rfl
  · rw [ipNetwork_str_some be s i 4 (Or.inl rfl), h 4 (Or.inr rfl) (Or.inl rfl)]; rfl
  · rw [ipNetwork_str_some be s i 6 (Or.inr rfl), h 6 (Or.inr rfl) (Or.inr rfl)]; rfl

/-- **A numeral prefix out of range is refused, whatever the address part.**  `T` is any text
    `int()` reads as `q` ("33", "-1", "+200", " 129", …), `val1` any '/'-free text at all;
    implicit_prefix False or True, any flags.  With version `ver`: `q ∉ 0..width` is
    AddrFormatError.  Without a version: `q ∉ 0..128` is AddrFormatError, and so is `q ∉ 0..32`
    when the address part has no ':' (it cannot be IPv6). -/
theorem rejects_numeral (be : Backend) (val1 T : List Char) (q : Int) (h1 : val1.contains '/' = false)
    (hq : Py.pyInt 10 T = some q) (i : Bool) (fl : Nat) :
    (∀ ver, VerOK ver → ¬ (0 ≤ q ∧ q ≤ (width ver : Int)) →
      ipNetwork be (.str (val1 ++ '/' :: T)) i (some ver) fl = .error .addrFormat) ∧
    (¬ (0 ≤ q ∧ q ≤ 128) → ipNetwork be (.str (val1 ++ '/' :: T)) i none fl = .error .addrFormat) ∧
    (':' ∉ val1 → ¬ (0 ≤ q ∧ q ≤ 32) → ipNetwork be (.str (val1 ++ '/' :: T)) i none fl = .error .addrFormat) := by
  have hT : T.contains '/' = false := contains_false_of_not_mem (pyInt_some_clean T q hq).2.2
  have w4 : (width 4 : Int) = 32 := rfl
  have w6 : (width 6 : Int) = 128 := rfl
  have red : ∀ pver, ipNetwork be (.str (val1 ++ '/' :: T)) i pver fl = ipNetwork be (.str (val1 ++ '/' :: T)) false pver fl := by
    intro pver
    cases i with
    | false => rfl
    | true => exact explicit_prefix_wins be _ (by simp) pver fl
  refine ⟨?_, ?_, ?_⟩
  · intro ver hver hr
    rw [red, ipNetwork_str_some be _ false ver hver, parse_reject_numeral be ver hver val1 T q h1 hq hr]; rfl
  · intro hr
    rw [red]
    apply net_reject_of_parse be _ false fl none _ (Or.inl rfl)
    intro ver _ hver
    apply parse_reject_numeral be ver hver val1 T q h1 hq
    rcases hver with e | e <;> subst e
    · rw [w4]; omega
    · rw [w6]; exact hr
  · intro hc hr
    rw [red]
    apply net_reject_of_parse be _ false fl none _ (Or.inl rfl)
    intro ver _ hver
    rcases hver with e | e <;> subst e
    · exact parse_reject_numeral be 4 (Or.inl rfl) val1 T q h1 hq (by rw [w4]; exact hr) fl
    · rw [parse_split be 6 val1 T fl h1 hT]
      exact parse6_reject_nocolon be val1 (some T) h1 hc fl

/-- **Negative and oversized decimal prefixes**: any text + '/' + a minus sign + the numeral of `n ≥ 1`, and
    `'<anything>/q'` with `q > 128` are AddrFormatError for version None, 4 and 6; `q > width`
    for that explicit version. -/
theorem rejects_decimal_prefix (be : Backend) (val1 : List Char) (h1 : val1.contains '/' = false)
    (pver : Option Nat) (hpver : pver = none ∨ pver = some 4 ∨ pver = some 6) (i : Bool) (fl : Nat) :
    (∀ n, 1 ≤ n → ipNetwork be (.str (val1 ++ '/' :: '-' :: dec n)) i pver fl = .error .addrFormat) ∧
    (∀ q, q > 128 → ipNetwork be (.str (val1 ++ '/' :: dec q)) i pver fl = .error .addrFormat) ∧
    (∀ ver q, VerOK ver → q > width ver → ipNetwork be (.str (val1 ++ '/' :: dec q)) i (some ver) fl = .error .addrFormat) := by
  have w4 : (width 4 : Int) = 32 := rfl
  have w6 : (width 6 : Int) = 128 := rfl
  refine ⟨?_, ?_, ?_⟩
  · intro n hn
    obtain ⟨r1, r2, _⟩ := rejects_numeral be val1 ('-' :: dec n) (-(n : Int)) h1 (pyInt_neg_dec n) i fl
    rcases hpver with e | e | e <;> subst e
    · exact r2 (by omega)
    · exact r1 4 (Or.inl rfl) (by omega)
    · exact r1 6 (Or.inr rfl) (by omega)
  · intro q hq
    obtain ⟨r1, r2, _⟩ := rejects_numeral be val1 (dec q) (q : Int) h1 (pyInt_dec q) i fl
    rcases hpver with e | e | e <;> subst e
    · exact r2 (by omega)
    · exact r1 4 (Or.inl rfl) (by rw [w4]; omega)
    · exact r1 6 (Or.inr rfl) (by rw [w6]; omega)
  · intro ver q hver hq
    exact (rejects_numeral be val1 (dec q) (q : Int) h1 (pyInt_dec q) i fl).1 ver hver (by omega)

example : Py.pyInt 10 "-1".toList = some (-1) ∧ Py.pyInt 10 " +200".toList = some 200 := by decide

/-- no family reads the text of a non-contiguous mask as a prefix part -/
theorem mask_text_no_prefix (be : Backend) (ver : Nat) (hver : VerOK ver) (m : Nat) (hm : m < 2 ^ width ver)
    (hn : isNetmask (width ver) m = false) (hh : isHostmask m = false) (ver' : Nat) (hver' : VerOK ver') (q : Int) :
    ¬ PrefixPart be ver' (some (intToStr be ver m)) q := by
  intro hpp
  rcases hpp with e | ⟨m', p, hip, hp, _, hmm⟩
  · rw [pyInt_addr be ver hver m hm] at e; cases e
  · by_cases hvv : ver' = ver
    · subst hvv
      rw [addr_rt be ver' hver m hm] at hip
      simp only [Except.ok.injEq, Addr.mk.injEq, true_and] at hip
      subst hip
      obtain ⟨_, _, hisn, hish, _⟩ := mask_facts ver' hver p hp
      rcases hmm with e | ⟨e, _, _⟩
      · rw [e, hisn] at hn; cases hn
      · rw [e, hish] at hh; cases hh
    · have hx : ipAddress be (intToStr be ver m) (some ver') INET_PTON = .error .addrFormat := by
        rcases hver with e | e <;> rcases hver' with e' | e' <;> subst e <;> subst e'
        · exact absurd rfl hvv
        · exact (C01.no_cross_family be INET_PTON).1 m hm
        · exact (C01.no_cross_family be INET_PTON).2 .compact m hm
        · exact absurd rfl hvv
      rw [hx] at hip; cases hip

/-- **A non-contiguous mask is refused, whatever the address part**: the text of a mask value
    that is neither a netmask nor a hostmask, after any '/'-free text, with version None or the
    mask's family, implicit_prefix False or True, any flags. -/
theorem rejects_bad_mask (be : Backend) (ver : Nat) (hver : VerOK ver) (val1 : List Char) (h1 : val1.contains '/' = false)
    (m : Nat) (hm : m < 2 ^ width ver) (hn : isNetmask (width ver) m = false) (hh : isHostmask m = false)
    (pver : Option Nat) (hpver : pver = none ∨ pver = some 4 ∨ pver = some 6) (i : Bool) (fl : Nat) :
    ipNetwork be (.str (val1 ++ '/' :: intToStr be ver m)) i pver fl = .error .addrFormat := by
  have hT := addr_noslash be ver hver m hm
  have red : ipNetwork be (.str (val1 ++ '/' :: intToStr be ver m)) i pver fl =
      ipNetwork be (.str (val1 ++ '/' :: intToStr be ver m)) false pver fl := by
    cases i with
    | false => rfl
    | true => exact explicit_prefix_wins be _ (by simp) pver fl
  rw [red]
  apply net_reject_of_parse be _ false fl pver _ hpver
  intro ver' _ hver'
  rw [parse_split be ver' val1 _ fl h1 hT]
  apply core_not_ok be ver' hver' val1 _ fl h1 (by intro t ht; cases ht; exact hT)
  intro v p hp
  obtain ⟨a, q', _, hpp, _, _, _⟩ := (parseStrCore_iff be ver' hver' val1 _ fl h1 v p).mp hp
  exact mask_text_no_prefix be ver hver m hm hn hh ver' hver' _ hpp

example : isNetmask 32 0xff00ff00 = false ∧ isHostmask 0xff00ff00 = false := by decide


/-! ### a malformed address part -/

/-- `cidr_abbrev_to_verbose` on a text without '/': unchanged; or one numeral in 0..255 expanded
    to `n.0.0.0/<class>`; or at most four '.'-pieces padded with "0" pieces and given the class
    prefix of the first -/
theorem abbrev_bare_cases (txt : List Char) (h1 : txt.contains '/' = false) :
    cidrAbbrevToVerbose txt = txt ∨
    (∃ n : Int, Py.pyInt 10 txt = some n ∧ (0 ≤ n ∧ n ≤ 255) ∧
      cidrAbbrevToVerbose txt = ntoa (n.toNat * 16777216) ++ '/' :: dec (classOf n.toNat)) ∨
    (Py.pyInt 10 txt = none ∧ ':' ∉ txt ∧ (txt.splitOn '.').length ≤ 4 ∧ ∃ c, c ≤ 32 ∧
      cidrAbbrevToVerbose txt =
        ['.'].intercalate (txt.splitOn '.' ++ List.replicate (4 - (txt.splitOn '.').length) ['0']) ++ '/' :: dec c) := by
  by_cases h0 : (txt.contains ':' || txt == []) = true
  · left; unfold cidrAbbrevToVerbose; rw [if_pos h0]
  · have hcol : ':' ∉ txt := by
      intro hmem
      apply h0
      rw [List.contains_iff_mem.mpr hmem]; rfl
    cases hpi : Py.pyInt 10 txt with
    | some n =>
      by_cases hn : 0 ≤ n ∧ n ≤ 255
      · right; left
        exact ⟨n, rfl, hn, abbrev_one txt n hpi hn⟩
      · left
        have hcls : classfulPrefix n = none := by rw [classful_rules, if_neg hn]
        unfold cidrAbbrevToVerbose
        rw [if_neg h0]
        simp only [hpi, hcls]
    | none =>
      unfold cidrAbbrevToVerbose
      rw [if_neg h0]
      simp only [hpi, splitSlash_none _ h1, Bool.not_true, Bool.false_eq_true, if_false]
      by_cases hl : (txt.splitOn '.').length > 4
      · left; rw [if_pos hl]
      · rw [if_neg hl]
        cases hh : Py.pyInt 10 ((txt.splitOn '.' ++ List.replicate (4 - (txt.splitOn '.').length) ['0']).headD []) with
        | none => left; rfl
        | some o =>
          simp only
          cases hc : classfulPrefix o with
          | none => left; rfl
          | some c =>
            right; right
            have hc32 : c ≤ 32 := by
              rw [classful_rules] at hc
              split at hc
              · simp only [Option.some.injEq] at hc; rw [← hc]; exact classOf_le _
              · cases hc
            refine ⟨trivial, hcol, by omega, c, hc32, ?_⟩
            simp

theorem core_reject_addr (be : Backend) (ver : Nat) (val1 : List Char) (val2 : Option (List Char)) (fl : Nat)
    (h : addrOf be ver val1 = .error .addrFormat) : parseStrCore be ver val1 val2 fl = .error .addrFormat := by
  rw [parseStrCore_eq, h]

/-- **A malformed address part is refused, whatever follows.**  `val1` is any '/'-free text
    that is neither an IPv4 address part (`addr4Spec`: at most four '.'-pieces, each read by
    `int()`, each in 0..255) nor accepted by `inet_pton(AF_INET6, ·)`.  Bare or followed by
    '/' and any text at all, version None / 4 / 6, implicit_prefix False or True, any flags:
    AddrFormatError. -/
theorem rejects_bad_address (be : Backend) (val1 : List Char) (h1 : val1.contains '/' = false)
    (h4 : addr4Spec val1 = none) (h6 : inetPton6 be val1 = none) (suffix : Option (List Char))
    (pver : Option Nat) (hpver : pver = none ∨ pver = some 4 ∨ pver = some 6) (i : Bool) (fl : Nat) :
    ipNetwork be (.str (val1 ++ (match suffix with | none => [] | some T => '/' :: T))) i pver fl = .error .addrFormat := by
  have a4 : addrOf be 4 val1 = .error .addrFormat := by rw [addr4_eq be val1 h1, h4]
  have a6 : addrOf be 6 val1 = .error .addrFormat := by
    have h64 : ¬ ((6 : Nat) = 4) := by decide
    unfold addrOf
    rw [ipAddress6_strict be val1 h1, h6]
    simp only [h64, if_false]
  have aa : ∀ ver, VerOK ver → addrOf be ver val1 = .error .addrFormat := by
    intro ver hver; rcases hver with e | e <;> subst e <;> assumption
  cases suffix with
  | some T =>
    simp only
    have red : ipNetwork be (.str (val1 ++ '/' :: T)) i pver fl = ipNetwork be (.str (val1 ++ '/' :: T)) false pver fl := by
      cases i with
      | false => rfl
      | true => exact explicit_prefix_wins be _ (by simp) pver fl
    rw [red]
    apply net_reject_of_parse be _ false fl pver _ hpver
    intro ver _ hver
    by_cases hT : T.contains '/' = true
    · unfold parseIpNetwork
      simp only [Bool.false_eq_true, if_false, splitSlash_app _ T h1, secondSlash, hT, if_true]
    · have hT' : T.contains '/' = false := by
        cases hh : T.contains '/' with
        | true => exact absurd hh hT
        | false => rfl
      rw [parse_split be ver val1 T fl h1 hT']
      exact core_reject_addr be ver val1 _ fl (aa ver hver)
  | none =>
    simp only [List.append_nil]
    have hfalse : ipNetwork be (.str val1) false pver fl = .error .addrFormat := by
      apply net_reject_of_parse be _ false fl pver _ hpver
      intro ver _ hver
      rw [parse_nosplit be ver val1 fl h1]
      exact core_reject_addr be ver val1 _ fl (aa ver hver)
    cases i with
    | false => exact hfalse
    | true =>
      rw [ipNetwork_implicit]
      rcases abbrev_bare_cases val1 h1 with e | ⟨n, hpi, hn, _⟩ | ⟨_, hcol, hlen, c, _, e⟩
      · rw [e]; exact hfalse
      · exfalso
        have hd := (pyInt_some_clean val1 n hpi).1
        rw [addr4Spec_alt, splitOn_single '.' val1 hd] at h4
        simp only [List.mapM_cons, List.mapM_nil, hpi, Option.bind_eq_bind, Option.bind_some, Option.pure_def] at h4
        have hr : InRange [n] := by
          intro x hx; simp only [List.mem_singleton] at hx; subst hx; exact hn
        have hl : [n].length ≤ 4 := by simp
        rw [if_pos ⟨hl, hr⟩] at h4
        cases h4
      · rw [e]
        have hX : (['.'].intercalate (val1.splitOn '.' ++ List.replicate (4 - (val1.splitOn '.').length) ['0'])).contains '/' = false := by
          apply contains_false_of_not_mem
          intro hmem
          rcases mem_padded val1 _ '/' hmem with r | r | r
          · exact C01.not_mem_of_contains_false h1 r
          · exact absurd r (by decide)
          · exact absurd r (by decide)
        apply net_reject_of_parse be _ false fl pver _ hpver
        intro ver _ hver
        rw [parse_split be ver _ _ fl hX (C03L.slash_not_in_dec c)]
        apply core_reject_addr
        rw [addrOf_pad be ver hver val1 h1 hcol hlen]
        exact aa ver hver

example : addr4Spec "1.2.3.256".toList = none ∧ inetPton6 .platform "1.2.3.256".toList = none ∧
    addr4Spec "1.2.3.4.5".toList = none ∧ addr4Spec "1..2".toList = none ∧ addr4Spec "0x10".toList = none := by decide


/-! ### `Spells`, unfolded per family -/

/-- IPv4: the address part is at most four '.'-pieces, each read by `int()`, each in 0..255
    (`addr4Spec`; a strict dotted quad is the special case) -/
theorem spells4_iff (be : Backend) (t : List Char) (a q : Nat) :
    Spells be 4 t a q ↔ secondSlash (splitSlash t).2 = false ∧ addr4Spec (splitSlash t).1 = some a ∧
      PrefixPart be 4 (splitSlash t).2 (q : Int) ∧ q ≤ 32 := by
  unfold Spells
  rw [addrPart4_iff be _ (splitSlash_fst t) a]
  rfl

theorem strict6_ok_iff (be : Backend) (x : List Char) (hx : x.contains '/' = false) (a : Nat) :
    ipAddress be x (some 6) INET_PTON = .ok ⟨6, a⟩ ↔ inetPton6 be x = some a := by
  rw [ipAddress6_strict be x hx]
  cases inetPton6 be x <;> simp

/-- IPv6: the address part is what `inet_pton(AF_INET6, ·)` accepts (RFC 4291 text, C01.strict6_iff) -/
theorem spells6_iff (be : Backend) (t : List Char) (a q : Nat) :
    Spells be 6 t a q ↔ secondSlash (splitSlash t).2 = false ∧ inetPton6 be (splitSlash t).1 = some a ∧
      PrefixPart be 6 (splitSlash t).2 (q : Int) ∧ q ≤ 128 := by
  unfold Spells
  rw [addrPart6_iff, strict6_ok_iff be _ (splitSlash_fst t)]
  rfl

example : PrefixPart .platform 4 (some "255.255.0.0".toList) 16 :=
  Or.inr ⟨0xffff0000, 16, by decide, by decide, rfl, Or.inl (by decide)⟩

example : (⟨6, 0xfe80 <<< 112 ||| 5, 64⟩ : Net).WF := by
  refine ⟨Or.inr rfl, by decide, by decide⟩

example : addr4Spec "010.1".toList = some 0x0A010000 ∧ addr4Spec "1.2.3.04".toList = some 0x01020304 := by decide

end NV.C03
