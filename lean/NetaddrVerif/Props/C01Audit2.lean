/-
Props/C01Audit2.lean — C01 theorems closing findings of audit round 2a
(audit/round2a-report.md, findings 7, 5, 22, 16, 19, 12).

* finding 7  — the CLASS of the exception a rejected address string raises.  `ipAddressRaw`
  (Model/AddrRaw.lean) lets the platform / runtime calls fail with their own exception classes and
  spells out the `try` / `except` clauses of the Python; `ipAddress_raw` proves that the
  `Err`-level `AddrParse.ipAddress` IS that model for every string, version, flags and every sane
  platform; `reject_class_raw` then is a statement that could fail (and does for the pre-fix shape
  of `str_to_int`: `prefix_shape_leaks`).
* finding 5  — `valid_str` transcribed on its own (`validStr4Raw`, `validStr6Raw`, run by the
  driver ops `valid4` / `valid6`) equals `validStr4/6`; `valid_iff_raw` carries `valid_iff` over.
* finding 22 — two independent back-end switches: `backend_irrelevant2`.
* finding 16 — `IPAddress.format(dialect)`: `format_spec`, `format_roundtrip`.
* finding 19 — `printed_is_quad`, `isQuad_functional`.
* finding 12 — C literals with the independent evaluator `C01G.numVal`: `isCLit_iff_numVal`,
  `aton_shorthand_numVal`, `shorthand_api_numVal`.
-/
import NetaddrVerif.Props.C01b
import NetaddrVerif.Lemmas.C01LRaw
namespace NV.C01A2
open NV NV.Text4 NV.AddrParse NV.AddrRaw NV.C01L NV.C01L.Raw

/-- decidable equality of results, for the `decide` examples below -/
local instance decEqExcept {ε α : Type} [DecidableEq ε] [DecidableEq α] : DecidableEq (Except ε α) := fun a b =>
  match a, b with
  | .ok x, .ok y => if h : x = y then isTrue (by rw [h]) else isFalse (by intro e; cases e; exact h rfl)
  | .error x, .error y => if h : x = y then isTrue (by rw [h]) else isFalse (by intro e; cases e; exact h rfl)
  | .ok _, .error _ => isFalse (by intro e; cases e)
  | .error _, .ok _ => isFalse (by intro e; cases e)

/-! ## finding 7: the error class is the work of the try/except structure -/

/-- **`str_to_int` of both modules**: on every platform whose calls succeed exactly where the
    `Option` models succeed and otherwise raise SOME `Exception` (OSError, ValueError,
    struct.error, TypeError, …), `except Exception: raise AddrFormatError` leaves exactly
    "the value or AddrFormatError". -/
theorem str_to_int_raw (P : RawPlatform) (hP : P.Sane) (be : Backend) (s : List Char) (fl : Nat) :
    strToInt4Raw P be s fl = liftR (strToInt4 be s fl) ∧ strToInt6Raw P be s fl = liftR (strToInt6 be s fl) :=
  ⟨strToInt4Raw_eq P hP be s fl, strToInt6Raw_eq P hP be s fl⟩

/-- **`IPAddress(str, version, flags)`: the existing model equals the raw-exception model**, for
    every string, every version argument, every flags value, both back ends and every sane
    platform: ValueError where `ipAddress` says `.value`, AddrFormatError where it says
    `.addrFormat`, the same address otherwise. -/
theorem ipAddress_raw (P : RawPlatform) (hP : P.Sane) (be : Backend) (s : List Char) (ver : Option Nat)
    (fl : Nat) : ipAddressRaw P be be s ver fl = liftR (ipAddress be s ver fl) := by
  rw [ipAddressRaw_eq P hP, ipAddress2_self]

/-- the same with the two back-end switches apart -/
theorem ipAddress_raw2 (P : RawPlatform) (hP : P.Sane) (be4 be6 : Backend) (s : List Char)
    (ver : Option Nat) (fl : Nat) : ipAddressRaw P be4 be6 s ver fl = liftR (ipAddress2 be4 be6 s ver fl) :=
  ipAddressRaw_eq P hP be4 be6 s ver fl

/-- the platform the driver runs (`std`: OSError from glibc, ValueError on an embedded NUL, from
    fbsocket and from `int()`) is sane -/
theorem std_sane : std.Sane := Raw.std_sane

/-- the hypotheses are satisfiable and the raw classes are really different ones: under the
    `try` the three calls fail with OSError / ValueError / ValueError -/
example : std.aton "bad".toList = .error .osError ∧ std.pyInt "0x10".toList = .error .valueError ∧
    std.pton6 .fallback "bad".toList = .error .valueError ∧
    std.pton4 .platform ['1', Char.ofNat 0] = .error .valueError ∧
    ipAddressRaw std .platform .fallback "bad".toList none 0 = .error .addrFormat := by decide

theorem liftR_ok {α : Type} (r : R α) (a : α) : liftR r = .ok a ↔ r = .ok a := by
  cases r with
  | ok b => simp [liftR]
  | error e => cases e <;> simp [liftR]

theorem liftR_error {α : Type} (r : R α) (x : Exn) (h : liftR r = .error x) :
    (x = .valueError ∧ r = .error .value) ∨ (x = .addrFormat ∧ ∃ e, r = .error e ∧ e ≠ .value) := by
  cases r with
  | ok b => cases h
  | error e => cases e <;> simp [liftR] at h <;> subst h <;> simp

/-- **Rejected ⇒ AddrFormatError, as a consequence of the code's structure.**  With a valid
    version argument and no '/', whatever the sane platform raises inside, the only exception
    that leaves `IPAddress(...)` is AddrFormatError. -/
theorem reject_class_raw (P : RawPlatform) (hP : P.Sane) (be4 be6 : Backend) (s : List Char)
    (ver : Option Nat) (fl : Nat) (x : Exn)
    (hver : ver = none ∨ ver = some 4 ∨ ver = some 6) (hs : s.contains '/' = false)
    (h : ipAddressRaw P be4 be6 s ver fl = .error x) : x = .addrFormat := by
  rw [ipAddressRaw_eq P hP] at h
  rcases liftR_error _ _ h with ⟨_, hv⟩ | ⟨hx, _⟩
  · exfalso
    unfold ipAddress2 at hv
    rcases hver with e | e | e <;> subst e <;> simp only [hs, Bool.false_eq_true, if_false] at hv
    · generalize strToInt4 be4 s fl = r4 at hv
      cases r4 with
      | ok v => cases hv
      | error e =>
        simp only at hv
        generalize strToInt6 be6 s fl = r6 at hv
        cases r6 <;> cases hv
    · have hv4 : ¬ ((4 : Nat) ≠ 4 ∧ (4 : Nat) ≠ 6) := by decide
      simp only [hv4, if_false] at hv
      generalize strToInt2 be4 be6 4 s fl = r at hv
      cases r <;> cases hv
    · have hv6 : ¬ ((6 : Nat) ≠ 4 ∧ (6 : Nat) ≠ 6) := by decide
      simp only [hv6, if_false] at hv
      generalize strToInt2 be4 be6 6 s fl = r at hv
      cases r <;> cases hv
  · exact hx

/-- a non-trivial instance: the observed platform (sane), mixed back ends, a text that glibc
    refuses with OSError and fbsocket with ValueError -/
example (x : Exn) (h : ipAddressRaw std .platform .fallback "1.2.3.4.5".toList none 0 = .error x) : x = .addrFormat :=
  reject_class_raw std std_sane _ _ _ none 0 x (Or.inl rfl) (by decide) h

example : ipAddressRaw std .platform .fallback "1.2.3.4.5".toList none 0 = .error .addrFormat ∧
    std.aton "1.2.3.4.5".toList = .error .osError ∧ std.pton6 .fallback "1.2.3.4.5".toList = .error .valueError := by
  decide

/-- ValueError leaves the constructor exactly for '/' or an invalid version (any platform) -/
theorem value_error_raw (P : RawPlatform) (hP : P.Sane) (be4 be6 : Backend) (s : List Char)
    (ver : Option Nat) (fl : Nat) :
    ipAddressRaw P be4 be6 s ver fl = .error .valueError ↔
      (s.contains '/' = true ∨ ∃ v, ver = some v ∧ v ≠ 4 ∧ v ≠ 6) := by
  constructor
  · intro h
    by_cases hs : s.contains '/' = true
    · exact Or.inl hs
    · right
      have hs' : s.contains '/' = false := by simpa using hs
      cases ver with
      | none => have := reject_class_raw P hP be4 be6 s none fl _ (Or.inl rfl) hs' h; cases this
      | some v =>
        by_cases h4 : v = 4
        · subst h4; have := reject_class_raw P hP be4 be6 s _ fl _ (Or.inr (Or.inl rfl)) hs' h; cases this
        · by_cases h6 : v = 6
          · subst h6; have := reject_class_raw P hP be4 be6 s _ fl _ (Or.inr (Or.inr rfl)) hs' h; cases this
          · exact ⟨v, rfl, h4, h6⟩
  · rintro (hs | ⟨v, rfl, h4, h6⟩)
    · rw [ipAddressRaw_eq P hP]
      unfold ipAddress2
      cases ver with
      | none => simp only [hs, if_true]; rfl
      | some v =>
        by_cases hv : v ≠ 4 ∧ v ≠ 6
        · simp only []; rw [if_pos hv]; rfl
        · simp only []; rw [if_neg hv, if_pos hs]; rfl
    · rw [ipAddressRaw_eq P hP]
      unfold ipAddress2
      simp only [h4, h6, ne_eq, not_false_eq_true, and_self, if_true]; rfl

/-- **The structure matters** (the pre-fix code is expressible and gives another class).  With
    the ZEROFILL rewrite in front of the `try`, as `str_to_int` stood before commit 9ff219d
    (`strToInt4RawPreFix`), `int('0x10')` raises ValueError outside every handler of
    `str_to_int`; with an explicit version 4 `except AddrFormatError` does not catch it and
    ValueError leaves the constructor; with version None the bare `except: continue` swallows
    it.  The present shape answers AddrFormatError in both cases. -/
theorem prefix_shape_leaks :
    strToInt4RawPreFix std .platform "0x10.1.1.1".toList ZEROFILL = .error .valueError ∧
    ipAddressRawOf (strToInt4RawPreFix std .platform) (strToInt6Raw std .platform) "0x10.1.1.1".toList (some 4) ZEROFILL
      = .error .valueError ∧
    ipAddressRawOf (strToInt4RawPreFix std .platform) (strToInt6Raw std .platform) "0x10.1.1.1".toList none ZEROFILL
      = .error .addrFormat ∧
    strToInt4Raw std .platform "0x10.1.1.1".toList ZEROFILL = .error .addrFormat ∧
    ipAddressRaw std .platform .platform "0x10.1.1.1".toList (some 4) ZEROFILL = .error .addrFormat := by
  decide

/-- the clauses are told apart: a platform whose `inet_pton(AF_INET6, ·)` is interrupted
    (a `BaseException` below no `Exception`) is not caught by `except Exception` in
    `str_to_int` nor by `except AddrFormatError` (explicit version), but by the bare `except:` of
    the detection loop and of `ipv6.valid_str`.  (Such a platform is not `Sane`.) -/
example :
    let P : RawPlatform := { std with pton6 := fun _ _ => .error .baseOnly }
    ipAddressRaw P .platform .platform "::1".toList (some 6) 0 = .error .baseOnly ∧
    ipAddressRaw P .platform .platform "::1".toList none 0 = .error .addrFormat ∧
    strToInt6Raw P .platform "::1".toList 0 = .error .baseOnly ∧
    validStr6Raw P .platform "::1".toList = .ok false := by decide

/-! ## finding 5: `valid_str` is its own copy of the statements -/

/-- **`valid_ipv4` / `valid_ipv6` as transcribed from their own source lines** (ipv4.py:96-111,
    ipv6.py:122-127; these are what the driver ops `valid4` / `valid6` run) equal the
    definitions of Model/AddrParse.lean on every sane platform — so `valid_iff`, `valid_iff_all`,
    `valid_empty`, `valid_differs` speak about them. -/
theorem valid_raw (P : RawPlatform) (hP : P.Sane) (be : Backend) (s : List Char) (fl : Nat) :
    validStr4Raw P be s fl = liftR (validStr4 be s fl) ∧ validStr6Raw P be s = liftR (validStr6 be s) :=
  ⟨validStr4Raw_eq P hP be s fl, validStr6Raw_eq P hP be s⟩

/-- `valid_iff` for the separately transcribed functions and the raw constructor: `valid_ipv4` /
    `valid_ipv6` answer True exactly when the constructor with that explicit version yields an
    address; the empty string raises AddrFormatError. -/
theorem valid_iff_raw (P : RawPlatform) (hP : P.Sane) (be4 be6 : Backend) (s : List Char) (fl : Nat)
    (hs : s ≠ []) (hns : s.contains '/' = false) :
    (validStr4Raw P be4 s fl = .ok true ↔ ∃ v, ipAddressRaw P be4 be6 s (some 4) fl = .ok ⟨4, v⟩) ∧
    (validStr6Raw P be6 s = .ok true ↔ ∃ v, ipAddressRaw P be4 be6 s (some 6) fl = .ok ⟨6, v⟩) ∧
    validStr4Raw P be4 [] fl = .error .addrFormat ∧ validStr6Raw P be6 [] = .error .addrFormat := by
  have hne : (s == []) = false := beq_eq_false_iff_ne.mpr hs
  have hv4 : ¬ ((4 : Nat) ≠ 4 ∧ (4 : Nat) ≠ 6) := by decide
  have hv6 : ¬ ((6 : Nat) ≠ 4 ∧ (6 : Nat) ≠ 6) := by decide
  have h64 : ¬ ((6 : Nat) = 4) := by decide
  refine ⟨?_, ?_, rfl, rfl⟩
  · rw [validStr4Raw_eq P hP, liftR_ok]
    simp only [ipAddressRaw_eq P hP, liftR_ok]
    unfold validStr4 ipAddress2
    simp only [hne, Bool.false_eq_true, if_false, hv4, hns, strToInt2, if_true]
    cases strToInt4 be4 s fl with
    | ok v => simp
    | error e => simp
  · rw [validStr6Raw_eq P hP, liftR_ok]
    simp only [ipAddressRaw_eq P hP, liftR_ok]
    unfold validStr6 ipAddress2
    simp only [hne, Bool.false_eq_true, if_false, hv6, hns, strToInt2, h64, strToInt6]
    cases inetPton6 be6 s with
    | some v => simp
    | none => simp

example : validStr4Raw std .fallback "192.0.2.1".toList INET_PTON = .ok true ∧
    validStr4Raw std .fallback "192.0.2.01".toList INET_PTON = .ok false ∧
    validStr4Raw std .platform "0x10.1".toList ZEROFILL = .ok false ∧
    validStr6Raw std .fallback "::1".toList = .ok true ∧ validStr6Raw std .platform "1".toList = .ok false := by
  decide

/-! ## finding 22: two import-time switches -/

/-- **The back ends are unobservable, each on its own**: the IPv4 choice (`sys.platform`) and the
    IPv6 choice (`socket.has_ipv6` …) are made independently at import time; none of the four
    combinations is visible through `IPAddress(...)` (value or error class), `valid_ipv4`,
    `valid_ipv6`, the printed text in any dialect — at the `Err` level and, on every sane
    platform, at the level of raw exception classes. -/
theorem backend_irrelevant2 (be4 be6 be4' be6' : Backend) :
    (∀ s ver fl, ipAddress2 be4 be6 s ver fl = ipAddress2 be4' be6' s ver fl) ∧
    (∀ P : RawPlatform, P.Sane → ∀ s ver fl,
      ipAddressRaw P be4 be6 s ver fl = ipAddressRaw P be4' be6' s ver fl) ∧
    (∀ P : RawPlatform, P.Sane → ∀ s fl, validStr4Raw P be4 s fl = validStr4Raw P be4' s fl) ∧
    (∀ P : RawPlatform, P.Sane → ∀ s, validStr6Raw P be6 s = validStr6Raw P be6' s) ∧
    (∀ d v, v < 2 ^ 128 → intToStr6 be6 d v = intToStr6 be6' d v) := by
  have e4 : ∀ b b' s fl, strToInt4 b s fl = strToInt4 b' s fl := by
    intro b b' s fl; cases b <;> cases b' <;> simp [strToInt4, inetPton4, fb_pton4_eq]
  have e6 : ∀ b b' s fl, strToInt6 b s fl = strToInt6 b' s fl := by
    intro b b' s fl; cases b <;> cases b' <;> simp [strToInt6, inetPton6, fb_pton6_eq]
  have ea : ∀ s ver fl, ipAddress2 be4 be6 s ver fl = ipAddress2 be4' be6' s ver fl := by
    intro s ver fl
    simp only [ipAddress2, strToInt2, e4 be4 be4', e6 be6 be6']
  refine ⟨ea, ?_, ?_, ?_, ?_⟩
  · intro P hP s ver fl; rw [ipAddressRaw_eq P hP, ipAddressRaw_eq P hP, ea]
  · intro P hP s fl
    rw [validStr4Raw_eq P hP, validStr4Raw_eq P hP]
    simp only [validStr4, e4 be4 be4']
  · intro P hP s
    rw [validStr6Raw_eq P hP, validStr6Raw_eq P hP]
    have : inetPton6 be6 s = inetPton6 be6' s := by
      cases be6 <;> cases be6' <;> simp [inetPton6, fb_pton6_eq]
    simp only [validStr6, this]
  · intro d v hv
    have := (C01.backend_irrelevant).2.1 d v hv
    cases be6 <;> cases be6' <;> simp [this]

example : ipAddress2 .fallback .platform "::ffff:1.2.3.4".toList none 0 = .ok ⟨6, 0xffff01020304⟩ ∧
    ipAddress2 .platform .fallback "1.2.3.4".toList none INET_PTON = .ok ⟨4, 0x01020304⟩ := by decide

/-! ## finding 16: `IPAddress.format(dialect)` -/

/-- **`ip.format(dialect)`** (ip/__init__.py:612-624), for every value in range:
    an object without `word_fmt` (other than None) raises TypeError, for IPv4 as for IPv6;
    otherwise an IPv4 address ignores the dialect and prints its dotted quad; an IPv6 address
    prints `None` as `ipv6_compact` (= `str(ip)`), each of the three dialect classes in its own
    form, and a dialect that has `word_fmt` but no `compact` attribute raises ValueError. -/
theorem format_spec (be6 : Backend) (v : Nat) :
    (∀ ver, ipFormat be6 ⟨ver, v⟩ .noWordFmt = .error .type_) ∧
    (∀ d, d ≠ .noWordFmt → ipFormat be6 ⟨4, v⟩ d = .ok (Text4.ntoa v)) ∧
    (∀ be4, ipFormat be6 ⟨4, v⟩ .none = .ok (intToStr be4 4 v)) ∧
    ipFormat be6 ⟨6, v⟩ .none = .ok (intToStr be6 6 v) ∧
    ipFormat be6 ⟨6, v⟩ .none = ipFormat be6 ⟨6, v⟩ (.dialect .compact) ∧
    (∀ d, ipFormat be6 ⟨6, v⟩ (.dialect d) = .ok (intToStr6 be6 d v)) ∧
    ipFormat be6 ⟨6, v⟩ .wordFmtOnly = .error .value := by
  refine ⟨?_, ?_, ?_, rfl, rfl, ?_, rfl⟩
  · intro ver; rfl
  · intro d hd; cases d <;> first | rfl | exact absurd rfl hd
  · intro be4; rfl
  · intro d; rfl

/-- what `format` returns parses back to the address (with version None or its own, every flags
    value < 4, both back ends, independently chosen), and the IPv6 back end does not show -/
theorem format_roundtrip (be4 be6 : Backend) (a : Addr) (ha : a.WF) (d : FmtArg) (t : List Char)
    (h : ipFormat be6 a d = .ok t) (ver : Option Nat) (hver : ver = none ∨ ver = some a.ver)
    (fl : Nat) (hfl : fl < 4) :
    ipAddress2 be4 be6 t ver fl = .ok a ∧ ∀ be6', ipFormat be6' a d = .ok t := by
  obtain ⟨av, v⟩ := a
  obtain ⟨hav, hv⟩ := ha
  simp only at hav hv hver
  have ea := (backend_irrelevant2 be4 be6 be6 be6).1
  rcases hav with e | e <;> subst e
  · have hv' : v < 2 ^ 32 := by simpa [width] using hv
    have ht : t = intToStr be6 4 v := by
      cases d <;> simp [ipFormat, FmtArg.hasWordFmt, intToStr] at h ⊢ <;> exact h.symm
    subst ht
    constructor
    · rw [ea, ipAddress2_self]; exact C01.roundtrip4 be6 v hv' ver hver fl hfl
    · intro be6'
      cases d <;> simp [ipFormat, FmtArg.hasWordFmt, intToStr] at h ⊢
  · have hv' : v < 2 ^ 128 := by simpa [width] using hv
    have h64 : ¬ ((6 : Nat) = 4) := by decide
    cases d with
    | none =>
      have ht : t = intToStr6 be6 .compact v := by
        simp [ipFormat, intToStr6Arg, h64] at h; exact h.symm
      subst ht
      refine ⟨by rw [ea, ipAddress2_self]; exact C01.roundtrip6 be6 .compact v hv' ver hver fl, ?_⟩
      intro be6'
      simp only [ipFormat, intToStr6Arg, h64, if_false, ne_eq, not_true_eq_false, false_and]
      rw [(backend_irrelevant2 be4 be6 be4 be6').2.2.2.2 .compact v hv']
    | dialect dd =>
      have ht : t = intToStr6 be6 dd v := by
        simp [ipFormat, intToStr6Arg, h64, FmtArg.hasWordFmt] at h; exact h.symm
      subst ht
      refine ⟨by rw [ea, ipAddress2_self]; exact C01.roundtrip6 be6 dd v hv' ver hver fl, ?_⟩
      intro be6'
      simp only [ipFormat, intToStr6Arg, h64, if_false, FmtArg.hasWordFmt, Bool.true_eq_false, and_false]
      rw [(backend_irrelevant2 be4 be6 be4 be6').2.2.2.2 dd v hv']
    | noWordFmt => simp [ipFormat, FmtArg.hasWordFmt] at h
    | wordFmtOnly => simp [ipFormat, intToStr6Arg, h64, FmtArg.hasWordFmt] at h

example : ipAddress2 .platform .fallback "0:0:0:0:0:ffff:102:304".toList (some 6) ZEROFILL = .ok ⟨6, 0xffff01020304⟩ :=
  (format_roundtrip .platform .fallback ⟨6, 0xffff01020304⟩ (by unfold Addr.WF width; decide) (.dialect .full) _
    (by decide) (some 6) (Or.inr rfl) ZEROFILL (by decide)).1

example : ipFormat .fallback ⟨6, 0xffff01020304⟩ (.dialect .full) = .ok "0:0:0:0:0:ffff:102:304".toList ∧
    ipFormat .fallback ⟨6, 1⟩ .none = .ok "::1".toList ∧
    ipFormat .platform ⟨4, 0xC0000201⟩ (.dialect .verbose) = .ok "192.0.2.1".toList ∧
    ipFormat .platform ⟨4, 0xC0000201⟩ .wordFmtOnly = .ok "192.0.2.1".toList ∧
    ipFormat .platform ⟨4, 0xC0000201⟩ .noWordFmt = .error .type_ ∧
    (⟨6, 0xffff01020304⟩ : Addr).WF := by
  refine ⟨by decide, by decide, by decide, by decide, by decide, ?_⟩
  unfold Addr.WF width; decide

/-! ## finding 19: the independent standard reading of a printed IPv4 text -/

/-- every printed IPv4 text is a standard dotted quad (four decimal octets 0-255 of 1-3 digits
    without leading zero, `C01G.IsQuad`) of the value printed: an independent standard parser
    reads the same value from it -/
theorem printed_is_quad (v : Nat) (hv : v < 2 ^ 32) : C01G.IsQuad (Text4.ntoa v) v :=
  (C01b.quad_iff_ntoa _ v).mpr ⟨hv, rfl⟩

/-- the dotted-quad grammar is unambiguous: a text has at most one value -/
theorem isQuad_functional (s : List Char) (v v' : Nat) (h : C01G.IsQuad s v) (h' : C01G.IsQuad s v') :
    v = v' := by
  have a := (C01b.inetPton4_iff_quad .platform s v).mpr h
  have b := (C01b.inetPton4_iff_quad .platform s v').mpr h'
  rw [a] at b; cases b; rfl

example : C01G.IsQuad (Text4.ntoa 0xC0000201) 0xC0000201 ∧ Text4.ntoa 0xC0000201 = "192.0.2.1".toList :=
  ⟨printed_is_quad _ (by decide), by decide⟩

/-! ## finding 12: C literals and BSD shorthand values with the independent evaluator

`C01L.IsCLit` takes the value of a literal from `Text4.ofBase` (a left fold with `hexVal`), the
evaluator the parser model itself runs.  Here the same grammar is stated with the positional
value `C01G.numVal` (`d₁·bⁿ⁻¹ + … + dₙ` over `C01G.digitVal`) and the digit classes of the
declarative grammar, and proved to be the same relation. -/

open NV.C01G in
/-- `0`..`7` -/
def IsOctDigit (c : Char) : Prop := '0' ≤ c ∧ c ≤ '7'

instance (c : Char) : Decidable (IsOctDigit c) := by unfold IsOctDigit; infer_instance

open NV.C01G in
/-- a C integer literal as `strtoul(·, ·, 0)` reads it (C11 6.4.4.1 without suffixes): decimal
    without leading zero, octal with leading `0`, hexadecimal with `0x` / `0X` and at least one
    digit — with its positional value -/
inductive IsCLitN : List Char → Nat → Prop
  | dec (c : Char) (r : List Char) (hc : IsDecDigit c) (h0 : c ≠ '0') (hr : ∀ x ∈ r, IsDecDigit x) :
      IsCLitN (c :: r) (numVal 10 (c :: r))
  | oct (r : List Char) (hr : ∀ x ∈ r, IsOctDigit x) : IsCLitN ('0' :: r) (numVal 8 r)
  | hex (x : Char) (r : List Char) (hx : x = 'x' ∨ x = 'X') (hne : r ≠ []) (hr : ∀ y ∈ r, IsHexDigit y) :
      IsCLitN ('0' :: x :: r) (numVal 16 r)

theorem isOct_iff (c : Char) : isOct c = true ↔ IsOctDigit c := by
  simp [isOct, IsOctDigit]

theorem numVal_zero_cons (b : Nat) (r : List Char) : C01G.numVal b ('0' :: r) = C01G.numVal b r := by
  have : C01G.digitVal '0' = 0 := by decide
  simp [C01G.numVal, this]

/-- **the two statements of "C literal with value" are the same relation** -/
theorem isCLit_iff_numVal (l : List Char) (v : Nat) : IsCLit l v ↔ IsCLitN l v := by
  constructor
  · intro h
    cases h with
    | dec c r hc h0 hr =>
      have hall : ∀ x ∈ c :: r, C01G.IsHexDigit x := by
        intro x hx
        rcases List.mem_cons.mp hx with e | e
        · subst e; exact C01G.isHex_of_isDec _ ((C01G.isDec_iff _).mp hc)
        · exact C01G.isHex_of_isDec _ ((C01G.isDec_iff _).mp (hr x e))
      rw [C01G.ofBase_eq_numVal 10 _ hall]
      exact IsCLitN.dec c r ((C01G.isDec_iff _).mp hc) h0 (fun x hx => (C01G.isDec_iff _).mp (hr x hx))
    | oct r hr =>
      have hall : ∀ x ∈ '0' :: r, C01G.IsHexDigit x := by
        intro x hx
        rcases List.mem_cons.mp hx with e | e
        · subst e; exact Or.inl (by decide)
        · exact (C01G.isHexC_iff _).mp (AtonG.hex_of_oct _ (hr x e))
      rw [C01G.ofBase_eq_numVal 8 _ hall, numVal_zero_cons]
      exact IsCLitN.oct r (fun x hx => (isOct_iff _).mp (hr x hx))
    | hex x r hx hne hr =>
      rw [C01G.ofBase_eq_numVal 16 r (fun y hy => (C01G.isHexC_iff _).mp (hr y hy))]
      exact IsCLitN.hex x r hx hne (fun y hy => (C01G.isHexC_iff _).mp (hr y hy))
  · intro h
    cases h with
    | dec c r hc h0 hr =>
      have hall : ∀ x ∈ c :: r, C01G.IsHexDigit x := by
        intro x hx
        rcases List.mem_cons.mp hx with e | e
        · subst e; exact C01G.isHex_of_isDec _ hc
        · exact C01G.isHex_of_isDec _ (hr x e)
      rw [← C01G.ofBase_eq_numVal 10 _ hall]
      exact IsCLit.dec c r ((C01G.isDec_iff _).mpr hc) h0 (fun x hx => (C01G.isDec_iff _).mpr (hr x hx))
    | oct r hr =>
      have hr' : ∀ x ∈ r, isOct x = true := fun x hx => (isOct_iff _).mpr (hr x hx)
      have hall : ∀ x ∈ '0' :: r, C01G.IsHexDigit x := by
        intro x hx
        rcases List.mem_cons.mp hx with e | e
        · subst e; exact Or.inl (by decide)
        · exact (C01G.isHexC_iff _).mp (AtonG.hex_of_oct _ (hr' x e))
      rw [← numVal_zero_cons, ← C01G.ofBase_eq_numVal 8 _ hall]
      exact IsCLit.oct r hr'
    | hex x r hx hne hr =>
      rw [← C01G.ofBase_eq_numVal 16 r hr]
      exact IsCLit.hex x r hx hne (fun y hy => (C01G.isHexC_iff _).mpr (hr y hy))

example : IsCLitN "0x7f".toList 127 ∧ IsCLitN "010".toList 8 ∧ IsCLitN "65535".toList 65535 ∧ IsCLitN "0".toList 0 :=
  ⟨IsCLitN.hex 'x' "7f".toList (Or.inl rfl) (by decide) (by decide),
   IsCLitN.oct "10".toList (by decide),
   IsCLitN.dec '6' "5535".toList (by decide) (by decide) (by decide),
   IsCLitN.oct [] (by decide)⟩

/-- **BSD shorthand (default mode), values by the independent evaluator**: `C01.aton_shorthand`
    with the parts' values given by `numVal` over the declarative literal grammar -/
theorem aton_shorthand_numVal (l0 l1 l2 l3 : List Char) (a b c d : Nat)
    (h0 : IsCLitN l0 a) (h1 : IsCLitN l1 b) (h2 : IsCLitN l2 c) (h3 : IsCLitN l3 d) :
    (a ≤ 0xffffffff → Text4.aton l0 = some a) ∧
    (a > 0xffffffff → Text4.aton l0 = none) ∧
    (a ≤ 255 → b ≤ 0xffffff → Text4.aton (l0 ++ '.' :: l1) = some (a * 16777216 + b)) ∧
    (a ≤ 255 → b > 0xffffff → Text4.aton (l0 ++ '.' :: l1) = none) ∧
    (a ≤ 255 → b ≤ 255 → c ≤ 0xffff → Text4.aton (l0 ++ '.' :: (l1 ++ '.' :: l2)) = some (a * 16777216 + b * 65536 + c)) ∧
    (a ≤ 255 → b ≤ 255 → c > 0xffff → Text4.aton (l0 ++ '.' :: (l1 ++ '.' :: l2)) = none) ∧
    (a ≤ 255 → b ≤ 255 → c ≤ 255 → d ≤ 255 →
      Text4.aton (l0 ++ '.' :: (l1 ++ '.' :: (l2 ++ '.' :: l3))) = some (a * 16777216 + b * 65536 + c * 256 + d)) ∧
    (a ≤ 255 → b ≤ 255 → c ≤ 255 → d > 255 → Text4.aton (l0 ++ '.' :: (l1 ++ '.' :: (l2 ++ '.' :: l3))) = none) ∧
    (a > 255 → ∀ r, Text4.aton (l0 ++ '.' :: r) = none) :=
  C01.aton_shorthand l0 l1 l2 l3 a b c d ((isCLit_iff_numVal _ _).mpr h0) ((isCLit_iff_numVal _ _).mpr h1)
    ((isCLit_iff_numVal _ _).mpr h2) ((isCLit_iff_numVal _ _).mpr h3)

/-- the dotted body of an `inet_aton` text (`AtonG.Body`) over `IsCLitN` -/
inductive BodyN : List Char → Nat → Prop
  | one (l0 : List Char) (a : Nat) (h0 : IsCLitN l0 a) (ha : a ≤ 0xffffffff) : BodyN l0 a
  | two (l0 l1 : List Char) (a b : Nat) (h0 : IsCLitN l0 a) (h1 : IsCLitN l1 b)
      (ha : a ≤ 255) (hb : b ≤ 0xffffff) : BodyN (l0 ++ '.' :: l1) (a * 16777216 + b)
  | three (l0 l1 l2 : List Char) (a b c : Nat) (h0 : IsCLitN l0 a) (h1 : IsCLitN l1 b) (h2 : IsCLitN l2 c)
      (ha : a ≤ 255) (hb : b ≤ 255) (hc : c ≤ 0xffff) :
      BodyN (l0 ++ '.' :: (l1 ++ '.' :: l2)) (a * 16777216 + b * 65536 + c)
  | four (l0 l1 l2 l3 : List Char) (a b c d : Nat) (h0 : IsCLitN l0 a) (h1 : IsCLitN l1 b) (h2 : IsCLitN l2 c)
      (h3 : IsCLitN l3 d) (ha : a ≤ 255) (hb : b ≤ 255) (hc : c ≤ 255) (hd : d ≤ 255) :
      BodyN (l0 ++ '.' :: (l1 ++ '.' :: (l2 ++ '.' :: l3))) (a * 16777216 + b * 65536 + c * 256 + d)

theorem body_iff_numVal (s : List Char) (v : Nat) : AtonG.Body s v ↔ BodyN s v := by
  constructor
  · intro h
    cases h with
    | one _ _ h0 ha => exact .one _ _ ((isCLit_iff_numVal _ _).mp h0) ha
    | two l0 l1 a b h0 h1 ha hb => exact .two l0 l1 a b ((isCLit_iff_numVal _ _).mp h0) ((isCLit_iff_numVal _ _).mp h1) ha hb
    | three l0 l1 l2 a b c h0 h1 h2 ha hb hc =>
      exact .three l0 l1 l2 a b c ((isCLit_iff_numVal _ _).mp h0) ((isCLit_iff_numVal _ _).mp h1)
        ((isCLit_iff_numVal _ _).mp h2) ha hb hc
    | four l0 l1 l2 l3 a b c d h0 h1 h2 h3 ha hb hc hd =>
      exact .four l0 l1 l2 l3 a b c d ((isCLit_iff_numVal _ _).mp h0) ((isCLit_iff_numVal _ _).mp h1)
        ((isCLit_iff_numVal _ _).mp h2) ((isCLit_iff_numVal _ _).mp h3) ha hb hc hd
  · intro h
    cases h with
    | one _ _ h0 ha => exact .one _ _ ((isCLit_iff_numVal _ _).mpr h0) ha
    | two l0 l1 a b h0 h1 ha hb => exact .two l0 l1 a b ((isCLit_iff_numVal _ _).mpr h0) ((isCLit_iff_numVal _ _).mpr h1) ha hb
    | three l0 l1 l2 a b c h0 h1 h2 ha hb hc =>
      exact .three l0 l1 l2 a b c ((isCLit_iff_numVal _ _).mpr h0) ((isCLit_iff_numVal _ _).mpr h1)
        ((isCLit_iff_numVal _ _).mpr h2) ha hb hc
    | four l0 l1 l2 l3 a b c d h0 h1 h2 h3 ha hb hc hd =>
      exact .four l0 l1 l2 l3 a b c d ((isCLit_iff_numVal _ _).mpr h0) ((isCLit_iff_numVal _ _).mpr h1)
        ((isCLit_iff_numVal _ _).mpr h2) ((isCLit_iff_numVal _ _).mpr h3) ha hb hc hd

/-- **`inet_aton` = the BSD shorthand grammar with independently evaluated parts**, for every
    string: no NUL, a body of 1-4 C literals (`BodyN`, values by `numVal`), then nothing or one
    C-locale whitespace character followed by anything -/
theorem aton_iff_numVal (s : List Char) (v : Nat) :
    Text4.aton s = some v ↔
      Char.ofNat 0 ∉ s ∧ ∃ body tail, s = body ++ tail ∧ BodyN body v ∧ AtonG.Tail tail := by
  rw [AtonG.aton_iff]
  unfold AtonG.AtonText
  constructor
  · rintro ⟨h0, body, tail, e, hb, ht⟩; exact ⟨h0, body, tail, e, (body_iff_numVal _ _).mp hb, ht⟩
  · rintro ⟨h0, body, tail, e, hb, ht⟩; exact ⟨h0, body, tail, e, (body_iff_numVal _ _).mpr hb, ht⟩

/-- **BSD shorthand at the constructor (default mode)**, `C01b.shorthand_api` over `BodyN` -/
theorem shorthand_api_numVal (be : Backend) (body : List Char) (v : Nat) (hb : BodyN body v) (ver : Option Nat)
    (hver : ver = none ∨ ver = some 4) (fl : Nat) (h : C01b.DefaultMode fl) :
    ipAddress be body ver fl = .ok ⟨4, v⟩ :=
  C01b.shorthand_api be body v ((body_iff_numVal _ _).mpr hb) ver hver fl h

example : BodyN "0x7f.1".toList 0x7f000001 :=
  BodyN.two "0x7f".toList "1".toList 127 1 (IsCLitN.hex 'x' "7f".toList (Or.inl rfl) (by decide) (by decide))
    (IsCLitN.dec '1' [] (by decide) (by decide) (by decide)) (by decide) (by decide)

end NV.C01A2
