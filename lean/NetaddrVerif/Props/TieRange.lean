/-
Props/TieRange.lean — translation tie for `iprange_to_cidrs` (C05; `IPRange.cidrs()`,
`glob_to_cidrs`, `IPSet.add(IPRange)` are built on it): the CURRENT source text — the call of
`spanning_cidr([start, end])`, the two trimming steps through `cidr_partition(...)[2]` /
`[0]`, `cidr_list.pop()`, `+=`, `append` — translated by `harness/pytrans.py` equals
`iprangeToCidrs` of `Model/Cidr.lean`, and raises IndexError exactly when `pop()` would meet an
empty list (which `after_nonempty`-style lemmas of C05 show cannot happen; stated here as the
explicit side condition).
-/
import NetaddrVerif.Gen.Trans
import NetaddrVerif.Props.TieCidr
import NetaddrVerif.Props.TieSpan
import NetaddrVerif.Lemmas.C09L
import NetaddrVerif.Lemmas.C05LSpan
import NetaddrVerif.Props.C09
namespace NV.Tie
open NV NV.Trans

theorem span_plen (w lo hi : Nat) : ∀ p ipnum, (spanLoop w lo hi p ipnum).plen ≤ p := by
  intro p
  induction p with
  | zero => intro ipnum; simp [spanLoop]
  | succ p ih =>
    intro ipnum
    rw [spanLoop]
    split
    · exact Nat.le_succ_of_le (ih _)
    · simp

theorem part_after_plen (w : Nat) (t e : Pfx) (ht : t.plen ≤ w) (he : e.plen ≤ w) :
    ∀ b ∈ (cidrPartition w t e).2.2, b.plen ≤ w := by
  intro b hb
  unfold cidrPartition at hb
  split at hb
  · simp [Pfx.cidr] at hb; rw [hb]; exact ht
  · split at hb
    · simp at hb
    · split at hb
      · simp at hb
      · simp only [List.mem_reverse] at hb
        exact ((C09L.partLoop_plen w (e.first w) e.plen he 0 _ _ _ _ [] [] rfl (Nat.zero_le _)
          (by simp) (by simp)).2 b hb).2

theorem liftL_getLast (ver : Nat) (l : List Pfx) : (liftL ver l).getLast? = l.getLast?.map (liftP ver) := by
  simp [liftL, List.getLast?_map]

theorem liftL_dropLast (ver : Nat) (l : List Pfx) : (liftL ver l).dropLast = liftL ver l.dropLast := by
  simp [liftL, List.map_dropLast]

/-- `spanning_cidr([start, end])` in the model's terms -/
def spanOf2 (w : Nat) (s e : Pfx) : Pfx :=
  spanningOf w (min (s.first w) (e.first w)) (max (s.last w) (e.last w))

theorem spanning2 (w : Nat) (s e : Pfx) : spanningCidr w [s, e] = .ok (spanOf2 w s e) := by
  simp [spanningCidr, spanOf2]

theorem spanOf2_plen (w : Nat) (s e : Pfx) : (spanOf2 w s e).plen ≤ w := by
  unfold spanOf2 spanningOf; exact span_plen _ _ _ _ _

/-- the second trimming step, on a block `c` of the model -/
def trimTop (w hi : Nat) (pre : List Pfx) (c : Pfx) : List Pfx :=
  if c.last w > hi then pre ++ (cidrPartition w c ⟨hi + 1, w⟩).1 else pre ++ [c]

theorem iprangeToCidrs_unfold (w : Nat) (s e : Pfx) :
    iprangeToCidrs w s e =
      (if (spanOf2 w s e).first w < s.first w then
        trimTop w (e.last w) ((cidrPartition w (spanOf2 w s e) ⟨s.first w - 1, w⟩).2.2).dropLast
          (((cidrPartition w (spanOf2 w s e) ⟨s.first w - 1, w⟩).2.2).getLast?.getD (spanOf2 w s e))
      else trimTop w (e.last w) [] (spanOf2 w s e)) := by
  unfold iprangeToCidrs trimTop spanOf2
  simp only []
  split <;> rfl

/-- the tail of the translated function after `cidr_span` is fixed -/
theorem trim_top_trans (ver : Nat) (hi : Nat) (pre : List Pfx) (c : Pfx) (hc : c.plen ≤ width ver) :
    (if (IPNetwork_last (((ver : Nat) : Int)).toNat (c.val : Int) (c.plen : Int)) > (hi : Int) then
        (.ok (liftL ver pre ++ (cidr_partition (((ver : Nat) : Int)).toNat (c.val : Int) (c.plen : Int)
          (((ver : Nat) : Int)).toNat ((hi : Int) + 1) ((width ver : Nat) : Int)).1) : R (List (Int × Int × Int)))
      else .ok (liftL ver pre ++ [((c.val : Int), (c.plen : Int), (ver : Int))]))
      = .ok (liftL ver (trimTop (width ver) hi pre c)) := by
  simp only [Int.toNat_natCast]
  rw [net_last ver c.val c.plen hc]
  have e1 : ((hi : Int) + 1) = ((hi + 1 : Nat) : Int) := by push_cast; rfl
  rw [e1]
  have hp := cidr_partition_eq ver c ⟨hi + 1, width ver⟩ hc (Nat.le_refl _)
  simp only [] at hp
  rw [hp]
  unfold trimTop Pfx.last
  by_cases h : netLast (width ver) c.val c.plen > hi
  · have h' : ((netLast (width ver) c.val c.plen : Nat) : Int) > (hi : Int) := by omega
    simp only [h, h', ↓reduceIte]
    simp [liftL]
  · have h' : ¬ (((netLast (width ver) c.val c.plen : Nat) : Int) > (hi : Int)) := by omega
    simp only [h, h', ↓reduceIte]
    simp [liftL, liftP]

/-- `iprange_to_cidrs(start, end)` for two networks of one family: the translated source text IS
    `iprangeToCidrs`, and raises IndexError exactly when `cidr_list.pop()` meets an empty list -/
theorem iprange_to_cidrs_eq (ver : Nat) (s e : Pfx) (hs : s.plen ≤ width ver) (he : e.plen ≤ width ver) :
    iprange_to_cidrs ver (s.val : Int) (s.plen : Int) ver (e.val : Int) (e.plen : Int) =
      if (spanOf2 (width ver) s e).first (width ver) < s.first (width ver) ∧
          (cidrPartition (width ver) (spanOf2 (width ver) s e) ⟨s.first (width ver) - 1, width ver⟩).2.2 = []
      then .error .index
      else .ok (liftL ver (iprangeToCidrs (width ver) s e)) := by
  have hsp : spanning_cidr [(ver, (s.val : Int), (s.plen : Int)), (ver, (e.val : Int), (e.plen : Int))]
      = .ok (((spanOf2 (width ver) s e).val : Int), ((spanOf2 (width ver) s e).plen : Int), (ver : Int)) := by
    have := spanning_cidr_eq ver [s, e] (by intro b hb; simp at hb; rcases hb with h | h <;> simp [h, hs, he])
    rw [spanning2] at this
    simpa [liftN] using this
  have hcp := spanOf2_plen (width ver) s e
  generalize hspan : spanOf2 (width ver) s e = span at hsp hcp ⊢
  unfold iprange_to_cidrs
  simp only [hsp, Int.toNat_natCast]
  rw [net_first ver s.val s.plen hs, net_last ver e.val e.plen he, net_first ver span.val span.plen hcp,
    iprangeToCidrs_unfold, hspan]
  simp only [Pfx.first, Pfx.last]
  by_cases h1 : netFirst (width ver) span.val span.plen < netFirst (width ver) s.val s.plen
  · have h1' : ((netFirst (width ver) span.val span.plen : Nat) : Int) < ((netFirst (width ver) s.val s.plen : Nat) : Int) := by omega
    simp only [h1, h1', ↓reduceIte, true_and]
    have e1 : ((netFirst (width ver) s.val s.plen : Nat) : Int) - 1 = ((netFirst (width ver) s.val s.plen - 1 : Nat) : Int) := by omega
    rw [e1]
    have hp := cidr_partition_eq ver span ⟨netFirst (width ver) s.val s.plen - 1, width ver⟩ hcp (Nat.le_refl _)
    simp only [] at hp
    rw [hp]
    simp only [liftL_getLast, liftL_dropLast]
    generalize hL : (cidrPartition (width ver) span ⟨netFirst (width ver) s.val s.plen - 1, width ver⟩).2.2 = L
    cases hg : L.getLast? with
    | none =>
      have : L = [] := List.getLast?_eq_none_iff.mp hg
      simp [this]
    | some last =>
      have hne : L ≠ [] := by intro h; simp [h] at hg
      have hmem : last ∈ L := List.mem_of_getLast? hg
      have hlp : last.plen ≤ width ver := by
        rw [← hL] at hmem
        exact part_after_plen (width ver) span _ hcp (Nat.le_refl _) last hmem
      simp only [hne, Option.map_some, liftP, ↓reduceIte, Option.getD_some]
      exact trim_top_trans ver (netLast (width ver) e.val e.plen) L.dropLast last hlp
  · have h1' : ¬ (((netFirst (width ver) span.val span.plen : Nat) : Int) < ((netFirst (width ver) s.val s.plen : Nat) : Int)) := by omega
    simp only [h1, h1', ↓reduceIte, false_and]
    have := trim_top_trans ver (netLast (width ver) e.val e.plen) [] span hcp
    simpa [liftL] using this

example : iprange_to_cidrs 4 0x0A000001 32 4 0x0A000006 32 =
    .ok [(0x0A000001, 32, 4), (0x0A000002, 31, 4), (0x0A000004, 31, 4), (0x0A000006, 32, 4)] := by decide

/-! ### `pop()` never meets an empty list: the IndexError branch of `iprange_to_cidrs_eq` is dead -/

open NV.C09L NV.C05L in
theorem after_nonempty (w : Nat) (s e : Pfx) (hs : PWF w s) (he : PWF w e)
    (h : (spanOf2 w s e).first w < s.first w) :
    (cidrPartition w (spanOf2 w s e) ⟨s.first w - 1, w⟩).2.2 ≠ [] := by
  have hslt := pfx_last_lt w s hs
  have helt := pfx_last_lt w e he
  have hsfl : s.first w ≤ s.last w := first_le_last w s.val s.plen
  have hefl : e.first w ≤ e.last w := first_le_last w e.val e.plen
  have hle : min (s.first w) (e.first w) ≤ max (s.last w) (e.last w) := by omega
  have hhi : max (s.last w) (e.last w) < 2 ^ w := by omega
  obtain ⟨h1, h2, h3, h4, h5, _, _⟩ := spanningOf_spec w _ _ hle hhi
  have hdef : spanOf2 w s e = spanningOf w (min (s.first w) (e.first w)) (max (s.last w) (e.last w)) := rfl
  rw [← hdef] at h1 h2 h3 h4 h5
  generalize spanOf2 w s e = span at h h1 h2 h3 h4 h5 ⊢
  have hpos : 0 < 2 ^ (w - span.plen) := Nat.pos_of_ne_zero (by simp)
  have hspanWF : PWF w span := ⟨by omega, h1⟩
  have hexWF : PWF w ⟨s.first w - 1, w⟩ := ⟨by simp only []; omega, Nat.le_refl w⟩
  have hfirst : span.first w = span.val := by
    rw [pfx_first_eq w span hspanWF]
    exact Nat.div_mul_cancel (Nat.dvd_of_mod_eq_zero h2)
  have hlast := pfx_last_first w span hspanWF
  have hexlast : (⟨s.first w - 1, w⟩ : Pfx).last w = s.first w - 1 := by
    simp [Pfx.last, netLast]
  have spec := (NV.C09.partition_spec w span ⟨s.first w - 1, w⟩ hspanWF hexWF).2.1 (s.first w)
  intro hnil
  rw [hnil] at spec
  have hmem : span.mem w (s.first w) ∧ (⟨s.first w - 1, w⟩ : Pfx).last w < s.first w := by
    refine ⟨⟨by omega, by omega⟩, by omega⟩
  have := spec.mpr hmem
  simp [blks, den] at this

/-- for well-formed networks `iprange_to_cidrs` never raises: the translated source text IS the model -/
theorem iprange_to_cidrs_ok (ver : Nat) (s e : Pfx) (hs : NV.C09L.PWF (width ver) s) (he : NV.C09L.PWF (width ver) e) :
    iprange_to_cidrs ver (s.val : Int) (s.plen : Int) ver (e.val : Int) (e.plen : Int) =
      .ok (liftL ver (iprangeToCidrs (width ver) s e)) := by
  rw [iprange_to_cidrs_eq ver s e hs.plen_le he.plen_le]
  by_cases h : (spanOf2 (width ver) s e).first (width ver) < s.first (width ver)
  · have := after_nonempty (width ver) s e hs he h
    simp [h, this]
  · simp [h]

end NV.Tie
