/-
Props/C18.lean — property C18 "Address classification follows the published special-purpose
blocks exactly".  Property theorems only; helper lemmas are in Lemmas/C18L.lean (and C04L).

Statement (properties.jsonl): for every address, is_multicast, is_loopback and is_link_local
agree with an independent implementation of the IANA special-purpose registries, is_unicast is
the exact negation of is_multicast, and is_private / is_reserved are True exactly inside the
blocks netaddr documents for them (link-local addresses always counting as private) — each
predicate constant across a block and flipping exactly at its first and last address.  Applied
to a network or range a predicate holds iff the whole object lies inside a single such block,
and classification never depends on how the object was constructed.

The `spec*` lists below are the independent numeric spelling (own constants, written from the
RFCs / netaddr's documentation, not derived from `Gen/Tables.lean`).  The model scans the
tables regenerated from /repo (`NV.Gen.ipv4Private` …); `tables_ok` and `tables_match` are
kernel-checked facts about those generated tables, so an edited, dropped or shifted row in
/repo makes them — and with them every theorem below — fail to check.
-/
import NetaddrVerif.Lemmas.C18L
namespace NV.C18
open NV NV.Contains NV.Classify

/-! ### Independent statement of the blocks: `(version, first, last)` -/

/-- IPv6 block bounds from the leading 16 bits -/
def lo6 (h : Nat) : Nat := h * 2 ^ 112
def hi6 (h : Nat) : Nat := h * 2 ^ 112 + (2 ^ 112 - 1)

/-- 224.0.0.0/4 (RFC 5771), ff00::/8 (RFC 4291) -/
def specMulticast : List Iv := [(4, 0xE0000000, 0xEFFFFFFF), (6, lo6 0xff00, hi6 0xffff)]
/-- 127.0.0.0/8 (RFC 1122), ::1/128 (RFC 4291) -/
def specLoopback : List Iv := [(4, 0x7F000000, 0x7FFFFFFF), (6, 1, 1)]
/-- 169.254.0.0/16 (RFC 3927), fe80::/10 (RFC 4291) -/
def specLinkLocal : List Iv := [(4, 0xA9FE0000, 0xA9FEFFFF), (6, lo6 0xfe80, hi6 0xfebf)]
/-- the blocks netaddr documents as private; link-local always counts as private -/
def specPrivate : List Iv := [
  (4, 0x0A000000, 0x0AFFFFFF),   -- 10.0.0.0/8        RFC 1918
  (4, 0x64400000, 0x647FFFFF),   -- 100.64.0.0/10     RFC 6598
  (4, 0xAC100000, 0xAC1FFFFF),   -- 172.16.0.0/12     RFC 1918
  (4, 0xC0000000, 0xC00000FF),   -- 192.0.0.0/24      RFC 5736
  (4, 0xC0A80000, 0xC0A8FFFF),   -- 192.168.0.0/16    RFC 1918
  (4, 0xC6120000, 0xC613FFFF),   -- 198.18.0.0/15     RFC 2544
  (4, 0xEF000000, 0xEFFFFFFF),   -- 239.0.0.0 - 239.255.255.255  RFC 2365
  (4, 0xA9FE0000, 0xA9FEFFFF),   -- 169.254.0.0/16    link-local
  (6, lo6 0xfc00, hi6 0xfdff),   -- fc00::/7          RFC 4193
  (6, lo6 0xfec0, hi6 0xfeff),   -- fec0::/10         RFC 3879
  (6, lo6 0xfe80, hi6 0xfebf)]   -- fe80::/10         link-local
/-- the blocks netaddr documents as reserved -/
def specReserved : List Iv := [
  (4, 0x00000000, 0x00FFFFFF),   -- 0.0.0.0/8
  (4, 0xC0000200, 0xC00002FF),   -- 192.0.2.0/24      TEST-NET-1
  (4, 0xF0000000, 0xFFFFFFFF),   -- 240.0.0.0/4
  (4, 0xC6336400, 0xC63364FF),   -- 198.51.100.0/24   TEST-NET-2
  (4, 0xCB007100, 0xCB0071FF),   -- 203.0.113.0/24    TEST-NET-3
  (4, 0xE9FC0000, 0xE9FC00FF),   -- 233.252.0.0/24
  (4, 0xEA000000, 0xEEFFFFFF),   -- 234.0.0.0 - 238.255.255.255
  (4, 0xE1000000, 0xE7FFFFFF),   -- 225.0.0.0 - 231.255.255.255
  (4, 0x7F000000, 0x7FFFFFFF),   -- 127.0.0.0/8
  (4, 0xC0586300, 0xC05863FF),   -- 192.88.99.0/24    6to4 relay anycast
  (6, lo6 0xff00, hi6 0xff0f),   -- ff00::/12
  (6, lo6 0x0000, hi6 0x00ff),   -- ::/8
  (6, lo6 0x0100, hi6 0x01ff),   -- 0100::/8
  (6, lo6 0x0200, hi6 0x03ff),   -- 0200::/7
  (6, lo6 0x0400, hi6 0x07ff),   -- 0400::/6
  (6, lo6 0x0800, hi6 0x0fff),   -- 0800::/5
  (6, lo6 0x1000, hi6 0x1fff),   -- 1000::/4
  (6, lo6 0x4000, hi6 0x5fff),   -- 4000::/3
  (6, lo6 0x6000, hi6 0x7fff),   -- 6000::/3
  (6, lo6 0x8000, hi6 0x9fff),   -- 8000::/3
  (6, lo6 0xa000, hi6 0xbfff),   -- a000::/3
  (6, lo6 0xc000, hi6 0xdfff),   -- c000::/3
  (6, lo6 0xe000, hi6 0xefff),   -- e000::/4
  (6, lo6 0xf000, hi6 0xf7ff),   -- f000::/5
  (6, lo6 0xf800, hi6 0xfbff),   -- f800::/6
  (6, lo6 0xfe00, hi6 0xfe7f)]   -- fe00::/9

/-! ### Facts about the generated tables (finite, decided by the kernel) -/

/-- every generated row is well-formed (family, bounds, the rebuilt `IPNetwork`/`IPRange`
    has exactly the row's first/last), sits in its family's table, and the single-object
    tables have one row -/
theorem tables_ok :
    tableOK 4 Gen.ipv4Multicast = true ∧ tableOK 6 Gen.ipv6Multicast = true ∧
    tableOK 4 Gen.ipv4Loopback = true ∧ tableOK 6 Gen.ipv6Loopback = true ∧
    tableOK 4 Gen.ipv4LinkLocal = true ∧ tableOK 6 Gen.ipv6LinkLocal = true ∧
    tableOK 4 Gen.ipv4Private = true ∧ tableOK 6 Gen.ipv6Private = true ∧
    tableOK 4 Gen.ipv4Reserved = true ∧ tableOK 6 Gen.ipv6Reserved = true ∧
    Gen.ipv4Multicast.length = 1 ∧ Gen.ipv6Multicast.length = 1 ∧
    Gen.ipv4Loopback.length = 1 ∧ Gen.ipv6Loopback.length = 1 ∧
    Gen.ipv4LinkLocal.length = 1 ∧ Gen.ipv6LinkLocal.length = 1 := by
  decide +kernel

/-- the generated tables denote exactly the independently written block lists -/
theorem tables_match :
    sameSet (Gen.ipv4Multicast ++ Gen.ipv6Multicast) specMulticast = true ∧
    sameSet (Gen.ipv4Loopback ++ Gen.ipv6Loopback) specLoopback = true ∧
    sameSet (Gen.ipv4LinkLocal ++ Gen.ipv6LinkLocal) specLinkLocal = true ∧
    sameSet ((Gen.ipv4Private ++ Gen.ipv6Private) ++ (Gen.ipv4LinkLocal ++ Gen.ipv6LinkLocal)) specPrivate = true ∧
    sameSet (Gen.ipv4Reserved ++ Gen.ipv6Reserved) specReserved = true := by
  decide +kernel

/-! ### The predicates -/

private theorem ver_of_wf (x : Obj) (hx : x.WF) : x.ver = 4 ∨ x.ver = 6 := by
  cases x with
  | addr a => exact hx.1
  | net n => exact hx.1
  | rng r => exact hx.1

/-- **is_multicast** holds iff the whole object lies inside 224.0.0.0/4 or ff00::/8 -/
theorem multicast_iff (x : Obj) (hx : x.WF) :
    isMulticast x = true ↔ InAny specMulticast x.ver x.first x.last := by
  obtain ⟨o1, o2, _, _, _, _, _, _, _, _, l1, l2, _⟩ := tables_ok
  unfold isMulticast
  rw [inSingle_eq_scan _ _ l1, inSingle_eq_scan _ _ l2]
  exact (dispatch_iff x hx (ver_of_wf x hx) _ _ (tableOK_spec _ _ o1) (tableOK_spec _ _ o2)).trans
    (sameSet_spec _ _ tables_match.1 x)

/-- **is_unicast** is the exact negation of is_multicast -/
theorem unicast_eq_not_multicast (x : Obj) : isUnicast x = !isMulticast x := rfl

/-- **is_loopback** holds iff the whole object lies inside 127.0.0.0/8 or is ::1 -/
theorem loopback_iff (x : Obj) (hx : x.WF) :
    isLoopback x = true ↔ InAny specLoopback x.ver x.first x.last := by
  obtain ⟨_, _, o1, o2, _, _, _, _, _, _, _, _, l1, l2, _⟩ := tables_ok
  unfold isLoopback
  rw [inSingle_eq_scan _ _ l1, inSingle_eq_scan _ _ l2]
  exact (dispatch_iff x hx (ver_of_wf x hx) _ _ (tableOK_spec _ _ o1) (tableOK_spec _ _ o2)).trans
    (sameSet_spec _ _ tables_match.2.1 x)

/-- **is_link_local** holds iff the whole object lies inside 169.254.0.0/16 or fe80::/10 -/
theorem link_local_iff (x : Obj) (hx : x.WF) :
    isLinkLocal x = true ↔ InAny specLinkLocal x.ver x.first x.last := by
  obtain ⟨_, _, _, _, o1, o2, _, _, _, _, _, _, _, _, l1, l2⟩ := tables_ok
  unfold isLinkLocal
  rw [inSingle_eq_scan _ _ l1, inSingle_eq_scan _ _ l2]
  exact (dispatch_iff x hx (ver_of_wf x hx) _ _ (tableOK_spec _ _ o1) (tableOK_spec _ _ o2)).trans
    (sameSet_spec _ _ tables_match.2.2.1 x)

private theorem link_local_rows (x : Obj) (hx : x.WF) :
    isLinkLocal x = true ↔ ∃ r ∈ Gen.ipv4LinkLocal ++ Gen.ipv6LinkLocal, rowHit x r := by
  obtain ⟨_, _, _, _, o1, o2, _, _, _, _, _, _, _, _, l1, l2⟩ := tables_ok
  unfold isLinkLocal
  rw [inSingle_eq_scan _ _ l1, inSingle_eq_scan _ _ l2]
  exact dispatch_iff x hx (ver_of_wf x hx) _ _ (tableOK_spec _ _ o1) (tableOK_spec _ _ o2)

/-- **is_private** holds iff the whole object lies inside a single documented private block
    or inside the link-local block -/
theorem private_iff (x : Obj) (hx : x.WF) :
    isPrivate x = true ↔ InAny specPrivate x.ver x.first x.last := by
  obtain ⟨_, _, _, _, _, _, o1, o2, _⟩ := tables_ok
  have hd := dispatch_iff x hx (ver_of_wf x hx) _ _ (tableOK_spec _ _ o1) (tableOK_spec _ _ o2)
  have hl := link_local_rows x hx
  rw [← sameSet_spec _ _ tables_match.2.2.2.1 x]
  unfold isPrivate
  simp only
  constructor
  · intro h
    by_cases hh : (if x.ver = 4 then scan x Gen.ipv4Private else if x.ver = 6 then scan x Gen.ipv6Private else false) = true
    · obtain ⟨r, hr, h2⟩ := hd.1 hh
      exact ⟨r, List.mem_append_left _ hr, h2⟩
    · rw [if_neg hh] at h
      by_cases hll : isLinkLocal x = true
      · obtain ⟨r, hr, h2⟩ := hl.1 hll
        exact ⟨r, List.mem_append_right _ hr, h2⟩
      · rw [if_neg hll] at h; cases h
  · rintro ⟨r, hr, h2⟩
    rcases List.mem_append.1 hr with hr | hr
    · rw [if_pos (hd.2 ⟨r, hr, h2⟩)]
    · have := hl.2 ⟨r, hr, h2⟩
      rw [this]; simp

/-- **is_reserved** holds iff the whole object lies inside a single documented reserved block -/
theorem reserved_iff (x : Obj) (hx : x.WF) :
    isReserved x = true ↔ InAny specReserved x.ver x.first x.last := by
  obtain ⟨_, _, _, _, _, _, _, _, o1, o2, _⟩ := tables_ok
  unfold isReserved
  exact (dispatch_iff x hx (ver_of_wf x hx) _ _ (tableOK_spec _ _ o1) (tableOK_spec _ _ o2)).trans
    (sameSet_spec _ _ tables_match.2.2.2.2 x)

/-- **Addresses**: for every address each predicate is True exactly on the union of its
    blocks — constant across a block, flipping exactly at a block's first and last address
    (`lo <= v <= hi`) — for all 2^32 IPv4 and 2^128 IPv6 addresses. -/
theorem address_spec (a : Addr) (ha : a.WF) :
    (isMulticast (.addr a) = true ↔ ∃ b ∈ specMulticast, b.1 = a.ver ∧ b.2.1 ≤ a.val ∧ a.val ≤ b.2.2) ∧
    (isUnicast (.addr a) = true ↔ ¬ ∃ b ∈ specMulticast, b.1 = a.ver ∧ b.2.1 ≤ a.val ∧ a.val ≤ b.2.2) ∧
    (isLoopback (.addr a) = true ↔ ∃ b ∈ specLoopback, b.1 = a.ver ∧ b.2.1 ≤ a.val ∧ a.val ≤ b.2.2) ∧
    (isLinkLocal (.addr a) = true ↔ ∃ b ∈ specLinkLocal, b.1 = a.ver ∧ b.2.1 ≤ a.val ∧ a.val ≤ b.2.2) ∧
    (isPrivate (.addr a) = true ↔ ∃ b ∈ specPrivate, b.1 = a.ver ∧ b.2.1 ≤ a.val ∧ a.val ≤ b.2.2) ∧
    (isReserved (.addr a) = true ↔ ∃ b ∈ specReserved, b.1 = a.ver ∧ b.2.1 ≤ a.val ∧ a.val ≤ b.2.2) := by
  have hx : (Obj.addr a).WF := ha
  refine ⟨multicast_iff _ hx, ?_, loopback_iff _ hx, link_local_iff _ hx, private_iff _ hx, reserved_iff _ hx⟩
  have hm := multicast_iff _ hx
  rw [unicast_eq_not_multicast]
  show _ ↔ ¬ InAny specMulticast a.ver a.val a.val
  rw [← (show InAny specMulticast (Obj.addr a).ver (Obj.addr a).first (Obj.addr a).last ↔
    InAny specMulticast a.ver a.val a.val from Iff.rfl), ← hm]
  cases isMulticast (.addr a) <;> simp

/-- the three IANA-registry predicates on IPv4 / IPv6 addresses, as plain numeric bounds -/
theorem iana_addr_bounds (v : Nat) :
    (v < 2 ^ 32 → (isMulticast (.addr ⟨4, v⟩) = true ↔ 0xE0000000 ≤ v ∧ v ≤ 0xEFFFFFFF)) ∧
    (v < 2 ^ 32 → (isLoopback (.addr ⟨4, v⟩) = true ↔ 0x7F000000 ≤ v ∧ v ≤ 0x7FFFFFFF)) ∧
    (v < 2 ^ 32 → (isLinkLocal (.addr ⟨4, v⟩) = true ↔ 0xA9FE0000 ≤ v ∧ v ≤ 0xA9FEFFFF)) ∧
    (v < 2 ^ 128 → (isMulticast (.addr ⟨6, v⟩) = true ↔ 0xff00 * 2 ^ 112 ≤ v)) ∧
    (v < 2 ^ 128 → (isLoopback (.addr ⟨6, v⟩) = true ↔ v = 1)) ∧
    (v < 2 ^ 128 → (isLinkLocal (.addr ⟨6, v⟩) = true ↔ 0xfe80 * 2 ^ 112 ≤ v ∧ v < 0xfec0 * 2 ^ 112)) := by
  refine ⟨?_, ?_, ?_, ?_, ?_, ?_⟩ <;> intro hv
  · rw [multicast_iff _ (show (Obj.addr ⟨4, v⟩).WF from ⟨Or.inl rfl, hv⟩)]
    simp [InAny, specMulticast, Obj.ver, Obj.first, Obj.last]
  · rw [loopback_iff _ (show (Obj.addr ⟨4, v⟩).WF from ⟨Or.inl rfl, hv⟩)]
    simp [InAny, specLoopback, Obj.ver, Obj.first, Obj.last]
  · rw [link_local_iff _ (show (Obj.addr ⟨4, v⟩).WF from ⟨Or.inl rfl, hv⟩)]
    simp [InAny, specLinkLocal, Obj.ver, Obj.first, Obj.last]
  · rw [multicast_iff _ (show (Obj.addr ⟨6, v⟩).WF from ⟨Or.inr rfl, hv⟩)]
    simp [InAny, specMulticast, Obj.ver, Obj.first, Obj.last, lo6, hi6]
    have : (2:Nat) ^ 128 = 340282366920938463463374607431768211456 := by decide
    omega
  · rw [loopback_iff _ (show (Obj.addr ⟨6, v⟩).WF from ⟨Or.inr rfl, hv⟩)]
    simp [InAny, specLoopback, Obj.ver, Obj.first, Obj.last]
    omega
  · rw [link_local_iff _ (show (Obj.addr ⟨6, v⟩).WF from ⟨Or.inr rfl, hv⟩)]
    simp [InAny, specLinkLocal, Obj.ver, Obj.first, Obj.last, lo6, hi6]
    omega

/-- **Classification never depends on how the object was constructed**: two valid objects of
    any kinds (address, network with any host bits, range, glob) with the same version, first
    and last address get the same answer from all six predicates. -/
theorem construction_independent (x y : Obj) (hx : x.WF) (hy : y.WF)
    (hv : x.ver = y.ver) (hf : x.first = y.first) (hl : x.last = y.last) :
    isUnicast x = isUnicast y ∧ isMulticast x = isMulticast y ∧ isLoopback x = isLoopback y ∧
    isPrivate x = isPrivate y ∧ isLinkLocal x = isLinkLocal y ∧ isReserved x = isReserved y := by
  have hm : isMulticast x = isMulticast y := by
    rw [Bool.eq_iff_iff, multicast_iff x hx, multicast_iff y hy, hv, hf, hl]
  refine ⟨by rw [unicast_eq_not_multicast, unicast_eq_not_multicast, hm], hm, ?_, ?_, ?_, ?_⟩
  · rw [Bool.eq_iff_iff, loopback_iff x hx, loopback_iff y hy, hv, hf, hl]
  · rw [Bool.eq_iff_iff, private_iff x hx, private_iff y hy, hv, hf, hl]
  · rw [Bool.eq_iff_iff, link_local_iff x hx, link_local_iff y hy, hv, hf, hl]
  · rw [Bool.eq_iff_iff, reserved_iff x hx, reserved_iff y hy, hv, hf, hl]

/-- non-vacuity: block ends and their outside neighbours; the F1 shape (a network ending at
    the end of an `IPRange` row); a straddling network; a range equal to a block -/
example : isPrivate (.addr ⟨4, 0x0AFFFFFF⟩) = true ∧ isPrivate (.addr ⟨4, 0x0B000000⟩) = false ∧
    isPrivate (.addr ⟨4, 0x09FFFFFF⟩) = false := by decide
example : isPrivate (.net ⟨4, 0xEF000000, 8⟩) = true ∧ isPrivate (.net ⟨4, 0xEF000000, 7⟩) = false := by decide
example : isReserved (.rng ⟨4, 0xEA000000, 0xEEFFFFFF⟩) = true ∧ isReserved (.rng ⟨4, 0xEA000000, 0xEF000000⟩) = false := by
  decide
example : isLoopback (.addr ⟨6, 1⟩) = true ∧ isLoopback (.addr ⟨6, 2⟩) = false ∧ isLoopback (.addr ⟨6, 0⟩) = false := by
  decide
example : isPrivate (.addr ⟨6, 0xfe80 * 2 ^ 112⟩) = true ∧ isLinkLocal (.net ⟨6, 0xfe80 * 2 ^ 112 + 5, 10⟩) = true := by
  decide
example : (Obj.net ⟨4, 0xEF000000, 8⟩).WF := ⟨Or.inl rfl, by decide, by decide⟩

end NV.C18
