import NetaddrVerif.Model.Splitter
namespace NV.C20
open NV NV.Splitter

theorem init_eq (b : Net) : init b = [b] := rfl

end NV.C20
