/-
Props/C20.lean — property C20 "SubnetSplitter never hands out overlapping space".
Property theorems only; helper lemmas are in Lemmas/C20L, C20L2 (which build on C09 and C11).

Statement (properties.jsonl): over any sequence of extract_subnet and remove_subnet calls on a
SubnetSplitter, every subnet ever returned has the requested prefix, lies inside the base network
and is disjoint from every subnet returned or removed before; at every point the subnets handed
out plus available_subnets() tile the base network exactly, with no overlap and no gap.  A
request that cannot be met returns [] or raises ValueError and leaves the available space
unchanged.

Vocabulary (Lemmas/C20L, C20L2): `nmem n a` = address `a` lies in `first..last` of `n`; `Dj` = two
networks share no address; `Cov l` = union of a list; `Tiling b s g` = the free blocks `s` and the
blocks handed out or removed so far `g` are networks of the base's family, pairwise disjoint, and
cover exactly the base `b`.

The one ingredient not proved in this file is the exactness of `cidr_merge`, which is property
C05's subject.  It enters as the hypothesis `MergeExact` (the merged blocks are networks of the
family and have the same union as the inputs — Props/C05 `merge_wf` + `merge_den`); every theorem
that needs it is named `…_partial` and says so.  Everything else (selection loop, `subnet()`,
repeated `cidr_exclude`, set union, removal, iteration order) is proved here for every history.
-/
import NetaddrVerif.Lemmas.C20L2
namespace NV.C20
open NV NV.Splitter NV.C20L

/-- the blocks handed out or removed so far, after one more call (ghost state of the history) -/
def gone (s g : List Net) (op : Op) : List Net :=
  match op, (step s op).2 with
  | .extract _ _ _, .ok subs => subs ++ g
  | .remove x, .ok _ =>
    match s.find? (keyEq x) with
    | some y => y :: g
    | none => g
  | _, _ => g

/-- what one call must satisfy, given the blocks `g` handed out or removed before it -/
def StepFacts (b : Net) (s g : List Net) (op : Op) : Prop :=
  match op, (step s op).2 with
  | .extract pfx _ _, .ok subs =>
    (∀ x ∈ subs, (x.plen : Int) = pfx ∧ x.ver = b.ver ∧ x.val % 2 ^ (width b.ver - x.plen) = 0 ∧
        (∀ a, nmem x a → nmem b a) ∧ (∀ y ∈ g, Dj x y)) ∧
      subs.Pairwise Dj ∧ (subs = [] → (step s op).1.Perm s)
  | .extract pfx _ _, .error e => (step s op).1.Perm s ∧ (pfx ≤ (width b.ver : Nat) → e = .value)
  | .remove x, .ok _ => (∃ y ∈ s, keyEq x y = true) ∧ (step s op).1 = s.eraseP (keyEq x)
  | .remove x, .error e => e = .key ∧ (step s op).1 = s ∧ ¬ ∃ y ∈ s, keyEq x y = true

/-- the invariant and the per-call facts along a whole history -/
def AllGood (b : Net) : List Net → List Net → List Op → Prop
  | s, g, [] => Tiling b s g
  | s, g, op :: ops => Tiling b s g ∧ StepFacts b s g op ∧ AllGood b (step s op).1 (gone s g op) ops

/-- a fresh splitter: the base is the only free block, nothing is handed out -/
theorem init_tiling (b : Net) (hb : b.WF) : Tiling b (init b) [] := by
  refine ⟨?_, ?_, ?_⟩
  · intro n hn
    simp only [init, List.append_nil, List.mem_singleton] at hn
    subst hn; exact ⟨rfl, hb.2.1, hb.2.2⟩
  · simp [init]
  · intro a; simp [init, Cov]

/-- the returned blocks of a tiling are inside the base and disjoint from everything else in it -/
theorem returned_facts (b : Net) (s' subs g : List Net) (ht : Tiling b s' (subs ++ g)) :
    (∀ x ∈ subs, x.ver = b.ver ∧ (∀ a, nmem x a → nmem b a) ∧ (∀ y ∈ g, Dj x y) ∧ (∀ y ∈ s', Dj x y)) ∧
    subs.Pairwise Dj := by
  have hd := ht.disj
  rw [List.pairwise_append, List.pairwise_append] at hd
  obtain ⟨_, ⟨hsubs, _, hsg⟩, hcross⟩ := hd
  refine ⟨?_, hsubs⟩
  intro x hx
  refine ⟨(ht.ok x (by simp [hx])).1, ?_, fun y hy => hsg x hx y hy, ?_⟩
  · intro a ha
    exact (ht.cover a).2 ⟨x, by simp [hx], ha⟩
  · intro y hy
    exact dj_symm (hcross y hy x (by simp [hx]))

/-- **one extract_subnet call** (needs `cidr_merge` exactness, C05): the invariant is preserved
    with the returned blocks added to the handed-out list, every returned block has the
    requested prefix, no host bits, lies inside the base and is disjoint from everything handed
    out or removed before; `[]` or an error leave the available space unchanged (up to the
    unobservable iteration order), and the only error for a prefix within the width is ValueError. -/
theorem extract_step_partial (hM : MergeExact) (b : Net) (hb : b.WF) (s g : List Net) (ht : Tiling b s g)
    (pfx : Int) (count : Option Int) (hint : Option Net) :
    Tiling b (step s (.extract pfx count hint)).1 (gone s g (.extract pfx count hint)) ∧
    StepFacts b s g (.extract pfx count hint) := by
  have hperm := reorder_perm s hint
  have ht' : Tiling b (reorder s hint) g := tiling_perm hperm ht
  have hspec := extractLoop_spec hM b hb (reorder s hint) g ht' pfx count
    (availableSubnets (reorder s hint)) (fun c hc => (available_perm _).mem_iff.1 hc)
  unfold StepFacts gone
  simp only [step, extractSubnet]
  cases hx : extractLoop (reorder s hint) pfx count (availableSubnets (reorder s hint)) with
  | error e =>
    simp only
    exact ⟨ht', hperm, hspec.2 e hx⟩
  | ok r =>
    obtain ⟨subs, s'⟩ := r
    simp only
    obtain ⟨h1, h2, h3⟩ := hspec.1 subs s' hx
    obtain ⟨hr1, hr2⟩ := returned_facts b s' subs g h1
    refine ⟨h1, ?_, hr2, ?_⟩
    · intro x hxs
      obtain ⟨hv, hin, hg, _⟩ := hr1 x hxs
      exact ⟨(h2 x hxs).1, hv, (h2 x hxs).2, hin, hg⟩
    · intro he; rw [h3 he]; exact hperm

/-- **one remove_subnet call**: a block that is currently available leaves the free list and joins
    the removed list, the invariant is preserved; any other argument raises KeyError and changes
    nothing -/
theorem remove_step (b : Net) (s g : List Net) (ht : Tiling b s g) (x : Net) :
    Tiling b (step s (.remove x)).1 (gone s g (.remove x)) ∧ StepFacts b s g (.remove x) := by
  unfold StepFacts gone
  simp only [step, removeSubnet]
  by_cases hany : s.any (keyEq x) = true
  · simp only [hany, ite_true]
    obtain ⟨y, hy, hk⟩ := List.any_eq_true.1 hany
    cases hf : s.find? (keyEq x) with
    | none =>
      have := List.find?_eq_none.1 hf y hy
      exact absurd hk this
    | some z =>
      simp only
      have hp := find_cons_eraseP_perm (keyEq x) s z hf
      refine ⟨?_, ⟨y, hy, hk⟩, by first | rfl | trivial⟩
      have hp2 : (s.eraseP (keyEq x) ++ z :: g).Perm (s ++ g) := by
        have : (s.eraseP (keyEq x) ++ z :: g).Perm (z :: (s.eraseP (keyEq x) ++ g)) := List.perm_middle
        exact this.trans (List.Perm.append_right g hp)
      refine ⟨fun n hn => ht.ok n (hp2.mem_iff.1 hn), pairwise_dj_perm hp2.symm ht.disj, ?_⟩
      intro a; rw [ht.cover a]; exact (cov_perm hp2 a).symm
  · have hany' : s.any (keyEq x) = false := by simpa using hany
    simp only [hany', Bool.false_eq_true, ite_false]
    refine ⟨ht, by first | rfl | trivial, by first | rfl | trivial, ?_⟩
    rintro ⟨y, hy, hk⟩
    exact hany (List.any_eq_true.2 ⟨y, hy, hk⟩)

/-- **C20, the history theorem** (needs `cidr_merge` exactness, C05 — hence `_partial`): from any
    state satisfying the invariant, along every finite sequence of extract_subnet / remove_subnet
    calls (any prefixes, counts, hints and removal arguments) the invariant holds at every point
    and every call satisfies `StepFacts`.

    Full statement = this theorem with the hypothesis `hM` discharged by Props/C05
    (`merge_wf`, `merge_den`); what is missing here is only that instantiation, which lives in
    another contributor's files. -/
theorem history_invariant_partial (hM : MergeExact) (b : Net) (hb : b.WF) (ops : List Op) :
    ∀ (s g : List Net), Tiling b s g → AllGood b s g ops := by
  induction ops with
  | nil => intro s g ht; exact ht
  | cons op ops ih =>
    intro s g ht
    cases op with
    | extract pfx count hint =>
      obtain ⟨h1, h2⟩ := extract_step_partial hM b hb s g ht pfx count hint
      exact ⟨ht, h2, ih _ _ h1⟩
    | remove x =>
      obtain ⟨h1, h2⟩ := remove_step b s g ht x
      exact ⟨ht, h2, ih _ _ h1⟩

/-- the property as stated: a fresh `SubnetSplitter(base)` and any history -/
theorem splitter_partial (hM : MergeExact) (b : Net) (hb : b.WF) (ops : List Op) :
    AllGood b (init b) [] ops :=
  history_invariant_partial hM b hb ops _ _ (init_tiling b hb)

/-- histories made of `remove_subnet` calls and of requests that fail or return `[]` need no
    assumption at all: **a request that cannot be met leaves the available space unchanged**
    (as a set: `Perm`), whatever `cidr_merge` does -/
theorem failed_request_unchanged (s : List Net) (pfx : Int) (count : Option Int) (hint : Option Net) :
    (∀ e, (step s (.extract pfx count hint)).2 = .error e → (step s (.extract pfx count hint)).1.Perm s) ∧
    (∀ x e, (step s (.remove x)).2 = .error e → (step s (.remove x)).1 = s ∧ e = .key) := by
  constructor
  · intro e h
    simp only [step] at h ⊢
    cases hx : extractSubnet (reorder s hint) pfx count with
    | error e' => simp only [hx]; exact reorder_perm s hint
    | ok r => rw [hx] at h; simp at h
  · intro x e h
    simp only [step, removeSubnet] at h ⊢
    by_cases hany : s.any (keyEq x) = true
    · simp [hany] at h
    · have hany' : s.any (keyEq x) = false := by simpa using hany
      simp only [hany', Bool.false_eq_true, ite_false] at h ⊢
      exact ⟨by first | rfl | trivial, by simpa using h.symm⟩

/-- `available_subnets()` is a rearrangement of the free set (nothing is invented or lost by the
    sort) -/
theorem available_is_state (s : List Net) : (availableSubnets s).Perm s := available_perm s

/-- non-vacuity: a concrete base network satisfies the hypotheses (the F6 scenario
    `SubnetSplitter('10.0.0.0/24')` is replayed on the driver and the real code by the corpus) -/
example : (⟨4, 0x0A000000, 24⟩ : Net).WF := ⟨Or.inl rfl, by decide, by decide⟩
example : Tiling ⟨4, 0x0A000000, 24⟩ (init ⟨4, 0x0A000000, 24⟩) [] :=
  init_tiling _ ⟨Or.inl rfl, by decide, by decide⟩

end NV.C20
