/-
Props/C06.lean — property C06 "IPSet is canonical after any history, so equality is
extensional".  Property theorems only; lemmas are in Lemmas/IPSetL1..L11, IPSetDiff1..5,
CanonSetL, MergeUp.

Statement (properties.jsonl): after any sequence of constructions and mutations the content
an IPSet shows is the unique minimal, sorted, host-bit-free CIDR list of exactly the
addresses that history denotes; two IPSets compare equal iff they contain the same addresses.

Vocabulary: `IPSet.Inv s` — every stored key is in range and host-bit-free, keys are pairwise
distinct, and per family the stored blocks are aligned, pairwise disjoint and no two can be
combined (`CanonSet`).  `denS s ver a` — address `a` of family `ver` is denoted by `s`.
`canonset_ext` (Lemmas/CanonSetL) is the uniqueness theorem: two such block sets with the
same denotation have the same members.
-/
import NetaddrVerif.Lemmas.IPSetL11
import NetaddrVerif.Lemmas.IPSetIter1
import NetaddrVerif.Lemmas.IPSetIter5
namespace NV.C06
open NV NV.IPSet

/-- the empty set satisfies the invariant (`IPSet()`, `clear()`) -/
theorem inv_empty : Inv ([] : St) ∧ ∀ ver a, ¬ denS [] ver a := by
  refine ⟨inv_nil, ?_⟩
  intro ver a h
  obtain ⟨n, hn, _⟩ := h
  simp at hn

/-- `add(addr)` for any network / address / int / string argument (the harness hands the
    model the network `IPNetwork(addr)`, host bits included): the state stays canonical and
    denotes exactly the old addresses plus the block of the argument.  This covers the whole
    incremental compaction `_compact_single_network`: supernet walk (for /width), the
    subnet/supernet scan, removal of absorbed blocks and the sibling-merge loop with its
    prefix decrement and host-bit clearing. -/
theorem add_net_spec (s : St) (hs : Inv s) (n : Net) (hn : n.WF) :
    Inv (addNet s n) ∧
    ∀ ver a, denS (addNet s n) ver a ↔ denS s ver a ∨ (ver = n.ver ∧ n.first ≤ a ∧ a ≤ n.last) := by
  obtain ⟨h1, h2⟩ := IPSet.add_spec s hs (.net n) hn
  refine ⟨h1, fun ver a => ?_⟩
  have := h2 ver a
  unfold argDen at this
  show denS (add s (.net n)) ver a ↔ _
  rw [this]
  constructor
  · rintro (h | ⟨e, h⟩)
    · exact Or.inl h
    · exact Or.inr ⟨e.symm, h⟩
  · rintro (h | ⟨e, h⟩)
    · exact Or.inl h
    · exact Or.inr ⟨e.symm, h⟩

/-- any sequence of `add` calls from the empty set: canonical at every point, and the
    denotation is the union of the arguments (induction over the history) -/
theorem add_history (ns : List Net) (hns : ∀ n ∈ ns, n.WF) :
    Inv (ns.foldl addNet []) ∧
    ∀ ver a, denS (ns.foldl addNet []) ver a ↔ ∃ n ∈ ns, ver = n.ver ∧ n.first ≤ a ∧ a ≤ n.last := by
  suffices h : ∀ (s : St), Inv s →
      Inv (ns.foldl addNet s) ∧ ∀ ver a, denS (ns.foldl addNet s) ver a ↔
        denS s ver a ∨ ∃ n ∈ ns, ver = n.ver ∧ n.first ≤ a ∧ a ≤ n.last by
    obtain ⟨h1, h2⟩ := h [] inv_nil
    refine ⟨h1, fun ver a => ?_⟩
    rw [h2 ver a]
    constructor
    · rintro (h | h)
      · exact absurd h (inv_empty.2 ver a)
      · exact h
    · intro h; exact Or.inr h
  induction ns with
  | nil => intro s hs; exact ⟨hs, fun ver a => by simp⟩
  | cons n ns ih =>
    intro s hs
    obtain ⟨h1, h2⟩ := add_net_spec s hs n (hns n (List.mem_cons_self ..))
    obtain ⟨h3, h4⟩ := ih (fun m hm => hns m (List.mem_cons_of_mem _ hm)) (addNet s n) h1
    refine ⟨h3, fun ver a => ?_⟩
    simp only [List.foldl_cons]
    rw [h4 ver a, h2 ver a]
    constructor
    · rintro ((h | h) | ⟨m, hm, h⟩)
      · exact Or.inl h
      · exact Or.inr ⟨n, List.mem_cons_self .., h⟩
      · exact Or.inr ⟨m, List.mem_cons_of_mem _ hm, h⟩
    · rintro (h | ⟨m, hm, h⟩)
      · exact Or.inl (Or.inl h)
      · rcases List.mem_cons.1 hm with e | e
        · subst e; exact Or.inl (Or.inr h)
        · exact Or.inr ⟨m, e, h⟩

/-- Equality is extensional: two sets satisfying the invariant compare equal (dict equality on
    keys) iff they denote the same addresses, no matter how each was built. -/
theorem eq_iff (s t : St) (hs : Inv s) (ht : Inv t) :
    IPSet.eq s t = true ↔ ∀ ver a, denS s ver a ↔ denS t ver a := by
  rw [eq_iff_mem s t hs ht]
  constructor
  · intro h ver a; exact denS_of_mem t s h ver a
  · intro h n; exact mem_iff_of_den s t hs ht h n

/-- The stored keys are determined by the denoted addresses alone: the representation is
    unique, whatever history produced it. -/
theorem keys_unique (s t : St) (hs : Inv s) (ht : Inv t) (h : ∀ ver a, denS s ver a ↔ denS t ver a)
    (n : Net) : n ∈ s ↔ n ∈ t := mem_iff_of_den s t hs ht h n

/-- What `iter_cidrs()` shows is a permutation of the stored keys, hence host-bit-free,
    in range, pairwise disjoint and not combinable. -/
theorem shown_mem (s : St) (n : Net) : n ∈ iterCidrs s ↔ n ∈ s := by
  unfold iterCidrs sortNets; exact List.mem_mergeSort

theorem shown_hostbit_free (s : St) (hs : Inv s) (n : Net) (hn : n ∈ iterCidrs s) :
    n.val = n.first ∧ n.WF := by
  have := hs.good n ((shown_mem s n).1 hn); exact ⟨this.2, this.1⟩

/-- What `iter_cidrs()` / `repr()` / iteration show: placing the IPv6 space after the IPv4
    space on one number line (`lin`), the shown list is `Canon`: ascending by address with
    IPv4 before IPv6, every block aligned, pairwise disjoint, and no two combinable. -/
theorem shown_canonical (s : St) (hs : Inv s) : Canon ((iterCidrs s).map lin) := canon_shown s hs

/-- ... it is the unique such list: it is determined by the denoted addresses alone, so two
    histories that denote the same addresses show exactly the same list -/
theorem shown_unique (s t : St) (hs : Inv s) (ht : Inv t) (h : ∀ ver a, denS s ver a ↔ denS t ver a) :
    iterCidrs s = iterCidrs t := IPSet.shown_unique s t hs ht h

/-- ... and minimal: no list of networks denoting the same addresses is shorter -/
theorem shown_minimal (s : St) (hs : Inv s) (l : List Net) (hl : ∀ n ∈ l, n.WF)
    (h : ∀ ver a, denS l ver a ↔ denS s ver a) : (iterCidrs s).length ≤ l.length :=
  IPSet.shown_minimal s hs l hl h

/-- `pop()` removes exactly the block it returns and keeps the set canonical -/
theorem pop_spec (s : St) (hs : Inv s) (b : Net) (hb : b ∈ s) :
    ∃ s', pop s b = .ok s' ∧ Inv s' ∧
      ∀ ver a, denS s' ver a ↔ denS s ver a ∧ ¬ (ver = b.ver ∧ b.first ≤ a ∧ a ≤ b.last) :=
  IPSet.pop_spec s hs b hb

/-- `copy()` / pickling / `copy.copy` / `deepcopy` give the same keys -/
theorem copy_spec (s : St) (hs : Inv s) : Inv (copy s) ∧ (∀ n, n ∈ copy s ↔ n ∈ s) := IPSet.copy_spec s hs

/-- `compact()` re-canonicalises ANY state of in-range keys and keeps its addresses -/
theorem compact_spec (s : St) (hg : ∀ n ∈ s, n.WF) :
    Inv (compact s) ∧ ∀ u a, denS (compact s) u a ↔ denS s u a := IPSet.compact_spec s hg

/-- constructors: `IPSet(iterable)`, `IPSet(IPNetwork)`, `IPSet(IPRange)`, `IPSet(IPSet)` -/
theorem new_list_spec (xs : List Arg) (hx : ∀ x ∈ xs, ArgOK x) :
    Inv (newOfList xs) ∧ ∀ u a, denS (newOfList xs) u a ↔ argsDen xs u a := newOfList_spec xs hx
theorem new_net_spec (n : Net) (h : n.WF) :
    Inv (newOfNet n) ∧ ∀ u a, denS (newOfNet n) u a ↔ argDen (.net n) u a := newOfNet_spec n h
theorem new_range_spec (r : Rng) (h : ArgOK (.rng r)) :
    Inv (newOfRange r) ∧ ∀ u a, denS (newOfRange r) u a ↔ argDen (.rng r) u a := newOfRange_spec r h
theorem new_set_spec (t : St) (ht : Inv t) : Inv (newOfSet t) ∧ ∀ n, n ∈ newOfSet t ↔ n ∈ t :=
  newOfSet_spec t ht

/-- `add(IPRange)` and both forms of `update` -/
theorem add_range_spec (s : St) (hs : ∀ n ∈ s, Good n) (r : Rng) (h : ArgOK (.rng r)) :
    Inv (addRange s r) ∧ ∀ u a, denS (addRange s r) u a ↔ denS s u a ∨ argDen (.rng r) u a :=
  addRange_spec s hs r h
theorem update_set_spec (s t : St) (hs : ∀ n ∈ s, n.WF) (ht : ∀ n ∈ t, n.WF) :
    Inv (updateSet s t) ∧ ∀ u a, denS (updateSet s t) u a ↔ denS s u a ∨ denS t u a :=
  updateSet_spec s t hs ht
theorem update_list_spec (s : St) (hs : ∀ n ∈ s, Good n) (xs : List Arg) (hx : ∀ x ∈ xs, ArgOK x) :
    Inv (updateList s xs) ∧ ∀ u a, denS (updateList s xs) u a ↔ denS s u a ∨ argsDen xs u a :=
  updateList_spec s hs xs hx

/-- `remove(x)` for every argument form: canonical again, old addresses minus the argument -/
theorem remove_spec (s : St) (hs : Inv s) (x : Arg) (hx : ArgOK x) :
    Inv (remove s x) ∧ ∀ u a, denS (remove s x) u a ↔ denS s u a ∧ ¬ argDen x u a :=
  IPSet.remove_spec s hs x hx

/-- **Every reachable state.**  After ANY finite history over any number of live sets —
    constructors from a network / range / set / list, `add`, `remove`, both `update` forms, `clear`,
    `pop`, `compact`, `copy`/pickling, and the results of all four binary operators `|`, `&`,
    `-`, `^` — every live set is canonical (`Inv`) and denotes exactly the (version, address)
    pairs that plain set theory assigns to that history (`specStep`, `combine`).  Induction
    over the history; one `step_rel` case per operation.  `Op.OK` only demands well-formed
    arguments (in-range networks, `lo ≤ hi` ranges inside their family, a host-bit-free
    block for the value `pop` returned); no operation is excluded. -/
theorem reachable (ops : List Op) (hok : ∀ op ∈ ops, op.OK) :
    ∀ i, Inv (getSet (runOps ops) i) ∧
      ∀ u a, denS (getSet (runOps ops) i) u a ↔ (runBoth ops).2 i u a := by
  have := history_rel ops hok
  rw [runBoth_fst] at this
  exact this

/-- consequently, two sets reached by any two histories compare equal iff the
    histories denote the same addresses, and then they show the same list -/
theorem reachable_eq_iff (ops₁ ops₂ : List Op) (h₁ : ∀ op ∈ ops₁, op.OK) (h₂ : ∀ op ∈ ops₂, op.OK) (i j : Nat) :
    IPSet.eq (getSet (runOps ops₁) i) (getSet (runOps ops₂) j) = true ↔
      ∀ u a, (runBoth ops₁).2 i u a ↔ (runBoth ops₂).2 j u a := by
  obtain ⟨i1, d1⟩ := reachable ops₁ h₁ i
  obtain ⟨i2, d2⟩ := reachable ops₂ h₂ j
  rw [eq_iff _ _ i1 i2]
  constructor
  · intro h u a; rw [← d1 u a, ← d2 u a]; exact h u a
  · intro h u a; rw [d1 u a, d2 u a]; exact h u a

example : (Op.add 0 (.net ⟨4, 0x0a000005, 24⟩)).OK := by simp [Op.OK, ArgOK, Net.WF, width]
example : (Op.bin 2 0 1 .sub).OK ∧ (Op.bin 2 0 1 .xor).OK := ⟨trivial, trivial⟩
example : ∀ op ∈ [Op.newNet 0 ⟨4, 0x0a000005, 24⟩, Op.newRng 1 ⟨6, 1, 77⟩, Op.bin 2 0 1 .xor, Op.bin 3 2 0 .sub],
    op.OK := by simp [Op.OK, ArgOK, Net.WF, width]

/-! ### `!=`, `repr()`, and iteration as observations of the same canonical content -/

/-- `!=` is the negation of `==` (dict inequality), for any two states -/
theorem ne_iff_not_eq (s t : St) : IPSet.ne s t = true ↔ ¬ (IPSet.eq s t = true) := by
  unfold IPSet.ne; cases IPSet.eq s t <;> simp

/-- hence `!=` is extensional too: True exactly when the two sets differ in some address -/
theorem ne_iff (s t : St) (hs : Inv s) (ht : Inv t) :
    IPSet.ne s t = true ↔ ¬ ∀ ver a, denS s ver a ↔ denS t ver a := by
  rw [ne_iff_not_eq, eq_iff s t hs ht]

/-- `repr()` lists, at value level, exactly what `iter_cidrs()` returns (both are
    `sorted(self._cidrs)`), so `shown_canonical` / `shown_unique` / `shown_minimal` /
    `shown_hostbit_free` speak about `repr()` as well -/
theorem repr_shows (s : St) : reprSet s = iterCidrs s := rfl

/-- the CIDR strings inside `repr()` are C03's `str()` of those blocks, in that order -/
theorem repr_strs (be : AddrParse.Backend) (s : St) :
    reprStrs be s = (iterCidrs s).map (NetParse.netStr be) := rfl

/-- **same `repr()` iff equal**: for canonical sets the list of CIDR strings that `repr()` prints
    (either back end of the address printer) coincides exactly when the sets compare equal, i.e.
    exactly when they contain the same addresses.  `str()` is injective on in-range networks by
    C03's round trip `IPNetwork(str(n)) = n`. -/
theorem repr_eq_iff (be : AddrParse.Backend) (s t : St) (hs : Inv s) (ht : Inv t) :
    (reprStrs be s = reprStrs be t ↔ IPSet.eq s t = true) ∧
    (reprStrs be s = reprStrs be t ↔ ∀ ver a, denS s ver a ↔ denS t ver a) := by
  have h : reprStrs be s = reprStrs be t ↔ IPSet.eq s t = true := by
    rw [← Iter.reprSet_eq_iff s t hs ht]
    constructor
    · exact Iter.reprStrs_inj be s t (fun n hn => (hs.good n hn).1) (fun n hn => (ht.good n hn).1)
    · intro e; unfold reprStrs; rw [e]
  exact ⟨h, h.trans (eq_iff s t hs ht)⟩

/-- the full text `IPSet(['…', '…'])` is a function of that list, so equal sets print the same text -/
theorem repr_text_of_eq (be : AddrParse.Backend) (s t : St) (hs : Inv s) (ht : Inv t)
    (h : IPSet.eq s t = true) : reprText be s = reprText be t := by
  unfold reprText; rw [((repr_eq_iff be s t hs ht).1).2 h]

/-- **same `repr()` text iff equal**: the complete text `IPSet(['a/p', 'b/q', …])` of two
    canonical sets coincides exactly when they compare equal, i.e. contain the same addresses.
    Besides C03's round trip this uses that a printed network consists of hex digits, `.`, `:`
    and `/` only (`Iter.netStr_cidrCh`), so the quoted, comma-separated rendering can be split
    back unambiguously (`Iter.reprText_inj`). -/
theorem repr_text_eq_iff (be : AddrParse.Backend) (s t : St) (hs : Inv s) (ht : Inv t) :
    (reprText be s = reprText be t ↔ IPSet.eq s t = true) ∧
    (reprText be s = reprText be t ↔ ∀ ver a, denS s ver a ↔ denS t ver a) := by
  have h : reprText be s = reprText be t ↔ IPSet.eq s t = true := by
    constructor
    · intro e
      exact ((repr_eq_iff be s t hs ht).1).1
        (Iter.reprText_inj be s t (fun n hn => (hs.good n hn).1) (fun n hn => (ht.good n hn).1) e)
    · exact repr_text_of_eq be s t hs ht
  exact ⟨h, h.trans (eq_iff s t hs ht)⟩

/-- two histories denote the same addresses iff their results print the same CIDR strings -/
theorem reachable_repr_iff (be : AddrParse.Backend) (ops₁ ops₂ : List Op)
    (h₁ : ∀ op ∈ ops₁, op.OK) (h₂ : ∀ op ∈ ops₂, op.OK) (i j : Nat) :
    reprStrs be (getSet (runOps ops₁) i) = reprStrs be (getSet (runOps ops₂) j) ↔
      ∀ u a, (runBoth ops₁).2 i u a ↔ (runBoth ops₂).2 j u a := by
  rw [(repr_eq_iff be _ _ (reachable ops₁ h₁ i).1 (reachable ops₂ h₂ j).1).1]
  exact reachable_eq_iff ops₁ ops₂ h₁ h₂ i j

/-- iteration enumerates the shown list block by block, each block from its first to its last
    address; with `C07.iter_addrs_spec` this is the ascending duplicate-free enumeration of the
    denoted addresses, and it is the same for any two sets with the same addresses -/
theorem iter_shows (s : St) : iterAddrs s = (iterCidrs s).flatMap netAddrs := rfl

theorem iter_unique (s t : St) (hs : Inv s) (ht : Inv t) (h : ∀ ver a, denS s ver a ↔ denS t ver a) :
    iterAddrs s = iterAddrs t := by
  unfold iterAddrs; rw [shown_unique s t hs ht h]

/-- the hypotheses are satisfiable: two canonical sets (one of them holding both families) -/
example : Inv (newOfNet ⟨4, 0x0a000005, 24⟩) ∧ Inv (addNet (newOfNet ⟨4, 0x0a000005, 24⟩) ⟨6, 1, 128⟩) := by
  have h1 := (new_net_spec ⟨4, 0x0a000005, 24⟩ (by simp [Net.WF, width])).1
  exact ⟨h1, (add_net_spec _ h1 ⟨6, 1, 128⟩ (by simp [Net.WF, width])).1⟩
example : String.ofList (reprText .platform (addNet (newOfNet ⟨4, 0x0a000005, 24⟩) ⟨6, 1, 128⟩)) =
    "IPSet(['10.0.0.0/24', '::1/128'])" := by
  have e : addNet (newOfNet ⟨4, 0x0a000005, 24⟩) ⟨6, 1, 128⟩ = [⟨4, 0x0a000000, 24⟩, ⟨6, 1, 128⟩] := by decide +kernel
  rw [e]; unfold reprText reprStrs reprSet
  rw [show sortNets [⟨4, 0x0a000000, 24⟩, ⟨6, 1, 128⟩] = [⟨4, 0x0a000000, 24⟩, ⟨6, 1, 128⟩] from
    iterCidrs_sorted _ (by decide +kernel)]
  decide +kernel

/-- instances: a set and the same set built in another order print the same; a different set does not -/
example : reprStrs .platform [⟨4, 0x0a000000, 24⟩, ⟨6, 1, 128⟩] = reprStrs .platform [⟨6, 1, 128⟩, ⟨4, 0x0a000000, 24⟩] := by
  unfold reprStrs reprSet
  rw [NV.Contains.sortNets_perm_eq _ _ (List.Perm.swap ..)]
example : IPSet.ne [⟨4, 0x0a000000, 24⟩] [⟨4, 0x0a000000, 25⟩] = true := by decide +kernel
example : IPSet.ne [⟨4, 0x0a000000, 24⟩, ⟨6, 1, 128⟩] [⟨6, 1, 128⟩, ⟨4, 0x0a000000, 24⟩] = false := by decide +kernel

/-! ### non-vacuity -/
example : (⟨4, 0x0a000005, 24⟩ : Net).WF := by simp [Net.WF, width]
example : addNet [] ⟨4, 0x0a000005, 24⟩ = [⟨4, 0x0a000000, 24⟩] := by decide +kernel
example : addNet (addNet [] ⟨4, 0x0a000000, 25⟩) ⟨4, 0x0a000080, 25⟩ = [⟨4, 0x0a000000, 24⟩] := by decide +kernel

end NV.C06
