import NetaddrVerif.Model.IPSet
namespace NV.C06
end NV.C06
