/-
Props/Tie.lean — the translation tie (DESIGN.md section 4.5).

`Gen/Trans.lean` is generated on every run from the CURRENT source text of /repo's netaddr by
`harness/pytrans.py`.  Each theorem here says that a translated function, on the inputs a
constructed object can hold (the code's own range guards), IS the hand-written model function the
property theorems are about — so for these functions the step from "the model has the property"
to "the code's text has the property" is a kernel-checked equality plus the (small, syntactic)
translator, not differential testing.  When the source of one of these functions changes, its
theorem is re-checked against the new text; if it no longer elaborates the check falls back to
the correspondence for that function and searches for an input on which old and new text differ.
-/
import NetaddrVerif.Gen.Trans
import NetaddrVerif.Lemmas.TieL
import NetaddrVerif.Model.Convert
import NetaddrVerif.Model.Subnet
import NetaddrVerif.Model.Compare
namespace NV.Tie
open NV NV.Trans

/-! ### IPAddress: mask predicates -/

theorem mask_test (u : Nat) :
    decide (Py.iand ((u : Int) + 1) ((u : Int) + 1 - 1) = 0) = ((u + 1) &&& (u + 1 - 1) == 0) := by
  have h1 : ((u : Int) + 1) = ((u + 1 : Nat) : Int) := by push_cast; rfl
  have h2 : (((u + 1 : Nat) : Int) - 1) = ((u : Nat) : Int) := by omega
  simp only [h1, h2, Py.iand_ofNat, Nat.add_sub_cancel]
  cases h : (u + 1 &&& u == 0) <;> simp_all

theorem is_hostmask (ver v : Nat) : IPAddress_is_hostmask ver (v : Int) = isHostmask v := by
  unfold IPAddress_is_hostmask isHostmask
  exact mask_test v

theorem is_netmask (ver v : Nat) : IPAddress_is_netmask ver (v : Int) = isNetmask (width ver) v := by
  unfold IPAddress_is_netmask isNetmask maxInt
  simp only [Py.ixor_ofNat]
  exact mask_test _

example : IPAddress_is_netmask 4 0xffffff00 = true ∧ IPAddress_is_hostmask 4 0xff = true := by decide

/-! ### IPAddress: arithmetic -/

/-- `a += n`: the translated text stores exactly the value the model stores, and raises IndexError
    exactly when the model does -/
theorem addr_iadd (a : Addr) (n : Int) :
    IPAddress_iadd a.ver a.val n = (Address.iadd a n).map (fun r => (r.val : Int)) := by
  unfold IPAddress_iadd Address.iadd Address.guardInplace
  split <;> simp_all [Except.map] <;> omega

theorem addr_isub (a : Addr) (n : Int) :
    IPAddress_isub a.ver a.val n = (Address.isub a n).map (fun r => (r.val : Int)) := by
  unfold IPAddress_isub Address.isub Address.guardInplace
  split <;> simp_all [Except.map] <;> omega

/-- what `self.__class__(value, version)` does with the constructor tuple the translation keeps -/
def mkAddr (t : Int × Int) : R Addr := Address.ctor t.1 (some t.2.toNat)

theorem addr_add (a : Addr) (n : Int) :
    (IPAddress_add a.ver a.val n).bind mkAddr = Address.add a n := by
  unfold IPAddress_add Address.add Address.guardNew mkAddr
  by_cases h : 0 ≤ (a.val : Int) + n ∧ (a.val : Int) + n ≤ (maxInt a.ver : Int) <;> simp only [h, and_self, ↓reduceIte, Except.bind, Int.toNat_natCast]

theorem addr_sub (a : Addr) (n : Int) :
    (IPAddress_sub a.ver a.val n).bind mkAddr = Address.sub a n := by
  unfold IPAddress_sub Address.sub Address.guardNew mkAddr
  by_cases h : 0 ≤ (a.val : Int) - n ∧ (a.val : Int) - n ≤ (maxInt a.ver : Int) <;> simp only [h, and_self, ↓reduceIte, Except.bind, Int.toNat_natCast]

theorem addr_rsub (a : Addr) (n : Int) :
    (IPAddress_rsub a.ver a.val n).bind mkAddr = Address.rsub a n := by
  unfold IPAddress_rsub Address.rsub Address.guardNew mkAddr
  by_cases h : 0 ≤ n - (a.val : Int) ∧ n - (a.val : Int) ≤ (maxInt a.ver : Int) <;> simp only [h, and_self, ↓reduceIte, Except.bind, Int.toNat_natCast]

example : (IPAddress_add 4 0xfffffffe 1).bind mkAddr = .ok ⟨4, 0xffffffff⟩ ∧
    (IPAddress_add 4 0xfffffffe 2).bind mkAddr = .error .index := by decide

/-! ### IPAddress: bitwise operators -/

theorem addr_or (a : Addr) (x : Int) : mkAddr (IPAddress_or a.ver a.val x) = Address.or_ a (.int x) := by
  simp [IPAddress_or, mkAddr, Address.or_, Address.Operand.toInt, Py.ior_nat]

theorem addr_and (a : Addr) (x : Int) : mkAddr (IPAddress_and a.ver a.val x) = Address.and_ a (.int x) := by
  simp [IPAddress_and, mkAddr, Address.and_, Address.Operand.toInt, Py.iand_nat]

theorem addr_xor (a : Addr) (x : Int) : mkAddr (IPAddress_xor a.ver a.val x) = Address.xor_ a (.int x) := by
  simp [IPAddress_xor, mkAddr, Address.xor_, Address.Operand.toInt, Py.ixor_nat]

/-- shifts, for the counts Python accepts (`n ≥ 0`; a negative count is Python's ValueError,
    which the hand-written `Address.lshift` models and the translation does not, see `Model/PyOps`) -/
theorem addr_lshift (a : Addr) (n : Nat) : mkAddr (IPAddress_lshift a.ver a.val n) = Address.shl a n := by
  simp [IPAddress_lshift, mkAddr, Address.shl, Py.shl_ofNat]

theorem addr_rshift (a : Addr) (n : Nat) : mkAddr (IPAddress_rshift a.ver a.val n) = Address.shr a n := by
  simp [IPAddress_rshift, mkAddr, Address.shr, Py.shr_ofNat]

/-! ### IPAddress: IPv4 / IPv6 conversion -/

/-- what the caller gets from the optional constructor tuple (`None` is returned by the Python text
    only for a version other than 4 / 6, which no constructed object has: `.other` in the model) -/
def mkAddrOpt : Option (Int × Int) → R Addr
  | some t => mkAddr t
  | none => .error .other

theorem addr_ipv4 (a : Addr) : (IPAddress_ipv4 a.ver a.val).bind mkAddrOpt = Convert.addrIpv4 a := by
  unfold IPAddress_ipv4 Convert.addrIpv4 mkAddrOpt mkAddr Convert.mappedLo Convert.mappedHi
  by_cases h4 : a.ver = 4
  · simp [h4, Except.bind]
  · by_cases h6 : a.ver = 6
    · simp only [h6, Except.bind]
      by_cases h1 : a.val ≤ maxInt 4
      · have : (0 : Int) ≤ (a.val : Int) ∧ (a.val : Int) ≤ ((maxInt 4 : Nat) : Int) := by omega
        simp [h1, this]
      · have : ¬ ((0 : Int) ≤ (a.val : Int) ∧ (a.val : Int) ≤ ((maxInt 4 : Nat) : Int)) := by omega
        simp only [h1, this, ↓reduceIte]
        by_cases h2 : 281470681743360 ≤ a.val ∧ a.val ≤ 281474976710655
        · have : (281470681743360 : Int) ≤ (a.val : Int) ∧ (a.val : Int) ≤ (281474976710655 : Int) := by omega
          simp [h2, this]
        · have : ¬ ((281470681743360 : Int) ≤ (a.val : Int) ∧ (a.val : Int) ≤ (281474976710655 : Int)) := by omega
          simp [h2, this]
    · have e4 : ¬ ((a.ver : Int) = 4) := by omega
      have e6 : ¬ ((a.ver : Int) = 6) := by omega
      simp [h4, h6, e4, e6, Except.bind]

theorem addr_ipv6 (a : Addr) (c : Bool) (hv : a.val < 2 ^ width a.ver) : mkAddrOpt (IPAddress_ipv6 a.ver a.val c) = Convert.addrIpv6 a c := by
  unfold IPAddress_ipv6 Convert.addrIpv6 mkAddrOpt mkAddr Convert.mappedLo Convert.mappedHi
  by_cases h6 : a.ver = 6
  · simp only [h6]
    by_cases h2 : c = true ∧ (281470681743360 ≤ a.val ∧ a.val ≤ 281474976710655)
    · have : c = true ∧ ((281470681743360 : Int) ≤ (a.val : Int) ∧ (a.val : Int) ≤ (281474976710655 : Int)) := by
        refine ⟨h2.1, ?_⟩; omega
      simp [h2, this]
    · have : ¬ (c = true ∧ ((281470681743360 : Int) ≤ (a.val : Int) ∧ (a.val : Int) ≤ (281474976710655 : Int))) := by
        intro h; apply h2; refine ⟨h.1, ?_⟩; omega
      simp [h2, this]
  · by_cases h4 : a.ver = 4
    · have hv' : a.val < 2 ^ 32 := by simpa [h4, width] using hv
      have hc : Address.ctor (a.val : Int) (some 6) = .ok ⟨6, a.val⟩ := by
        simp [Address.ctor, maxInt, width]; omega
      cases c <;> simp [h4, hc]
    · have e4 : ¬ ((a.ver : Int) = 4) := by omega
      have e6 : ¬ ((a.ver : Int) = 6) := by omega
      simp [h4, h6, e4, e6]

example : (IPAddress_ipv4 6 0xffff01020304).bind mkAddrOpt = .ok ⟨4, 0x01020304⟩ ∧
    (IPAddress_ipv4 6 0x1ffff01020304).bind mkAddrOpt = .error .addrConversion := by decide

/-! ### IPNetwork: masks and bounds (`p ≤ width`: the prefix guard of `_set_prefixlen` / `parse_ip_network`) -/

set_option hygiene false in
/-- normal form of everything the IPNetwork attribute functions compute: unfold whatever the current
    source calls (`tie_unfold`), then push the casts through `(1 << (width - p)) - 1`, `^`, `&`, `|` -/
macro "tie_masks" hp:term : tactic =>
  `(tactic| simp only [tie_unfold, Py.hostmask_cast _ _ $hp, Py.ixor_ofNat, Py.iand_ofNat, Py.ior_ofNat])

theorem net_hostmask_int (ver v p : Nat) (hp : p ≤ width ver) :
    IPNetwork_hostmask_int ver v p = (hostmaskInt (width ver) p : Nat) := by
  tie_masks hp

theorem net_netmask_int (ver v p : Nat) (hp : p ≤ width ver) :
    IPNetwork_netmask_int ver v p = (netmaskInt (width ver) p : Nat) := by
  tie_masks hp; rfl

theorem net_first (ver v p : Nat) (hp : p ≤ width ver) :
    IPNetwork_first ver v p = (netFirst (width ver) v p : Nat) := by
  tie_masks hp; rfl

theorem net_last (ver v p : Nat) (hp : p ≤ width ver) :
    IPNetwork_last ver v p = (netLast (width ver) v p : Nat) := by
  tie_masks hp; rfl

theorem first_le_last (w v p : Nat) : netFirst w v p ≤ netLast w v p := by
  unfold netFirst netLast
  exact Nat.le_trans Nat.and_le_left Nat.left_le_or

theorem net_size (ver v p : Nat) (hp : p ≤ width ver) :
    IPNetwork_size ver v p = (netSize (width ver) v p : Nat) := by
  have h1 := net_first ver v p hp
  have h2 := net_last ver v p hp
  have := first_le_last (width ver) v p
  simp only [IPNetwork_size, h1, h2, netSize]
  omega

theorem net_ip (n : Net) : mkAddr (IPNetwork_ip n.ver n.val n.plen) = Address.ctor n.val (some n.ver) := by
  simp [IPNetwork_ip, mkAddr]

theorem net_network (n : Net) (hp : n.plen ≤ width n.ver) :
    IPNetwork_network n.ver n.val n.plen = (((netNetwork (width n.ver) n.val n.plen : Nat) : Int), (n.ver : Int)) := by
  tie_masks hp; rfl

theorem net_netmask (n : Net) (hp : n.plen ≤ width n.ver) :
    IPNetwork_netmask n.ver n.val n.plen = (((netNetmask (width n.ver) n.plen : Nat) : Int), (n.ver : Int)) := by
  tie_masks hp; rfl

theorem net_hostmask (n : Net) (hp : n.plen ≤ width n.ver) :
    IPNetwork_hostmask n.ver n.val n.plen = (((netHostmask (width n.ver) n.plen : Nat) : Int), (n.ver : Int)) := by
  tie_masks hp; rfl

theorem net_broadcast (n : Net) (hp : n.plen ≤ width n.ver) :
    IPNetwork_broadcast n.ver n.val n.plen =
      (netBroadcast n.ver (width n.ver) n.val n.plen).map (fun b => (((b : Nat) : Int), (n.ver : Int))) := by
  tie_masks hp
  unfold netBroadcast
  by_cases h : n.ver = 4 ∧ width n.ver - n.plen ≤ 1
  · have : ((n.ver : Int) = 4) ∧ ((width n.ver : Int) - (n.plen : Int) ≤ 1) := by omega
    rw [if_pos h, if_pos this]; rfl
  · have : ¬ (((n.ver : Int) = 4) ∧ ((width n.ver : Int) - (n.plen : Int) ≤ 1)) := by omega
    rw [if_neg h, if_neg this]; rfl

theorem net_cidr (n : Net) (hp : n.plen ≤ width n.ver) :
    IPNetwork_cidr n.ver n.val n.plen = ((((netCidr n).val : Nat) : Int), (((netCidr n).plen : Nat) : Int), (((netCidr n).ver : Nat) : Int)) := by
  tie_masks hp; rfl

/-- `IPNetwork.sort_key()` -/
theorem net_sort_key (n : Net) (hp : n.plen ≤ width n.ver) :
    (let t := IPNetwork_sort_key n.ver n.val n.plen; [t.1, t.2.1, t.2.2.1, t.2.2.2]) = n.sortKey := by
  tie_masks hp; rfl

example : IPNetwork_first 4 0xC0A80105 24 = 0xC0A80100 ∧ IPNetwork_last 4 0xC0A80105 24 = 0xC0A801FF := by decide

/-! ### IPNetwork: in-place stepping (`n += k`, `n -= k`) -/

theorem net_iadd (n : Net) (num : Int) (hp : n.plen ≤ width n.ver) :
    IPNetwork_iadd n.ver n.val n.plen num = (Subnet.iadd n num).map (fun r => ((r.val : Int), (r.plen : Int))) := by
  have hn := net_network n hp
  have hs := net_size n.ver n.val n.plen hp
  simp only [IPNetwork_iadd, hn, hs, Subnet.iadd]
  generalize ((netSize (width n.ver) n.val n.plen : Nat) : Int) = sz
  generalize ((netNetwork (width n.ver) n.val n.plen : Nat) : Int) = nw
  by_cases h1 : nw + sz * num + (sz - 1) > ((maxInt n.ver : Nat) : Int)
  · simp only [h1, ↓reduceIte, Except.map]
  · simp only [h1, ↓reduceIte]
    by_cases h2 : nw + sz * num < 0
    · simp only [h2, ↓reduceIte, Except.map]
    · simp only [h2, ↓reduceIte, Except.map]
      have : ((nw + sz * num).toNat : Int) = nw + sz * num := Int.toNat_of_nonneg (by omega)
      simp [this]

theorem net_isub (n : Net) (num : Int) (hp : n.plen ≤ width n.ver) :
    IPNetwork_isub n.ver n.val n.plen num = (Subnet.isub n num).map (fun r => ((r.val : Int), (r.plen : Int))) := by
  have hn := net_network n hp
  have hs := net_size n.ver n.val n.plen hp
  simp only [IPNetwork_isub, hn, hs, Subnet.isub]
  generalize ((netSize (width n.ver) n.val n.plen : Nat) : Int) = sz
  generalize ((netNetwork (width n.ver) n.val n.plen : Nat) : Int) = nw
  by_cases h2 : nw - sz * num < 0
  · simp only [h2, ↓reduceIte, Except.map]
  · simp only [h2, ↓reduceIte]
    by_cases h1 : nw - sz * num + (sz - 1) > ((maxInt n.ver : Nat) : Int)
    · simp only [h1, ↓reduceIte, Except.map]
    · simp only [h1, ↓reduceIte, Except.map]
      have : ((nw - sz * num).toNat : Int) = nw - sz * num := Int.toNat_of_nonneg (by omega)
      simp [this]

example : IPNetwork_iadd 4 0xC0A80105 24 1 = .ok (0xC0A80200, 24) ∧
    IPNetwork_iadd 4 0xFFFFFF05 24 1 = .error .index := by decide

/-! ### IPNetwork: IPv6 conversion -/

def mkNetOpt : Option (Int × Int × Int) → R Net
  | some t => Convert.mkNet t.2.2.toNat t.1 t.2.1
  | none => .error .other

theorem net_ipv6 (n : Net) (c : Bool) : mkNetOpt (IPNetwork_ipv6 n.ver n.val n.plen c) = Convert.netIpv6 n c := by
  unfold IPNetwork_ipv6 Convert.netIpv6 mkNetOpt Convert.mappedLo Convert.mappedHi
  by_cases h6 : n.ver = 6
  · simp only [h6]
    by_cases h2 : c = true ∧ (281470681743360 ≤ n.val ∧ n.val ≤ 281474976710655)
    · have : c = true ∧ ((281470681743360 : Int) ≤ (n.val : Int) ∧ (n.val : Int) ≤ (281474976710655 : Int)) := by
        refine ⟨h2.1, ?_⟩; omega
      simp [h2, this]
    · have : ¬ (c = true ∧ ((281470681743360 : Int) ≤ (n.val : Int) ∧ (n.val : Int) ≤ (281474976710655 : Int))) := by
        intro h; apply h2; refine ⟨h.1, ?_⟩; omega
      simp [h2, this]
  · by_cases h4 : n.ver = 4
    · cases c <;> simp [h4]
    · have e4 : ¬ ((n.ver : Int) = 4) := by omega
      have e6 : ¬ ((n.ver : Int) = 6) := by omega
      simp [h4, h6, e4, e6]

/-! ### IPAddress.netmask_bits: the `while i_val > 0` loop -/

theorem tzAux_fuel (f : Nat) : ∀ v, v ≤ f → tzAux (f + 1) v = tzAux f v := by
  induction f with
  | zero => intro v hv; have : v = 0 := by omega
            subst this; simp [tzAux]
  | succ f ih =>
    intro v hv
    rw [tzAux.eq_2 v (f + 1), tzAux.eq_2 v f]
    by_cases h0 : v = 0
    · simp [h0]
    · by_cases h1 : v % 2 = 1
      · simp [h0, h1]
      · simp only [h0, h1, ↓reduceIte]
        rw [ih (v / 2) (by omega)]

/-- the tail of `netmask_bits` after the loop -/
def nbFinish (ver : Nat) (numbits : Int) : R Int :=
  let mask_length : Int := ((width ver : Nat) : Int) - numbits
  if ¬ ((0 : Int) ≤ mask_length ∧ mask_length ≤ ((width ver : Nat) : Int)) then .error .value else .ok mask_length

theorem nb_loop (ver : Nat) (val : Int) : ∀ (f nb i : Nat),
    IPAddress_netmask_bits_loop1 f ver val (nb : Int) (i : Int) = nbFinish ver ((nb : Int) + (tzAux f i : Nat)) := by
  intro f
  induction f with
  | zero => intro nb i; simp [IPAddress_netmask_bits_loop1, tzAux, nbFinish]
  | succ f ih =>
    intro nb i
    rw [IPAddress_netmask_bits_loop1, tzAux]
    by_cases h0 : i = 0
    · have : ¬ ((i : Int) > 0) := by omega
      simp [h0, nbFinish]
    · have hpos : (i : Int) > 0 := by omega
      have hand : Py.iand (i : Int) 1 = ((i % 2 : Nat) : Int) := by
        have : Py.iand (i : Int) ((1 : Nat) : Int) = ((i &&& 1 : Nat) : Int) := Py.iand_ofNat i 1
        rw [Nat.and_one_is_mod] at this
        exact this
      by_cases h1 : i % 2 = 1
      · have : Py.iand (i : Int) 1 = 1 := by rw [hand, h1]; rfl
        simp [h0, h1, this, nbFinish]
      · have hne : ¬ (Py.iand (i : Int) 1 = 1) := by rw [hand]; omega
        have hshr : Py.shr (i : Int) 1 = ((i / 2 : Nat) : Int) := by
          have := Py.shr_ofNat i 1
          rw [this]
          simp [Nat.shiftRight_eq_div_pow]
        simp only [h0, h1, hpos, hne, ↓reduceIte, hshr]
        have := ih (nb + 1) (i / 2)
        have e : ((nb : Int) + 1) = ((nb + 1 : Nat) : Int) := by push_cast; rfl
        rw [e, this]
        congr 1
        push_cast
        omega

/-- a natural-number result read as a Python int -/
def liftNat : R Nat → R Int
  | .ok b => .ok (b : Int)
  | .error e => .error e

theorem addr_netmask_bits (ver v : Nat) :
    IPAddress_netmask_bits ver (v : Int) = liftNat (netmaskBits (width ver) v) := by
  unfold IPAddress_netmask_bits netmaskBits
  rw [is_netmask ver v]
  by_cases hm : isNetmask (width ver) v = true
  · by_cases h0 : v = 0
    · subst h0
      simp [hm, liftNat]
    · have hv : ¬ ((v : Int) = 0) := by omega
      simp only [hm, h0, hv, not_true_eq_false, ↓reduceIte, Bool.not_true, Bool.false_eq_true, Int.toNat_natCast]
      have := nb_loop ver (v : Int) (v + 1) 0 v
      simp only [Int.natCast_zero, Int.zero_add] at this
      rw [this, tzAux_fuel v v (Nat.le_refl v)]
      unfold nbFinish trailingZeros
      by_cases hle : tzAux v v ≤ width ver
      · have h1 : (0 : Int) ≤ ((width ver : Nat) : Int) - ((tzAux v v : Nat) : Int) ∧
            ((width ver : Nat) : Int) - ((tzAux v v : Nat) : Int) ≤ ((width ver : Nat) : Int) := by omega
        have e : ((width ver - tzAux v v : Nat) : Int) = ((width ver : Nat) : Int) - ((tzAux v v : Nat) : Int) := by omega
        simp only [hle, h1, and_self, not_true_eq_false, ↓reduceIte, liftNat, e]
      · have h1 : ¬ ((0 : Int) ≤ ((width ver : Nat) : Int) - ((tzAux v v : Nat) : Int) ∧
            ((width ver : Nat) : Int) - ((tzAux v v : Nat) : Int) ≤ ((width ver : Nat) : Int)) := by omega
        simp only [hle, h1, not_false_eq_true, ↓reduceIte, liftNat]
  · have hm' : isNetmask (width ver) v = false := by simpa using hm
    simp [hm', liftNat]

example : IPAddress_netmask_bits 4 0xffffff00 = .ok 24 ∧ IPAddress_netmask_bits 4 0xffffff01 = .ok 32 := by decide

end NV.Tie
