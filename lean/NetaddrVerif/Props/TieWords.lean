/-
Props/TieWords.lean — translation tie for the generic word codecs of netaddr/strategy/__init__.py
(C15): `valid_words`, `int_to_words`, `words_to_int` — three `for` loops over a count / a list /
an enumerated reversed list — translated from the CURRENT source text and proved equal to
`Codec.validWordsZ`, `Codec.intToWords`, `Codec.wordsToInt`.
-/
import NetaddrVerif.Gen.Trans
import NetaddrVerif.Lemmas.TieL
import NetaddrVerif.Model.Codec
namespace NV.Tie
open NV NV.Trans NV.Codec

theorem pow_cast (n : Nat) : Py.pow 2 (n : Int) = ((2 ^ n : Nat) : Int) := by
  unfold Py.pow; simp

theorem pow_sub_one_cast (n : Nat) : Py.pow 2 (n : Int) - 1 = ((2 ^ n - 1 : Nat) : Int) := by
  rw [pow_cast]
  have : 1 ≤ 2 ^ n := Nat.pos_of_ne_zero (by simp)
  omega

theorem valid_loop (ws : Nat) (words : List Int) (nw : Int) : ∀ items : List Int,
    valid_words_loop1 items words (ws : Int) nw ((2 ^ ws - 1 : Nat) : Int) =
      items.all (fun i => decide (0 ≤ i ∧ i ≤ (2 : Int) ^ ws - 1)) := by
  intro items
  induction items with
  | nil => simp [valid_words_loop1]
  | cons x t ih =>
    rw [valid_words_loop1, ih]
    have e : ((2 ^ ws - 1 : Nat) : Int) = (2 : Int) ^ ws - 1 := by
      have : 1 ≤ 2 ^ ws := Nat.pos_of_ne_zero (by simp)
      push_cast [this]; rfl
    rw [e]
    by_cases h : 0 ≤ x ∧ x ≤ (2 : Int) ^ ws - 1 <;> simp [h]

/-- `valid_words(words, word_size, num_words)` on any list of Python ints -/
theorem valid_words_eq (words : List Int) (ws nw : Nat) :
    valid_words words (ws : Int) (nw : Int) = validWordsZ words ws nw := by
  simp only [tie_unfold, validWordsZ]
  rw [pow_sub_one_cast, valid_loop]
  by_cases h : words.length = nw
  · have : ¬ (((words.length : Nat) : Int) ≠ (nw : Int)) := by omega
    simp [h, this]
  · have : (((words.length : Nat) : Int) ≠ (nw : Int)) := by omega
    simp [h, this]

def liftI (l : List Nat) : List Int := l.map (fun (n : Nat) => (n : Int))

theorem words_loop (ws : Nat) (nw mi : Int) : ∀ (cnt v : Nat) (acc : List Nat),
    int_to_words_loop1 cnt (v : Int) (ws : Int) nw (liftI acc) mi ((2 ^ ws - 1 : Nat) : Int) =
      .ok (liftI (acc ++ wordsLoop ws cnt v)).reverse := by
  intro cnt
  induction cnt with
  | zero => intro v acc; simp [int_to_words_loop1, wordsLoop]
  | succ cnt ih =>
    intro v acc
    rw [int_to_words_loop1]
    simp only [Py.iand_ofNat]
    have hs : Py.shr (v : Int) (ws : Int) = ((v >>> ws : Nat) : Int) := by rw [Py.shr_ofNat]; simp
    have ha : liftI acc ++ [((v &&& (2 ^ ws - 1) : Nat) : Int)] = liftI (acc ++ [v &&& (2 ^ ws - 1)]) := by
      simp [liftI]
    rw [hs, ha, ih (v >>> ws) (acc ++ [v &&& (2 ^ ws - 1)])]
    simp [wordsLoop]

/-- a list result of the model read as Python ints -/
def liftRL : R (List Nat) → R (List Int)
  | .ok l => .ok (liftI l)
  | .error e => .error e

/-- `int_to_words(int_val, word_size, num_words)` on a non-negative integer -/
theorem int_to_words_eq (v ws nw : Nat) :
    int_to_words (v : Int) (ws : Int) (nw : Int) = liftRL (intToWords v ws nw) := by
  simp only [tie_unfold, intToWords]
  have em : ((nw : Int) * (ws : Int)) = ((nw * ws : Nat) : Int) := by push_cast; rfl
  rw [em, pow_sub_one_cast, pow_sub_one_cast]
  have hw := words_loop ws (nw : Int) ((2 ^ (nw * ws) - 1 : Nat) : Int) nw v []
  simp only [liftI, List.map_nil, List.nil_append] at hw
  by_cases h : v ≤ 2 ^ (nw * ws) - 1
  · have : (0 : Int) ≤ (v : Int) ∧ (v : Int) ≤ ((2 ^ (nw * ws) - 1 : Nat) : Int) := by omega
    simp only [h, this, not_true_eq_false, ↓reduceIte, Int.toNat_natCast, liftRL]
    rw [hw]
    simp [liftI, List.map_reverse]
  · have : ¬ ((0 : Int) ≤ (v : Int) ∧ (v : Int) ≤ ((2 ^ (nw * ws) - 1 : Nat) : Int)) := by omega
    simp only [h, this, not_false_eq_true, ↓reduceIte, liftRL]

theorem or_loop (ws : Nat) (words : List Int) (nw : Int) : ∀ (l : List Nat) (i acc : Nat),
    words_to_int_loop1 (liftI l) (i : Int) words (ws : Int) nw (acc : Int) = .ok ((orShift ws l i acc : Nat) : Int) := by
  intro l
  induction l with
  | nil => intro i acc; simp [words_to_int_loop1, liftI, orShift]
  | cons x t ih =>
    intro i acc
    simp only [liftI, List.map_cons]
    rw [words_to_int_loop1]
    have em : ((ws : Int) * (i : Int)) = ((ws * i : Nat) : Int) := by push_cast; rfl
    have hs : Py.shl (x : Int) ((ws * i : Nat) : Int) = ((x <<< (ws * i) : Nat) : Int) := by
      rw [Py.shl_ofNat _ _ (by omega), Int.toNat_natCast]
    have e1 : ((i : Int) + 1) = ((i + 1 : Nat) : Int) := by push_cast; rfl
    simp only [em, hs, Py.ior_ofNat, e1]
    exact ih (i + 1) (acc ||| x <<< (ws * i))

theorem validZ_lift (l : List Nat) (ws nw : Nat) : validWordsZ (liftI l) ws nw = validWords l ws nw := by
  unfold validWordsZ validWords liftI
  simp only [List.length_map, List.all_map]
  congr 1
  congr 1
  funext x
  have : 1 ≤ 2 ^ ws := Nat.pos_of_ne_zero (by simp)
  have e : (2 : Int) ^ ws - 1 = ((2 ^ ws - 1 : Nat) : Int) := by push_cast [this]; rfl
  simp only [Function.comp, e]
  by_cases h : x ≤ 2 ^ ws - 1
  · have : (0 : Int) ≤ (x : Int) ∧ (x : Int) ≤ ((2 ^ ws - 1 : Nat) : Int) := by omega
    simp [h, this]
  · have : ¬ ((0 : Int) ≤ (x : Int) ∧ (x : Int) ≤ ((2 ^ ws - 1 : Nat) : Int)) := by omega
    simp [h, this]

def liftRI : R Nat → R Int
  | .ok n => .ok (n : Int)
  | .error e => .error e

/-- `words_to_int(words, word_size, num_words)` on a sequence of non-negative integers -/
theorem words_to_int_eq (words : List Nat) (ws nw : Nat) :
    words_to_int (liftI words) (ws : Int) (nw : Int) = liftRI (wordsToInt words ws nw) := by
  unfold words_to_int wordsToInt
  rw [valid_words_eq, validZ_lift]
  by_cases h : validWords words ws nw = true
  · simp only [h, not_true_eq_false, ↓reduceIte, liftRI]
    have hr : (liftI words).reverse = liftI words.reverse := by simp [liftI, List.map_reverse]
    rw [hr]
    have := or_loop ws (liftI words) (nw : Int) words.reverse 0 0
    simpa using this
  · have h' : validWords words ws nw = false := by simpa using h
    simp [h', liftRI]

example : int_to_words 0xC0A80105 8 4 = .ok [192, 168, 1, 5] ∧ words_to_int [192, 168, 1, 5] 8 4 = .ok 0xC0A80105 ∧
    words_to_int [192, 168, 1, 256] 8 4 = .error .value ∧ int_to_words (2 ^ 32) 8 4 = .error .index := by decide

end NV.Tie
