import NetaddrVerif.Model.Convert
namespace NV.C16
open NV NV.Convert

theorem placeholder : mappedLo = 0xffff * 2 ^ 32 := by decide

end NV.C16
