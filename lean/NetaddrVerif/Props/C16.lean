/-
Props/C16.lean — property C16 "IPv4/IPv6 conversion is lossless and refuses what cannot
convert".  Property theorems only; helper lemmas are in Lemmas/C16L.

Statement (properties.jsonl): for every IPv4 address or network, ipv6() gives the
IPv4-mapped (::ffff:a.b.c.d) or, on request, IPv4-compatible (::a.b.c.d) IPv6 object with the
same low 32 bits and prefix+96, is_ipv4_mapped()/is_ipv4_compat() recognise exactly those two
/96 blocks, and ipv4() on the result returns the original object; ipv4() on an IPv4 object and
ipv6() on an IPv6 object are identities up to the documented mapped->compatible rewrite.  For
every IPv6 address outside those two /96 blocks, and every IPv6 network whose prefix is
shorter than /96, ipv4() raises AddrConversionError — never another exception and never a
wrong address.

Vocabulary: an IPv6 value `v` lies in the /96 block number `v / 2^32`; block `0` is
`::/96` (IPv4-compatible), block `0xffff` is `::ffff:0:0/96` (IPv4-mapped, first address
`mappedLo = 0xffff00000000`); `v % 2^32` are its low 32 bits.  All theorems are for every
well-formed object (`WF`: version 4 or 6, value < 2^width, prefix ≤ width) — no bounds.
-/
import NetaddrVerif.Lemmas.C16L
namespace NV.C16
open NV NV.Address NV.Convert

/-! ### recognition of the two /96 blocks -/

/-- `is_ipv4_mapped` / `is_ipv4_compat` hold exactly for IPv6 values in `::ffff:0:0/96`
    = `[0xffff00000000, 0xffffffffffff]` and `::/96` = `[0, 0xffffffff]` -/
theorem recognise (ver val : Nat) :
    (isIpv4Mapped ver val = true ↔ ver = 6 ∧ 0xffff00000000 ≤ val ∧ val ≤ 0xffffffffffff) ∧
    (isIpv4Compat ver val = true ↔ ver = 6 ∧ val ≤ 0xffffffff) ∧
    (isIpv4Mapped ver val = true ↔ ver = 6 ∧ val / 2 ^ 32 = 0xffff) ∧
    (isIpv4Compat ver val = true ↔ ver = 6 ∧ val / 2 ^ 32 = 0) := by
  simp only [isIpv4Mapped, isIpv4Compat, shr32, Bool.and_eq_true, beq_iff_eq]
  refine ⟨?_, ?_, ?_, ?_⟩ <;> constructor <;> rintro ⟨h1, h2⟩ <;> refine ⟨h1, ?_⟩ <;> omega

example : isIpv4Mapped 6 0xffff01020304 = true ∧ isIpv4Mapped 6 0xfffeffffffff = false ∧
    isIpv4Mapped 6 0x1000000000000 = false ∧ isIpv4Compat 6 0xffffffff = true ∧
    isIpv4Compat 6 0x100000000 = false ∧ isIpv4Mapped 4 0 = false ∧ isIpv4Compat 4 0 = false := by decide

/-! ### addresses -/

/-- **ipv4() of an address, completely.**  IPv4: identity.  IPv6: the low 32 bits when the value
    is in one of the two /96 blocks, otherwise AddrConversionError. -/
theorem addrIpv4_spec (a : Addr) (h : a.WF) :
    addrIpv4 a =
      if a.ver = 4 then .ok a
      else if a.val / 2 ^ 32 = 0 ∨ a.val / 2 ^ 32 = 0xffff then .ok ⟨4, a.val % 2 ^ 32⟩
      else .error .addrConversion := by
  obtain ⟨hver, hv⟩ := h
  obtain ⟨ver, val⟩ := a
  have hlo := lo_eq; have hhi := hi_eq; have hm4 := m4; have hp4 := p4; have hp6 := p6
  dsimp only at hver hv ⊢
  unfold addrIpv4
  dsimp only
  rcases hver with hver | hver <;> subst hver
  · rw [if_pos rfl, if_pos rfl, ctor_ok' 4 (Or.inl rfl) _ val rfl hv]
  · have n64 : ¬ ((6 : Nat) = 4) := by decide
    rw [if_neg n64, if_neg n64, if_pos rfl]
    by_cases c1 : val ≤ maxInt 4
    · rw [if_pos c1, if_pos (Or.inl (by omega)), ctor_ok' 4 (Or.inl rfl) _ val rfl (by omega)]
      have e : val % 2 ^ 32 = val := by omega
      rw [e]
    · rw [if_neg c1]
      by_cases c2 : mappedLo ≤ val ∧ val ≤ mappedHi
      · rw [if_pos c2, if_pos (Or.inr (by omega)),
          ctor_ok' 4 (Or.inl rfl) ((val : Int) - (mappedLo : Int)) (val - mappedLo) (by omega) (by omega)]
        have e : val - mappedLo = val % 2 ^ 32 := by omega
        rw [e]
      · rw [if_neg c2, if_neg (by omega)]

/-- **ipv6() of an address, completely**: never fails; IPv4 gives offset `0xffff00000000`
    (mapped) or `0` (compatible); IPv6 is the identity except that a mapped value is rewritten
    to the compatible one (same low 32 bits) when `ipv4_compatible` is set. -/
theorem addrIpv6_spec (a : Addr) (c : Bool) (h : a.WF) :
    addrIpv6 a c =
      if a.ver = 4 then .ok ⟨6, match c with | true => a.val | false => mappedLo + a.val⟩
      else .ok ⟨6, if c = true ∧ a.val / 2 ^ 32 = 0xffff then a.val % 2 ^ 32 else a.val⟩ := by
  obtain ⟨hver, hv⟩ := h
  obtain ⟨ver, val⟩ := a
  have hlo := lo_eq; have hhi := hi_eq; have hm4 := m4; have hp4 := p4; have hp6 := p6
  dsimp only at hver hv ⊢
  unfold addrIpv6
  dsimp only
  rcases hver with hver | hver <;> subst hver
  · have n46 : ¬ ((4 : Nat) = 6) := by decide
    rw [if_neg n46, if_pos rfl, if_pos rfl, ctor_ok' 6 (Or.inr rfl) _ val rfl (by omega)]
    cases c
    · dsimp only
      rw [if_pos (by decide), ctor_ok' 6 (Or.inr rfl) _ (mappedLo + val) (by omega) (by omega)]
    · dsimp only
      rw [if_neg (by decide)]
  · have n64 : ¬ ((6 : Nat) = 4) := by decide
    rw [if_pos rfl, if_neg n64]
    by_cases c2 : c = true ∧ mappedLo ≤ val ∧ val ≤ mappedHi
    · rw [if_pos c2, if_pos ⟨c2.1, by omega⟩,
        ctor_ok' 6 (Or.inr rfl) ((val : Int) - (mappedLo : Int)) (val - mappedLo) (by omega) (by omega)]
      have e : val - mappedLo = val % 2 ^ 32 := by omega
      rw [e]
    · rw [if_neg c2, if_neg (fun hc => c2 ⟨hc.1, by omega⟩), ctor_ok' 6 (Or.inr rfl) _ val rfl hv]

/-- **IPv4 → IPv6 → IPv4 is lossless** (addresses): `ipv6()` gives an IPv6 address in the mapped
    (or, on request, compatible) block with the same low 32 bits, recognised as such by the
    predicates, and `ipv4()` of it is the original address. -/
theorem addr_roundtrip (a : Addr) (c : Bool) (h : a.WF) (h4 : a.ver = 4) :
    ∃ r, addrIpv6 a c = .ok r ∧ r.WF ∧ r.ver = 6 ∧ r.val % 2 ^ 32 = a.val ∧
      r.val / 2 ^ 32 = (match c with | true => 0 | false => 0xffff) ∧
      isIpv4Mapped r.ver r.val = !c ∧ isIpv4Compat r.ver r.val = c ∧
      addrIpv4 r = .ok a := by
  have hlo := lo_eq; have hp4 := p4; have hp6 := p6
  have hv : a.val < 4294967296 := by have := h.2; rw [h4, p4] at this; exact this
  rw [addrIpv6_spec a c h, if_pos h4]
  refine ⟨_, rfl, ?_⟩
  obtain ⟨ver, val⟩ := a
  dsimp only at h4 hv ⊢; subst h4
  have n64 : ¬ ((6 : Nat) = 4) := by decide
  cases c <;> dsimp only
  · have hwf : Addr.WF ⟨6, mappedLo + val⟩ := ⟨Or.inr rfl, by show mappedLo + val < 2 ^ width 6; omega⟩
    have hb : (mappedLo + val) / 2 ^ 32 = 0xffff := by omega
    have hr := recognise 6 (mappedLo + val)
    refine ⟨hwf, rfl, by omega, hb, hr.2.2.1.mpr ⟨rfl, hb⟩, ?_, ?_⟩
    · cases hc : isIpv4Compat 6 (mappedLo + val)
      · rfl
      · have := (hr.2.2.2.mp hc).2; omega
    · rw [addrIpv4_spec _ hwf]
      dsimp only
      rw [if_neg n64, if_pos (Or.inr hb)]
      have e : (mappedLo + val) % 2 ^ 32 = val := by omega
      rw [e]
  · have hwf : Addr.WF ⟨6, val⟩ := ⟨Or.inr rfl, by show val < 2 ^ width 6; omega⟩
    have hb : val / 2 ^ 32 = 0 := by omega
    have hr := recognise 6 val
    refine ⟨hwf, rfl, by omega, hb, ?_, hr.2.2.2.mpr ⟨rfl, hb⟩, ?_⟩
    · cases hc : isIpv4Mapped 6 val
      · rfl
      · have := (hr.2.2.1.mp hc).2; omega
    · rw [addrIpv4_spec _ hwf]
      dsimp only
      rw [if_neg n64, if_pos (Or.inl hb)]
      have e : val % 2 ^ 32 = val := by omega
      rw [e]

example : addrIpv6 ⟨4, 0x01020304⟩ false = .ok ⟨6, 0xffff01020304⟩ ∧
    addrIpv6 ⟨4, 0x01020304⟩ true = .ok ⟨6, 0x01020304⟩ ∧
    addrIpv4 ⟨6, 0xffff01020304⟩ = .ok ⟨4, 0x01020304⟩ := by decide

/-- **IPv6 → IPv4 → IPv6 is lossless too**: for an IPv6 address in one of the two blocks,
    `ipv4()` then `ipv6()` into the same block gives the address back. -/
theorem addr_roundtrip64 (a : Addr) (h : a.WF) (h6 : a.ver = 6)
    (hb : a.val / 2 ^ 32 = 0 ∨ a.val / 2 ^ 32 = 0xffff) :
    ∃ b, addrIpv4 a = .ok b ∧ b.WF ∧ b.ver = 4 ∧ b.val = a.val % 2 ^ 32 ∧
      addrIpv6 b (a.val / 2 ^ 32 == 0) = .ok a := by
  have hlo := lo_eq; have hp4 := p4; have hp6 := p6
  rw [addrIpv4_spec a h, if_neg (by rw [h6]; decide), if_pos hb]
  have hwf : Addr.WF ⟨4, a.val % 2 ^ 32⟩ :=
    ⟨Or.inl rfl, by show a.val % 2 ^ 32 < 2 ^ width 4; omega⟩
  refine ⟨_, rfl, hwf, rfl, rfl, ?_⟩
  rw [addrIpv6_spec _ _ hwf]
  obtain ⟨ver, val⟩ := a
  dsimp only at h6 hb ⊢; subst h6
  rw [if_pos rfl]
  rcases hb with hb | hb
  · have e : (val / 2 ^ 32 == 0) = true := by rw [hb]; rfl
    rw [e]; dsimp only
    have e2 : val % 2 ^ 32 = val := by omega
    rw [e2]
  · have e : (val / 2 ^ 32 == 0) = false := by rw [hb]; rfl
    rw [e]; dsimp only
    have e2 : mappedLo + val % 2 ^ 32 = val := by omega
    rw [e2]

/-- **identities**: `ipv4()` of an IPv4 address and `ipv6()` of an IPv6 address return the
    same address, except for the documented rewrite of a mapped address to the compatible
    one (same low 32 bits) under `ipv4_compatible=True`. -/
theorem addr_identities (a : Addr) (h : a.WF) :
    (a.ver = 4 → addrIpv4 a = .ok a) ∧
    (a.ver = 6 → addrIpv6 a false = .ok a) ∧
    (a.ver = 6 → isIpv4Mapped a.ver a.val = false → addrIpv6 a true = .ok a) ∧
    (a.ver = 6 → isIpv4Mapped a.ver a.val = true →
      addrIpv6 a true = .ok ⟨6, a.val % 2 ^ 32⟩ ∧ isIpv4Compat 6 (a.val % 2 ^ 32) = true) := by
  have n64 : ¬ ((6 : Nat) = 4) := by decide
  have hr := recognise a.ver a.val
  refine ⟨?_, ?_, ?_, ?_⟩ <;> intro hv
  · rw [addrIpv4_spec _ h, if_pos hv]
  · rw [addrIpv6_spec _ _ h, if_neg (by rw [hv]; exact n64), if_neg (fun hc => absurd hc.1 (by decide))]
    obtain ⟨ver, val⟩ := a
    dsimp only at hv ⊢; rw [hv]
  · intro hm
    rw [addrIpv6_spec _ _ h, if_neg (by rw [hv]; exact n64), if_neg]
    · obtain ⟨ver, val⟩ := a
      dsimp only at hv ⊢; rw [hv]
    · intro hc
      rw [hr.2.2.1.mpr ⟨hv, hc.2⟩] at hm
      exact absurd hm (by decide)
  · intro hm
    have hb := (hr.2.2.1.mp hm).2
    rw [addrIpv6_spec _ _ h, if_neg (by rw [hv]; exact n64), if_pos ⟨rfl, hb⟩]
    refine ⟨rfl, (recognise 6 (a.val % 2 ^ 32)).2.2.2.mpr ⟨rfl, by omega⟩⟩

/-- **refusal** (addresses): `ipv4()` fails exactly for IPv6 values outside the two /96
    blocks, and then with AddrConversionError — never another exception; `ipv6()` never fails. -/
theorem addr_refuses (a : Addr) (h : a.WF) :
    (∀ e, addrIpv4 a = .error e →
      e = .addrConversion ∧ a.ver = 6 ∧ isIpv4Mapped a.ver a.val = false ∧ isIpv4Compat a.ver a.val = false) ∧
    (a.ver = 6 → isIpv4Mapped a.ver a.val = false → isIpv4Compat a.ver a.val = false →
      addrIpv4 a = .error .addrConversion) ∧
    (∀ c e, addrIpv6 a c ≠ .error e) := by
  have hr := recognise a.ver a.val
  refine ⟨?_, ?_, ?_⟩
  · intro e he
    rw [addrIpv4_spec a h] at he
    split at he
    · simp at he
    · rename_i h4
      have h6 : a.ver = 6 := by rcases h.1 with h' | h'; exact absurd h' h4; exact h'
      split at he
      · simp at he
      · rename_i hb
        injection he with he
        refine ⟨he.symm, h6, ?_, ?_⟩
        · cases hm : isIpv4Mapped a.ver a.val
          · rfl
          · exact absurd (Or.inr (hr.2.2.1.mp hm).2) hb
        · cases hm : isIpv4Compat a.ver a.val
          · rfl
          · exact absurd (Or.inl (hr.2.2.2.mp hm).2) hb
  · intro h6 hm hc
    rw [addrIpv4_spec a h, if_neg (by rw [h6]; decide), if_neg]
    rintro (hb | hb)
    · rw [hr.2.2.2.mpr ⟨h6, hb⟩] at hc; exact absurd hc (by decide)
    · rw [hr.2.2.1.mpr ⟨h6, hb⟩] at hm; exact absurd hm (by decide)
  · intro c e
    rw [addrIpv6_spec a c h]
    split <;> simp

example : addrIpv4 ⟨6, 0x100000000⟩ = .error .addrConversion ∧          -- '::1:0:0'  (finding F3)
    addrIpv4 ⟨6, 0xfffeffffffff⟩ = .error .addrConversion ∧
    addrIpv4 ⟨6, 0x1000000000000⟩ = .error .addrConversion ∧
    addrIpv4 ⟨6, 2 ^ 128 - 1⟩ = .error .addrConversion ∧
    addrIpv4 ⟨6, 0xffffffff⟩ = .ok ⟨4, 0xffffffff⟩ ∧
    addrIpv6 ⟨6, 0xffff00000005⟩ true = .ok ⟨6, 5⟩ := by decide

/-! ### networks -/

/-- **ipv4() of a network, completely.**  IPv4: identity.  IPv6: AddrConversionError when the
    prefix is shorter than /96 or the value is outside the two blocks, otherwise the low 32
    bits (host bits included) with prefix − 96. -/
theorem netIpv4_spec (n : Net) (h : n.WF) :
    netIpv4 n =
      if n.ver = 4 then .ok n
      else if n.plen < 96 then .error .addrConversion
      else if n.val / 2 ^ 32 = 0 ∨ n.val / 2 ^ 32 = 0xffff then .ok ⟨4, n.val % 2 ^ 32, n.plen - 96⟩
      else .error .addrConversion := by
  obtain ⟨hver, hv, hp⟩ := h
  obtain ⟨ver, val, plen⟩ := n
  have hlo := lo_eq; have hhi := hi_eq; have hm4 := m4; have hp4 := p4; have hp6 := p6
  have hw4 := w4; have hw6 := w6
  dsimp only at hver hv hp ⊢
  unfold netIpv4
  dsimp only
  rcases hver with hver | hver <;> subst hver
  · rw [if_pos rfl, if_pos rfl, mkNet_ok' 4 _ _ val plen rfl rfl hv hp]
  · have n64 : ¬ ((6 : Nat) = 4) := by decide
    rw [if_neg n64, if_neg n64, if_pos rfl]
    by_cases c0 : plen < 96
    · rw [if_pos c0, if_pos c0]
    · rw [if_neg c0, if_neg c0]
      by_cases c1 : val ≤ maxInt 4
      · rw [if_pos c1, if_pos (Or.inl (by omega)),
          mkNet_ok' 4 (val : Int) ((plen : Int) - 96) val (plen - 96) rfl (by omega) (by omega) (by omega)]
        have e : val % 2 ^ 32 = val := by omega
        rw [e]
      · rw [if_neg c1]
        by_cases c2 : mappedLo ≤ val ∧ val ≤ mappedHi
        · rw [if_pos c2, if_pos (Or.inr (by omega)),
            mkNet_ok' 4 ((val : Int) - (mappedLo : Int)) ((plen : Int) - 96) (val - mappedLo) (plen - 96)
              (by omega) (by omega) (by omega) (by omega)]
          have e : val - mappedLo = val % 2 ^ 32 := by omega
          rw [e]
        · rw [if_neg c2, if_neg (by omega)]

/-- **ipv6() of a network, completely**: never fails; IPv4 gives the mapped / compatible value
    with prefix + 96; IPv6 is the identity up to the mapped → compatible rewrite. -/
theorem netIpv6_spec (n : Net) (c : Bool) (h : n.WF) :
    netIpv6 n c =
      if n.ver = 4 then .ok ⟨6, match c with | true => n.val | false => mappedLo + n.val, n.plen + 96⟩
      else .ok ⟨6, if c = true ∧ n.val / 2 ^ 32 = 0xffff then n.val % 2 ^ 32 else n.val, n.plen⟩ := by
  obtain ⟨hver, hv, hp⟩ := h
  obtain ⟨ver, val, plen⟩ := n
  have hlo := lo_eq; have hhi := hi_eq; have hm4 := m4; have hp4 := p4; have hp6 := p6
  have hw4 := w4; have hw6 := w6
  dsimp only at hver hv hp ⊢
  unfold netIpv6
  dsimp only
  rcases hver with hver | hver <;> subst hver
  · have n46 : ¬ ((4 : Nat) = 6) := by decide
    rw [if_neg n46, if_pos rfl, if_pos rfl]
    cases c
    · dsimp only
      rw [if_neg (by decide),
        mkNet_ok' 6 ((mappedLo : Int) + (val : Int)) ((plen : Int) + 96) (mappedLo + val) (plen + 96)
          (by omega) (by omega) (by omega) (by omega)]
    · dsimp only
      rw [if_pos rfl,
        mkNet_ok' 6 (val : Int) ((plen : Int) + 96) val (plen + 96) rfl (by omega) (by omega) (by omega)]
  · have n64 : ¬ ((6 : Nat) = 4) := by decide
    rw [if_pos rfl, if_neg n64]
    by_cases c2 : c = true ∧ mappedLo ≤ val ∧ val ≤ mappedHi
    · rw [if_pos c2, if_pos ⟨c2.1, by omega⟩,
        mkNet_ok' 6 ((val : Int) - (mappedLo : Int)) (plen : Int) (val - mappedLo) plen (by omega) rfl (by omega) hp]
      have e : val - mappedLo = val % 2 ^ 32 := by omega
      rw [e]
    · rw [if_neg c2, if_neg (fun hc => c2 ⟨hc.1, by omega⟩), mkNet_ok' 6 _ _ val plen rfl rfl hv hp]

/-- **IPv4 → IPv6 → IPv4 is lossless** (networks, host bits included): same low 32 bits,
    prefix + 96, in the requested block, and `ipv4()` of the result is the original network. -/
theorem net_roundtrip (n : Net) (c : Bool) (h : n.WF) (h4 : n.ver = 4) :
    ∃ r, netIpv6 n c = .ok r ∧ r.WF ∧ r.ver = 6 ∧ r.val % 2 ^ 32 = n.val ∧ r.plen = n.plen + 96 ∧
      r.val / 2 ^ 32 = (match c with | true => 0 | false => 0xffff) ∧
      isIpv4Mapped r.ver r.val = !c ∧ isIpv4Compat r.ver r.val = c ∧
      netIpv4 r = .ok n := by
  have hlo := lo_eq; have hp4 := p4; have hp6 := p6; have hw4 := w4; have hw6 := w6
  have hv : n.val < 4294967296 := by have := h.2.1; rw [h4, p4] at this; exact this
  have hp : n.plen ≤ 32 := by have := h.2.2; rw [h4, w4] at this; exact this
  rw [netIpv6_spec n c h, if_pos h4]
  refine ⟨_, rfl, ?_⟩
  obtain ⟨ver, val, plen⟩ := n
  dsimp only at h4 hv hp ⊢; subst h4
  have n64 : ¬ ((6 : Nat) = 4) := by decide
  have e96 : plen + 96 - 96 = plen := by omega
  cases c <;> dsimp only
  · have hwf : Net.WF ⟨6, mappedLo + val, plen + 96⟩ :=
      ⟨Or.inr rfl, by show mappedLo + val < 2 ^ width 6; omega, by show plen + 96 ≤ width 6; omega⟩
    have hb : (mappedLo + val) / 2 ^ 32 = 0xffff := by omega
    have hr := recognise 6 (mappedLo + val)
    refine ⟨hwf, rfl, by omega, rfl, hb, hr.2.2.1.mpr ⟨rfl, hb⟩, ?_, ?_⟩
    · cases hc : isIpv4Compat 6 (mappedLo + val)
      · rfl
      · have := (hr.2.2.2.mp hc).2; omega
    · rw [netIpv4_spec _ hwf]
      dsimp only
      rw [if_neg n64, if_neg (by omega), if_pos (Or.inr hb)]
      have e : (mappedLo + val) % 2 ^ 32 = val := by omega
      rw [e, e96]
  · have hwf : Net.WF ⟨6, val, plen + 96⟩ :=
      ⟨Or.inr rfl, by show val < 2 ^ width 6; omega, by show plen + 96 ≤ width 6; omega⟩
    have hb : val / 2 ^ 32 = 0 := by omega
    have hr := recognise 6 val
    refine ⟨hwf, rfl, by omega, rfl, hb, ?_, hr.2.2.2.mpr ⟨rfl, hb⟩, ?_⟩
    · cases hc : isIpv4Mapped 6 val
      · rfl
      · have := (hr.2.2.1.mp hc).2; omega
    · rw [netIpv4_spec _ hwf]
      dsimp only
      rw [if_neg n64, if_neg (by omega), if_pos (Or.inl hb)]
      have e : val % 2 ^ 32 = val := by omega
      rw [e, e96]

/-- **IPv6 → IPv4 → IPv6 is lossless too** (networks): for an IPv6 network with prefix ≥ 96 in
    one of the two blocks, `ipv4()` then `ipv6()` into the same block gives the network back. -/
theorem net_roundtrip64 (n : Net) (h : n.WF) (h6 : n.ver = 6) (hp : 96 ≤ n.plen)
    (hb : n.val / 2 ^ 32 = 0 ∨ n.val / 2 ^ 32 = 0xffff) :
    ∃ b, netIpv4 n = .ok b ∧ b.WF ∧ b.ver = 4 ∧ b.val = n.val % 2 ^ 32 ∧ b.plen = n.plen - 96 ∧
      netIpv6 b (n.val / 2 ^ 32 == 0) = .ok n := by
  have hlo := lo_eq; have hp4 := p4; have hp6 := p6; have hw4 := w4; have hw6 := w6
  have hpl : n.plen ≤ 128 := by have := h.2.2; rw [h6, w6] at this; exact this
  rw [netIpv4_spec n h, if_neg (by rw [h6]; decide), if_neg (by omega), if_pos hb]
  have hwf : Net.WF ⟨4, n.val % 2 ^ 32, n.plen - 96⟩ :=
    ⟨Or.inl rfl, by show n.val % 2 ^ 32 < 2 ^ width 4; omega, by show n.plen - 96 ≤ width 4; omega⟩
  refine ⟨_, rfl, hwf, rfl, rfl, rfl, ?_⟩
  rw [netIpv6_spec _ _ hwf]
  obtain ⟨ver, val, plen⟩ := n
  dsimp only at h6 hb hp hpl ⊢; subst h6
  rw [if_pos rfl]
  have e96 : plen - 96 + 96 = plen := by omega
  rcases hb with hb | hb
  · have e : (val / 2 ^ 32 == 0) = true := by rw [hb]; rfl
    rw [e]; dsimp only
    have e2 : val % 2 ^ 32 = val := by omega
    rw [e2, e96]
  · have e : (val / 2 ^ 32 == 0) = false := by rw [hb]; rfl
    rw [e]; dsimp only
    have e2 : mappedLo + val % 2 ^ 32 = val := by omega
    rw [e2, e96]

example : netIpv6 ⟨4, 0x0a000005, 24⟩ false = .ok ⟨6, 0xffff0a000005, 120⟩ ∧
    netIpv6 ⟨4, 0x0a000005, 24⟩ true = .ok ⟨6, 0x0a000005, 120⟩ ∧
    netIpv4 ⟨6, 0xffff0a000005, 120⟩ = .ok ⟨4, 0x0a000005, 24⟩ ∧
    netIpv4 ⟨6, 0x0a000005, 96⟩ = .ok ⟨4, 0x0a000005, 0⟩ := by decide

/-- **identities** (networks) -/
theorem net_identities (n : Net) (h : n.WF) :
    (n.ver = 4 → netIpv4 n = .ok n) ∧
    (n.ver = 6 → netIpv6 n false = .ok n) ∧
    (n.ver = 6 → isIpv4Mapped n.ver n.val = false → netIpv6 n true = .ok n) ∧
    (n.ver = 6 → isIpv4Mapped n.ver n.val = true →
      netIpv6 n true = .ok ⟨6, n.val % 2 ^ 32, n.plen⟩ ∧ isIpv4Compat 6 (n.val % 2 ^ 32) = true) := by
  have n64 : ¬ ((6 : Nat) = 4) := by decide
  have hr := recognise n.ver n.val
  refine ⟨?_, ?_, ?_, ?_⟩ <;> intro hv
  · rw [netIpv4_spec _ h, if_pos hv]
  · rw [netIpv6_spec _ _ h, if_neg (by rw [hv]; exact n64), if_neg (fun hc => absurd hc.1 (by decide))]
    obtain ⟨ver, val, plen⟩ := n
    dsimp only at hv ⊢; rw [hv]
  · intro hm
    rw [netIpv6_spec _ _ h, if_neg (by rw [hv]; exact n64), if_neg]
    · obtain ⟨ver, val, plen⟩ := n
      dsimp only at hv ⊢; rw [hv]
    · intro hc
      rw [hr.2.2.1.mpr ⟨hv, hc.2⟩] at hm
      exact absurd hm (by decide)
  · intro hm
    have hb := (hr.2.2.1.mp hm).2
    rw [netIpv6_spec _ _ h, if_neg (by rw [hv]; exact n64), if_pos ⟨rfl, hb⟩]
    refine ⟨rfl, (recognise 6 (n.val % 2 ^ 32)).2.2.2.mpr ⟨rfl, by omega⟩⟩

/-- **refusal** (networks): `ipv4()` fails exactly for IPv6 networks whose prefix is shorter
    than /96 or whose value is outside the two /96 blocks — always with AddrConversionError,
    never another exception (in particular not the AddrFormatError for a prefix of minus 32
    of finding F3); `ipv6()` never fails. -/
theorem net_refuses (n : Net) (h : n.WF) :
    (∀ e, netIpv4 n = .error e →
      e = .addrConversion ∧ n.ver = 6 ∧
      (n.plen < 96 ∨ (isIpv4Mapped n.ver n.val = false ∧ isIpv4Compat n.ver n.val = false))) ∧
    (n.ver = 6 → n.plen < 96 → netIpv4 n = .error .addrConversion) ∧
    (n.ver = 6 → isIpv4Mapped n.ver n.val = false → isIpv4Compat n.ver n.val = false →
      netIpv4 n = .error .addrConversion) ∧
    (∀ c e, netIpv6 n c ≠ .error e) := by
  have hr := recognise n.ver n.val
  refine ⟨?_, ?_, ?_, ?_⟩
  · intro e he
    rw [netIpv4_spec n h] at he
    split at he
    · simp at he
    · rename_i h4
      have h6 : n.ver = 6 := by rcases h.1 with h' | h'; exact absurd h' h4; exact h'
      split at he
      · rename_i hp
        injection he with he
        exact ⟨he.symm, h6, Or.inl hp⟩
      · split at he
        · simp at he
        · rename_i hb
          injection he with he
          refine ⟨he.symm, h6, Or.inr ⟨?_, ?_⟩⟩
          · cases hm : isIpv4Mapped n.ver n.val
            · rfl
            · exact absurd (Or.inr (hr.2.2.1.mp hm).2) hb
          · cases hm : isIpv4Compat n.ver n.val
            · rfl
            · exact absurd (Or.inl (hr.2.2.2.mp hm).2) hb
  · intro h6 hp
    rw [netIpv4_spec n h, if_neg (by rw [h6]; decide), if_pos hp]
  · intro h6 hm hc
    rw [netIpv4_spec n h, if_neg (by rw [h6]; decide)]
    split
    · rfl
    · rw [if_neg]
      rintro (hb | hb)
      · rw [hr.2.2.2.mpr ⟨h6, hb⟩] at hc; exact absurd hc (by decide)
      · rw [hr.2.2.1.mpr ⟨h6, hb⟩] at hm; exact absurd hm (by decide)
  · intro c e
    rw [netIpv6_spec n c h]
    split <;> simp

example : netIpv4 ⟨6, 0xffff01020304, 64⟩ = .error .addrConversion ∧    -- '::ffff:1.2.3.4/64' (finding F3)
    netIpv4 ⟨6, 0x01020304, 95⟩ = .error .addrConversion ∧
    netIpv4 ⟨6, 0x100000000, 128⟩ = .error .addrConversion ∧
    netIpv4 ⟨6, 0xffff01020304, 96⟩ = .ok ⟨4, 0x01020304, 0⟩ ∧
    netIpv6 ⟨6, 0xffff01020304, 64⟩ true = .ok ⟨6, 0x01020304, 64⟩ := by decide
end NV.C16
