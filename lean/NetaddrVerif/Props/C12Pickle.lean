/-
Props/C12Pickle.lean — property C12, the pickling clause at the level of Python state values:

  "pickle, copy and deepcopy of any IP object, IPSet or EUI give an object with the same str(),
   that compares equal and hashes equal."  (quantifier: all picklable netaddr objects and pickle
   protocols)

Model: the `PyVal` section of Model/ComparePickle.lean (what the driver runs for `roundtrip`).
The truth value of each state is COMPUTED (`truthy (getstate x)`), so "the state is sent to
`__setstate__` under every protocol" is a theorem about each class, not an argument.  IPGlob's
`__setstate__` recomputes the glob text (C17 functions and theorems), IPSet goes through its own
`__reduce__`, OUI / IAB carry their registry records.
-/
import NetaddrVerif.Props.C12
import NetaddrVerif.Props.C17
namespace NV.C12
open NV NV.Cmp

/-- all the ways of copying the property quantifies over -/
example : List How := [.copy, .deepcopy, .pickle 0, .pickle 1, .pickle 2, .pickle 3, .pickle 4, .pickle 5]

/-! ### the state of every class is a non-empty tuple, hence sent under every protocol -/

theorem sends_nonempty_tuple (how : How) (x : PyVal) (xs : List PyVal) :
    sendsState how (.tuple (x :: xs)) = true := by
  cases how <;> simp [sendsState, passesState, truthy]

theorem state_truthy_addr (how : How) (a : Addr) :
    truthy (getstateAddrV a) = true ∧ sendsState how (getstateAddrV a) = true :=
  ⟨rfl, sends_nonempty_tuple how _ _⟩
theorem state_truthy_net (how : How) (n : Net) :
    truthy (getstateNetV n) = true ∧ sendsState how (getstateNetV n) = true :=
  ⟨rfl, sends_nonempty_tuple how _ _⟩
theorem state_truthy_rng (how : How) (r : Rng) :
    truthy (getstateRngV r) = true ∧ sendsState how (getstateRngV r) = true :=
  ⟨rfl, sends_nonempty_tuple how _ _⟩
theorem state_truthy_glob (how : How) (g : Glob.GlobObj) :
    truthy (getstateGlobV g) = true ∧ sendsState how (getstateGlobV g) = true :=
  ⟨rfl, sends_nonempty_tuple how _ _⟩
theorem state_truthy_eui (how : How) (e : Eui) :
    truthy (getstateEuiV e) = true ∧ sendsState how (getstateEuiV e) = true :=
  ⟨rfl, sends_nonempty_tuple how _ _⟩
/-- also when the records list is empty (an OUI of this sandbox): the STATE is the pair -/
theorem state_truthy_oui (how : How) (o : Oui) :
    truthy (getstateOuiV o) = true ∧ sendsState how (getstateOuiV o) = true :=
  ⟨rfl, sends_nonempty_tuple how _ _⟩
theorem state_truthy_iab (how : How) (o : Iab) :
    truthy (getstateIabV o) = true ∧ sendsState how (getstateIabV o) = true :=
  ⟨rfl, sends_nonempty_tuple how _ _⟩

/-- the IPSet state is truthy exactly for a non-empty set: the one class whose state can be
    falsy, which is why it needs `__reduce__` -/
theorem state_truthy_set_iff (s : List Net) : truthy (getstateSetV s) = true ↔ s ≠ [] := by
  cases s <;> simp [getstateSetV, truthy]

/-! ### round trips, for every way of copying -/

theorem reconstructV_sent {α : Type} (how : How) (st : PyVal) (f : PyVal → R α)
    (h : sendsState how st = true) : reconstructV how st f = f st := by
  simp [reconstructV, h]

/-- IPAddress: the rebuilt object is the same (version, value) under copy, deepcopy and every
    pickle protocol -/
theorem state_roundtrip_addr_v (how : How) (a : Addr) (h : a.WF) : roundtripAddrV how a = .ok a := by
  have e : setstateAddrV (getstateAddrV a) = roundtripAddr .copy a := rfl
  unfold roundtripAddrV
  rw [reconstructV_sent _ _ _ (state_truthy_addr how a).2, e, state_roundtrip_addr .copy a h]

/-- IPNetwork: same (version, value incl. host bits, prefix length) -/
theorem state_roundtrip_net_v (how : How) (n : Net) (h : n.WF) : roundtripNetV how n = .ok n := by
  have e : setstateNetV (getstateNetV n) = roundtripNet .copy n := rfl
  unfold roundtripNetV
  rw [reconstructV_sent _ _ _ (state_truthy_net how n).2, e, state_roundtrip_net .copy n h]

/-- IPRange: same (version, start, end) -/
theorem state_roundtrip_rng_v (how : How) (r : Rng) (hv : r.ver = 4 ∨ r.ver = 6)
    (hlo : r.lo ≤ maxInt r.ver) (hhi : r.hi ≤ maxInt r.ver) : roundtripRngV how r = .ok r := by
  have e : setstateRngV (getstateRngV r) = roundtripRng .copy r := rfl
  unfold roundtripRngV
  rw [reconstructV_sent _ _ _ (state_truthy_rng how r).2, e, state_roundtrip_rng .copy r hv hlo hhi]

/-- EUI: same (version, value, dialect class) -/
theorem state_roundtrip_eui_v (how : How) (e : Eui) (hv : e.ver = 48 ∨ e.ver = 64) :
    roundtripEuiV how e = .ok e := by
  have e' : setstateEuiV (getstateEuiV e) = roundtripEui .copy e := rfl
  unfold roundtripEuiV
  rw [reconstructV_sent _ _ _ (state_truthy_eui how e).2, e', state_roundtrip_eui .copy e hv]

/-- OUI: value and records — whatever Python value the records are, the empty list included —
    are restored -/
theorem state_roundtrip_oui (how : How) (o : Oui) : roundtripOuiV how o = .ok o := by
  unfold roundtripOuiV
  rw [reconstructV_sent _ _ _ (state_truthy_oui how o).2]
  cases o; rfl

/-- IAB: value and record are restored -/
theorem state_roundtrip_iab (how : How) (o : Iab) : roundtripIabV how o = .ok o := by
  unfold roundtripIabV
  rw [reconstructV_sent _ _ _ (state_truthy_iab how o).2]
  cases o; rfl

example : roundtripOuiV (.pickle 0) ⟨0, .list []⟩ = .ok ⟨0, .list []⟩ := rfl
example : roundtripAddrV (.pickle 1) ⟨4, 0⟩ = .ok ⟨4, 0⟩ := by decide
example : (⟨6, 5, 128⟩ : Net).WF := by simp [Net.WF, width]

/-! ### IPSet -/

theorem mapM_asTriple (s : List Net) : (s.map getstateNetV).mapM asTriple = .ok (s.map getstateNet) := by
  induction s with
  | nil => rfl
  | cons n t ih =>
    rw [List.map_cons, List.mapM_cons, ih]
    rfl

/-- IPSet through its `__reduce__`: the member networks (the keys of `_cidrs`, pairwise different
    blocks) are rebuilt one for one, for EVERY set — the empty one included — and every way of
    copying -/
theorem state_roundtrip_set_v (how : How) (s : List Net) (hwf : ∀ n ∈ s, n.WF)
    (hd : s.Pairwise (fun a b => a.key ≠ b.key)) : roundtripSetV how s = .ok s := by
  have e : roundtripSetV how s = roundtripSet how s := by
    show setstateSetV (.tuple (s.map getstateNetV)) = _
    simp only [setstateSetV, mapM_asTriple, bind, Except.bind]
    rfl
  rw [e, state_roundtrip_set how s hwf hd]

/-- WITHOUT `IPSet.__reduce__` the default rule loses the empty set under protocols 0 and 1 (its
    state `()` is falsy, `__setstate__` is never called, the object has no `_cidrs`), while
    protocols >= 2 and the copy module would have been fine; WITH it every way works -/
theorem ipset_default_reduce_would_fail :
    roundtripSetDefault (.pickle 0) [] = .error .other ∧
    roundtripSetDefault (.pickle 1) [] = .error .other ∧
    roundtripSetDefault (.pickle 2) [] = .ok [] ∧
    roundtripSetDefault .copy [] = .ok [] ∧ roundtripSetDefault .deepcopy [] = .ok [] ∧
    roundtripSetDefault (.pickle 0) [⟨4, 0, 8⟩] = .ok [⟨4, 0, 8⟩] ∧
    roundtripSetV (.pickle 0) [] = .ok [] ∧ roundtripSetV (.pickle 1) [] = .ok [] := by
  decide

/-- … and in general: the default rule fails exactly for the empty set under protocols 0, 1 -/
theorem ipset_default_reduce_fails_iff (how : How) (s : List Net) (hwf : ∀ n ∈ s, n.WF)
    (hd : s.Pairwise (fun a b => a.key ≠ b.key)) :
    roundtripSetDefault how s = (if s = [] ∧ (how = .pickle 0 ∨ how = .pickle 1) then .error .other else .ok s) := by
  have hok : setstateSetV (getstateSetV s) = .ok s := by
    have := state_roundtrip_set_v .copy s hwf hd
    exact this
  unfold roundtripSetDefault reconstructV
  cases s with
  | nil =>
    cases how with
    | copy => simp [sendsState, getstateSetV, passesState]; exact hok
    | deepcopy => simp [sendsState, getstateSetV, passesState]; exact hok
    | pickle p =>
      by_cases hp : p < 2
      · have : p = 0 ∨ p = 1 := by omega
        simp [sendsState, getstateSetV, passesState, truthy, hp, this]
      · have : ¬ (p = 0 ∨ p = 1) := by omega
        simp [sendsState, getstateSetV, passesState, hp, this]; exact hok
  | cons n t =>
    have hs : sendsState how (getstateSetV (n :: t)) = true := sends_nonempty_tuple how _ _
    simp [hs, hok]

/-! ### IPGlob: bounds AND canonical text survive -/

/-- For every valid glob text `s` and every way of copying: `IPGlob(s)` exists, and its round
    trip is an IPGlob with the same first and last address and the same `str()` — the canonical
    glob text, which `__setstate__` recomputes from the restored bounds (it is not pickled) -/
theorem state_roundtrip_glob (how : How) (s : List Char) (hv : Glob.validGlob s = true) :
    ∃ lo hi g, Glob.ipGlob s = .ok ⟨lo, hi, g⟩ ∧ roundtripGlobV how ⟨lo, hi, g⟩ = .ok ⟨lo, hi, g⟩ ∧
      Glob.validGlob g = true ∧ Glob.globToIptuple g = .ok (lo, hi) ∧
      Glob.globToIptuple s = .ok (lo, hi) := by
  obtain ⟨lo, hi, h1, _, hle, hhi, _⟩ := NV.C17.glob_denotes s hv
  obtain ⟨g, g1, g2, g3⟩ := NV.C17.single_when_shaped s lo hi hv h1
  have hnot : ¬ lo > hi := by omega
  have hobj : Glob.ipGlob s = .ok ⟨lo, hi, g⟩ := by
    simp [Glob.ipGlob, h1, hnot, g1, Glob.setGlob, g3]
  refine ⟨lo, hi, g, hobj, ?_, g2, g3, h1⟩
  have hm : maxInt 4 = 2 ^ 32 - 1 := by decide
  have hr : setstateRngV (getstateRngV ⟨4, lo, hi⟩) = .ok ⟨4, lo, hi⟩ := by
    have := state_roundtrip_rng_v .copy ⟨4, lo, hi⟩ (Or.inl rfl) (by show lo ≤ maxInt 4; omega)
      (by show hi ≤ maxInt 4; omega)
    exact this
  unfold roundtripGlobV
  rw [reconstructV_sent _ _ _ (state_truthy_glob how _).2]
  show setstateGlobV (getstateRngV ⟨4, lo, hi⟩) = _
  simp only [setstateGlobV, hr, bind, Except.bind, g1]
  simp [Glob.setGlob, g3, g1]

example : Glob.ipGlob "10.0.0-255.*".toList = .ok ⟨167772160, 167837695, "10.0.*.*".toList⟩ := by decide +kernel
example : roundtripGlobV (.pickle 0) ⟨167772160, 167837695, "10.0.*.*".toList⟩ =
    .ok ⟨167772160, 167837695, "10.0.*.*".toList⟩ := by decide +kernel
/-- the text really is recomputed: a (hypothetical) object carrying a non-canonical text comes
    back with the canonical one -/
example : roundtripGlobV .copy ⟨167772160, 167837695, "10.0.0-255.*".toList⟩ =
    .ok ⟨167772160, 167837695, "10.0.*.*".toList⟩ := by decide +kernel

/-! ### all object kinds, all ways of copying, all observations -/

/-- the objects the property quantifies over: well-formed IP objects, an IPGlob built from a
    valid glob text, an IPSet whose members are well-formed pairwise different blocks, an EUI of
    one of the two families, any OUI / IAB -/
def PWF : PObj → Prop
  | .addr a => a.WF
  | .net n => n.WF
  | .rng r => (r.ver = 4 ∨ r.ver = 6) ∧ r.lo ≤ maxInt r.ver ∧ r.hi ≤ maxInt r.ver
  | .glob g => ∃ s, Glob.validGlob s = true ∧ Glob.ipGlob s = .ok g
  | .set s => (∀ n ∈ s, n.WF) ∧ s.Pairwise (fun a b => a.key ≠ b.key)
  | .eui e => e.ver = 48 ∨ e.ver = 64
  | .oui _ => True
  | .iab _ => True

/-- copy, deepcopy and pickle under every protocol rebuild the identical value-level object, for
    every kind of picklable object -/
theorem roundtrip_all (how : How) (x : PObj) (hx : PWF x) : roundtripV how x = .ok x := by
  cases x with
  | addr a => simp only [roundtripV, state_roundtrip_addr_v how a hx]; rfl
  | net n => simp only [roundtripV, state_roundtrip_net_v how n hx]; rfl
  | rng r => simp only [roundtripV, state_roundtrip_rng_v how r hx.1 hx.2.1 hx.2.2]; rfl
  | glob g =>
    obtain ⟨s, hv, hg⟩ := hx
    obtain ⟨lo, hi, t, h1, h2, _⟩ := state_roundtrip_glob how s hv
    rw [hg] at h1
    injection h1 with h1; subst h1
    simp only [roundtripV, h2]; rfl
  | set s => simp only [roundtripV, state_roundtrip_set_v how s hx.1 hx.2]; rfl
  | eui e => simp only [roundtripV, state_roundtrip_eui_v how e hx]; rfl
  | oui o => simp only [roundtripV, state_roundtrip_oui how o]; rfl
  | iab o => simp only [roundtripV, state_roundtrip_iab how o]; rfl

/-- the value-level fields `str()` is a function of: version/value, + prefix length, bounds, the
    glob TEXT for an IPGlob, the member networks for an IPSet, + dialect class for an EUI -/
def strFields : PObj → PyVal
  | .addr a => .tuple [.int a.ver, .int a.val]
  | .net n => .tuple [.int n.ver, .int n.val, .int n.plen]
  | .rng r => .tuple [.int r.ver, .int r.lo, .int r.hi]
  | .glob g => .str g.glob
  | .set s => .list (s.map fun n => .tuple [.int n.ver, .int n.val, .int n.plen])
  | .eui e => .tuple [.int e.ver, .int e.val, .cls e.dialect]
  | .oui o => .int o.val
  | .iab o => .int o.val

/-- what `==` and `hash()` look at: `key()` for IP objects (an IPGlob is a block: version, first,
    last), the dict of member networks for an IPSet, (version, value) for an EUI, the value for
    OUI / IAB -/
def eqFields : PObj → PyVal
  | .addr a => .tuple (a.key.map .int)
  | .net n => .tuple (n.key.map .int)
  | .rng r => .tuple (r.key.map .int)
  | .glob g => .tuple ((Rng.key ⟨4, g.lo, g.hi⟩).map .int)
  | .set s => .list (s.map fun n => .tuple (n.key.map .int))
  | .eui e => .tuple [.int e.ver, .int e.val]
  | .oui o => .int o.val
  | .iab o => .int o.val

/-- Same `str()`, equal, not unequal, equal hash — for ALL kinds of objects (IPAddress, IPNetwork,
    IPRange, IPGlob, IPSet, EUI, OUI, IAB), every way of copying, and whatever functions of the
    respective fields `str` / `==` / `hash` are (`==` reflexive on its fields). -/
theorem roundtrip_observations_all (how : How) (x : PObj) (hx : PWF x)
    (str : PyVal → String) (eqv : PyVal → PyVal → Bool) (hash : PyVal → Int)
    (hrefl : ∀ v, eqv v v = true) :
    ∃ y, roundtripV how x = .ok y ∧ str (strFields y) = str (strFields x) ∧
      eqv (eqFields y) (eqFields x) = true ∧ (!eqv (eqFields y) (eqFields x)) = false ∧
      hash (eqFields y) = hash (eqFields x) :=
  ⟨x, roundtrip_all how x hx, rfl, hrefl _, by simp [hrefl], rfl⟩

example : PWF (.glob ⟨167772160, 167837695, "10.0.*.*".toList⟩) :=
  ⟨"10.0.0-255.*".toList, by decide +kernel, by decide +kernel⟩
example : PWF (.set [⟨4, 0, 8⟩, ⟨6, 0, 64⟩]) := by
  refine ⟨?_, by decide⟩
  intro n hn
  simp only [List.mem_cons, List.mem_nil_iff, or_false] at hn
  rcases hn with rfl | rfl <;> simp [Net.WF, width]
example : PWF (.set []) := ⟨by simp, by simp⟩

end NV.C12
