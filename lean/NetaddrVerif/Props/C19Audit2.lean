/-
Props/C19Audit2.lean — C19, audit round 2, finding 5: the observations `IPNetwork.info`, `IPRange.info`
and `EUI.oui / .iab / .info`.

`.info` is a `BaseIP` property (netaddr/ip/__init__.py:228-236), so `iana.query` also runs on blocks:
`_within_bounds(block, key)` is block-in-block containment (C04's `netContains` / `rngContains`) or, for a
single-address key, `block == address` (never true), and `block.is_multicast()` is `block in IPV4_MULTICAST`.
`EUI.info` (netaddr/eui/__init__.py:729-739) composes `OUI(value >> 24 | 40).registration()` and, iff
`is_iab()`, `IAB(value >> 12 | 28).registration()`.

Proved here, about `Registry.queryObjD` and `Registry.euiOui / euiIab / euiInfo` (what the driver ops
`iana_query_obj` and `eui_info` execute):
  * `withinBoundsObj_iff`, `isMulticastObj4_iff`, `queryObjD_exact` — per registry key, the dict of a block's
    `.info` has exactly the records whose published block or range CONTAINS THE WHOLE operand
    (`first..last` of the operand inside the record's `first..last`); a single-address record is returned
    only for an `IPAddress` operand; `Multicast` only when the whole operand lies in `IPV4_MULTICAST`;
  * `queryObjD_addr` — on an address operand it is `queryD` (so `queryD_exact` is the special case);
  * `shipped_keys_wf` — the hypothesis of `queryObjD_exact` holds for the regenerated tables;
  * `euiOui_exact`, `euiIab_exact`, `euiInfo_exact`, `euiInfo_offsets`, `euiInfo_err` — the EUI compositions
    over `lookup_exact_oui` / `lookup_exact_iab`, in terms of the records of the two registry texts only.
-/
import NetaddrVerif.Props.C19Exact
import NetaddrVerif.Lemmas.C19LAudit2
import NetaddrVerif.Lemmas.C04L
namespace NV.C19A2
open NV NV.Registry NV.C19 NV.C19L NV.Contains

/-! ## `.info` of a block -/

/-- The published block or range of `k` contains the whole operand `x`.  For a single-address key the code
    compares `key()` tuples (`ip == ip_range`), which is true only for an `IPAddress` operand with that
    version and value. -/
def coversObj (k : Key) (x : Obj) : Prop :=
  match k with
  | .addr a => x = .addr a
  | k => Key.ver k = x.ver ∧ Key.first k ≤ x.first ∧ x.last ≤ Key.last k

/-- a registry key no constructor / loader can fail to satisfy: a network key is a valid `IPNetwork` -/
def KeyWF : Key → Prop
  | .net n => n.WF
  | _ => True

/-- **`_within_bounds` on any operand is interval inclusion** (for single-address keys: identity) -/
theorem withinBoundsObj_iff (x : Obj) (k : Key) (hk : KeyWF k) (hx : x.WF) :
    withinBoundsObj x k = true ↔ coversObj k x := by
  cases k with
  | net n =>
    have hn : n.WF := hk
    have hfl := net_first_last n hn.2.1
    simp only [withinBoundsObj, coversObj, Key.ver]
    rw [Contains.netContains_iff n x hn hx, hfl.1, hfl.2]
    exact ⟨fun h => ⟨h.1.symm, h.2⟩, fun h => ⟨h.1.symm, h.2⟩⟩
  | rng r =>
    simp only [withinBoundsObj, coversObj, Key.ver, Key.first, Key.last]
    rw [Contains.rngContains_iff r x hx]
    exact ⟨fun h => ⟨h.1.symm, h.2⟩, fun h => ⟨h.1.symm, h.2⟩⟩
  | addr a =>
    cases x with
    | addr b =>
      simp only [withinBoundsObj, coversObj, Bool.and_eq_true, beq_iff_eq, Obj.addr.injEq]
      constructor
      · rintro ⟨h1, h2⟩; cases a; cases b; simp_all
      · rintro rfl; exact ⟨rfl, rfl⟩
    | net n => simp [withinBoundsObj, coversObj]
    | rng r => simp [withinBoundsObj, coversObj]

/-- an address operand: `coversObj` is `covers` -/
theorem coversObj_addr (k : Key) (a : Addr) : coversObj k (.addr a) ↔ covers k a := by
  cases k with
  | addr b =>
    simp only [coversObj, covers, Key.ver, Key.first, Key.last, Obj.addr.injEq]
    constructor
    · rintro rfl; exact ⟨rfl, Nat.le_refl _, Nat.le_refl _⟩
    · rintro ⟨h1, h2, h3⟩; cases a; cases b; simp_all; omega
  | net n => simp [coversObj, covers, Obj.ver, Obj.first, Obj.last]
  | rng r => simp [coversObj, covers, Obj.ver, Obj.first, Obj.last]

theorem multicastNet_wf : KeyWF multicastNet := by
  refine ⟨Or.inl rfl, ?_, ?_⟩ <;> decide

/-- the gate of the multicast registry for a block: the WHOLE block lies in `IPV4_MULTICAST` -/
theorem isMulticastObj4_iff (x : Obj) (hx : x.WF) : isMulticastObj4 x = true ↔ coversObj multicastNet x :=
  withinBoundsObj_iff x multicastNet multicastNet_wf hx

theorem mem_scanObj (x : Obj) (hx : x.WF) (t : List Rec) (ht : ∀ r ∈ t, KeyWF r.key) (r : Rec) :
    r ∈ scanObj x t ↔ r ∈ t ∧ coversObj r.key x := by
  simp only [scanObj, List.mem_filter]
  constructor
  · rintro ⟨h1, h2⟩; exact ⟨h1, (withinBoundsObj_iff x r.key (ht r h1) hx).mp h2⟩
  · rintro ⟨h1, h2⟩; exact ⟨h1, (withinBoundsObj_iff x r.key (ht r h1) hx).mpr h2⟩

/-- every key of the four tables is a valid key -/
def TablesWF (T : Tables) : Prop :=
  (∀ r ∈ T.ipv4, KeyWF r.key) ∧ (∀ r ∈ T.ipv6, KeyWF r.key) ∧
  (∀ r ∈ T.ipv6u, KeyWF r.key) ∧ (∀ r ∈ T.mcast, KeyWF r.key)

/-- **queryObjD_exact (finding 5, IP side)**: `.info` of ANY `BaseIP` object `x` (address, network with any
    host bits, range, glob), per registry key of the returned dict — the key is absent iff no record of that
    registry contains the whole of `x` (for `Multicast`: or `x` is not IPv4 or does not lie wholly inside
    `IPV4_MULTICAST`; keys of the other family are always absent); a present key maps to a NON-EMPTY list,
    in registry order, of exactly the records whose published block or range contains `first..last` of `x`
    (a single-address record only when `x` is that very `IPAddress`). -/
theorem queryObjD_exact (T : Tables) (hT : TablesWF T) (x : Obj) (hx : x.WF) :
    EntryExact (queryObjD T x).ipv4 T.ipv4 (fun r => x.ver = 4 ∧ coversObj r.key x) ∧
    EntryExact (queryObjD T x).mcast T.mcast
      (fun r => x.ver = 4 ∧ coversObj multicastNet x ∧ coversObj r.key x) ∧
    EntryExact (queryObjD T x).ipv6 T.ipv6 (fun r => x.ver = 6 ∧ coversObj r.key x) ∧
    EntryExact (queryObjD T x).ipv6u T.ipv6u (fun r => x.ver = 6 ∧ coversObj r.key x) := by
  have hsub : ∀ t, (scanObj x t).Sublist t := fun t => List.filter_sublist
  have hnone : ∀ (t : List Rec) (P : Rec → Prop), (∀ r ∈ t, ¬ P r) → EntryExact none t P := by
    intro t P h
    exact ⟨⟨fun _ => h, fun _ => rfl⟩, fun l hl => by cases hl⟩
  have hmc := isMulticastObj4_iff x hx
  unfold queryObjD
  by_cases h4 : x.ver = 4
  · rw [if_pos h4]
    dsimp only
    simp only [scanObjD_none]
    refine ⟨entryExact_of _ _ _ (hsub _) ?_, ?_, hnone _ _ ?_, hnone _ _ ?_⟩
    · intro r; rw [mem_scanObj x hx _ hT.1]; exact ⟨fun h => ⟨h.1, h4, h.2⟩, fun h => ⟨h.1, h.2.2⟩⟩
    · by_cases hm : isMulticastObj4 x = true
      · rw [if_pos hm]
        refine entryExact_of _ _ _ (hsub _) ?_
        intro r
        rw [mem_scanObj x hx _ hT.2.2.2]
        exact ⟨fun h => ⟨h.1, h4, hmc.mp hm, h.2⟩, fun h => ⟨h.1, h.2.2.2⟩⟩
      · rw [if_neg hm]
        exact hnone _ _ (fun r _ h => hm (hmc.mpr h.2.1))
    · intro r _ h; have := h.1; omega
    · intro r _ h; have := h.1; omega
  · by_cases h6 : x.ver = 6
    · rw [if_neg h4, if_pos h6]
      dsimp only
      simp only [scanObjD_none]
      refine ⟨hnone _ _ ?_, hnone _ _ ?_, entryExact_of _ _ _ (hsub _) ?_, entryExact_of _ _ _ (hsub _) ?_⟩
      · intro r _ h; exact h4 h.1
      · intro r _ h; exact h4 h.1
      · intro r; rw [mem_scanObj x hx _ hT.2.1]; exact ⟨fun h => ⟨h.1, h6, h.2⟩, fun h => ⟨h.1, h.2.2⟩⟩
      · intro r; rw [mem_scanObj x hx _ hT.2.2.1]; exact ⟨fun h => ⟨h.1, h6, h.2⟩, fun h => ⟨h.1, h.2.2⟩⟩
    · rw [if_neg h4, if_neg h6]
      exact ⟨hnone _ _ (fun r _ h => h4 h.1), hnone _ _ (fun r _ h => h4 h.1),
        hnone _ _ (fun r _ h => h6 h.1), hnone _ _ (fun r _ h => h6 h.1)⟩

/-- on an `IPAddress` operand the block query IS the address query of `Props/C19Exact.lean` -/
theorem queryObjD_addr (T : Tables) (a : Addr) : queryObjD T (.addr a) = queryD T a := by
  unfold queryObjD queryD isMulticastObj4 isMulticast4
  simp only [Obj.ver, scanObjD_addr, withinBoundsObj_addr]
  by_cases h4 : a.ver = 4
  · have e : (⟨4, a.val⟩ : Addr) = a := by cases a; simp_all
    rw [if_pos h4, if_pos h4, e]
  · rw [if_neg h4, if_neg h4]

/-- a valid row (`C19.validRow`) of kind 0 read as a key (`Driver.C19.mkKey`) is a valid `IPNetwork` -/
theorem validRow_net_wf (ver x y : Nat) (h : validRow (0, ver, x, y) = true) : KeyWF (.net ⟨ver, x, y⟩) := by
  simp only [validRow, ↓reduceIte, Bool.and_eq_true, Bool.or_eq_true, beq_iff_eq, decide_eq_true_eq] at h
  exact ⟨h.1.1, h.1.2, h.2⟩

/-- **the hypothesis `TablesWF` holds for the shipped data**: every network row of the four regenerated
    tables (what the driver's `genTables` is built from) is a valid `IPNetwork` key (via
    `C19.shipped_tables_valid`, re-checked by the kernel whenever the data changes) -/
theorem shipped_keys_wf (ver x y : Nat)
    (h : (0, ver, x, y) ∈ Gen.ianaIPv4 ++ Gen.ianaIPv6 ++ Gen.ianaIPv6Unicast ++ Gen.ianaMulticast) :
    KeyWF (.net ⟨ver, x, y⟩) := by
  have hv := shipped_tables_valid
  simp only [Bool.and_eq_true, List.all_eq_true] at hv
  apply validRow_net_wf
  simp only [List.mem_append] at h
  rcases h with ((h | h) | h) | h
  · exact hv.1.1.1 _ h
  · exact hv.1.1.2 _ h
  · exact hv.1.2 _ h
  · exact hv.2 _ h

/-- a block that is NOT wholly inside a record is not reported by it, even when they overlap; and a /32
    never matches the single-address record of its own address (non-vacuity of the two ways a block's
    `.info` differs from its addresses') -/
example : queryObjD ⟨[⟨0, .net ⟨4, 0x0A000000, 8⟩⟩, ⟨1, .net ⟨4, 0x0A000000, 16⟩⟩], [], [],
      [⟨0, .rng ⟨4, 0xE0000100, 0xE00001FF⟩⟩, ⟨1, .addr ⟨4, 0xE0000101⟩⟩]⟩ (.net ⟨4, 0x0A000001, 12⟩)
    = ⟨some [⟨0, .net ⟨4, 0x0A000000, 8⟩⟩], none, none, none⟩ := by decide +kernel
example : queryObjD ⟨[], [], [], [⟨0, .rng ⟨4, 0xE0000100, 0xE00001FF⟩⟩, ⟨1, .addr ⟨4, 0xE0000101⟩⟩]⟩
      (.net ⟨4, 0xE0000101, 32⟩) = ⟨none, none, none, some [⟨0, .rng ⟨4, 0xE0000100, 0xE00001FF⟩⟩]⟩ := by
  decide +kernel
example : queryObjD ⟨[], [], [], [⟨0, .rng ⟨4, 0xE0000100, 0xE00001FF⟩⟩]⟩ (.rng ⟨4, 0xDFFFFFFF, 0xE0000101⟩)
    = ⟨none, none, none, none⟩ := by decide +kernel
example : TablesWF ⟨[⟨0, .net ⟨4, 0x0A000000, 8⟩⟩], [], [], [⟨0, .rng ⟨4, 0xE0000100, 0xE00001FF⟩⟩]⟩ ∧
    (Obj.net ⟨4, 0x0A000001, 12⟩).WF := by
  refine ⟨⟨?_, by simp, by simp, ?_⟩, Or.inl rfl, by decide, by decide⟩
  · intro r hr; simp at hr; subst hr; exact ⟨Or.inl rfl, by decide, by decide⟩
  · intro r hr; simp at hr; subst hr; trivial

/-! ## `EUI.oui`, `EUI.iab`, `EUI.info` -/

/-- a constructible `EUI`: EUI-48 with a 48-bit value or EUI-64 with a 64-bit value -/
def EuiWF (ver val : Nat) : Prop := (ver = 48 ∧ val < 2 ^ 48) ∨ (ver = 64 ∧ val < 2 ^ 64)

/-- the 24-bit OUI of an EUI: its top 24 bits -/
def ouiOf (ver val : Nat) : Nat := val / 2 ^ (ver - 24)
/-- the 36-bit IAB identifier of an EUI: its top 36 bits -/
def iabOf (ver val : Nat) : Nat := val / 2 ^ (ver - 36)
/-- the EUI lies in one of the two IAB ranges (`00-50-C2`, `40-D8-55`) -/
def IsIab (ver val : Nat) : Prop := ouiOf ver val = 0x0050c2 ∨ ouiOf ver val = 0x40d855

theorem euiOuiArg_eq (ver val : Nat) (hw : EuiWF ver val) : euiOuiArg ver val = some (ouiOf ver val) := by
  rcases hw with ⟨rfl, _⟩ | ⟨rfl, _⟩ <;> simp [euiOuiArg, ouiOf, Nat.shiftRight_eq_div_pow]

theorem euiIabArg_eq (ver val : Nat) (hw : EuiWF ver val) : euiIabArg ver val = some (iabOf ver val) := by
  rcases hw with ⟨rfl, _⟩ | ⟨rfl, _⟩ <;> simp [euiIabArg, iabOf, Nat.shiftRight_eq_div_pow]

theorem euiIsIab_iff (ver val : Nat) (hw : EuiWF ver val) : euiIsIab ver val = true ↔ IsIab ver val := by
  rcases hw with ⟨rfl, _⟩ | ⟨rfl, _⟩ <;>
    simp [euiIsIab, IsIab, ouiOf, iabEuiValues, Nat.shiftRight_eq_div_pow]

theorem ouiOf_le (ver val : Nat) (hw : EuiWF ver val) : ouiOf ver val ≤ 0xffffff := by
  rcases hw with ⟨rfl, h⟩ | ⟨rfl, h⟩ <;> simp only [ouiOf] <;> omega

/-- the IAB identifier extends the OUI: its top 24 of 36 bits are the OUI -/
theorem iabOf_shr (ver val : Nat) (hw : EuiWF ver val) : iabOf ver val >>> 12 = ouiOf ver val := by
  rcases hw with ⟨rfl, h⟩ | ⟨rfl, h⟩ <;>
    simp only [iabOf, ouiOf, Nat.shiftRight_eq_div_pow, Nat.div_div_eq_div_mul] <;> rfl

/-- `split_iab_mac` returns the 36-bit identifier of an IAB-range EUI unchanged -/
theorem splitIabMac_iab (ver val : Nat) (hw : EuiWF ver val) (hi : IsIab ver val) (strict : Bool) :
    splitIabMac (iabOf ver val) strict = .ok (iabOf ver val, 0) := by
  unfold splitIabMac
  rw [iabOf_shr ver val hw]
  have : iabEuiValues.contains (ouiOf ver val) = true := by
    rcases hi with h | h <;> rw [h] <;> decide
  rw [if_pos this]

section compose
variable (bo bi : List Nat) (idxO idxI : List (Int × Nat × Nat)) (decode : List Nat → List Char)

/-- `EUI.oui` reading the registry text `bo` through its own loaded index -/
abbrev ouiThrough (ver val : Nat) := euiOui (fun o s => decode (slice bo o s)) (dictView idxO) ver val
/-- `EUI.iab` reading the registry text `bi` through its own loaded index -/
abbrev iabThrough (ver val : Nat) := euiIab (fun o s => decode (slice bi o s)) (dictView idxI) ver val
/-- `EUI.info` reading both texts through their own loaded indices -/
abbrev infoThrough (ver val : Nat) :=
  euiInfo (fun o s => decode (slice bo o s)) (dictView idxO) (fun o s => decode (slice bi o s)) (dictView idxI) ver val

/-- the records of the OUI text carrying the OUI of the EUI -/
abbrev ouiRecs (ver val : Nat) := carrying ouiStart ouiCont ouiKeyCell bo (ouiOf ver val)
/-- the records of the IAB text carrying the IAB identifier of the EUI -/
abbrev iabRecs (ver val : Nat) := carrying iabStart iabCont iabKeyCell bi (iabOf ver val)

/-- **EUI.oui, exactly**: never `None` for a constructible EUI; it is `OUI(top 24 bits)` — NotRegisteredError iff
    no record of the OUI registry text carries the top 24 bits of the value the EUI has NOW; otherwise one
    registration per carrying record, all of them, in file order, each the parse of that record's bytes. -/
theorem euiOui_exact (h : ouiPipeline bo = .ok idxO) (ver val : Nat) (hw : EuiWF ver val) :
    (ouiThrough bo idxO decode ver val).map (Option.map (List.map (fun x => x.2.2))) =
      (if ouiRecs bo ver val = [] then .error .notRegistered
       else ((ouiRecs bo ver val).mapM (fun r => parseRecord (decode r.flatten))).map some) := by
  have hl := (lookup_exact_oui bo idxO h decode (ouiOf ver val)).1
  simp only [ouiThrough, ouiRecs, euiOui, euiOuiArg_eq ver val hw, ouiOfInt, ouiCtorInt, ouiOf_le ver val hw,
    ↓reduceIte]
  simp only [bind, Except.bind, pure, Except.pure]
  generalize ouiRecords (fun o s => decode (slice bo o s)) (dictView idxO) (ouiOf ver val) = X at hl ⊢
  by_cases hc : carrying ouiStart ouiCont ouiKeyCell bo (ouiOf ver val) = []
  · rw [if_pos hc] at hl ⊢
    cases X with
    | error e => simp only [Except.map] at hl ⊢; injection hl with hl; subst hl; rfl
    | ok rs => simp [Except.map] at hl
  · rw [if_neg hc] at hl ⊢
    rw [← hl]
    cases X <;> rfl

/-- **EUI.iab, exactly**: `None` iff the EUI is outside the two IAB ranges; inside, it is
    `IAB(top 36 bits)` — NotRegisteredError iff no record of the IAB registry text carries them, otherwise the
    parse of the FIRST carrying record. -/
theorem euiIab_exact (h : iabPipeline bi = .ok idxI) (ver val : Nat) (hw : EuiWF ver val) :
    (¬ IsIab ver val → iabThrough bi idxI decode ver val = .ok none) ∧
    (IsIab ver val →
      (iabThrough bi idxI decode ver val).map (Option.map (fun x => x.2.2)) =
        (match iabRecs bi ver val with
         | [] => .error .notRegistered
         | r :: _ => (parseRecord (decode r.flatten)).map some)) := by
  constructor
  · intro hn
    have : euiIsIab ver val = false := by
      rw [← Bool.not_eq_true, euiIsIab_iff ver val hw]; exact hn
    simp [euiIab, this]
  · intro hi
    have hl := (lookup_exact_iab bi idxI h decode (iabOf ver val)).1
    have hb : euiIsIab ver val = true := (euiIsIab_iff ver val hw).mpr hi
    simp only [iabThrough, iabRecs, euiIab, hb, ↓reduceIte, euiIabArg_eq ver val hw, iabOfInt,
      splitIabMac_iab ver val hw hi]
    simp only [bind, Except.bind, pure, Except.pure]
    generalize iabRecord (fun o s => decode (slice bi o s)) (dictView idxI) (iabOf ver val) = X at hl ⊢
    generalize carrying iabStart iabCont iabKeyCell bi (iabOf ver val) = cs at hl ⊢
    cases cs with
    | nil =>
      cases X with
      | error e => simp only [Except.map] at hl ⊢; injection hl with hl; subst hl; rfl
      | ok r => simp [Except.map] at hl
    | cons q rest =>
      simp only at hl ⊢
      rw [← hl]
      cases X <;> rfl

/-- what `EUI.info` must be, said with the two registry texts only: the parse of the FIRST record carrying
    the EUI's OUI — after every record carrying that OUI has been parsed, because `OUI()` parses them all —
    under `'OUI'`, and, iff the EUI is in an IAB range, the parse of the first record carrying its 36-bit
    identifier under `'IAB'`; NotRegisteredError when a needed record does not exist, the OUI first. -/
def infoSpec (ver val : Nat) : R (Parsed × Option Parsed) :=
  match ouiRecs bo ver val with
  | [] => .error .notRegistered
  | r :: rest =>
    match (r :: rest).mapM (fun r => parseRecord (decode r.flatten)) with
    | .error e => .error e
    | .ok [] => .error .index        -- unreachable: mapM keeps the length
    | .ok (p0 :: _) =>
      if euiIsIab ver val then
        match iabRecs bi ver val with
        | [] => .error .notRegistered
        | q :: _ =>
          match parseRecord (decode q.flatten) with
          | .error e => .error e
          | .ok p => .ok (p0, some p)
      else .ok (p0, none)

/-- **euiInfo_exact (finding 5, EUI side)**: for every pair of registry texts that index and load, and every
    constructible EUI, `EUI.info` through parser → csv → `load_index` → `OUI()` / `IAB()` with seek+read on the
    same texts is `infoSpec`: determined by the value the EUI has at the moment of the call and the records of
    the two texts, nothing else. -/
theorem euiInfo_exact (hO : ouiPipeline bo = .ok idxO) (hI : iabPipeline bi = .ok idxI)
    (ver val : Nat) (hw : EuiWF ver val) :
    (infoThrough bo bi idxO idxI decode ver val).map (fun i => (i.oui.2.2, i.iab.map (fun x => x.2.2))) =
      infoSpec bo bi decode ver val := by
  have ho := euiOui_exact bo idxO decode hO ver val hw
  have hi := euiIab_exact bi idxI decode hI ver val hw
  have hbi := euiIsIab_iff ver val hw
  simp only [ouiThrough, iabThrough, ouiRecs, iabRecs] at ho hi
  simp only [infoThrough, infoSpec, ouiRecs, iabRecs, euiInfo]
  generalize euiOui (fun o s => decode (slice bo o s)) (dictView idxO) ver val = O at ho ⊢
  generalize euiIab (fun o s => decode (slice bi o s)) (dictView idxI) ver val = I at hi ⊢
  generalize carrying ouiStart ouiCont ouiKeyCell bo (ouiOf ver val) = co at ho ⊢
  generalize carrying iabStart iabCont iabKeyCell bi (iabOf ver val) = ci at hi ⊢
  cases co with
  | nil =>
    rw [if_pos rfl] at ho
    cases O with
    | error e => simp only [Except.map] at ho; injection ho with ho; subst ho; rfl
    | ok o => simp [Except.map] at ho
  | cons r rest =>
    rw [if_neg (by simp)] at ho
    dsimp only
    generalize List.mapM (fun r => parseRecord (decode r.flatten)) (r :: rest) = M at ho ⊢
    cases M with
    | error e =>
      cases O with
      | error e' => simp only [Except.map] at ho; injection ho with ho; subst ho; rfl
      | ok o => simp [Except.map] at ho
    | ok ps =>
      cases O with
      | error e' => simp [Except.map] at ho
      | ok o =>
        simp only [Except.map] at ho
        injection ho with ho
        cases o with
        | none => cases ho
        | some rs =>
          simp only [Option.map_some, Option.some.injEq] at ho
          subst ho
          cases rs with
          | nil => rfl
          | cons r0 rs' =>
            by_cases hb : euiIsIab ver val = true
            · have hI' := hi.2 (hbi.mp hb)
              simp only [bind, Except.bind, registration0, List.map_cons, hb, ↓reduceIte]
              cases ci with
              | nil =>
                cases I with
                | error e => simp only [Except.map] at hI'; injection hI' with hI'; subst hI'; rfl
                | ok io => simp [Except.map] at hI'
              | cons q qs =>
                simp only at hI' ⊢
                generalize parseRecord (decode q.flatten) = P at hI' ⊢
                cases P with
                | error e =>
                  cases I with
                  | error e' => simp only [Except.map] at hI'; injection hI' with hI'; subst hI'; rfl
                  | ok io => simp [Except.map] at hI'
                | ok p =>
                  cases I with
                  | error e' => simp [Except.map] at hI'
                  | ok io =>
                    simp only [Except.map] at hI'
                    injection hI' with hI'
                    cases io with
                    | none => cases hI'
                    | some x =>
                      simp only [Option.map_some, Option.some.injEq] at hI'
                      subst hI'
                      rfl
            · simp only [bind, Except.bind, registration0, List.map_cons, hb, Bool.false_eq_true, ↓reduceIte]
              rfl

/-- … and the offset/size reported inside each registration cut exactly the record it was parsed from
    out of its registry text -/
theorem euiInfo_offsets (hO : ouiPipeline bo = .ok idxO) (hI : iabPipeline bi = .ok idxI)
    (ver val : Nat) (hw : EuiWF ver val) (i : EuiInfo)
    (h : infoThrough bo bi idxO idxI decode ver val = .ok i) :
    (∃ r rest, ouiRecs bo ver val = r :: rest ∧ slice bo i.oui.1 i.oui.2.1 = r.flatten) ∧
    (i.iab = none ↔ ¬ IsIab ver val) ∧
    (∀ x, i.iab = some x → ∃ q rest, iabRecs bi ver val = q :: rest ∧ slice bi x.1 x.2.1 = q.flatten) := by
  simp only [infoThrough, euiInfo, euiOui, euiOuiArg_eq ver val hw, ouiOfInt, ouiCtorInt,
    ouiOf_le ver val hw, ↓reduceIte, bind, Except.bind, pure, Except.pure] at h
  cases ho : ouiRecords (fun o s => decode (slice bo o s)) (dictView idxO) (ouiOf ver val) with
  | error e => rw [ho] at h; cases h
  | ok rs =>
    rw [ho] at h
    have hall := (lookup_exact_oui bo idxO hO decode (ouiOf ver val)).2 rs ho
    cases rs with
    | nil => simp [registration0] at h
    | cons r0 rs' =>
      simp only [registration0] at h
      have h1 : ∃ r rest, ouiRecs bo ver val = r :: rest ∧ slice bo r0.1 r0.2.1 = r.flatten := by
        simp only [ouiRecs]
        generalize carrying ouiStart ouiCont ouiKeyCell bo (ouiOf ver val) = cs at hall
        cases hall with
        | cons hr _ => exact ⟨_, _, rfl, hr.1⟩
      by_cases hb : euiIsIab ver val = true
      · have hiab := (euiIsIab_iff ver val hw).mp hb
        simp only [hb, ↓reduceIte, euiIab, euiIabArg_eq ver val hw, iabOfInt,
          splitIabMac_iab ver val hw hiab, bind, Except.bind, pure, Except.pure] at h
        cases hq : iabRecord (fun o s => decode (slice bi o s)) (dictView idxI) (iabOf ver val) with
        | error e => rw [hq] at h; cases h
        | ok x =>
          rw [hq] at h
          injection h with h; subst h
          refine ⟨h1, ⟨fun hn => (by cases hn), fun hn => absurd hiab hn⟩, ?_⟩
          intro y hy
          injection hy with hy; subst hy
          exact (lookup_exact_iab bi idxI hI decode (iabOf ver val)).2 x hq
      · simp only [hb, Bool.false_eq_true, ↓reduceIte] at h
        injection h with h; subst h
        refine ⟨h1, ⟨fun _ => fun hn => hb ((euiIsIab_iff ver val hw).mpr hn), fun _ => rfl⟩, ?_⟩
        intro y hy; cases hy

/-- the only errors of `EUI.info`: NotRegisteredError (a needed record does not exist) and IndexError
    (a `(hex)` line with fewer than three fields in a record `OUI()` / `IAB()` parses) -/
theorem euiInfo_err (hO : ouiPipeline bo = .ok idxO) (hI : iabPipeline bi = .ok idxI)
    (ver val : Nat) (hw : EuiWF ver val) (e : Err)
    (h : infoThrough bo bi idxO idxI decode ver val = .error e) : e = .notRegistered ∨ e = .index := by
  have hx := euiInfo_exact bo bi idxO idxI decode hO hI ver val hw
  rw [h] at hx
  simp only [Except.map] at hx
  unfold infoSpec at hx
  have hm : ∀ (l : List (List Line)) e', l.mapM (fun r => parseRecord (decode r.flatten)) = .error e' →
      e' = .index := by
    intro l e' he'
    obtain ⟨r, _, hr⟩ := mapM_err _ e' l he'
    exact parseRecord_err _ _ hr
  split at hx
  · injection hx with hx; exact Or.inl hx
  · split at hx
    · rename_i e' he'; injection hx with hx; subst hx; exact Or.inr (hm _ _ he')
    · injection hx with hx; exact Or.inr hx
    · split at hx
      · split at hx
        · injection hx with hx; exact Or.inl hx
        · split at hx
          · rename_i e' he'; injection hx with hx; subst hx; exact Or.inr (parseRecord_err _ _ he')
          · cases hx
      · cases hx

end compose

/-! ### non-vacuity: a two-registry example -/

/-- an OUI registry with one record for 00-50-C2 and an IAB registry with one record for 00-50-C2-AB-C -/
def exOui : List Nat := bytes "00-50-C2   (hex)\t\tIEEE REGISTRATION AUTHORITY\r\n0050C2     (base 16)\t\tIEEE\r\n\t\t\t\t445 HOES LANE\r\n\r\n"
def exIab : List Nat := bytes "00-50-C2   (hex)\t\tACME CORP\r\nABC000-ABCFFF     (base 16)\t\tACME CORP\r\n\t\t\t\t1 MAIN STREET\r\n\r\n"

example : ouiPipeline exOui = .ok [(0x0050C2, 0, 96)] ∧ iabPipeline exIab = .ok [(0x0050C2ABC, 0, 90)] := by
  constructor <;> decide +kernel
example : EuiWF 48 0x0050C2ABC123 ∧ IsIab 48 0x0050C2ABC123 ∧ iabOf 48 0x0050C2ABC123 = 0x0050C2ABC := by
  refine ⟨Or.inl ⟨rfl, by decide⟩, Or.inl (by decide), by decide⟩
/-- `EUI('00-50-C2-AB-C1-23').info` over the two texts: both registrations; the same EUI moved to
    `00-50-C3-…` has no OUI record any more -/
example : (euiInfo (fun o s => (slice exOui o s).map Char.ofNat) [(0x0050C2, 0, 96)]
      (fun o s => (slice exIab o s).map Char.ofNat) [(0x0050C2ABC, 0, 90)] 48 0x0050C2ABC123).map
      (fun i => (i.oui.2.2.org, i.iab.map (fun x => x.2.2.org))) =
    .ok (some "IEEE REGISTRATION AUTHORITY".toList, some (some "ACME CORP".toList)) := by decide +kernel
example : euiInfo (fun o s => (slice exOui o s).map Char.ofNat) [(0x0050C2, 0, 96)]
      (fun o s => (slice exIab o s).map Char.ofNat) [(0x0050C2ABC, 0, 90)] 48 0x0050C3ABC123 =
    .error .notRegistered := by decide +kernel

end NV.C19A2
