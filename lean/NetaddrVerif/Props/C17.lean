/-
Props/C17.lean — property C17: glob and nmap range notations denote exactly their address sets.

  "valid_glob accepts exactly the strings of four dot-separated octets written as plain decimal
   values 0-255, with at most one hyphenated x-y octet (x<y) and only asterisks after a hyphen or
   asterisk, and every string it accepts converts (glob_to_iprange / glob_to_iptuple / IPGlob /
   glob_to_cidrs) to exactly the addresses whose octets match it; iprange_to_globs(start, end)
   returns valid globs that tile [start, end] exactly (a single glob when the range is
   glob-shaped) and cidr_to_glob is the exact one-glob form of any IPv4 CIDR.
   valid_nmap_range(spec) is True exactly when iter_nmap_range(spec) succeeds, and iteration
   yields, ascending and without duplicates, exactly the addresses whose every octet belongs to
   that octet's comma/hyphen list (or the addresses of the IPv4 CIDR / the single IPv6 address
   given)."

Spec vocabulary (Lemmas/C17LGlob.lean): `Oct` (lit n | hyp a b | star), `parseOct` (the octet
grammar: `*`, plain decimal 0..255 without leading zero, `x-y` with plain decimal x < y ≤ 255),
`shapeOk` (literals, then at most one hyphenated octet, then only asterisks), `globParse`,
`GlobGrammar`.  Model: Model/Glob.lean, Model/Nmap.lean.
-/
import NetaddrVerif.Lemmas.C17LConv
namespace NV.C17
open NV NV.Glob

/-! ## valid_glob -/

/-- `valid_glob(s)` is True exactly on the glob grammar. -/
theorem valid_glob_iff (s : List Char) : validGlob s = true ↔ GlobGrammar s := by
  rw [validGlob_iff_parse]
  unfold GlobGrammar
  cases globParse s <;> simp

example : GlobGrammar "192.0.2-3.*".toList := by decide +kernel
example : ¬ GlobGrammar "010.0.0.*".toList := by decide +kernel      -- F10: was accepted (octal)
example : ¬ GlobGrammar " 1.2.3.4".toList := by decide +kernel       -- F10
example : ¬ GlobGrammar "1.2.*.4".toList := by decide +kernel
example : ¬ GlobGrammar "1.2-3.4-5.*".toList := by decide +kernel
example : ¬ GlobGrammar "1.2.3.5-5".toList := by decide +kernel

/-- every string `valid_glob` rejects is rejected by all conversions with AddrFormatError -/
theorem invalid_glob_rejected (s : List Char) (h : ¬ GlobGrammar s) :
    globToIptuple s = .error .addrFormat ∧ globToIprange s = .error .addrFormat ∧
    globToCidrs s = .error .addrFormat ∧ ipGlob s = .error .addrFormat := by
  have hv : validGlob s = false := by
    cases hh : validGlob s with
    | false => rfl
    | true => exact absurd ((valid_glob_iff s).1 hh) h
  have h1 : globToIptuple s = .error .addrFormat := by simp [globToIptuple, hv]
  refine ⟨h1, by simp [globToIprange, hv], by simp [globToCidrs, h1], by simp [ipGlob, h1]⟩

/-- an address matches a glob: the glob parses to four octets and every octet of the address
    lies in the corresponding octet's range -/
def GlobMatches (s : List Char) (a : Nat) : Prop :=
  ∃ o0 o1 o2 o3, globParse s = some [o0, o1, o2, o3] ∧ a < 2 ^ 32 ∧
    o0.matches (a / 2 ^ 24 % 256) ∧ o1.matches (a / 2 ^ 16 % 256) ∧ o2.matches (a / 2 ^ 8 % 256) ∧
    o3.matches (a % 256)

/-- every accepted string converts, `glob_to_iptuple` and `glob_to_iprange` agree, and the
    resulting interval is exactly the set of addresses whose octets match the glob -/
theorem glob_denotes (s : List Char) (h : validGlob s = true) :
    ∃ lo hi, globToIptuple s = .ok (lo, hi) ∧ globToIprange s = .ok ⟨4, lo, hi⟩ ∧
      lo ≤ hi ∧ hi < 2 ^ 32 ∧ ∀ a, (lo ≤ a ∧ a ≤ hi) ↔ GlobMatches s a := by
  obtain ⟨os, hp⟩ := (validGlob_iff_parse s).1 h
  obtain ⟨o0, o1, o2, o3, e, w0, w1, w2, w3, hs, hlo, hhi⟩ := conv_of_parse s os hp
  subst e
  have hb := shape_lo_le_hi o0 o1 o2 o3 w0 w1 w2 w3
  refine ⟨_, _, ?_, ?_, hb.1, hb.2, ?_⟩
  · simp only [globToIptuple, h, Bool.not_true, Bool.false_eq_true, if_false, hlo, hhi]
  · have : ¬ (quad o0.lo o1.lo o2.lo o3.lo > quad o0.hi o1.hi o2.hi o3.hi) := Nat.not_lt.2 hb.1
    simp only [globToIprange, h, Bool.not_true, Bool.false_eq_true, if_false, hlo, hhi, this]
  · intro a
    constructor
    · intro ha
      have ha32 : a < 2 ^ 32 := by omega
      exact ⟨o0, o1, o2, o3, hp, ha32, (shape_interval o0 o1 o2 o3 w0 w1 w2 w3 hs a ha32).1 ha⟩
    · rintro ⟨p0, p1, p2, p3, hp', ha32, hm⟩
      rw [hp] at hp'
      simp only [Option.some.injEq, List.cons.injEq, and_true] at hp'
      obtain ⟨e0, e1, e2, e3⟩ := hp'
      subst e0 e1 e2 e3
      exact (shape_interval o0 o1 o2 o3 w0 w1 w2 w3 hs a ha32).2 hm

example : globToIptuple "192.0.2-3.*".toList = .ok (3221225984, 3221226495) := by decide +kernel
example : GlobMatches "192.0.2-3.*".toList 3221226000 :=
  ⟨.lit 192, .lit 0, .hyp 2 3, .star, by decide +kernel, by decide,
    by simp [Oct.matches, Oct.lo, Oct.hi], by simp [Oct.matches, Oct.lo, Oct.hi],
    by simp [Oct.matches, Oct.lo, Oct.hi], by simp [Oct.matches, Oct.lo, Oct.hi]⟩

end NV.C17
