/-
Props/C17.lean — property C17: glob and nmap range notations denote exactly their address sets.

  "valid_glob accepts exactly the strings of four dot-separated octets written as plain decimal
   values 0-255, with at most one hyphenated x-y octet (x<y) and only asterisks after a hyphen or
   asterisk, and every string it accepts converts (glob_to_iprange / glob_to_iptuple / IPGlob /
   glob_to_cidrs) to exactly the addresses whose octets match it; iprange_to_globs(start, end)
   returns valid globs that tile [start, end] exactly (a single glob when the range is
   glob-shaped) and cidr_to_glob is the exact one-glob form of any IPv4 CIDR.
   valid_nmap_range(spec) is True exactly when iter_nmap_range(spec) succeeds, and iteration
   yields, ascending and without duplicates, exactly the addresses whose every octet belongs to
   that octet's comma/hyphen list (or the addresses of the IPv4 CIDR / the single IPv6 address
   given)."

Spec vocabulary (Lemmas/C17LGlob.lean): `Oct` (lit n | hyp a b | star), `parseOct` (the octet
grammar: `*`, plain decimal 0..255 without leading zero, `x-y` with plain decimal x < y ≤ 255),
`shapeOk` (literals, then at most one hyphenated octet, then only asterisks), `globParse`,
`GlobGrammar`.  Model: Model/Glob.lean, Model/Nmap.lean.
-/
import NetaddrVerif.Lemmas.C17LBlock
import NetaddrVerif.Lemmas.C17LTile
import NetaddrVerif.Lemmas.C17LNmap
import NetaddrVerif.Props.C05
namespace NV.C17
open NV NV.Glob

/-! ## valid_glob -/

/-- `valid_glob(s)` is True exactly on the glob grammar. -/
theorem valid_glob_iff (s : List Char) : validGlob s = true ↔ GlobGrammar s := by
  rw [validGlob_iff_parse]
  unfold GlobGrammar
  cases globParse s <;> simp

example : GlobGrammar "192.0.2-3.*".toList := by decide +kernel
example : ¬ GlobGrammar "010.0.0.*".toList := by decide +kernel      -- F10: was accepted (octal)
example : ¬ GlobGrammar " 1.2.3.4".toList := by decide +kernel       -- F10
example : ¬ GlobGrammar "1.2.*.4".toList := by decide +kernel
example : ¬ GlobGrammar "1.2-3.4-5.*".toList := by decide +kernel
example : ¬ GlobGrammar "1.2.3.5-5".toList := by decide +kernel

/-- every string `valid_glob` rejects is rejected by all conversions with AddrFormatError -/
theorem invalid_glob_rejected (s : List Char) (h : ¬ GlobGrammar s) :
    globToIptuple s = .error .addrFormat ∧ globToIprange s = .error .addrFormat ∧
    globToCidrs s = .error .addrFormat ∧ ipGlob s = .error .addrFormat := by
  have hv : validGlob s = false := by
    cases hh : validGlob s with
    | false => rfl
    | true => exact absurd ((valid_glob_iff s).1 hh) h
  have h1 : globToIptuple s = .error .addrFormat := by simp [globToIptuple, hv]
  refine ⟨h1, by simp [globToIprange, hv], by simp [globToCidrs, h1], by simp [ipGlob, h1]⟩

/-- an address matches a glob: the glob parses to four octets and every octet of the address
    lies in the corresponding octet's range -/
def GlobMatches (s : List Char) (a : Nat) : Prop :=
  ∃ o0 o1 o2 o3, globParse s = some [o0, o1, o2, o3] ∧ a < 2 ^ 32 ∧
    o0.matches (a / 2 ^ 24 % 256) ∧ o1.matches (a / 2 ^ 16 % 256) ∧ o2.matches (a / 2 ^ 8 % 256) ∧
    o3.matches (a % 256)

/-- every accepted string converts, `glob_to_iptuple` and `glob_to_iprange` agree, and the
    resulting interval is exactly the set of addresses whose octets match the glob -/
theorem glob_denotes (s : List Char) (h : validGlob s = true) :
    ∃ lo hi, globToIptuple s = .ok (lo, hi) ∧ globToIprange s = .ok ⟨4, lo, hi⟩ ∧
      lo ≤ hi ∧ hi < 2 ^ 32 ∧ ∀ a, (lo ≤ a ∧ a ≤ hi) ↔ GlobMatches s a := by
  obtain ⟨os, hp⟩ := (validGlob_iff_parse s).1 h
  obtain ⟨o0, o1, o2, o3, e, w0, w1, w2, w3, hs, hlo, hhi⟩ := conv_of_parse s os hp
  subst e
  have hb := shape_lo_le_hi o0 o1 o2 o3 w0 w1 w2 w3
  refine ⟨_, _, ?_, ?_, hb.1, hb.2, ?_⟩
  · simp only [globToIptuple, h, Bool.not_true, Bool.false_eq_true, if_false, hlo, hhi]
  · have : ¬ (quad o0.lo o1.lo o2.lo o3.lo > quad o0.hi o1.hi o2.hi o3.hi) := Nat.not_lt.2 hb.1
    simp only [globToIprange, h, Bool.not_true, Bool.false_eq_true, if_false, hlo, hhi, this]
  · intro a
    constructor
    · intro ha
      have ha32 : a < 2 ^ 32 := by omega
      exact ⟨o0, o1, o2, o3, hp, ha32, (shape_interval o0 o1 o2 o3 w0 w1 w2 w3 hs a ha32).1 ha⟩
    · rintro ⟨p0, p1, p2, p3, hp', ha32, hm⟩
      rw [hp] at hp'
      simp only [Option.some.injEq, List.cons.injEq, and_true] at hp'
      obtain ⟨e0, e1, e2, e3⟩ := hp'
      subst e0 e1 e2 e3
      exact (shape_interval o0 o1 o2 o3 w0 w1 w2 w3 hs a ha32).2 hm

/-- what `glob_to_iptuple / glob_to_iprange` hand to `IPAddress(...)` after `valid_glob`: always
    four plain decimal octets 0..255 without leading zeros (so reading them as a decimal dotted
    quad, as the model does, is what `inet_aton` does too — no octal, no hex, no short forms) -/
theorem glob_conv_total (s : List Char) (h : validGlob s = true) :
    ∃ t0 t1 t2 t3 u0 u1 u2 u3,
      (startEndStrings s).1 = ['.'].intercalate [t0, t1, t2, t3] ∧
      (startEndStrings s).2 = ['.'].intercalate [u0, u1, u2, u3] ∧
      ∀ t ∈ [t0, t1, t2, t3, u0, u1, u2, u3], plainNum t = true ∧ numVal t ≤ 255 := by
  obtain ⟨os, hp⟩ := (validGlob_iff_parse s).1 h
  exact tokens_plain s os hp

example : globToIptuple "192.0.2-3.*".toList = .ok (3221225984, 3221226495) := by decide +kernel
example : GlobMatches "192.0.2-3.*".toList 3221226000 :=
  ⟨.lit 192, .lit 0, .hyp 2 3, .star, by decide +kernel, by decide,
    by simp [Oct.matches, Oct.lo, Oct.hi], by simp [Oct.matches, Oct.lo, Oct.hi],
    by simp [Oct.matches, Oct.lo, Oct.hi], by simp [Oct.matches, Oct.lo, Oct.hi]⟩

/-! ## iprange_to_globs, cidr_to_glob, glob_to_cidrs, IPGlob -/

/-- the single-glob attempt of `iprange_to_globs` (inner function + validity re-check): whenever
    it succeeds, the glob is valid and denotes exactly `[lo, hi]`, and it is the whole result -/
theorem single_glob_exact (lo hi : Nat) (hlo : lo < 2 ^ 32) (hhi : hi < 2 ^ 32) (g : List Char)
    (h : singleGlob lo hi = .ok g) :
    iprangeToGlobs ⟨4, lo⟩ ⟨4, hi⟩ = .ok [g] ∧ validGlob g = true ∧ globToIptuple g = .ok (lo, hi) := by
  refine ⟨by simp [iprangeToGlobs, h], ?_⟩
  rw [singleGlob_eq] at h
  split at h
  · next hc =>
    simp only [Except.ok.injEq] at h; subst h
    exact joined_denotes lo hi hlo hhi hc
  · exact absurd h (by simp)

/-- the attempt can only fail with AddrConversionError (which selects the per-CIDR fallback) -/
theorem single_glob_error (lo hi : Nat) (e : Err) (h : singleGlob lo hi = .error e) : e = .addrConversion := by
  rw [singleGlob_eq] at h
  split at h
  · exact absurd h (by simp)
  · simp only [Except.error.injEq] at h; exact h.symm

/-- "a single glob when the range is glob-shaped": every range that some valid glob denotes is
    converted to exactly one valid glob denoting that same range -/
theorem single_when_shaped (s : List Char) (lo hi : Nat) (hv : validGlob s = true)
    (hc : globToIptuple s = .ok (lo, hi)) :
    ∃ g, iprangeToGlobs ⟨4, lo⟩ ⟨4, hi⟩ = .ok [g] ∧ validGlob g = true ∧ globToIptuple g = .ok (lo, hi) := by
  obtain ⟨os, hp⟩ := (validGlob_iff_parse s).1 hv
  obtain ⟨o0, o1, o2, o3, e, w0, w1, w2, w3, hs, hlo, hhi⟩ := conv_of_parse s os hp
  subst e
  simp only [globToIptuple, hv, Bool.not_true, Bool.false_eq_true, if_false, hlo, hhi, Except.ok.injEq,
    Prod.mk.injEq] at hc
  obtain ⟨rfl, rfl⟩ := hc
  have hb := shape_lo_le_hi o0 o1 o2 o3 w0 w1 w2 w3
  have hsh := shaped_of_glob o0 o1 o2 o3 w0 w1 w2 w3 hs
  have hsg : singleGlob (quad o0.lo o1.lo o2.lo o3.lo) (quad o0.hi o1.hi o2.hi o3.hi) =
      .ok (joined (quad o0.lo o1.lo o2.lo o3.lo) (quad o0.hi o1.hi o2.hi o3.hi)) := by
    rw [singleGlob_eq]; simp [hsh]
  exact ⟨_, single_glob_exact _ _ (by omega) hb.2 _ hsg⟩

example : iprangeToGlobs ⟨4, 3221225984⟩ ⟨4, 3221226495⟩ = .ok ["192.0.2-3.*".toList] := by decide +kernel

/-- `cidr_to_glob` is the exact one-glob form of any IPv4 CIDR (host bits allowed in the argument) -/
theorem cidr_to_glob_exact (n : Net) (hver : n.ver = 4) (hv : n.val < 2 ^ 32) (hp : n.plen ≤ 32) :
    ∃ g, cidrToGlob n = .ok g ∧ validGlob g = true ∧ globToIptuple g = .ok (n.first, n.last) := by
  obtain ⟨ver, v, p⟩ := n
  simp only at hver hv hp
  subst hver
  obtain ⟨g, h1, _, h3, h4⟩ := block_glob v p hv hp
  have hw : width 4 = 32 := by decide
  refine ⟨g, ?_, h3, by simpa [Net.first, Net.last, hw] using h4⟩
  simp [cidrToGlob, Net.first, Net.last, hw, iprangeToGlobs, h1]

example : cidrToGlob ⟨4, 167772165, 9⟩ = .ok "10.0-127.*.*".toList := by decide +kernel

/-- IPv6 arguments are rejected with AddrConversionError by both functions -/
theorem v6_rejected (s e : Addr) (n : Net) (hs : s.ver ≠ 4) (he : e.ver ≠ 4) (hn : n.ver ≠ 4) :
    iprangeToGlobs s e = .error .addrConversion ∧ cidrToGlob n = .error .addrConversion := by
  simp [iprangeToGlobs, cidrToGlob, hs, he, hn]

/-- globs `gs` are valid and denote the intervals `ivs`, one by one -/
def GlobsDenote : List (List Char) → List (Nat × Nat) → Prop
  | [], [] => True
  | g :: gs, iv :: ivs => (validGlob g = true ∧ globToIptuple g = .ok iv) ∧ GlobsDenote gs ivs
  | _, _ => False

theorem blocks_globs : ∀ (bs : List Pfx), (∀ b ∈ bs, b.val < 2 ^ 32 ∧ b.plen ≤ 32) →
    ∃ gs, bs.mapM (fun c => iprangeToGlob (c.first 32) (c.last 32)) = .ok gs ∧
      GlobsDenote gs (bs.map (fun b => (b.first 32, b.last 32))) := by
  intro bs
  induction bs with
  | nil => intro _; exact ⟨[], rfl, trivial⟩
  | cons b r ih =>
    intro h
    obtain ⟨gs, h1, h2⟩ := ih (fun x hx => h x (List.mem_cons_of_mem _ hx))
    obtain ⟨hv, hp⟩ := h b (List.mem_cons_self ..)
    obtain ⟨g, _, g2, g3, g4⟩ := block_glob b.val b.plen hv hp
    refine ⟨g :: gs, ?_, ⟨g3, g4⟩, h2⟩
    rw [mapM_exc_cons]
    simp only [Pfx.first, Pfx.last, g2]
    simp only [Pfx.first, Pfx.last] at h1
    rw [h1]

/-- the tiling statement relative to a tiling of `[lo, hi]` by `iprange_to_cidrs` (needed only when
    the single-glob attempt fails) -/
theorem range_to_globs_tiles_of_tile (lo hi : Nat) (hle : lo ≤ hi) (hhi : hi < 2 ^ 32)
    (hT : (∀ g, singleGlob lo hi ≠ .ok g) → CidrsTile lo hi) :
    ∃ gs ivs, iprangeToGlobs ⟨4, lo⟩ ⟨4, hi⟩ = .ok gs ∧ GlobsDenote gs ivs ∧ Tiles ivs lo hi := by
  cases hsg : singleGlob lo hi with
  | ok g =>
    obtain ⟨h1, h2, h3⟩ := single_glob_exact lo hi (by omega) hhi g hsg
    exact ⟨[g], [(lo, hi)], h1, ⟨⟨h2, h3⟩, trivial⟩, rfl, hle, Nat.le_refl _, rfl⟩
  | error e =>
    have he := single_glob_error lo hi e hsg
    subst he
    obtain ⟨hb, ht⟩ := hT (fun g hg => by rw [hsg] at hg; exact absurd hg (by simp))
    obtain ⟨gs, h1, h2⟩ := blocks_globs _ hb
    exact ⟨gs, _, by simp [iprangeToGlobs, hsg, h1], h2, ht⟩

/-- FULL STATEMENT (range_to_globs_tiles): for all IPv4 `lo ≤ hi`, `iprange_to_globs(lo, hi)`
    returns valid globs whose denotations tile `[lo, hi]` exactly, in ascending order
    (`∃ gs ivs, iprangeToGlobs ⟨4, lo⟩ ⟨4, hi⟩ = .ok gs ∧ GlobsDenote gs ivs ∧ Tiles ivs lo hi`).

    Proved here with ONE hypothesis, `C05RangeOK lo hi`, which is literally the conclusion of
    property C05's theorem `NV.C05.iprange_to_cidrs_addr 32 lo hi hle hhi : RangeOK 32
    (iprangeToCidrs 32 ⟨lo, 32⟩ ⟨hi, 32⟩) lo hi` (fields `canon`, `den`, `wf`, with
    `toBlk 32 b = ⟨b.val, 32 - b.plen⟩`) about the same `Model/Cidr.lean` definition; that theorem is
    proved in the C05 check, which is built separately from this file.  With both in one tree the
    full statement is `range_to_globs_tiles_partial lo hi hle hhi ⟨h.canon, h.den, h.wf⟩`.
    Everything else is unconditional: the single-glob path (`single_glob_exact`,
    `single_when_shaped`), the fact that every string the fallback emits is a valid glob denoting
    exactly its block (`cidr_block_glob`, `blocks_globs`), and the step from C05's canonical-list
    form to consecutive tiles (`cidrsTile_of_c05`). -/
theorem range_to_globs_tiles_partial (lo hi : Nat) (hle : lo ≤ hi) (hhi : hi < 2 ^ 32)
    (hC05 : C05RangeOK lo hi) :
    ∃ gs ivs, iprangeToGlobs ⟨4, lo⟩ ⟨4, hi⟩ = .ok gs ∧ GlobsDenote gs ivs ∧ Tiles ivs lo hi :=
  range_to_globs_tiles_of_tile lo hi hle hhi (fun _ => cidrsTile_of_c05 lo hi hle hhi hC05)

/-- **`iprange_to_globs` tiles every IPv4 interval exactly** — the full statement, with the C05
    hypothesis discharged by `NV.C05.iprange_to_cidrs_addr` (both property files are now built
    in one tree): valid globs whose denotations are consecutive intervals covering `[lo, hi]`
    in ascending order. -/
theorem range_to_globs_tiles (lo hi : Nat) (hle : lo ≤ hi) (hhi : hi < 2 ^ 32) :
    ∃ gs ivs, iprangeToGlobs ⟨4, lo⟩ ⟨4, hi⟩ = .ok gs ∧ GlobsDenote gs ivs ∧ Tiles ivs lo hi := by
  have h := NV.C05.iprange_to_cidrs_addr 32 lo hi hle hhi
  exact range_to_globs_tiles_partial lo hi hle hhi ⟨h.canon, h.den, h.wf⟩

/-- every CIDR block converts, through the inner function alone, to a valid glob denoting it
    (this is what the fallback path emits per block) -/
theorem cidr_block_glob (v p : Nat) (hv : v < 2 ^ 32) (hp : p ≤ 32) :
    ∃ g, iprangeToGlob (netFirst 32 v p) (netLast 32 v p) = .ok g ∧ validGlob g = true ∧
      globToIptuple g = .ok (netFirst 32 v p, netLast 32 v p) := by
  obtain ⟨g, _, h2, h3, h4⟩ := block_glob v p hv hp
  exact ⟨g, h2, h3, h4⟩

example : iprangeToGlobs ⟨4, 255⟩ ⟨4, 257⟩ = .ok ["0.0.0.255".toList, "0.0.1.0-1".toList] := by
  decide +kernel

/-- `glob_to_cidrs` of a valid glob is `iprange_to_cidrs` of its exact bounds -/
theorem glob_to_cidrs_eq (s : List Char) (lo hi : Nat) (hc : globToIptuple s = .ok (lo, hi)) :
    globToCidrs s = .ok (iprangeToCidrs 32 ⟨lo, 32⟩ ⟨hi, 32⟩) := by
  simp [globToCidrs, hc]

/-- `glob_to_cidrs` of a valid glob: IPv4 blocks tiling exactly the glob's address set, ascending —
    relative to the same C05 hypothesis as `range_to_globs_tiles_partial` -/
theorem glob_to_cidrs_tiles_partial (s : List Char) (hv : validGlob s = true) :
    ∃ lo hi, globToIptuple s = .ok (lo, hi) ∧ (∀ a, (lo ≤ a ∧ a ≤ hi) ↔ GlobMatches s a) ∧
      (C05RangeOK lo hi → ∃ bs, globToCidrs s = .ok bs ∧ (∀ b ∈ bs, b.val < 2 ^ 32 ∧ b.plen ≤ 32) ∧
        Tiles (bs.map (fun b => (b.first 32, b.last 32))) lo hi) := by
  obtain ⟨lo, hi, h1, _, hle, hhi, hm⟩ := glob_denotes s hv
  refine ⟨lo, hi, h1, hm, fun hc => ?_⟩
  obtain ⟨hb, ht⟩ := cidrsTile_of_c05 lo hi hle hhi hc
  exact ⟨_, glob_to_cidrs_eq s lo hi h1, hb, ht⟩

/-- `glob_to_cidrs` of a valid glob tiles exactly the addresses matching the glob (full statement) -/
theorem glob_to_cidrs_tiles (s : List Char) (hv : validGlob s = true) :
    ∃ lo hi bs, globToIptuple s = .ok (lo, hi) ∧ (∀ a, (lo ≤ a ∧ a ≤ hi) ↔ GlobMatches s a) ∧
      globToCidrs s = .ok bs ∧ (∀ b ∈ bs, b.val < 2 ^ 32 ∧ b.plen ≤ 32) ∧
      Tiles (bs.map (fun b => (b.first 32, b.last 32))) lo hi := by
  obtain ⟨lo, hi, h1, _, hle, hhi, hm⟩ := glob_denotes s hv
  have h := NV.C05.iprange_to_cidrs_addr 32 lo hi hle hhi
  obtain ⟨hb, ht⟩ := cidrsTile_of_c05 lo hi hle hhi ⟨h.canon, h.den, h.wf⟩
  exact ⟨lo, hi, _, h1, hm, glob_to_cidrs_eq s lo hi h1, hb, ht⟩

/-- `IPGlob(s)` of a valid glob: an object over exactly the denoted range whose printed glob is
    valid and denotes that same range -/
theorem ipglob_exact (s : List Char) (hv : validGlob s = true) :
    ∃ lo hi g, globToIptuple s = .ok (lo, hi) ∧ ipGlob s = .ok ⟨lo, hi, g⟩ ∧ validGlob g = true ∧
      globToIptuple g = .ok (lo, hi) := by
  obtain ⟨lo, hi, h1, _, hle, _, _⟩ := glob_denotes s hv
  obtain ⟨g, g1, g2, g3⟩ := single_when_shaped s lo hi hv h1
  refine ⟨lo, hi, g, h1, ?_, g2, g3⟩
  have : ¬ lo > hi := by omega
  simp [ipGlob, h1, this, g1, setGlob, g3]

/-- assigning `.glob = s` on an existing `IPGlob`: same result as constructing it; an invalid
    string is rejected with AddrFormatError before anything is assigned -/
theorem set_glob_exact (s : List Char) :
    (validGlob s = true → ∃ lo hi g, globToIptuple s = .ok (lo, hi) ∧ setGlob s = .ok ⟨lo, hi, g⟩ ∧
      validGlob g = true ∧ globToIptuple g = .ok (lo, hi)) ∧
    (¬ GlobGrammar s → setGlob s = .error .addrFormat) := by
  constructor
  · intro hv
    obtain ⟨lo, hi, h1, _, _, _, _⟩ := glob_denotes s hv
    obtain ⟨g, g1, g2, g3⟩ := single_when_shaped s lo hi hv h1
    exact ⟨lo, hi, g, h1, by simp [setGlob, h1, g1], g2, g3⟩
  · intro h
    simp [setGlob, (invalid_glob_rejected s h).1]

example : ipGlob "10.0.0-255.*".toList = .ok ⟨167772160, 167837695, "10.0.*.*".toList⟩ := by decide +kernel

/-! ## nmap target specifications -/
open NV.Nmap

/-- the exception classes `valid_nmap_range` catches -/
def caught (e : Err) : Prop := e = .type_ ∨ e = .value ∨ e = .addrFormat
instance (e : Err) : Decidable (caught e) := by unfold caught; infer_instance

theorem netIter_one (n : Net) : netIter n 1 = [n.first] := by
  have h : n.first ≤ n.last := by
    unfold Net.first Net.last netFirst netLast
    exact Nat.le_trans Nat.and_le_left Nat.left_le_or
  have : min (n.last + 1 - n.first) 1 = 1 := by omega
  simp [netIter, this]

/-- `valid_nmap_range(spec)` is True exactly when `iter_nmap_range(spec)` succeeds (for every
    pair of foreign parsers, every spec, every positive number of items taken): it is False
    exactly when iteration raises one of the caught classes, and it lets the same exception
    through otherwise. -/
theorem nmap_valid_iff_iter_ok (F : Foreign) (fuel : Nat) (hf : 0 < fuel) (spec : List Char) :
    validNmapRange F spec =
      match iterNmapRange F fuel spec with
      | .ok _ => .ok true
      | .error e => if caught e then .ok false else .error e := by
  unfold validNmapRange iterNmapRange parseTargetSpec caught
  by_cases h1 : spec.contains '/' = true
  · simp only [h1, if_true]
    cases Py.pyInt 10 (split1 '/' spec).2 with
    | none => simp
    | some p =>
      simp only
      by_cases hg : (0 < p ∧ p < 33)
      · simp only [hg, and_self, not_true_eq_false, if_false]
        cases F.ipNetwork spec with
        | error e => simp only
        | ok net =>
          simp only
          by_cases hv : net.ver ≠ 4
          · simp [hv]
          · simp only [hv, if_false, netIter_one, List.map_cons, List.map_nil]
      · simp [hg]
  · simp only [h1, Bool.false_eq_true, if_false]
    by_cases h2 : spec.contains ':' = true
    · simp only [h2, if_true]
      cases F.ipAddress spec with
      | error e => simp only
      | ok a =>
        have : [a].take fuel = [a] := by
          cases fuel with
          | zero => omega
          | succ n => simp
        simp
    · simp only [h2, Bool.false_eq_true, if_false]
      cases hgen : generateOctetRanges spec with
      | error e => simp only
      | ok rs =>
        obtain ⟨_, t0, t1, t2, t3, l0, l1, l2, l3, _, hrs, h0, h1', h2', h3⟩ := generate_ok hgen
        subst hrs
        have ne : ∀ t l, octetTargetValues t = .ok l → l ≠ [] := by
          intro t l h
          rcases octetTargetValues_cases t with ⟨_, l', h', hne, _⟩ | ⟨_, h'⟩
          · rw [h] at h'; simp only [Except.ok.injEq] at h'; subst h'; exact hne
          · rw [h] at h'; exact absurd h' (by simp)
        have hne := fullProduct_ne_nil l0 l1 l2 l3 (ne _ _ h0) (ne _ _ h1') (ne _ _ h2') (ne _ _ h3)
        simp only [product4_eq]
        cases hfp : fullProduct l0 l1 l2 l3 with
        | nil => exact absurd hfp hne
        | cons a t => simp

/-- SPEC: the octet-list form is well formed: non-empty, four dot-separated comma/hyphen lists,
    every element an in-range `n`, `a-b`, `-b`, `a-` or `-` -/
def NmapOctetsWF (spec : List Char) : Prop :=
  spec ≠ [] ∧ ∃ t0 t1 t2 t3, spec.splitOn '.' = [t0, t1, t2, t3] ∧ OctetWF t0 ∧ OctetWF t1 ∧ OctetWF t2 ∧ OctetWF t3

/-- SPEC: address `a` belongs to the octet-list spec: every octet of `a` belongs to that octet's list -/
def NmapDen (spec : List Char) (a : Nat) : Prop :=
  ∃ t0 t1 t2 t3, spec.splitOn '.' = [t0, t1, t2, t3] ∧ a < 2 ^ 32 ∧ OctetDen t0 (a / 2 ^ 24 % 256) ∧
    OctetDen t1 (a / 2 ^ 16 % 256) ∧ OctetDen t2 (a / 2 ^ 8 % 256) ∧ OctetDen t3 (a % 256)

/-- octet-list form, well formed: iteration yields the first `fuel` items of a non-empty, strictly
    ascending (hence duplicate-free) list whose members are exactly the IPv4 addresses all of whose
    octets belong to the corresponding octet list -/
theorem nmap_yields (F : Foreign) (fuel : Nat) (spec : List Char)
    (h1 : '/' ∉ spec) (h2 : ':' ∉ spec) (hwf : NmapOctetsWF spec) :
    ∃ full : List Nat, iterNmapRange F fuel spec = .ok ((full.take fuel).map (fun v => ⟨4, v⟩)) ∧
      full ≠ [] ∧ full.Pairwise (· < ·) ∧ ∀ a, a ∈ full ↔ NmapDen spec a := by
  obtain ⟨hne, t0, t1, t2, t3, hsp, w0, w1, w2, w3⟩ := hwf
  obtain ⟨l0, e0, n0, s0, b0, d0⟩ := octetTargetValues_ok t0 w0
  obtain ⟨l1, e1, n1, s1, b1, d1⟩ := octetTargetValues_ok t1 w1
  obtain ⟨l2, e2, n2, s2, b2, d2⟩ := octetTargetValues_ok t2 w2
  obtain ⟨l3, e3, n3, s3, b3, d3⟩ := octetTargetValues_ok t3 w3
  have c1 : spec.contains '/' = false := by
    rw [Bool.eq_false_iff]; intro h; exact h1 (List.contains_iff_mem.1 h)
  have c2 : spec.contains ':' = false := by
    rw [Bool.eq_false_iff]; intro h; exact h2 (List.contains_iff_mem.1 h)
  have hgen : generateOctetRanges spec = .ok [l0, l1, l2, l3] := by
    have he : spec.isEmpty = false := by cases spec with
      | nil => exact absurd rfl hne
      | cons _ _ => rfl
    unfold generateOctetRanges
    simp only [he, Bool.false_eq_true, if_false, hsp, List.length_cons, List.length_nil, Nat.zero_add,
      Nat.reduceAdd, ne_eq, not_true_eq_false, mapM_exc_cons, mapM_exc_nil, e0, e1, e2, e3]
  refine ⟨fullProduct l0 l1 l2 l3, ?_, fullProduct_ne_nil _ _ _ _ n0 n1 n2 n3,
    fullProduct_sorted _ _ _ _ s0 s1 s2 s3 b1 b2 b3, ?_⟩
  · simp only [iterNmapRange, parseTargetSpec, c1, c2, Bool.false_eq_true, if_false, hgen, product4_eq]
  · intro a
    rw [mem_fullProduct _ _ _ _ b0 b1 b2 b3, d0, d1, d2, d3]
    constructor
    · rintro ⟨ha, m0, m1, m2, m3⟩; exact ⟨t0, t1, t2, t3, hsp, ha, m0, m1, m2, m3⟩
    · rintro ⟨u0, u1, u2, u3, hsp', ha, m0, m1, m2, m3⟩
      rw [hsp] at hsp'
      simp only [List.cons.injEq, and_true] at hsp'
      obtain ⟨rfl, rfl, rfl, rfl⟩ := hsp'
      exact ⟨ha, m0, m1, m2, m3⟩

instance (tok : List Char) : Decidable (OctetWF tok) := by unfold OctetWF; infer_instance

/-- foreign parsers that reject everything (the octet-list form never calls them) -/
def noForeign : Foreign := ⟨fun _ => .error .other, fun _ => .error .other⟩

example : NmapOctetsWF "10.0.0-1.1,3-5,-2".toList :=
  ⟨by decide, "10".toList, "0".toList, "0-1".toList, "1,3-5,-2".toList, by decide +kernel,
    by decide +kernel, by decide +kernel, by decide +kernel, by decide +kernel⟩
example : iterNmapRange noForeign 4096 "10.0.0-1.4,2-3,3".toList =
    .ok [⟨4, 167772162⟩, ⟨4, 167772163⟩, ⟨4, 167772164⟩, ⟨4, 167772418⟩, ⟨4, 167772419⟩, ⟨4, 167772420⟩] := by
  decide +kernel
example : ¬ OctetWF "3-2".toList := by decide +kernel
example : ¬ OctetWF "1,256".toList := by decide +kernel
example : validNmapRange noForeign "10.0.0.3-2".toList = .ok false := by decide +kernel

/-- octet-list form, malformed (empty spec, not four lists, or a malformed element): iteration
    raises ValueError or AddrFormatError before the first item, and `valid_nmap_range` is False.
    `0 < fuel` was added after audit 2b finding 2: the statement without it was FALSE of the code
    at `fuel = 0` — `iter_nmap_range` is a generator, nothing of it runs before the first
    `next()`, so `list(islice(iter_nmap_range('bad'), 0)) == []`; `Nmap.iterNmapRange` is the
    generator advanced at least once (`fuel ≥ 1`), the `fuel = 0` case is
    `Nmap.isliceNmapRange` / `C17A2.nmap_take_zero`. -/
theorem nmap_rejects (F : Foreign) (fuel : Nat) (_hf : 0 < fuel) (spec : List Char)
    (h1 : '/' ∉ spec) (h2 : ':' ∉ spec) (hwf : ¬ NmapOctetsWF spec) :
    (∃ e, iterNmapRange F fuel spec = .error e ∧ (e = .value ∨ e = .addrFormat)) ∧
      validNmapRange F spec = .ok false := by
  have c1 : spec.contains '/' = false := by
    rw [Bool.eq_false_iff]; intro h; exact h1 (List.contains_iff_mem.1 h)
  have c2 : spec.contains ':' = false := by
    rw [Bool.eq_false_iff]; intro h; exact h2 (List.contains_iff_mem.1 h)
  have key : ∀ fuel, ∃ e, iterNmapRange F fuel spec = .error e ∧ (e = .value ∨ e = .addrFormat) := by
    intro fuel
    cases hgen : generateOctetRanges spec with
    | error e =>
      exact ⟨e, by simp only [iterNmapRange, parseTargetSpec, c1, c2, Bool.false_eq_true, if_false, hgen],
        generate_err hgen⟩
    | ok rs =>
      exfalso
      obtain ⟨hne, t0, t1, t2, t3, l0, l1, l2, l3, hsp, _, h0, h1', h2', h3⟩ := generate_ok hgen
      have wf : ∀ t l, octetTargetValues t = .ok l → OctetWF t := by
        intro t l h
        rcases octetTargetValues_cases t with ⟨w, _⟩ | ⟨_, h'⟩
        · exact w
        · rw [h] at h'; exact absurd h' (by simp)
      exact hwf ⟨hne, t0, t1, t2, t3, hsp, wf _ _ h0, wf _ _ h1', wf _ _ h2', wf _ _ h3⟩
  refine ⟨key fuel, ?_⟩
  obtain ⟨e, he, hc⟩ := key 1
  rw [nmap_valid_iff_iter_ok F 1 (by omega) spec, he]
  have : caught e := by rcases hc with h | h <;> simp [caught, h]
  simp [this]

/-- CIDR form (`/` in the spec): the prefix text must be an `int()` in 1..32 (else ValueError /
    AddrFormatError), the foreign `IPNetwork(spec)` must accept it as IPv4 (else its error /
    AddrFormatError); iteration then yields, ascending, exactly the addresses `first..last` of
    that network.
    (`nmap_cidr_model`: the equation for the model function at every `fuel`; it is a lemma — at
    `fuel = 0` its error branches say something the Python generator does not do, see
    `nmap_cidr` below, which is the property statement.) -/
theorem nmap_cidr_model (F : Foreign) (fuel : Nat) (spec : List Char) (h1 : '/' ∈ spec) :
    iterNmapRange F fuel spec =
      match Py.pyInt 10 (split1 '/' spec).2 with
      | none => .error .value
      | some p =>
        if ¬ (0 < p ∧ p < 33) then .error .addrFormat
        else match F.ipNetwork spec with
          | .error e => .error e
          | .ok net =>
            if net.ver ≠ 4 then .error .addrFormat
            else .ok ((((List.range (net.last + 1 - net.first)).map (net.first + ·)).take fuel).map (fun v => ⟨4, v⟩)) := by
  have c1 : spec.contains '/' = true := List.contains_iff_mem.2 h1
  simp only [iterNmapRange, parseTargetSpec, c1, if_true, netIter]
  cases Py.pyInt 10 (split1 '/' spec).2 with
  | none => rfl
  | some p =>
    simp only
    split
    · rfl
    · cases F.ipNetwork spec with
      | error e => rfl
      | ok net =>
        simp only
        split
        · rfl
        · rw [← List.map_take, List.take_range, Nat.min_comm]

/-- **CIDR form** (the property statement; `0 < fuel` added after audit 2b finding 2 — the
    error branches were FALSE of the code at `fuel = 0`, where the generator has not started and
    `islice(gen, 0)` is `[]` whatever the spec): the equation of `nmap_cidr_model` for every
    positive number of items asked for. -/
theorem nmap_cidr (F : Foreign) (fuel : Nat) (_hf : 0 < fuel) (spec : List Char) (h1 : '/' ∈ spec) :
    iterNmapRange F fuel spec =
      match Py.pyInt 10 (split1 '/' spec).2 with
      | none => .error .value
      | some p =>
        if ¬ (0 < p ∧ p < 33) then .error .addrFormat
        else match F.ipNetwork spec with
          | .error e => .error e
          | .ok net =>
            if net.ver ≠ 4 then .error .addrFormat
            else .ok ((((List.range (net.last + 1 - net.first)).map (net.first + ·)).take fuel).map (fun v => ⟨4, v⟩)) :=
  nmap_cidr_model F fuel spec h1

theorem cidr_block_members (first last a : Nat) :
    a ∈ (List.range (last + 1 - first)).map (first + ·) ↔ first ≤ a ∧ a ≤ last := by
  simp only [List.mem_map, List.mem_range]
  constructor
  · rintro ⟨i, hi, rfl⟩; omega
  · intro h; exact ⟨a - first, by omega, by omega⟩

theorem cidr_block_sorted (first n : Nat) : ((List.range n).map (first + ·)).Pairwise (· < ·) := by
  rw [List.pairwise_map]
  exact List.pairwise_lt_range.imp (fun h => by omega)

/-- address form (`:` and no `/` in the spec): exactly the one address the foreign
    `IPAddress(spec)` returns, or its error -/
theorem nmap_addr (F : Foreign) (fuel : Nat) (hf : 0 < fuel) (spec : List Char) (h1 : '/' ∉ spec) (h2 : ':' ∈ spec) :
    iterNmapRange F fuel spec = (F.ipAddress spec).map (fun a => [a]) := by
  have c1 : spec.contains '/' = false := by
    rw [Bool.eq_false_iff]; intro h; exact h1 (List.contains_iff_mem.1 h)
  have c2 : spec.contains ':' = true := List.contains_iff_mem.2 h2
  simp only [iterNmapRange, parseTargetSpec, c1, c2, Bool.false_eq_true, if_false, if_true]
  cases F.ipAddress spec with
  | error e => rfl
  | ok a =>
    cases fuel with
    | zero => omega
    | succ n => simp [Except.map]

end NV.C17
