import NetaddrVerif.Model.Glob
import NetaddrVerif.Model.Nmap
namespace NV.C17
open NV NV.Glob

example : validGlob "192.0.2-3.*".toList = true := by decide +kernel

theorem smoke : validGlob "192.0.2-3.*".toList = true := by decide +kernel

end NV.C17
