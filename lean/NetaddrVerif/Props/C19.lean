/-
Props/C19.lean — IANA and IEEE registry lookups are exact with respect to the shipped data.
-/
import NetaddrVerif.Model.Registry
namespace NV.C19
open NV NV.Registry

/-- first address of the published block / range of a key (independent of netaddr's bit tricks) -/
def Key.first : Key → Nat
  | .net n => n.val / 2 ^ (width n.ver - n.plen) * 2 ^ (width n.ver - n.plen)
  | .rng r => r.lo
  | .addr a => a.val

/-- last address -/
def Key.last : Key → Nat
  | .net n => n.val / 2 ^ (width n.ver - n.plen) * 2 ^ (width n.ver - n.plen) + (2 ^ (width n.ver - n.plen) - 1)
  | .rng r => r.hi
  | .addr a => a.val

def Key.ver : Key → Nat
  | .net n => n.ver
  | .rng r => r.ver
  | .addr a => a.ver

/-- the published block or range of `k` contains the address `a` -/
def covers (k : Key) (a : Addr) : Prop := Key.ver k = a.ver ∧ Key.first k ≤ a.val ∧ a.val ≤ Key.last k

theorem div_eq_iff_block (a v B : Nat) (hB : 0 < B) : a / B = v / B ↔ v / B * B ≤ a ∧ a ≤ v / B * B + (B - 1) := by
  constructor
  · intro h
    have h1 := Nat.div_add_mod a B
    have h2 := Nat.mod_lt a hB
    rw [← h]
    rw [Nat.mul_comm] 
    omega
  · intro ⟨h1, h2⟩
    apply Nat.div_eq_of_lt_le
    · exact h1
    · rw [Nat.add_mul]; omega

theorem withinBounds_iff (a : Addr) (k : Key) : withinBounds a k = true ↔ covers k a := by
  cases k with
  | net n =>
    simp only [withinBounds, covers, Key.ver, Key.first, Key.last]
    by_cases hv : n.ver = a.ver
    · simp only [hv, bne_self_eq_false, Bool.false_eq_true, ↓reduceIte, beq_iff_eq, Nat.shiftRight_eq_div_pow, true_and]
      exact div_eq_iff_block _ _ _ (NV.two_pow_pos _)
    · simp [hv]
  | rng r =>
    simp only [withinBounds, covers, Key.ver, Key.first, Key.last]
    by_cases hv : r.ver = a.ver
    · simp [hv]
    · simp [hv]
  | addr b =>
    simp only [withinBounds, covers, Key.ver, Key.first, Key.last, Bool.and_eq_true, beq_iff_eq]
    constructor
    · rintro ⟨h1, h2⟩; omega
    · rintro ⟨h1, h2, h3⟩; omega

theorem mem_scan (a : Addr) (t : List Rec) (r : Rec) : r ∈ scan a t ↔ r ∈ t ∧ covers r.key a := by
  simp [scan, List.mem_filter, withinBounds_iff]

/-- **query_exact**: `.info` returns exactly the records of each registry whose block or range
    contains the address — none missing, none extra; IPv4 addresses see the IPv4 registry and,
    iff they are multicast, the multicast registry; IPv6 addresses the two IPv6 registries. -/
theorem query_exact (T : Tables) (a : Addr) (r : Rec) :
    (r ∈ (query T a).ipv4 ↔ a.ver = 4 ∧ r ∈ T.ipv4 ∧ covers r.key a) ∧
    (r ∈ (query T a).mcast ↔ a.ver = 4 ∧ isMulticast4 a.val = true ∧ r ∈ T.mcast ∧ covers r.key a) ∧
    (r ∈ (query T a).ipv6 ↔ a.ver = 6 ∧ r ∈ T.ipv6 ∧ covers r.key a) ∧
    (r ∈ (query T a).ipv6u ↔ a.ver = 6 ∧ r ∈ T.ipv6u ∧ covers r.key a) := by
  unfold query
  by_cases h4 : a.ver = 4
  · simp only [h4, ↓reduceIte, true_and, mem_scan]
    by_cases hm : isMulticast4 a.val = true <;> simp [hm, mem_scan]
  · by_cases h6 : a.ver = 6
    · simp [h6, mem_scan]
    · simp [h4, h6]

end NV.C19
