/-
Props/C19.lean — IANA and IEEE registry lookups are exact with respect to the shipped data.

properties.jsonl C19: for every address, `.info` returns exactly the IANA records whose published
block or range contains it (IPv4 space; IPv6 space; IPv6 unicast; multicast only for multicast
addresses); for every IEEE identifier the shipped index and registry agree (registered iff the
index has rows, each row's byte range is exactly the record, lookups return the organisation and
address lines of that record); index rows produced by netaddr's own parsers from any well-formed
registry text delimit every record exactly.

What is proved here (about the definitions the driver executes, `Model/Registry.lean`):
  * `query_exact`, `query_piecewise_const`            — the lookup, for every table and address;
  * `index_delimits_oui/_iab`, `index_rows_oui/_iab`, `index_no_record`, `oui_recKey`, `iab_recKey`,
    `iab_second_base16`, `specRows_total`              — the index parsers on every well-formed text;
  * `index_any_file`, `index_any_file_slices`         — the same for EVERY byte string (each file has exactly
    one reading as header + records; no record = AttributeError);
  * `oui_key(_canonical)`, `iab_key(_canonical)`      — which identifier a row carries;
  * `parseLines_ok`, `parseLines_ok_iff`, `parseLines_err`, `registered_iff`, `lookup_spec`,
    `lookup_through_index_oui/_iab`
                                                        — record retrieval through the index.
What is data and tied by the harness only: the contents of the XML / idx / txt files, the SAX
loader and its normalisers, UTF-8 decoding, `csv`.
-/
import NetaddrVerif.Model.Registry
import NetaddrVerif.Lemmas.C19L
import NetaddrVerif.Lemmas.C19LKey
import NetaddrVerif.Lemmas.NetworkL
import NetaddrVerif.Gen.Iana
namespace NV.C19
open NV NV.Registry

/-! ## IANA lookup -/

/-- first address of the published block / range of a key (independent of netaddr's bit tricks) -/
def Key.first : Key → Nat
  | .net n => n.val / 2 ^ (width n.ver - n.plen) * 2 ^ (width n.ver - n.plen)
  | .rng r => r.lo
  | .addr a => a.val

/-- last address -/
def Key.last : Key → Nat
  | .net n => n.val / 2 ^ (width n.ver - n.plen) * 2 ^ (width n.ver - n.plen) + (2 ^ (width n.ver - n.plen) - 1)
  | .rng r => r.hi
  | .addr a => a.val

def Key.ver : Key → Nat
  | .net n => n.ver
  | .rng r => r.ver
  | .addr a => a.ver

/-- the published block or range of `k` contains the address `a` -/
def covers (k : Key) (a : Addr) : Prop := Key.ver k = a.ver ∧ Key.first k ≤ a.val ∧ a.val ≤ Key.last k

theorem withinBounds_iff (a : Addr) (k : Key) : withinBounds a k = true ↔ covers k a := by
  cases k with
  | net n =>
    simp only [withinBounds, covers, Key.ver, Key.first, Key.last]
    by_cases hv : n.ver = a.ver
    · simp only [hv, bne_self_eq_false, Bool.false_eq_true, ↓reduceIte, beq_iff_eq, Nat.shiftRight_eq_div_pow, true_and]
      exact div_eq_iff_block _ _ _ (NV.two_pow_pos _)
    · simp [hv]
  | rng r =>
    simp only [withinBounds, covers, Key.ver, Key.first, Key.last]
    by_cases hv : r.ver = a.ver
    · simp [hv]
    · simp [hv]
  | addr b =>
    simp only [withinBounds, covers, Key.ver, Key.first, Key.last, Bool.and_eq_true, beq_iff_eq]
    constructor
    · rintro ⟨h1, h2⟩; omega
    · rintro ⟨h1, h2, h3⟩; omega

theorem mem_scan (a : Addr) (t : List Rec) (r : Rec) : r ∈ scan a t ↔ r ∈ t ∧ covers r.key a := by
  simp [scan, List.mem_filter, withinBounds_iff]

/-- the gate of the multicast registry is interval membership in `IPV4_MULTICAST` (whatever block
    the source defines: its edges are breakpoints of `query_piecewise_const`) -/
theorem isMulticast4_iff (v : Nat) : isMulticast4 v = true ↔ covers multicastNet ⟨4, v⟩ :=
  withinBounds_iff _ _

/-- **query_exact**: `.info` returns exactly the records of each registry whose block or range
    contains the address — none missing, none extra; IPv4 addresses see the IPv4 registry and,
    iff they are multicast, the multicast registry; IPv6 addresses the two IPv6 registries. -/
theorem query_exact (T : Tables) (a : Addr) (r : Rec) :
    (r ∈ (query T a).ipv4 ↔ a.ver = 4 ∧ r ∈ T.ipv4 ∧ covers r.key a) ∧
    (r ∈ (query T a).mcast ↔ a.ver = 4 ∧ isMulticast4 a.val = true ∧ r ∈ T.mcast ∧ covers r.key a) ∧
    (r ∈ (query T a).ipv6 ↔ a.ver = 6 ∧ r ∈ T.ipv6 ∧ covers r.key a) ∧
    (r ∈ (query T a).ipv6u ↔ a.ver = 6 ∧ r ∈ T.ipv6u ∧ covers r.key a) := by
  unfold query
  by_cases h4 : a.ver = 4
  · simp only [h4, ↓reduceIte, true_and, mem_scan]
    by_cases hm : isMulticast4 a.val = true <;> simp [hm, mem_scan]
  · by_cases h6 : a.ver = 6
    · simp [h6, mem_scan]
    · simp [h4, h6]

/-- the places where the answer may change: every record's first address and last+1, and the
    edges of the IPv4 multicast block that gates the multicast registry -/
def breakpoints (T : Tables) : List Nat :=
  (T.ipv4 ++ T.ipv6 ++ T.ipv6u ++ T.mcast).flatMap (fun r => [Key.first r.key, Key.last r.key + 1]) ++
    [Key.first multicastNet, Key.last multicastNet + 1]

theorem covers_congr (k : Key) (a b : Addr) (hv : a.ver = b.ver) (hab : a.val ≤ b.val)
    (h1 : ¬ (a.val < Key.first k ∧ Key.first k ≤ b.val))
    (h2 : ¬ (a.val < Key.last k + 1 ∧ Key.last k + 1 ≤ b.val)) : covers k a ↔ covers k b := by
  unfold covers
  rw [hv]
  constructor <;> rintro ⟨h, h3, h4⟩ <;> refine ⟨h, ?_, ?_⟩ <;> omega

theorem scan_congr (t : List Rec) (a b : Addr) (hv : a.ver = b.ver) (hab : a.val ≤ b.val)
    (h : ∀ r ∈ t, ¬ (a.val < Key.first r.key ∧ Key.first r.key ≤ b.val) ∧
                   ¬ (a.val < Key.last r.key + 1 ∧ Key.last r.key + 1 ≤ b.val)) :
    scan a t = scan b t := by
  unfold scan
  apply List.filter_congr
  intro r hr
  have := covers_congr r.key a b hv hab (h r hr).1 (h r hr).2
  rw [← withinBounds_iff, ← withinBounds_iff] at this
  exact Bool.eq_iff_iff.mpr this

/-- **query_piecewise_const**: between two consecutive breakpoints the answer does not change:
    if no record's first address or last+1 (and no edge of the multicast block) lies in
    `(a, b]`, the two addresses of one family get the same answer. -/
theorem query_piecewise_const (T : Tables) (a b : Addr) (hv : a.ver = b.ver) (hab : a.val ≤ b.val)
    (hno : ∀ p ∈ breakpoints T, ¬ (a.val < p ∧ p ≤ b.val)) : query T a = query T b := by
  have hrec : ∀ t : List Rec, (∀ r ∈ t, r ∈ T.ipv4 ++ T.ipv6 ++ T.ipv6u ++ T.mcast) → scan a t = scan b t := by
    intro t ht
    apply scan_congr t a b hv hab
    intro r hr
    constructor
    · apply hno
      exact List.mem_append.mpr (Or.inl (List.mem_flatMap.mpr ⟨r, ht r hr, by simp⟩))
    · apply hno
      exact List.mem_append.mpr (Or.inl (List.mem_flatMap.mpr ⟨r, ht r hr, by simp⟩))
  have hm : isMulticast4 a.val = isMulticast4 b.val := by
    unfold isMulticast4
    apply Bool.eq_iff_iff.mpr
    rw [withinBounds_iff, withinBounds_iff]
    apply covers_congr multicastNet ⟨4, a.val⟩ ⟨4, b.val⟩ rfl hab
    · apply hno; simp [breakpoints]
    · apply hno; simp [breakpoints]
  unfold query
  rw [← hv, ← hm]
  rw [hrec T.ipv4 (by intro r hr; simp [hr]), hrec T.ipv6 (by intro r hr; simp [hr]),
    hrec T.ipv6u (by intro r hr; simp [hr]), hrec T.mcast (by intro r hr; simp [hr])]

/-- `Key.first` / `Key.last` of a network key are netaddr's own `IPNetwork.first` / `.last`
    (the C02 model, `Model/Network.lean`) whenever the value fits the family width -/
theorem net_first_last (n : Net) (hv : n.val < 2 ^ width n.ver) :
    Key.first (.net n) = n.first ∧ Key.last (.net n) = n.last := by
  simp only [Key.first, Key.last, Net.first, Net.last, netFirst_eq _ _ _ hv, netLast_eq, and_self]

/-- a row of the regenerated tables is a valid key: family 4/6, value inside the family,
    prefix ≤ width, range ascending -/
def validRow (r : Nat × Nat × Nat × Nat) : Bool :=
  let (kind, ver, x, y) := r
  (ver == 4 || ver == 6) && x < 2 ^ width ver &&
    (if kind = 0 then y ≤ width ver else if kind = 1 then x ≤ y && y < 2 ^ width ver else kind == 2)

/-- the shipped tables (as loaded by netaddr at import, regenerated every run) consist of valid
    keys, so `net_first_last` applies to every network row -/
theorem shipped_tables_valid :
    (Gen.ianaIPv4.all validRow && Gen.ianaIPv6.all validRow &&
     Gen.ianaIPv6Unicast.all validRow && Gen.ianaMulticast.all validRow) = true := by decide +kernel

/-! ## index parsers -/

section generic
variable {K : Type} (start : Line → R K) (cont : K → Line → R K)

/-- hypotheses of "well-formed registry text": the file is `hd ++ rec_1 ++ … ++ rec_n` split
    into lines as `readline()` does; no header line has the `(hex)` marker; every record starts
    with a `(hex)` line and is otherwise free of it; there is at least one record. -/
structure WellFormed (hd : List Line) (recs : List (List Line)) : Prop where
  lines : Lines (hd ++ recs.flatten)
  header : ∀ l ∈ hd, hasHex l = false
  records : ∀ r ∈ recs, ∃ h t, r = h :: t ∧ hasHex h = true ∧ ∀ l ∈ t, hasHex l = false
  nonempty : recs ≠ []

theorem WellFormed.body {hd recs} (w : WellFormed hd recs) : ∀ l ∈ hd, BodyLine l :=
  fun l hl => ⟨w.lines.ne_nil l (by simp [hl]), w.header l hl⟩

theorem WellFormed.recWF {hd recs} (w : WellFormed hd recs) : ∀ r ∈ recs, RecWF r := by
  intro r hr
  obtain ⟨h, t, rfl, hh, ht⟩ := w.records r hr
  refine ⟨h, t, rfl, hh, fun l hl => ⟨w.lines.ne_nil l ?_, ht l hl⟩⟩
  simp only [List.mem_append, List.mem_flatten]
  exact Or.inr ⟨h :: t, hr, by simp [hl]⟩

/-- the parser loop over the bytes of a well-formed file yields exactly the specified rows -/
theorem genIndex_delimits (hd : List Line) (recs : List (List Line)) (w : WellFormed hd recs) :
    genLoop start cont (pyLines (hd ++ recs.flatten).flatten) true none 0 0 =
      specRows start cont (lenSum hd) recs := by
  rw [pyLines_of_lines _ w.lines]
  exact genLoop_delimits start cont hd recs w.body w.recWF w.nonempty

/-- … and spelled out: the rows correspond one-to-one, in order, to the records; each row
    carries its record's identifier, `offset = |header| + Σ_{j<i} |rec_j|`, `size = |rec_i|`, and
    `text[offset : offset+size]` is exactly the record. -/
theorem genIndex_rows (hd : List Line) (recs : List (List Line)) (w : WellFormed hd recs)
    (rows : List (Row K))
    (h : genLoop start cont (pyLines (hd ++ recs.flatten).flatten) true none 0 0 = .ok rows) :
    All2 (fun (row : Row K) r => recKey start cont r = .ok row.1 ∧
        slice (hd ++ recs.flatten).flatten row.2.1 row.2.2 = r.flatten) rows recs ∧
      rows.map (fun row => row.2) = layout (lenSum hd) recs := by
  rw [genIndex_delimits start cont hd recs w] at h
  obtain ⟨hk, hl⟩ := (specRows_ok_iff start cont recs (lenSum hd) rows).mp h
  refine ⟨?_, hl⟩
  have hs := layout_slices recs hd.flatten []
  rw [← lenSum_eq_flatten, ← hl] at hs
  simp only [List.append_nil, ← List.flatten_append] at hs
  exact all2_and (f := fun row => row.2) hk hs

/-- the parser fails only if computing some record's identifier fails -/
theorem specRows_total (recs : List (List Line)) (hk : ∀ r ∈ recs, ∃ k, recKey start cont r = .ok k) :
    ∀ off, ∃ rows, specRows start cont off recs = .ok rows := by
  induction recs with
  | nil => intro off; exact ⟨[], rfl⟩
  | cons r rs ih =>
    intro off
    obtain ⟨k, hk1⟩ := hk r (by simp)
    obtain ⟨tail, ht⟩ := ih (fun x hx => hk x (by simp [hx])) (off + lenSum r)
    exact ⟨(k, off, lenSum r) :: tail, by simp [specRows, hk1, ht, bind, Except.bind, pure, Except.pure]⟩

end generic

/-- **index_delimits (OUI)** -/
theorem index_delimits_oui (hd : List Line) (recs : List (List Line)) (w : WellFormed hd recs) :
    ouiIndex (hd ++ recs.flatten).flatten = specRows ouiStart ouiCont (lenSum hd) recs :=
  genIndex_delimits ouiStart ouiCont hd recs w

/-- **index_delimits (IAB)** -/
theorem index_delimits_iab (hd : List Line) (recs : List (List Line)) (w : WellFormed hd recs) :
    iabIndex (hd ++ recs.flatten).flatten = specRows iabStart iabCont (lenSum hd) recs :=
  genIndex_delimits iabStart iabCont hd recs w

theorem index_rows_oui (hd : List Line) (recs : List (List Line)) (w : WellFormed hd recs)
    (rows : List (Row Int)) (h : ouiIndex (hd ++ recs.flatten).flatten = .ok rows) :
    All2 (fun (row : Row Int) r => recKey ouiStart ouiCont r = .ok row.1 ∧
        slice (hd ++ recs.flatten).flatten row.2.1 row.2.2 = r.flatten) rows recs ∧
      rows.map (fun row => row.2) = layout (lenSum hd) recs :=
  genIndex_rows ouiStart ouiCont hd recs w rows h

theorem index_rows_iab (hd : List Line) (recs : List (List Line)) (w : WellFormed hd recs)
    (rows : List (Row IabKey)) (h : iabIndex (hd ++ recs.flatten).flatten = .ok rows) :
    All2 (fun (row : Row IabKey) r => recKey iabStart iabCont r = .ok row.1 ∧
        slice (hd ++ recs.flatten).flatten row.2.1 row.2.2 = r.flatten) rows recs ∧
      rows.map (fun row => row.2) = layout (lenSum hd) recs :=
  genIndex_rows iabStart iabCont hd recs w rows h

/-- a text without a `(hex)` line (no record): both parsers raise (AttributeError on `None`) -/
theorem index_no_record (hd : List Line) (hl : Lines hd) (hh : ∀ l ∈ hd, hasHex l = false) :
    ouiIndex hd.flatten = .error .other ∧ iabIndex hd.flatten = .error .other := by
  have hb : ∀ l ∈ hd, BodyLine l := fun l h => ⟨hl.ne_nil l h, hh l h⟩
  unfold ouiIndex iabIndex ouiIndexLines iabIndexLines
  rw [pyLines_of_lines _ hl]
  exact ⟨genLoop_no_record _ _ hd hb, genLoop_no_record _ _ hd hb⟩

/-- OUI identifier of a record: `int(first token of the (hex) line without hyphens, 16)`; the
    other lines do not matter -/
theorem oui_recKey (h : Line) (t : List Line) : recKey ouiStart ouiCont (h :: t) = ouiStart h := by
  have : ∀ k, List.foldlM ouiCont k t = .ok k := by
    induction t with
    | nil => intro k; rfl
    | cons l t ih => intro k; simp [List.foldlM_cons, ouiCont, ih, bind, Except.bind]
  simp only [recKey]
  cases ouiStart h with
  | error e => rfl
  | ok k => simp [bind, Except.bind, this]

theorem iab_fold_nobase16 (t : List Line) (ht : ∀ l ∈ t, hasBase16 l = false) :
    ∀ k, List.foldlM iabCont k t = .ok k := by
  induction t with
  | nil => intro k; rfl
  | cons l t ih =>
    intro k
    have h1 := ht l (by simp)
    simp [List.foldlM_cons, iabCont, h1, bind, Except.bind, ih (fun x hx => ht x (by simp [hx]))]

/-- IAB identifier of a record with exactly one `(base 16)` line `b`: the hyphen-free first
    token of the `(hex)` line followed by the first token of `b` up to its hyphen, read as
    hexadecimal, shifted right by 12 -/
theorem iab_recKey (h b : Line) (t1 t2 : List Line)
    (h1 : ∀ l ∈ t1, hasBase16 l = false) (h2 : ∀ l ∈ t2, hasBase16 l = false) (hb : hasBase16 b = true) :
    recKey iabStart iabCont (h :: (t1 ++ b :: t2)) =
      (do let p ← firstTok h
          let tok ← firstTok b
          let v ← intHex (dropHyphens p ++ tok.takeWhile (· != 45))
          pure (IabKey.num (v >>> 12))) := by
  simp only [recKey, iabStart, List.foldlM_append, List.foldlM_cons]
  cases firstTok h with
  | error e => rfl
  | ok p =>
    simp only [bind, Except.bind, pure, Except.pure, iab_fold_nobase16 t1 h1, iabCont, hb, ↓reduceIte]
    cases firstTok b with
    | error e => rfl
    | ok tok =>
      simp only
      cases intHex (dropHyphens p ++ List.takeWhile (fun x => x != 45) tok) with
      | error e => rfl
      | ok v => simp [iab_fold_nobase16 t2 h2]

/-- a second `(base 16)` line in one IAB record is rejected (AttributeError on the int) -/
theorem iab_second_base16 (n : Int) (b : Line) (hb : hasBase16 b = true) :
    iabCont (.num n) b = .error .other := by
  simp [iabCont, hb]

/-! ## … and on every file whatsoever -/

/-- **the parser loop on ANY file**: read the lines as `readline()` does and split them the only
    possible way into header (before the first `(hex)` line) and records (each from one `(hex)`
    line up to the next); then the parser raises AttributeError if there is no record, and
    otherwise returns exactly the specified rows — no well-formedness assumption left. -/
theorem genIndex_any_file {K : Type} (start : Line → R K) (cont : K → Line → R K) (bs : List Nat) :
    genLoop start cont (pyLines bs) true none 0 0 =
      (if (decompose (pyLines bs)).2 = [] then .error .other
       else specRows start cont (lenSum (decompose (pyLines bs)).1) (decompose (pyLines bs)).2) := by
  have hne := pyLines_ne_nil bs
  have hfl := decompose_flatten (pyLines bs)
  have hb : ∀ l ∈ (decompose (pyLines bs)).1, BodyLine l := fun l hl =>
    ⟨hne l (decompose_header _ l hl).2, (decompose_header _ l hl).1⟩
  split
  · rename_i hnil
    rw [hnil, List.flatten_nil, List.append_nil] at hfl
    rw [← hfl]
    exact genLoop_no_record start cont _ hb
  · rename_i hnn
    have hr : ∀ r ∈ (decompose (pyLines bs)).2, RecWF r := by
      intro r hr
      obtain ⟨h, t, rfl, h1, h2, h3⟩ := decompose_records _ r hr
      exact ⟨h, t, rfl, h1, fun l hl => ⟨hne l (h3 l (by simp [hl])), h2 l hl⟩⟩
    have := genLoop_delimits start cont _ _ hb hr hnn
    rw [hfl] at this
    exact this

/-- for both parsers, on every byte string -/
theorem index_any_file (bs : List Nat) :
    ouiIndex bs = (if (decompose (pyLines bs)).2 = [] then .error .other
      else specRows ouiStart ouiCont (lenSum (decompose (pyLines bs)).1) (decompose (pyLines bs)).2) ∧
    iabIndex bs = (if (decompose (pyLines bs)).2 = [] then .error .other
      else specRows iabStart iabCont (lenSum (decompose (pyLines bs)).1) (decompose (pyLines bs)).2) :=
  ⟨genIndex_any_file ouiStart ouiCont bs, genIndex_any_file iabStart iabCont bs⟩

/-- and the rows cut the file exactly: their byte ranges are the records, in order, and
    header + records is the whole file -/
theorem index_any_file_slices (bs : List Nat) :
    All2 (fun (os : Nat × Nat) r => slice bs os.1 os.2 = r.flatten)
      (layout (lenSum (decompose (pyLines bs)).1) (decompose (pyLines bs)).2) (decompose (pyLines bs)).2 ∧
    ((decompose (pyLines bs)).1 ++ (decompose (pyLines bs)).2.flatten).flatten = bs := by
  have hfl := decompose_flatten (pyLines bs)
  have hbs : ((decompose (pyLines bs)).1 ++ (decompose (pyLines bs)).2.flatten).flatten = bs := by
    rw [hfl, pyLines_flatten]
  refine ⟨?_, hbs⟩
  have := layout_slices (decompose (pyLines bs)).2 (decompose (pyLines bs)).1.flatten []
  rw [← lenSum_eq_flatten] at this
  simp only [List.append_nil, ← List.flatten_append, hbs] at this
  exact this

/-! ## which identifier a row carries -/

/-- **OUI row key** (general form): `(hex)` line = optional whitespace, a token of hex digits and
    hyphens, then whitespace or end of line ⇒ the key is the token's hexadecimal value -/
theorem oui_key (pre tok rest : List Nat) (t : List Line) (hpre : ∀ b ∈ pre, isWsB b = true) (hid : IdTok tok)
    (hne : dropHyphens tok ≠ []) (hrest : rest = [] ∨ ∃ s r, rest = s :: r ∧ isWsB s = true) :
    recKey ouiStart ouiCont ((pre ++ tok ++ rest) :: t) = .ok (hexValue (dropHyphens tok) : Int) := by
  rw [oui_recKey, ouiStart_spec pre tok rest hpre hid hne hrest]

/-- **OUI row key** (the registry's own print format): a record whose first line starts with
    `XX-XX-XX` + whitespace is indexed under exactly that 24-bit identifier -/
theorem oui_key_canonical (p : Nat) (hp : p < 2 ^ 24) (s : Nat) (hs : isWsB s = true) (rest : List Nat)
    (t : List Line) : recKey ouiStart ouiCont ((fmtOui p ++ s :: rest) :: t) = .ok (p : Int) := by
  rw [oui_recKey, ouiStart_canonical p hp s hs rest]

/-- **IAB row key** (general form): `(hex)` line with identifier token `p`, exactly one
    `(base 16)` line whose first token is an identifier token `tok` ⇒ the key is
    `hex(p without hyphens ++ tok up to its first hyphen) >> 12` -/
theorem iab_key (pre1 p rest1 : List Nat) (pre2 tok rest2 : List Nat) (t1 t2 : List Line)
    (hpre1 : ∀ b ∈ pre1, isWsB b = true) (hp : IdTok p) (hpne : p ≠ [])
    (hrest1 : rest1 = [] ∨ ∃ s r, rest1 = s :: r ∧ isWsB s = true)
    (h1 : ∀ l ∈ t1, hasBase16 l = false) (h2 : ∀ l ∈ t2, hasBase16 l = false)
    (hb : hasBase16 (pre2 ++ tok ++ rest2) = true)
    (hpre2 : ∀ b ∈ pre2, isWsB b = true) (hid : IdTok tok) (htne : tok ≠ [])
    (hne : dropHyphens p ++ tok.takeWhile (· != 45) ≠ [])
    (hrest2 : rest2 = [] ∨ ∃ s r, rest2 = s :: r ∧ isWsB s = true) :
    recKey iabStart iabCont ((pre1 ++ p ++ rest1) :: (t1 ++ (pre2 ++ tok ++ rest2) :: t2)) =
      .ok (.num ((hexValue (dropHyphens p ++ tok.takeWhile (· != 45)) : Int) >>> 12)) := by
  rw [iab_recKey _ _ t1 t2 h1 h2 hb, firstTok_spec pre1 p rest1 hpre1 hp.noWs hpne hrest1]
  have := iabCont_spec p hp pre2 tok rest2 hb hpre2 hid htne hne hrest2
  unfold iabCont at this
  simp only [hb, ↓reduceIte] at this
  simpa [bind, Except.bind] using this

/-- **IAB row key** (the registry's own print format): first line `XX-XX-XX` + whitespace,
    then the `(base 16)` line `YYYZZZ-…` + whitespace, then lines without `(base 16)`:
    the row is indexed under the 36-bit identifier `XXXXXXYYY` -/
theorem iab_key_canonical (q v : Nat) (hq : q < 2 ^ 24) (hv : v < 2 ^ 24) (tail : List Nat) (htail : IdTok tail)
    (s1 s2 : Nat) (hs1 : isWsB s1 = true) (hs2 : isWsB s2 = true) (rest1 rest2 : List Nat) (t2 : List Line)
    (hb : hasBase16 (fmtHex6 v ++ 45 :: tail ++ s2 :: rest2) = true) (h2 : ∀ l ∈ t2, hasBase16 l = false) :
    recKey iabStart iabCont ((fmtOui q ++ s1 :: rest1) :: (fmtHex6 v ++ 45 :: tail ++ s2 :: rest2) :: t2) =
      .ok (.num ((q * 4096 + v / 4096 : Nat) : Int)) := by
  have h := iab_recKey (fmtOui q ++ s1 :: rest1) (fmtHex6 v ++ 45 :: tail ++ s2 :: rest2) [] t2 (by simp) h2 hb
  simp only [List.nil_append] at h
  rw [h]
  have hf := firstTok_spec [] (fmtOui q) (s1 :: rest1) (by simp) (fmtOui_idTok q).noWs (by simp [fmtOui])
    (Or.inr ⟨s1, rest1, rfl, hs1⟩)
  simp only [List.nil_append] at hf
  rw [hf]
  have hc := iabCont_canonical q v hq hv tail htail s2 hs2 rest2 hb
  unfold iabCont at hc
  simp only [hb, ↓reduceIte] at hc
  simpa [bind, Except.bind] using hc

/-! ## record retrieval (`_parse_data`) -/

/-- a stripped line that goes into `address` -/
def isAddrLine (l : List Char) : Bool := !l.isEmpty && !hasSubC hexMarkerC l && !hasSubC base16MarkerC l

/-- the stripped, non-empty lines with the `(hex)` marker -/
def hexLines (ls : List (List Char)) : List (List Char) :=
  (ls.map strip).filter (fun l => !l.isEmpty && hasSubC hexMarkerC l)

theorem thirdField_err (s : List Char) (e : Err) (h : thirdField s = .error e) : e = .index := by
  dsimp only [thirdField] at h
  split at h
  · injection h with h; exact h.symm
  · cases h

/-- `address` = the stripped non-blank lines that carry neither marker, in order; `org` = third
    field of the last `(hex)` line (initial value if there is none) -/
theorem parseLines_ok (ls : List (List Char)) : ∀ (p q : Parsed), parseLines ls p = .ok q →
    q.address = p.address ++ (ls.map strip).filter isAddrLine ∧
    q.org = (hexLines ls).foldl (fun _ l => (thirdField l).toOption) p.org := by
  induction ls with
  | nil => intro p q h; simp only [parseLines] at h; injection h with h; subst h; simp [hexLines]
  | cons l rest ih =>
    intro p q h
    simp only [parseLines] at h
    by_cases he : (strip l).isEmpty = true
    · simp only [he, ↓reduceIte] at h
      have := ih p q h
      simp [this, hexLines, isAddrLine, he]
    · simp only [he, Bool.false_eq_true, ↓reduceIte] at h
      by_cases hx : hasSubC hexMarkerC (strip l) = true
      · simp only [hx, ↓reduceIte] at h
        cases ht : thirdField (strip l) with
        | error e => rw [ht] at h; simp [bind, Except.bind] at h
        | ok o =>
          rw [ht] at h
          simp only [bind, Except.bind] at h
          have := ih _ q h
          simp [this, hexLines, isAddrLine, he, hx, ht, Except.toOption]
      · simp only [hx, Bool.false_eq_true, ↓reduceIte] at h
        by_cases hb : hasSubC base16MarkerC (strip l) = true
        · simp only [hb, ↓reduceIte] at h
          have := ih p q h
          simp [this, hexLines, isAddrLine, he, hx, hb]
        · simp only [hb, Bool.false_eq_true, ↓reduceIte] at h
          have := ih _ q h
          simp [this, hexLines, isAddrLine, he, hx, hb]

/-- `_parse_data` fails exactly when some `(hex)` line has fewer than three fields (IndexError) -/
theorem parseLines_ok_iff (ls : List (List Char)) : ∀ (p : Parsed),
    (∃ q, parseLines ls p = .ok q) ↔ ∀ l ∈ hexLines ls, ∃ o, thirdField l = .ok o := by
  induction ls with
  | nil => intro p; simp [parseLines, hexLines]
  | cons l rest ih =>
    intro p
    simp only [parseLines]
    by_cases he : (strip l).isEmpty = true
    · simp only [he, ↓reduceIte]
      rw [ih p]; simp [hexLines, he]
    · simp only [he, Bool.false_eq_true, ↓reduceIte]
      by_cases hx : hasSubC hexMarkerC (strip l) = true
      · simp only [hx, ↓reduceIte]
        cases ht : thirdField (strip l) with
        | error e =>
          simp only [bind, Except.bind]
          constructor
          · rintro ⟨q, h⟩; cases h
          · intro h
            have := h (strip l) (by simp [hexLines, he, hx])
            rw [ht] at this; obtain ⟨o, ho⟩ := this; cases ho
        | ok o =>
          simp only [bind, Except.bind]
          rw [ih]
          simp [hexLines, he, hx, ht]
      · simp only [hx, Bool.false_eq_true, ↓reduceIte]
        by_cases hb : hasSubC base16MarkerC (strip l) = true
        · simp only [hb, ↓reduceIte]; rw [ih p]; simp [hexLines, he, hx]
        · simp only [hb, Bool.false_eq_true, ↓reduceIte]; rw [ih]; simp [hexLines, he, hx]

theorem parseLines_err (ls : List (List Char)) : ∀ (p : Parsed) (e : Err), parseLines ls p = .error e → e = .index := by
  induction ls with
  | nil => intro p e h; simp [parseLines] at h
  | cons l rest ih =>
    intro p e h
    simp only [parseLines] at h
    split at h
    · exact ih _ _ h
    · split at h
      · cases ht : thirdField (strip l) with
        | error e' =>
          rw [ht] at h; simp only [bind, Except.bind] at h
          injection h with h; subst h
          exact thirdField_err _ _ ht
        | ok o => rw [ht] at h; simp only [bind, Except.bind] at h; exact ih _ _ h
      · split at h <;> exact ih _ _ h

theorem parseRecord_err (data : List Char) (e : Err) (h : parseRecord data = .error e) : e = .index :=
  parseLines_err _ _ _ h

/-- **registered iff the index has rows** (`OUI(v)`, `IAB(v)`): NotRegisteredError is raised
    exactly when no index row carries the identifier -/
theorem registered_iff (read : Nat → Nat → List Char) (index : List (Nat × Nat × Nat)) (v : Nat) :
    (ouiRecords read index v = .error .notRegistered ↔ ∀ r ∈ index, r.1 ≠ v) ∧
    (iabRecord read index v = .error .notRegistered ↔ ∀ r ∈ index, r.1 ≠ v) := by
  rw [← lookupRows_nil_iff]
  constructor
  · unfold ouiRecords
    cases hl : lookupRows index v with
    | nil => simp
    | cons x xs =>
      simp only [reduceCtorEq, iff_false]
      intro h
      obtain ⟨y, _, hy⟩ := mapM_err _ _ _ h
      obtain ⟨off, size⟩ := y
      simp only at hy
      cases hp : parseRecord (read off size) with
      | error e =>
        rw [hp] at hy; simp only [bind, Except.bind] at hy
        injection hy with hy; subst hy
        cases parseRecord_err _ _ hp
      | ok p => rw [hp] at hy; simp [bind, Except.bind, pure, Except.pure] at hy
  · unfold iabRecord
    cases hl : lookupRows index v with
    | nil => simp
    | cons x xs =>
      obtain ⟨off, size⟩ := x
      simp only [reduceCtorEq, iff_false]
      intro h
      cases hp : parseRecord (read off size) with
      | error e =>
        rw [hp] at h; simp only [bind, Except.bind] at h
        injection h with h; subst h
        cases parseRecord_err _ _ hp
      | ok p => rw [hp] at h; simp [bind, Except.bind, pure, Except.pure] at h

/-- **lookups return the record the row delimits**: `OUI(v)` yields one record per index row
    of `v`, in index order, with that row's offset and size and the parse of exactly the bytes
    the row delimits; `IAB(v)` does so for the first row. -/
theorem lookup_spec (read : Nat → Nat → List Char) (index : List (Nat × Nat × Nat)) (v : Nat) :
    (∀ recs, ouiRecords read index v = .ok recs →
      All2 (fun (row : Nat × Nat) (r : Nat × Nat × Parsed) =>
        r.1 = row.1 ∧ r.2.1 = row.2 ∧ parseRecord (read row.1 row.2) = .ok r.2.2) (lookupRows index v) recs) ∧
    (∀ r, iabRecord read index v = .ok r →
      ∃ rest, lookupRows index v = (r.1, r.2.1) :: rest ∧ parseRecord (read r.1 r.2.1) = .ok r.2.2) := by
  constructor
  · intro recs h
    unfold ouiRecords at h
    cases hl : lookupRows index v with
    | nil => rw [hl] at h; cases h
    | cons x xs =>
      rw [hl] at h
      simp only at h
      have := mapM_ok _ _ _ h
      clear h hl
      generalize (x :: xs) = l at this
      induction this with
      | nil => exact All2.nil
      | @cons a b as bs hab _ ih =>
        refine All2.cons ?_ ih
        obtain ⟨off, size⟩ := a
        cases hp : parseRecord (read off size) with
        | error e => rw [hp] at hab; simp [bind, Except.bind] at hab
        | ok p =>
          rw [hp] at hab
          simp only [bind, Except.bind, pure, Except.pure] at hab
          injection hab with hab; subst hab
          exact ⟨rfl, rfl, rfl⟩
  · intro r h
    unfold iabRecord at h
    cases hl : lookupRows index v with
    | nil => rw [hl] at h; cases h
    | cons x xs =>
      obtain ⟨off, size⟩ := x
      rw [hl] at h
      simp only at h
      cases hp : parseRecord (read off size) with
      | error e => rw [hp] at h; simp [bind, Except.bind] at h
      | ok p =>
        rw [hp] at h
        simp only [bind, Except.bind, pure, Except.pure] at h
        injection h with h; subst h
        exact ⟨xs, rfl, hp⟩

/-! ## corollaries in the words of the property -/

/-- none missing, none extra, in the words of the property: every row delimits one record of the
    text and carries its identifier; every record of the text has its row; as many rows as records -/
theorem index_rows_complete {K : Type} (start : Line → R K) (cont : K → Line → R K)
    (hd : List Line) (recs : List (List Line)) (w : WellFormed hd recs) (rows : List (Row K))
    (h : genLoop start cont (pyLines (hd ++ recs.flatten).flatten) true none 0 0 = .ok rows) :
    rows.length = recs.length ∧
    (∀ row ∈ rows, ∃ r ∈ recs, recKey start cont r = .ok row.1 ∧
      slice (hd ++ recs.flatten).flatten row.2.1 row.2.2 = r.flatten) ∧
    (∀ r ∈ recs, ∃ row ∈ rows, recKey start cont r = .ok row.1 ∧
      slice (hd ++ recs.flatten).flatten row.2.1 row.2.2 = r.flatten) := by
  have := (genIndex_rows start cont hd recs w rows h).1
  exact ⟨this.length_eq, this.left, this.right⟩

/-- the answer lists records in table order, each at most as often as the table has it -/
theorem query_sublist (T : Tables) (a : Addr) :
    (query T a).ipv4.Sublist T.ipv4 ∧ (query T a).ipv6.Sublist T.ipv6 ∧
    (query T a).ipv6u.Sublist T.ipv6u ∧ (query T a).mcast.Sublist T.mcast := by
  unfold query scan
  split
  · refine ⟨List.filter_sublist, by simp, by simp, ?_⟩
    split
    · exact List.filter_sublist
    · simp
  · split
    · exact ⟨by simp, List.filter_sublist, List.filter_sublist, by simp⟩
    · simp

/-- **index then lookup (OUI)**: build the index of a well-formed registry text with the OUI
    parser, load it (`int` keys), look an identifier up with seek+read on the same text: every
    registration returned is the parse of exactly one record of the text, and that record's
    identifier is the one asked for. -/
theorem lookup_through_index_oui (hd : List Line) (recs : List (List Line)) (w : WellFormed hd recs)
    (rows : List (Row Int)) (h : ouiIndex (hd ++ recs.flatten).flatten = .ok rows)
    (decode : List Nat → List Char) (v : Nat) (out : List (Nat × Nat × Parsed))
    (hl : ouiRecords (fun o s => decode (slice (hd ++ recs.flatten).flatten o s))
            (rows.map (fun r => (r.1.toNat, r.2.1, r.2.2))) v = .ok out) :
    ∀ x ∈ out, ∃ r ∈ recs, (∃ k : Int, recKey ouiStart ouiCont r = .ok k ∧ k.toNat = v) ∧
      parseRecord (decode r.flatten) = .ok x.2.2 := by
  intro x hx
  have hall := (lookup_spec _ _ v).1 out hl
  obtain ⟨row, hrow, h1, h2, h3⟩ := hall.right x hx
  simp only [lookupRows, List.mem_map, List.mem_filter, beq_iff_eq] at hrow
  obtain ⟨t, ⟨⟨⟨k, o, s⟩, hmem, rfl⟩, hk⟩, rfl⟩ := hrow
  simp only at hk h3
  have hrows := (index_rows_oui hd recs w rows h).1
  obtain ⟨r, hr, hkey, hsl⟩ := hrows.left (k, o, s) hmem
  simp only at hkey hsl
  refine ⟨r, hr, ⟨k, hkey, hk⟩, ?_⟩
  rw [← hsl]; exact h3

/-- the integer-keyed rows of what the IAB parser wrote.  NOT `load_index`: the real `load_index` raises
    ValueError on a bytes key instead of skipping the row — see `Registry.iabLoad` and
    `lookup_through_index_iab_loaded` / `lookup_exact_iab` in Props/C19Exact.lean, which supersede this. -/
def iabLoaded (rows : List (Row IabKey)) : List (Nat × Nat × Nat) :=
  rows.filterMap (fun r => match r.1 with
    | .num n => some (n.toNat, r.2.1, r.2.2)
    | .raw _ => none)

/-- **index then lookup (IAB)** -/
theorem lookup_through_index_iab (hd : List Line) (recs : List (List Line)) (w : WellFormed hd recs)
    (rows : List (Row IabKey)) (h : iabIndex (hd ++ recs.flatten).flatten = .ok rows)
    (decode : List Nat → List Char) (v : Nat) (x : Nat × Nat × Parsed)
    (hl : iabRecord (fun o s => decode (slice (hd ++ recs.flatten).flatten o s)) (iabLoaded rows) v = .ok x) :
    ∃ r ∈ recs, (∃ k : Int, recKey iabStart iabCont r = .ok (.num k) ∧ k.toNat = v) ∧
      parseRecord (decode r.flatten) = .ok x.2.2 := by
  obtain ⟨rest, hrow, h3⟩ := (lookup_spec _ _ v).2 x hl
  have hmem : (x.1, x.2.1) ∈ lookupRows (iabLoaded rows) v := by rw [hrow]; simp
  simp only [lookupRows, iabLoaded, List.mem_map, List.mem_filter, List.mem_filterMap, beq_iff_eq] at hmem
  obtain ⟨t, ⟨⟨⟨k, o, s⟩, hm, hk0⟩, hk⟩, ht⟩ := hmem
  cases k with
  | raw b => simp at hk0
  | num n =>
    simp only [Option.some.injEq] at hk0
    subst hk0
    simp only [Prod.mk.injEq] at ht hk
    obtain ⟨rfl, rfl⟩ := ht
    have hrows := (index_rows_iab hd recs w rows h).1
    obtain ⟨r, hr, hkey, hsl⟩ := hrows.left (.num n, x.1, x.2.1) hm
    simp only at hkey hsl
    refine ⟨r, hr, ⟨n, hkey, hk⟩, ?_⟩
    rw [← hsl]; exact h3

/-! ## non-vacuity: concrete instances -/

deriving instance DecidableEq for Except

def bytes (s : String) : Line := s.toList.map Char.toNat

/-- decidable form of `ProperLine` -/
def properLineB (l : Line) : Bool := l.getLast? == some 10 && !(l.dropLast.contains 10)

theorem properLine_of_B (l : Line) (h : properLineB l = true) : ProperLine l := by
  simp only [properLineB, Bool.and_eq_true, beq_iff_eq, Bool.not_eq_true', List.contains_eq_mem,
    decide_eq_false_iff_not] at h
  refine ⟨l.dropLast, ?_, h.2⟩
  have hne : l ≠ [] := by intro hl; subst hl; simp at h
  have := List.dropLast_concat_getLast hne
  rw [List.getLast?_eq_some_getLast hne] at h
  injection h.1 with h1
  rw [← h1]; exact this.symm

def exHd : List Line := [bytes "OUI  Organization\r\n", bytes "\r\n"]
def exRecs : List (List Line) :=
  [[bytes "00-CA-FE   (hex)\t\tACME CORPORATION\r\n", bytes "00CAFE     (base 16)\t\tACME\r\n", bytes "\t\t1 MAIN STREET\r\n", bytes "\r\n"],
   [bytes "00-50-C2   (hex)\t\tOTHER\n", bytes "ABC000-ABCFFF     (base 16)\t\tOTHER\n", bytes "\t\tSPRINGFIELD"]]

/-- the hypotheses of `index_delimits_*` are satisfiable: CRLF header, two records, mixed line
    ends, no final newline -/
example : WellFormed exHd exRecs where
  lines := by
    refine ⟨properLine_of_B _ (by decide), properLine_of_B _ (by decide), properLine_of_B _ (by decide),
      properLine_of_B _ (by decide), properLine_of_B _ (by decide), properLine_of_B _ (by decide),
      properLine_of_B _ (by decide), properLine_of_B _ (by decide), Or.inr ⟨by decide, by decide⟩⟩
  header := by decide
  records := by
    intro r hr
    simp only [exRecs, List.mem_cons, List.not_mem_nil, or_false] at hr
    rcases hr with rfl | rfl
    · exact ⟨_, _, rfl, by decide, by decide⟩
    · exact ⟨_, _, rfl, by decide, by decide⟩
  nonempty := by decide

/-- the print formats of `oui_key_canonical` / `iab_key_canonical` are the registry's -/
example : fmtOui 0xCAFE = bytes "00-CA-FE" ∧ fmtHex6 0xABC000 = bytes "ABC000" := by decide
example : IdTok (bytes "ABCFFF") ∧
    hasBase16 (fmtHex6 0xABC000 ++ 45 :: bytes "ABCFFF" ++ 32 :: bytes "    (base 16)\t\tACME\r\n") = true := by
  constructor
  · show ∀ b ∈ bytes "ABCFFF", b = 45 ∨ b ∈ hexDigitsB
    decide
  · decide
example : recKey iabStart iabCont [bytes "00-50-C2   (hex)\t\tACME\r\n", bytes "ABC000-ABCFFF     (base 16)\t\tACME\r\n",
    bytes "\t\t1 MAIN STREET\r\n"] = .ok (.num 0x0050C2ABC) := by decide +kernel

example : ouiIndex (exHd ++ exRecs.flatten).flatten = .ok [(0xCAFE, 21, 83), (0x50C2, 104, 72)] := by decide +kernel
example : iabIndex (exRecs.drop 1).flatten.flatten = .ok [(.num 0x0050C2ABC, 0, 72)] := by decide +kernel
example : ouiIndex exHd.flatten = .error .other := by decide +kernel
/-- the canonical reading of the example file is the header and the two records it was built from -/
example : decompose (pyLines (exHd ++ exRecs.flatten).flatten) = (exHd, exRecs) := by decide +kernel

example : query ⟨[⟨0, .net ⟨4, 0x0A000000, 8⟩⟩], [], [], [⟨0, .rng ⟨4, 0xE0000100, 0xE00001FF⟩⟩, ⟨1, .addr ⟨4, 0xE0000101⟩⟩]⟩
    ⟨4, 0xE0000101⟩ = ⟨[], [], [], [⟨0, .rng ⟨4, 0xE0000100, 0xE00001FF⟩⟩, ⟨1, .addr ⟨4, 0xE0000101⟩⟩]⟩ := by decide +kernel

/-- the hypotheses of `query_piecewise_const` on a concrete table: no breakpoint in (224.0.1.2, 224.0.1.255] -/
example :
    let T : Tables := ⟨[⟨0, .net ⟨4, 0xE0000000, 8⟩⟩], [], [], [⟨0, .rng ⟨4, 0xE0000100, 0xE00001FF⟩⟩, ⟨1, .addr ⟨4, 0xE0000101⟩⟩]⟩
    query T ⟨4, 0xE0000102⟩ = query T ⟨4, 0xE00001FF⟩ :=
  query_piecewise_const _ _ _ rfl (by decide) (by decide)

example : parseRecord "00-50-C2   (hex)\t\tACME CORP\r\nABC000-ABCFFF     (base 16)\t\tACME CORP\r\n\t\t1 MAIN STREET\r\n\r\n\t\tUS\r\n".toList
    = .ok ⟨some "ACME CORP".toList, ["1 MAIN STREET".toList, "US".toList]⟩ := by decide +kernel
example : parseRecord "00-50-C2   (hex)\r\n".toList = .error .index := by decide +kernel

end NV.C19
