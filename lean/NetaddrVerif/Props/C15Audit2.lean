/-
Props/C15Audit2.lean — C15, audit round 2.

Finding 7: `C15.bits_roundtrip_builtin` decodes with `bitsToInt s (d.wordSize * d.numWords) d.sep`, but
eui48 / eui64 `bits_to_int(bits, dialect)` pass the MODULE constant `width` (strategy/eui48.py:272-276,
eui64.py:249-253), which is what the driver executes (`E48.width` / `E64.width`).  `builtin_dialect_width`
shows that for every built-in dialect the two are the same number, and `bits_roundtrip_builtin_module` restates
the round trip with the module width, i.e. about the function the code calls.

Finding 8: the object-level accessors.  `eui_accessors_dialect_free` lists C08's theorem here (EUI.words /
packed / bits() / bits(sep) ignore the object's dialect and are the C15 codecs with octet words), and
`ipaddr_accessors_strategy` states that `IPAddress.__bytes__ / bits / packed / words / bin / reverse_dns`
(`Codec.IPObj.*`, what the driver op `c15_obj` executes) are the strategy functions of the object's family.
-/
import NetaddrVerif.Props.C15Deep
import NetaddrVerif.Props.C08
import NetaddrVerif.Model.CodecObj
namespace NV.C15A2
open NV NV.Codec NV.C15

/-! ## finding 7: the module width -/

/-- **every built-in dialect spans its module's width**: `word_size * num_words` is 48 for every MAC dialect
    and 64 for every EUI-64 dialect (a complete finite table, regenerated into Gen/Dialects.lean on every run) -/
theorem builtin_dialect_width :
    (∀ d ∈ Gen.macDialects, d.wordSize * d.numWords = E48.width) ∧
    (∀ d ∈ Gen.eui64Dialects, d.wordSize * d.numWords = E64.width) := by
  constructor <;> decide

/-- decoder ∘ encoder = id on bit strings **with the width the code passes**: `eui48.bits_to_int(s, dialect)`
    is `_bits_to_int(s, width, dialect.word_sep)` with the module's `width = 48` (resp. 64), whatever the
    dialect; the encoder takes `word_size`, `num_words`, `word_sep` from the dialect -/
theorem bits_roundtrip_builtin_module (v : Nat) :
    (∀ d ∈ Gen.macDialects, v < 2 ^ 48 →
      ∃ s, intToBits v d.wordSize d.numWords d.sep = .ok s ∧ bitsToInt s E48.width d.sep = .ok (Int.ofNat v)) ∧
    (∀ d ∈ Gen.eui64Dialects, v < 2 ^ 64 →
      ∃ s, intToBits v d.wordSize d.numWords d.sep = .ok s ∧ bitsToInt s E64.width d.sep = .ok (Int.ofNat v)) := by
  have hb := (bits_roundtrip_builtin v).1
  have hw := builtin_dialect_width
  constructor
  · intro d hd hv
    have e := hw.1 d hd
    have e' : d.numWords * d.wordSize = 48 := by rw [Nat.mul_comm]; exact e
    obtain ⟨s, h1, h2⟩ := hb d (List.mem_append_left _ hd) (by rw [e']; exact hv) (by rw [e]; decide)
    exact ⟨s, h1, by rw [← e]; exact h2⟩
  · intro d hd hv
    have e := hw.2 d hd
    have e' : d.numWords * d.wordSize = 64 := by rw [Nat.mul_comm]; exact e
    obtain ⟨s, h1, h2⟩ := hb d (List.mem_append_right _ hd) (by rw [e']; exact hv) (by rw [e]; decide)
    exact ⟨s, h1, by rw [← e]; exact h2⟩

example : (⟨"mac_cisco", 16, 3, ['.'], 4, false⟩ : Gen.Dialect) ∈ Gen.macDialects := by decide
example : intToBits 5 16 3 ['.'] = .ok "0000000000000000.0000000000000000.0000000000000101".toList ∧
    bitsToInt "0000000000000000.0000000000000000.0000000000000101".toList E48.width ['.'] = .ok 5 := by
  constructor <;> decide +kernel

/-! ## finding 8: the object-level accessors -/

/-- **EUI.words / packed / bits() / bits(sep)** (C08's `accessors_dialect_free`, listed under C15): they do not
    involve the object's dialect; they are the C15 codecs with octet words — `EUI.bits(word_sep)` has its own
    branch `_int_to_bits(value, 8, width//8, word_sep)` (netaddr/eui/__init__.py:641-650), `bits()` and `words`
    use the module default dialect -/
theorem eui_accessors_dialect_free (v : Nat) :
    (Eui.words 48 v = intToWords v 8 6 ∧ Eui.words 64 v = intToWords v 8 8) ∧
    (v < 2 ^ 48 → Eui.packed 48 v = .ok (beBytes 6 v)) ∧ (v < 2 ^ 64 → Eui.packed 64 v = .ok (beBytes 8 v)) ∧
    (∀ sep, Eui.bits 48 v (some sep) = intToBits v 8 6 sep ∧ Eui.bits 64 v (some sep) = intToBits v 8 8 sep) ∧
    (Eui.bits 48 v none = intToBits v 8 6 ['-'] ∧ Eui.bits 64 v none = intToBits v 8 8 ['-']) :=
  C08.accessors_dialect_free v

/-- **IPAddress.__bytes__ / bits / packed / words / bin / reverse_dns are the strategy functions** of the
    object's family applied to its value (netaddr/ip/__init__.py:519-560: one `return self._module.f(self._value…)`
    each), so every C15 theorem about `V4.* / V6.* / intToBits / intToBin / toBytes` is a theorem about the
    accessor -/
theorem ipaddr_accessors_strategy (v : Nat) (sep : Option (List Char)) :
    (IPObj.bits ⟨4, v⟩ sep = V4.intToBits v sep ∧ IPObj.bits ⟨6, v⟩ sep = V6.intToBits v sep) ∧
    (IPObj.packed ⟨4, v⟩ = V4.intToPacked v ∧ IPObj.packed ⟨6, v⟩ = V6.intToPacked v) ∧
    (IPObj.words ⟨4, v⟩ = V4.intToWords v ∧ IPObj.words ⟨6, v⟩ = V6.intToWords v) ∧
    (IPObj.bin ⟨4, v⟩ = intToBin v 32 ∧ IPObj.bin ⟨6, v⟩ = intToBin v 128) ∧
    (IPObj.reverseDns ⟨4, v⟩ = V4.intToArpa v ∧ IPObj.reverseDns ⟨6, v⟩ = V6.intToArpa v) ∧
    (IPObj.bytes ⟨4, v⟩ = toBytes 4 v ∧ IPObj.bytes ⟨6, v⟩ = toBytes 16 v) :=
  ⟨⟨rfl, rfl⟩, ⟨rfl, rfl⟩, ⟨rfl, rfl⟩, ⟨rfl, rfl⟩, ⟨rfl, rfl⟩,
    ⟨by simp [IPObj.bytes, IPObj.modWidth, V4.width], by simp [IPObj.bytes, IPObj.modWidth, V6.width]⟩⟩

/-- … and with the family defaults spelled out: `bits()` is 4 octets joined by '.' / 8 hextets joined by ':',
    `bits(sep)` the same words joined by `sep`; `words` are the octets / hextets -/
theorem ipaddr_bits_words (v : Nat) (sep : List Char) :
    (IPObj.bits ⟨4, v⟩ none = intToBits v 8 4 ['.'] ∧ IPObj.bits ⟨6, v⟩ none = intToBits v 16 8 [':']) ∧
    (IPObj.bits ⟨4, v⟩ (some sep) = intToBits v 8 4 sep ∧ IPObj.bits ⟨6, v⟩ (some sep) = intToBits v 16 8 sep) ∧
    IPObj.words ⟨6, v⟩ = intToWords v 16 8 :=
  ⟨⟨rfl, rfl⟩, ⟨rfl, rfl⟩, rfl⟩

/-- the object-level round trip for an IPv4 / IPv6 address: `bits()` decodes back to the value with the
    family's `bits_to_int` -/
theorem ipaddr_bits_roundtrip (v : Nat) :
    (v < 2 ^ 32 → ∃ s, IPObj.bits ⟨4, v⟩ none = .ok s ∧ V4.bitsToInt s = .ok (Int.ofNat v)) ∧
    (v < 2 ^ 128 → ∃ s, IPObj.bits ⟨6, v⟩ none = .ok s ∧ V6.bitsToInt s = .ok (Int.ofNat v)) :=
  ⟨(bits_roundtrip_builtin v).2.1, (bits_roundtrip_builtin v).2.2⟩

example : IPObj.words ⟨4, 0x0A000001⟩ = .ok [10, 0, 0, 1] ∧ IPObj.bin ⟨4, 5⟩ = .ok "0b101".toList := by
  constructor <;> decide +kernel

end NV.C15A2
