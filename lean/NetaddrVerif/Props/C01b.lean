/-
Props/C01b.lean — C01, constructor-level characterisations for ALL strings (closing the audit
gaps of Props/C01.lean):

* default mode: `IPAddress(s, 4)` / `IPAddress(s)` accept exactly the BSD `inet_aton` texts
  (`AtonG.AtonText`, a declarative grammar proved equal to the modelled `inet_aton`), resp. those
  or else the RFC 4291 texts; every 1-4 part shorthand gets its conventional value
  (`default4_eq`, `default_none_eq`, `default4_api`, `default_none_api`, `shorthand_api`,
  `shorthand_reject`);
* strict mode (INET_PTON): `IPAddress(s, 4, INET_PTON)` accepts exactly the dotted quads
  `C01G.IsQuad` (four decimal octets 0..255 of 1-3 digits, NO leading zero), i.e. exactly the
  strings `int_to_str` prints (`strict4_api`);
* ZEROFILL: the exact relation `IPAddress(s, v, ZEROFILL|f) = IPAddress(rewrite s, v, f)` with
  `rewrite` = per-part `'%d' % int(part)`, for all strings, and what happens when a part does
  not convert (`zerofill_rewrite`); 1-4 part forms with any `int()`-acceptable spelling of the
  parts are read in decimal (`zerofill_shorthand`); a negative part is refused
  (`zerofill_negative`);
* `valid_ipv4` / `valid_ipv6` on all non-empty strings, including those with '/'
  (`valid_iff_all`) — with the one place where `valid_ipv4` and the constructor differ;
* `repr` and its `eval`-free round trip (`repr_roundtrip`).
-/
import NetaddrVerif.Props.C01
import NetaddrVerif.Lemmas.C01LAtonG
import NetaddrVerif.Lemmas.C01LZf
namespace NV.C01b
open NV NV.Text4 NV.AddrParse NV.C01L NV.C01L.AtonG NV.C01L.Zf

/-- default mode: neither ZEROFILL nor INET_PTON is set -/
def DefaultMode (fl : Nat) : Prop := hasFlag fl ZEROFILL = false ∧ hasFlag fl INET_PTON = false
/-- strict mode: INET_PTON without ZEROFILL -/
def StrictMode (fl : Nat) : Prop := hasFlag fl ZEROFILL = false ∧ hasFlag fl INET_PTON = true

example : DefaultMode 0 ∧ DefaultMode NOHOST ∧ StrictMode INET_PTON ∧ StrictMode (INET_PTON ||| NOHOST) := by
  unfold DefaultMode StrictMode; decide

/-- results of the constructor can be compared by `decide` in the examples below -/
local instance decEqR : DecidableEq (R Addr) := fun a b =>
  match a, b with
  | .ok x, .ok y => if h : x = y then isTrue (by rw [h]) else isFalse (by intro e; injection e with e; exact h e)
  | .error x, .error y => if h : x = y then isTrue (by rw [h]) else isFalse (by intro e; injection e with e; exact h e)
  | .ok _, .error _ => isFalse (by intro e; cases e)
  | .error _, .ok _ => isFalse (by intro e; cases e)

theorem mem_iff_contains (s : List Char) (c : Char) : s.contains c = true ↔ c ∈ s := List.contains_iff_mem

theorem not_mem_iff_contains (s : List Char) (c : Char) : s.contains c = false ↔ c ∉ s := by
  rw [← mem_iff_contains]; simp

/-! ### `strategy.ipv4.str_to_int` by mode -/

theorem strToInt4_default (be : Backend) (s : List Char) (fl : Nat) (h : DefaultMode fl) :
    strToInt4 be s fl = match Text4.aton s with | some v => .ok v | none => .error .addrFormat := by
  unfold strToInt4
  simp only [h.1, h.2, Bool.false_eq_true, if_false]
  rfl

theorem strToInt4_strict (be : Backend) (s : List Char) (fl : Nat) (h : StrictMode fl) :
    strToInt4 be s fl = match inetPton4 be s with | some v => .ok v | none => .error .addrFormat := by
  unfold strToInt4
  simp only [h.1, h.2, Bool.false_eq_true, if_false, if_true]
  rfl

/-- RFC 4291 texts are never `inet_aton` texts -/
theorem rfc_not_aton (s : List Char) (v : Nat) (h : C01G.Rfc4291 s v) : Text4.aton s = none := by
  obtain ⟨pre, r, e, hpre⟩ := C01G.rfc4291_shape s v h
  rw [e]; exact aton_colon pre r hpre

theorem v4_ne : ¬ ((4 : Nat) ≠ 4 ∧ (4 : Nat) ≠ 6) := by decide
theorem v6_ne : ¬ ((6 : Nat) ≠ 4 ∧ (6 : Nat) ≠ 6) := by decide

/-! ### default mode, all strings -/

/-- **Default mode, explicit version 4, as an equation for every string**: '/' → ValueError;
    otherwise exactly `inet_aton`'s verdict. -/
theorem default4_eq (be : Backend) (s : List Char) (fl : Nat) (h : DefaultMode fl) :
    ipAddress be s (some 4) fl =
      if s.contains '/' then .error .value else
      match Text4.aton s with | some v => .ok ⟨4, v⟩ | none => .error .addrFormat := by
  unfold ipAddress
  simp only [v4_ne, if_false, strToInt, if_true, strToInt4_default be s fl h]
  split
  · rfl
  · cases Text4.aton s <;> rfl

/-- **Default mode, version None, as an equation for every string**: '/' → ValueError; otherwise
    `inet_aton`'s reading if there is one, else the IPv6 reading, else AddrFormatError. -/
theorem default_none_eq (be : Backend) (s : List Char) (fl : Nat) (h : DefaultMode fl) :
    ipAddress be s none fl =
      if s.contains '/' then .error .value else
      match Text4.aton s with
      | some v => .ok ⟨4, v⟩
      | none => match inetPton6 be s with | some v => .ok ⟨6, v⟩ | none => .error .addrFormat := by
  unfold ipAddress
  simp only [strToInt4_default be s fl h, strToInt6]
  split
  · rfl
  · cases Text4.aton s with
    | some v => rfl
    | none => cases inetPton6 be s <;> rfl

/-- **Default mode, `IPAddress(s, 4)`: accepted strings characterised.**  The constructor yields
    an address exactly for the BSD `inet_aton` texts without '/' (`AtonText`: 1-4 dot-separated
    C literals in decimal / octal / hex within their ranges, optionally followed by whitespace
    and anything), with `inet_aton`'s value; ValueError exactly when '/' occurs; AddrFormatError
    exactly for the remaining strings. -/
theorem default4_api (be : Backend) (s : List Char) (fl : Nat) (h : DefaultMode fl) :
    (∀ a, ipAddress be s (some 4) fl = .ok a ↔ a.ver = 4 ∧ '/' ∉ s ∧ Text4.aton s = some a.val) ∧
    (∀ a, ipAddress be s (some 4) fl = .ok a ↔ a.ver = 4 ∧ '/' ∉ s ∧ AtonText s a.val) ∧
    (∀ e, ipAddress be s (some 4) fl = .error e ↔
      (e = .value ∧ '/' ∈ s) ∨ (e = .addrFormat ∧ '/' ∉ s ∧ ¬ ∃ v, AtonText s v)) := by
  have key : ∀ a, ipAddress be s (some 4) fl = .ok a ↔ a.ver = 4 ∧ '/' ∉ s ∧ Text4.aton s = some a.val := by
    intro a
    obtain ⟨ver, val⟩ := a
    rw [default4_eq be s fl h]
    by_cases hs : s.contains '/' = true
    · have hm := (mem_iff_contains s '/').mp hs
      simp [hm]
    · have hs' : s.contains '/' = false := by simpa using hs
      have hm := (not_mem_iff_contains s '/').mp hs'
      simp only [hs', Bool.false_eq_true, if_false]
      cases ha : Text4.aton s with
      | none => simp [hm]
      | some v =>
        simp only [Except.ok.injEq, Addr.mk.injEq, Option.some.injEq]
        constructor
        · rintro ⟨rfl, rfl⟩; exact ⟨rfl, hm, rfl⟩
        · rintro ⟨rfl, _, rfl⟩; exact ⟨rfl, rfl⟩
  refine ⟨key, ?_, ?_⟩
  · intro a; rw [key a, aton_iff]
  · intro e
    rw [default4_eq be s fl h]
    by_cases hs : s.contains '/' = true
    · have hm := (mem_iff_contains s '/').mp hs
      simp only [hs, if_true, Except.error.injEq]
      constructor
      · intro e'; exact Or.inl ⟨e'.symm, hm⟩
      · rintro (⟨e', _⟩ | ⟨_, hn, _⟩)
        · exact e'.symm
        · exact absurd hm hn
    · have hs' : s.contains '/' = false := by simpa using hs
      have hm := (not_mem_iff_contains s '/').mp hs'
      simp only [hs', Bool.false_eq_true, if_false]
      cases ha : Text4.aton s with
      | none =>
        simp only [Except.error.injEq]
        constructor
        · intro e'
          refine Or.inr ⟨e'.symm, hm, ?_⟩
          rintro ⟨v, hv⟩
          rw [(aton_iff s v).mpr hv] at ha; cases ha
        · rintro (⟨_, hn⟩ | ⟨e', _, _⟩)
          · exact absurd hn hm
          · exact e'.symm
      | some v =>
        constructor
        · intro e'; cases e'
        · rintro (⟨_, hn⟩ | ⟨_, _, hno⟩)
          · exact absurd hn hm
          · exact absurd ⟨v, (aton_iff s v).mp ha⟩ hno

example : ipAddress .platform "0x7f.1 junk".toList (some 4) 0 = .ok ⟨4, 0x7f000001⟩ := by decide

/-- **Default mode, `IPAddress(s)`: accepted strings characterised.**  The result is the IPv4
    address `v` exactly for the `inet_aton` texts of `v`, the IPv6 address `v` exactly for the
    RFC 4291 texts of `v` (the two families of texts are disjoint), ValueError exactly when '/'
    occurs, AddrFormatError exactly for the remaining strings. -/
theorem default_none_api (be : Backend) (s : List Char) (fl : Nat) (h : DefaultMode fl) :
    (∀ a, ipAddress be s none fl = .ok a ↔
      '/' ∉ s ∧ ((a.ver = 4 ∧ AtonText s a.val) ∨ (a.ver = 6 ∧ C01G.Rfc4291 s a.val))) ∧
    (∀ e, ipAddress be s none fl = .error e ↔
      (e = .value ∧ '/' ∈ s) ∨
      (e = .addrFormat ∧ '/' ∉ s ∧ (¬ ∃ v, AtonText s v) ∧ ¬ ∃ v, C01G.Rfc4291 s v)) := by
  constructor
  · intro a
    obtain ⟨ver, val⟩ := a
    rw [default_none_eq be s fl h]
    by_cases hs : s.contains '/' = true
    · have hm := (mem_iff_contains s '/').mp hs
      simp [hm]
    · have hs' : s.contains '/' = false := by simpa using hs
      have hm := (not_mem_iff_contains s '/').mp hs'
      simp only [hs', Bool.false_eq_true, if_false]
      cases ha : Text4.aton s with
      | some v =>
        simp only [Except.ok.injEq, Addr.mk.injEq]
        constructor
        · rintro ⟨rfl, rfl⟩; exact ⟨hm, Or.inl ⟨rfl, (aton_iff s _).mp ha⟩⟩
        · rintro ⟨_, ⟨rfl, hv⟩ | ⟨_, hv⟩⟩
          · have := (aton_iff s _).mpr hv
            rw [ha] at this; injection this with this
            exact ⟨rfl, this⟩
          · rw [rfc_not_aton s _ hv] at ha; cases ha
      | none =>
        cases h6 : inetPton6 be s with
        | some v =>
          simp only [Except.ok.injEq, Addr.mk.injEq]
          constructor
          · rintro ⟨rfl, rfl⟩; exact ⟨hm, Or.inr ⟨rfl, (C01.strict6_iff be s _).mp h6⟩⟩
          · rintro ⟨_, ⟨_, hv⟩ | ⟨rfl, hv⟩⟩
            · rw [(aton_iff s _).mpr hv] at ha; cases ha
            · have := (C01.strict6_iff be s _).mpr hv
              rw [h6] at this; injection this with this
              exact ⟨rfl, this⟩
        | none =>
          constructor
          · intro e'; cases e'
          · rintro ⟨_, ⟨_, hv⟩ | ⟨_, hv⟩⟩
            · rw [(aton_iff s _).mpr hv] at ha; cases ha
            · rw [(C01.strict6_iff be s _).mpr hv] at h6; cases h6
  · intro e
    rw [default_none_eq be s fl h]
    by_cases hs : s.contains '/' = true
    · have hm := (mem_iff_contains s '/').mp hs
      simp only [hs, if_true, Except.error.injEq]
      constructor
      · intro e'; exact Or.inl ⟨e'.symm, hm⟩
      · rintro (⟨e', _⟩ | ⟨_, hn, _⟩)
        · exact e'.symm
        · exact absurd hm hn
    · have hs' : s.contains '/' = false := by simpa using hs
      have hm := (not_mem_iff_contains s '/').mp hs'
      simp only [hs', Bool.false_eq_true, if_false]
      cases ha : Text4.aton s with
      | some v =>
        constructor
        · intro e'; cases e'
        · rintro (⟨_, hn⟩ | ⟨_, _, hno, _⟩)
          · exact absurd hn hm
          · exact absurd ⟨v, (aton_iff s v).mp ha⟩ hno
      | none =>
        cases h6 : inetPton6 be s with
        | some v =>
          constructor
          · intro e'; cases e'
          · rintro (⟨_, hn⟩ | ⟨_, _, _, hno⟩)
            · exact absurd hn hm
            · exact absurd ⟨v, (C01.strict6_iff be s v).mp h6⟩ hno
        | none =>
          simp only [Except.error.injEq]
          constructor
          · intro e'
            refine Or.inr ⟨e'.symm, hm, ?_, ?_⟩
            · rintro ⟨v, hv⟩; rw [(aton_iff s v).mpr hv] at ha; cases ha
            · rintro ⟨v, hv⟩; rw [(C01.strict6_iff be s v).mpr hv] at h6; cases h6
          · rintro (⟨_, hn⟩ | ⟨e', _⟩)
            · exact absurd hn hm
            · exact e'.symm

example : ipAddress .fallback "::1".toList none 0 = .ok ⟨6, 1⟩ ∧ ipAddress .fallback "1".toList none 0 = .ok ⟨4, 1⟩ := by
  decide

/-! ### every BSD shorthand, at the constructor -/

theorem lit_chars (l : List Char) (v : Nat) (h : IsCLit l v) : ∀ c ∈ l, isHexC c = true ∨ c = 'x' ∨ c = 'X' := by
  intro c hc
  cases h with
  | dec c0 r hc0 _ hr =>
    rcases List.mem_cons.mp hc with e | e
    · subst e; exact Or.inl (hex_of_dec _ hc0)
    · exact Or.inl (hex_of_dec _ (hr c e))
  | oct r hr =>
    rcases List.mem_cons.mp hc with e | e
    · subst e; exact Or.inl (by decide)
    · exact Or.inl (hex_of_oct _ (hr c e))
  | hex x r hx _ hr =>
    rcases List.mem_cons.mp hc with e | e
    · subst e; exact Or.inl (by decide)
    · rcases List.mem_cons.mp e with e2 | e2
      · subst e2; exact Or.inr hx
      · exact Or.inl (hr c e2)

theorem body_chars (b : List Char) (v : Nat) (h : Body b v) :
    ∀ c ∈ b, isHexC c = true ∨ c = 'x' ∨ c = 'X' ∨ c = '.' := by
  have lift : ∀ l w, IsCLit l w → ∀ c ∈ l, isHexC c = true ∨ c = 'x' ∨ c = 'X' ∨ c = '.' := by
    intro l w hl c hc
    rcases lit_chars l w hl c hc with e | e | e
    · exact Or.inl e
    · exact Or.inr (Or.inl e)
    · exact Or.inr (Or.inr (Or.inl e))
  intro c hc
  cases h with
  | one _ _ h0 _ => exact lift _ _ h0 c hc
  | two l0 l1 a b h0 h1 _ _ =>
    simp only [List.mem_append, List.mem_cons] at hc
    rcases hc with hc | hc | hc
    · exact lift _ _ h0 c hc
    · exact Or.inr (Or.inr (Or.inr hc))
    · exact lift _ _ h1 c hc
  | three l0 l1 l2 a b c' h0 h1 h2 _ _ _ =>
    simp only [List.mem_append, List.mem_cons] at hc
    rcases hc with hc | hc | hc | hc | hc
    · exact lift _ _ h0 c hc
    · exact Or.inr (Or.inr (Or.inr hc))
    · exact lift _ _ h1 c hc
    · exact Or.inr (Or.inr (Or.inr hc))
    · exact lift _ _ h2 c hc
  | four l0 l1 l2 l3 a b c' d h0 h1 h2 h3 _ _ _ _ =>
    simp only [List.mem_append, List.mem_cons] at hc
    rcases hc with hc | hc | hc | hc | hc | hc | hc
    · exact lift _ _ h0 c hc
    · exact Or.inr (Or.inr (Or.inr hc))
    · exact lift _ _ h1 c hc
    · exact Or.inr (Or.inr (Or.inr hc))
    · exact lift _ _ h2 c hc
    · exact Or.inr (Or.inr (Or.inr hc))
    · exact lift _ _ h3 c hc

theorem body_not_mem (b : List Char) (v : Nat) (h : Body b v) (c : Char) (h1 : isHexC c = false) (h2 : c ≠ 'x')
    (h3 : c ≠ 'X') (h4 : c ≠ '.') : c ∉ b := by
  intro hc
  rcases body_chars b v h c hc with e | e | e | e
  · rw [h1] at e; cases e
  · exact h2 e
  · exact h3 e
  · exact h4 e

/-- a shorthand body by itself is an `inet_aton` text -/
theorem atonText_of_body (b : List Char) (v : Nat) (h : Body b v) : AtonText b v :=
  ⟨body_not_mem b v h _ (by decide) (by decide) (by decide) (by decide), b, [], by simp, h, Or.inl rfl⟩

/-- **BSD shorthand at the constructor (default mode).**  For every 1-4 part `inet_aton`
    spelling — each part a C literal in decimal, octal (leading 0) or hex (0x / 0X), non-last
    parts at most 255, the last part within the remaining 32 / 24 / 16 / 8 bits (`AtonG.Body`) —
    `IPAddress(s)` and `IPAddress(s, 4)` return the IPv4 address with the value `inet_aton`
    defines, on both back ends. -/
theorem shorthand_api (be : Backend) (body : List Char) (v : Nat) (hb : Body body v) (ver : Option Nat)
    (hver : ver = none ∨ ver = some 4) (fl : Nat) (h : DefaultMode fl) :
    ipAddress be body ver fl = .ok ⟨4, v⟩ := by
  have ht := atonText_of_body body v hb
  have hs : '/' ∉ body := body_not_mem body v hb _ (by decide) (by decide) (by decide) (by decide)
  rcases hver with e | e <;> subst e
  · exact ((default_none_api be body fl h).1 ⟨4, v⟩).mpr ⟨hs, Or.inl ⟨rfl, ht⟩⟩
  · exact ((default4_api be body fl h).2.1 ⟨4, v⟩).mpr ⟨rfl, hs, ht⟩

/-- the hypotheses are satisfiable: `0x7f.1`, `0300.0250.513`, `1.2.3.4`, `4294967295` -/
example : Body "0x7f.1".toList 0x7f000001 :=
  Body.two "0x7f".toList "1".toList 127 1 (IsCLit.hex 'x' "7f".toList (Or.inl rfl) (by decide) (by decide))
    (IsCLit.dec '1' [] (by decide) (by decide) (by decide)) (by decide) (by decide)

example : ipAddress .platform "0300.0250.513".toList none 0 = .ok ⟨4, 0xC0A80201⟩ := by decide

/-- a text without '/' and ':' that `inet_aton` refuses is refused by the constructor with
    AddrFormatError, with or without version 4 -/
theorem default_reject (be : Backend) (s : List Char) (ver : Option Nat) (hver : ver = none ∨ ver = some 4)
    (fl : Nat) (h : DefaultMode fl) (ha : Text4.aton s = none) (hs : '/' ∉ s) (hc : ':' ∉ s) :
    ipAddress be s ver fl = .error .addrFormat := by
  have hs' := (not_mem_iff_contains s '/').mpr hs
  rcases hver with e | e <;> subst e
  · rw [default_none_eq be s fl h, hs', ha, inetPton6_eq, C01.pton6_no_colon s hc]; rfl
  · rw [default4_eq be s fl h, hs', ha]; rfl

theorem lit_not_mem (l : List Char) (v : Nat) (h : IsCLit l v) (c : Char) (h1 : isHexC c = false) (h2 : c ≠ 'x')
    (h3 : c ≠ 'X') : c ∉ l := by
  intro hc
  rcases lit_chars l v h c hc with e | e | e
  · rw [h1] at e; cases e
  · exact h2 e
  · exact h3 e

/-- **Out-of-range shorthand parts are refused (default mode)** with AddrFormatError — never
    wrapped around, never read as some other address: a last part beyond its 32 / 24 / 16 / 8
    bits, or a non-last part above 255. -/
theorem shorthand_reject (be : Backend) (l0 l1 l2 l3 : List Char) (a b c d : Nat)
    (h0 : IsCLit l0 a) (h1 : IsCLit l1 b) (h2 : IsCLit l2 c) (h3 : IsCLit l3 d)
    (ver : Option Nat) (hver : ver = none ∨ ver = some 4) (fl : Nat) (h : DefaultMode fl) :
    (a > 0xffffffff → ipAddress be l0 ver fl = .error .addrFormat) ∧
    (a ≤ 255 → b > 0xffffff → ipAddress be (l0 ++ '.' :: l1) ver fl = .error .addrFormat) ∧
    (a ≤ 255 → b ≤ 255 → c > 0xffff → ipAddress be (l0 ++ '.' :: (l1 ++ '.' :: l2)) ver fl = .error .addrFormat) ∧
    (a ≤ 255 → b ≤ 255 → c ≤ 255 → d > 255 →
      ipAddress be (l0 ++ '.' :: (l1 ++ '.' :: (l2 ++ '.' :: l3))) ver fl = .error .addrFormat) ∧
    (a > 255 → ipAddress be (l0 ++ '.' :: l1) ver fl = .error .addrFormat ∧
      ipAddress be (l0 ++ '.' :: (l1 ++ '.' :: l2)) ver fl = .error .addrFormat ∧
      ipAddress be (l0 ++ '.' :: (l1 ++ '.' :: (l2 ++ '.' :: l3))) ver fl = .error .addrFormat) := by
  obtain ⟨s1, s2, s3, s4, s5, s6, s7, s8, s9⟩ := C01.aton_shorthand l0 l1 l2 l3 a b c d h0 h1 h2 h3
  have ns : ∀ l w, IsCLit l w → '/' ∉ l := fun l w hl => lit_not_mem l w hl _ (by decide) (by decide) (by decide)
  have nc : ∀ l w, IsCLit l w → ':' ∉ l := fun l w hl => lit_not_mem l w hl _ (by decide) (by decide) (by decide)
  have m2 : ∀ x : Char, x ≠ '.' → x ∉ l0 → x ∉ l1 → x ∉ l0 ++ '.' :: l1 := by
    intro x hx a1 a2 hm
    simp only [List.mem_append, List.mem_cons] at hm
    rcases hm with e | e | e
    · exact a1 e
    · exact hx e
    · exact a2 e
  have m3 : ∀ x : Char, x ≠ '.' → x ∉ l0 → x ∉ l1 → x ∉ l2 → x ∉ l0 ++ '.' :: (l1 ++ '.' :: l2) := by
    intro x hx a1 a2 a3 hm
    simp only [List.mem_append, List.mem_cons] at hm
    rcases hm with e | e | e | e | e
    · exact a1 e
    · exact hx e
    · exact a2 e
    · exact hx e
    · exact a3 e
  have m4 : ∀ x : Char, x ≠ '.' → x ∉ l0 → x ∉ l1 → x ∉ l2 → x ∉ l3 →
      x ∉ l0 ++ '.' :: (l1 ++ '.' :: (l2 ++ '.' :: l3)) := by
    intro x hx a1 a2 a3 a4 hm
    simp only [List.mem_append, List.mem_cons] at hm
    rcases hm with e | e | e | e | e | e | e
    · exact a1 e
    · exact hx e
    · exact a2 e
    · exact hx e
    · exact a3 e
    · exact hx e
    · exact a4 e
  have S2 := m2 '/' (by decide) (ns _ _ h0) (ns _ _ h1)
  have C2 := m2 ':' (by decide) (nc _ _ h0) (nc _ _ h1)
  have S3 := m3 '/' (by decide) (ns _ _ h0) (ns _ _ h1) (ns _ _ h2)
  have C3 := m3 ':' (by decide) (nc _ _ h0) (nc _ _ h1) (nc _ _ h2)
  have S4 := m4 '/' (by decide) (ns _ _ h0) (ns _ _ h1) (ns _ _ h2) (ns _ _ h3)
  have C4 := m4 ':' (by decide) (nc _ _ h0) (nc _ _ h1) (nc _ _ h2) (nc _ _ h3)
  refine ⟨?_, ?_, ?_, ?_, ?_⟩
  · intro ha; exact default_reject be _ ver hver fl h (s2 ha) (ns _ _ h0) (nc _ _ h0)
  · intro ha hb; exact default_reject be _ ver hver fl h (s4 ha hb) S2 C2
  · intro ha hb hc; exact default_reject be _ ver hver fl h (s6 ha hb hc) S3 C3
  · intro ha hb hc hd; exact default_reject be _ ver hver fl h (s8 ha hb hc hd) S4 C4
  · intro ha
    exact ⟨default_reject be _ ver hver fl h (s9 ha _) S2 C2, default_reject be _ ver hver fl h (s9 ha _) S3 C3,
      default_reject be _ ver hver fl h (s9 ha _) S4 C4⟩

example : ipAddress .platform "1.2.65536".toList (some 4) 0 = .error .addrFormat ∧
    ipAddress .platform "256.1".toList none 0 = .error .addrFormat := by decide

/-! ### strict IPv4 at the constructor -/

theorem quad_iff_ntoa (s : List Char) (v : Nat) : C01G.IsQuad s v ↔ v < 2 ^ 32 ∧ s = ntoa v := by
  rw [← C01G.pton4_iff_quad]; exact pton4_iff s v

theorem inetPton4_iff_quad (be : Backend) (s : List Char) (v : Nat) : inetPton4 be s = some v ↔ C01G.IsQuad s v := by
  rw [C01.strict4_iff, quad_iff_ntoa]

theorem quad_no_slash (s : List Char) (v : Nat) (h : C01G.IsQuad s v) : '/' ∉ s := by
  obtain ⟨hv, rfl⟩ := (quad_iff_ntoa s v).mp h
  exact (not_mem_iff_contains _ _).mp (slash_not_in_ntoa v hv)

theorem strict4_eq (be : Backend) (s : List Char) (fl : Nat) (h : StrictMode fl) :
    ipAddress be s (some 4) fl =
      if s.contains '/' then .error .value else
      match inetPton4 be s with | some v => .ok ⟨4, v⟩ | none => .error .addrFormat := by
  unfold ipAddress
  simp only [v4_ne, if_false, strToInt, if_true, strToInt4_strict be s fl h]
  split
  · rfl
  · cases inetPton4 be s <;> rfl

theorem strict_none_eq (be : Backend) (s : List Char) (fl : Nat) (h : StrictMode fl) :
    ipAddress be s none fl =
      if s.contains '/' then .error .value else
      match inetPton4 be s with
      | some v => .ok ⟨4, v⟩
      | none => match inetPton6 be s with | some v => .ok ⟨6, v⟩ | none => .error .addrFormat := by
  unfold ipAddress
  simp only [strToInt4_strict be s fl h, strToInt6]
  split
  · rfl
  · cases inetPton4 be s with
    | some v => rfl
    | none => cases inetPton6 be s <;> rfl

/-- **Strict IPv4 at the constructor.**  With INET_PTON (and without ZEROFILL), on both back
    ends, `IPAddress(s, 4, flags)` and `IPAddress(s, flags=flags)` yield the IPv4 address `v`
    exactly when `s` is the standard dotted quad of `v` — `C01G.IsQuad`: four dot-separated
    decimal octets, each 1-3 digits, value at most 255, and NO leading zero ("01", "00", "000"
    are refused: this is what glibc `inet_pton(AF_INET)` does, and what `fbsocket` does too);
    equivalently exactly when `s` is the text `int_to_str` prints for `v`.  With version 4 every
    other string without '/' raises AddrFormatError; '/' raises ValueError. -/
theorem strict4_api (be : Backend) (s : List Char) (v : Nat) (fl : Nat) (h : StrictMode fl) :
    (ipAddress be s (some 4) fl = .ok ⟨4, v⟩ ↔ C01G.IsQuad s v) ∧
    (ipAddress be s none fl = .ok ⟨4, v⟩ ↔ C01G.IsQuad s v) ∧
    (C01G.IsQuad s v ↔ v < 2 ^ 32 ∧ s = ntoa v) ∧
    (∀ a, ipAddress be s (some 4) fl = .ok a → a.ver = 4) ∧
    (∀ e, ipAddress be s (some 4) fl = .error e ↔
      (e = .value ∧ '/' ∈ s) ∨ (e = .addrFormat ∧ '/' ∉ s ∧ ¬ ∃ w, C01G.IsQuad s w)) := by
  refine ⟨?_, ?_, quad_iff_ntoa s v, ?_, ?_⟩
  · rw [strict4_eq be s fl h]
    constructor
    · intro hok
      split at hok
      · cases hok
      · cases hp : inetPton4 be s with
        | none => rw [hp] at hok; cases hok
        | some w =>
          rw [hp] at hok
          simp only [Except.ok.injEq, Addr.mk.injEq, true_and] at hok
          subst hok
          exact (inetPton4_iff_quad be s w).mp hp
    · intro hq
      have hs := (not_mem_iff_contains s '/').mpr (quad_no_slash s v hq)
      rw [hs, (inetPton4_iff_quad be s v).mpr hq]; rfl
  · rw [strict_none_eq be s fl h]
    constructor
    · intro hok
      split at hok
      · cases hok
      · cases hp : inetPton4 be s with
        | none =>
          rw [hp] at hok
          cases h6 : inetPton6 be s with
          | none => rw [h6] at hok; cases hok
          | some w => rw [h6] at hok; simp at hok
        | some w =>
          rw [hp] at hok
          simp only [Except.ok.injEq, Addr.mk.injEq, true_and] at hok
          subst hok
          exact (inetPton4_iff_quad be s w).mp hp
    · intro hq
      have hs := (not_mem_iff_contains s '/').mpr (quad_no_slash s v hq)
      rw [hs, (inetPton4_iff_quad be s v).mpr hq]; rfl
  · intro a hok
    rw [strict4_eq be s fl h] at hok
    split at hok
    · cases hok
    · cases hp : inetPton4 be s with
      | none => rw [hp] at hok; cases hok
      | some w => rw [hp] at hok; injection hok with hok; rw [← hok]
  · intro e
    rw [strict4_eq be s fl h]
    by_cases hs : s.contains '/' = true
    · have hm := (mem_iff_contains s '/').mp hs
      simp only [hs, if_true, Except.error.injEq]
      constructor
      · intro e'; exact Or.inl ⟨e'.symm, hm⟩
      · rintro (⟨e', _⟩ | ⟨_, hn, _⟩)
        · exact e'.symm
        · exact absurd hm hn
    · have hs' : s.contains '/' = false := by simpa using hs
      have hm := (not_mem_iff_contains s '/').mp hs'
      simp only [hs', Bool.false_eq_true, if_false]
      cases hp : inetPton4 be s with
      | none =>
        simp only [Except.error.injEq]
        constructor
        · intro e'
          refine Or.inr ⟨e'.symm, hm, ?_⟩
          rintro ⟨w, hw⟩
          rw [(inetPton4_iff_quad be s w).mpr hw] at hp; cases hp
        · rintro (⟨_, hn⟩ | ⟨e', _, _⟩)
          · exact absurd hn hm
          · exact e'.symm
      | some w =>
        constructor
        · intro e'; cases e'
        · rintro (⟨_, hn⟩ | ⟨_, _, hno⟩)
          · exact absurd hn hm
          · exact absurd ⟨w, (inetPton4_iff_quad be s w).mp hp⟩ hno

example : C01G.IsQuad "192.0.2.1".toList 0xC0000201 := (quad_iff_ntoa _ _).mpr ⟨by decide, by decide⟩
example : ipAddress .platform "192.0.2.01".toList (some 4) INET_PTON = .error .addrFormat ∧
    ipAddress .fallback "1.2.3".toList none INET_PTON = .error .addrFormat ∧
    ipAddress .fallback "0x1.2.3.4".toList (some 4) INET_PTON = .error .addrFormat := by decide

/-! ### ZEROFILL: the exact rewrite relation, all strings -/

theorem hasFlag_or_zf (g : Nat) :
    hasFlag (g ||| ZEROFILL) ZEROFILL = true ∧ hasFlag (g ||| ZEROFILL) INET_PTON = hasFlag g INET_PTON := by
  unfold hasFlag ZEROFILL INET_PTON
  constructor
  · have : (g ||| 2) &&& 2 = 2 := by
      apply Nat.eq_of_testBit_eq; intro i
      simp only [Nat.testBit_and, Nat.testBit_or]
      cases h : Nat.testBit 2 i <;> simp
    rw [this]; rfl
  · have : (g ||| 2) &&& 1 = g &&& 1 := by
      apply Nat.eq_of_testBit_eq; intro i
      simp only [Nat.testBit_and, Nat.testBit_or]
      cases i with
      | zero => simp
      | succ j => simp [Nat.testBit_succ]
    rw [this]

theorem strToInt4_zf (be : Backend) (s : List Char) (f : Nat) (hz : hasFlag f ZEROFILL = true) :
    strToInt4 be s f = match zerofill s with
      | none => .error .addrFormat
      | some t =>
        match (if hasFlag f INET_PTON then inetPton4 be t else Text4.aton t) with
        | some v => .ok v
        | none => .error .addrFormat := by
  unfold strToInt4
  simp only [hz, if_true]
  cases zerofill s <;> rfl

theorem strToInt4_nozf (be : Backend) (t : List Char) (g : Nat) (hg : hasFlag g ZEROFILL = false) :
    strToInt4 be t g =
      match (if hasFlag g INET_PTON then inetPton4 be t else Text4.aton t) with
      | some v => .ok v
      | none => .error .addrFormat := by
  unfold strToInt4
  simp only [hg, Bool.false_eq_true, if_false]
  rfl

theorem strToInt6_no_colon (be : Backend) (s : List Char) (fl : Nat) (h : ':' ∉ s) :
    strToInt6 be s fl = .error .addrFormat := by
  unfold strToInt6
  rw [inetPton6_eq, C01.pton6_no_colon s h]

/-- IPv6 parsing ignores the flags altogether -/
theorem flags_irrelevant6 (be : Backend) (s : List Char) (f g : Nat) :
    ipAddress be s (some 6) f = ipAddress be s (some 6) g := by
  unfold ipAddress
  simp only [v6_ne, if_false, strToInt, strToInt6]
  rfl

/-- **ZEROFILL is exactly "rewrite, then parse without ZEROFILL"** — for every string.
    Let `rewrite s = '.'.join('%d' % int(p) for p in s.split('.'))` (`zerofill`; by
    `Zf.zerofill_iff` it is defined iff every part converts under `int()`, whatever the number
    of parts and whatever spelling `int()` tolerates: surrounding whitespace, a sign, single
    underscores between digits, any number of leading zeros).  For flags `f` with ZEROFILL and
    `g` = the same flags without it:

    * if `rewrite s = t`: `IPAddress(s, v, f) = IPAddress(t, v, g)` for `v` in {None, 4} — same
      value or same error class;
    * if some part does not convert: `IPAddress(s, 4, f)` raises AddrFormatError (ValueError
      when `s` contains '/'), and `IPAddress(s, None, f)` is the IPv6 reading of the ORIGINAL
      text, `IPAddress(s, 6, f)`;
    * `IPAddress(s, 6, f)` never looks at the flags. -/
theorem zerofill_rewrite (be : Backend) (s : List Char) (f g : Nat) (hf : hasFlag f ZEROFILL = true)
    (hg : hasFlag g ZEROFILL = false) (hp : hasFlag g INET_PTON = hasFlag f INET_PTON) :
    (∀ t, zerofill s = some t → ∀ ver, (ver = none ∨ ver = some 4) →
      ipAddress be s ver f = ipAddress be t ver g) ∧
    (zerofill s = none →
      ipAddress be s (some 4) f = if s.contains '/' then .error .value else .error .addrFormat) ∧
    (zerofill s = none → ipAddress be s none f = ipAddress be s (some 6) f) ∧
    ipAddress be s (some 6) f = ipAddress be s (some 6) g := by
  refine ⟨?_, ?_, ?_, flags_irrelevant6 be s f g⟩
  · intro t hz ver hver
    have hs : s.contains '/' = false := by
      apply (not_mem_iff_contains _ _).mpr
      intro hm; rw [zerofill_slash s hm] at hz; cases hz
    have ht : t.contains '/' = false :=
      (not_mem_iff_contains _ _).mpr (zerofill_out_not s t hz '/' (by decide) (by decide) (by decide))
    have hcs : ':' ∉ s := by
      intro hm; rw [zerofill_colon s hm] at hz; cases hz
    have hct : ':' ∉ t := zerofill_out_not s t hz ':' (by decide) (by decide) (by decide)
    have e4 : strToInt4 be s f = strToInt4 be t g := by
      rw [strToInt4_zf be s f hf, strToInt4_nozf be t g hg, hz, hp]
    rcases hver with e | e <;> subst e
    · unfold ipAddress
      simp only [hs, ht, Bool.false_eq_true, if_false, e4, strToInt6_no_colon be s f hcs,
        strToInt6_no_colon be t g hct]
    · unfold ipAddress
      simp only [v4_ne, if_false, hs, ht, Bool.false_eq_true, strToInt, if_true, e4]
  · intro hz
    unfold ipAddress
    simp only [v4_ne, if_false, strToInt, if_true, strToInt4_zf be s f hf, hz]
  · intro hz
    unfold ipAddress
    simp only [v6_ne, if_false, strToInt, strToInt4_zf be s f hf, hz]
    rfl

/-- the flag hypotheses of `zerofill_rewrite` are met by `g ||| ZEROFILL` vs `g`, in particular by
    ZEROFILL vs 0 and INET_PTON|ZEROFILL vs INET_PTON -/
example (g : Nat) (hg : hasFlag g ZEROFILL = false) :
    hasFlag (g ||| ZEROFILL) ZEROFILL = true ∧ hasFlag g ZEROFILL = false ∧
      hasFlag g INET_PTON = hasFlag (g ||| ZEROFILL) INET_PTON :=
  ⟨(hasFlag_or_zf g).1, hg, (hasFlag_or_zf g).2.symm⟩

/-- 1-3 part forms, signs, underscores, whitespace, zero padding — the rewrite and the result -/
example : zerofill " 0_10 .+2".toList = some "10.2".toList ∧
    ipAddress .platform " 0_10 .+2".toList none ZEROFILL = .ok ⟨4, 0x0A000002⟩ ∧
    ipAddress .platform "010".toList (some 4) ZEROFILL = .ok ⟨4, 10⟩ ∧
    ipAddress .platform "010".toList (some 4) 0 = .ok ⟨4, 8⟩ ∧
    ipAddress .platform "-0.0.0.0".toList (some 4) ZEROFILL = .ok ⟨4, 0⟩ ∧
    ipAddress .platform "0x10.1.1.1".toList (some 4) ZEROFILL = .error .addrFormat ∧
    ipAddress .platform "::1".toList none ZEROFILL = .ok ⟨6, 1⟩ := by decide

theorem zerofill_join (ps : List (List Char)) (ns : List Nat) (hne : ps ≠ [])
    (h : ps.map (Py.pyInt 10) = ns.map (fun (n : Nat) => some (n : Int))) :
    zerofill (['.'].intercalate ps) = some (['.'].intercalate (ns.map dec)) := by
  have hdot : ∀ l ∈ ps, '.' ∉ l := by
    intro l hl hd
    have hm : Py.pyInt 10 l ∈ ps.map (Py.pyInt 10) := List.mem_map.mpr ⟨l, hl, rfl⟩
    rw [h, pyInt_dot l hd] at hm
    obtain ⟨n, _, hn⟩ := List.mem_map.mp hm
    cases hn
  have hsplit := List.splitOn_intercalate (ls := ps) '.' hdot hne
  apply (zerofill_iff _ _).mpr
  refine ⟨ns.map (fun (n : Nat) => (n : Int)), ?_, ?_⟩
  · rw [hsplit, h, List.map_map]; rfl
  · rw [List.map_map]
    have : (showInt ∘ fun (n : Nat) => (n : Int)) = dec := by
      funext n; exact showInt_nat n
    rw [this]

theorem strict_reject (be : Backend) (s : List Char) (ver : Option Nat) (hver : ver = none ∨ ver = some 4)
    (fl : Nat) (h : StrictMode fl) (ha : inetPton4 be s = none) (hs : '/' ∉ s) (hc : ':' ∉ s) :
    ipAddress be s ver fl = .error .addrFormat := by
  have hs' := (not_mem_iff_contains s '/').mpr hs
  rcases hver with e | e <;> subst e
  · rw [strict_none_eq be s fl h, hs', ha, inetPton6_eq, C01.pton6_no_colon s hc]; rfl
  · rw [strict4_eq be s fl h, hs', ha]; rfl

theorem join_few_not_quad (be : Backend) (ls : List (List Char)) (hl : ls.length < 4) (hne : ls ≠ [])
    (hdot : ∀ l ∈ ls, '.' ∉ l) : inetPton4 be (['.'].intercalate ls) = none := by
  cases hp : inetPton4 be (['.'].intercalate ls) with
  | none => rfl
  | some v =>
    exfalso
    obtain ⟨hv, e⟩ := (C01.strict4_iff be _ v).mp hp
    have h1 := List.splitOn_intercalate (ls := ls) '.' hdot hne
    rw [e, split_ntoa v hv] at h1
    rw [← h1] at hl
    simp at hl

/-- **ZEROFILL on 1-4 part forms whose parts `int()` accepts** (any spelling: padding zeros,
    '+', surrounding whitespace, underscores — `Py.pyInt 10 p = some n`), with non-negative values
    `n0..n3`:

    * ZEROFILL without INET_PTON reads the parts in DECIMAL (never octal / hex) with the BSD
      part ranges: one part fills 32 bits, the last of two 24, the last of three 16;
    * four parts ≤ 255 give the dotted-quad value with or without INET_PTON;
    * INET_PTON|ZEROFILL refuses forms with fewer than four parts (AddrFormatError). -/
theorem zerofill_shorthand (be : Backend) (p0 p1 p2 p3 : List Char) (n0 n1 n2 n3 : Nat)
    (h0 : Py.pyInt 10 p0 = some (n0 : Int)) (h1 : Py.pyInt 10 p1 = some (n1 : Int))
    (h2 : Py.pyInt 10 p2 = some (n2 : Int)) (h3 : Py.pyInt 10 p3 = some (n3 : Int))
    (ver : Option Nat) (hver : ver = none ∨ ver = some 4) (f : Nat) (hz : hasFlag f ZEROFILL = true) :
    (hasFlag f INET_PTON = false →
      (n0 ≤ 0xffffffff → ipAddress be p0 ver f = .ok ⟨4, n0⟩) ∧
      (n0 ≤ 255 → n1 ≤ 0xffffff → ipAddress be (p0 ++ '.' :: p1) ver f = .ok ⟨4, n0 * 16777216 + n1⟩) ∧
      (n0 ≤ 255 → n1 ≤ 255 → n2 ≤ 0xffff →
        ipAddress be (p0 ++ '.' :: (p1 ++ '.' :: p2)) ver f = .ok ⟨4, n0 * 16777216 + n1 * 65536 + n2⟩)) ∧
    (n0 ≤ 255 → n1 ≤ 255 → n2 ≤ 255 → n3 ≤ 255 →
      ipAddress be (p0 ++ '.' :: (p1 ++ '.' :: (p2 ++ '.' :: p3))) ver f =
        .ok ⟨4, n0 * 16777216 + n1 * 65536 + n2 * 256 + n3⟩) ∧
    (hasFlag f INET_PTON = true →
      ipAddress be p0 ver f = .error .addrFormat ∧
      ipAddress be (p0 ++ '.' :: p1) ver f = .error .addrFormat ∧
      ipAddress be (p0 ++ '.' :: (p1 ++ '.' :: p2)) ver f = .error .addrFormat) := by
  have z1 : zerofill p0 = some (dec n0) := by
    have := zerofill_join [p0] [n0] (by simp) (by simp [h0])
    simpa [List.intercalate] using this
  have z2 : zerofill (p0 ++ '.' :: p1) = some (dec n0 ++ '.' :: dec n1) := by
    have := zerofill_join [p0, p1] [n0, n1] (by simp) (by simp [h0, h1])
    simpa [List.intercalate] using this
  have z3 : zerofill (p0 ++ '.' :: (p1 ++ '.' :: p2)) = some (dec n0 ++ '.' :: (dec n1 ++ '.' :: dec n2)) := by
    have := zerofill_join [p0, p1, p2] [n0, n1, n2] (by simp) (by simp [h0, h1, h2])
    simpa [List.intercalate] using this
  have z4 : zerofill (p0 ++ '.' :: (p1 ++ '.' :: (p2 ++ '.' :: p3))) =
      some (dec n0 ++ '.' :: (dec n1 ++ '.' :: (dec n2 ++ '.' :: dec n3))) := by
    have := zerofill_join [p0, p1, p2, p3] [n0, n1, n2, n3] (by simp) (by simp [h0, h1, h2, h3])
    simpa [List.intercalate] using this
  have i0 := isCLit_dec n0
  have i1 := isCLit_dec n1
  have i2 := isCLit_dec n2
  have i3 := isCLit_dec n3
  refine ⟨?_, ?_, ?_⟩
  · intro hp
    have hd : DefaultMode 0 := by unfold DefaultMode; decide
    have rw0 := (zerofill_rewrite be · f 0 hz (by decide) (by rw [hp]; decide))
    refine ⟨?_, ?_, ?_⟩
    · intro a0
      rw [(rw0 _).1 _ z1 ver hver]
      exact shorthand_api be _ _ (Body.one _ _ i0 a0) ver hver 0 hd
    · intro a0 a1
      rw [(rw0 _).1 _ z2 ver hver]
      exact shorthand_api be _ _ (Body.two _ _ _ _ i0 i1 a0 a1) ver hver 0 hd
    · intro a0 a1 a2
      rw [(rw0 _).1 _ z3 ver hver]
      exact shorthand_api be _ _ (Body.three _ _ _ _ _ _ i0 i1 i2 a0 a1 a2) ver hver 0 hd
  · intro a0 a1 a2 a3
    by_cases hp : hasFlag f INET_PTON = true
    · have hst : StrictMode 1 := by unfold StrictMode; decide
      rw [(zerofill_rewrite be _ f 1 hz (by decide) (by rw [hp]; decide)).1 _ z4 ver hver]
      have hv : n0 * 16777216 + n1 * 65536 + n2 * 256 + n3 < 2 ^ 32 := by omega
      have hq : C01G.IsQuad (dec n0 ++ '.' :: (dec n1 ++ '.' :: (dec n2 ++ '.' :: dec n3)))
          (n0 * 16777216 + n1 * 65536 + n2 * 256 + n3) := by
        apply (quad_iff_ntoa _ _).mpr
        refine ⟨hv, ?_⟩
        rw [ntoa_eq]
        have q0 : (n0 * 16777216 + n1 * 65536 + n2 * 256 + n3) / 16777216 = n0 := by omega
        have q1 : (n0 * 16777216 + n1 * 65536 + n2 * 256 + n3) / 65536 % 256 = n1 := by omega
        have q2 : (n0 * 16777216 + n1 * 65536 + n2 * 256 + n3) / 256 % 256 = n2 := by omega
        have q3 : (n0 * 16777216 + n1 * 65536 + n2 * 256 + n3) % 256 = n3 := by omega
        rw [q0, q1, q2, q3]
        simp [List.intercalate]
      rcases hver with e | e <;> subst e
      · exact (strict4_api be _ _ 1 hst).2.1.mpr hq
      · exact (strict4_api be _ _ 1 hst).1.mpr hq
    · have hp' : hasFlag f INET_PTON = false := by simpa using hp
      have hd : DefaultMode 0 := by unfold DefaultMode; decide
      rw [(zerofill_rewrite be _ f 0 hz (by decide) (by rw [hp']; decide)).1 _ z4 ver hver]
      exact shorthand_api be _ _ (Body.four _ _ _ _ _ _ _ _ i0 i1 i2 i3 a0 a1 a2 a3) ver hver 0 hd
  · intro hp
    have hst : StrictMode 1 := by unfold StrictMode; decide
    have rw1 := (zerofill_rewrite be · f 1 hz (by decide) (by rw [hp]; decide))
    have nd := C03L.dot_not_in_dec
    have nsl : ∀ n, '/' ∉ dec n := fun n hm => absurd (dec_chars n _ hm) (by decide)
    have ncl := C03L.colon_not_in_dec
    refine ⟨?_, ?_, ?_⟩
    · rw [(rw1 _).1 _ z1 ver hver]
      have hq := join_few_not_quad be [dec n0] (by simp) (by simp) (by intro l hl; simp at hl; subst hl; exact nd _)
      simp only [List.intercalate] at hq
      exact strict_reject be _ ver hver 1 hst (by simpa using hq) (nsl _) (ncl _)
    · rw [(rw1 _).1 _ z2 ver hver]
      have hq := join_few_not_quad be [dec n0, dec n1] (by simp) (by simp)
        (by intro l hl; simp at hl; rcases hl with e | e <;> subst e <;> exact nd _)
      apply strict_reject be _ ver hver 1 hst (by simpa [List.intercalate] using hq)
      · simp only [List.mem_append, List.mem_cons, not_or]
        exact ⟨nsl _, by decide, nsl _⟩
      · simp only [List.mem_append, List.mem_cons, not_or]
        exact ⟨ncl _, by decide, ncl _⟩
    · rw [(rw1 _).1 _ z3 ver hver]
      have hq := join_few_not_quad be [dec n0, dec n1, dec n2] (by simp) (by simp)
        (by intro l hl; simp at hl; rcases hl with e | e | e <;> subst e <;> exact nd _)
      apply strict_reject be _ ver hver 1 hst (by simpa [List.intercalate] using hq)
      · simp only [List.mem_append, List.mem_cons, not_or]
        exact ⟨nsl _, by decide, nsl _, by decide, nsl _⟩
      · simp only [List.mem_append, List.mem_cons, not_or]
        exact ⟨ncl _, by decide, ncl _, by decide, ncl _⟩

/-- the hypotheses are satisfiable by parts that are not plain digit strings -/
example : Py.pyInt 10 " 0_10 ".toList = some ((10 : Nat) : Int) ∧ Py.pyInt 10 "+2".toList = some ((2 : Nat) : Int) ∧
    Py.pyInt 10 "-0".toList = some ((0 : Nat) : Int) ∧ Py.pyInt 10 "0000000000255".toList = some ((255 : Nat) : Int) := by
  decide

/-- **A negative part is refused under ZEROFILL**: if every part converts under `int()` and
    some value is negative, `IPAddress(s, v, flags)` (v in {None, 4}, any flags with ZEROFILL)
    raises AddrFormatError — `'%d'` prints the '-' and neither `inet_aton` nor `inet_pton` reads
    it; no wrap-around to some other address. -/
theorem zerofill_negative (be : Backend) (s : List Char) (ns : List Int)
    (hns : (s.splitOn '.').map (Py.pyInt 10) = ns.map some) (hneg : ∃ n ∈ ns, n < 0)
    (ver : Option Nat) (hver : ver = none ∨ ver = some 4) (f : Nat) (hz : hasFlag f ZEROFILL = true) :
    ipAddress be s ver f = .error .addrFormat := by
  have hzt : zerofill s = some (['.'].intercalate (ns.map showInt)) := (zerofill_iff _ _).mpr ⟨ns, hns, rfl⟩
  have hdash : '-' ∈ ['.'].intercalate (ns.map showInt) := (dash_iff ns).mpr hneg
  generalize ['.'].intercalate (ns.map showInt) = t at hzt hdash
  have hsl : '/' ∉ t := zerofill_out_not s t hzt '/' (by decide) (by decide) (by decide)
  have hcl : ':' ∉ t := zerofill_out_not s t hzt ':' (by decide) (by decide) (by decide)
  by_cases hp : hasFlag f INET_PTON = true
  · have hst : StrictMode 1 := by unfold StrictMode; decide
    rw [(zerofill_rewrite be s f 1 hz (by decide) (by rw [hp]; decide)).1 t hzt ver hver]
    apply strict_reject be t ver hver 1 hst ?_ hsl hcl
    cases hq : inetPton4 be t with
    | none => rfl
    | some v =>
      exfalso
      obtain ⟨hv, e⟩ := (C01.strict4_iff be t v).mp hq
      rw [e] at hdash
      rcases mem_ntoa v _ hdash with h | h | h | h | h
      · exact absurd h (by decide)
      all_goals exact absurd (dec_chars _ _ h) (by decide)
  · have hp' : hasFlag f INET_PTON = false := by simpa using hp
    have hd : DefaultMode 0 := by unfold DefaultMode; decide
    rw [(zerofill_rewrite be s f 0 hz (by decide) (by rw [hp']; decide)).1 t hzt ver hver]
    apply default_reject be t ver hver 0 hd ?_ hsl hcl
    cases ha : Text4.aton t with
    | none => rfl
    | some v =>
      exfalso
      obtain ⟨_, body, tail, e, hb, htail⟩ := (aton_iff t v).mp ha
      rcases htail with e2 | ⟨c, r, e2, hsp⟩
      · subst e2
        rw [List.append_nil] at e
        rw [e] at hdash
        exact body_not_mem body v hb '-' (by decide) (by decide) (by decide) (by decide) hdash
      · have hc : c ∈ t := by rw [e, e2]; simp
        obtain ⟨s1, _, _, s4, _⟩ := space_facts c hsp
        rcases zerofill_out_chars s t hzt c hc with h | h | h
        · exact s4 h
        · subst h; revert hsp; decide
        · rw [hex_of_dec c h] at s1; cases s1

example : ("-1.2.3.4".toList.splitOn '.').map (Py.pyInt 10) = ([-1, 2, 3, 4] : List Int).map some := by decide

/-! ### `valid_ipv4` / `valid_ipv6` on all strings -/

theorem slash_pton6 (be : Backend) (s : List Char) (h : '/' ∈ s) : inetPton6 be s = none := by
  cases h6 : inetPton6 be s with
  | none => rfl
  | some v =>
    exfalso
    rw [inetPton6_eq] at h6
    rcases pton6_charset s v h6 '/' h with e | e | e
    · revert e; decide
    · revert e; decide
    · revert e; decide

theorem slash_pton4 (be : Backend) (s : List Char) (h : '/' ∈ s) : inetPton4 be s = none := by
  cases h4 : inetPton4 be s with
  | none => rfl
  | some v => exact absurd h (quad_no_slash s v ((inetPton4_iff_quad be s v).mp h4))

/-- **`valid_ipv4` / `valid_ipv6` for every non-empty string, '/' included.**

    * `valid_ipv6(s)` is True exactly when `IPAddress(s, 6, flags)` yields an address (any
      flags) — also for strings containing '/', where both say no (the constructor with
      ValueError);
    * `valid_ipv4(s, flags)` is True exactly when `strategy.ipv4.str_to_int(s, flags)` succeeds;
      with INET_PTON or ZEROFILL that is exactly when `IPAddress(s, 4, flags)` yields an address,
      for all strings;
    * in default mode `valid_ipv4(s)` is True exactly for the `inet_aton` texts, so it agrees
      with the constructor on every string without '/', and on a string WITH '/' it is True
      exactly when the '/' sits in the part `inet_aton` ignores (after the first whitespace) —
      the constructor raises ValueError there (`valid_differs`). -/
theorem valid_iff_all (be : Backend) (s : List Char) (fl : Nat) (hs : s ≠ []) :
    (validStr6 be s = .ok true ↔ ∃ v, ipAddress be s (some 6) fl = .ok ⟨6, v⟩) ∧
    (validStr6 be s = .ok true ∨ validStr6 be s = .ok false) ∧
    (validStr4 be s fl = .ok true ∨ validStr4 be s fl = .ok false) ∧
    (validStr4 be s fl = .ok true ↔ ∃ v, strToInt4 be s fl = .ok v) ∧
    ((hasFlag fl ZEROFILL = true ∨ hasFlag fl INET_PTON = true) →
      (validStr4 be s fl = .ok true ↔ ∃ v, ipAddress be s (some 4) fl = .ok ⟨4, v⟩)) ∧
    (DefaultMode fl → (validStr4 be s fl = .ok true ↔ ∃ v, AtonText s v)) ∧
    (DefaultMode fl → (validStr4 be s fl = .ok true ↔
      (∃ v, ipAddress be s (some 4) fl = .ok ⟨4, v⟩) ∨ ('/' ∈ s ∧ ∃ v, AtonText s v))) := by
  have hne : (s == []) = false := beq_eq_false_iff_ne.mpr hs
  have h64 : ¬ ((6 : Nat) = 4) := by decide
  have v4 : validStr4 be s fl = .ok true ↔ ∃ v, strToInt4 be s fl = .ok v := by
    unfold validStr4
    simp only [hne, Bool.false_eq_true, if_false]
    cases strToInt4 be s fl with
    | ok v => simp
    | error e => simp
  have ctor4 : '/' ∉ s → ((∃ v, ipAddress be s (some 4) fl = .ok ⟨4, v⟩) ↔ ∃ v, strToInt4 be s fl = .ok v) := by
    intro hm
    have hc := (not_mem_iff_contains s '/').mpr hm
    unfold ipAddress
    simp only [v4_ne, if_false, hc, Bool.false_eq_true, strToInt, if_true]
    cases strToInt4 be s fl with
    | ok v => simp
    | error e => simp
  have ctor4s : '/' ∈ s → ¬ ∃ v, ipAddress be s (some 4) fl = .ok ⟨4, v⟩ := by
    intro hm
    have hc := (mem_iff_contains s '/').mpr hm
    unfold ipAddress
    simp only [v4_ne, if_false, hc, if_true]
    rintro ⟨v, hv⟩; cases hv
  refine ⟨?_, ?_, ?_, v4, ?_, ?_, ?_⟩
  · unfold validStr6 ipAddress
    simp only [hne, Bool.false_eq_true, if_false, v6_ne, strToInt, h64, strToInt6]
    by_cases hm : '/' ∈ s
    · have hc := (mem_iff_contains s '/').mpr hm
      simp [hm, slash_pton6 be s hm]
    · have hc := (not_mem_iff_contains s '/').mpr hm
      simp only [hc, Bool.false_eq_true, if_false]
      cases inetPton6 be s with
      | some v => simp
      | none => simp
  · unfold validStr6
    simp only [hne, Bool.false_eq_true, if_false]
    cases inetPton6 be s with
    | some v => exact Or.inl rfl
    | none => exact Or.inr rfl
  · unfold validStr4
    simp only [hne, Bool.false_eq_true, if_false]
    cases strToInt4 be s fl with
    | ok v => exact Or.inl rfl
    | error e => exact Or.inr rfl
  · intro hflag
    by_cases hm : '/' ∈ s
    · have hno : ¬ ∃ v, strToInt4 be s fl = .ok v := by
        rintro ⟨v, hv⟩
        by_cases hz : hasFlag fl ZEROFILL = true
        · rw [strToInt4_zf be s fl hz, zerofill_slash s hm] at hv; cases hv
        · have hz' : hasFlag fl ZEROFILL = false := by simpa using hz
          have hp : hasFlag fl INET_PTON = true := by
            rcases hflag with e | e
            · rw [hz'] at e; cases e
            · exact e
          rw [strToInt4_strict be s fl ⟨hz', hp⟩, slash_pton4 be s hm] at hv; cases hv
      rw [v4]
      constructor
      · intro h; exact absurd h hno
      · intro h; exact absurd h (ctor4s hm)
    · rw [v4, ctor4 hm]
  · intro hd
    rw [v4, strToInt4_default be s fl hd]
    constructor
    · rintro ⟨v, hv⟩
      cases ha : Text4.aton s with
      | none => rw [ha] at hv; cases hv
      | some w => exact ⟨w, (aton_iff s w).mp ha⟩
    · rintro ⟨v, hv⟩
      rw [(aton_iff s v).mpr hv]; exact ⟨v, rfl⟩
  · intro hd
    have hat : (∃ v, strToInt4 be s fl = .ok v) ↔ ∃ v, AtonText s v := by
      rw [strToInt4_default be s fl hd]
      constructor
      · rintro ⟨v, hv⟩
        cases ha : Text4.aton s with
        | none => rw [ha] at hv; cases hv
        | some w => exact ⟨w, (aton_iff s w).mp ha⟩
      · rintro ⟨v, hv⟩
        rw [(aton_iff s v).mpr hv]; exact ⟨v, rfl⟩
    by_cases hm : '/' ∈ s
    · rw [v4, hat]
      constructor
      · intro h; exact Or.inr ⟨hm, h⟩
      · rintro (h | ⟨_, h⟩)
        · exact absurd h (ctor4s hm)
        · exact h
    · rw [v4, ctor4 hm]
      constructor
      · intro h; exact Or.inl h
      · rintro (h | ⟨h, _⟩)
        · exact h
        · exact absurd h hm

/-- the empty string: both helpers raise AddrFormatError (as `C01.valid_iff` already says) -/
theorem valid_empty (be : Backend) (fl : Nat) :
    validStr4 be [] fl = .error .addrFormat ∧ validStr6 be [] = .error .addrFormat := ⟨rfl, rfl⟩

local instance decEqRB : DecidableEq (R Bool) := fun a b =>
  match a, b with
  | .ok x, .ok y => if h : x = y then isTrue (by rw [h]) else isFalse (by intro e; injection e with e; exact h e)
  | .error x, .error y => if h : x = y then isTrue (by rw [h]) else isFalse (by intro e; injection e with e; exact h e)
  | .ok _, .error _ => isFalse (by intro e; cases e)
  | .error _, .ok _ => isFalse (by intro e; cases e)

/-- **Where `valid_ipv4` and the constructor differ** (real behaviour, reproduced by the model):
    `valid_ipv4('1.2.3.4 /24')` is True — glibc's `inet_aton` stops reading at the blank — while
    `IPAddress('1.2.3.4 /24')` raises ValueError because of the '/'.  With INET_PTON or
    ZEROFILL, and for `valid_ipv6`, there is no such string (`valid_iff_all`). -/
theorem valid_differs :
    validStr4 .platform "1.2.3.4 /24".toList 0 = .ok true ∧
    ipAddress .platform "1.2.3.4 /24".toList (some 4) 0 = .error .value ∧
    validStr4 .platform "1.2.3.4 /24".toList INET_PTON = .ok false ∧
    validStr4 .platform "1.2.3.4 /24".toList ZEROFILL = .ok false ∧
    validStr4 .platform "1.2.3.4/24".toList 0 = .ok false := by decide

/-! ### `repr` -/

theorem unquote_frame (m : List Char) : unquoteRepr (reprPrefix ++ (m ++ reprSuffix)) = some m := by
  unfold unquoteRepr
  have h1 : reprPrefix.isPrefixOf (reprPrefix ++ (m ++ reprSuffix)) = true := by simp
  have h2 : (reprPrefix ++ (m ++ reprSuffix)).drop reprPrefix.length = m ++ reprSuffix := List.drop_left
  have h3 : reprSuffix.isSuffixOf (m ++ reprSuffix) = true := by simp
  have h4 : (reprPrefix ++ (m ++ reprSuffix)).length - reprPrefix.length - reprSuffix.length = m.length := by
    simp only [List.length_append]; omega
  rw [h1, h2, h3, h4]
  simp

/-- **`repr` and its `eval`-free round trip.**  `repr(ip)` is `IPAddress('` + `str(ip)` + `')`;
    removing that frame gives back `str(ip)`, and parsing it — version None or the address's own,
    flags 0 / INET_PTON / ZEROFILL / both, either back end — gives back the address. -/
theorem repr_roundtrip (be : Backend) (a : Addr) (ha : a.WF) (ver : Option Nat)
    (hver : ver = none ∨ ver = some a.ver) (fl : Nat) (hfl : fl < 4) :
    reprAddr be a = "IPAddress('".toList ++ (intToStr be a.ver a.val ++ "')".toList) ∧
    unquoteRepr (reprAddr be a) = some (intToStr be a.ver a.val) ∧
    ∀ q, unquoteRepr (reprAddr be a) = some q → ipAddress be q ver fl = .ok a := by
  have hu : unquoteRepr (reprAddr be a) = some (intToStr be a.ver a.val) := unquote_frame _
  refine ⟨rfl, hu, ?_⟩
  intro q hq
  rw [hu] at hq
  injection hq with hq
  subst hq
  obtain ⟨av, aval⟩ := a
  obtain ⟨hv46, hval⟩ := ha
  simp only at hv46 hval hver ⊢
  rcases hv46 with e | e <;> subst e
  · exact C01.roundtrip4 be aval (by simpa [width] using hval) ver hver fl hfl
  · have := C01.roundtrip6 be .compact aval (by simpa [width] using hval) ver hver fl
    simpa [intToStr] using this

example : reprAddr .platform ⟨6, 0xffff01020304⟩ = "IPAddress('::ffff:1.2.3.4')".toList := by decide
example : (⟨4, 0xC0000201⟩ : Addr).WF := by unfold Addr.WF width; decide

end NV.C01b
