/-
Props/TieCidr.lean — translation tie for `cidr_partition` (C09; `cidr_exclude`, `iprange_to_cidrs`
and the IPSet subtraction are built on it): the CURRENT source text of the function — shortcuts,
halving loop with its two lists, `break`, final reversal — translated by `harness/pytrans.py`
(`Gen/Trans.lean`: `cidr_partition`, `cidr_partition_loop1`) equals `cidrPartition` of
`Model/Cidr.lean`, the definition the C09 theorems are about, for every target / exclude pair of
one family with legal prefix lengths.
-/
import NetaddrVerif.Gen.Trans
import NetaddrVerif.Lemmas.TieL
import NetaddrVerif.Model.Cidr
import NetaddrVerif.Props.Tie
namespace NV.Tie
open NV NV.Trans

/-- a block of the model as the constructor tuple `(value, prefixlen, version)` of the translation -/
def liftP (ver : Nat) (b : Pfx) : Int × Int × Int := ((b.val : Int), (b.plen : Int), (ver : Int))
def liftL (ver : Nat) (l : List Pfx) : List (Int × Int × Int) := l.map (liftP ver)

theorem liftL_append (ver : Nat) (l : List Pfx) (b : Pfx) :
    liftL ver (l ++ [b]) = liftL ver l ++ [((b.val : Int), (b.plen : Int), (ver : Int))] := by
  simp [liftL, liftP]

theorem pow_sub_cast (w n : Nat) (h : n ≤ w) : Py.pow 2 ((w : Int) - (n : Int)) = ((2 ^ (w - n) : Nat) : Int) := by
  unfold Py.pow
  have : ((w : Int) - (n : Int)).toNat = w - n := by omega
  rw [this]
  push_cast
  rfl

/-- the halving loop: with enough fuel the translated loop computes `partLoop` -/
theorem part_loop (ver : Nat) (tval tplen : Int) (ev ep : Nat) (hep : ep ≤ width ver) (tf : Int) :
    ∀ (fuel np iL iU : Nat) (left right : List Pfx), ep + 1 - np ≤ fuel →
      cidr_partition_loop1 fuel ver tval tplen ver (ev : Int) (ep : Int) (np : Int) (iL : Int) (iU : Int)
          (liftL ver left) (liftL ver right) ((width ver : Nat) : Int) tf ((ver : Nat) : Int)
        = (liftL ver (partLoop (width ver) (netFirst (width ver) ev ep) ep np iL iU left right).1,
           [((ev : Int), (ep : Int), (ver : Int))],
           (liftL ver (partLoop (width ver) (netFirst (width ver) ev ep) ep np iL iU left right).2).reverse) := by
  intro fuel
  induction fuel with
  | zero =>
    intro np iL iU left right h
    have hlt : ¬ ep ≥ np := by omega
    rw [cidr_partition_loop1, partLoop]
    simp only [hlt, dite_false]
  | succ fuel ih =>
    intro np iL iU left right h
    rw [cidr_partition_loop1, partLoop]
    by_cases hge : ep ≥ np
    · have hge' : ((ep : Int) ≥ (np : Int)) := by omega
      simp only [hge, hge', dite_true, ↓reduceIte]
      rw [net_first ver ev ep hep]
      have e1 : ((np : Int) + 1) = ((np + 1 : Nat) : Int) := by push_cast; rfl
      by_cases hef : netFirst (width ver) ev ep ≥ iU
      · have hef' : (((netFirst (width ver) ev ep : Nat) : Int) ≥ (iU : Int)) := by omega
        simp only [hef, hef', ↓reduceIte, e1]
        by_cases hw : np + 1 > width ver
        · have hw' : (((np + 1 : Nat) : Int) > ((width ver : Nat) : Int)) := by omega
          simp only [hw, hw', ↓reduceIte, liftL_append]
        · have hw' : ¬ (((np + 1 : Nat) : Int) > ((width ver : Nat) : Int)) := by omega
          simp only [hw, hw', ↓reduceIte]
          rw [pow_sub_cast _ _ (by omega)]
          have e2 : ((iU : Int) + ((2 ^ (width ver - (np + 1)) : Nat) : Int)) = ((iU + 2 ^ (width ver - (np + 1)) : Nat) : Int) := by
            push_cast; rfl
          have e3 : liftL ver left ++ [((iL : Int), (np : Int), (ver : Int))] = liftL ver (left ++ [⟨iL, np⟩]) :=
            (liftL_append ver left ⟨iL, np⟩).symm
          rw [e2, e3]
          exact ih (np + 1) iU (iU + 2 ^ (width ver - (np + 1))) (left ++ [⟨iL, np⟩]) right (by omega)
      · have hef' : ¬ (((netFirst (width ver) ev ep : Nat) : Int) ≥ (iU : Int)) := by omega
        simp only [hef, hef', ↓reduceIte, e1]
        by_cases hw : np + 1 > width ver
        · have hw' : (((np + 1 : Nat) : Int) > ((width ver : Nat) : Int)) := by omega
          simp only [hw, hw', ↓reduceIte, liftL_append]
        · have hw' : ¬ (((np + 1 : Nat) : Int) > ((width ver : Nat) : Int)) := by omega
          simp only [hw, hw', ↓reduceIte]
          rw [pow_sub_cast _ _ (by omega)]
          have e2 : ((iL : Int) + ((2 ^ (width ver - (np + 1)) : Nat) : Int)) = ((iL + 2 ^ (width ver - (np + 1)) : Nat) : Int) := by
            push_cast; rfl
          have e3 : liftL ver right ++ [((iU : Int), (np : Int), (ver : Int))] = liftL ver (right ++ [⟨iU, np⟩]) :=
            (liftL_append ver right ⟨iU, np⟩).symm
          rw [e2, e3]
          exact ih (np + 1) iL (iL + 2 ^ (width ver - (np + 1))) left (right ++ [⟨iU, np⟩]) (by omega)
    · have hge' : ¬ ((ep : Int) ≥ (np : Int)) := by omega
      simp only [hge, hge', dite_false, ↓reduceIte]

/-- `cidr_partition(target, exclude)` for two networks of one family: the translated source text IS
    `cidrPartition` of the model (the three lists as constructor tuples `(value, prefixlen, version)`) -/
theorem cidr_partition_eq (ver : Nat) (t e : Pfx) (ht : t.plen ≤ width ver) (he : e.plen ≤ width ver) :
    cidr_partition ver (t.val : Int) (t.plen : Int) ver (e.val : Int) (e.plen : Int) =
      (liftL ver (cidrPartition (width ver) t e).1, liftL ver (cidrPartition (width ver) t e).2.1,
       liftL ver (cidrPartition (width ver) t e).2.2) := by
  unfold cidr_partition cidrPartition
  have hc := net_cidr ⟨ver, t.val, t.plen⟩ ht
  simp only [] at hc
  rw [net_last ver e.val e.plen he, net_first ver t.val t.plen ht, net_last ver t.val t.plen ht,
    net_first ver e.val e.plen he, hc]
  simp only [Pfx.first, Pfx.last]
  by_cases h1 : netLast (width ver) e.val e.plen < netFirst (width ver) t.val t.plen
  · have h1' : ((netLast (width ver) e.val e.plen : Nat) : Int) < ((netFirst (width ver) t.val t.plen : Nat) : Int) := by omega
    simp only [h1, h1', ↓reduceIte]
    rfl
  · have h1' : ¬ (((netLast (width ver) e.val e.plen : Nat) : Int) < ((netFirst (width ver) t.val t.plen : Nat) : Int)) := by omega
    simp only [h1, h1', ↓reduceIte]
    by_cases h2 : netLast (width ver) t.val t.plen < netFirst (width ver) e.val e.plen
    · have h2' : ((netLast (width ver) t.val t.plen : Nat) : Int) < ((netFirst (width ver) e.val e.plen : Nat) : Int) := by omega
      simp only [h2, h2', ↓reduceIte]
      rfl
    · have h2' : ¬ (((netLast (width ver) t.val t.plen : Nat) : Int) < ((netFirst (width ver) e.val e.plen : Nat) : Int)) := by omega
      simp only [h2, h2', ↓reduceIte]
      by_cases h3 : t.plen ≥ e.plen
      · have h3' : ((t.plen : Int) ≥ (e.plen : Int)) := by omega
        simp only [h3, h3', ↓reduceIte]
        rfl
      · have h3' : ¬ ((t.plen : Int) ≥ (e.plen : Int)) := by omega
        simp only [h3, h3', ↓reduceIte]
        have e1 : ((t.plen : Int) + 1) = ((t.plen + 1 : Nat) : Int) := by push_cast; rfl
        rw [e1, pow_sub_cast _ _ (by omega)]
        have e2 : ((netFirst (width ver) t.val t.plen : Nat) : Int) + ((2 ^ (width ver - (t.plen + 1)) : Nat) : Int)
            = ((netFirst (width ver) t.val t.plen + 2 ^ (width ver - (t.plen + 1)) : Nat) : Int) := by push_cast; rfl
        rw [e2]
        have hl := part_loop ver (t.val : Int) (t.plen : Int) e.val e.plen he
          ((netFirst (width ver) t.val t.plen : Nat) : Int) ((width ver + 1) + 1) (t.plen + 1)
          (netFirst (width ver) t.val t.plen) (netFirst (width ver) t.val t.plen + 2 ^ (width ver - (t.plen + 1))) [] [] (by omega)
        simp only [liftL, List.map_nil] at hl
        rw [hl]
        simp [liftL, liftP, List.map_reverse]

example : cidr_partition 4 0xC0000200 24 4 0xC0000240 28 =
    ([(0xC0000200, 26, 4)], [(0xC0000240, 28, 4)], [(0xC0000250, 28, 4), (0xC0000260, 27, 4), (0xC0000280, 25, 4)]) := by decide

/-- `cidr_exclude(target, exclude)`: the blocks before and after, concatenated -/
theorem cidr_exclude_eq (ver : Nat) (t e : Pfx) (ht : t.plen ≤ width ver) (he : e.plen ≤ width ver) :
    cidr_exclude ver (t.val : Int) (t.plen : Int) ver (e.val : Int) (e.plen : Int) =
      liftL ver (cidrExclude (width ver) t e) := by
  unfold cidr_exclude cidrExclude
  simp only [cidr_partition_eq ver t e ht he]
  simp [liftL]

example : cidr_exclude 4 0xC0000200 24 4 0xC0000240 28 =
    [(0xC0000200, 26, 4), (0xC0000250, 28, 4), (0xC0000260, 27, 4), (0xC0000280, 25, 4)] := by decide

end NV.Tie
