/-
Props/C07b.lean — property C07, second part: iteration over addresses, `size` as a cardinal,
and the non-mutating operations as steps of a history (nothing changes, nothing fails except the
two documented errors).  Property theorems only; lemmas in Lemmas/IPSetIter1..3.

Vocabulary: `iterAddrs s` is `IPSet.__iter__` (`itertools.chain(*sorted(self._cidrs))`, every
network counting from `first` to `last`) as a list of `(version, address)` pairs; `AddrLt` orders
such pairs by version first (4 before 6), then by address.  `Store` = the live sets of a history;
`QOp` = the non-mutating operations; `evalQ` their value or exception; `stepQ` / `stepAny` the
step they make on the store; `evalQFast` / `runQs` the spelling the driver runs.
-/
import NetaddrVerif.Props.C07
import NetaddrVerif.Props.C06
import NetaddrVerif.Lemmas.IPSetIter1
import NetaddrVerif.Lemmas.IPSetIter3
import NetaddrVerif.Lemmas.C04M
namespace NV.C07
open NV NV.IPSet NV.IPSet.Iter

/-! ### iteration over addresses -/

/-- **`iter(ipset)`**: for a canonical set the iteration is strictly ascending in
    (version, address) — IPv4 before IPv6 —, yields no address twice, yields exactly the denoted
    (version, address) pairs, and yields `size` of them -/
theorem iter_addrs_spec (s : St) (hs : Inv s) :
    (iterAddrs s).Pairwise AddrLt ∧ (iterAddrs s).Nodup ∧
    (∀ v a, (v, a) ∈ iterAddrs s ↔ denS s v a) ∧ (iterAddrs s).length = size s :=
  ⟨iterAddrs_sorted s hs, iterAddrs_nodup s hs, mem_iterAddrs s, length_iterAddrs s⟩

/-- membership and length hold for ANY state (no invariant): iteration never invents or loses an
    address of a stored block -/
theorem iter_addrs_mem (s : St) (v a : Nat) : (v, a) ∈ iterAddrs s ↔ denS s v a := mem_iterAddrs s v a
theorem iter_addrs_length (s : St) : (iterAddrs s).length = size s := length_iterAddrs s

/-- it is THE ascending enumeration of the denoted set: any strictly ascending list with exactly
    the denoted pairs is the iteration -/
theorem iter_addrs_unique (s : St) (hs : Inv s) (L : List (Nat × Nat)) (hL : L.Pairwise AddrLt)
    (hm : ∀ v a, (v, a) ∈ L ↔ denS s v a) : L = iterAddrs s := by
  have hp : L.Perm (iterAddrs s) := by
    rw [List.perm_ext_iff_of_nodup (nodup_of_sorted hL) (iterAddrs_nodup s hs)]
    rintro ⟨v, a⟩
    rw [hm v a, mem_iterAddrs s v a]
  refine List.Perm.eq_of_pairwise ?_ hL (iterAddrs_sorted s hs) hp
  intro a b _ _ h1 h2
  unfold AddrLt at h1 h2
  omega

/-- consequently two canonical sets with the same addresses iterate identically -/
theorem iter_addrs_ext (s t : St) (hs : Inv s) (ht : Inv t) (h : ∀ ver a, denS s ver a ↔ denS t ver a) :
    iterAddrs s = iterAddrs t :=
  iter_addrs_unique t ht _ (iterAddrs_sorted s hs) (fun v a => (mem_iterAddrs s v a).trans (h v a))

/-- **IPv4 before IPv6**, spelled out: the iteration is a run of IPv4 addresses followed by a run
    of IPv6 addresses (either may be empty), and nothing else -/
theorem iter_v4_then_v6 (s : St) (hs : Inv s) :
    ∃ l4 l6, iterAddrs s = l4 ++ l6 ∧ (∀ x ∈ l4, x.1 = 4) ∧ (∀ x ∈ l6, x.1 = 6) := by
  have hfam : ∀ x ∈ iterAddrs s, x.1 = 4 ∨ x.1 = 6 := by
    rintro ⟨v, a⟩ hx
    obtain ⟨n, hn, hv, _⟩ := (mem_iterAddrs s v a).1 hx
    exact hv ▸ (hs.good n hn).1.1
  have hsorted := iterAddrs_sorted s hs
  generalize iterAddrs s = l at hfam hsorted
  induction l with
  | nil => exact ⟨[], [], rfl, by simp, by simp⟩
  | cons x l ih =>
    obtain ⟨hx, hl⟩ := List.pairwise_cons.1 hsorted
    rcases hfam x (List.mem_cons_self ..) with h4 | h6
    · obtain ⟨l4, l6, e, a4, a6⟩ := ih (fun y hy => hfam y (List.mem_cons_of_mem _ hy)) hl
      refine ⟨x :: l4, l6, by rw [e]; rfl, ?_, a6⟩
      intro y hy
      rcases List.mem_cons.1 hy with e' | e'
      · rw [e']; exact h4
      · exact a4 y e'
    · refine ⟨[], x :: l, rfl, by simp, ?_⟩
      intro y hy
      rcases List.mem_cons.1 hy with e' | e'
      · rw [e']; exact h6
      · have := hx y e'
        have hy' := hfam y (List.mem_cons_of_mem _ e')
        unfold AddrLt at this
        omega

/-! ### size is the number of addresses -/

/-- **`size` = cardinality of the denotation**: every duplicate-free list whose members are
    exactly the denoted (version, address) pairs has `size s` elements — and such a list exists
    (the iteration) -/
theorem size_card (s : St) (hs : Inv s) :
    (∀ L : List (Nat × Nat), L.Nodup → (∀ v a, (v, a) ∈ L ↔ denS s v a) → L.length = size s) ∧
    ((iterAddrs s).Nodup ∧ ∀ v a, (v, a) ∈ iterAddrs s ↔ denS s v a) :=
  ⟨card_eq_size s hs, iterAddrs_nodup s hs, mem_iterAddrs s⟩

/-- the hypotheses are satisfiable: the mixed-family example of Props/C07.lean, cut down to
    something small enough to enumerate — 10.0.1.0/30 and ::1 -/
def exT : St := [⟨4, 0x0a000100, 30⟩, ⟨6, 1, 128⟩]
theorem exT_inv : Inv exT := by
  have e : exT = add (add [] (.net ⟨4, 0x0a000100, 30⟩)) (.net ⟨6, 1, 128⟩) := by decide +kernel
  rw [e]
  have h1 := (add_spec [] inv_nil (.net ⟨4, 0x0a000100, 30⟩) ⟨by decide, by decide, by decide⟩).1
  exact (add_spec _ h1 (.net ⟨6, 1, 128⟩) ⟨by decide, by decide, by decide⟩).1
example : iterAddrs exT = [(4, 0x0a000100), (4, 0x0a000101), (4, 0x0a000102), (4, 0x0a000103), (6, 1)] := by
  rw [iterAddrs, iterCidrs_sorted _ (by decide +kernel)]; decide +kernel
example : size exT = 5 := by decide +kernel
/-- the IPv6 block is stored first here, iteration still starts with IPv4 -/
example : iterAddrs [⟨6, 1, 128⟩, ⟨4, 0xfffffffe, 31⟩] = [(4, 0xfffffffe), (4, 0xffffffff), (6, 1)] := by
  have e : iterCidrs [⟨6, 1, 128⟩, ⟨4, 0xfffffffe, 31⟩] = iterCidrs [⟨4, 0xfffffffe, 31⟩, ⟨6, 1, 128⟩] :=
    NV.Contains.sortNets_perm_eq _ _ (List.Perm.swap ..)
  rw [iterAddrs, e, iterCidrs_sorted _ (by decide +kernel)]; decide +kernel

/-! ### non-mutating operations leave their operands unchanged -/

/-- **a query changes nothing**: the store after any query step is the store before it — every
    slot, operands included.  (`stepQ` is the step the model assigns to a query; this is true by
    the way it is built, and is stated so that the construction is visible.) -/
theorem query_pure (maxint : Nat) (sets : Store) (q : QOp) :
    (stepQ maxint sets q).1 = sets ∧ (stepAny maxint sets (.q q)).1 = sets ∧
    ∀ m, getSet (stepQ maxint sets q).1 m = getSet sets m := ⟨rfl, rfl, fun _ => rfl⟩

/-- the row of queries the driver evaluates per `q` line hands the store back unchanged, and
    each answer is `evalQ` on that same store (so no query sees an effect of an earlier one) -/
theorem queries_pure (maxint : Nat) (sets : Store) (qs : List QOp) :
    (runQs maxint sets qs).1 = sets ∧ (runQs maxint sets qs).2 = qs.map (evalQ maxint sets) :=
  ⟨runQs_fst maxint sets qs, runQs_snd maxint sets qs⟩

/-- **a binary operator changes no operand**: `k := i <op> j` rebinds slot `k` and nothing else;
    with `k` different from `i` and `j` both operands are exactly as before, and the result is
    the operator applied to them.  (For `k = i`, as in `a = a | b`, the slot is rebound to the
    result by the assignment; the result is still computed from the old operands.) -/
theorem bin_pure (sets : Store) (k i j : Nat) (o : BinOp) :
    (∀ m, m ≠ k → getSet (stepOp sets (.bin k i j o)).1 m = getSet sets m) ∧
    (k ≠ i → k ≠ j → getSet (stepOp sets (.bin k i j o)).1 i = getSet sets i ∧
                      getSet (stepOp sets (.bin k i j o)).1 j = getSet sets j) ∧
    getSet (stepOp sets (.bin k i j o)).1 k = binOp o (getSet sets i) (getSet sets j) ∧
    (stepOp sets (.bin k i j o)).2.2 = none :=
  ⟨fun m hm => bin_other sets k i j o m hm,
   fun hi hj => ⟨bin_other sets k i j o i (fun e => hi e.symm), bin_other sets k i j o j (fun e => hj e.symm)⟩,
   bin_result sets k i j o, rfl⟩

example : (2 : Nat) ≠ 0 ∧ (2 : Nat) ≠ 1 := by decide

/-! ### queries anywhere in a history -/

/-- the constructions / mutations of a mixed history, queries dropped -/
def opsOf : List Step → List Op
  | [] => []
  | .op o :: r => o :: opsOf r
  | .q _ :: r => opsOf r

/-- a mixed history of operations and queries, run from no sets at all -/
def runSteps (maxint : Nat) (steps : List Step) : Store :=
  steps.foldl (fun st x => (stepAny maxint st x).1) []

/-- **queries can be erased from a history**: interleaving any queries at any points changes
    nothing for the operations that follow — the store reached is the one the operations alone
    reach -/
theorem queries_erasable (maxint : Nat) (steps : List Step) :
    runSteps maxint steps = runOps (opsOf steps) := by
  unfold runSteps runOps
  generalize ([] : Store) = st
  induction steps generalizing st with
  | nil => rfl
  | cons x r ih =>
    cases x with
    | op o => simp only [List.foldl_cons, opsOf]; exact ih _
    | q q => simp only [List.foldl_cons, opsOf]; exact ih _

/-- hence every set reached by a history with queries sprinkled in is canonical and denotes
    what plain set theory assigns to its operations (C06.reachable), and every query asked at the
    end is answered about exactly that set -/
theorem reachable_mixed (maxint : Nat) (steps : List Step) (hok : ∀ op ∈ opsOf steps, op.OK) (i : Nat) :
    Inv (getSet (runSteps maxint steps) i) ∧
    ∀ u a, denS (getSet (runSteps maxint steps) i) u a ↔ (runBoth (opsOf steps)).2 i u a := by
  rw [queries_erasable]; exact C06.reachable (opsOf steps) hok i

example : opsOf [.op (.newNet 0 ⟨4, 0x0a000005, 24⟩), .q (.len 0), .op (.add 0 (.net ⟨6, 1, 128⟩)), .q (.iter 0)] =
    [.newNet 0 ⟨4, 0x0a000005, 24⟩, .add 0 (.net ⟨6, 1, 128⟩)] := rfl

/-! ### none of the queries fails, except the two documented errors -/

/-- **totality**: a query raises in exactly two situations — `len()` raises IndexError iff
    `size > sys.maxsize`, `iprange()` raises ValueError iff the set is not contiguous — and never
    anything else: no other query raises, and these two raise no other error.  No invariant and
    no condition on the store is needed (top addresses, mixed families, unset slots included). -/
theorem query_total (maxint : Nat) (sets : Store) (q : QOp) (e : Err) :
    evalQ maxint sets q = .error e ↔
      (∃ i, q = .len i ∧ e = .index ∧ size (getSet sets i) > maxint) ∨
      (∃ i, q = .iprange i ∧ e = .value ∧ iscontiguous (getSet sets i) = false) :=
  evalQ_error_iff maxint sets q e

/-- the same, read positively: every other query, `len` up to `sys.maxsize` and `iprange` of a
    contiguous set return a value -/
theorem query_ok_iff (maxint : Nat) (sets : Store) (q : QOp) :
    (∃ v, evalQ maxint sets q = .ok v) ↔
      (∀ i, q = .len i → size (getSet sets i) ≤ maxint) ∧
      (∀ i, q = .iprange i → iscontiguous (getSet sets i) = true) := by
  constructor
  · rintro ⟨v, hv⟩
    constructor
    · intro i hq
      apply Nat.le_of_not_gt
      intro hgt
      have := (query_total maxint sets q .index).2 (Or.inl ⟨i, hq, rfl, hgt⟩)
      rw [hv] at this; cases this
    · intro i hq
      cases hc : iscontiguous (getSet sets i) with
      | true => rfl
      | false =>
        have := (query_total maxint sets q .value).2 (Or.inr ⟨i, hq, rfl, hc⟩)
        rw [hv] at this; cases this
  · rintro ⟨h1, h2⟩
    cases hq : evalQ maxint sets q with
    | ok v => exact ⟨v, rfl⟩
    | error e =>
      rcases (query_total maxint sets q e).1 hq with ⟨i, hqi, _, hgt⟩ | ⟨i, hqi, _, hc⟩
      · exact absurd (h1 i hqi) (Nat.not_le_of_gt hgt)
      · rw [h2 i hqi] at hc; cases hc

/-- the two errors do occur, and only there: 2^64 addresses against a 63-bit `sys.maxsize`; a
    set with a hole -/
example : evalQ (2 ^ 63 - 1) [[⟨6, 0, 64⟩]] (.len 0) = .error .index := by decide +kernel
example : evalQ (2 ^ 63 - 1) [[⟨6, 0, 64⟩]] (.size 0) = .ok (.nat (2 ^ 64)) := by decide +kernel
example : evalQ (2 ^ 63 - 1) [exS] (.iprange 0) = .error .value := by
  show (iprange exS).map QVal.rng = _
  rw [iprange, iscontiguous, iterCidrs_sorted _ (by decide +kernel)]; decide +kernel

/-- what the driver evaluates is `evalQ` (the dictionary keys of the right operand are computed
    once per query instead of once per lookup) -/
theorem driver_eval_eq (maxint : Nat) (sets : Store) (q : QOp) :
    evalQFast maxint sets q = evalQ maxint sets q := evalQFast_eq maxint sets q

/-- `<=` / `>=` are `issubset` / `issuperset`, `!=` is the negation of `==` -/
theorem le_ge_ne (s t : St) :
    IPSet.le s t = issubset s t ∧ IPSet.ge s t = issuperset s t ∧ IPSet.ne s t = !(IPSet.eq s t) := ⟨rfl, rfl, rfl⟩

end NV.C07
