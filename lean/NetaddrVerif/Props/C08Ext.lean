/-
Props/C08Ext.lean — property C08, second part: exception classes of the constructor (for the
function `ofAnyF` the driver runs, which catches only AddrFormatError as the code does), the
decimal-string fallback, the final-newline acceptance, slicing `e[a:b:c]`, `format(dialect)`, and
`is_iab` / `iab` on receivers of either version.  Property theorems only; helper lemmas are in
Lemmas/C08LCtor.lean and Lemmas/C08LSlice.lean.
-/
import NetaddrVerif.Props.C08
import NetaddrVerif.Lemmas.C08LCtor
import NetaddrVerif.Lemmas.C08LSlice
namespace NV.C08
open NV NV.Eui NV.Codec NV.Gen NV.PyL NV.C08L.Ctor NV.C08L.Slice

/-! ## the constructor the driver runs, and its exception classes -/

/-- `ofAnyF` (only `AddrFormatError` of `str_to_int` is caught, as in `_set_value`) and `ofAny`
    (every error is turned into AddrFormatError) are the same function: every theorem of
    Props/C08.lean about `ofAny` (`roundtrip*`, `spellings*`, `ofAny_int`, `spellings_other_version`,
    `eui64_spec` …) is a theorem about `ofAnyF` -/
theorem ctor_faithful : ofAnyF = ofAny := by
  funext a ver; exact ofAnyF_eq a ver

/-- `str_to_int` of either family on ANY string: AddrFormatError, or a value inside the width —
    in particular the `int(w, 16)` calls inside never raise ValueError -/
theorem str_to_int_total (s : List Char) :
    (strToInt48 s = .error .addrFormat ∨ ∃ v, strToInt48 s = .ok v ∧ v < 2 ^ 48) ∧
    (strToInt64 s = .error .addrFormat ∨ ∃ v, strToInt64 s = .ok v ∧ v < 2 ^ 64) :=
  ⟨strToInt48_total s, strToInt64_total s⟩

private theorem m48 : Eui.maxInt 48 = 2 ^ 48 - 1 := by decide
private theorem m64 : Eui.maxInt 64 = 2 ^ 64 - 1 := by decide

private theorem ofAnyF_some48 (a : AddrArg) : ofAnyF a (some 48) = setExplicitF 48 a := by
  unfold ofAnyF; simp only []; rw [if_pos (by decide)]; rfl

private theorem ofAnyF_some64 (a : AddrArg) : ofAnyF a (some 64) = setExplicitF 64 a := by
  unfold ofAnyF; simp only []; rw [if_pos (by decide)]; rfl

/-- integers, negative ones included: with no version, 0 … 2^48-1 is an EUI-48, 2^48 … 2^64-1 an
    EUI-64, anything else a **TypeError**; with an explicit version exactly the range of that
    version is accepted and anything else is an **AddrFormatError**; a version other than 48 /
    64 is a **ValueError** whatever the address is -/
theorem ofAnyF_int (n : Int) :
    (0 ≤ n → n < 2 ^ 48 → ofAnyF (.int n) none = .ok (48, n.toNat)) ∧
    (2 ^ 48 ≤ n → n < 2 ^ 64 → ofAnyF (.int n) none = .ok (64, n.toNat)) ∧
    (n < 0 ∨ 2 ^ 64 ≤ n → ofAnyF (.int n) none = .error .type_) ∧
    (0 ≤ n → n < 2 ^ 48 → ofAnyF (.int n) (some 48) = .ok (48, n.toNat)) ∧
    (n < 0 ∨ 2 ^ 48 ≤ n → ofAnyF (.int n) (some 48) = .error .addrFormat) ∧
    (0 ≤ n → n < 2 ^ 64 → ofAnyF (.int n) (some 64) = .ok (64, n.toNat)) ∧
    (n < 0 ∨ 2 ^ 64 ≤ n → ofAnyF (.int n) (some 64) = .error .addrFormat) := by
  have key : ofAnyF (.int n) none =
      if (0 : Int) ≤ n ∧ n ≤ 0xffffffffffff then setExplicitF 48 (.int n)
      else if (0xffffffffffff : Int) < n ∧ n ≤ 0xffffffffffffffff then setExplicitF 64 (.int n)
      else .error .type_ := rfl
  have e48 : setExplicitF 48 (.int n) =
      if 0 ≤ n ∧ n ≤ ((2 ^ 48 - 1 : Nat) : Int) then .ok (48, n.toNat) else .error .addrFormat := by
    simp only [setExplicitF, m48]
  have e64 : setExplicitF 64 (.int n) =
      if 0 ≤ n ∧ n ≤ ((2 ^ 64 - 1 : Nat) : Int) then .ok (64, n.toNat) else .error .addrFormat := by
    simp only [setExplicitF, m64]
  have c48 : ((2 ^ 48 - 1 : Nat) : Int) = 281474976710655 := by decide
  have c64 : ((2 ^ 64 - 1 : Nat) : Int) = 18446744073709551615 := by decide
  refine ⟨?_, ?_, ?_, ?_, ?_, ?_, ?_⟩
  · intro h0 h; rw [key, if_pos (by omega), e48, if_pos (by omega)]
  · intro h0 h; rw [key, if_neg (by omega), if_pos (by omega), e64, if_pos (by omega)]
  · intro h; rw [key, if_neg (by omega), if_neg (by omega)]
  · intro h0 h; rw [ofAnyF_some48, e48, if_pos (by omega)]
  · intro h; rw [ofAnyF_some48, e48, if_neg (by omega)]
  · intro h0 h; rw [ofAnyF_some64, e64, if_pos (by omega)]
  · intro h; rw [ofAnyF_some64, e64, if_neg (by omega)]

example : ofAnyF (.int (-1)) none = .error .type_ := by rfl
example : ofAnyF (.int (-1)) (some 48) = .error .addrFormat := by rfl
example : ofAnyF (.int 5) (some 32) = .error .value := by rfl

/-- **the exception class of every rejected constructor call**: ValueError exactly for a
    version other than 48 / 64 (whatever the address); TypeError exactly for an integer outside
    0 … 2^64-1 with no version; AddrFormatError in every other rejected case (a string that is
    not an EUI of the requested version / of any version, an integer outside the explicit
    version's range) -/
theorem ofAnyF_error_class (a : AddrArg) (ver : Option Int) (e : Err) (h : ofAnyF a ver = .error e) :
    (e = .value ∧ ∃ k, ver = some k ∧ k ≠ 48 ∧ k ≠ 64) ∨
    (e = .type_ ∧ ver = none ∧ ∃ n, a = .int n ∧ (n < 0 ∨ 2 ^ 64 ≤ n)) ∨
    (e = .addrFormat ∧ (ver = some 48 ∨ ver = some 64 ∨ (ver = none ∧ ∃ s, a = .str s))) := by
  have hexp : ∀ w a, setExplicitF w a = .error e → e = .addrFormat := by
    intro w a h
    rw [setExplicitF_eq] at h
    cases a with
    | int n =>
      simp only [setExplicit] at h
      split at h
      · cases h
      · injection h with h; exact h.symm
    | str s =>
      simp only [setExplicit] at h
      split at h
      · cases h
      · injection h with h; exact h.symm
  cases ver with
  | some k =>
    by_cases hk : k = 48 ∨ k = 64
    · right; right
      have h' : setExplicitF k.toNat a = .error e := by
        unfold ofAnyF at h; simp only [] at h; rw [if_pos hk] at h; exact h
      refine ⟨hexp _ _ h', ?_⟩
      rcases hk with rfl | rfl
      · exact Or.inl rfl
      · exact Or.inr (Or.inl rfl)
    · left
      have : ofAnyF a (some k) = .error .value := by
        unfold ofAnyF; simp only []; rw [if_neg hk]
      rw [this] at h
      injection h with h
      exact ⟨h.symm, k, rfl, fun e => hk (Or.inl e), fun e => hk (Or.inr e)⟩
  | none =>
    cases a with
    | int n =>
      by_cases h0 : n < 0 ∨ 2 ^ 64 ≤ n
      · right; left
        rw [(ofAnyF_int n).2.2.1 h0] at h
        injection h with h
        exact ⟨h.symm, rfl, n, rfl, h0⟩
      · exfalso
        by_cases h1 : n < 2 ^ 48
        · rw [(ofAnyF_int n).1 (by omega) h1] at h; cases h
        · rw [(ofAnyF_int n).2.1 (by omega) (by omega)] at h; cases h
    | str s =>
      right; right
      refine ⟨?_, Or.inr (Or.inr ⟨rfl, s, rfl⟩)⟩
      have h' : setImplicitStr s = .error e := h
      unfold setImplicitStr at h'
      rcases strToInt48_total s with h48 | ⟨v, h48, _⟩
      · rcases strToInt64_total s with h64 | ⟨w, h64, _⟩
        · simp only [h48, h64] at h'
          split at h'
          · injection h' with h'; exact h'.symm
          · split at h'
            · cases h'
            · split at h'
              · cases h'
              · injection h' with h'; exact h'.symm
        · simp only [h48, h64] at h'; cases h'
      · simp only [h48] at h'; cases h'

/-- the round trips of Props/C08.lean, stated for the constructor the driver runs -/
theorem roundtrip48_F (d : Dialect) (hd : d ∈ macDialects) (v : Nat) (hv : v < 2 ^ 48) :
    ∃ s, Eui.str d v = .ok s ∧ ofAnyF (.str s) none = .ok (48, v) ∧ ofAnyF (.str s) (some 48) = .ok (48, v) := by
  rw [ctor_faithful]; exact roundtrip48 d hd v hv

theorem roundtrip64_F (d : Dialect) (hd : d ∈ eui64Dialects) (v : Nat) (hv : v < 2 ^ 64) :
    ∃ s, Eui.str d v = .ok s ∧ ofAnyF (.str s) none = .ok (64, v) ∧ ofAnyF (.str s) (some 64) = .ok (64, v) := by
  rw [ctor_faithful]; exact roundtrip64 d hd v hv

/-- a string with an explicit version: accepted exactly when `str_to_int` of that version accepts
    it, otherwise AddrFormatError (never the decimal fallback) -/
theorem ofAnyF_str_explicit (s : List Char) :
    (∀ v, strToInt48 s = .ok v → ofAnyF (.str s) (some 48) = .ok (48, v)) ∧
    (strToInt48 s = .error .addrFormat → ofAnyF (.str s) (some 48) = .error .addrFormat) ∧
    (∀ v, strToInt64 s = .ok v → ofAnyF (.str s) (some 64) = .ok (64, v)) ∧
    (strToInt64 s = .error .addrFormat → ofAnyF (.str s) (some 64) = .error .addrFormat) := by
  refine ⟨?_, ?_, ?_, ?_⟩
  · intro v h; rw [ofAnyF_some48]; simp only [setExplicitF, strToInt, if_true, h]
  · intro h; rw [ofAnyF_some48]; simp only [setExplicitF, strToInt, if_true, h]
  · intro v h; rw [ofAnyF_some64]; simp only [setExplicitF, strToInt, show ¬ (64 = 48) by decide, if_false, h]
  · intro h; rw [ofAnyF_some64]; simp only [setExplicitF, strToInt, show ¬ (64 = 48) by decide, if_false, h]

/-! ## the decimal-string fallback -/

/-- **the integer fallback**: a string that neither family's `str_to_int` accepts is handed to
    `int()`; a non-negative result below 2^48 is an EUI-48, below 2^64 an EUI-64, anything else
    (or a ValueError of `int()`) is an AddrFormatError; with an explicit version there is no
    fallback -/
theorem int_fallback (s : List Char) (h48 : strToInt48 s = .error .addrFormat)
    (h64 : strToInt64 s = .error .addrFormat) :
    (Py.pyInt 10 s = none → ofAnyF (.str s) none = .error .addrFormat) ∧
    (∀ n : Int, Py.pyInt 10 s = some n →
      (0 ≤ n → n < 2 ^ 48 → ofAnyF (.str s) none = .ok (48, n.toNat)) ∧
      (2 ^ 48 ≤ n → n < 2 ^ 64 → ofAnyF (.str s) none = .ok (64, n.toNat)) ∧
      (n < 0 ∨ 2 ^ 64 ≤ n → ofAnyF (.str s) none = .error .addrFormat)) ∧
    ofAnyF (.str s) (some 48) = .error .addrFormat ∧ ofAnyF (.str s) (some 64) = .error .addrFormat := by
  have key : ofAnyF (.str s) none = match Py.pyInt 10 s with
      | none => .error .addrFormat
      | some n =>
        if 0 ≤ n ∧ n ≤ (Eui.maxInt 48 : Int) then .ok (48, n.toNat)
        else if 0 ≤ n ∧ n ≤ (Eui.maxInt 64 : Int) then .ok (64, n.toNat)
        else .error .addrFormat := by
    show setImplicitStr s = _
    unfold setImplicitStr
    simp only [h48, h64]
    rfl
  have c48 : ((Eui.maxInt 48 : Nat) : Int) = 281474976710655 := by rw [m48]; decide
  have c64 : ((Eui.maxInt 64 : Nat) : Int) = 18446744073709551615 := by rw [m64]; decide
  refine ⟨?_, ?_, (ofAnyF_str_explicit s).2.1 h48, (ofAnyF_str_explicit s).2.2.2 h64⟩
  · intro h; rw [key, h]
  · intro n h
    rw [key, h]
    simp only [c48, c64]
    refine ⟨?_, ?_, ?_⟩
    · intro a b; rw [if_pos (by omega)]
    · intro a b; rw [if_neg (by omega), if_pos (by omega)]
    · intro a; rw [if_neg (by omega), if_neg (by omega)]

/-- **`EUI('1234')`**: a non-empty string of decimal digits that is not 11, 12 or 16 characters
    long matches no pattern and denotes its decimal value — an EUI-48 below 2^48, an EUI-64 below
    2^64, rejected above; with an explicit version it is rejected -/
theorem decimal_string (s : List Char) (h : DecStr s)
    (hl : s.length ≠ 11 ∧ s.length ≠ 12 ∧ s.length ≠ 16) :
    (digitsNat 10 s 0 < 2 ^ 48 → ofAnyF (.str s) none = .ok (48, digitsNat 10 s 0)) ∧
    (2 ^ 48 ≤ digitsNat 10 s 0 → digitsNat 10 s 0 < 2 ^ 64 → ofAnyF (.str s) none = .ok (64, digitsNat 10 s 0)) ∧
    (2 ^ 64 ≤ digitsNat 10 s 0 → ofAnyF (.str s) none = .error .addrFormat) ∧
    ofAnyF (.str s) (some 48) = .error .addrFormat ∧ ofAnyF (.str s) (some 64) = .error .addrFormat := by
  have h48 := dec_no_mac s h ⟨hl.1, hl.2.1⟩
  have h64 := dec_no_eui64 s h hl.2.2
  obtain ⟨_, hn, e48, e64⟩ := int_fallback s h48 h64
  obtain ⟨a, b, c⟩ := hn _ (pyInt10_dec s h)
  refine ⟨?_, ?_, ?_, e48, e64⟩
  · intro hlt
    have := a (Int.natCast_nonneg _) (by exact_mod_cast hlt)
    rwa [Int.toNat_natCast] at this
  · intro h1 h2
    have := b (by exact_mod_cast h1) (by exact_mod_cast h2)
    rwa [Int.toNat_natCast] at this
  · intro h1
    exact c (Or.inr (by exact_mod_cast h1))

example : DecStr "1234".toList := ⟨by decide, by decide⟩
example : strToInt48 "1234".toList = .error .addrFormat ∧ strToInt64 "1234".toList = .error .addrFormat := ⟨by rfl, by rfl⟩
example : strToInt48 " 12_34 ".toList = .error .addrFormat ∧ Py.pyInt 10 " 12_34 ".toList = some 1234 := ⟨by rfl, by rfl⟩
example : ofAnyF (.str "1234".toList) none = .ok (48, 1234) := by rfl
example : ofAnyF (.str "281474976710656".toList) none = .ok (64, 2 ^ 48) := by rfl
example : ofAnyF (.str "1234".toList) (some 48) = .error .addrFormat := by rfl

/-- … whereas a decimal-digit string of exactly 12 or 11 characters is a bare EUI-48 and one of
    exactly 16 characters a bare EUI-64: it is read in base 16 (the F9 repair: the string
    parsers of both families come before `int()`) -/
theorem decimal_bare_is_hex (s : List Char) (h : DecStr s) :
    (s.length = 12 ∨ s.length = 11 → ofAnyF (.str s) none = .ok (48, digitsNat 16 s 0)) ∧
    (s.length = 16 → ofAnyF (.str s) none = .ok (64, digitsNat 16 s 0)) := by
  obtain ⟨hsp, he⟩ := dec_spelling s h
  have hv : beWordsValue 48 ([s].map tokVal) = digitsNat 16 s 0 ∧
      beWordsValue 64 ([s].map tokVal) = digitsNat 16 s 0 := by
    simp [beWordsValue, leValue, tokVal]
  rw [ctor_faithful]
  constructor
  · intro hlen
    rcases hlen with hlen | hlen
    · obtain ⟨p, hp, _, _, r, _⟩ := spellings48 ⟨[], 1, 12, 12⟩ (by decide) ':' [s] hsp (Or.inr ⟨rfl, rfl⟩) rfl
        (by intro t ht; simp only [List.mem_singleton] at ht; subst ht; simp [hlen])
      have : p = 12 := by simpa [pad48] using hp.symm
      subst this
      rw [he] at r; rw [r, hv.1]
    · obtain ⟨p, hp, _, _, r, _⟩ := spellings48 ⟨[], 1, 11, 11⟩ (by decide) ':' [s] hsp (Or.inr ⟨rfl, rfl⟩) rfl
        (by intro t ht; simp only [List.mem_singleton] at ht; subst ht; simp [hlen])
      have : p = 12 := by simpa [pad48] using hp.symm
      subst this
      rw [he] at r; rw [r, hv.1]
  · intro hlen
    obtain ⟨p, hp, _, _, _, r, _⟩ := spellings64 ⟨[], 1, 16, 16⟩ (by decide) ':' [s] hsp (Or.inr ⟨rfl, rfl⟩) rfl
      (by intro t ht; simp only [List.mem_singleton] at ht; subst ht; simp [hlen])
    have : p = 16 := by simpa [pad64] using hp.symm
    subst this
    rw [he] at r; rw [r, hv.2]

example : ofAnyF (.str "0000000041000000".toList) none = .ok (64, 0x41000000) := by rfl
example : ofAnyF (.str "123456789012".toList) none = .ok (48, 0x123456789012) := by rfl

/-! ## a final newline -/

/-- **Python's `$`**: one final newline after a string without newlines changes nothing — the
    same value / version or the same rejection, with implicit and with explicit version (for the
    integer fallback because `int()` strips whitespace) -/
theorem trailing_newline (s : List Char) (h : '\n' ∉ s) :
    ofAnyF (.str (s ++ ['\n'])) none = ofAnyF (.str s) none ∧
    ofAnyF (.str (s ++ ['\n'])) (some 48) = ofAnyF (.str s) (some 48) ∧
    ofAnyF (.str (s ++ ['\n'])) (some 64) = ofAnyF (.str s) (some 64) := by
  have a := strToInt48_newline s h
  have b := strToInt64_newline s h
  refine ⟨?_, ?_, ?_⟩
  · show setImplicitStr (s ++ ['\n']) = setImplicitStr s
    unfold setImplicitStr
    rw [a, b, pyInt_newline]
  · rw [ofAnyF_some48, ofAnyF_some48]; simp only [setExplicitF, strToInt, if_true, a]
  · rw [ofAnyF_some64, ofAnyF_some64]; simp only [setExplicitF, strToInt, show ¬ (64 = 48) by decide, if_false, b]

example : '\n' ∉ "00-1B-77-49-54-FD".toList := by decide
example : ofAnyF (.str "00-1B-77-49-54-FD\n".toList) none = .ok (48, 0x001b774954fd) := by rfl
example : ofAnyF (.str "1234\n".toList) none = .ok (48, 1234) := by rfl
example : ofAnyF (.str "00-1B-77-49-54-FD\n\n".toList) none = .error .addrFormat := by rfl

/-! ## slicing -/

/-- **`e[a:b:c]`** under the object's own dialect, for every dialect (word size / word count):
    step 0 is a ValueError; otherwise, with `(s, e, st) = slice(a, b, c).indices(num_words)`, the
    result is the list of words at the positions `range(s, e, st)` in that order — every such
    position is a valid one (never an IndexError), the word at position `i` is digit
    `num_words-1-i` of the value in base `2^word_size`, and it is what `e[i]` returns -/
theorem getSlice_spec (v : Nat) (d : Dialect) (hv : v < 2 ^ (d.numWords * d.wordSize)) (a b c : Option Int) :
    (c = some 0 → getSlice v d a b c = .error .value) ∧
    (c ≠ some 0 → ∃ s e st, Py.sliceIndices a b c d.numWords = some (s, e, st)) ∧
    (∀ s e st, Py.sliceIndices a b c d.numWords = some (s, e, st) →
      getSlice v d a b c = .ok ((Py.pyRange s e st).map (fun i =>
        v / 2 ^ (d.wordSize * (d.numWords - 1 - i.toNat)) % 2 ^ d.wordSize)) ∧
      getSlice v d a b c = (Py.pyRange s e st).mapM (getIdx v d) ∧
      ∀ i ∈ Py.pyRange s e st, 0 ≤ i ∧ i < d.numWords) := by
  refine ⟨?_, ?_, ?_⟩
  · intro hc; subst hc; exact getSlice_step0 v d hv a b
  · intro hc
    cases hs : Py.sliceIndices a b c d.numWords with
    | none => exact absurd ((sliceIndices_none_iff a b c d.numWords).1 hs) hc
    | some t => exact ⟨t.1, t.2.1, t.2.2, rfl⟩
  · intro s e st hs
    have hin := ListLike.sliceIdx_in_range a b c d.numWords s e st hs
    have hok := getSlice_ok v d hv a b c s e st hs
    refine ⟨hok, ?_, hin⟩
    rw [hok]
    symm
    apply ListLike.mapM_ok
    intro i hi
    obtain ⟨h0, h1⟩ := hin i hi
    have := (getIdx_spec v d hv i).1 i.toNat (by omega) (by omega)
    rw [this]; rfl

/-- `e[:]` is the whole word list of the dialect and `e[::-1]` the same list reversed -/
theorem getSlice_whole (v : Nat) (d : Dialect) (hv : v < 2 ^ (d.numWords * d.wordSize)) :
    getSlice v d none none none = intToWords v d.wordSize d.numWords ∧
    getSlice v d none none (some (-1)) = (intToWords v d.wordSize d.numWords).map List.reverse :=
  ⟨getSlice_all v d hv, getSlice_rev v d hv⟩

example : Py.sliceIndices (some (-2)) none (some (-1)) 6 = some (4, -1, -1) := by rfl
example : getSlice 0x001b774954fd macDefault (some (-2)) none (some (-1)) = .ok [0x54, 0x49, 0x77, 0x1b, 0x00] := by rfl
example : getSlice 0x001b774954fd ⟨"mac_cisco", 16, 3, ['.'], 4, false⟩ (some 1) none none = .ok [0x7749, 0x54fd] := by rfl
example : getSlice 0x001b774954fd macDefault (some 1) (some 5) (some 2) = .ok [0x1b, 0x49] := by rfl
example : getSlice 0x001b774954fd macDefault none none (some 0) = .error .value := by rfl

/-! ## format(dialect) -/

/-- **`format(dialect)`** prints the value under the dialect passed in — the text `str()` gives
    for an EUI of that dialect — and `format()` / `format(None)` under the default dialect of the
    receiver's version (mac_eui48 / eui64_base), whatever the receiver's own dialect is (the
    model function has no argument for it; the harness varies it) -/
theorem format_spec (v : Nat) :
    (∀ ver d, Eui.format ver v (some d) = Eui.str d v) ∧
    Eui.format 48 v none = Eui.str macDefault v ∧ Eui.format 64 v none = Eui.str eui64Default v :=
  ⟨fun _ _ => rfl, rfl, rfl⟩

/-- the text of `format(dialect)` for a built-in dialect of the receiver's family parses back to
    the receiver's value and version -/
theorem format_roundtrip (v : Nat) :
    (v < 2 ^ 48 → ∀ d ∈ macDialects, ∃ s, Eui.format 48 v (some d) = .ok s ∧ ofAnyF (.str s) none = .ok (48, v)) ∧
    (v < 2 ^ 64 → ∀ d ∈ eui64Dialects, ∃ s, Eui.format 64 v (some d) = .ok s ∧ ofAnyF (.str s) none = .ok (64, v)) := by
  constructor
  · intro hv d hd
    obtain ⟨s, a, b, _⟩ := roundtrip48_F d hd v hv
    exact ⟨s, a, b⟩
  · intro hv d hd
    obtain ⟨s, a, b, _⟩ := roundtrip64_F d hd v hv
    exact ⟨s, a, b⟩

example : Eui.format 48 0x001b774954fd (some ⟨"mac_cisco", 16, 3, ['.'], 4, false⟩) = .ok "001b.7749.54fd".toList := by rfl
example : Eui.format 48 0x001b774954fd none = .ok "00-1B-77-49-54-FD".toList := by rfl

/-! ## is_iab / iab on receivers of either version -/

/-- `is_iab()` / `iab` of an EUI-48 receiver: bits 24 and up of the value against the IAB base OUIs,
    `iab` = the top 36 bits -/
theorem iab_split48 (v : Nat) :
    (isIabOf 48 v = true ↔ (v / 2 ^ 24 = 0x0050c2 ∨ v / 2 ^ 24 = 0x40d855)) ∧
    (isIabOf 48 v = true → iabOf 48 v = .ok (some (v / 2 ^ 12))) ∧
    (isIabOf 48 v = false → iabOf 48 v = .ok none) := iab_split v

/-- **EUI-64 receivers** ("split the value at the standard bit positions": the OUI of an EUI-64 is
    its top 24 bits, the 36-bit IAB its top 36 bits).  This is the behaviour of the repaired code
    (fix 14211a2); the pinned code shifted by 24 / 12 whatever the version, so that
    `EUI(0x0050c2000123, version=64).is_iab()` was True (its OUI is 00-00-00) and an EUI-64 under the
    IAB base OUI 00-50-C2 was never reported (finding F17). -/
theorem iab_split64 (v : Nat) :
    (isIabOf 64 v = true ↔ (v / 2 ^ 40 = 0x0050c2 ∨ v / 2 ^ 40 = 0x40d855)) ∧
    (isIabOf 64 v = true → iabOf 64 v = .ok (some (v / 2 ^ 28))) ∧
    (isIabOf 64 v = false → iabOf 64 v = .ok none) := by
  have hiff : isIabOf 64 v = true ↔ (v / 2 ^ 40 = 0x0050c2 ∨ v / 2 ^ 40 = 0x40d855) := by
    simp [isIabOf, iabEuiValues, Nat.shiftRight_eq_div_pow]
  refine ⟨hiff, ?_, ?_⟩
  · intro h
    have hc : iabEuiValues.contains (v >>> 40) = true := by simpa [isIabOf] using h
    have h' : iabEuiValues.contains ((v >>> 28) >>> 12) = true := by
      have : (v >>> 28) >>> 12 = v >>> 40 := by
        simp [Nat.shiftRight_eq_div_pow, Nat.div_div_eq_div_mul]
      rw [this]; exact hc
    simp only [iabOf, hc, if_true, splitIabMac, h']
    simp [Nat.shiftRight_eq_div_pow]
    rfl
  · intro h
    have hc : iabEuiValues.contains (v >>> 40) = false := by simpa [isIabOf] using h
    unfold iabOf
    rw [if_neg (by decide : ¬ (64 : Nat) = 48)]
    simp only [hc, Bool.false_eq_true, if_false]
    rfl

/-- `is_iab()` agrees with `oui` for both versions: an identifier is an IAB address exactly when its
    OUI field is one of the IAB base OUIs -/
theorem iab_iff_oui (ver v : Nat) (hver : ver = 48 ∨ ver = 64) (hv : v < 2 ^ ver) :
    isIabOf ver v = true ↔ ∃ o, oui ver v = .ok o ∧ iabEuiValues.contains o = true := by
  rcases hver with rfl | rfl
  · have ho := ((oui_ei_split v).1 hv).1
    constructor
    · intro h
      refine ⟨v / 2 ^ 24, ho, ?_⟩
      have := (iab_split v).1.1 h
      rw [iab_values]; rcases this with e | e <;> simp [e]
    · rintro ⟨o, hoo, hc⟩
      rw [ho] at hoo; injection hoo with hoo; subst hoo
      rw [iab_values] at hc
      have hc' : v / 2 ^ 24 = 0x0050c2 ∨ v / 2 ^ 24 = 0x40d855 := by simpa using hc
      exact (iab_split v).1.2 hc'
  · have ho := ((oui_ei_split v).2 hv).1
    constructor
    · intro h
      refine ⟨v / 2 ^ 40, ho, ?_⟩
      have := (iab_split64 v).1.1 h
      rw [iab_values]; rcases this with e | e <;> simp [e]
    · rintro ⟨o, hoo, hc⟩
      rw [ho] at hoo; injection hoo with hoo; subst hoo
      rw [iab_values] at hc
      have hc' : v / 2 ^ 40 = 0x0050c2 ∨ v / 2 ^ 40 = 0x40d855 := by simpa using hc
      exact (iab_split64 v).1.2 hc'

/-- the EUI-64 form of an IAB MAC is an IAB address too (same OUI field), and the witnesses of the old
    defect now read as the standard says -/
theorem iab_eui64_of_mac :
    (∀ v e, v < 2 ^ 48 → isIabOf 48 v = true → eui64 48 v = .ok (64, e) → isIabOf 64 e = true) ∧
    (isIabOf 64 0x0050c2fffe000123 = true ∧ iabOf 64 0x0050c2fffe000123 = .ok (some 0x0050c2fff)) ∧
    (isIabOf 64 0x0050c2000123 = false ∧ iabOf 64 0x0050c2000123 = .ok none) := by
  refine ⟨?_, ⟨by rfl, by rfl⟩, ⟨by rfl, by rfl⟩⟩
  intro v e hv hi he
  rw [(eui64_spec v).1 hv] at he
  have he' : e = v / 2 ^ 24 * 2 ^ 40 + 0xFFFE * 2 ^ 24 + v % 2 ^ 24 := by
    injection he with he; injection he with _ he; exact he.symm
  have h1 := ((iab_split v).1).1 hi
  apply (iab_split64 e).1.2
  omega

end NV.C08
