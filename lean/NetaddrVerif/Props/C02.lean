/-
Props/C02.lean — property C02 "Every network's derived attributes satisfy the CIDR bit
identities".  Property theorems only; helper lemmas are in Lemmas/NetworkL, Bitwise, Masks.

Statement (properties.jsonl): hostmask = 2^(width-p)-1, netmask its complement, network =
value AND netmask, first = int(network), last = first + hostmask, size = last-first+1 =
2^(width-p), broadcast = last (None for IPv4 /31, /32), ip = stored value, cidr = same block
with host bits cleared and the same prefix.  Assigning value / prefixlen / netmask keeps
these identities or raises (AddrFormatError/ValueError/TypeError) leaving the object
unchanged; is_netmask / is_hostmask / netmask_bits hold exactly for contiguous masks and
invert the prefix tables.
-/
import NetaddrVerif.Lemmas.NetworkL
namespace NV.C02
open NV

/-- The CIDR identities, for every width `w`, value `v < 2^w` and prefix `p ≤ w`
    (IPv4: w = 32, IPv6: w = 128).  `H = 2^(w-p)` is the block size. -/
theorem identities (w v p : Nat) (hv : v < 2 ^ w) (hp : p ≤ w) :
    netHostmask w p = 2 ^ (w - p) - 1 ∧
    netNetmask w p = 2 ^ w - 1 - netHostmask w p ∧
    netNetwork w v p = v / 2 ^ (w - p) * 2 ^ (w - p) ∧
    netFirst w v p = netNetwork w v p ∧
    netLast w v p = netFirst w v p + netHostmask w p ∧
    netSize w v p = 2 ^ (w - p) ∧
    netFirst w v p ≤ v ∧ v ≤ netLast w v p ∧ netLast w v p < 2 ^ w ∧
    netFirst w v p % 2 ^ (w - p) = 0 := by
  have hH := pw (w - p)
  have hle := pow_sub_le w p
  have hm : netHostmask w p = 2 ^ (w - p) - 1 := hostmaskInt_eq w p
  have hf := netFirst_eq w v p hv
  have hl := netLast_eq w v p
  have hb := block_lt w v p hv hp
  have hdm := Nat.div_add_mod' v (2 ^ (w - p))
  have hml := Nat.mod_lt v hH
  refine ⟨hm, ?_, hf, rfl, ?_, ?_, ?_, ?_, ?_, ?_⟩
  · show netmaskInt w p = _; rw [netmaskInt_eq, hm]; omega
  · rw [hl, hf, hm]
  · unfold netSize; rw [hl, hf]; omega
  · rw [hf]; omega
  · rw [hl]; omega
  · rw [hl]; omega
  · rw [hf]; exact Nat.mul_mod_left _ _

/-- broadcast is `last`, except that IPv4 /31 and /32 have none -/
theorem broadcast_spec (ver w v p : Nat) :
    netBroadcast ver w v p = if ver = 4 ∧ w - p ≤ 1 then none else some (netLast w v p) := by
  unfold netBroadcast netLast hostmaskInt; rfl

/-- `cidr` keeps version and prefix, clears exactly the host bits, and denotes the same block -/
theorem cidr_spec (n : Net) (h : n.WF) :
    (netCidr n).ver = n.ver ∧ (netCidr n).plen = n.plen ∧
    (netCidr n).val = n.first ∧ (netCidr n).val % 2 ^ (width n.ver - n.plen) = 0 ∧
    (netCidr n).first = n.first ∧ (netCidr n).last = n.last ∧ (netCidr n).WF := by
  obtain ⟨hver, hv, hp⟩ := h
  have id1 := identities (width n.ver) n.val n.plen hv hp
  obtain ⟨_, _, hnet, hfn, hlast, _, hfle, _, _, hmod⟩ := id1
  have hcv : (netCidr n).val = n.first := rfl
  have hflt : n.first < 2 ^ width n.ver := Nat.lt_of_le_of_lt hfle hv
  have hH := pw (width n.ver - n.plen)
  -- first of an aligned value is itself
  have hff : netFirst (width n.ver) n.first n.plen = n.first := by
    rw [netFirst_eq _ _ _ hflt]
    have := Nat.div_add_mod' n.first (2 ^ (width n.ver - n.plen))
    have hmod' : n.first % 2 ^ (width n.ver - n.plen) = 0 := hmod
    rw [hmod'] at this; omega
  refine ⟨rfl, rfl, hcv, ?_, ?_, ?_, ⟨hver, ?_, hp⟩⟩
  · rw [hcv]; exact hmod
  · show netFirst (width n.ver) (netCidr n).val n.plen = _; rw [hcv]; exact hff
  · show netLast (width n.ver) (netCidr n).val n.plen = netLast (width n.ver) n.val n.plen
    rw [hcv, netLast_eq, netLast_eq, ← netFirst_eq _ _ _ hflt, hff, ← netFirst_eq _ _ _ hv]; rfl
  · show (netCidr n).val < _; rw [hcv]; exact hflt

/-! ### setters -/

theorem setValue_err (n : Net) (x : SetArg) (e : Err) (h : setValue n x = .error e) :
    e = .addrFormat ∨ e = .type_ := by
  cases x <;> simp only [setValue] at h
  · split at h <;> simp_all
  all_goals simp_all

theorem setPrefixlen_err (n : Net) (x : SetArg) (e : Err) (h : setPrefixlen n x = .error e) :
    e = .addrFormat ∨ e = .type_ := by
  cases x <;> simp only [setPrefixlen] at h
  · split at h <;> simp_all
  all_goals simp_all

theorem addrOfSetArg_err (x : SetArg) (e : Err) (h : addrOfSetArg x = .error e) : e = .addrFormat := by
  cases x <;> simp only [addrOfSetArg] at h
  · split at h
    · simp at h
    · split at h <;> simp_all
  all_goals simp_all

theorem netmaskBits_err (w v : Nat) (e : Err) (h : netmaskBits w v = .error e) : e = .value := by
  unfold netmaskBits at h
  split at h
  · simp at h
  · split at h
    · simp at h
    · simp only at h
      split at h <;> simp_all

/-- a rejected assignment raises one of the three documented classes -/
theorem setter_error_class (n : Net) (op : SetOp) (e : Err) (h : applySet n op = .error e) :
    e = .addrFormat ∨ e = .value ∨ e = .type_ := by
  cases op with
  | value x => rcases setValue_err n x e h with h | h <;> simp [h]
  | prefixlen x => rcases setPrefixlen_err n x e h with h | h <;> simp [h]
  | netmask x =>
    simp only [applySet, setNetmask, bind, Except.bind] at h
    split at h
    · rename_i e' he
      have := addrOfSetArg_err x e' he; simp_all
    · split at h
      · simp_all
      · split at h
        · simp_all
        · split at h
          · rename_i e' he
            have := netmaskBits_err _ _ e' he; simp_all
          · rcases setPrefixlen_err n _ e h with h | h <;> simp [h]

/-- what a successful assignment does: exactly the assigned field changes, and stays in range -/
theorem setter_ok (n n' : Net) (op : SetOp) (hn : n.WF) (h : applySet n op = .ok n') :
    n'.WF ∧ n'.ver = n.ver ∧
    (match op with
     | .value _ => n'.plen = n.plen
     | .prefixlen _ => n'.val = n.val
     | .netmask _ => n'.val = n.val) := by
  obtain ⟨hver, hv, hp⟩ := hn
  cases op with
  | value x =>
    cases x with
    | int i =>
      simp only [applySet, setValue] at h
      split at h
      · rename_i hr
        injection h with h; subst h
        refine ⟨⟨hver, ?_, hp⟩, rfl, rfl⟩
        have hw := pw (width n.ver)
        simp only [maxInt] at hr
        show i.toNat < 2 ^ width n.ver
        omega
      · simp at h
    | addr a => simp [applySet, setValue] at h
    | junk => simp [applySet, setValue] at h
  | prefixlen x =>
    cases x with
    | int i =>
      simp only [applySet, setPrefixlen] at h
      split at h
      · rename_i hr
        injection h with h; subst h
        exact ⟨⟨hver, hv, by show i.toNat ≤ width n.ver; omega⟩, rfl, rfl⟩
      · simp at h
    | addr a => simp [applySet, setPrefixlen] at h
    | junk => simp [applySet, setPrefixlen] at h
  | netmask x =>
    simp only [applySet, setNetmask, bind, Except.bind] at h
    split at h
    · simp at h
    · split at h
      · simp at h
      · split at h
        · simp at h
        · split at h
          · simp at h
          · simp only [setPrefixlen] at h
            split at h
            · rename_i hr
              injection h with h; subst h
              exact ⟨⟨hver, hv, by dsimp only; omega⟩, rfl, rfl⟩
            · simp at h

/-- one assignment on a live object: well-formedness is kept, and a failing assignment
    leaves the object exactly as it was -/
theorem stepSet_spec (n : Net) (op : SetOp) (hn : n.WF) :
    (stepSet n op).1.WF ∧ ((stepSet n op).2 ≠ none → (stepSet n op).1 = n) := by
  unfold stepSet
  cases h : applySet n op with
  | ok n' => exact ⟨(setter_ok n n' op hn h).1, by simp⟩
  | error e => exact ⟨hn, by simp⟩

/-- every setter sequence on a live object keeps it well-formed (so `identities` keeps
    applying to it): induction over the sequence -/
theorem setters_preserve (ops : List SetOp) (n : Net) (hn : n.WF) :
    (ops.foldl (fun s o => (stepSet s o).1) n).WF := by
  induction ops generalizing n with
  | nil => exact hn
  | cons o os ih => exact ih _ (stepSet_spec n o hn).1

/-! ### mask predicates -/

theorem isHostmask_iff (v : Nat) : isHostmask v = true ↔ ∃ k, v = 2 ^ k - 1 := by
  unfold isHostmask
  simp only [Nat.add_sub_cancel, beq_iff_eq]
  exact hostmask_iff v

/-- `is_netmask` holds exactly for the `w+1` contiguous netmasks -/
theorem isNetmask_iff (w v : Nat) (hv : v < 2 ^ w) :
    isNetmask w v = true ↔ ∃ p, p ≤ w ∧ v = netNetmask w p := by
  unfold isNetmask
  simp only [Nat.add_sub_cancel, beq_iff_eq]
  rw [netmask_iff w v hv]
  constructor
  · rintro ⟨k, hk, rfl⟩
    refine ⟨w - k, by omega, ?_⟩
    show _ = netmaskInt w (w - k)
    rw [netmaskInt_eq]
    have : w - (w - k) = k := by omega
    rw [this]
    have := pw k; have : 2 ^ k ≤ 2 ^ w := Nat.pow_le_pow_right (by decide) hk
    omega
  · rintro ⟨p, hp, rfl⟩
    refine ⟨w - p, by omega, ?_⟩
    show netmaskInt w p = _
    rw [netmaskInt_eq]
    have := pw (w - p); have := pow_sub_le w p
    omega

/-- `netmask_bits` inverts `prefix -> netmask` for every prefix -/
theorem netmaskBits_netmask (w p : Nat) (hp : p ≤ w) : netmaskBits w (netNetmask w p) = .ok p := by
  have hw := pw w
  have hH := pw (w - p)
  have hle := pow_sub_le w p
  have hlt : netNetmask w p < 2 ^ w := by
    show netmaskInt w p < _; rw [netmaskInt_eq]; omega
  have hnm : isNetmask w (netNetmask w p) = true := (isNetmask_iff w _ hlt).2 ⟨p, hp, rfl⟩
  unfold netmaskBits
  simp only [hnm, Bool.not_true, Bool.false_eq_true, ite_false]
  have hval : netNetmask w p = 2 ^ w - 2 ^ (w - p) := netmaskInt_eq w p
  by_cases hp0 : p = 0
  · subst hp0; simp [hval]
  · have hpos : 0 < p := Nat.pos_of_ne_zero hp0
    have e : 2 ^ w = 2 ^ (w - p) * 2 ^ p := by rw [← Nat.pow_add]; congr 1; omega
    have hp2 : 2 ≤ 2 ^ p := by
      have : 2 ^ 1 ≤ 2 ^ p := Nat.pow_le_pow_right (by decide) hpos
      simpa using this
    have hodd : ∃ j, 2 ^ p - 1 = 2 * j + 1 := by
      refine ⟨2 ^ (p - 1) - 1, ?_⟩
      have e2 : 2 ^ p = 2 * 2 ^ (p - 1) := by
        have : p = (p - 1) + 1 := by omega
        rw [this, Nat.pow_succ]; simp; omega
      have := pw (p - 1)
      omega
    obtain ⟨j, hj⟩ := hodd
    have hfac : 2 ^ w - 2 ^ (w - p) = 2 ^ (w - p) * (2 * j + 1) := by
      rw [← hj, Nat.mul_sub, Nat.mul_one, ← e]
    have hne : ¬ (netNetmask w p = 0) := by
      rw [hval, hfac]
      have : 0 < 2 ^ (w - p) * (2 * j + 1) := Nat.mul_pos hH (by omega)
      omega
    simp only [hne, ite_false]
    rw [hval, hfac, trailingZeros_pow_mul]
    have : w - p ≤ w := by omega
    simp [this]; omega

/-- a value that is not a contiguous netmask reports the full width -/
theorem netmaskBits_nonmask (w v : Nat) (h : isNetmask w v = false) : netmaskBits w v = .ok w := by
  unfold netmaskBits; simp [h]

/-! ### the generated prefix tables (regenerated from /repo on every run) -/
open NV.Gen in
/-- the four IPv4 dictionaries are exactly `p ↦ netmask p`, its inverse, `p ↦ hostmask p`, its inverse -/
theorem tables4 :
    prefixToNetmask4 = (List.range 33).map (fun p => (p, netNetmask 32 p)) ∧
    netmaskToPrefix4 = (List.range 33).map (fun p => (netNetmask 32 p, p)) ∧
    prefixToHostmask4 = (List.range 33).map (fun p => (p, netHostmask 32 p)) ∧
    hostmaskToPrefix4 = ((List.range 33).map (fun p => (netHostmask 32 p, p))).reverse ∧
    width4 = 32 ∧ maxInt4 = 2 ^ 32 - 1 := by
  decide +kernel

open NV.Gen in
theorem tables6 :
    prefixToNetmask6 = (List.range 129).map (fun p => (p, netNetmask 128 p)) ∧
    netmaskToPrefix6 = (List.range 129).map (fun p => (netNetmask 128 p, p)) ∧
    prefixToHostmask6 = (List.range 129).map (fun p => (p, netHostmask 128 p)) ∧
    hostmaskToPrefix6 = ((List.range 129).map (fun p => (netHostmask 128 p, p))).reverse ∧
    width6 = 128 ∧ maxInt6 = 2 ^ 128 - 1 := by
  decide +kernel

open NV.Gen in
/-- one row of the inversion statement, IPv4 -/
def Inv4 (p : Nat) : Prop :=
  lookup netmaskToPrefix4 (netNetmask 32 p) = some p ∧
  lookup hostmaskToPrefix4 (netHostmask 32 p) = some p ∧
  lookup prefixToNetmask4 p = some (netNetmask 32 p) ∧
  lookup prefixToHostmask4 p = some (netHostmask 32 p)
instance (p : Nat) : Decidable (Inv4 p) := by unfold Inv4; infer_instance

open NV.Gen in
def Inv6 (p : Nat) : Prop :=
  lookup netmaskToPrefix6 (netNetmask 128 p) = some p ∧
  lookup hostmaskToPrefix6 (netHostmask 128 p) = some p ∧
  lookup prefixToNetmask6 p = some (netNetmask 128 p) ∧
  lookup prefixToHostmask6 p = some (netHostmask 128 p)
instance (p : Nat) : Decidable (Inv6 p) := by unfold Inv6; infer_instance

/-- table lookups invert each other on every prefix (finite tables: kernel evaluation over
    the whole table, lifted to all `p ≤ width`) -/
theorem tables_invert : (∀ p, p ≤ 32 → Inv4 p) ∧ (∀ p, p ≤ 128 → Inv6 p) := by
  constructor
  · have h : ∀ p, p < 33 → Inv4 p := by decide +kernel
    intro p hp; exact h p (by omega)
  · have h : ∀ p, p < 129 → Inv6 p := by decide +kernel
    intro p hp; exact h p (by omega)

/-! ### non-vacuity: the hypotheses are met by concrete non-trivial objects -/
example : (⟨4, 3232235777, 24⟩ : Net).WF := by simp [Net.WF, width]
example : netFirst 32 3232235777 24 = 3232235776 ∧ netLast 32 3232235777 24 = 3232236031 := by decide
example : applySet ⟨4, 5, 24⟩ (.netmask (.int 4294901760)) = .ok ⟨4, 5, 16⟩ := by decide +kernel
example : applySet ⟨4, 5, 24⟩ (.prefixlen (.int 33)) = .error .addrFormat := by decide
example : isNetmask 32 4294901760 = true ∧ isNetmask 32 4294901761 = false := by decide

end NV.C02
